(* C13 - round trip for a formal mangler: nested names (namespaces / classes), constructors,
   destructors and operators with builtin parameter types demangle to the qualified name. *)
From Coq Require Import ZArith List Bool Lia Ascii String.
Import ListNotations.
Require Import UV.C13.Model.
Local Open Scope Z_scope.

Ltac bool_lia :=
  match goal with
  | |- (_ <? _) = true => apply Z.ltb_lt; lia
  | |- (_ <? _) = false => apply Z.ltb_ge; lia
  | |- (_ <=? _) = true => apply Z.leb_le; lia
  | |- (_ <=? _) = false => apply Z.leb_gt; lia
  | |- (_ >? _) = _ => rewrite Z.gtb_ltb; bool_lia
  | |- (_ >=? _) = _ => rewrite Z.geb_leb; bool_lia
  | |- (_ =? _) = true => apply Z.eqb_eq; lia
  | |- (_ =? _) = false => apply Z.eqb_neq; lia
  | |- _ => lia
  end.
Ltac rwf t := let E := fresh "E" in assert (E : t = false) by bool_lia; rewrite E; clear E.
Ltac rwt t := let E := fresh "E" in assert (E : t = true) by bool_lia; rewrite E; clear E.

(* ================================================================ decimal numbers *)
Definition dval (ds : list Z) (acc : Z) : Z := fold_left (fun a c => a * 10 + (c - 48)) ds acc.

Lemma isdigit_range : forall c, isdigit c = true -> 48 <= c <= 57.
Proof. intros c H. unfold isdigit in H. lia. Qed.
Lemma digit_val_dec : forall c, isdigit c = true -> digit_val c = c - 48.
Proof. intros c H. unfold digit_val. rewrite H. reflexivity. Qed.
Lemma digit_val_nondec : forall c, isdigit c = false -> (digit_val c <? 10) = false.
Proof.
  intros c H. unfold digit_val. rewrite H.
  destruct ((97 <=? c) && (c <=? 102)) eqn:E1; [ lia |].
  destruct ((65 <=? c) && (c <=? 70)) eqn:E2; lia.
Qed.

Definition starts_nondigit (l : list Z) : Prop :=
  match l with [] => True | c :: _ => isdigit c = false end.

Lemma scan10_app : forall ds rest acc cnt,
  Forall (fun c => isdigit c = true) ds -> starts_nondigit rest ->
  scan_digits 10 (ds ++ rest) acc cnt = (dval ds acc, cnt + Z.of_nat (List.length ds)).
Proof.
  induction ds as [| d ds IH]; intros rest acc cnt Hd Hr.
  - cbn [app dval fold_left List.length]. replace (cnt + Z.of_nat 0) with cnt by lia.
    destruct rest as [| c r]; [ reflexivity |]. cbn [scan_digits]. cbn in Hr.
    rewrite (digit_val_nondec c Hr). reflexivity.
  - inversion Hd as [| ? ? Hd1 Hd2]; subst. cbn [app scan_digits].
    rewrite (digit_val_dec d Hd1). pose proof (isdigit_range d Hd1).
    rwt (d - 48 <? 10).
    rewrite IH by assumption. cbn [dval fold_left List.length]. f_equal. lia.
Qed.

Lemma dval_app : forall a b acc, dval (a ++ b) acc = dval b (dval a acc).
Proof. intros. unfold dval. apply fold_left_app. Qed.

Lemma dec_digits_spec : forall fuel v acc, 0 <= v < 10 ^ Z.of_nat fuel -> (1 <= fuel)%nat ->
  exists ds, dec_digits fuel v acc = ds ++ acc /\ Forall (fun c => isdigit c = true) ds /\
             dval ds 0 = v /\ ds <> [] /\ (0 < v -> hd 0 ds <> 48).
Proof.
  induction fuel as [| k IH]; intros v acc Hv Hf; [ exfalso; clear Hv; lia |].
  cbn [dec_digits].
  assert (Hm : 0 <= v mod 10 < 10) by (apply Z.mod_pos_bound; lia).
  assert (Hdig : isdigit (48 + v mod 10) = true) by (unfold isdigit; lia).
  destruct (v / 10 =? 0) eqn:E.
  - exists [48 + v mod 10]. apply Z.eqb_eq in E.
    assert (v = v mod 10) by (pose proof (Z.div_mod v 10 ltac:(lia)); lia).
    split; [ reflexivity |]. split; [ constructor; auto |].
    split; [ unfold dval; cbn [fold_left]; lia |]. split; [ discriminate |]. cbn [hd]. lia.
  - apply Z.eqb_neq in E.
    assert (Hq : 0 < v / 10) by (pose proof (Z.div_pos v 10 ltac:(lia) ltac:(lia)); lia).
    assert (Hk : (1 <= k)%nat).
    { destruct k; [| lia ]. cbn in Hv. assert (v / 10 = 0) by (apply Z.div_small; lia). lia. }
    assert (Hb : 0 <= v / 10 < 10 ^ Z.of_nat k).
    { split; [ lia |]. apply Z.div_lt_upper_bound; [ lia |].
      replace (Z.of_nat (S k)) with (Z.of_nat k + 1) in Hv by lia.
      rewrite Z.pow_add_r in Hv by lia. lia. }
    destruct (IH (v / 10) ((48 + v mod 10) :: acc) Hb Hk) as [ds [E1 [E2 [E3 [E4 E5]]]]].
    exists (ds ++ [48 + v mod 10]).
    split; [ rewrite E1, <- app_assoc; reflexivity |].
    split; [ apply Forall_app; split; [ exact E2 | constructor; auto ] |].
    split; [ rewrite dval_app, E3; unfold dval; cbn [fold_left]; pose proof (Z.div_mod v 10 ltac:(lia)); lia |].
    split; [ destruct ds; discriminate |].
    intros _. destruct ds as [| d ds']; [ contradiction |]. cbn [app hd] in *. apply E5. exact Hq.
Qed.

Definition dec (n : Z) : list Z := dec_text n.

Lemma dec_spec : forall n, 0 < n < 1000000000 ->
  exists ds, dec n = ds /\ Forall (fun c => isdigit c = true) ds /\ dval ds 0 = n /\ ds <> [] /\ hd 0 ds <> 48.
Proof.
  intros n Hn. unfold dec, dec_text. rwf (n <? 0).
  destruct (dec_digits_spec 12 n [] ltac:(cbn; lia) ltac:(lia)) as [ds [E1 [E2 [E3 [E4 E5]]]]].
  exists ds. rewrite E1, app_nil_r. repeat split; auto. apply E5. lia.
Qed.

Lemma strtoul0_dec : forall n rest, 0 < n < 1000000000 -> starts_nondigit rest ->
  strtoul0 (dec n ++ rest) = (n, Z.of_nat (List.length (dec n))).
Proof.
  intros n rest Hn Hr. destruct (dec_spec n Hn) as [ds [E1 [E2 [E3 [E4 E5]]]]]. rewrite E1.
  destruct ds as [| d ds']; [ contradiction |]. cbn [hd] in E5.
  unfold strtoul0. cbn [app]. rwf (d =? 48).
  unfold scan_sat. change (d :: ds' ++ rest) with ((d :: ds') ++ rest).
  rewrite scan10_app by assumption. rewrite E3. unfold sat, ULONG_MAX.
  rwf (n >? 18446744073709551615). f_equal.
Qed.

Lemma wrap32_small : forall n, 0 <= n < 2147483648 -> wrap32 n = n.
Proof.
  intros n H. unfold wrap32. rewrite Z.mod_small by lia. rwf (n >=? 2147483648). reflexivity.
Qed.

(* ================================================================ monad rewriting *)
Lemma bind_R : forall m k st v st', m st = R v st' -> bind m k st = k v st'.
Proof. intros m k st v st' H. unfold bind. rewrite H. reflexivity. Qed.
Lemma bind_gets : forall f k st, bind (gets f) k st = k (f st) st.
Proof. reflexivity. Qed.
Lemma bind_getb : forall f k st, bind (getb f) k st = k (if f st then 1 else 0) st.
Proof. reflexivity. Qed.
Lemma bind_modify : forall f k st, bind (modify f) k st = k 0 (f st).
Proof. reflexivity. Qed.
Lemma bind_ret : forall v k st, bind (ret v) k st = k v st.
Proof. reflexivity. Qed.
Lemma bind_eof : forall k st, bind eof k st = k (if pos st >=? len st then 1 else 0) st.
Proof. reflexivity. Qed.

Ltac stsimpl :=
  unfold set_pos, set_len, set_out, set_typ, set_level, set_templates, set_type_info, set_first_name,
         set_ignore_disc, set_expected;
  cbn [pos len out typ level templates type_info first_name ignore_disc expected].

(* ================================================================ reading the string (base = 0) *)
Section Walk.
Variable s : list Z.
Notation L := (flen s).

(* the text from offset p to the end is l *)
Definition At (p : Z) (l : list Z) : Prop :=
  0 <= p /\ suffix s 0 p = l /\ p + Z.of_nat (List.length l) = L.

Lemma skipn_add : forall (l : list Z) a b, skipn (a + b) l = skipn a (skipn b l).
Proof.
  induction l as [| x l IH]; intros a b.
  - rewrite !skipn_nil. reflexivity.
  - destruct b as [| b]; [ rewrite Nat.add_0_r; reflexivity |].
    replace (a + S b)%nat with (S (a + b)) by lia. cbn [skipn]. apply IH.
Qed.

Lemma At_app : forall p a b, At p (a ++ b) -> At (p + Z.of_nat (List.length a)) b.
Proof.
  intros p a b [H0 [H1 H2]]. unfold At. split; [ lia |]. split.
  - unfold suffix in *. replace (Z.to_nat (0 + (p + Z.of_nat (List.length a))))
      with (List.length a + Z.to_nat (0 + p))%nat by lia.
    rewrite skipn_add, H1. rewrite skipn_app, skipn_all, Nat.sub_diag. reflexivity.
  - rewrite app_length in H2. lia.
Qed.
Lemma At_cons : forall p c r, At p (c :: r) -> At (p + 1) r.
Proof. intros p c r H. apply (At_app p [c] r). exact H. Qed.

Lemma nth_skipn_hd : forall (l : list Z) n c r, skipn n l = c :: r -> nth n l 0 = c /\ (n < List.length l)%nat.
Proof.
  induction l as [| a l IH]; intros n c r H.
  - destruct n; discriminate.
  - destruct n as [| n]; cbn in *.
    + inversion H. split; [ reflexivity | lia ].
    + apply IH in H. destruct H. split; [ assumption | lia ].
Qed.

Lemma rd_at : forall p c r st, At p (c :: r) -> rd s 0 p st = R c st.
Proof.
  intros p c r st [H0 [H1 H2]]. unfold rd, suffix in *.
  apply nth_skipn_hd in H1. destruct H1 as [E Hl].
  rwf (0 + p <? 0). unfold flen.
  rwt (0 + p <? Z.of_nat (List.length s)). rewrite E. reflexivity.
Qed.
Lemma rd_end : forall p st, At p [] -> rd s 0 p st = R 0 st.
Proof.
  intros p st [H0 [H1 H2]]. unfold rd. cbn [List.length] in H2.
  rwf (0 + p <? 0).
  rwf (0 + p <? L). rwt (0 + p =? L). reflexivity.
Qed.
Lemma At_lt : forall p c r, At p (c :: r) -> p < L.
Proof. intros p c r [H0 [H1 H2]]. cbn [List.length] in H2. lia. Qed.
Lemma At_le : forall p l, At p l -> 0 <= p <= L.
Proof. intros p l [H0 [H1 H2]]. lia. Qed.

Definition hd0 (l : list Z) : Z := match l with c :: _ => c | [] => 0 end.

Lemma curr_at : forall st l, At (pos st) l -> len st = L -> curr s 0 st = R (hd0 l) st.
Proof.
  intros st l H Hl. unfold curr, peek. pose proof (At_le _ _ H).
  rwf (pos st + 0 >? len st). replace (pos st + 0) with (pos st) by lia.
  destruct l as [| c r]; [ apply rd_end | eapply rd_at ]; eauto.
Qed.
Lemma peek1_at : forall st c r, At (pos st) (c :: r) -> len st = L -> peek s 0 1 st = R (hd0 r) st.
Proof.
  intros st c r H Hl. unfold peek. pose proof (At_lt _ _ _ H).
  rwf (pos st + 1 >? len st).
  apply At_cons in H. destruct r as [| c' r']; [ apply rd_end | eapply rd_at ]; eauto.
Qed.
Lemma eof_at : forall st c r, At (pos st) (c :: r) -> len st = L -> (pos st >=? len st) = false.
Proof. intros st c r H Hl. pose proof (At_lt _ _ _ H). lia. Qed.
Lemma eof_end : forall st, At (pos st) [] -> len st = L -> (pos st >=? len st) = true.
Proof. intros st [H0 [H1 H2]] Hl. cbn [List.length] in H2. lia. Qed.
Lemma consume_n_at : forall st k l, At (pos st) l -> len st = L -> 0 <= k <= Z.of_nat (List.length l) ->
  consume_n s 0 k st = R (hd0 l) (set_pos st (pos st + k)).
Proof.
  intros st k l H Hl Hk. unfold consume_n. rewrite (curr_at st l H Hl).
  destruct H as [H0 [H1 H2]]. rwf (pos st + k >? len st). reflexivity.
Qed.

(* ================================================================ dd_number / dd_source_name on <len><ident> *)
Lemma hd0_dec_digit : forall n rest, 0 < n < 1000000000 ->
  isdigit (hd0 (dec n ++ rest)) = true /\ dec n <> [].
Proof.
  intros n rest Hn. destruct (dec_spec n Hn) as [ds [E1 [E2 [E3 [E4 E5]]]]]. rewrite E1.
  destruct ds as [| d ds']; [ contradiction |]. inversion E2; subst. split; [ assumption | discriminate ].
Qed.

Lemma number_at : forall st n rest, At (pos st) (dec n ++ rest) -> len st = L ->
  0 < n < 1000000000 -> starts_nondigit rest ->
  dd_number s 0 st = R n (set_pos st (pos st + Z.of_nat (List.length (dec n)))).
Proof.
  intros st n rest H Hl Hn Hr. unfold dd_number.
  destruct (hd0_dec_digit n rest Hn) as [Hd Hne].
  destruct (dec n ++ rest) as [| d tl] eqn:E; [ destruct (dec n); [ contradiction | discriminate ] |].
  cbn [hd0] in Hd.
  rewrite (eof_at st d tl H Hl). rewrite (rd_at _ d tl st H).
  assert (Hnn : (d =? ch "n") = false) by (apply isdigit_range in Hd; change (ch "n") with 110; lia).
  rewrite Hnn. rewrite (rd_at _ d tl st H). rewrite Hd. cbn [negb].
  destruct H as [H0 [H1 H2]]. rewrite H1, <- E. rewrite strtoul0_dec by assumption.
  rewrite wrap32_small by lia. reflexivity.
Qed.

Definition sep_out (o : option (list Z)) (fnm : bool) : option (list Z) :=
  if fnm then o else Some (match o with None => str "::" | Some x => x ++ str "::" end).
Definition add_out (o : option (list Z)) (id : list Z) : option (list Z) :=
  Some (match o with None => id | Some y => y ++ id end).

Definition idchar (c : Z) : bool := isdigit c || isupper c || islower c || (c =? 95).
Definition ident_okb (id : list Z) : bool :=
  match id with [] => false | c :: _ => negb (isdigit c) end
  && forallb idchar id
  && negb ((Z.of_nat (List.length id) =? 17) && hash17 id)
  && (Z.of_nat (List.length id) <? 1000000000).

Definition src (id : list Z) : list Z := dec (Z.of_nat (List.length id)) ++ id.

Definition no_dollar (l : list Z) : Prop := Forall (fun c => c <> 36) l.
Lemma index_of_none : forall l, no_dollar l -> index_of 36 l = None.
Proof.
  induction l as [| a l IH]; intros H; [ reflexivity |].
  inversion H; subst. cbn [index_of].
  rwf (a =? 36). rewrite IH by assumption. reflexivity.
Qed.
Lemma hash17_app : forall id rest, List.length id = 17%nat -> hash17 (id ++ rest) = hash17 id.
Proof.
  intros id rest H.
  do 18 (destruct id as [| ? id]; try discriminate).
  unfold hash17. cbn [app firstn forallb]. f_equal. cbn [List.length].
  transitivity true; [ apply Z.leb_le; lia | symmetry; reflexivity ].
Qed.

Lemma ident_len : forall id, ident_okb id = true -> 0 < Z.of_nat (List.length id) < 1000000000.
Proof.
  intros id H. unfold ident_okb in H. repeat (apply andb_prop in H; destruct H as [H ?]).
  destruct id; [ discriminate |]. cbn [List.length] in *.
  match goal with X : (_ <? _) = true |- _ => apply Z.ltb_lt in X end. lia.
Qed.
Lemma ident_starts_nondigit : forall id rest, ident_okb id = true -> starts_nondigit (id ++ rest).
Proof.
  intros id rest H. unfold ident_okb in H. repeat (apply andb_prop in H; destruct H as [H ?]).
  destruct id; [ discriminate |]. cbn. destruct (isdigit z); [ discriminate | reflexivity ].
Qed.

Lemma ident_nohash : forall id, ident_okb id = true ->
  ((Z.of_nat (List.length id) =? 17) && hash17 id) = false.
Proof.
  intros id H. unfold ident_okb in H. apply andb_prop in H. destruct H as [H _].
  apply andb_prop in H. destruct H as [_ H]. apply negb_true_iff in H. exact H.
Qed.

Lemma source_name_at : forall p o lv ti fnm idc ex id rest,
  At p (src id ++ rest) -> ident_okb id = true -> no_dollar (id ++ rest) -> L <= INT_MAX ->
  dd_source_name s 0 (mkst p L o 0 lv 0 ti fnm idc ex) =
  R 0 (mkst (p + Z.of_nat (List.length (src id))) L (add_out (sep_out o fnm) id) 0 lv 0 ti false idc ex).
Proof.
  intros p o lv ti fnm idc ex id rest H Hid Hnd HL.
  set (n := Z.of_nat (List.length id)).
  assert (Hndef : n = Z.of_nat (List.length id)) by reflexivity.
  pose proof (ident_len id Hid) as Hn. fold n in Hn.
  unfold src in *. fold n in H. fold n. rewrite <- app_assoc in H.
  unfold dd_source_name.
  erewrite bind_R; [| apply (number_at _ n (id ++ rest)); [ exact H | reflexivity | exact Hn
                                                          | apply ident_starts_nondigit; exact Hid ] ].
  rwf (n <? 0).
  apply At_app in H. set (p0 := p + Z.of_nat (List.length (dec n))) in *.
  stsimpl. fold p0.
  assert (Hfin : p + Z.of_nat (List.length (dec n ++ id)) = p0 + n) by (rewrite app_length; unfold p0; lia).
  rewrite Hfin. clearbody p0. clearbody n.
  assert (Hp0 : p0 < L).
  { destruct H as [H0 [H1 H2]]. rewrite app_length in H2. lia. }
  assert (Hp0n : p0 + n <= L).
  { destruct H as [H0 [H1 H2]]. rewrite app_length in H2. lia. }
  pose proof (At_le _ _ H) as Hp0r.
  rewrite bind_eof. stsimpl. rwf (p0 >=? L).
  rewrite bind_gets, bind_gets. stsimpl. cbn [Z.eqb].
  rwf (p0 + n >? INT_MAX).
  rwf (p0 + n >? L).
  rewrite bind_gets, bind_getb, bind_gets. stsimpl. cbn [Z.eqb negb andb orb].
  assert (Hal : forall o', append_len s 0 p0 n (mkst p0 L o' 0 lv 0 ti false idc ex)
                           = R 0 (mkst p0 L (add_out o' id) 0 lv 0 ti false idc ex)).
  { intros o'. unfold append_len, valid_ptr.
    rwf (0 + p0 <? 0). rwt (0 + p0 <=? L).
    cbn [out]. unfold slen. replace (L - 0 - p0) with (L - p0) by lia.
    destruct H as [H0 [H1 H2]]. rewrite H1.
    assert (Hf : firstn (Z.to_nat n) (id ++ rest) = id).
    { rewrite Hndef, Nat2Z.id. rewrite firstn_app, Nat.sub_diag, firstn_all. cbn [firstn]. apply app_nil_r. }
    rewrite Hf. destruct o' as [o'' |].
    - rwf (n + 1 <? 0).
      rwf (Z.of_nat (List.length o'') + n <? 0).
      rwf (n >? L - p0). rwf (n <? 0). reflexivity.
    - rwf (n <? 0). rwf (n >? L - p0). reflexivity. }
  assert (Hcn : forall o', consume_n s 0 n (mkst p0 L o' 0 lv 0 ti false idc ex)
                           = R (hd0 (id ++ rest)) (mkst (p0 + n) L o' 0 lv 0 ti false idc ex)).
  { intros o'. rewrite (consume_n_at _ n (id ++ rest)); [ reflexivity | exact H | reflexivity |].
    rewrite app_length. lia. }
  assert (Hh : ((n =? 17) && hash17 (suffix s 0 p0)) = false).
  { destruct H as [H0 [H1 H2]]. rewrite H1. pose proof (ident_nohash id Hid) as Hnh. rewrite <- Hndef in Hnh.
    destruct (n =? 17) eqn:E17; [| reflexivity ]. cbn [andb] in *.
    rewrite hash17_app by lia. exact Hnh. }
  rewrite Hh.
  assert (Hsc : strchr_from s 0 p0 (ch "$") = None).
  { unfold strchr_from. change (ch "$") with 36. destruct H as [H0 [H1 H2]]. rewrite H1.
    rewrite index_of_none by assumption. reflexivity. }
  rewrite Hsc.
  (* append_separator, append_len, consume_n *)
  unfold bind at 1. unfold append_separator. stsimpl.
  destruct fnm.
  - stsimpl.
    unfold bind. rewrite Hal. rewrite Hcn. reflexivity.
  - unfold append. stsimpl.
    unfold bind. rewrite Hal. rewrite Hcn. unfold sep_out. destruct o; reflexivity.
Qed.

(* ================================================================ walking the parser *)
Ltac chs := repeat match goal with |- context [ch ?a] =>
  let v := eval vm_compute in (ch a) in change (ch a) with v end.

(* clean parser state inside a name: type = templates = 0, no flags *)
Definition NS (p : Z) (o : option (list Z)) (lv : Z) (fnm : bool) : state :=
  mkst p L o 0 lv 0 false fnm false false.

Lemma src_hd_digit : forall id rest, ident_okb id = true -> 48 <= hd0 (src id ++ rest) <= 57.
Proof.
  intros id rest H. unfold src. rewrite <- app_assoc.
  destruct (hd0_dec_digit (Z.of_nat (List.length id)) (id ++ rest) (ident_len id H)) as [Hd _].
  apply isdigit_range. exact Hd.
Qed.

Lemma At_src_tail : forall p id rest, At p (src id ++ rest) -> At (p + Z.of_nat (List.length (src id))) rest.
Proof. intros. apply At_app. assumption. Qed.

(* dd_unqualified_name on <source-name> *)
Lemma unq_src : forall k p o lv fnm id rest,
  At p (src id ++ rest) -> ident_okb id = true -> no_dollar (id ++ rest) -> L <= INT_MAX ->
  hd0 rest <> 66 ->
  run s 0 (S k) FUnqualifiedName (NS p o lv fnm) =
  R 0 (NS (p + Z.of_nat (List.length (src id))) (add_out (sep_out o fnm) id) lv false).
Proof.
  intros k p o lv fnm id rest H Hid Hnd HL HB.
  pose proof (src_hd_digit id rest Hid) as Hd.
  cbn [run body]. unfold dd_unqualified_name, NS.
  destruct (src id ++ rest) as [| d tl] eqn:E.
  { exfalso. unfold src in E. destruct (hd0_dec_digit _ (id ++ rest) (ident_len id Hid)) as [_ Hne].
    destruct (dec (Z.of_nat (List.length id))); [ contradiction | discriminate ]. }
  cbn [hd0] in Hd.
  erewrite bind_R; [| apply (curr_at _ (d :: tl)); [ exact H | reflexivity ] ].
  erewrite bind_R; [| apply (peek1_at _ d tl); [ exact H | reflexivity ] ].
  rewrite bind_eof. stsimpl. pose proof (At_lt _ _ _ H) as Hlt. rwf (p >=? L). cbn [hd0]. chs. cbn [Z.eqb].
  rwf (d =? 67). rwf (d =? 68). rwf (d =? 85). cbn [orb].
  unfold islower. rwf (97 <=? d). cbn [andb]. rwf (d =? 76).
  rewrite bind_ret. rewrite <- E in H.
  erewrite bind_R; [| apply (source_name_at p o lv false fnm false false id rest); assumption ].
  erewrite bind_R; [| apply (curr_at _ rest); [ apply At_src_tail; exact H | reflexivity ] ].
  rwf (hd0 rest =? 66). reflexivity.
Qed.

Definition srcs (comps : list (list Z)) : list Z := List.concat (map src comps).

(* output after a list of components *)
Fixpoint out_after (o : option (list Z)) (fnm : bool) (comps : list (list Z)) : option (list Z) :=
  match comps with
  | [] => o
  | id :: cs => out_after (add_out (sep_out o fnm) id) false cs
  end.
Definition fnm_after (fnm : bool) (comps : list (list Z)) : bool :=
  match comps with [] => fnm | _ => false end.

Lemma no_dollar_app_r : forall a b, no_dollar (a ++ b) -> no_dollar b.
Proof. intros a b H. apply Forall_app in H. tauto. Qed.

(* the loop of dd_nested_name over a run of <source-name> components *)
Lemma nested_comps : forall comps k p o lv fnm rest,
  At p (srcs comps ++ rest) -> Forall (fun id => ident_okb id = true) comps ->
  no_dollar (srcs comps ++ rest) -> L <= INT_MAX -> hd0 rest <> 66 -> hd0 rest <> 69 ->
  run s 0 (List.length comps + S k) (LNested 0) (NS p o lv fnm) =
  run s 0 (S k) (LNested 0)
    (NS (p + Z.of_nat (List.length (srcs comps))) (out_after o fnm comps) lv (fnm_after fnm comps)).
Proof.
  induction comps as [| id cs IH]; intros k p o lv fnm rest H Hok Hnd HL HB HE.
  - cbn [List.length srcs List.concat map app out_after fnm_after Nat.add]. replace (p + Z.of_nat 0) with p by lia.
    reflexivity.
  - inversion Hok as [| ? ? Hid Hcs]; subst.
    unfold srcs in *. cbn [map List.concat] in *. rewrite <- app_assoc in H, Hnd.
    cbn [List.length Nat.add]. cbn [run body]. unfold nested_loop.
    pose proof (src_hd_digit id (List.concat (map src cs) ++ rest) Hid) as Hd.
    destruct (src id ++ List.concat (map src cs) ++ rest) as [| d tl] eqn:E.
    { exfalso. unfold src in E. destruct (hd0_dec_digit _ (id ++ List.concat (map src cs) ++ rest) (ident_len id Hid)) as [_ Hne].
      rewrite <- app_assoc in E.
      destruct (dec (Z.of_nat (List.length id))); [ contradiction | discriminate ]. }
    cbn [hd0] in Hd. unfold NS at 1.
    erewrite bind_R; [| apply (curr_at _ (d :: tl)); [ exact H | reflexivity ] ].
    rewrite bind_eof. stsimpl. pose proof (At_lt _ _ _ H) as Hlt. rwf (p >=? L). cbn [hd0]. chs. cbn [Z.eqb].
    rwf (d =? 69). cbn [orb negb].
    erewrite bind_R; [| apply (peek1_at _ d tl); [ exact H | reflexivity ] ].
    rwf (d =? 68). rwf (d =? 67). cbn [andb orb]. rwf (d =? 85). cbn [orb].
    unfold islower, isdigit. rwf (97 <=? d). rwt (48 <=? d). rwt (d <=? 57). cbn [andb orb].
    rewrite <- E in H.
    (* the component *)
    assert (Hnd2 : no_dollar (id ++ List.concat (map src cs) ++ rest)).
    { rewrite <- E in Hnd. unfold src in Hnd. rewrite <- app_assoc in Hnd. eapply no_dollar_app_r. exact Hnd. }
    assert (HB2 : hd0 (List.concat (map src cs) ++ rest) <> 66).
    { destruct cs as [| id2 cs2]; [ exact HB |]. inversion Hcs; subst. cbn [map List.concat]. rewrite <- app_assoc.
      pose proof (src_hd_digit id2 (List.concat (map src cs2) ++ rest) ltac:(assumption)). lia. }
    replace (List.length cs + S k)%nat with (S (List.length cs + k)) by lia.
    fold (NS p o lv fnm).
    erewrite bind_R; [| apply (unq_src _ p o lv fnm id (List.concat (map src cs) ++ rest)); assumption ].
    replace (S (List.length cs + k)) with (List.length cs + S k)%nat by lia.
    rewrite (IH k _ _ lv false rest); try assumption.
    + cbn [out_after fnm_after]. rewrite app_length.
      replace (p + Z.of_nat (List.length (src id)) + Z.of_nat (List.length (List.concat (map src cs))))
        with (p + Z.of_nat (List.length (src id) + List.length (List.concat (map src cs)))) by lia.
      destruct cs; reflexivity.
    + apply At_src_tail. exact H.
    + rewrite <- E in Hnd. eapply no_dollar_app_r. exact Hnd.
Qed.
