(* C13 - round trip for a formal mangler: nested names (namespaces / classes), constructors,
   destructors and operators with builtin parameter types demangle to the qualified name. *)
From Coq Require Import ZArith List Bool Lia Ascii String.
Import ListNotations.
Require Import UV.C13.Model.
Local Open Scope Z_scope.

Ltac bool_lia :=
  match goal with
  | |- (_ <? _) = true => apply Z.ltb_lt; lia
  | |- (_ <? _) = false => apply Z.ltb_ge; lia
  | |- (_ <=? _) = true => apply Z.leb_le; lia
  | |- (_ <=? _) = false => apply Z.leb_gt; lia
  | |- (_ >? _) = _ => rewrite Z.gtb_ltb; bool_lia
  | |- (_ >=? _) = _ => rewrite Z.geb_leb; bool_lia
  | |- (_ =? _) = true => apply Z.eqb_eq; lia
  | |- (_ =? _) = false => apply Z.eqb_neq; lia
  | |- _ => lia
  end.
Ltac rwf t := let E := fresh "E" in assert (E : t = false) by bool_lia; rewrite E; clear E.
Ltac rwt t := let E := fresh "E" in assert (E : t = true) by bool_lia; rewrite E; clear E.

(* ================================================================ decimal numbers *)
Definition dval (ds : list Z) (acc : Z) : Z := fold_left (fun a c => a * 10 + (c - 48)) ds acc.

Lemma isdigit_range : forall c, isdigit c = true -> 48 <= c <= 57.
Proof. intros c H. unfold isdigit in H. lia. Qed.
Lemma digit_val_dec : forall c, isdigit c = true -> digit_val c = c - 48.
Proof. intros c H. unfold digit_val. rewrite H. reflexivity. Qed.
Lemma digit_val_nondec : forall c, isdigit c = false -> (digit_val c <? 10) = false.
Proof.
  intros c H. unfold digit_val. rewrite H.
  destruct ((97 <=? c) && (c <=? 102)) eqn:E1; [ lia |].
  destruct ((65 <=? c) && (c <=? 70)) eqn:E2; lia.
Qed.

Definition starts_nondigit (l : list Z) : Prop :=
  match l with [] => True | c :: _ => isdigit c = false end.

Lemma scan10_app : forall ds rest acc cnt,
  Forall (fun c => isdigit c = true) ds -> starts_nondigit rest ->
  scan_digits 10 (ds ++ rest) acc cnt = (dval ds acc, cnt + Z.of_nat (List.length ds)).
Proof.
  induction ds as [| d ds IH]; intros rest acc cnt Hd Hr.
  - cbn [app dval fold_left List.length]. replace (cnt + Z.of_nat 0) with cnt by lia.
    destruct rest as [| c r]; [ reflexivity |]. cbn [scan_digits]. cbn in Hr.
    rewrite (digit_val_nondec c Hr). reflexivity.
  - inversion Hd as [| ? ? Hd1 Hd2]; subst. cbn [app scan_digits].
    rewrite (digit_val_dec d Hd1). pose proof (isdigit_range d Hd1).
    rwt (d - 48 <? 10).
    rewrite IH by assumption. cbn [dval fold_left List.length]. f_equal. lia.
Qed.

Lemma dval_app : forall a b acc, dval (a ++ b) acc = dval b (dval a acc).
Proof. intros. unfold dval. apply fold_left_app. Qed.

Lemma dec_digits_spec : forall fuel v acc, 0 <= v < 10 ^ Z.of_nat fuel -> (1 <= fuel)%nat ->
  exists ds, dec_digits fuel v acc = ds ++ acc /\ Forall (fun c => isdigit c = true) ds /\
             dval ds 0 = v /\ ds <> [] /\ (0 < v -> hd 0 ds <> 48).
Proof.
  induction fuel as [| k IH]; intros v acc Hv Hf; [ exfalso; clear Hv; lia |].
  cbn [dec_digits].
  assert (Hm : 0 <= v mod 10 < 10) by (apply Z.mod_pos_bound; lia).
  assert (Hdig : isdigit (48 + v mod 10) = true) by (unfold isdigit; lia).
  destruct (v / 10 =? 0) eqn:E.
  - exists [48 + v mod 10]. apply Z.eqb_eq in E.
    assert (v = v mod 10) by (pose proof (Z.div_mod v 10 ltac:(lia)); lia).
    split; [ reflexivity |]. split; [ constructor; auto |].
    split; [ unfold dval; cbn [fold_left]; lia |]. split; [ discriminate |]. cbn [hd]. lia.
  - apply Z.eqb_neq in E.
    assert (Hq : 0 < v / 10) by (pose proof (Z.div_pos v 10 ltac:(lia) ltac:(lia)); lia).
    assert (Hk : (1 <= k)%nat).
    { destruct k; [| lia ]. cbn in Hv. assert (v / 10 = 0) by (apply Z.div_small; lia). lia. }
    assert (Hb : 0 <= v / 10 < 10 ^ Z.of_nat k).
    { split; [ lia |]. apply Z.div_lt_upper_bound; [ lia |].
      replace (Z.of_nat (S k)) with (Z.of_nat k + 1) in Hv by lia.
      rewrite Z.pow_add_r in Hv by lia. lia. }
    destruct (IH (v / 10) ((48 + v mod 10) :: acc) Hb Hk) as [ds [E1 [E2 [E3 [E4 E5]]]]].
    exists (ds ++ [48 + v mod 10]).
    split; [ rewrite E1, <- app_assoc; reflexivity |].
    split; [ apply Forall_app; split; [ exact E2 | constructor; auto ] |].
    split; [ rewrite dval_app, E3; unfold dval; cbn [fold_left]; pose proof (Z.div_mod v 10 ltac:(lia)); lia |].
    split; [ destruct ds; discriminate |].
    intros _. destruct ds as [| d ds']; [ contradiction |]. cbn [app hd] in *. apply E5. exact Hq.
Qed.

Definition dec (n : Z) : list Z := dec_text n.

Lemma dec_spec : forall n, 0 < n < 1000000000 ->
  exists ds, dec n = ds /\ Forall (fun c => isdigit c = true) ds /\ dval ds 0 = n /\ ds <> [] /\ hd 0 ds <> 48.
Proof.
  intros n Hn. unfold dec, dec_text. rwf (n <? 0).
  destruct (dec_digits_spec 12 n [] ltac:(cbn; lia) ltac:(lia)) as [ds [E1 [E2 [E3 [E4 E5]]]]].
  exists ds. rewrite E1, app_nil_r. repeat split; auto. apply E5. lia.
Qed.

Lemma strtoul0_dec : forall n rest, 0 < n < 1000000000 -> starts_nondigit rest ->
  strtoul0 (dec n ++ rest) = (n, Z.of_nat (List.length (dec n))).
Proof.
  intros n rest Hn Hr. destruct (dec_spec n Hn) as [ds [E1 [E2 [E3 [E4 E5]]]]]. rewrite E1.
  destruct ds as [| d ds']; [ contradiction |]. cbn [hd] in E5.
  unfold strtoul0. cbn [app]. rwf (d =? 48).
  unfold scan_sat. change (d :: ds' ++ rest) with ((d :: ds') ++ rest).
  rewrite scan10_app by assumption. rewrite E3. unfold sat, ULONG_MAX.
  rwf (n >? 18446744073709551615). f_equal.
Qed.

Lemma wrap32_small : forall n, 0 <= n < 2147483648 -> wrap32 n = n.
Proof.
  intros n H. unfold wrap32. rewrite Z.mod_small by lia. rwf (n >=? 2147483648). reflexivity.
Qed.

(* ================================================================ monad rewriting *)
Lemma bind_R : forall m k st v st', m st = R v st' -> bind m k st = k v st'.
Proof. intros m k st v st' H. unfold bind. rewrite H. reflexivity. Qed.
Lemma bind_gets : forall f k st, bind (gets f) k st = k (f st) st.
Proof. reflexivity. Qed.
Lemma bind_getb : forall f k st, bind (getb f) k st = k (if f st then 1 else 0) st.
Proof. reflexivity. Qed.
Lemma bind_modify : forall f k st, bind (modify f) k st = k 0 (f st).
Proof. reflexivity. Qed.
Lemma bind_ret : forall v k st, bind (ret v) k st = k v st.
Proof. reflexivity. Qed.
Lemma bind_ret_k : forall v (k : M) st, bind (ret v) (fun _ => k) st = k st.
Proof. reflexivity. Qed.
Lemma bind_eof : forall k st, bind eof k st = k (if pos st >=? len st then 1 else 0) st.
Proof. reflexivity. Qed.

Ltac chs := repeat match goal with |- context [ch ?a] =>
  let v := eval vm_compute in (ch a) in change (ch a) with v end.
Ltac stsimpl :=
  unfold set_pos, set_len, set_out, set_typ, set_level, set_templates, set_type_info, set_first_name,
         set_ignore_disc, set_expected;
  cbn [pos len out typ level templates type_info first_name ignore_disc expected].

(* ================================================================ reading the string (base = 0) *)
Section Walk.
Variable s : list Z.
Notation L := (flen s).

(* the text from offset p to the end is l *)
Definition At (p : Z) (l : list Z) : Prop :=
  0 <= p /\ suffix s 0 p = l /\ p + Z.of_nat (List.length l) = L.

Lemma skipn_add : forall (l : list Z) a b, skipn (a + b) l = skipn a (skipn b l).
Proof.
  induction l as [| x l IH]; intros a b.
  - rewrite !skipn_nil. reflexivity.
  - destruct b as [| b]; [ rewrite Nat.add_0_r; reflexivity |].
    replace (a + S b)%nat with (S (a + b)) by lia. cbn [skipn]. apply IH.
Qed.

Lemma At_app : forall p a b, At p (a ++ b) -> At (p + Z.of_nat (List.length a)) b.
Proof.
  intros p a b [H0 [H1 H2]]. unfold At. split; [ lia |]. split.
  - unfold suffix in *. replace (Z.to_nat (0 + (p + Z.of_nat (List.length a))))
      with (List.length a + Z.to_nat (0 + p))%nat by lia.
    rewrite skipn_add, H1. rewrite skipn_app, skipn_all, Nat.sub_diag. reflexivity.
  - rewrite app_length in H2. lia.
Qed.
Lemma At_cons : forall p c r, At p (c :: r) -> At (p + 1) r.
Proof. intros p c r H. apply (At_app p [c] r). exact H. Qed.

Lemma nth_skipn_hd : forall (l : list Z) n c r, skipn n l = c :: r -> nth n l 0 = c /\ (n < List.length l)%nat.
Proof.
  induction l as [| a l IH]; intros n c r H.
  - destruct n; discriminate.
  - destruct n as [| n]; cbn in *.
    + inversion H. split; [ reflexivity | lia ].
    + apply IH in H. destruct H. split; [ assumption | lia ].
Qed.

Lemma rd_at : forall p c r st, At p (c :: r) -> rd s 0 p st = R c st.
Proof.
  intros p c r st [H0 [H1 H2]]. unfold rd, suffix in *.
  apply nth_skipn_hd in H1. destruct H1 as [E Hl].
  rwf (0 + p <? 0). unfold flen.
  rwt (0 + p <? Z.of_nat (List.length s)). rewrite E. reflexivity.
Qed.
Lemma rd_end : forall p st, At p [] -> rd s 0 p st = R 0 st.
Proof.
  intros p st [H0 [H1 H2]]. unfold rd. cbn [List.length] in H2.
  rwf (0 + p <? 0).
  rwf (0 + p <? L). rwt (0 + p =? L). reflexivity.
Qed.
Lemma At_lt : forall p c r, At p (c :: r) -> p < L.
Proof. intros p c r [H0 [H1 H2]]. cbn [List.length] in H2. lia. Qed.
Lemma At_le : forall p l, At p l -> 0 <= p <= L.
Proof. intros p l [H0 [H1 H2]]. lia. Qed.

Definition hd0 (l : list Z) : Z := match l with c :: _ => c | [] => 0 end.

Lemma curr_at : forall st l, At (pos st) l -> len st = L -> curr s 0 st = R (hd0 l) st.
Proof.
  intros st l H Hl. unfold curr, peek. pose proof (At_le _ _ H).
  rwf (pos st + 0 >? len st). replace (pos st + 0) with (pos st) by lia.
  destruct l as [| c r]; [ apply rd_end | eapply rd_at ]; eauto.
Qed.
Lemma peek1_at : forall st c r, At (pos st) (c :: r) -> len st = L -> peek s 0 1 st = R (hd0 r) st.
Proof.
  intros st c r H Hl. unfold peek. pose proof (At_lt _ _ _ H).
  rwf (pos st + 1 >? len st).
  apply At_cons in H. destruct r as [| c' r']; [ apply rd_end | eapply rd_at ]; eauto.
Qed.
Lemma eof_at : forall st c r, At (pos st) (c :: r) -> len st = L -> (pos st >=? len st) = false.
Proof. intros st c r H Hl. pose proof (At_lt _ _ _ H). lia. Qed.
Lemma eof_end : forall st, At (pos st) [] -> len st = L -> (pos st >=? len st) = true.
Proof. intros st [H0 [H1 H2]] Hl. cbn [List.length] in H2. lia. Qed.
Lemma consume_n_at : forall st k l, At (pos st) l -> len st = L -> 0 <= k <= Z.of_nat (List.length l) ->
  consume_n s 0 k st = R (hd0 l) (set_pos st (pos st + k)).
Proof.
  intros st k l H Hl Hk. unfold consume_n. rewrite (curr_at st l H Hl).
  destruct H as [H0 [H1 H2]]. rwf (pos st + k >? len st). reflexivity.
Qed.

(* ================================================================ dd_number / dd_source_name on <len><ident> *)
Lemma hd0_dec_digit : forall n rest, 0 < n < 1000000000 ->
  isdigit (hd0 (dec n ++ rest)) = true /\ dec n <> [].
Proof.
  intros n rest Hn. destruct (dec_spec n Hn) as [ds [E1 [E2 [E3 [E4 E5]]]]]. rewrite E1.
  destruct ds as [| d ds']; [ contradiction |]. inversion E2; subst. split; [ assumption | discriminate ].
Qed.

Lemma number_at : forall st n rest, At (pos st) (dec n ++ rest) -> len st = L ->
  0 < n < 1000000000 -> starts_nondigit rest ->
  dd_number s 0 st = R n (set_pos st (pos st + Z.of_nat (List.length (dec n)))).
Proof.
  intros st n rest H Hl Hn Hr. unfold dd_number.
  destruct (hd0_dec_digit n rest Hn) as [Hd Hne].
  destruct (dec n ++ rest) as [| d tl] eqn:E; [ destruct (dec n); [ contradiction | discriminate ] |].
  cbn [hd0] in Hd.
  rewrite (eof_at st d tl H Hl). rewrite (rd_at _ d tl st H).
  assert (Hnn : (d =? ch "n") = false) by (apply isdigit_range in Hd; change (ch "n") with 110; lia).
  rewrite Hnn. rewrite (rd_at _ d tl st H). rewrite Hd. cbn [negb].
  destruct H as [H0 [H1 H2]]. rewrite H1, <- E. rewrite strtoul0_dec by assumption.
  rewrite wrap32_small by lia. reflexivity.
Qed.

Definition sep_out (o : option (list Z)) (fnm : bool) : option (list Z) :=
  if fnm then o else Some (match o with None => str "::" | Some x => x ++ str "::" end).
Definition add_out (o : option (list Z)) (id : list Z) : option (list Z) :=
  Some (match o with None => id | Some y => y ++ id end).

Definition idchar (c : Z) : bool := isdigit c || isupper c || islower c || (c =? 95).
Definition ident_okb (id : list Z) : bool :=
  match id with [] => false | c :: _ => negb (isdigit c) end
  && forallb idchar id
  && negb ((Z.of_nat (List.length id) =? 17) && hash17 id)
  && (Z.of_nat (List.length id) <? 1000000000).

Definition src (id : list Z) : list Z := dec (Z.of_nat (List.length id)) ++ id.

Definition no_dollar (l : list Z) : Prop := Forall (fun c => c <> 36) l.
Lemma index_of_none : forall l, no_dollar l -> index_of 36 l = None.
Proof.
  induction l as [| a l IH]; intros H; [ reflexivity |].
  inversion H; subst. cbn [index_of].
  rwf (a =? 36). rewrite IH by assumption. reflexivity.
Qed.
Lemma hash17_app : forall id rest, List.length id = 17%nat -> hash17 (id ++ rest) = hash17 id.
Proof.
  intros id rest H.
  do 18 (destruct id as [| ? id]; try discriminate).
  unfold hash17. cbn [app firstn forallb]. f_equal. cbn [List.length].
  transitivity true; [ apply Z.leb_le; lia | symmetry; reflexivity ].
Qed.

Lemma ident_len : forall id, ident_okb id = true -> 0 < Z.of_nat (List.length id) < 1000000000.
Proof.
  intros id H. unfold ident_okb in H. repeat (apply andb_prop in H; destruct H as [H ?]).
  destruct id; [ discriminate |]. cbn [List.length] in *.
  match goal with X : (_ <? _) = true |- _ => apply Z.ltb_lt in X end. lia.
Qed.
Lemma ident_starts_nondigit : forall id rest, ident_okb id = true -> starts_nondigit (id ++ rest).
Proof.
  intros id rest H. unfold ident_okb in H. repeat (apply andb_prop in H; destruct H as [H ?]).
  destruct id; [ discriminate |]. cbn. destruct (isdigit z); [ discriminate | reflexivity ].
Qed.

Lemma ident_nohash : forall id, ident_okb id = true ->
  ((Z.of_nat (List.length id) =? 17) && hash17 id) = false.
Proof.
  intros id H. unfold ident_okb in H. apply andb_prop in H. destruct H as [H _].
  apply andb_prop in H. destruct H as [_ H]. apply negb_true_iff in H. exact H.
Qed.

Lemma source_name_at : forall p o lv ti fnm idc ex id rest,
  At p (src id ++ rest) -> ident_okb id = true -> no_dollar (id ++ rest) -> L <= INT_MAX ->
  dd_source_name true s 0 (mkst p L o 0 lv 0 ti fnm idc ex) =
  R 0 (mkst (p + Z.of_nat (List.length (src id))) L (add_out (sep_out o fnm) id) 0 lv 0 ti false idc ex).
Proof.
  intros p o lv ti fnm idc ex id rest H Hid Hnd HL.
  set (n := Z.of_nat (List.length id)).
  assert (Hndef : n = Z.of_nat (List.length id)) by reflexivity.
  pose proof (ident_len id Hid) as Hn. fold n in Hn.
  unfold src in *. fold n in H. fold n. rewrite <- app_assoc in H.
  unfold dd_source_name.
  erewrite bind_R; [| apply (number_at _ n (id ++ rest)); [ exact H | reflexivity | exact Hn
                                                          | apply ident_starts_nondigit; exact Hid ] ].
  rwf (n <? 0).
  apply At_app in H. set (p0 := p + Z.of_nat (List.length (dec n))) in *.
  stsimpl. fold p0.
  assert (Hfin : p + Z.of_nat (List.length (dec n ++ id)) = p0 + n) by (rewrite app_length; unfold p0; lia).
  rewrite Hfin. clearbody p0. clearbody n.
  assert (Hp0 : p0 < L).
  { destruct H as [H0 [H1 H2]]. rewrite app_length in H2. lia. }
  assert (Hp0n : p0 + n <= L).
  { destruct H as [H0 [H1 H2]]. rewrite app_length in H2. lia. }
  pose proof (At_le _ _ H) as Hp0r.
  rewrite bind_eof. stsimpl. rwf (p0 >=? L).
  rewrite bind_gets, bind_gets. stsimpl. cbn [Z.eqb].
  cbn [negb andb]. rwf (n >? L - p0).
  rewrite bind_gets, bind_getb, bind_gets. stsimpl. cbn [Z.eqb negb andb orb].
  assert (Hal : forall o', append_len s 0 p0 n (mkst p0 L o' 0 lv 0 ti false idc ex)
                           = R 0 (mkst p0 L (add_out o' id) 0 lv 0 ti false idc ex)).
  { intros o'. unfold append_len, valid_ptr.
    rwf (0 + p0 <? 0). rwt (0 + p0 <=? L).
    cbn [out]. unfold slen. replace (L - 0 - p0) with (L - p0) by lia.
    destruct H as [H0 [H1 H2]]. rewrite H1.
    assert (Hf : firstn (Z.to_nat n) (id ++ rest) = id).
    { rewrite Hndef, Nat2Z.id. rewrite firstn_app, Nat.sub_diag, firstn_all. cbn [firstn]. apply app_nil_r. }
    rewrite Hf. destruct o' as [o'' |].
    - rwf (n + 1 <? 0).
      rwf (Z.of_nat (List.length o'') + n <? 0).
      rwf (n >? L - p0). rwf (n <? 0). reflexivity.
    - rwf (n <? 0). rwf (n >? L - p0). reflexivity. }
  assert (Hcn : forall o', consume_n s 0 n (mkst p0 L o' 0 lv 0 ti false idc ex)
                           = R (hd0 (id ++ rest)) (mkst (p0 + n) L o' 0 lv 0 ti false idc ex)).
  { intros o'. rewrite (consume_n_at _ n (id ++ rest)); [ reflexivity | exact H | reflexivity |].
    rewrite app_length. lia. }
  assert (Hh : ((n =? 17) && hash17 (suffix s 0 p0)) = false).
  { destruct H as [H0 [H1 H2]]. rewrite H1. pose proof (ident_nohash id Hid) as Hnh. rewrite <- Hndef in Hnh.
    destruct (n =? 17) eqn:E17; [| reflexivity ]. cbn [andb] in *.
    rewrite hash17_app by lia. exact Hnh. }
  rewrite Hh.
  assert (Hsc : strchr_from s 0 p0 (ch "$") = None).
  { unfold strchr_from. change (ch "$") with 36. destruct H as [H0 [H1 H2]]. rewrite H1.
    rewrite index_of_none by assumption. reflexivity. }
  rewrite Hsc.
  (* append_separator, append_len, consume_n *)
  unfold bind at 1. unfold append_separator. stsimpl.
  destruct fnm.
  - stsimpl.
    unfold bind. rewrite Hal. rewrite Hcn. reflexivity.
  - unfold append. stsimpl.
    unfold bind. rewrite Hal. rewrite Hcn. unfold sep_out. destruct o; reflexivity.
Qed.

(* ================================================================ walking the parser *)

(* clean parser state inside a name: type = templates = 0, no flags *)
Definition NS (p : Z) (o : option (list Z)) (lv : Z) (fnm : bool) : state :=
  mkst p L o 0 lv 0 false fnm false false.

Lemma src_hd_digit : forall id rest, ident_okb id = true -> 48 <= hd0 (src id ++ rest) <= 57.
Proof.
  intros id rest H. unfold src. rewrite <- app_assoc.
  destruct (hd0_dec_digit (Z.of_nat (List.length id)) (id ++ rest) (ident_len id H)) as [Hd _].
  apply isdigit_range. exact Hd.
Qed.

Lemma At_src_tail : forall p id rest, At p (src id ++ rest) -> At (p + Z.of_nat (List.length (src id))) rest.
Proof. intros. apply At_app. assumption. Qed.

(* dd_unqualified_name on <source-name> *)
Lemma unq_src : forall k p o lv fnm id rest,
  At p (src id ++ rest) -> ident_okb id = true -> no_dollar (id ++ rest) -> L <= INT_MAX ->
  hd0 rest <> 66 ->
  run true s 0 (S k) FUnqualifiedName (NS p o lv fnm) =
  R 0 (NS (p + Z.of_nat (List.length (src id))) (add_out (sep_out o fnm) id) lv false).
Proof.
  intros k p o lv fnm id rest H Hid Hnd HL HB.
  pose proof (src_hd_digit id rest Hid) as Hd.
  cbn [run body]. unfold dd_unqualified_name, NS.
  destruct (src id ++ rest) as [| d tl] eqn:E.
  { exfalso. unfold src in E. destruct (hd0_dec_digit _ (id ++ rest) (ident_len id Hid)) as [_ Hne].
    destruct (dec (Z.of_nat (List.length id))); [ contradiction | discriminate ]. }
  cbn [hd0] in Hd.
  erewrite bind_R; [| apply (curr_at _ (d :: tl)); [ exact H | reflexivity ] ].
  erewrite bind_R; [| apply (peek1_at _ d tl); [ exact H | reflexivity ] ].
  rewrite bind_eof. stsimpl. pose proof (At_lt _ _ _ H) as Hlt. rwf (p >=? L). cbn [hd0]. chs. cbn [Z.eqb].
  rwf (d =? 67). rwf (d =? 68). rwf (d =? 85). cbn [orb].
  unfold islower. rwf (97 <=? d). cbn [andb]. rwf (d =? 76).
  rewrite bind_ret. rewrite <- E in H.
  erewrite bind_R; [| apply (source_name_at p o lv false fnm false false id rest); assumption ].
  erewrite bind_R; [| apply (curr_at _ rest); [ apply At_src_tail; exact H | reflexivity ] ].
  rwf (hd0 rest =? 66). reflexivity.
Qed.

Definition srcs (comps : list (list Z)) : list Z := List.concat (map src comps).

(* output after a list of components *)
Fixpoint out_after (o : option (list Z)) (fnm : bool) (comps : list (list Z)) : option (list Z) :=
  match comps with
  | [] => o
  | id :: cs => out_after (add_out (sep_out o fnm) id) false cs
  end.
Definition fnm_after (fnm : bool) (comps : list (list Z)) : bool :=
  match comps with [] => fnm | _ => false end.

Lemma no_dollar_app_r : forall a b, no_dollar (a ++ b) -> no_dollar b.
Proof. intros a b H. apply Forall_app in H. tauto. Qed.

(* the loop of dd_nested_name over a run of <source-name> components *)
Lemma nested_comps : forall comps k p o lv fnm rest,
  At p (srcs comps ++ rest) -> Forall (fun id => ident_okb id = true) comps ->
  no_dollar (srcs comps ++ rest) -> L <= INT_MAX -> hd0 rest <> 66 ->
  run true s 0 (List.length comps + S k) (LNested 0) (NS p o lv fnm) =
  run true s 0 (S k) (LNested 0)
    (NS (p + Z.of_nat (List.length (srcs comps))) (out_after o fnm comps) lv (fnm_after fnm comps)).
Proof.
  induction comps as [| id cs IH]; intros k p o lv fnm rest H Hok Hnd HL HB.
  - cbn [List.length srcs List.concat map app out_after fnm_after Nat.add]. replace (p + Z.of_nat 0) with p by lia.
    reflexivity.
  - inversion Hok as [| ? ? Hid Hcs]; subst.
    unfold srcs in *. cbn [map List.concat] in *. rewrite <- app_assoc in H, Hnd.
    cbn [List.length Nat.add]. cbn [run body]. unfold nested_loop.
    pose proof (src_hd_digit id (List.concat (map src cs) ++ rest) Hid) as Hd.
    destruct (src id ++ List.concat (map src cs) ++ rest) as [| d tl] eqn:E.
    { exfalso. unfold src in E. destruct (hd0_dec_digit _ (id ++ List.concat (map src cs) ++ rest) (ident_len id Hid)) as [_ Hne].
      rewrite <- app_assoc in E.
      destruct (dec (Z.of_nat (List.length id))); [ contradiction | discriminate ]. }
    cbn [hd0] in Hd. unfold NS at 1.
    erewrite bind_R; [| apply (curr_at _ (d :: tl)); [ exact H | reflexivity ] ].
    rewrite bind_eof. stsimpl. pose proof (At_lt _ _ _ H) as Hlt. rwf (p >=? L). cbn [hd0]. chs. cbn [Z.eqb].
    rwf (d =? 69). cbn [orb negb].
    erewrite bind_R; [| apply (peek1_at _ d tl); [ exact H | reflexivity ] ].
    rwf (d =? 68). rwf (d =? 67). cbn [andb orb]. rwf (d =? 85). cbn [orb].
    unfold islower, isdigit. rwf (97 <=? d). rwt (48 <=? d). rwt (d <=? 57). cbn [andb orb].
    rewrite <- E in H.
    (* the component *)
    assert (Hnd2 : no_dollar (id ++ List.concat (map src cs) ++ rest)).
    { rewrite <- E in Hnd. unfold src in Hnd. rewrite <- app_assoc in Hnd. eapply no_dollar_app_r. exact Hnd. }
    assert (HB2 : hd0 (List.concat (map src cs) ++ rest) <> 66).
    { destruct cs as [| id2 cs2]; [ exact HB |]. inversion Hcs; subst. cbn [map List.concat]. rewrite <- app_assoc.
      pose proof (src_hd_digit id2 (List.concat (map src cs2) ++ rest) ltac:(assumption)). lia. }
    replace (List.length cs + S k)%nat with (S (List.length cs + k)) by lia.
    fold (NS p o lv fnm).
    erewrite bind_R; [| apply (unq_src _ p o lv fnm id (List.concat (map src cs) ++ rest)); assumption ].
    replace (S (List.length cs + k)) with (List.length cs + S k)%nat by lia.
    rewrite (IH k _ _ lv false rest); try assumption.
    + cbn [out_after fnm_after]. rewrite app_length.
      replace (p + Z.of_nat (List.length (src id)) + Z.of_nat (List.length (List.concat (map src cs))))
        with (p + Z.of_nat (List.length (src id) + List.length (List.concat (map src cs)))) by lia.
      destruct cs; reflexivity.
    + apply At_src_tail. exact H.
    + rewrite <- E in Hnd. eapply no_dollar_app_r. exact Hnd.
Qed.

(* ---- the three ways a nested name ends *)
Lemma nested_end_plain : forall k p o lv fnm rest,
  At p (69 :: rest) ->
  run true s 0 (S k) (LNested 0) (NS p o lv fnm) = R 0 (NS p o lv fnm).
Proof.
  intros k p o lv fnm rest H. cbn [run body]. unfold nested_loop, NS.
  erewrite bind_R; [| apply (curr_at _ (69 :: rest)); [ exact H | reflexivity ] ].
  rewrite bind_eof. stsimpl. pose proof (At_lt _ _ _ H). rwf (p >=? L). cbn [hd0]. chs. reflexivity.
Qed.

(* text after the last ':' of the output so far (strrchr(dd->new, ':') + 1, or dd->new) *)
Definition last_segment (o : list Z) : list Z :=
  match rindex_of (ch ":") o 0 None with
  | Some i => skipn (Z.to_nat (i + 1)) o
  | None => o
  end.

Lemma ctor_dtor_at : forall k p x lv c kd rest,
  At p (c :: kd :: 69 :: rest) -> (c = 67 \/ c = 68) -> isdigit kd = true ->
  run true s 0 (S k) FCtorDtor (NS p (Some x) lv false) =
  R 0 (NS (p + 2) (Some (x ++ (if c =? 67 then str "::" else str "::~") ++ last_segment x)) lv false).
Proof.
  intros k p x lv c kd rest H Hc Hk. cbn [run body]. unfold dd_ctor_dtor_name, NS.
  pose proof (At_cons _ _ _ H) as H1. pose proof (At_cons _ _ _ H1) as H2.
  replace (p + 1 + 1) with (p + 2) in H2 by lia.
  pose proof (At_lt _ _ _ H). pose proof (At_lt _ _ _ H1). pose proof (At_lt _ _ _ H2).
  unfold consume.
  erewrite bind_R; [| apply (consume_n_at _ 1 (c :: kd :: 69 :: rest)); [ exact H | reflexivity | cbn [List.length]; lia ] ].
  stsimpl.
  erewrite bind_R; [| apply (consume_n_at _ 1 (kd :: 69 :: rest)); [ exact H1 | reflexivity | cbn [List.length]; lia ] ].
  stsimpl. replace (p + 1 + 1) with (p + 2) by lia.
  rewrite bind_eof. stsimpl. rwf (p + 2 >=? L). cbn [hd0 Z.eqb]. chs.
  assert (Hcc : (negb (c =? 67) && negb (c =? 68)) = false) by (destruct Hc; subst; reflexivity).
  rewrite Hcc.
  pose proof (isdigit_range kd Hk). rwf (kd =? 73). rewrite Hk. cbn [negb].
  rewrite bind_ret, bind_gets. stsimpl. cbn [Z.eqb negb]. reflexivity.
Qed.

Lemma nested_end_ctor : forall k p x lv c kd rest,
  At p (c :: kd :: 69 :: rest) -> (c = 67 \/ c = 68) -> isdigit kd = true ->
  run true s 0 (S (S k)) (LNested 0) (NS p (Some x) lv false) =
  R 0 (NS (p + 2) (Some (x ++ (if c =? 67 then str "::" else str "::~") ++ last_segment x)) lv false).
Proof.
  intros k p x lv c kd rest H Hc Hk.
  change (run true s 0 (S (S k)) (LNested 0)) with (nested_loop true s 0 (run true s 0 (S k)) 0).
  unfold nested_loop. unfold NS at 1.
  erewrite bind_R; [| apply (curr_at _ (c :: kd :: 69 :: rest)); [ exact H | reflexivity ] ].
  rewrite bind_eof. stsimpl. pose proof (At_lt _ _ _ H). rwf (p >=? L). cbn [hd0]. chs. cbn [Z.eqb].
  assert (Hc69 : (c =? 69) = false) by (destruct Hc; subst; reflexivity). rewrite Hc69. cbn [orb negb].
  erewrite bind_R; [| apply (peek1_at _ c (kd :: 69 :: rest)); [ exact H | reflexivity ] ].
  cbn [hd0]. pose proof (isdigit_range kd Hk).
  rwf (kd =? 84). rwf (kd =? 116). cbn [orb]. rewrite andb_false_r.
  assert (Hcd : ((c =? 67) || (c =? 68)) = true) by (destruct Hc; subst; reflexivity). rewrite Hcd.
  fold (NS p (Some x) lv false).
  erewrite bind_R; [| apply (ctor_dtor_at k p x lv c kd rest); assumption ].
  apply (nested_end_plain k _ _ lv false rest).
  pose proof (At_cons _ _ _ (At_cons _ _ _ H)) as H2. replace (p + 1 + 1) with (p + 2) in H2 by lia. exact H2.
Qed.

Definition op_okb (c0 c1 : Z) : bool :=
  islower c0 && negb ((c0 =? ch "c") && (c1 =? ch "v")) && negb ((c0 =? ch "l") && (c1 =? ch "i")).

Lemma operator_at : forall k p x lv c0 c1 nm rest,
  At p (c0 :: c1 :: 69 :: rest) -> find_op ops c0 c1 = Some nm -> op_okb c0 c1 = true ->
  run true s 0 (S k) FOperatorName (NS p (Some x) lv false) =
  R 0 (NS (p + 2) (Some (((x ++ str "::") ++ str "operator") ++ nm)) lv false).
Proof.
  intros k p x lv c0 c1 nm rest H Hop Hok. cbn [run body]. unfold dd_operator_name, NS.
  pose proof (At_cons _ _ _ H) as H1. pose proof (At_cons _ _ _ H1) as H2.
  replace (p + 1 + 1) with (p + 2) in H2 by lia.
  pose proof (At_lt _ _ _ H). pose proof (At_lt _ _ _ H1). pose proof (At_lt _ _ _ H2).
  unfold consume.
  erewrite bind_R; [| apply (consume_n_at _ 1 (c0 :: c1 :: 69 :: rest)); [ exact H | reflexivity | cbn [List.length]; lia ] ].
  stsimpl.
  erewrite bind_R; [| apply (consume_n_at _ 1 (c1 :: 69 :: rest)); [ exact H1 | reflexivity | cbn [List.length]; lia ] ].
  stsimpl. replace (p + 1 + 1) with (p + 2) by lia.
  rewrite bind_eof. stsimpl. rwf (p + 2 >=? L). cbn [hd0 Z.eqb].
  rewrite bind_gets. stsimpl. cbn [Z.eqb negb]. rewrite Hop.
  unfold op_okb in Hok. apply andb_prop in Hok. destruct Hok as [Hok Hli].
  apply andb_prop in Hok. destruct Hok as [Hlow Hcv].
  apply negb_true_iff in Hli. apply negb_true_iff in Hcv. rewrite Hli, Hcv.
  reflexivity.
Qed.

Lemma nested_end_op : forall k p x lv c0 c1 nm rest,
  At p (c0 :: c1 :: 69 :: rest) -> find_op ops c0 c1 = Some nm -> op_okb c0 c1 = true ->
  run true s 0 (S (S (S k))) (LNested 0) (NS p (Some x) lv false) =
  R 0 (NS (p + 2) (Some (((x ++ str "::") ++ str "operator") ++ nm)) lv false).
Proof.
  intros k p x lv c0 c1 nm rest H Hop Hok.
  change (run true s 0 (S (S (S k))) (LNested 0)) with (nested_loop true s 0 (run true s 0 (S (S k))) 0).
  assert (Hlow : islower c0 = true).
  { unfold op_okb in Hok. apply andb_prop in Hok. destruct Hok as [Hok _].
    apply andb_prop in Hok. tauto. }
  assert (Hr : 97 <= c0 <= 122) by (unfold islower in Hlow; lia).
  unfold nested_loop. unfold NS at 1.
  erewrite bind_R; [| apply (curr_at _ (c0 :: c1 :: 69 :: rest)); [ exact H | reflexivity ] ].
  rewrite bind_eof. stsimpl. pose proof (At_lt _ _ _ H). rwf (p >=? L). cbn [hd0]. chs. cbn [Z.eqb].
  rwf (c0 =? 69). cbn [orb negb].
  erewrite bind_R; [| apply (peek1_at _ c0 (c1 :: 69 :: rest)); [ exact H | reflexivity ] ].
  rwf (c0 =? 68). rwf (c0 =? 67). cbn [andb orb]. rwf (c0 =? 85). rewrite Hlow. cbn [orb].
  (* dd_unqualified_name on an operator *)
  assert (Hu : run true s 0 (S (S k)) FUnqualifiedName (NS p (Some x) lv false) =
               R 0 (NS (p + 2) (Some (((x ++ str "::") ++ str "operator") ++ nm)) lv false)).
  { change (run true s 0 (S (S k)) FUnqualifiedName) with (dd_unqualified_name true s 0 (run true s 0 (S k))).
    unfold dd_unqualified_name. unfold NS at 1.
    erewrite bind_R; [| apply (curr_at _ (c0 :: c1 :: 69 :: rest)); [ exact H | reflexivity ] ].
    erewrite bind_R; [| apply (peek1_at _ c0 (c1 :: 69 :: rest)); [ exact H | reflexivity ] ].
    rewrite bind_eof. stsimpl. rwf (p >=? L). cbn [hd0]. chs. cbn [Z.eqb].
    rwf (c0 =? 67). rwf (c0 =? 68). cbn [orb]. rwf (c0 =? 85). rewrite Hlow.
    fold (NS p (Some x) lv false).
    erewrite bind_R; [| apply (operator_at k p x lv c0 c1 nm rest); assumption ].
    unfold NS at 1.
    pose proof (At_cons _ _ _ (At_cons _ _ _ H)) as H2. replace (p + 1 + 1) with (p + 2) in H2 by lia.
    erewrite bind_R; [| apply (curr_at _ (69 :: rest)); [ exact H2 | reflexivity ] ].
    cbn [hd0]. reflexivity. }
  fold (NS p (Some x) lv false). erewrite bind_R; [| exact Hu ].
  apply (nested_end_plain (S k) _ _ lv false rest).
  pose proof (At_cons _ _ _ (At_cons _ _ _ H)) as H2. replace (p + 1 + 1) with (p + 2) in H2 by lia. exact H2.
Qed.

(* ---- builtin parameter types *)
Definition is_builtin (c : Z) : bool := existsb (Z.eqb c) builtin_types.

Lemma builtin_facts : forall c, is_builtin c = true ->
  strchr_set (str "rVK") c = false /\ strchr_set (str "PROCG") c = false /\
  (c =? ch "F") = false /\ (c =? ch "T") = false /\ (c =? ch "A") = false /\ (c =? ch "M") = false /\
  (c =? ch "D") = false /\ (c =? ch "S") = false /\ (c =? ch "u") = false /\ (c =? ch "U") = false /\
  (c =? ch "I") = false /\ (isdigit c || (c =? ch "N") || (c =? ch "Z")) = false /\
  strchr_set (str "E.@") c = false /\ c <> 36.
Proof.
  intros c H. unfold is_builtin in H. cbn in H.
  repeat (apply orb_prop in H; destruct H as [H | H]); try discriminate;
    apply Z.eqb_eq in H; subst c; repeat split; try reflexivity; discriminate.
Qed.

Lemma type_builtin : forall k p o lv fnm c rest,
  At p (c :: rest) -> is_builtin c = true ->
  run true s 0 (S (S k)) FType (NS p o lv fnm) = R 0 (NS (p + 1) o lv fnm).
Proof.
  intros k p o lv fnm c rest H Hb.
  destruct (builtin_facts c Hb) as [F1 [F2 [F3 [F4 [F5 [F6 [F7 [F8 [F9 [F10 [F11 [F12 [F13 F14]]]]]]]]]]]]].
  change (run true s 0 (S (S k)) FType) with (dd_type (run true s 0 (S k))).
  unfold dd_type, NS. pose proof (At_lt _ _ _ H).
  rewrite bind_eof. stsimpl. rwf (p >=? L). cbn [Z.eqb].
  unfold inc_typ, inc_level. rewrite !bind_modify. stsimpl.
  assert (Hl : run true s 0 (S k) (LType (-1)) (mkst p L o (0 + 1) (lv + 1) 0 false fnm false false)
               = R 0 (mkst (p + 1) L o (0 + 1) (lv + 1) 0 false fnm false false)).
  { cbn [run body]. unfold type_loop.
    rewrite bind_eof. stsimpl. rwf (p >=? L). cbn [Z.eqb].
    erewrite bind_R; [| apply (curr_at _ (c :: rest)); [ exact H | reflexivity ] ].
    cbn [hd0]. rewrite F1, F2, F3, F4, F5, F6, F7, F8, F9, F10, F11, F12.
    unfold is_builtin in Hb. rewrite Hb. unfold consume.
    erewrite bind_R; [| apply (consume_n_at _ 1 (c :: rest)); [ exact H | reflexivity | cbn [List.length]; lia ] ].
    reflexivity. }
  erewrite bind_R; [| exact Hl ].
  unfold dec_level, dec_typ. rewrite !bind_modify. stsimpl. unfold ret.
  replace (0 + 1 - 1) with 0 by lia. replace (lv + 1 - 1) with lv by lia. reflexivity.
Qed.

Lemma enc_types_builtin : forall params k p x,
  At p params -> forallb is_builtin params = true ->
  run true s 0 (List.length params + S (S (S k))) LEncTypes (NS p (Some x) 1 false) =
  R 0 (NS (p + Z.of_nat (List.length params)) (Some x) 1 false).
Proof.
  induction params as [| c ps IH]; intros k p x H Hb.
  - cbn [List.length Nat.add]. cbn [run body]. unfold enc_types_loop, NS.
    rewrite bind_eof. stsimpl. destruct H as [H0 [H1 H2]]. cbn [List.length] in H2.
    rwt (p >=? L). 
    erewrite bind_R; [| apply (curr_at _ []); [ split; [ exact H0 | split; [ exact H1 | exact H2 ] ] | reflexivity ] ].
    cbn [Z.eqb orb]. replace (p + Z.of_nat 0) with p by lia. reflexivity.
  - cbn [forallb] in Hb. apply andb_prop in Hb. destruct Hb as [Hc Hps].
    destruct (builtin_facts c Hc) as [_ [_ [_ [_ [_ [_ [_ [_ [_ [_ [_ [_ [F13 _]]]]]]]]]]]]].
    cbn [List.length Nat.add]. cbn [run body]. unfold enc_types_loop. unfold NS at 1.
    pose proof (At_lt _ _ _ H).
    rewrite bind_eof. stsimpl. rwf (p >=? L).
    erewrite bind_R; [| apply (curr_at _ (c :: ps)); [ exact H | reflexivity ] ].
    cbn [hd0 Z.eqb orb]. rewrite F13.
    fold (NS p (Some x) 1 false).
    replace (List.length ps + S (S (S k)))%nat with (S (S (List.length ps + S k))) by lia.
    erewrite bind_R; [| apply (type_builtin _ p (Some x) 1 false c ps); assumption ].
    cbn [Z.ltb Z.compare].
    replace (S (S (List.length ps + S k))) with (List.length ps + S (S (S k)))%nat by lia.
    rewrite (IH k (p + 1) x (At_cons _ _ _ H) Hps). f_equal. f_equal. lia.
Qed.

(* ---- the last component: plain / constructor / destructor / operator *)
Inductive lastk := LPlain | LCtor (kd : Z) | LDtor (kd : Z) | LOp (c0 c1 : Z).
Definition last_enc (l : lastk) : list Z :=
  match l with LPlain => [] | LCtor kd => [67; kd] | LDtor kd => [68; kd] | LOp c0 c1 => [c0; c1] end.
Definition last_okb (l : lastk) : bool :=
  match l with
  | LPlain => true
  | LCtor kd | LDtor kd => isdigit kd
  | LOp c0 c1 => op_okb c0 c1 && (isupper c1 || islower c1)
                 && match find_op ops c0 c1 with Some _ => true | None => false end
  end.
Definition last_out (x : list Z) (l : lastk) : list Z :=
  match l with
  | LPlain => x
  | LCtor _ => x ++ str "::" ++ last_segment x
  | LDtor _ => x ++ str "::~" ++ last_segment x
  | LOp c0 c1 => match find_op ops c0 c1 with
                 | Some nm => ((x ++ str "::") ++ str "operator") ++ nm
                 | None => x end
  end.

Lemma nested_end : forall l k p x lv rest,
  At p (last_enc l ++ 69 :: rest) -> last_okb l = true ->
  run true s 0 (S (S (S k))) (LNested 0) (NS p (Some x) lv false) =
  R 0 (NS (p + Z.of_nat (List.length (last_enc l))) (Some (last_out x l)) lv false).
Proof.
  intros l k p x lv rest H Hok. destruct l as [| kd | kd | c0 c1]; cbn [last_enc app List.length last_out] in *.
  - replace (p + Z.of_nat 0) with p by lia. apply (nested_end_plain _ p _ lv false rest H).
  - rewrite (nested_end_ctor (S k) p x lv 67 kd rest H (or_introl eq_refl) Hok). reflexivity.
  - rewrite (nested_end_ctor (S k) p x lv 68 kd rest H (or_intror eq_refl) Hok). reflexivity.
  - apply andb_prop in Hok. destruct Hok as [Hok Hf]. apply andb_prop in Hok. destruct Hok as [Hop _].
    destruct (find_op ops c0 c1) as [nm |] eqn:E; [| discriminate ].
    apply (nested_end_op k p x lv c0 c1 nm rest H E Hop).
Qed.

Lemma out_after_nonempty : forall cs x, out_after (Some x) false cs =
  Some (x ++ List.concat (map (fun id => str "::" ++ id) cs)).
Proof.
  induction cs as [| id cs IH]; intros x; cbn [out_after map List.concat].
  - rewrite app_nil_r. reflexivity.
  - unfold sep_out, add_out. rewrite IH. rewrite <- !app_assoc. reflexivity.
Qed.
Definition join_sep (comps : list (list Z)) : list Z :=
  match comps with [] => [] | a :: cs => a ++ List.concat (map (fun id => str "::" ++ id) cs) end.
Lemma out_after_start : forall a cs, out_after None true (a :: cs) = Some (join_sep (a :: cs)).
Proof. intros a cs. cbn [out_after sep_out add_out]. apply out_after_nonempty. Qed.

(* dd_nested_name on  N <source-name>+ <last> E  *)
Lemma nested_name_at : forall a cs l k p lv rest,
  At p (78 :: srcs (a :: cs) ++ last_enc l ++ 69 :: rest) ->
  Forall (fun id => ident_okb id = true) (a :: cs) -> last_okb l = true ->
  no_dollar (srcs (a :: cs) ++ last_enc l ++ 69 :: rest) -> L <= INT_MAX ->
  run true s 0 (S (List.length (a :: cs) + S (S (S k)))) FNestedName (NS p None lv true) =
  R 0 (NS (p + 1 + Z.of_nat (List.length (srcs (a :: cs))) + Z.of_nat (List.length (last_enc l)) + 1)
          (Some (last_out (join_sep (a :: cs)) l)) lv false).
Proof.
  intros a cs l k p lv rest H Hok Hl Hnd HL.
  set (comps := a :: cs) in *.
  change (run true s 0 (S (List.length comps + S (S (S k)))) FNestedName)
    with (dd_nested_name s 0 (run true s 0 (List.length comps + S (S (S k))))).
  unfold dd_nested_name. unfold NS at 1. pose proof (At_lt _ _ _ H).
  rewrite bind_eof. stsimpl. rwf (p >=? L). cbn [Z.eqb].
  unfold expect at 1. unfold consume.
  erewrite bind_R; [| apply (consume_n_at _ 1 (78 :: srcs comps ++ last_enc l ++ 69 :: rest));
                       [ exact H | reflexivity | cbn [List.length]; lia ] ].
  cbn [hd0]. chs. cbn [Z.eqb Pos.eqb]. stsimpl.
  unfold inc_level. rewrite bind_modify. stsimpl.
  apply At_cons in H.
  (* the component loop, then the ending *)
  assert (HB : hd0 (last_enc l ++ 69 :: rest) <> 66).
  { destruct l as [| kd | kd | c0 c1]; cbn [last_enc app hd0]; try lia.
    cbn [last_okb] in Hl. apply andb_prop in Hl. destruct Hl as [Hl _]. apply andb_prop in Hl. destruct Hl as [Hl _].
    unfold op_okb in Hl. apply andb_prop in Hl. destruct Hl as [Hl _]. apply andb_prop in Hl. destruct Hl as [Hl _].
    unfold islower in Hl. lia. }
  fold (NS (p + 1) None (lv + 1) true).
  erewrite bind_R.
  2:{ rewrite (nested_comps comps (S (S k)) (p + 1) None (lv + 1) true (last_enc l ++ 69 :: rest)); try assumption.
      unfold comps at 2 3. rewrite out_after_start. cbn [fnm_after].
      apply (nested_end l k _ _ (lv + 1) rest); [| exact Hl ].
      apply (At_app _ (srcs comps)). exact H. }
  (* the closing E *)
  apply (At_app _ (srcs comps)) in H. apply (At_app _ (last_enc l)) in H.
  unfold expect. unfold consume. unfold NS at 1.
  erewrite bind_R; [| apply (consume_n_at _ 1 (69 :: rest)); [ exact H | reflexivity | cbn [List.length]; lia ] ].
  cbn [hd0]. chs. cbn [Z.eqb Pos.eqb]. stsimpl.
  unfold dec_level. rewrite bind_modify. stsimpl. unfold ret, NS.
  replace (lv + 1 - 1) with lv by lia. reflexivity.
Qed.

(* ---- dd_name / dd_encoding on the whole symbol *)
Lemma encoding_at : forall a cs l params F,
  s = str "_ZN" ++ srcs (a :: cs) ++ last_enc l ++ 69 :: params ->
  Forall (fun id => ident_okb id = true) (a :: cs) -> last_okb l = true ->
  forallb is_builtin params = true ->
  no_dollar (srcs (a :: cs) ++ last_enc l ++ 69 :: params) -> L <= INT_MAX ->
  (List.length (a :: cs) + List.length params + 8 <= F)%nat ->
  run true s 0 F FEncoding (st0 L) = R 0 (NS L (Some (last_out (join_sep (a :: cs)) l)) 0 false).
Proof.
  intros a cs l params F Hs Hok Hl Hpar Hnd HL HF.
  set (comps := a :: cs) in *.
  set (body := srcs comps ++ last_enc l ++ 69 :: params) in *.
  assert (H0 : At 0 (95 :: 90 :: 78 :: body)).
  { unfold At. split; [ lia |]. split; [ unfold suffix; cbn [Z.add Z.to_nat skipn]; rewrite Hs; reflexivity |].
    unfold flen. rewrite Hs. cbn [str app List.length]. lia. }
  pose proof (At_cons _ _ _ H0) as H1. pose proof (At_cons _ _ _ H1) as H2. cbn [Z.add Pos.add] in H1, H2.
  assert (HLen : L = 3 + Z.of_nat (List.length (srcs comps)) + Z.of_nat (List.length (last_enc l)) + 1
                     + Z.of_nat (List.length params)).
  { destruct H0 as [_ [_ HH]]. cbn [List.length] in HH. unfold body in HH.
    repeat rewrite app_length in HH. cbn [List.length] in HH. lia. }
  destruct F as [| F1]; [ lia |]. destruct F1 as [| F2]; [ lia |]. destruct F2 as [| F3]; [ lia |].
  change (run true s 0 (S (S (S F3))) FEncoding) with (dd_encoding s 0 (run true s 0 (S (S F3)))).
  unfold dd_encoding, st0.
  pose proof (At_lt _ _ _ H0) as HL0.
  rewrite bind_eof. stsimpl. rwf (0 >=? L). cbn [Z.eqb].
  rewrite bind_gets. stsimpl. cbn [Z.eqb].
  erewrite bind_R; [| apply (consume_n_at _ 2 (95 :: 90 :: 78 :: body)); [ exact H0 | reflexivity | cbn [List.length]; lia ] ].
  stsimpl. cbn [Z.add]. unfold inc_level. rewrite bind_modify. stsimpl. cbn [Z.add].
  erewrite bind_R; [| apply (curr_at _ (78 :: body)); [ exact H2 | reflexivity ] ].
  cbn [hd0]. chs. cbn [Z.eqb Pos.eqb orb].
  (* dd_name -> dd_nested_name *)
  assert (Hname : run true s 0 (S (S F3)) FName (NS 2 None 1 true) =
                  R 0 (NS (2 + 1 + Z.of_nat (List.length (srcs comps)) + Z.of_nat (List.length (last_enc l)) + 1)
                          (Some (last_out (join_sep comps) l)) 1 false)).
  { change (run true s 0 (S (S F3)) FName) with (dd_name true s 0 (run true s 0 (S F3))).
    unfold dd_name. unfold NS at 1.
    erewrite bind_R; [| apply (curr_at _ (78 :: body)); [ exact H2 | reflexivity ] ].
    pose proof (At_lt _ _ _ H2).
    rewrite bind_eof. stsimpl. rwf (2 >=? L). cbn [hd0]. chs. cbn [Z.eqb Pos.eqb].
    fold (NS 2 None 1 true).
    replace (S F3) with (S (List.length comps + S (S (S (F3 - List.length comps - 3)))))%nat
      by (cbn [List.length] in *; lia).
    apply (nested_name_at a cs l _ 2 1 params); assumption. }
  fold (NS 2 None 1 true). erewrite bind_R; [| exact Hname ].
  cbn [Z.ltb Z.compare].
  set (pe := 2 + 1 + Z.of_nat (List.length (srcs comps)) + Z.of_nat (List.length (last_enc l)) + 1).
  assert (Hpe : At pe params).
  { unfold pe. replace (2 + 1 + Z.of_nat (List.length (srcs comps)) + Z.of_nat (List.length (last_enc l)) + 1)
      with (2 + 1 + Z.of_nat (List.length (srcs comps)) + Z.of_nat (List.length (last_enc l)) + Z.of_nat (List.length [69])) by (cbn [List.length]; lia).
    apply (At_app _ [69] params). apply (At_app _ (last_enc l)). apply (At_app _ (srcs comps)).
    apply At_cons in H2. exact H2. }
  erewrite bind_R.
  2:{ replace (S (S F3)) with (List.length params + S (S (S (F3 - List.length params - 1))))%nat
        by (cbn [List.length] in *; lia).
      apply (enc_types_builtin params _ pe _ Hpe Hpar). }
  assert (HpeL : pe + Z.of_nat (List.length params) = L) by (unfold pe; lia).
  rewrite HpeL.
  assert (Hend : At L []).
  { rewrite <- HpeL. replace params with (params ++ []) in Hpe by apply app_nil_r. apply (At_app _ params []). exact Hpe. }
  unfold NS at 1.
  erewrite bind_R; [| apply (curr_at _ []); [ exact Hend | reflexivity ] ].
  cbn [hd0]. chs. cbn [Z.eqb]. rewrite bind_ret.
  erewrite bind_R; [| apply (curr_at _ []); [ exact Hend | reflexivity ] ].
  cbn [hd0 Z.eqb]. rewrite bind_ret.
  unfold dec_level. rewrite bind_modify. stsimpl. reflexivity.
Qed.

(* ---- no '$' in a mangled name of the subset *)
Lemma no_dollar_digits : forall ds, Forall (fun c => isdigit c = true) ds -> no_dollar ds.
Proof. intros ds H. eapply Forall_impl; [| exact H ]. intros c Hc. apply isdigit_range in Hc. lia. Qed.
Lemma no_dollar_ident : forall id, ident_okb id = true -> no_dollar id.
Proof.
  intros id H. unfold ident_okb in H. apply andb_prop in H. destruct H as [H _].
  apply andb_prop in H. destruct H as [H _]. apply andb_prop in H. destruct H as [_ H].
  rewrite forallb_forall in H. apply Forall_forall. intros x Hx. specialize (H x Hx).
  unfold idchar, isdigit, isupper, islower in H. lia.
Qed.
Lemma no_dollar_src : forall id, ident_okb id = true -> no_dollar (src id).
Proof.
  intros id H. unfold src. apply Forall_app. split; [| apply no_dollar_ident; exact H ].
  destruct (dec_spec _ (ident_len id H)) as [ds [E1 [E2 _]]]. rewrite E1. apply no_dollar_digits. exact E2.
Qed.
Lemma no_dollar_srcs : forall cs, Forall (fun id => ident_okb id = true) cs -> no_dollar (srcs cs).
Proof.
  induction cs as [| id cs IH]; intros H; [ constructor |].
  inversion H; subst. unfold srcs. cbn [map List.concat]. apply Forall_app. split.
  - apply no_dollar_src. assumption.
  - apply IH. assumption.
Qed.
Lemma no_dollar_last : forall l, last_okb l = true -> no_dollar (last_enc l).
Proof.
  intros l H. destruct l as [| kd | kd | c0 c1]; cbn [last_enc last_okb] in *.
  - constructor.
  - apply isdigit_range in H. repeat constructor; lia.
  - apply isdigit_range in H. repeat constructor; lia.
  - apply andb_prop in H. destruct H as [H _]. apply andb_prop in H. destruct H as [H1 H2].
    unfold op_okb in H1. apply andb_prop in H1. destruct H1 as [H1 _]. apply andb_prop in H1. destruct H1 as [H1 _].
    unfold islower, isupper in *. repeat constructor; lia.
Qed.
Lemma no_dollar_params : forall ps, forallb is_builtin ps = true -> no_dollar ps.
Proof.
  intros ps H. rewrite forallb_forall in H. apply Forall_forall. intros x Hx.
  destruct (builtin_facts x (H x Hx)) as [_ [_ [_ [_ [_ [_ [_ [_ [_ [_ [_ [_ [_ F]]]]]]]]]]]]]. exact F.
Qed.


(* ---- Rust legacy: the trailing 17h<16 hex digits> component is dropped *)
Definition hash_okb (h : list Z) : bool := (Nat.eqb (List.length h) 17) && hash17 h.

Lemma source_name_hash_at : forall p o lv fnm h rest,
  At p (str "17" ++ h ++ rest) -> hash_okb h = true -> L <= INT_MAX ->
  dd_source_name true s 0 (NS p o lv fnm) = R 0 (NS (p + 19) o lv fnm).
Proof.
  intros p o lv fnm h rest H Hh HL.
  unfold hash_okb in Hh. apply andb_prop in Hh. destruct Hh as [Hlen Hh]. apply Nat.eqb_eq in Hlen.
  assert (Hd17 : dec 17 = str "17") by (vm_compute; reflexivity).
  assert (Hnd : starts_nondigit (h ++ rest)).
  { destruct h as [| h0 h']; [ discriminate |]. cbn. unfold hash17 in Hh.
    apply andb_prop in Hh. destruct Hh as [Hh _]. apply andb_prop in Hh. destruct Hh as [Hh _].
    apply Z.eqb_eq in Hh. subst h0. reflexivity. }
  unfold dd_source_name, NS.
  assert (H' : At p (dec 17 ++ h ++ rest)) by (rewrite Hd17; exact H).
  erewrite bind_R; [| apply (number_at _ 17 (h ++ rest)); [ exact H' | reflexivity | lia | exact Hnd ] ].
  clear H'. apply (At_app _ (str "17")) in H. rewrite Hd17. cbn [str List.length] in H. stsimpl. cbn [List.length str].
  replace (p + Z.of_nat 2) with (p + 2) in * by lia.
  assert (Hp : p + 2 + 17 <= L).
  { destruct H as [_ [_ H2]]. rewrite app_length in H2. lia. }
  cbn [Z.ltb Z.compare].
  rewrite bind_eof. stsimpl. rwf (p + 2 >=? L). rewrite bind_gets, bind_gets. stsimpl. cbn [Z.eqb].
  cbn [negb andb]. rwf (17 >? L - (p + 2)).
  rewrite bind_gets, bind_getb, bind_gets. stsimpl. cbn [Z.eqb negb andb orb Pos.eqb].
  destruct H as [H0 [H1 H2]]. rewrite H1. rewrite hash17_app by exact Hlen. rewrite Hh.
  erewrite bind_R.
  2:{ apply (consume_n_at _ 17 (h ++ rest)); [ split; [ exact H0 | split; [ exact H1 | exact H2 ] ] | reflexivity |].
      rewrite app_length. lia. }
  stsimpl. unfold ret. replace (p + 2 + 17) with (p + 19) by lia. reflexivity.
Qed.

Lemma unq_hash : forall k p o lv fnm h rest,
  At p (str "17" ++ h ++ rest) -> hash_okb h = true -> L <= INT_MAX -> hd0 rest <> 66 ->
  run true s 0 (S k) FUnqualifiedName (NS p o lv fnm) = R 0 (NS (p + 19) o lv fnm).
Proof.
  intros k p o lv fnm h rest H Hh HL HB.
  cbn [run body]. unfold dd_unqualified_name. unfold NS at 1.
  assert (Hc : At p (49 :: 55 :: h ++ rest)) by exact H.
  erewrite bind_R; [| apply (curr_at _ (49 :: 55 :: h ++ rest)); [ exact Hc | reflexivity ] ].
  erewrite bind_R; [| apply (peek1_at _ 49 (55 :: h ++ rest)); [ exact Hc | reflexivity ] ].
  pose proof (At_lt _ _ _ Hc).
  rewrite bind_eof. stsimpl. rwf (p >=? L). cbn [hd0]. chs. cbn [Z.eqb Pos.eqb orb].
  unfold islower. cbn [Z.leb Z.compare Pos.compare Pos.compare_cont andb]. rewrite bind_ret.
  fold (NS p o lv fnm).
  erewrite bind_R; [| apply (source_name_hash_at p o lv fnm h rest); assumption ].
  unfold NS at 1.
  assert (H19 : At (p + 19) rest).
  { apply (At_app _ (str "17")) in H. apply At_app in H.
    unfold hash_okb in Hh. apply andb_prop in Hh. destruct Hh as [Hlen _]. apply Nat.eqb_eq in Hlen.
    rewrite Hlen in H. cbn [List.length str] in H. replace (p + Z.of_nat 2 + Z.of_nat 17) with (p + 19) in H by lia. exact H. }
  erewrite bind_R; [| apply (curr_at _ rest); [ exact H19 | reflexivity ] ].
  rwf (hd0 rest =? 66). reflexivity.
Qed.

(* _ZN <source-name>+ 17h<hash> E *)
Lemma rust_encoding_at : forall a cs h F,
  s = str "_ZN" ++ srcs (a :: cs) ++ str "17" ++ h ++ [69] ->
  Forall (fun id => ident_okb id = true) (a :: cs) -> hash_okb h = true ->
  no_dollar (srcs (a :: cs) ++ str "17" ++ h ++ [69]) -> L <= INT_MAX ->
  (List.length (a :: cs) + 8 <= F)%nat ->
  run true s 0 F FEncoding (st0 L) = R 0 (NS L (Some (join_sep (a :: cs))) 0 false).
Proof.
  intros a cs h F Hs Hok Hh Hnd HL HF.
  set (comps := a :: cs) in *.
  set (body := srcs comps ++ str "17" ++ h ++ [69]) in *.
  assert (H0 : At 0 (95 :: 90 :: 78 :: body)).
  { unfold At. split; [ lia |]. split; [ unfold suffix; cbn [Z.add Z.to_nat skipn]; rewrite Hs; reflexivity |].
    unfold flen. rewrite Hs. cbn [str app List.length]. lia. }
  pose proof (At_cons _ _ _ H0) as H1. pose proof (At_cons _ _ _ H1) as H2. cbn [Z.add Pos.add] in H1, H2.
  assert (Hhl : List.length h = 17%nat).
  { unfold hash_okb in Hh. apply andb_prop in Hh. destruct Hh as [Hlen _]. apply Nat.eqb_eq in Hlen. exact Hlen. }
  assert (HLen : L = 3 + Z.of_nat (List.length (srcs comps)) + 19 + 1).
  { destruct H0 as [_ [_ HH]]. cbn [List.length] in HH. unfold body in HH.
    repeat rewrite app_length in HH. cbn [List.length str] in HH. lia. }
  destruct F as [| F1]; [ lia |]. destruct F1 as [| F2]; [ lia |]. destruct F2 as [| F3]; [ lia |].
  change (run true s 0 (S (S (S F3))) FEncoding) with (dd_encoding s 0 (run true s 0 (S (S F3)))).
  unfold dd_encoding, st0.
  pose proof (At_lt _ _ _ H0) as HL0.
  rewrite bind_eof. stsimpl. rwf (0 >=? L). cbn [Z.eqb].
  rewrite bind_gets. stsimpl. cbn [Z.eqb].
  erewrite bind_R; [| apply (consume_n_at _ 2 (95 :: 90 :: 78 :: body)); [ exact H0 | reflexivity | cbn [List.length]; lia ] ].
  stsimpl. cbn [Z.add]. unfold inc_level. rewrite bind_modify. stsimpl. cbn [Z.add].
  erewrite bind_R; [| apply (curr_at _ (78 :: body)); [ exact H2 | reflexivity ] ].
  cbn [hd0]. chs. cbn [Z.eqb Pos.eqb orb].
  set (pe := 3 + Z.of_nat (List.length (srcs comps))).
  assert (H3 : At pe (str "17" ++ h ++ [69])).
  { unfold pe. apply (At_app _ (srcs comps)). apply At_cons in H2. exact H2. }
  assert (H4 : At (pe + 19) [69]).
  { apply At_app in H3. apply At_app in H3. rewrite Hhl in H3. cbn [List.length str] in H3.
    replace (pe + Z.of_nat 2 + Z.of_nat 17) with (pe + 19) in H3 by lia. exact H3. }
  assert (Hname : run true s 0 (S (S F3)) FName (NS 2 None 1 true) = R 0 (NS L (Some (join_sep comps)) 1 false)).
  { change (run true s 0 (S (S F3)) FName) with (dd_name true s 0 (run true s 0 (S F3))).
    unfold dd_name. unfold NS at 1.
    erewrite bind_R; [| apply (curr_at _ (78 :: body)); [ exact H2 | reflexivity ] ].
    pose proof (At_lt _ _ _ H2).
    rewrite bind_eof. stsimpl. rwf (2 >=? L). cbn [hd0]. chs. cbn [Z.eqb Pos.eqb].
    change (run true s 0 (S F3) FNestedName) with (dd_nested_name s 0 (run true s 0 F3)).
    unfold dd_nested_name.
    rewrite bind_eof. stsimpl. rwf (2 >=? L). cbn [Z.eqb].
    unfold expect at 1. unfold consume.
    erewrite bind_R; [| apply (consume_n_at _ 1 (78 :: body)); [ exact H2 | reflexivity | cbn [List.length]; lia ] ].
    cbn [hd0]. chs. cbn [Z.eqb Pos.eqb]. stsimpl.
    unfold inc_level. rewrite bind_modify. stsimpl. cbn [Z.add Pos.add].
    fold (NS 3 None 2 true).
    erewrite bind_R.
    2:{ replace F3 with (List.length comps + S (S (S (F3 - List.length comps - 3))))%nat at 1 by (cbn [List.length] in *; lia).
        rewrite (nested_comps comps _ 3 None 2 true (str "17" ++ h ++ [69])); try assumption.
        - unfold comps at 2 3. rewrite out_after_start. cbn [fnm_after]. fold comps. fold pe.
          change (run true s 0 (S (S (S (F3 - List.length comps - 3)))) (LNested 0))
            with (nested_loop true s 0 (run true s 0 (S (S (F3 - List.length comps - 3)))) 0).
          unfold nested_loop. unfold NS at 1. cbn [str app] in H3.
          erewrite bind_R; [| apply (curr_at _ (49 :: 55 :: h ++ [69])); [ exact H3 | reflexivity ] ].
          pose proof (At_lt _ _ _ H3).
          rewrite bind_eof. stsimpl. rwf (pe >=? L). cbn [hd0]. chs. cbn [Z.eqb Pos.eqb orb negb].
          erewrite bind_R; [| apply (peek1_at _ 49 (55 :: h ++ [69])); [ exact H3 | reflexivity ] ].
          cbn [andb orb]. unfold islower, isdigit.
          cbn [Z.leb Z.compare Pos.compare Pos.compare_cont andb orb].
          fold (NS pe (Some (join_sep comps)) 2 false).
          erewrite bind_R; [| apply (unq_hash _ pe _ 2 false h [69]); [ exact H3 | exact Hh | exact HL | cbn; lia ] ].
          apply (nested_end_plain _ (pe + 19) _ 2 false []). exact H4.
        - apply At_cons in H2. exact H2.
        - cbn. lia. }
    unfold expect. unfold consume. unfold NS at 1.
    erewrite bind_R; [| apply (consume_n_at _ 1 [69]); [ exact H4 | reflexivity | cbn [List.length]; lia ] ].
    cbn [hd0]. chs. cbn [Z.eqb Pos.eqb]. stsimpl.
    unfold dec_level. rewrite bind_modify. stsimpl. unfold ret, NS. cbn [Z.sub Z.add Z.opp Z.pos_sub Pos.pred_double].
    replace (pe + 19 + 1) with L by (unfold pe; lia). reflexivity. }
  fold (NS 2 None 1 true). erewrite bind_R; [| exact Hname ].
  cbn [Z.ltb Z.compare].
  assert (Hend : At L []).
  { replace L with (pe + 19 + Z.of_nat (List.length [69])) by (unfold pe; cbn [List.length]; lia).
    apply (At_app _ [69] []). exact H4. }
  (* the type loop stops at once: end of string *)
  erewrite bind_R.
  2:{ change (run true s 0 (S (S F3)) LEncTypes) with (enc_types_loop s 0 (run true s 0 (S F3))).
      unfold enc_types_loop, NS. rewrite bind_eof. stsimpl. rwt (L >=? L).
      erewrite bind_R; [| apply (curr_at _ []); [ exact Hend | reflexivity ] ].
      cbn [Z.eqb orb Pos.eqb]. reflexivity. }
  erewrite bind_R; [| apply (curr_at _ []); [ exact Hend | reflexivity ] ].
  cbn [hd0]. chs. cbn [Z.eqb]. rewrite bind_ret.
  erewrite bind_R; [| apply (curr_at _ []); [ exact Hend | reflexivity ] ].
  cbn [hd0 Z.eqb]. rewrite bind_ret.
  unfold dec_level. rewrite bind_modify. stsimpl. reflexivity.
Qed.


(* ---- unscoped function names: _Z <source-name> <builtin type>* *)
Lemma unscoped_encoding_at : forall id params F,
  s = str "_Z" ++ src id ++ params ->
  ident_okb id = true -> forallb is_builtin params = true -> L <= INT_MAX ->
  (List.length params + 8 <= F)%nat ->
  run true s 0 F FEncoding (st0 L) = R 0 (NS L (Some id) 0 false).
Proof.
  intros id params F Hs Hid Hpar HL HF.
  assert (H0 : At 0 (95 :: 90 :: src id ++ params)).
  { unfold At. split; [ lia |]. split; [ unfold suffix; cbn [Z.add Z.to_nat skipn]; rewrite Hs; reflexivity |].
    unfold flen. rewrite Hs. cbn [str app List.length]. lia. }
  pose proof (At_cons _ _ _ H0) as H1. pose proof (At_cons _ _ _ H1) as H2. cbn [Z.add Pos.add] in H1, H2.
  assert (HLen : L = 2 + Z.of_nat (List.length (src id)) + Z.of_nat (List.length params)).
  { destruct H0 as [_ [_ HH]]. cbn [List.length] in HH. rewrite app_length in HH. lia. }
  pose proof (src_hd_digit id params Hid) as Hd.
  destruct (src id ++ params) as [| d tl] eqn:E.
  { exfalso. unfold src in E. destruct (hd0_dec_digit _ (id ++ params) (ident_len id Hid)) as [_ Hne].
    rewrite <- app_assoc in E. destruct (dec (Z.of_nat (List.length id))); [ contradiction | discriminate ]. }
  cbn [hd0] in Hd.
  destruct F as [| F1]; [ lia |]. destruct F1 as [| F2]; [ lia |]. destruct F2 as [| F3]; [ lia |].
  change (run true s 0 (S (S (S F3))) FEncoding) with (dd_encoding s 0 (run true s 0 (S (S F3)))).
  unfold dd_encoding, st0.
  pose proof (At_lt _ _ _ H0) as HL0.
  rewrite bind_eof. stsimpl. rwf (0 >=? L). cbn [Z.eqb].
  rewrite bind_gets. stsimpl. cbn [Z.eqb].
  erewrite bind_R; [| apply (consume_n_at _ 2 (95 :: 90 :: d :: tl)); [ exact H0 | reflexivity | cbn [List.length]; lia ] ].
  stsimpl. cbn [Z.add]. unfold inc_level. rewrite bind_modify. stsimpl. cbn [Z.add].
  erewrite bind_R; [| apply (curr_at _ (d :: tl)); [ exact H2 | reflexivity ] ].
  cbn [hd0]. chs. rwf (d =? 84). rwf (d =? 71). cbn [orb].
  set (pe := 2 + Z.of_nat (List.length (src id))).
  assert (Hpe : At pe params).
  { unfold pe. rewrite <- E in H2. apply (At_app _ (src id)). exact H2. }
  assert (HpI : hd0 params <> 73 /\ hd0 params <> 66).
  { destruct params as [| c ps]; [ cbn; lia |]. cbn [forallb] in Hpar. apply andb_prop in Hpar. destruct Hpar as [Hc _].
    unfold is_builtin in Hc. cbn in Hc. cbn [hd0].
    repeat (apply orb_prop in Hc; destruct Hc as [Hc | Hc]); try discriminate; apply Z.eqb_eq in Hc; subst c; split; lia. }
  destruct HpI as [HpI HpB].
  assert (Hnd : no_dollar (id ++ params)).
  { apply Forall_app. split; [ apply no_dollar_ident; exact Hid | apply no_dollar_params; exact Hpar ]. }
  assert (Hname : run true s 0 (S (S F3)) FName (NS 2 None 1 true) = R 0 (NS pe (Some id) 1 false)).
  { change (run true s 0 (S (S F3)) FName) with (dd_name true s 0 (run true s 0 (S F3))).
    unfold dd_name. unfold NS at 1.
    erewrite bind_R; [| apply (curr_at _ (d :: tl)); [ exact H2 | reflexivity ] ].
    pose proof (At_lt _ _ _ H2).
    rewrite bind_eof. stsimpl. rwf (2 >=? L). cbn [hd0]. chs. cbn [Z.eqb].
    rwf (d =? 78). rwf (d =? 90). rwf (d =? 83).
    fold (NS 2 None 1 true). rewrite <- E in H2.
    erewrite bind_R; [| apply (unq_src _ 2 None 1 true id params); assumption ].
    cbn [Z.ltb Z.compare]. unfold NS at 1. fold pe.
    erewrite bind_R; [| apply (curr_at _ params); [ exact Hpe | reflexivity ] ].
    rwf (hd0 params =? 73). reflexivity. }
  fold (NS 2 None 1 true). erewrite bind_R; [| exact Hname ].
  cbn [Z.ltb Z.compare].
  erewrite bind_R.
  2:{ replace (S (S F3)) with (List.length params + S (S (S (F3 - List.length params - 1))))%nat by lia.
      apply (enc_types_builtin params _ pe _ Hpe Hpar). }
  assert (HpeL : pe + Z.of_nat (List.length params) = L) by (unfold pe; lia).
  rewrite HpeL.
  assert (Hend : At L []).
  { rewrite <- HpeL. replace params with (params ++ []) in Hpe by apply app_nil_r. apply (At_app _ params []). exact Hpe. }
  unfold NS at 1.
  erewrite bind_R; [| apply (curr_at _ []); [ exact Hend | reflexivity ] ].
  cbn [hd0]. chs. cbn [Z.eqb]. rewrite bind_ret.
  erewrite bind_R; [| apply (curr_at _ []); [ exact Hend | reflexivity ] ].
  cbn [hd0 Z.eqb]. rewrite bind_ret.
  unfold dec_level. rewrite bind_modify. stsimpl. reflexivity.
Qed.

(* ================================================================ template arguments (builtin types) *)
Definition NST (p : Z) (o : option (list Z)) (lv tp : Z) (fnm : bool) : state :=
  mkst p L o 0 lv tp false fnm false false.

Lemma type_builtin_T : forall k p o lv tp fnm c rest,
  At p (c :: rest) -> is_builtin c = true ->
  run true s 0 (S (S k)) FType (NST p o lv tp fnm) = R 0 (NST (p + 1) o lv tp fnm).
Proof.
  intros k p o lv tp fnm c rest H Hb.
  destruct (builtin_facts c Hb) as [F1 [F2 [F3 [F4 [F5 [F6 [F7 [F8 [F9 [F10 [F11 [F12 [F13 F14]]]]]]]]]]]]].
  change (run true s 0 (S (S k)) FType) with (dd_type (run true s 0 (S k))).
  unfold dd_type, NST. pose proof (At_lt _ _ _ H).
  rewrite bind_eof. stsimpl. rwf (p >=? L). cbn [Z.eqb].
  unfold inc_typ, inc_level. rewrite !bind_modify. stsimpl.
  assert (Hl : run true s 0 (S k) (LType (-1)) (mkst p L o (0 + 1) (lv + 1) tp false fnm false false)
               = R 0 (mkst (p + 1) L o (0 + 1) (lv + 1) tp false fnm false false)).
  { cbn [run body]. unfold type_loop.
    rewrite bind_eof. stsimpl. rwf (p >=? L). cbn [Z.eqb].
    erewrite bind_R; [| apply (curr_at _ (c :: rest)); [ exact H | reflexivity ] ].
    cbn [hd0]. rewrite F1, F2, F3, F4, F5, F6, F7, F8, F9, F10, F11, F12.
    unfold is_builtin in Hb. rewrite Hb. unfold consume.
    erewrite bind_R; [| apply (consume_n_at _ 1 (c :: rest)); [ exact H | reflexivity | cbn [List.length]; lia ] ].
    reflexivity. }
  erewrite bind_R; [| exact Hl ].
  unfold dec_level, dec_typ. rewrite !bind_modify. stsimpl. unfold ret.
  replace (0 + 1 - 1) with 0 by lia. replace (lv + 1 - 1) with lv by lia. reflexivity.
Qed.

Lemma builtin_lower : forall c, is_builtin c = true -> 97 <= c <= 122.
Proof.
  intros c H. unfold is_builtin in H. cbn in H.
  repeat (apply orb_prop in H; destruct H as [H | H]); try discriminate; apply Z.eqb_eq in H; subst c; lia.
Qed.

Lemma template_arg_builtin : forall k p o lv tp fnm c rest, (3 <= k)%nat ->
  At p (c :: rest) -> is_builtin c = true ->
  run true s 0 k FTemplateArg (NST p o lv tp fnm) = R 0 (NST (p + 1) o lv tp fnm).
Proof.
  intros k p o lv tp fnm c rest Hk H Hb.
  destruct k as [| [| [| k]]]; try lia.
  change (run true s 0 (S (S (S k))) FTemplateArg) with (dd_template_arg s 0 (run true s 0 (S (S k)))).
  unfold dd_template_arg. unfold NST at 1. pose proof (builtin_lower c Hb) as Hlow. pose proof (At_lt _ _ _ H).
  erewrite bind_R; [| apply (curr_at _ (c :: rest)); [ exact H | reflexivity ] ].
  rewrite bind_eof. stsimpl. rwf (p >=? L). cbn [hd0]. chs. cbn [Z.eqb].
  rwf (c =? 88). rwf (c =? 76). rwf (c =? 74).
  fold (NST p o lv tp fnm).
  erewrite bind_R; [| apply (type_builtin_T k p o lv tp fnm c rest); assumption ].
  reflexivity.
Qed.

Lemma until_targs : forall targs k p o lv tp fnm rest, (List.length targs + 4 <= k)%nat ->
  At p (targs ++ 69 :: rest) -> forallb is_builtin targs = true ->
  run true s 0 k (LUntilE FTemplateArg) (NST p o lv tp fnm) = R 0 (NST (p + Z.of_nat (List.length targs)) o lv tp fnm).
Proof.
  induction targs as [| c ts IH]; intros k p o lv tp fnm rest Hk H Hb.
  - destruct k as [| k]; [ cbn [List.length] in Hk; lia |].
    cbn [run body]. unfold until_E. unfold NST at 1. cbn [app] in H.
    erewrite bind_R; [| apply (curr_at _ (69 :: rest)); [ exact H | reflexivity ] ].
    cbn [hd0 List.length]. chs. cbn [Z.eqb Pos.eqb]. replace (p + Z.of_nat 0) with p by lia. reflexivity.
  - cbn [forallb] in Hb. apply andb_prop in Hb. destruct Hb as [Hc Hts].
    cbn [List.length] in Hk. destruct k as [| k]; [ lia |].
    cbn [run body]. unfold until_E. unfold NST at 1. cbn [app] in H.
    pose proof (builtin_lower c Hc) as Hlow.
    erewrite bind_R; [| apply (curr_at _ (c :: ts ++ 69 :: rest)); [ exact H | reflexivity ] ].
    cbn [hd0]. chs. rwf (c =? 69).
    fold (NST p o lv tp fnm).
    erewrite bind_R; [| apply (template_arg_builtin k p o lv tp fnm c (ts ++ 69 :: rest)); [ lia | exact H | exact Hc ] ].
    cbn [Z.ltb Z.compare].
    rewrite (IH k (p + 1) o lv tp fnm rest); [| lia | apply At_cons in H; exact H | exact Hts ].
    cbn [List.length]. f_equal. unfold NST. f_equal. lia.
Qed.

(* I <builtin type>* E *)
Lemma template_args_at : forall targs k p o lv fnm rest, (List.length targs + 5 <= k)%nat ->
  At p (73 :: targs ++ 69 :: rest) -> forallb is_builtin targs = true ->
  run true s 0 k FTemplateArgs (NS p o lv fnm) = R 0 (NS (p + Z.of_nat (List.length targs) + 2) o lv fnm).
Proof.
  intros targs k p o lv fnm rest Hk H Hb.
  destruct k as [| k]; [ lia |].
  change (run true s 0 (S k) FTemplateArgs) with (dd_template_args s 0 (run true s 0 k)).
  unfold dd_template_args. unfold NS at 1. pose proof (At_lt _ _ _ H).
  rewrite bind_eof. stsimpl. rwf (p >=? L). cbn [Z.eqb].
  unfold expect at 1. unfold consume.
  erewrite bind_R; [| apply (consume_n_at _ 1 (73 :: targs ++ 69 :: rest)); [ exact H | reflexivity | cbn [List.length]; lia ] ].
  cbn [hd0]. chs. cbn [Z.eqb Pos.eqb]. stsimpl.
  unfold inc_templates, inc_level. rewrite !bind_modify. stsimpl.
  fold (NST (p + 1) o (lv + 1) (0 + 1) fnm).
  apply At_cons in H.
  erewrite bind_R; [| apply (until_targs targs k (p + 1) o (lv + 1) (0 + 1) fnm rest); [ lia | exact H | exact Hb ] ].
  cbn [Z.ltb Z.compare].
  apply At_app in H.
  unfold expect. unfold consume. unfold NST at 1.
  erewrite bind_R; [| apply (consume_n_at _ 1 (69 :: rest)); [ exact H | reflexivity | cbn [List.length]; lia ] ].
  cbn [hd0]. chs. cbn [Z.eqb Pos.eqb]. stsimpl.
  unfold dec_level, dec_templates. rewrite !bind_modify. stsimpl. unfold ret, NS.
  replace (lv + 1 - 1) with lv by lia. replace (0 + 1 - 1) with 0 by lia.
  replace (p + 1 + Z.of_nat (List.length targs) + 1) with (p + Z.of_nat (List.length targs) + 2) by lia. reflexivity.
Qed.

(* components with optional template arguments *)
Definition targs_enc (targs : list Z) : list Z := match targs with [] => [] | _ => 73 :: targs ++ [69] end.
Definition tenc (c : list Z * list Z) : list Z := src (fst c) ++ targs_enc (snd c).
Definition tsrcs (comps : list (list Z * list Z)) : list Z := List.concat (map tenc comps).
Definition tcost (c : list Z * list Z) : nat := match snd c with [] => 1 | t => List.length t + 7 end.
Definition tcosts (comps : list (list Z * list Z)) : nat := fold_right (fun c n => tcost c + n)%nat 0%nat comps.
Definition tcomp_okb (c : list Z * list Z) : bool := ident_okb (fst c) && forallb is_builtin (snd c).

Lemma nested_tcomps : forall comps l k p o lv fnm rest x,
  At p (tsrcs comps ++ last_enc l ++ 69 :: rest) -> forallb tcomp_okb comps = true -> last_okb l = true ->
  no_dollar (tsrcs comps ++ last_enc l ++ 69 :: rest) -> L <= INT_MAX ->
  out_after o fnm (map fst comps) = Some x -> fnm_after fnm (map fst comps) = false ->
  (tcosts comps + 3 <= k)%nat ->
  run true s 0 k (LNested 0) (NS p o lv fnm) =
  R 0 (NS (p + Z.of_nat (List.length (tsrcs comps)) + Z.of_nat (List.length (last_enc l))) (Some (last_out x l)) lv false).
Proof.
  induction comps as [| [id targs] cs IH]; intros l k p o lv fnm rest x H Hok Hl Hnd HL Hout Hfnm Hk.
  - cbn [tsrcs map List.concat app List.length out_after fnm_after tcosts fold_right] in *.
    subst o fnm. replace (p + Z.of_nat 0) with p by lia.
    destruct k as [| [| [| k]]]; try lia.
    apply (nested_end l k p x lv rest H Hl).
  - cbn [forallb] in Hok. apply andb_prop in Hok. destruct Hok as [Hc Hcs].
    unfold tcomp_okb in Hc. cbn [fst snd] in Hc. apply andb_prop in Hc. destruct Hc as [Hid Hta].
    unfold tsrcs in *. cbn [map List.concat] in *. unfold tenc at 1 in H. unfold tenc at 1 in Hnd. cbn [fst snd] in H, Hnd.
    cbn [tcosts fold_right] in Hk. fold (tcosts cs) in Hk.
    set (tail := List.concat (map tenc cs) ++ last_enc l ++ 69 :: rest) in *.
    rewrite <- !app_assoc in H, Hnd. fold tail in H, Hnd.
    (* first character of what follows the identifier is not 'B' *)
    assert (HtailB : hd0 tail <> 66).
    { unfold tail. destruct cs as [| [id2 ta2] cs2].
      - cbn [map List.concat app]. destruct l as [| kd | kd | c0 c1]; cbn [last_enc app hd0]; try lia.
        cbn [last_okb] in Hl. apply andb_prop in Hl. destruct Hl as [Hl _]. apply andb_prop in Hl. destruct Hl as [Hl _].
        unfold op_okb in Hl. apply andb_prop in Hl. destruct Hl as [Hl _]. apply andb_prop in Hl. destruct Hl as [Hl _].
        unfold islower in Hl. lia.
      - cbn [map List.concat forallb] in *. apply andb_prop in Hcs. destruct Hcs as [Hc2 _].
        unfold tcomp_okb in Hc2. apply andb_prop in Hc2. destruct Hc2 as [Hid2 _]. cbn [fst] in Hid2.
        unfold tenc at 1. cbn [fst snd]. rewrite <- !app_assoc.
        pose proof (src_hd_digit id2 (targs_enc ta2 ++ List.concat (map tenc cs2) ++ last_enc l ++ 69 :: rest) Hid2). lia. }
    destruct k as [| k1]; [ lia |].
    cbn [run body]. unfold nested_loop.
    pose proof (src_hd_digit id (targs_enc targs ++ tail) Hid) as Hd.
    destruct (src id ++ targs_enc targs ++ tail) as [| d tl] eqn:E.
    { exfalso. unfold src in E. destruct (hd0_dec_digit _ (id ++ targs_enc targs ++ tail) (ident_len id Hid)) as [_ Hne].
      rewrite <- app_assoc in E. destruct (dec (Z.of_nat (List.length id))); [ contradiction | discriminate ]. }
    cbn [hd0] in Hd. unfold NS at 1.
    erewrite bind_R; [| apply (curr_at _ (d :: tl)); [ exact H | reflexivity ] ].
    rewrite bind_eof. stsimpl. pose proof (At_lt _ _ _ H) as Hlt. rwf (p >=? L). cbn [hd0]. chs. cbn [Z.eqb].
    rwf (d =? 69). cbn [orb negb].
    erewrite bind_R; [| apply (peek1_at _ d tl); [ exact H | reflexivity ] ].
    rwf (d =? 68). rwf (d =? 67). cbn [andb orb]. rwf (d =? 85). cbn [orb].
    unfold islower, isdigit. rwf (97 <=? d). rwt (48 <=? d). rwt (d <=? 57). cbn [andb orb].
    rewrite <- E in H, Hnd.
    assert (Hnd2 : no_dollar (id ++ targs_enc targs ++ tail)).
    { unfold src in Hnd. rewrite <- app_assoc in Hnd. eapply no_dollar_app_r. exact Hnd. }
    assert (HB2 : hd0 (targs_enc targs ++ tail) <> 66).
    { destruct targs; cbn [targs_enc app hd0]; [ exact HtailB | lia ]. }
    destruct k1 as [| k2]; [ destruct targs; cbn [tcost snd] in Hk; lia |].
    fold (NS p o lv fnm).
    erewrite bind_R; [| apply (unq_src k2 p o lv fnm id (targs_enc targs ++ tail)); assumption ].
    apply At_src_tail in H.
    cbn [map fst out_after fnm_after] in Hout, Hfnm.
    destruct targs as [| t0 ts].
    + (* no template arguments *)
      cbn [targs_enc app] in *. cbn [tcost snd] in Hk.
      rewrite (IH l (S k2) _ _ lv false rest x); try assumption.
      * change (tenc (id, [])) with (src id ++ []). rewrite app_nil_r, app_length. f_equal. unfold NS. f_equal. lia.
      * eapply no_dollar_app_r. exact Hnd.
      * destruct cs; reflexivity.
      * lia.
    + (* I <types> E *)
      cbn [tcost snd] in Hk. set (targs := t0 :: ts) in *.
      assert (Hte : targs_enc targs = 73 :: targs ++ [69]) by reflexivity.
      rewrite Hte in *. 
      change (run true s 0 (S k2) (LNested 0)) with (nested_loop true s 0 (run true s 0 k2) 0).
      unfold nested_loop. unfold NS at 1.
      set (p1 := p + Z.of_nat (List.length (src id))) in *.
      assert (H' : At p1 (73 :: (targs ++ 69 :: tail))).
      { replace (73 :: targs ++ 69 :: tail) with ((73 :: targs ++ [69]) ++ tail); [ exact H |].
        cbn [app]. rewrite <- app_assoc. reflexivity. }
      erewrite bind_R; [| apply (curr_at _ (73 :: targs ++ 69 :: tail)); [ exact H' | reflexivity ] ].
      rewrite bind_eof. stsimpl. pose proof (At_lt _ _ _ H') as Hlt1. rwf (p1 >=? L). cbn [hd0]. chs.
      cbn [Z.eqb Pos.eqb orb negb].
      erewrite bind_R; [| apply (peek1_at _ 73 (targs ++ 69 :: tail)); [ exact H' | reflexivity ] ].
      cbn [andb orb]. unfold islower, isdigit. cbn [Z.leb Z.compare Pos.compare Pos.compare_cont andb orb].
      fold (NS p1 (add_out (sep_out o fnm) id) lv false).
      erewrite bind_R; [| apply (template_args_at targs k2 p1 _ lv false tail); [ lia | exact H' | exact Hta ] ].
      assert (H2 : At (p1 + Z.of_nat (List.length targs) + 2) tail).
      { replace (p1 + Z.of_nat (List.length targs) + 2) with (p1 + Z.of_nat (List.length (73 :: targs ++ [69])))
          by (cbn [List.length]; rewrite app_length; cbn [List.length]; lia).
        apply At_app. exact H. }
      rewrite (IH l k2 _ _ lv false rest x); try assumption.
      * f_equal. unfold NS. f_equal. unfold tenc. cbn [fst snd]. rewrite Hte. cbn [List.length].
        repeat rewrite app_length. cbn [List.length]. repeat rewrite app_length. cbn [List.length]. unfold p1. lia.
      * eapply no_dollar_app_r. eapply no_dollar_app_r. exact Hnd.
      * destruct cs; reflexivity.
      * lia.
Qed.

(* ---- dd_encoding around any name that is followed by builtin types up to the end of the string *)
Lemma encoding_generic : forall c0 tl x pe params F3,
  At 0 (95 :: 90 :: c0 :: tl) -> c0 <> 84 -> c0 <> 71 ->
  run true s 0 (S (S F3)) FName (NS 2 None 1 true) = R 0 (NS pe (Some x) 1 false) ->
  At pe params -> forallb is_builtin params = true -> (List.length params + 1 <= F3)%nat ->
  run true s 0 (S (S (S F3))) FEncoding (st0 L) = R 0 (NS L (Some x) 0 false).
Proof.
  intros c0 tl x pe params F3 H0 HcT HcG Hname Hpe Hpar HF.
  pose proof (At_cons _ _ _ H0) as H1. pose proof (At_cons _ _ _ H1) as H2. cbn [Z.add Pos.add] in H1, H2.
  change (run true s 0 (S (S (S F3))) FEncoding) with (dd_encoding s 0 (run true s 0 (S (S F3)))).
  unfold dd_encoding, st0.
  pose proof (At_lt _ _ _ H0) as HL0.
  rewrite bind_eof. stsimpl. rwf (0 >=? L). cbn [Z.eqb].
  rewrite bind_gets. stsimpl. cbn [Z.eqb].
  erewrite bind_R; [| apply (consume_n_at _ 2 (95 :: 90 :: c0 :: tl)); [ exact H0 | reflexivity | cbn [List.length]; lia ] ].
  stsimpl. cbn [Z.add]. unfold inc_level. rewrite bind_modify. stsimpl. cbn [Z.add].
  erewrite bind_R; [| apply (curr_at _ (c0 :: tl)); [ exact H2 | reflexivity ] ].
  cbn [hd0]. chs. rwf (c0 =? 84). rwf (c0 =? 71). cbn [orb].
  fold (NS 2 None 1 true). erewrite bind_R; [| exact Hname ].
  cbn [Z.ltb Z.compare].
  erewrite bind_R.
  2:{ replace (S (S F3)) with (List.length params + S (S (S (F3 - List.length params - 1))))%nat by lia.
      apply (enc_types_builtin params _ pe _ Hpe Hpar). }
  assert (HpeL : pe + Z.of_nat (List.length params) = L) by (destruct Hpe as [_ [_ HH]]; exact HH).
  rewrite HpeL.
  assert (Hend : At L []).
  { rewrite <- HpeL. replace params with (params ++ []) in Hpe by apply app_nil_r. apply (At_app _ params []). exact Hpe. }
  unfold NS at 1.
  erewrite bind_R; [| apply (curr_at _ []); [ exact Hend | reflexivity ] ].
  cbn [hd0]. chs. cbn [Z.eqb]. rewrite bind_ret.
  erewrite bind_R; [| apply (curr_at _ []); [ exact Hend | reflexivity ] ].
  cbn [hd0 Z.eqb]. rewrite bind_ret.
  unfold dec_level. rewrite bind_modify. stsimpl. reflexivity.
Qed.

(* _Z N (<source-name> [I <builtin>+ E])+ <last> E <builtin>* *)
Lemma tencoding_at : forall c cs l params F,
  s = str "_ZN" ++ tsrcs (c :: cs) ++ last_enc l ++ 69 :: params ->
  forallb tcomp_okb (c :: cs) = true -> last_okb l = true -> forallb is_builtin params = true ->
  no_dollar (tsrcs (c :: cs) ++ last_enc l ++ 69 :: params) -> L <= INT_MAX ->
  (tcosts (c :: cs) + List.length params + 10 <= F)%nat ->
  run true s 0 F FEncoding (st0 L) = R 0 (NS L (Some (last_out (join_sep (map fst (c :: cs))) l)) 0 false).
Proof.
  intros c cs l params F Hs Hok Hl Hpar Hnd HL HF.
  set (comps := c :: cs) in *.
  set (body := tsrcs comps ++ last_enc l ++ 69 :: params) in *.
  assert (H0 : At 0 (95 :: 90 :: 78 :: body)).
  { unfold At. split; [ lia |]. split; [ unfold suffix; cbn [Z.add Z.to_nat skipn]; rewrite Hs; reflexivity |].
    unfold flen. rewrite Hs. cbn [str app List.length]. lia. }
  pose proof (At_cons _ _ _ H0) as H1. pose proof (At_cons _ _ _ H1) as H2. cbn [Z.add Pos.add] in H1, H2.
  destruct F as [| F1]; [ lia |]. destruct F1 as [| F2]; [ lia |]. destruct F2 as [| F3]; [ lia |].
  set (pe := 3 + Z.of_nat (List.length (tsrcs comps)) + Z.of_nat (List.length (last_enc l)) + 1).
  assert (Hpe : At pe params).
  { unfold pe. replace (3 + Z.of_nat (List.length (tsrcs comps)) + Z.of_nat (List.length (last_enc l)) + 1)
      with (2 + 1 + Z.of_nat (List.length (tsrcs comps)) + Z.of_nat (List.length (last_enc l)) + Z.of_nat (List.length [69])) by (cbn [List.length]; lia).
    apply (At_app _ [69] params). apply (At_app _ (last_enc l)). apply (At_app _ (tsrcs comps)).
    apply At_cons in H2. exact H2. }
  apply (encoding_generic 78 body (last_out (join_sep (map fst comps)) l) pe params F3 H0); try lia; try assumption.
  change (run true s 0 (S (S F3)) FName) with (dd_name true s 0 (run true s 0 (S F3))).
  unfold dd_name. unfold NS at 1.
  erewrite bind_R; [| apply (curr_at _ (78 :: body)); [ exact H2 | reflexivity ] ].
  pose proof (At_lt _ _ _ H2).
  rewrite bind_eof. stsimpl. rwf (2 >=? L). cbn [hd0]. chs. cbn [Z.eqb Pos.eqb].
  change (run true s 0 (S F3) FNestedName) with (dd_nested_name s 0 (run true s 0 F3)).
  unfold dd_nested_name.
  rewrite bind_eof. stsimpl. rwf (2 >=? L). cbn [Z.eqb].
  unfold expect at 1. unfold consume.
  erewrite bind_R; [| apply (consume_n_at _ 1 (78 :: body)); [ exact H2 | reflexivity | cbn [List.length]; lia ] ].
  cbn [hd0]. chs. cbn [Z.eqb Pos.eqb]. stsimpl.
  unfold inc_level. rewrite bind_modify. stsimpl. cbn [Z.add Pos.add].
  fold (NS 3 None 2 true).
  apply At_cons in H2. cbn [Z.add Pos.add] in H2.
  erewrite bind_R.
  2:{ apply (nested_tcomps comps l F3 3 None 2 true params (join_sep (map fst comps))); try assumption.
      - unfold comps. cbn [map]. apply out_after_start.
      - reflexivity.
      - lia. }
  assert (H4 : At (3 + Z.of_nat (List.length (tsrcs comps)) + Z.of_nat (List.length (last_enc l))) (69 :: params)).
  { apply (At_app _ (last_enc l)). apply (At_app _ (tsrcs comps)). exact H2. }
  unfold expect. unfold consume. unfold NS at 1.
  erewrite bind_R; [| apply (consume_n_at _ 1 (69 :: params)); [ exact H4 | reflexivity | cbn [List.length]; lia ] ].
  cbn [hd0]. chs. cbn [Z.eqb Pos.eqb]. stsimpl.
  unfold dec_level. rewrite bind_modify. stsimpl. unfold ret, NS. cbn [Z.sub Z.add Z.opp Z.pos_sub Pos.pred_double].
  reflexivity.
Qed.

(* ================================================================ cv- and ref-qualified member functions: N [V] [K] [R | O] ... E *)
Definition qual_okb (q : Z) : bool := (q =? 86) || (q =? 75) || (q =? 82) || (q =? 79).   (* V K R O *)

Lemma nested_quals : forall quals k p o lv fnm rest,
  At p (quals ++ rest) -> forallb qual_okb quals = true -> rest <> [] ->
  run true s 0 (List.length quals + k) (LNested 0) (NS p o lv fnm) =
  run true s 0 k (LNested 0) (NS (p + Z.of_nat (List.length quals)) o lv fnm).
Proof.
  induction quals as [| q qs IH]; intros k p o lv fnm rest H Hq Hr.
  - cbn [List.length Nat.add]. replace (p + Z.of_nat 0) with p by lia. reflexivity.
  - cbn [forallb] in Hq. apply andb_prop in Hq. destruct Hq as [Hq Hqs]. cbn [app] in H.
    cbn [List.length Nat.add]. cbn [run body]. unfold nested_loop. unfold NS at 1.
    assert (Hc : q = 86 \/ q = 75 \/ q = 82 \/ q = 79) by (unfold qual_okb in Hq; lia).
    erewrite bind_R; [| apply (curr_at _ (q :: qs ++ rest)); [ exact H | reflexivity ] ].
    pose proof (At_lt _ _ _ H) as Hlt.
    rewrite bind_eof. stsimpl. rwf (p >=? L). cbn [hd0]. chs.
    rwf (q =? 69). cbn [Z.eqb orb negb].
    erewrite bind_R; [| apply (peek1_at _ q (qs ++ rest)); [ exact H | reflexivity ] ].
    rwf (q =? 68). rwf (q =? 67). cbn [andb orb]. rwf (q =? 85). unfold islower, isdigit.
    rwf (97 <=? q). rwf (q <=? 57). rewrite !andb_false_r. cbn [andb orb].
    rwf (q =? 84). rwf (q =? 73). rwf (q =? 83). rwf (q =? 77). rwf (q =? 76).
    assert (Hs : strchr_set (str "rVKRO") q = true) by (destruct Hc as [-> | [-> | [-> | ->]]]; reflexivity).
    rewrite Hs.
    (* dd_qualifier *)
    assert (Hdq : dd_qualifier s 0 (NS p o lv fnm) = R 0 (NS (p + 1) o lv fnm)).
    { unfold dd_qualifier. unfold NS at 1.
      erewrite bind_R; [| apply (curr_at _ (q :: qs ++ rest)); [ exact H | reflexivity ] ].
      rewrite bind_eof. stsimpl. rwf (p >=? L). cbn [hd0 Z.eqb]. rewrite Hs. unfold consume.
      erewrite bind_R; [| apply (consume_n_at _ 1 (q :: qs ++ rest)); [ exact H | reflexivity | cbn [List.length]; lia ] ].
      reflexivity. }
    fold (NS p o lv fnm). erewrite bind_R; [| exact Hdq ].
    rewrite (IH k (p + 1) o lv fnm rest (At_cons _ _ _ H) Hqs Hr).
    f_equal. unfold NS. f_equal. lia.
Qed.

Lemma tqencoding_at : forall quals c cs l params F,
  s = str "_ZN" ++ quals ++ tsrcs (c :: cs) ++ last_enc l ++ 69 :: params ->
  forallb qual_okb quals = true ->
  forallb tcomp_okb (c :: cs) = true -> last_okb l = true -> forallb is_builtin params = true ->
  no_dollar (tsrcs (c :: cs) ++ last_enc l ++ 69 :: params) -> L <= INT_MAX ->
  (List.length quals + tcosts (c :: cs) + List.length params + 10 <= F)%nat ->
  run true s 0 F FEncoding (st0 L) = R 0 (NS L (Some (last_out (join_sep (map fst (c :: cs))) l)) 0 false).
Proof.
  intros quals c cs l params F Hs Hq Hok Hl Hpar Hnd HL HF.
  set (comps := c :: cs) in *.
  set (body := quals ++ tsrcs comps ++ last_enc l ++ 69 :: params) in *.
  assert (H0 : At 0 (95 :: 90 :: 78 :: body)).
  { unfold At. split; [ lia |]. split; [ unfold suffix; cbn [Z.add Z.to_nat skipn]; rewrite Hs; reflexivity |].
    unfold flen. rewrite Hs. cbn [str app List.length]. lia. }
  pose proof (At_cons _ _ _ H0) as H1. pose proof (At_cons _ _ _ H1) as H2. cbn [Z.add Pos.add] in H1, H2.
  destruct F as [| F1]; [ lia |]. destruct F1 as [| F2]; [ lia |]. destruct F2 as [| F3]; [ lia |].
  set (pq := 3 + Z.of_nat (List.length quals)).
  set (pe := pq + Z.of_nat (List.length (tsrcs comps)) + Z.of_nat (List.length (last_enc l)) + 1).
  pose proof (At_cons _ _ _ H2) as H3. cbn [Z.add Pos.add] in H3.
  assert (Hpq : At pq (tsrcs comps ++ last_enc l ++ 69 :: params)) by (apply (At_app _ quals); exact H3).
  assert (Hpe : At pe params).
  { unfold pe. replace (pq + Z.of_nat (List.length (tsrcs comps)) + Z.of_nat (List.length (last_enc l)) + 1)
      with (pq + Z.of_nat (List.length (tsrcs comps)) + Z.of_nat (List.length (last_enc l)) + Z.of_nat (List.length [69])) by (cbn [List.length]; lia).
    apply (At_app _ [69] params). apply (At_app _ (last_enc l)). apply (At_app _ (tsrcs comps)). exact Hpq. }
  apply (encoding_generic 78 body (last_out (join_sep (map fst comps)) l) pe params F3 H0); try lia; try assumption.
  change (run true s 0 (S (S F3)) FName) with (dd_name true s 0 (run true s 0 (S F3))).
  unfold dd_name. unfold NS at 1.
  erewrite bind_R; [| apply (curr_at _ (78 :: body)); [ exact H2 | reflexivity ] ].
  pose proof (At_lt _ _ _ H2).
  rewrite bind_eof. stsimpl. rwf (2 >=? L). cbn [hd0]. chs. cbn [Z.eqb Pos.eqb].
  change (run true s 0 (S F3) FNestedName) with (dd_nested_name s 0 (run true s 0 F3)).
  unfold dd_nested_name.
  rewrite bind_eof. stsimpl. rwf (2 >=? L). cbn [Z.eqb].
  unfold expect at 1. unfold consume.
  erewrite bind_R; [| apply (consume_n_at _ 1 (78 :: body)); [ exact H2 | reflexivity | cbn [List.length]; lia ] ].
  cbn [hd0]. chs. cbn [Z.eqb Pos.eqb]. stsimpl.
  unfold inc_level. rewrite bind_modify. stsimpl. cbn [Z.add Pos.add].
  fold (NS 3 None 2 true).
  erewrite bind_R.
  2:{ replace F3 with (List.length quals + (F3 - List.length quals))%nat by lia.
      rewrite (nested_quals quals _ 3 None 2 true (tsrcs comps ++ last_enc l ++ 69 :: params)); [| exact H3 | exact Hq |].
      - fold pq.
        apply (nested_tcomps comps l _ pq None 2 true params (join_sep (map fst comps))); try assumption.
        + unfold comps. cbn [map]. apply out_after_start.
        + reflexivity.
        + lia.
      - unfold comps, tsrcs. cbn [map List.concat]. unfold tenc at 1. unfold src.
        destruct (hd0_dec_digit _ (fst c ++ targs_enc (snd c)) (ident_len (fst c) ltac:(
          cbn [forallb] in Hok; apply andb_prop in Hok; destruct Hok as [Hc _]; unfold tcomp_okb in Hc;
          apply andb_prop in Hc; tauto))) as [_ Hne].
        destruct (dec (Z.of_nat (List.length (fst c)))); [ contradiction | discriminate ]. }
  assert (H4 : At (pq + Z.of_nat (List.length (tsrcs comps)) + Z.of_nat (List.length (last_enc l))) (69 :: params)).
  { apply (At_app _ (last_enc l)). apply (At_app _ (tsrcs comps)). exact Hpq. }
  unfold expect. unfold consume. unfold NS at 1.
  erewrite bind_R; [| apply (consume_n_at _ 1 (69 :: params)); [ exact H4 | reflexivity | cbn [List.length]; lia ] ].
  cbn [hd0]. chs. cbn [Z.eqb Pos.eqb]. stsimpl.
  unfold dec_level. rewrite bind_modify. stsimpl. unfold ret, NS. cbn [Z.sub Z.add Z.opp Z.pos_sub Pos.pred_double].
  reflexivity.
Qed.

(* ================================================================ parameter types: names, substitutions, qualifiers *)
(* parser state inside a type: dd->type = t > 0, nothing is appended *)
Definition G (p : Z) (o : option (list Z)) (lv t tp : Z) (fnm : bool) : state :=
  mkst p L o t lv tp false fnm false false.

Lemma source_skip_at : forall p o lv t tp fnm id rest, t <> 0 ->
  At p (src id ++ rest) -> ident_okb id = true ->
  dd_source_name true s 0 (G p o lv t tp fnm) = R 0 (G (p + Z.of_nat (List.length (src id))) o lv t tp fnm).
Proof.
  intros p o lv t tp fnm id rest Ht H Hid.
  set (n := Z.of_nat (List.length id)).
  assert (Hndef : n = Z.of_nat (List.length id)) by reflexivity.
  pose proof (ident_len id Hid) as Hn. fold n in Hn.
  unfold src in *. fold n in H. fold n. rewrite <- app_assoc in H.
  unfold dd_source_name, G.
  erewrite bind_R; [| apply (number_at _ n (id ++ rest)); [ exact H | reflexivity | exact Hn
                                                          | apply ident_starts_nondigit; exact Hid ] ].
  rwf (n <? 0).
  apply At_app in H. set (p0 := p + Z.of_nat (List.length (dec n))) in *.
  stsimpl. fold p0.
  assert (Hfin : p + Z.of_nat (List.length (dec n ++ id)) = p0 + n) by (rewrite app_length; unfold p0; lia).
  rewrite Hfin. clearbody p0. clearbody n.
  assert (Hp0n : p0 + n <= L) by (destruct H as [H0 [H1 H2]]; rewrite app_length in H2; lia).
  pose proof (At_le _ _ H) as Hp0r.
  rewrite bind_eof. stsimpl. rwf (p0 >=? L).
  rewrite bind_gets, bind_gets. stsimpl. cbn [Z.eqb negb andb]. rwf (n >? L - p0).
  rewrite bind_gets, bind_getb, bind_gets. stsimpl. rwf (t =? 0). cbn [Z.eqb negb andb orb].
  erewrite bind_R; [| apply (consume_n_at _ n (id ++ rest)); [ exact H | reflexivity | rewrite app_length; lia ] ].
  reflexivity.
Qed.

Lemma unq_skip : forall k p o lv t tp fnm id rest, t <> 0 ->
  At p (src id ++ rest) -> ident_okb id = true -> hd0 rest <> 66 ->
  run true s 0 (S k) FUnqualifiedName (G p o lv t tp fnm) =
  R 0 (G (p + Z.of_nat (List.length (src id))) o lv t tp fnm).
Proof.
  intros k p o lv t tp fnm id rest Ht H Hid HB.
  pose proof (src_hd_digit id rest Hid) as Hd.
  cbn [run body]. unfold dd_unqualified_name. unfold G at 1.
  destruct (src id ++ rest) as [| d tl] eqn:E.
  { exfalso. unfold src in E. destruct (hd0_dec_digit _ (id ++ rest) (ident_len id Hid)) as [_ Hne].
    rewrite <- app_assoc in E. destruct (dec (Z.of_nat (List.length id))); [ contradiction | discriminate ]. }
  cbn [hd0] in Hd.
  erewrite bind_R; [| apply (curr_at _ (d :: tl)); [ exact H | reflexivity ] ].
  erewrite bind_R; [| apply (peek1_at _ d tl); [ exact H | reflexivity ] ].
  rewrite bind_eof. stsimpl. pose proof (At_lt _ _ _ H) as Hlt. rwf (p >=? L). cbn [hd0]. chs. cbn [Z.eqb].
  rwf (d =? 67). rwf (d =? 68). rwf (d =? 85). cbn [orb].
  unfold islower. rwf (97 <=? d). cbn [andb]. rwf (d =? 76).
  rewrite bind_ret. rewrite <- E in H. fold (G p o lv t tp fnm).
  erewrite bind_R; [| apply (source_skip_at p o lv t tp fnm id rest); assumption ].
  unfold G at 1.
  erewrite bind_R; [| apply (curr_at _ rest); [ apply At_src_tail; exact H | reflexivity ] ].
  rwf (hd0 rest =? 66). reflexivity.
Qed.

(* S <seq-id> _ : the seq-id is a base-36 number (digits and upper-case letters), any length *)
Definition seqchar (c : Z) : bool := isdigit c || isupper c.
Lemma span_len_app : forall P a c r, forallb P a = true -> P c = false ->
  span_len P (a ++ c :: r) = Z.of_nat (List.length a).
Proof.
  induction a as [| x a IH]; intros c r Ha Hc; cbn [app span_len List.length].
  - rewrite Hc. reflexivity.
  - cbn [forallb] in Ha. apply andb_prop in Ha. destruct Ha as [Hx Ha]. rewrite Hx.
    rewrite (IH c r Ha Hc). lia.
Qed.

Lemma subst_seq_at : forall p o lv t tp fnm seq rest,
  At p (83 :: seq ++ 95 :: rest) -> forallb seqchar seq = true ->
  dd_substitution true s 0 (G p o lv t tp fnm) = R 0 (G (p + Z.of_nat (List.length seq) + 2) o lv t tp fnm).
Proof.
  intros p o lv t tp fnm seq rest H Hs. unfold dd_substitution. unfold G at 1.
  pose proof (At_lt _ _ _ H) as Hlt.
  rewrite bind_eof. stsimpl. rwf (p >=? L). cbn [Z.eqb].
  unfold expect at 1. unfold consume.
  erewrite bind_R; [| apply (consume_n_at _ 1 (83 :: seq ++ 95 :: rest)); [ exact H | reflexivity | cbn [List.length]; lia ] ].
  cbn [hd0]. chs. cbn [Z.eqb Pos.eqb]. stsimpl.
  apply At_cons in H.
  erewrite bind_R; [| apply (curr_at _ (seq ++ 95 :: rest)); [ exact H | reflexivity ] ].
  assert (Hh : find_abbrev std_abbrevs (hd0 (seq ++ 95 :: rest)) = None).
  { destruct seq as [| c sq]; [ reflexivity |]. cbn [app hd0]. cbn [forallb] in Hs. apply andb_prop in Hs. destruct Hs as [Hc _].
    unfold seqchar, isdigit, isupper in Hc. unfold std_abbrevs, find_abbrev. chs.
    rwf (c =? 116). rwf (c =? 97). rwf (c =? 98). rwf (c =? 115). rwf (c =? 105). rwf (c =? 111). rwf (c =? 100). reflexivity. }
  rewrite Hh.
  (* dd_seq_id *)
  assert (Hsq : dd_seq_id s 0 (mkst (p + 1) L o t lv tp false fnm false false)
                = R 0 (mkst (p + 1 + Z.of_nat (List.length seq)) L o t lv tp false fnm false false)).
  { unfold dd_seq_id.
    erewrite bind_R; [| apply (curr_at _ (seq ++ 95 :: rest)); [ exact H | reflexivity ] ].
    rewrite bind_eof. stsimpl.
    assert (Hlt1 : p + 1 < L). { destruct H as [_ [_ H2]]. rewrite app_length in H2. cbn [List.length] in H2. lia. }
    rwf (p + 1 >=? L). cbn [Z.eqb]. cbv beta. stsimpl. destruct H as [H0 [H1 H2]]. rewrite H1.
    rewrite (span_len_app (fun c => isdigit c || isupper c) seq 95 rest Hs eq_refl). reflexivity. }
  erewrite bind_R; [| exact Hsq ].
  apply At_app in H.
  unfold expect. unfold consume.
  erewrite bind_R; [| apply (consume_n_at _ 1 (95 :: rest)); [ exact H | reflexivity | cbn [List.length]; lia ] ].
  cbn [hd0]. chs. cbn [Z.eqb Pos.eqb]. stsimpl. unfold ret, G.
  replace (p + 1 + Z.of_nat (List.length seq) + 1) with (p + Z.of_nat (List.length seq) + 2) by lia. reflexivity.
Qed.

(* <nested-name> inside a type:  N (<source-name> | S <seq-id> _)* E  *)
Inductive nitem := ISrc (id : list Z) | ISub (seq : list Z).
Definition nitem_enc (i : nitem) : list Z :=
  match i with ISrc id => src id | ISub seq => 83 :: seq ++ [95] end.
Definition nitem_okb (i : nitem) : bool :=
  match i with ISrc id => ident_okb id | ISub seq => forallb seqchar seq end.
Definition nitems_enc (l : list nitem) : list Z := List.concat (map nitem_enc l).

Lemma nitems_hd : forall items rest, forallb nitem_okb items = true ->
  let h := hd0 (nitems_enc items ++ 69 :: rest) in (48 <= h <= 57) \/ h = 83 \/ h = 69.
Proof.
  intros items rest H. destruct items as [| i items]; [ right; right; reflexivity |].
  cbn [forallb] in H. apply andb_prop in H. destruct H as [Hi _].
  unfold nitems_enc. cbn [map List.concat]. destruct i as [id | seq]; cbn [nitem_enc nitem_okb] in *.
  - left. rewrite <- app_assoc. apply src_hd_digit. exact Hi.
  - right; left. reflexivity.
Qed.

Lemma nested_skip_loop : forall items k p o lv t tp fnm rest, t <> 0 ->
  At p (nitems_enc items ++ 69 :: rest) -> forallb nitem_okb items = true ->
  (List.length items + 2 <= k)%nat ->
  run true s 0 k (LNested 0) (G p o lv t tp fnm) = R 0 (G (p + Z.of_nat (List.length (nitems_enc items))) o lv t tp fnm).
Proof.
  induction items as [| i items IH]; intros k p o lv t tp fnm rest Ht H Hok Hk.
  - destruct k as [| k]; [ cbn [List.length] in Hk; lia |].
    cbn [nitems_enc map List.concat app List.length] in *. cbn [run body]. unfold nested_loop, G.
    erewrite bind_R; [| apply (curr_at _ (69 :: rest)); [ exact H | reflexivity ] ].
    rewrite bind_eof. stsimpl. pose proof (At_lt _ _ _ H). rwf (p >=? L). cbn [hd0]. chs.
    replace (p + Z.of_nat 0) with p by lia. reflexivity.
  - cbn [forallb] in Hok. apply andb_prop in Hok. destruct Hok as [Hi Hitems].
    cbn [List.length] in Hk. destruct k as [| k]; [ lia |]. destruct k as [| k1]; [ lia |].
    unfold nitems_enc in *. cbn [map List.concat] in *. rewrite <- app_assoc in H.
    set (tail := List.concat (map nitem_enc items) ++ 69 :: rest) in *.
    pose proof (nitems_hd items rest Hitems) as Hh. cbn zeta in Hh. fold (nitems_enc items) in Hh.
    unfold nitems_enc in Hh. fold tail in Hh.
    change (run true s 0 (S (S k1)) (LNested 0)) with (nested_loop true s 0 (run true s 0 (S k1)) 0).
    unfold nested_loop.
    destruct i as [id | seq]; cbn [nitem_enc nitem_okb] in *.
    + pose proof (src_hd_digit id tail Hi) as Hd.
      destruct (src id ++ tail) as [| d tl] eqn:E.
      { exfalso. unfold src in E. destruct (hd0_dec_digit _ (id ++ tail) (ident_len id Hi)) as [_ Hne].
        rewrite <- app_assoc in E. destruct (dec (Z.of_nat (List.length id))); [ contradiction | discriminate ]. }
      cbn [hd0] in Hd. unfold G at 1.
      erewrite bind_R; [| apply (curr_at _ (d :: tl)); [ exact H | reflexivity ] ].
      rewrite bind_eof. stsimpl. pose proof (At_lt _ _ _ H) as Hlt. rwf (p >=? L). cbn [hd0]. chs. cbn [Z.eqb].
      rwf (d =? 69). cbn [orb negb].
      erewrite bind_R; [| apply (peek1_at _ d tl); [ exact H | reflexivity ] ].
      rwf (d =? 68). rwf (d =? 67). cbn [andb orb]. rwf (d =? 85). cbn [orb].
      unfold islower, isdigit. rwf (97 <=? d). rwt (48 <=? d). rwt (d <=? 57). cbn [andb orb].
      rewrite <- E in H. fold (G p o lv t tp fnm).
      erewrite bind_R; [| apply (unq_skip k1 p o lv t tp fnm id tail); try assumption; lia ].
      rewrite (IH (S k1) _ o lv t tp fnm rest Ht (At_src_tail _ _ _ H) Hitems ltac:(lia)).
      f_equal. unfold G. f_equal. rewrite app_length. lia.
    + cbn [app] in H. rewrite <- app_assoc in H. cbn [app] in H. unfold G at 1.
      erewrite bind_R; [| apply (curr_at _ (83 :: seq ++ 95 :: tail)); [ exact H | reflexivity ] ].
      rewrite bind_eof. stsimpl. pose proof (At_lt _ _ _ H) as Hlt. rwf (p >=? L). cbn [hd0]. chs.
      cbn [Z.eqb Pos.eqb orb negb].
      erewrite bind_R; [| apply (peek1_at _ 83 (seq ++ 95 :: tail)); [ exact H | reflexivity ] ].
      cbn [andb orb]. unfold islower, isdigit. cbn [Z.leb Z.compare Pos.compare Pos.compare_cont andb orb].
      fold (G p o lv t tp fnm).
      erewrite bind_R; [| apply (subst_seq_at p o lv t tp fnm seq tail); assumption ].
      assert (H2 : At (p + Z.of_nat (List.length seq) + 2) tail).
      { replace (p + Z.of_nat (List.length seq) + 2) with (p + Z.of_nat (List.length (83 :: seq ++ [95])))
          by (cbn [List.length]; rewrite app_length; cbn [List.length]; lia).
        apply At_app. cbn [app]. rewrite <- app_assoc. exact H. }
      rewrite (IH (S k1) _ o lv t tp fnm rest Ht H2 Hitems ltac:(lia)).
      f_equal. unfold G. f_equal. cbn [List.length app]. repeat rewrite app_length. cbn [List.length]. lia.
Qed.

Lemma nested_name_skip : forall items k p o lv t tp fnm rest, t <> 0 ->
  At p (78 :: nitems_enc items ++ 69 :: rest) -> forallb nitem_okb items = true ->
  (List.length items + 3 <= k)%nat ->
  run true s 0 k FNestedName (G p o lv t tp fnm) = R 0 (G (p + Z.of_nat (List.length (nitems_enc items)) + 2) o lv t tp fnm).
Proof.
  intros items k p o lv t tp fnm rest Ht H Hok Hk.
  destruct k as [| k]; [ lia |].
  change (run true s 0 (S k) FNestedName) with (dd_nested_name s 0 (run true s 0 k)).
  unfold dd_nested_name. unfold G at 1. pose proof (At_lt _ _ _ H).
  rewrite bind_eof. stsimpl. rwf (p >=? L). cbn [Z.eqb].
  unfold expect at 1. unfold consume.
  erewrite bind_R; [| apply (consume_n_at _ 1 (78 :: nitems_enc items ++ 69 :: rest)); [ exact H | reflexivity | cbn [List.length]; lia ] ].
  cbn [hd0]. chs. cbn [Z.eqb Pos.eqb]. stsimpl.
  unfold inc_level. rewrite bind_modify. stsimpl.
  apply At_cons in H. fold (G (p + 1) o (lv + 1) t tp fnm).
  erewrite bind_R; [| apply (nested_skip_loop items k (p + 1) o (lv + 1) t tp fnm rest Ht H Hok); lia ].
  apply At_app in H.
  unfold expect. unfold consume. unfold G at 1.
  erewrite bind_R; [| apply (consume_n_at _ 1 (69 :: rest)); [ exact H | reflexivity | cbn [List.length]; lia ] ].
  cbn [hd0]. chs. cbn [Z.eqb Pos.eqb]. stsimpl.
  unfold dec_level. rewrite bind_modify. stsimpl. unfold ret, G.
  replace (lv + 1 - 1) with lv by lia.
  replace (p + 1 + Z.of_nat (List.length (nitems_enc items)) + 1) with (p + Z.of_nat (List.length (nitems_enc items)) + 2) by lia.
  reflexivity.
Qed.

(* <type> ::= (r | V | K | P | R | O | C | G)* (<builtin> | S <seq-id> _ | <source-name> | <nested-name>) *)
Inductive tbase := BBuiltin (c : Z) | BSubst (seq : list Z) | BSrc (id : list Z) | BNested (items : list nitem).
Definition tbase_enc (b : tbase) : list Z :=
  match b with
  | BBuiltin c => [c]
  | BSubst seq => 83 :: seq ++ [95]
  | BSrc id => src id
  | BNested items => 78 :: nitems_enc items ++ [69]
  end.
Definition tbase_okb (b : tbase) : bool :=
  match b with
  | BBuiltin c => is_builtin c
  | BSubst seq => forallb seqchar seq
  | BSrc id => ident_okb id
  | BNested items => forallb nitem_okb items
  end.
Definition tbase_cost (b : tbase) : nat :=
  match b with BNested items => List.length items + 5 | _ => 4 end.
Definition tyqual_okb (q : Z) : bool := existsb (Z.eqb q) (str "rVKPROCG").
Definition follow_ok (rest : list Z) : Prop := hd0 rest <> 73 /\ hd0 rest <> 66.

Ltac sc_eval := repeat match goal with |- context [strchr_set ?a ?b] =>
  let v := eval vm_compute in (strchr_set a b) in change (strchr_set a b) with v end.

Lemma sc_digit : forall set d, 48 <= d <= 57 -> forallb (fun x => (x <? 48) || (57 <? x)) set = true ->
  strchr_set set d = false.
Proof.
  intros set d Hd H. unfold strchr_set. rwf (d =? 0). cbn [orb].
  induction set as [| x set IH]; [ reflexivity |]. cbn [forallb existsb] in *.
  apply andb_prop in H. destruct H as [Hx H]. rwf (d =? x). cbn [orb]. apply IH. exact H.
Qed.

Lemma type_base_at : forall b k p o lv t tp fnm rest, t <> 0 ->
  At p (tbase_enc b ++ rest) -> tbase_okb b = true -> follow_ok rest -> (tbase_cost b <= k)%nat ->
  run true s 0 k (LType (-1)) (G p o lv t tp fnm) = R 0 (G (p + Z.of_nat (List.length (tbase_enc b))) o lv t tp fnm).
Proof.
  intros b k p o lv t tp fnm rest Ht H Hok [HfI HfB] Hk.
  destruct k as [| k]; [ destruct b; cbn [tbase_cost] in Hk; lia |].
  change (run true s 0 (S k) (LType (-1))) with (type_loop true s 0 (run true s 0 k) (-1)).
  unfold type_loop. unfold G at 1.
  destruct b as [c | seq | id | items]; cbn [tbase_enc tbase_okb tbase_cost app List.length] in *.
  - (* builtin *)
    destruct (builtin_facts c Hok) as [F1 [F2 [F3 [F4 [F5 [F6 [F7 [F8 [F9 [F10 [F11 [F12 [F13 F14]]]]]]]]]]]]].
    pose proof (At_lt _ _ _ H).
    rewrite bind_eof. stsimpl. rwf (p >=? L). cbn [Z.eqb].
    erewrite bind_R; [| apply (curr_at _ (c :: rest)); [ exact H | reflexivity ] ].
    cbn [hd0]. rewrite F1, F2, F3, F4, F5, F6, F7, F8, F9, F10, F11, F12.
    unfold is_builtin in Hok. rewrite Hok. unfold consume.
    erewrite bind_R; [| apply (consume_n_at _ 1 (c :: rest)); [ exact H | reflexivity | cbn [List.length]; lia ] ].
    reflexivity.
  - (* substitution *)
    rewrite <- app_assoc in H. cbn [app] in H. pose proof (At_lt _ _ _ H).
    rewrite bind_eof. stsimpl. rwf (p >=? L). cbn [Z.eqb].
    erewrite bind_R; [| apply (curr_at _ (83 :: seq ++ 95 :: rest)); [ exact H | reflexivity ] ].
    cbn [hd0]. sc_eval. chs. cbn [Z.eqb Pos.eqb].
    erewrite bind_R; [| apply (peek1_at _ 83 (seq ++ 95 :: rest)); [ exact H | reflexivity ] ].
    fold (G p o lv t tp fnm).
    erewrite bind_R; [| apply (subst_seq_at p o lv t tp fnm seq rest); assumption ].
    assert (H2 : At (p + Z.of_nat (List.length seq) + 2) rest).
    { replace (p + Z.of_nat (List.length seq) + 2) with (p + Z.of_nat (List.length (83 :: seq ++ [95])))
        by (cbn [List.length]; rewrite app_length; cbn [List.length]; lia).
      apply At_app. cbn [app]. rewrite <- app_assoc. exact H. }
    unfold G at 1.
    erewrite bind_R; [| apply (curr_at _ rest); [ exact H2 | reflexivity ] ].
    assert (Hc1 : (hd0 (seq ++ 95 :: rest) =? 116) = false).
    { destruct seq as [| c sq]; [ reflexivity |]. cbn [app hd0]. cbn [forallb] in Hok. apply andb_prop in Hok.
      destruct Hok as [Hc _]. unfold seqchar, isdigit, isupper in Hc. lia. }
    cbn [Z.eqb]. rewrite Hc1. cbn [andb]. rewrite bind_ret.
    erewrite bind_R; [| apply (curr_at _ rest); [ exact H2 | reflexivity ] ].
    rwf (hd0 rest =? 73). unfold ret, G. f_equal. f_equal. rewrite app_length. cbn [List.length]. lia.
  - (* a class in the global namespace *)
    pose proof (src_hd_digit id rest Hok) as Hd.
    destruct (src id ++ rest) as [| d tl] eqn:E.
    { exfalso. unfold src in E. destruct (hd0_dec_digit _ (id ++ rest) (ident_len id Hok)) as [_ Hne].
      rewrite <- app_assoc in E. destruct (dec (Z.of_nat (List.length id))); [ contradiction | discriminate ]. }
    cbn [hd0] in Hd. pose proof (At_lt _ _ _ H).
    rewrite bind_eof. stsimpl. rwf (p >=? L). cbn [Z.eqb].
    erewrite bind_R; [| apply (curr_at _ (d :: tl)); [ exact H | reflexivity ] ].
    cbn [hd0].
    rewrite (sc_digit (str "rVK") d Hd eq_refl). rewrite (sc_digit (str "PROCG") d Hd eq_refl). chs.
    rwf (d =? 70). rwf (d =? 84). rwf (d =? 65). rwf (d =? 77). rwf (d =? 68). rwf (d =? 83).
    rwf (d =? 117). rwf (d =? 85). rwf (d =? 73).
    unfold isdigit. rwt (48 <=? d). rwt (d <=? 57). cbn [andb orb].
    destruct k as [| k1]; [ lia |]. destruct k1 as [| k2]; [ lia |].
    change (run true s 0 (S (S k2)) FName) with (dd_name true s 0 (run true s 0 (S k2))).
    unfold dd_name.
    erewrite bind_R; [| apply (curr_at _ (d :: tl)); [ exact H | reflexivity ] ].
    rewrite bind_eof. stsimpl. rwf (p >=? L). cbn [hd0 Z.eqb]. chs. rwf (d =? 78). rwf (d =? 90). rwf (d =? 83).
    rewrite <- E in H. fold (G p o lv t tp fnm).
    erewrite bind_R; [| apply (unq_skip k2 p o lv t tp fnm id rest); assumption ].
    cbn [Z.ltb Z.compare]. unfold G at 1.
    erewrite bind_R; [| apply (curr_at _ rest); [ apply At_src_tail; exact H | reflexivity ] ].
    rwf (hd0 rest =? 73). reflexivity.
  - (* nested name *)
    rewrite <- app_assoc in H. cbn [app] in H. pose proof (At_lt _ _ _ H).
    rewrite bind_eof. stsimpl. rwf (p >=? L). cbn [Z.eqb].
    erewrite bind_R; [| apply (curr_at _ (78 :: nitems_enc items ++ 69 :: rest)); [ exact H | reflexivity ] ].
    cbn [hd0]. sc_eval. chs. cbn [Z.eqb Pos.eqb]. unfold isdigit. cbn [Z.leb Z.compare Pos.compare Pos.compare_cont andb orb].
    destruct k as [| k1]; [ lia |].
    change (run true s 0 (S k1) FName) with (dd_name true s 0 (run true s 0 k1)).
    unfold dd_name.
    erewrite bind_R; [| apply (curr_at _ (78 :: nitems_enc items ++ 69 :: rest)); [ exact H | reflexivity ] ].
    rewrite bind_eof. stsimpl. rwf (p >=? L). cbn [hd0 Z.eqb]. chs. cbn [Z.eqb Pos.eqb].
    fold (G p o lv t tp fnm).
    rewrite (nested_name_skip items k1 p o lv t tp fnm rest Ht H Hok ltac:(lia)).
    f_equal. unfold G. f_equal. rewrite app_length. cbn [List.length]. lia.
Qed.

Lemma type_quals_at : forall quals b k p o lv t tp fnm rest, t <> 0 ->
  At p (quals ++ tbase_enc b ++ rest) -> forallb tyqual_okb quals = true -> tbase_okb b = true ->
  follow_ok rest -> (List.length quals + tbase_cost b <= k)%nat ->
  run true s 0 k (LType (-1)) (G p o lv t tp fnm) =
  R 0 (G (p + Z.of_nat (List.length quals) + Z.of_nat (List.length (tbase_enc b))) o lv t tp fnm).
Proof.
  induction quals as [| q qs IH]; intros b k p o lv t tp fnm rest Ht H Hq Hb Hf Hk.
  - cbn [app List.length Nat.add] in *. replace (p + Z.of_nat 0) with p by lia.
    apply (type_base_at b k p o lv t tp fnm rest); assumption.
  - cbn [forallb] in Hq. apply andb_prop in Hq. destruct Hq as [Hq Hqs]. cbn [app List.length] in *.
    destruct k as [| k]; [ lia |].
    change (run true s 0 (S k) (LType (-1))) with (type_loop true s 0 (run true s 0 k) (-1)).
    unfold type_loop. unfold G at 1. pose proof (At_lt _ _ _ H) as Hlt.
    rewrite bind_eof. stsimpl. rwf (p >=? L). cbn [Z.eqb].
    erewrite bind_R; [| apply (curr_at _ (q :: qs ++ tbase_enc b ++ rest)); [ exact H | reflexivity ] ].
    cbn [hd0].
    assert (Hnext : run true s 0 k (LType (-1)) (G (p + 1) o lv t tp fnm) =
                    R 0 (G (p + Z.of_nat (S (List.length qs)) + Z.of_nat (List.length (tbase_enc b))) o lv t tp fnm)).
    { rewrite (IH b k (p + 1) o lv t tp fnm rest Ht (At_cons _ _ _ H) Hqs Hb Hf ltac:(lia)).
      f_equal. unfold G. f_equal. lia. }
    assert (Hcons : consume s 0 (G p o lv t tp fnm) = R q (G (p + 1) o lv t tp fnm)).
    { unfold consume. rewrite (consume_n_at _ 1 (q :: qs ++ tbase_enc b ++ rest)); [ reflexivity | exact H | reflexivity | cbn [List.length]; lia ]. }
    assert (Hdq : strchr_set (str "rVKRO") q = true ->
                  dd_qualifier s 0 (G p o lv t tp fnm) = R 0 (G (p + 1) o lv t tp fnm)).
    { intros Hs. unfold dd_qualifier. unfold G at 1.
      erewrite bind_R; [| apply (curr_at _ (q :: qs ++ tbase_enc b ++ rest)); [ exact H | reflexivity ] ].
      rewrite bind_eof. stsimpl. rwf (p >=? L). cbn [Z.eqb hd0]. rewrite Hs.
      fold (G p o lv t tp fnm). erewrite bind_R; [| exact Hcons ]. reflexivity. }
    fold (G p o lv t tp fnm).
    unfold tyqual_okb in Hq. cbn in Hq.
    repeat (apply orb_prop in Hq; destruct Hq as [Hq | Hq]); try discriminate; apply Z.eqb_eq in Hq; subst q; sc_eval; cbv iota.
    1-3: (erewrite bind_R; [| apply Hdq; reflexivity ]; exact Hnext).
    all: erewrite bind_R; [| exact Hcons ]; exact Hnext.
Qed.

Record ty := mkty { ty_quals : list Z; ty_base : tbase }.
Definition ty_enc (t : ty) : list Z := ty_quals t ++ tbase_enc (ty_base t).
Definition ty_okb (t : ty) : bool := forallb tyqual_okb (ty_quals t) && tbase_okb (ty_base t).
Definition ty_cost (t : ty) : nat := List.length (ty_quals t) + tbase_cost (ty_base t) + 1.

(* dd_type on one <type> *)
Lemma type_at : forall ty0 k p o lv t tp fnm rest, 0 <= t ->
  At p (ty_enc ty0 ++ rest) -> ty_okb ty0 = true -> follow_ok rest -> (ty_cost ty0 <= k)%nat ->
  run true s 0 k FType (G p o lv t tp fnm) = R 0 (G (p + Z.of_nat (List.length (ty_enc ty0))) o lv t tp fnm).
Proof.
  intros [quals b] k p o lv t tp fnm rest Ht H Hok Hf Hk. unfold ty_enc, ty_okb, ty_cost in *. cbn [ty_quals ty_base] in *.
  apply andb_prop in Hok. destruct Hok as [Hq Hb]. rewrite <- app_assoc in H.
  destruct k as [| k]; [ lia |].
  change (run true s 0 (S k) FType) with (dd_type (run true s 0 k)).
  unfold dd_type. unfold G at 1.
  assert (Hlt : p < L).
  { destruct H as [_ [_ H2]]. repeat rewrite app_length in H2.
    assert (1 <= List.length (tbase_enc b))%nat.
    { destruct b; cbn [tbase_enc List.length]; try lia. unfold src. rewrite app_length.
      cbn [tbase_okb] in Hb. pose proof (ident_len id Hb). lia. }
    lia. }
  rewrite bind_eof. stsimpl. rwf (p >=? L). cbn [Z.eqb].
  unfold inc_typ, inc_level. rewrite !bind_modify. stsimpl.
  fold (G p o (lv + 1) (t + 1) tp fnm).
  erewrite bind_R; [| apply (type_quals_at quals b k p o (lv + 1) (t + 1) tp fnm rest); try assumption; lia ].
  unfold dec_level, dec_typ. rewrite !bind_modify. unfold ret, G. stsimpl.
  replace (t + 1 - 1) with t by lia. replace (lv + 1 - 1) with lv by lia.
  rewrite app_length. f_equal. f_equal. lia.
Qed.

(* first character of a type *)
Definition tyhd (h : Z) : bool := tyqual_okb h || is_builtin h || (h =? 83) || isdigit h || (h =? 78).
Lemma ty_enc_hd : forall t rest, ty_okb t = true -> tyhd (hd0 (ty_enc t ++ rest)) = true.
Proof.
  intros [quals b] rest H. unfold ty_okb, ty_enc in *. cbn [ty_quals ty_base] in *.
  apply andb_prop in H. destruct H as [Hq Hb]. unfold tyhd.
  destruct quals as [| q qs].
  - cbn [app]. destruct b as [c | seq | id | items]; cbn [tbase_enc tbase_okb app hd0] in *.
    + rewrite Hb. rewrite orb_true_r. reflexivity.
    + rewrite !orb_true_r. reflexivity.
    + pose proof (src_hd_digit id rest Hb) as Hd. unfold isdigit. rwt (48 <=? hd0 (src id ++ rest)).
      rwt (hd0 (src id ++ rest) <=? 57). cbn [andb]. rewrite !orb_true_r. reflexivity.
    + rewrite !orb_true_r. reflexivity.
  - cbn [app hd0 forallb] in *. apply andb_prop in Hq. destruct Hq as [Hq _]. rewrite Hq. reflexivity.
Qed.
Lemma tyhd_facts : forall h, tyhd h = true -> strchr_set (str "E.@") h = false /\ h <> 73 /\ h <> 66.
Proof.
  intros h H. unfold tyhd, tyqual_okb, is_builtin in H. cbn in H.
  repeat (apply orb_prop in H; destruct H as [H | H]); try discriminate;
    try (apply Z.eqb_eq in H; subst h; repeat split; try reflexivity; discriminate).
  unfold isdigit in H. assert (Hd : 48 <= h <= 57) by lia.
  split; [ apply (sc_digit (str "E.@") h Hd eq_refl) | lia ].
Qed.

Definition tys_enc (tys : list ty) : list Z := List.concat (map ty_enc tys).
Definition tys_cost (tys : list ty) : nat := fold_right (fun t n => ty_cost t + n)%nat 0%nat tys.

Lemma tys_follow : forall tys, forallb ty_okb tys = true -> follow_ok (tys_enc tys).
Proof.
  intros tys H. destruct tys as [| t tys]; [ unfold follow_ok; cbn; split; discriminate |].
  cbn [forallb] in H. apply andb_prop in H. destruct H as [Ht _].
  unfold tys_enc. cbn [map List.concat].
  destruct (tyhd_facts _ (ty_enc_hd t (List.concat (map ty_enc tys)) Ht)) as [_ [A B]]. split; assumption.
Qed.

(* the parameter loop of dd_encoding over a list of types that ends the string *)
Lemma enc_types_at : forall tys k p x,
  At p (tys_enc tys) -> forallb ty_okb tys = true -> (tys_cost tys + List.length tys + 2 <= k)%nat ->
  run true s 0 k LEncTypes (NS p (Some x) 1 false) = R 0 (NS (p + Z.of_nat (List.length (tys_enc tys))) (Some x) 1 false).
Proof.
  induction tys as [| t tys IH]; intros k p x H Hok Hk.
  - destruct k as [| k]; [ cbn in Hk; lia |].
    cbn [tys_enc map List.concat List.length]. cbn [run body]. unfold enc_types_loop, NS.
    rewrite bind_eof. stsimpl. destruct H as [H0 [H1 H2]]. cbn [tys_enc map List.concat List.length] in H2.
    rwt (p >=? L).
    erewrite bind_R; [| apply (curr_at _ []); [ split; [ exact H0 | split; [ exact H1 | exact H2 ] ] | reflexivity ] ].
    cbn [Z.eqb orb]. replace (p + Z.of_nat 0) with p by lia. reflexivity.
  - cbn [forallb] in Hok. apply andb_prop in Hok. destruct Hok as [Ht Htys].
    cbn [tys_cost fold_right List.length] in Hk. fold (tys_cost tys) in Hk.
    destruct k as [| k]; [ lia |].
    unfold tys_enc in *. cbn [map List.concat] in *.
    cbn [run body]. unfold enc_types_loop. unfold NS at 1.
    destruct (tyhd_facts _ (ty_enc_hd t (List.concat (map ty_enc tys)) Ht)) as [Fe _].
    assert (Hlt : p < L).
    { pose proof (ty_enc_hd t (List.concat (map ty_enc tys)) Ht) as Hh.
      destruct (ty_enc t ++ List.concat (map ty_enc tys)) as [| c r] eqn:E; [ discriminate |]. apply (At_lt _ _ _ H). }
    rewrite bind_eof. stsimpl. rwf (p >=? L).
    erewrite bind_R; [| apply (curr_at _ (ty_enc t ++ List.concat (map ty_enc tys))); [ exact H | reflexivity ] ].
    cbn [Z.eqb orb]. rewrite Fe.
    change (mkst p L (Some x) 0 1 0 false false false false) with (G p (Some x) 1 0 0 false).
    erewrite bind_R; [| apply (type_at t k p (Some x) 1 0 0 false (List.concat (map ty_enc tys))); try assumption; try lia;
                        apply (tys_follow tys Htys) ].
    cbn [Z.ltb Z.compare].
    change (G (p + Z.of_nat (List.length (ty_enc t))) (Some x) 1 0 0 false)
      with (NS (p + Z.of_nat (List.length (ty_enc t))) (Some x) 1 false).
    rewrite (IH k _ x (At_app _ _ _ H) Htys ltac:(lia)).
    f_equal. unfold NS. f_equal. rewrite app_length. lia.
Qed.

(* ---- the same with general parameter types *)
Lemma encoding_generic_ty : forall c0 tl x pe tys F3,
  At 0 (95 :: 90 :: c0 :: tl) -> c0 <> 84 -> c0 <> 71 ->
  run true s 0 (S (S F3)) FName (NS 2 None 1 true) = R 0 (NS pe (Some x) 1 false) ->
  At pe (tys_enc tys) -> forallb ty_okb tys = true -> (tys_cost tys + List.length tys + 1 <= F3)%nat ->
  run true s 0 (S (S (S F3))) FEncoding (st0 L) = R 0 (NS L (Some x) 0 false).
Proof.
  intros c0 tl x pe tys F3 H0 HcT HcG Hname Hpe Hpar HF.
  pose proof (At_cons _ _ _ H0) as H1. pose proof (At_cons _ _ _ H1) as H2. cbn [Z.add Pos.add] in H1, H2.
  change (run true s 0 (S (S (S F3))) FEncoding) with (dd_encoding s 0 (run true s 0 (S (S F3)))).
  unfold dd_encoding, st0.
  pose proof (At_lt _ _ _ H0) as HL0.
  rewrite bind_eof. stsimpl. rwf (0 >=? L). cbn [Z.eqb].
  rewrite bind_gets. stsimpl. cbn [Z.eqb].
  erewrite bind_R; [| apply (consume_n_at _ 2 (95 :: 90 :: c0 :: tl)); [ exact H0 | reflexivity | cbn [List.length]; lia ] ].
  stsimpl. cbn [Z.add]. unfold inc_level. rewrite bind_modify. stsimpl. cbn [Z.add].
  erewrite bind_R; [| apply (curr_at _ (c0 :: tl)); [ exact H2 | reflexivity ] ].
  cbn [hd0]. chs. rwf (c0 =? 84). rwf (c0 =? 71). cbn [orb].
  fold (NS 2 None 1 true). erewrite bind_R; [| exact Hname ].
  cbn [Z.ltb Z.compare].
  erewrite bind_R.
  2:{ apply (enc_types_at tys (S (S F3)) pe x Hpe Hpar). lia. }
  assert (HpeL : pe + Z.of_nat (List.length (tys_enc tys)) = L) by (destruct Hpe as [_ [_ HH]]; exact HH).
  rewrite HpeL.
  assert (Hend : At L []).
  { rewrite <- HpeL. replace (tys_enc tys) with (tys_enc tys ++ []) in Hpe by apply app_nil_r. apply (At_app _ (tys_enc tys) []). exact Hpe. }
  unfold NS at 1.
  erewrite bind_R; [| apply (curr_at _ []); [ exact Hend | reflexivity ] ].
  cbn [hd0]. chs. cbn [Z.eqb]. rewrite bind_ret.
  erewrite bind_R; [| apply (curr_at _ []); [ exact Hend | reflexivity ] ].
  cbn [hd0 Z.eqb]. rewrite bind_ret.
  unfold dec_level. rewrite bind_modify. stsimpl. reflexivity.
Qed.

Lemma tyencoding_at : forall quals c cs l tys F,
  s = str "_ZN" ++ quals ++ tsrcs (c :: cs) ++ last_enc l ++ 69 :: tys_enc tys ->
  forallb qual_okb quals = true ->
  forallb tcomp_okb (c :: cs) = true -> last_okb l = true -> forallb ty_okb tys = true ->
  no_dollar (tsrcs (c :: cs) ++ last_enc l ++ 69 :: tys_enc tys) -> L <= INT_MAX ->
  (List.length quals + tcosts (c :: cs) + tys_cost tys + List.length tys + 10 <= F)%nat ->
  run true s 0 F FEncoding (st0 L) = R 0 (NS L (Some (last_out (join_sep (map fst (c :: cs))) l)) 0 false).
Proof.
  intros quals c cs l tys F Hs Hq Hok Hl Hpar Hnd HL HF.
  set (comps := c :: cs) in *.
  set (body := quals ++ tsrcs comps ++ last_enc l ++ 69 :: tys_enc tys) in *.
  assert (H0 : At 0 (95 :: 90 :: 78 :: body)).
  { unfold At. split; [ lia |]. split; [ unfold suffix; cbn [Z.add Z.to_nat skipn]; rewrite Hs; reflexivity |].
    unfold flen. rewrite Hs. cbn [str app List.length]. lia. }
  pose proof (At_cons _ _ _ H0) as H1. pose proof (At_cons _ _ _ H1) as H2. cbn [Z.add Pos.add] in H1, H2.
  destruct F as [| F1]; [ lia |]. destruct F1 as [| F2]; [ lia |]. destruct F2 as [| F3]; [ lia |].
  set (pq := 3 + Z.of_nat (List.length quals)).
  set (pe := pq + Z.of_nat (List.length (tsrcs comps)) + Z.of_nat (List.length (last_enc l)) + 1).
  pose proof (At_cons _ _ _ H2) as H3. cbn [Z.add Pos.add] in H3.
  assert (Hpq : At pq (tsrcs comps ++ last_enc l ++ 69 :: tys_enc tys)) by (apply (At_app _ quals); exact H3).
  assert (Hpe : At pe (tys_enc tys)).
  { unfold pe. replace (pq + Z.of_nat (List.length (tsrcs comps)) + Z.of_nat (List.length (last_enc l)) + 1)
      with (pq + Z.of_nat (List.length (tsrcs comps)) + Z.of_nat (List.length (last_enc l)) + Z.of_nat (List.length [69])) by (cbn [List.length]; lia).
    apply (At_app _ [69] (tys_enc tys)). apply (At_app _ (last_enc l)). apply (At_app _ (tsrcs comps)). exact Hpq. }
  apply (encoding_generic_ty 78 body (last_out (join_sep (map fst comps)) l) pe tys F3 H0); try lia; try assumption.
  change (run true s 0 (S (S F3)) FName) with (dd_name true s 0 (run true s 0 (S F3))).
  unfold dd_name. unfold NS at 1.
  erewrite bind_R; [| apply (curr_at _ (78 :: body)); [ exact H2 | reflexivity ] ].
  pose proof (At_lt _ _ _ H2).
  rewrite bind_eof. stsimpl. rwf (2 >=? L). cbn [hd0]. chs. cbn [Z.eqb Pos.eqb].
  change (run true s 0 (S F3) FNestedName) with (dd_nested_name s 0 (run true s 0 F3)).
  unfold dd_nested_name.
  rewrite bind_eof. stsimpl. rwf (2 >=? L). cbn [Z.eqb].
  unfold expect at 1. unfold consume.
  erewrite bind_R; [| apply (consume_n_at _ 1 (78 :: body)); [ exact H2 | reflexivity | cbn [List.length]; lia ] ].
  cbn [hd0]. chs. cbn [Z.eqb Pos.eqb]. stsimpl.
  unfold inc_level. rewrite bind_modify. stsimpl. cbn [Z.add Pos.add].
  fold (NS 3 None 2 true).
  erewrite bind_R.
  2:{ replace F3 with (List.length quals + (F3 - List.length quals))%nat by lia.
      rewrite (nested_quals quals _ 3 None 2 true (tsrcs comps ++ last_enc l ++ 69 :: tys_enc tys)); [| exact H3 | exact Hq |].
      - fold pq.
        apply (nested_tcomps comps l _ pq None 2 true (tys_enc tys) (join_sep (map fst comps))); try assumption.
        + unfold comps. cbn [map]. apply out_after_start.
        + reflexivity.
        + lia.
      - unfold comps, tsrcs. cbn [map List.concat]. unfold tenc at 1. unfold src.
        destruct (hd0_dec_digit _ (fst c ++ targs_enc (snd c)) (ident_len (fst c) ltac:(
          cbn [forallb] in Hok; apply andb_prop in Hok; destruct Hok as [Hc _]; unfold tcomp_okb in Hc;
          apply andb_prop in Hc; tauto))) as [_ Hne].
        destruct (dec (Z.of_nat (List.length (fst c)))); [ contradiction | discriminate ]. }
  assert (H4 : At (pq + Z.of_nat (List.length (tsrcs comps)) + Z.of_nat (List.length (last_enc l))) (69 :: tys_enc tys)).
  { apply (At_app _ (last_enc l)). apply (At_app _ (tsrcs comps)). exact Hpq. }
  unfold expect. unfold consume. unfold NS at 1.
  erewrite bind_R; [| apply (consume_n_at _ 1 (69 :: tys_enc tys)); [ exact H4 | reflexivity | cbn [List.length]; lia ] ].
  cbn [hd0]. chs. cbn [Z.eqb Pos.eqb]. stsimpl.
  unfold dec_level. rewrite bind_modify. stsimpl. unfold ret, NS. cbn [Z.sub Z.add Z.opp Z.pos_sub Pos.pred_double].
  reflexivity.
Qed.


(* ================================================================ types with template arguments (mutually recursive grammar) *)
(* cost-indexed grammar; the strings are the manglings themselves:
     TyL : (r|V|K|P|R|O|C|G)* ( <builtin> | S <seq-id> _ [<targs>] | <source-name> [<targs>] | N <items> E )
     TA  : empty | I <targ>* E             TAL : <targ>*  with <targ> ::= <type> | L <builtin> <number> E
     NI  : ( <source-name> [<targs>] | S <seq-id> _ [<targs>] )*                                         *)
Inductive TyL : nat -> list Z -> Prop :=
| TL_builtin : forall c, is_builtin c = true -> TyL 1 [c]
| TL_qual : forall q n u, tyqual_okb q = true -> TyL n u -> TyL (S n) (q :: u)
| TL_subst : forall seq n ta, forallb seqchar seq = true -> TA n ta -> TyL (S n) (83 :: seq ++ 95 :: ta)
| TL_src : forall id n ta, ident_okb id = true -> TA n ta -> TyL (n + 3) (src id ++ ta)
| TL_nested : forall n items, NI n items -> TyL (n + 4) (78 :: items ++ [69])
| TL_abbr : forall c nm n ta, find_abbrev std_abbrevs c = Some nm -> c <> 116 -> TA n ta -> TyL (S n) (83 :: c :: ta)
| TL_std : forall id n ta, ident_okb id = true -> TA n ta -> TyL (n + 3) (83 :: 116 :: src id ++ ta)
with TA : nat -> list Z -> Prop :=
| TA_none : TA 0 []
| TA_some : forall n l, TAL n l -> TA (n + 2) (73 :: l ++ [69])
with TAL : nat -> list Z -> Prop :=
| TAL_nil : TAL 1 []
| TAL_ty : forall n m u l, TyL n u -> TAL m l -> TAL (n + m + 3) (u ++ l)
| TAL_lit : forall c v m l, is_builtin c = true -> 0 < v < 1000000000 -> TAL m l ->
            TAL (m + 6) (76 :: c :: dec v ++ 69 :: l)
with NI : nat -> list Z -> Prop :=
| NI_nil : NI 1 []
| NI_src : forall id n ta m l, ident_okb id = true -> TA n ta -> NI m l -> NI (n + m + 2) (src id ++ ta ++ l)
| NI_sub : forall seq n ta m l, forallb seqchar seq = true -> TA n ta -> NI m l ->
           NI (n + m + 2) (83 :: seq ++ 95 :: ta ++ l)
| NI_abbr : forall c nm n ta m l, find_abbrev std_abbrevs c = Some nm -> TA n ta -> NI m l ->
            NI (n + m + 2) (83 :: c :: ta ++ l).

Scheme TyL_mut := Minimality for TyL Sort Prop
  with TA_mut := Minimality for TA Sort Prop
  with TAL_mut := Minimality for TAL Sort Prop
  with NI_mut := Minimality for NI Sort Prop.
Combined Scheme grammar_ind from TyL_mut, TA_mut, TAL_mut, NI_mut.

Lemma TyL_hd : forall n u, TyL n u -> forall rest, tyhd (hd0 (u ++ rest)) = true.
Proof.
  intros n u H. induction H as [c Hc | q n u Hq H IH | seq n ta Hs Hta | id n ta Hid Hta | n items Hi
                               | c nm n ta Hc Hct Hta | id n ta Hid Hta ]; intros rest;
    unfold tyhd; cbn [app hd0].
  - rewrite Hc. rewrite orb_true_r. reflexivity.
  - rewrite Hq. reflexivity.
  - rewrite !orb_true_r. reflexivity.
  - rewrite <- app_assoc. pose proof (src_hd_digit id (ta ++ rest) Hid) as Hd. unfold isdigit.
    rwt (48 <=? hd0 (src id ++ ta ++ rest)). rwt (hd0 (src id ++ ta ++ rest) <=? 57). cbn [andb]. rewrite !orb_true_r. reflexivity.
  - rewrite !orb_true_r. reflexivity.
  - rewrite !orb_true_r. reflexivity.
  - rewrite !orb_true_r. reflexivity.
Qed.
Lemma TA_hd : forall n ta, TA n ta -> ta = [] \/ exists r, ta = 73 :: r.
Proof. intros n ta H. destruct H; [ left; reflexivity | right; eexists; reflexivity ]. Qed.
Lemma TAL_hd : forall m l, TAL m l -> forall rest, follow_ok (l ++ 69 :: rest) /\ (hd0 (l ++ 69 :: rest) = 69 \/ hd0 (l ++ 69 :: rest) = 76 \/ tyhd (hd0 (l ++ 69 :: rest)) = true).
Proof.
  intros m l H rest. destruct H as [| n m u l Hu Hl | c v m l Hc Hv Hl ].
  - cbn. split; [ split; discriminate | left; reflexivity ].
  - rewrite <- app_assoc. pose proof (TyL_hd n u Hu (l ++ 69 :: rest)) as Hh.
    destruct (tyhd_facts _ Hh) as [_ [A B]]. split; [ split; assumption | right; right; exact Hh ].
  - cbn [app hd0]. split; [ split; discriminate | right; left; reflexivity ].
Qed.
Lemma NI_hd : forall m l, NI m l -> forall rest,
  let h := hd0 (l ++ 69 :: rest) in (48 <= h <= 57) \/ h = 83 \/ h = 69.
Proof.
  intros m l H rest. destruct H as [| id n ta m l Hid Hta Hl | seq n ta m l Hs Hta Hl | c nm n ta m l Hc Hta Hl ]; cbn zeta.
  - right; right; reflexivity.
  - left. rewrite <- !app_assoc. apply src_hd_digit. exact Hid.
  - right; left. reflexivity.
  - right; left. reflexivity.
Qed.

Lemma number_lit_at : forall st v rest, At (pos st) (dec v ++ 69 :: rest) -> len st = L -> 0 < v < 1000000000 ->
  exists r, dd_number s 0 st = R r (set_pos st (pos st + Z.of_nat (List.length (dec v)))).
Proof.
  intros st v rest H Hl Hv. eexists. apply (number_at st v (69 :: rest) H Hl Hv). reflexivity.
Qed.

Definition P_TyL (n : nat) (u : list Z) : Prop :=
  forall k p o lv t tp fnm rest, 0 < t -> At p (u ++ rest) -> follow_ok rest -> (n <= k)%nat ->
  run true s 0 k (LType (-1)) (G p o lv t tp fnm) = R 0 (G (p + Z.of_nat (List.length u)) o lv t tp fnm).
Definition P_TA (n : nat) (ta : list Z) : Prop :=
  forall k p o lv t tp fnm rest, 0 <= t -> ta <> [] -> At p (ta ++ rest) -> (n <= k)%nat ->
  run true s 0 k FTemplateArgs (G p o lv t tp fnm) = R 0 (G (p + Z.of_nat (List.length ta)) o lv t tp fnm).
Definition P_TAL (n : nat) (l : list Z) : Prop :=
  forall k p o lv t tp fnm rest, 0 <= t -> At p (l ++ 69 :: rest) -> (n <= k)%nat ->
  run true s 0 k (LUntilE FTemplateArg) (G p o lv t tp fnm) = R 0 (G (p + Z.of_nat (List.length l)) o lv t tp fnm).
Definition P_NI (n : nat) (l : list Z) : Prop :=
  forall k p o lv t tp fnm rest, 0 < t -> At p (l ++ 69 :: rest) -> (n <= k)%nat ->
  run true s 0 k (LNested 0) (G p o lv t tp fnm) = R 0 (G (p + Z.of_nat (List.length l)) o lv t tp fnm).

(* S t | S a | S b | S s | S i | S o | S d : the std abbreviations *)
Lemma abbrev_chars : forall c nm, find_abbrev std_abbrevs c = Some nm -> 97 <= c <= 122.
Proof.
  intros c nm H. unfold std_abbrevs, find_abbrev in H.
  repeat match type of H with (if ?b then _ else _) = _ => destruct b eqn:?; [ | ] end;
    try discriminate; match goal with X : (c =? _) = true |- _ => apply Z.eqb_eq in X; revert X; chs; lia end.
Qed.
Lemma subst_abbr_skip : forall p o lv t tp fnm c nm rest, t <> 0 ->
  At p (83 :: c :: rest) -> find_abbrev std_abbrevs c = Some nm -> hd0 rest <> 66 ->
  dd_substitution true s 0 (G p o lv t tp fnm) = R 0 (G (p + 2) o lv t tp fnm).
Proof.
  intros p o lv t tp fnm c nm rest Ht H Hc HB. unfold dd_substitution. unfold G at 1.
  pose proof (At_lt _ _ _ H) as Hlt.
  rewrite bind_eof. stsimpl. rwf (p >=? L). cbn [Z.eqb].
  unfold expect at 1. unfold consume.
  erewrite bind_R; [| apply (consume_n_at _ 1 (83 :: c :: rest)); [ exact H | reflexivity | cbn [List.length]; lia ] ].
  cbn [hd0]. chs. cbn [Z.eqb Pos.eqb]. stsimpl.
  pose proof (At_cons _ _ _ H) as H1. pose proof (At_cons _ _ _ H1) as H2. replace (p + 1 + 1) with (p + 2) in H2 by lia.
  erewrite bind_R; [| apply (curr_at _ (c :: rest)); [ exact H1 | reflexivity ] ].
  cbn [hd0]. rewrite Hc.
  erewrite bind_R; [| apply (consume_n_at _ 1 (c :: rest)); [ exact H1 | reflexivity | cbn [List.length]; lia ] ].
  stsimpl. rewrite bind_gets, bind_getb. stsimpl. rwf (t =? 0). cbn [Z.eqb orb]. rewrite bind_ret_k.
  replace (p + 1 + 1) with (p + 2) by lia.
  erewrite bind_R; [| apply (curr_at _ rest); [ exact H2 | reflexivity ] ].
  chs. rwf (hd0 rest =? 66). rewrite bind_ret_k. reflexivity.
Qed.
Lemma subst_abbr_at : forall p o lv fnm c nm rest,
  At p (83 :: c :: rest) -> find_abbrev std_abbrevs c = Some nm -> hd0 rest <> 66 ->
  dd_substitution true s 0 (NS p o lv fnm) = R 0 (NS (p + 2) (add_out (sep_out o fnm) nm) lv false).
Proof.
  intros p o lv fnm c nm rest H Hc HB. unfold dd_substitution. unfold NS at 1.
  pose proof (At_lt _ _ _ H) as Hlt.
  rewrite bind_eof. stsimpl. rwf (p >=? L). cbn [Z.eqb].
  unfold expect at 1. unfold consume.
  erewrite bind_R; [| apply (consume_n_at _ 1 (83 :: c :: rest)); [ exact H | reflexivity | cbn [List.length]; lia ] ].
  cbn [hd0]. chs. cbn [Z.eqb Pos.eqb]. stsimpl.
  pose proof (At_cons _ _ _ H) as H1. pose proof (At_cons _ _ _ H1) as H2. replace (p + 1 + 1) with (p + 2) in H2 by lia.
  erewrite bind_R; [| apply (curr_at _ (c :: rest)); [ exact H1 | reflexivity ] ].
  cbn [hd0]. rewrite Hc.
  erewrite bind_R; [| apply (consume_n_at _ 1 (c :: rest)); [ exact H1 | reflexivity | cbn [List.length]; lia ] ].
  stsimpl. rewrite bind_gets, bind_getb. stsimpl. cbn [Z.eqb orb].
  replace (p + 1 + 1) with (p + 2) by lia.
  unfold bind at 1. unfold bind at 1. unfold append_separator, append. stsimpl.
  assert (E : forall st', curr s 0 st' = R (hd0 rest) st' -> 
              (c2 <- curr s 0;; (if c2 =? 66 then dd_abi_tag true s 0 else ret 0);;; ret 0) st' = R 0 st').
  { intros st' Hcu. erewrite bind_R; [| exact Hcu ]. rwf (hd0 rest =? 66). rewrite bind_ret_k. reflexivity. }
  destruct fnm; stsimpl.
  - rewrite E; [ unfold NS, sep_out, add_out; destruct o; reflexivity |].
    apply (curr_at _ rest); [ exact H2 | reflexivity ].
  - rewrite E; [ unfold NS, sep_out, add_out; destruct o; reflexivity |].
    apply (curr_at _ rest); [ exact H2 | reflexivity ].
Qed.

(* after an optional <targs>: `if (dd_curr(dd) == 'I') ret = dd_template_args(dd)` *)
Lemma targs_cont : forall n ta k p o lv t tp fnm rest v, TA n ta -> P_TA n ta -> 0 <= t ->
  At p (ta ++ rest) -> hd0 rest <> 73 -> (n <= k)%nat -> (v = 0) ->
  (c <- curr s 0 ;; if c =? 73 then run true s 0 k FTemplateArgs else ret v) (G p o lv t tp fnm) =
  R 0 (G (p + Z.of_nat (List.length ta)) o lv t tp fnm).
Proof.
  intros n ta k p o lv t tp fnm rest v Hta HP Ht H Hr Hk Hv. subst v.
  unfold G at 1.
  erewrite bind_R; [| apply (curr_at _ (ta ++ rest)); [ exact H | reflexivity ] ].
  destruct (TA_hd n ta Hta) as [E | [r E]]; subst ta.
  - cbn [app List.length]. rwf (hd0 rest =? 73). replace (p + Z.of_nat 0) with p by lia. reflexivity.
  - cbn [app hd0]. cbn [Z.eqb Pos.eqb]. fold (G p o lv t tp fnm).
    apply (HP k p o lv t tp fnm rest Ht ltac:(discriminate) H Hk).
Qed.


Lemma P_builtin : forall c, is_builtin c = true -> P_TyL 1 [c].
Proof.
  intros c Hc k p o lv t tp fnm rest Ht H [HfI HfB] Hk.
  destruct k as [| k]; [ lia |].
  change (run true s 0 (S k) (LType (-1))) with (type_loop true s 0 (run true s 0 k) (-1)).
  unfold type_loop. unfold G at 1. cbn [app] in H.
  destruct (builtin_facts c Hc) as [F1 [F2 [F3 [F4 [F5 [F6 [F7 [F8 [F9 [F10 [F11 [F12 [F13 F14]]]]]]]]]]]]].
  pose proof (At_lt _ _ _ H).
  rewrite bind_eof. stsimpl. rwf (p >=? L). cbn [Z.eqb].
  erewrite bind_R; [| apply (curr_at _ (c :: rest)); [ exact H | reflexivity ] ].
  cbn [hd0]. rewrite F1, F2, F3, F4, F5, F6, F7, F8, F9, F10, F11, F12.
  unfold is_builtin in Hc. rewrite Hc. unfold consume.
  erewrite bind_R; [| apply (consume_n_at _ 1 (c :: rest)); [ exact H | reflexivity | cbn [List.length]; lia ] ].
  reflexivity.
Qed.

(* dd_type around the type loop *)
Lemma type_wrap : forall n u, P_TyL n u -> u <> [] ->
  forall k p o lv t tp fnm rest, 0 <= t -> At p (u ++ rest) -> follow_ok rest -> (S n <= k)%nat ->
  run true s 0 k FType (G p o lv t tp fnm) = R 0 (G (p + Z.of_nat (List.length u)) o lv t tp fnm).
Proof.
  intros n u HP Hne k p o lv t tp fnm rest Ht H Hf Hk.
  destruct k as [| k]; [ lia |].
  change (run true s 0 (S k) FType) with (dd_type (run true s 0 k)).
  unfold dd_type. unfold G at 1.
  assert (Hlt : p < L).
  { destruct u as [| c r]; [ contradiction |]. cbn [app] in H. apply (At_lt _ _ _ H). }
  rewrite bind_eof. stsimpl. rwf (p >=? L). cbn [Z.eqb].
  unfold inc_typ, inc_level. rewrite !bind_modify. stsimpl.
  fold (G p o (lv + 1) (t + 1) tp fnm).
  erewrite bind_R; [| apply (HP k p o (lv + 1) (t + 1) tp fnm rest); [ lia | exact H | exact Hf | lia ] ].
  unfold dec_level, dec_typ. rewrite !bind_modify. unfold ret, G. stsimpl.
  replace (t + 1 - 1) with t by lia. replace (lv + 1 - 1) with lv by lia. reflexivity.
Qed.

Lemma TyL_nonempty : forall n u, TyL n u -> u <> [].
Proof.
  intros n u H. destruct H; try discriminate.
  unfold src. destruct (hd0_dec_digit _ (id ++ ta) (ident_len id H)) as [_ Hne].
  destruct (dec (Z.of_nat (List.length id))); [ contradiction | discriminate ].
Qed.

(* optional <targs> inside a nested name, then the rest of the loop *)
Lemma ni_cont : forall n ta m l k p o lv t tp fnm rest, TA n ta -> P_TA n ta -> P_NI m l -> 0 < t ->
  At p (ta ++ l ++ 69 :: rest) ->
  (let h := hd0 (l ++ 69 :: rest) in (48 <= h <= 57) \/ h = 83 \/ h = 69) -> (n + m + 1 <= k)%nat ->
  run true s 0 k (LNested 0) (G p o lv t tp fnm) =
  R 0 (G (p + Z.of_nat (List.length ta) + Z.of_nat (List.length l)) o lv t tp fnm).
Proof.
  intros n ta m l k p o lv t tp fnm rest Hta HPa HPl Ht H Hh Hk.
  destruct (TA_hd n ta Hta) as [E | [r E]]; subst ta.
  - cbn [app List.length] in *. replace (p + Z.of_nat 0) with p by lia.
    apply (HPl k p o lv t tp fnm rest Ht H). lia.
  - destruct k as [| k]; [ lia |].
    change (run true s 0 (S k) (LNested 0)) with (nested_loop true s 0 (run true s 0 k) 0).
    unfold nested_loop. unfold G at 1. cbn [app] in H.
    erewrite bind_R; [| apply (curr_at _ (73 :: r ++ l ++ 69 :: rest)); [ exact H | reflexivity ] ].
    rewrite bind_eof. stsimpl. pose proof (At_lt _ _ _ H) as Hlt. rwf (p >=? L). cbn [hd0]. chs.
    cbn [Z.eqb Pos.eqb orb negb].
    erewrite bind_R; [| apply (peek1_at _ 73 (r ++ l ++ 69 :: rest)); [ exact H | reflexivity ] ].
    cbn [andb orb]. unfold islower, isdigit. cbn [Z.leb Z.compare Pos.compare Pos.compare_cont andb orb].
    fold (G p o lv t tp fnm).
    change (73 :: r ++ l ++ 69 :: rest) with ((73 :: r) ++ l ++ 69 :: rest) in H.
    erewrite bind_R; [| apply (HPa k p o lv t tp fnm (l ++ 69 :: rest)); [ lia | discriminate | exact H | lia ] ].
    rewrite (HPl k _ o lv t tp fnm rest Ht (At_app _ _ _ H) ltac:(lia)). reflexivity.
Qed.

Lemma grammar_walk :
  (forall n u, TyL n u -> P_TyL n u) /\ (forall n ta, TA n ta -> P_TA n ta) /\
  (forall n l, TAL n l -> P_TAL n l) /\ (forall n l, NI n l -> P_NI n l).
Proof.
  apply grammar_ind.
  - (* builtin *)
    intros c Hc. apply P_builtin. exact Hc.
  - (* qualifier *)
    intros q n u Hq Hu IH k p o lv t tp fnm rest Ht H Hf Hk. cbn [app List.length] in *.
    destruct k as [| k]; [ lia |].
    change (run true s 0 (S k) (LType (-1))) with (type_loop true s 0 (run true s 0 k) (-1)).
    unfold type_loop. unfold G at 1. pose proof (At_lt _ _ _ H) as Hlt.
    rewrite bind_eof. stsimpl. rwf (p >=? L). cbn [Z.eqb].
    erewrite bind_R; [| apply (curr_at _ (q :: u ++ rest)); [ exact H | reflexivity ] ].
    cbn [hd0].
    assert (Hnext : run true s 0 k (LType (-1)) (G (p + 1) o lv t tp fnm) =
                    R 0 (G (p + Z.of_nat (S (List.length u))) o lv t tp fnm)).
    { rewrite (IH k (p + 1) o lv t tp fnm rest Ht (At_cons _ _ _ H) Hf ltac:(lia)).
      f_equal. unfold G. f_equal. lia. }
    assert (Hcons : consume s 0 (G p o lv t tp fnm) = R q (G (p + 1) o lv t tp fnm)).
    { unfold consume. rewrite (consume_n_at _ 1 (q :: u ++ rest)); [ reflexivity | exact H | reflexivity | cbn [List.length]; lia ]. }
    assert (Hdq : strchr_set (str "rVKRO") q = true ->
                  dd_qualifier s 0 (G p o lv t tp fnm) = R 0 (G (p + 1) o lv t tp fnm)).
    { intros Hs. unfold dd_qualifier. unfold G at 1.
      erewrite bind_R; [| apply (curr_at _ (q :: u ++ rest)); [ exact H | reflexivity ] ].
      rewrite bind_eof. stsimpl. rwf (p >=? L). cbn [Z.eqb hd0]. rewrite Hs.
      fold (G p o lv t tp fnm). erewrite bind_R; [| exact Hcons ]. reflexivity. }
    fold (G p o lv t tp fnm).
    unfold tyqual_okb in Hq. cbn in Hq.
    repeat (apply orb_prop in Hq; destruct Hq as [Hq | Hq]); try discriminate; apply Z.eqb_eq in Hq; subst q; sc_eval; cbv iota.
    1-3: (erewrite bind_R; [| apply Hdq; reflexivity ]; exact Hnext).
    all: erewrite bind_R; [| exact Hcons ]; exact Hnext.
  - (* S <seq-id> _ [<targs>] *)
    intros seq n ta Hs Hta IH k p o lv t tp fnm rest Ht H [HfI HfB] Hk.
    destruct k as [| k]; [ lia |].
    change (run true s 0 (S k) (LType (-1))) with (type_loop true s 0 (run true s 0 k) (-1)).
    unfold type_loop. unfold G at 1. cbn [app] in H. rewrite <- app_assoc in H. cbn [app] in H.
    pose proof (At_lt _ _ _ H).
    rewrite bind_eof. stsimpl. rwf (p >=? L). cbn [Z.eqb].
    erewrite bind_R; [| apply (curr_at _ (83 :: seq ++ 95 :: ta ++ rest)); [ exact H | reflexivity ] ].
    cbn [hd0]. sc_eval. chs. cbn [Z.eqb Pos.eqb].
    erewrite bind_R; [| apply (peek1_at _ 83 (seq ++ 95 :: ta ++ rest)); [ exact H | reflexivity ] ].
    fold (G p o lv t tp fnm).
    erewrite bind_R; [| apply (subst_seq_at p o lv t tp fnm seq (ta ++ rest)); assumption ].
    assert (H2 : At (p + Z.of_nat (List.length seq) + 2) (ta ++ rest)).
    { replace (p + Z.of_nat (List.length seq) + 2) with (p + Z.of_nat (List.length (83 :: seq ++ [95])))
        by (cbn [List.length]; rewrite app_length; cbn [List.length]; lia).
      apply At_app. cbn [app]. rewrite <- app_assoc. exact H. }
    unfold G at 1.
    erewrite bind_R; [| apply (curr_at _ (ta ++ rest)); [ exact H2 | reflexivity ] ].
    assert (Hc1 : (hd0 (seq ++ 95 :: ta ++ rest) =? 116) = false).
    { destruct seq as [| c sq]; [ reflexivity |]. cbn [app hd0]. cbn [forallb] in Hs. apply andb_prop in Hs.
      destruct Hs as [Hc _]. unfold seqchar, isdigit, isupper in Hc. lia. }
    cbn [Z.eqb]. rewrite Hc1. cbn [andb]. rewrite bind_ret.
    fold (G (p + Z.of_nat (List.length seq) + 2) o lv t tp fnm).
    rewrite (targs_cont n ta k _ o lv t tp fnm rest 0 Hta IH ltac:(lia) H2 HfI ltac:(lia) eq_refl).
    f_equal. unfold G. f_equal. cbn [List.length]. repeat rewrite app_length. cbn [List.length]. lia.
  - (* <source-name> [<targs>] *)
    intros id n ta Hid Hta IH k p o lv t tp fnm rest Ht H [HfI HfB] Hk.
    destruct k as [| k]; [ lia |].
    change (run true s 0 (S k) (LType (-1))) with (type_loop true s 0 (run true s 0 k) (-1)).
    unfold type_loop. unfold G at 1. rewrite <- app_assoc in H.
    pose proof (src_hd_digit id (ta ++ rest) Hid) as Hd.
    destruct (src id ++ ta ++ rest) as [| d tl] eqn:E.
    { exfalso. unfold src in E. destruct (hd0_dec_digit _ (id ++ ta ++ rest) (ident_len id Hid)) as [_ Hne].
      rewrite <- app_assoc in E. destruct (dec (Z.of_nat (List.length id))); [ contradiction | discriminate ]. }
    cbn [hd0] in Hd. pose proof (At_lt _ _ _ H).
    rewrite bind_eof. stsimpl. rwf (p >=? L). cbn [Z.eqb].
    erewrite bind_R; [| apply (curr_at _ (d :: tl)); [ exact H | reflexivity ] ].
    cbn [hd0].
    rewrite (sc_digit (str "rVK") d Hd eq_refl). rewrite (sc_digit (str "PROCG") d Hd eq_refl). chs.
    rwf (d =? 70). rwf (d =? 84). rwf (d =? 65). rwf (d =? 77). rwf (d =? 68). rwf (d =? 83).
    rwf (d =? 117). rwf (d =? 85). rwf (d =? 73).
    unfold isdigit. rwt (48 <=? d). rwt (d <=? 57). cbn [andb orb].
    destruct k as [| k1]; [ lia |]. destruct k1 as [| k2]; [ lia |].
    change (run true s 0 (S (S k2)) FName) with (dd_name true s 0 (run true s 0 (S k2))).
    unfold dd_name.
    erewrite bind_R; [| apply (curr_at _ (d :: tl)); [ exact H | reflexivity ] ].
    rewrite bind_eof. stsimpl. rwf (p >=? L). cbn [hd0 Z.eqb]. chs. rwf (d =? 78). rwf (d =? 90). rwf (d =? 83).
    rewrite <- E in H. fold (G p o lv t tp fnm).
    assert (HB : hd0 (ta ++ rest) <> 66).
    { destruct (TA_hd n ta Hta) as [E1 | [r E1]]; subst ta; cbn [app hd0]; [ exact HfB | lia ]. }
    erewrite bind_R; [| apply (unq_skip k2 p o lv t tp fnm id (ta ++ rest)); try assumption; lia ].
    cbn [Z.ltb Z.compare].
    rewrite (targs_cont n ta (S k2) _ o lv t tp fnm rest 0 Hta IH ltac:(lia) (At_src_tail _ _ _ H) HfI ltac:(lia) eq_refl).
    f_equal. unfold G. f_equal. rewrite app_length. lia.
  - (* N <items> E *)
    intros n items Hi IH k p o lv t tp fnm rest Ht H [HfI HfB] Hk.
    destruct k as [| k]; [ lia |].
    change (run true s 0 (S k) (LType (-1))) with (type_loop true s 0 (run true s 0 k) (-1)).
    unfold type_loop. unfold G at 1. cbn [app] in H. rewrite <- app_assoc in H. cbn [app] in H.
    pose proof (At_lt _ _ _ H).
    rewrite bind_eof. stsimpl. rwf (p >=? L). cbn [Z.eqb].
    erewrite bind_R; [| apply (curr_at _ (78 :: items ++ 69 :: rest)); [ exact H | reflexivity ] ].
    cbn [hd0]. sc_eval. chs. cbn [Z.eqb Pos.eqb]. unfold isdigit. cbn [Z.leb Z.compare Pos.compare Pos.compare_cont andb orb].
    destruct k as [| k1]; [ lia |]. destruct k1 as [| k2]; [ lia |].
    change (run true s 0 (S (S k2)) FName) with (dd_name true s 0 (run true s 0 (S k2))).
    unfold dd_name.
    erewrite bind_R; [| apply (curr_at _ (78 :: items ++ 69 :: rest)); [ exact H | reflexivity ] ].
    rewrite bind_eof. stsimpl. rwf (p >=? L). cbn [hd0 Z.eqb]. chs. cbn [Z.eqb Pos.eqb].
    change (run true s 0 (S k2) FNestedName) with (dd_nested_name s 0 (run true s 0 k2)).
    unfold dd_nested_name.
    rewrite bind_eof. stsimpl. rwf (p >=? L). cbn [Z.eqb].
    unfold expect at 1. unfold consume.
    erewrite bind_R; [| apply (consume_n_at _ 1 (78 :: items ++ 69 :: rest)); [ exact H | reflexivity | cbn [List.length]; lia ] ].
    cbn [hd0]. chs. cbn [Z.eqb Pos.eqb]. stsimpl.
    unfold inc_level. rewrite bind_modify. stsimpl.
    apply At_cons in H. fold (G (p + 1) o (lv + 1) t tp fnm).
    erewrite bind_R; [| apply (IH k2 (p + 1) o (lv + 1) t tp fnm rest Ht H); lia ].
    apply At_app in H.
    unfold expect. unfold consume. unfold G at 1.
    erewrite bind_R; [| apply (consume_n_at _ 1 (69 :: rest)); [ exact H | reflexivity | cbn [List.length]; lia ] ].
    cbn [hd0]. chs. cbn [Z.eqb Pos.eqb]. stsimpl.
    unfold dec_level. rewrite bind_modify. unfold ret, G. stsimpl.
    replace (lv + 1 - 1) with lv by lia. f_equal. f_equal. cbn [List.length]. rewrite app_length. cbn [List.length]. lia.
  - (* S a | S b | S s | S i | S o | S d  [<targs>] *)
    intros c nm n ta Hc Hct Hta IH k p o lv t tp fnm rest Ht H [HfI HfB] Hk.
    destruct k as [| k]; [ lia |].
    change (run true s 0 (S k) (LType (-1))) with (type_loop true s 0 (run true s 0 k) (-1)).
    unfold type_loop. unfold G at 1. cbn [app] in H.
    pose proof (At_lt _ _ _ H). pose proof (abbrev_chars c nm Hc) as Hcr.
    rewrite bind_eof. stsimpl. rwf (p >=? L). cbn [Z.eqb].
    erewrite bind_R; [| apply (curr_at _ (83 :: c :: ta ++ rest)); [ exact H | reflexivity ] ].
    cbn [hd0]. sc_eval. chs. cbn [Z.eqb Pos.eqb].
    erewrite bind_R; [| apply (peek1_at _ 83 (c :: ta ++ rest)); [ exact H | reflexivity ] ].
    fold (G p o lv t tp fnm).
    assert (HB : hd0 (ta ++ rest) <> 66).
    { destruct (TA_hd n ta Hta) as [E1 | [r E1]]; subst ta; cbn [app hd0]; [ exact HfB | lia ]. }
    erewrite bind_R; [| apply (subst_abbr_skip p o lv t tp fnm c nm (ta ++ rest)); try assumption; lia ].
    assert (H2 : At (p + 2) (ta ++ rest)).
    { pose proof (At_cons _ _ _ (At_cons _ _ _ H)) as HH. replace (p + 1 + 1) with (p + 2) in HH by lia. exact HH. }
    unfold G at 1.
    erewrite bind_R; [| apply (curr_at _ (ta ++ rest)); [ exact H2 | reflexivity ] ].
    cbn [hd0 Z.eqb]. rwf (c =? 116). rewrite andb_false_r. cbn [andb]. rewrite bind_ret.
    fold (G (p + 2) o lv t tp fnm).
    rewrite (targs_cont n ta k _ o lv t tp fnm rest 0 Hta IH ltac:(lia) H2 HfI ltac:(lia) eq_refl).
    f_equal. unfold G. f_equal. cbn [List.length]. lia.
  - (* S t <source-name> [<targs>] *)
    intros id n ta Hid Hta IH k p o lv t tp fnm rest Ht H [HfI HfB] Hk.
    destruct k as [| k]; [ lia |].
    change (run true s 0 (S k) (LType (-1))) with (type_loop true s 0 (run true s 0 k) (-1)).
    unfold type_loop. unfold G at 1. cbn [app] in H. rewrite <- app_assoc in H.
    pose proof (At_lt _ _ _ H).
    rewrite bind_eof. stsimpl. rwf (p >=? L). cbn [Z.eqb].
    erewrite bind_R; [| apply (curr_at _ (83 :: 116 :: src id ++ ta ++ rest)); [ exact H | reflexivity ] ].
    cbn [hd0]. sc_eval. chs. cbn [Z.eqb Pos.eqb].
    erewrite bind_R; [| apply (peek1_at _ 83 (116 :: src id ++ ta ++ rest)); [ exact H | reflexivity ] ].
    fold (G p o lv t tp fnm).
    pose proof (src_hd_digit id (ta ++ rest) Hid) as Hd.
    erewrite bind_R; [| apply (subst_abbr_skip p o lv t tp fnm 116 (str "std") (src id ++ ta ++ rest)); try reflexivity; try assumption; lia ].
    assert (H2 : At (p + 2) (src id ++ ta ++ rest)).
    { pose proof (At_cons _ _ _ (At_cons _ _ _ H)) as HH. replace (p + 1 + 1) with (p + 2) in HH by lia. exact HH. }
    unfold G at 1.
    erewrite bind_R; [| apply (curr_at _ (src id ++ ta ++ rest)); [ exact H2 | reflexivity ] ].
    cbn [hd0 Z.eqb Pos.eqb andb]. unfold isdigit.
    rwt (48 <=? hd0 (src id ++ ta ++ rest)). rwt (hd0 (src id ++ ta ++ rest) <=? 57). cbn [andb].
    destruct k as [| k1]; [ lia |].
    fold (G (p + 2) o lv t tp fnm).
    assert (HB : hd0 (ta ++ rest) <> 66).
    { destruct (TA_hd n ta Hta) as [E1 | [r E1]]; subst ta; cbn [app hd0]; [ exact HfB | lia ]. }
    erewrite bind_R; [| apply (unq_skip k1 (p + 2) o lv t tp fnm id (ta ++ rest)); try assumption; lia ].
    rewrite (targs_cont n ta (S k1) _ o lv t tp fnm rest 0 Hta IH ltac:(lia) (At_src_tail _ _ _ H2) HfI ltac:(lia) eq_refl).
    f_equal. unfold G. f_equal. cbn [List.length]. rewrite app_length. lia.
  - (* no <targs> *)
    intros k p o lv t tp fnm rest Ht Hne. contradiction.
  - (* I <targ>* E *)
    intros n l Hl IH k p o lv t tp fnm rest Ht _ H Hk.
    destruct k as [| k]; [ lia |].
    change (run true s 0 (S k) FTemplateArgs) with (dd_template_args s 0 (run true s 0 k)).
    unfold dd_template_args. unfold G at 1. cbn [app] in H. rewrite <- app_assoc in H. cbn [app] in H.
    pose proof (At_lt _ _ _ H).
    rewrite bind_eof. stsimpl. rwf (p >=? L). cbn [Z.eqb].
    unfold expect at 1. unfold consume.
    erewrite bind_R; [| apply (consume_n_at _ 1 (73 :: l ++ 69 :: rest)); [ exact H | reflexivity | cbn [List.length]; lia ] ].
    cbn [hd0]. chs. cbn [Z.eqb Pos.eqb]. stsimpl.
    unfold inc_templates, inc_level. rewrite !bind_modify. stsimpl.
    fold (G (p + 1) o (lv + 1) t (tp + 1) fnm).
    apply At_cons in H.
    erewrite bind_R; [| apply (IH k (p + 1) o (lv + 1) t (tp + 1) fnm rest Ht H); lia ].
    cbn [Z.ltb Z.compare].
    apply At_app in H.
    unfold expect. unfold consume. unfold G at 1.
    erewrite bind_R; [| apply (consume_n_at _ 1 (69 :: rest)); [ exact H | reflexivity | cbn [List.length]; lia ] ].
    cbn [hd0]. chs. cbn [Z.eqb Pos.eqb]. stsimpl.
    unfold dec_level, dec_templates. rewrite !bind_modify. unfold ret, G. stsimpl.
    replace (lv + 1 - 1) with lv by lia. replace (tp + 1 - 1) with tp by lia.
    f_equal. f_equal. cbn [List.length]. rewrite app_length. cbn [List.length]. lia.
  - (* end of the argument list *)
    intros k p o lv t tp fnm rest Ht H Hk.
    destruct k as [| k]; [ lia |].
    cbn [run body]. unfold until_E. unfold G at 1. cbn [app] in H.
    erewrite bind_R; [| apply (curr_at _ (69 :: rest)); [ exact H | reflexivity ] ].
    cbn [hd0 List.length]. chs. cbn [Z.eqb Pos.eqb]. replace (p + Z.of_nat 0) with p by lia. reflexivity.
  - (* a type argument *)
    intros n m u l Hu IHu Hl IHl k p o lv t tp fnm rest Ht H Hk.
    destruct k as [| k]; [ lia |].
    cbn [run body]. unfold until_E. unfold G at 1. rewrite <- app_assoc in H.
    pose proof (TyL_hd n u Hu (l ++ 69 :: rest)) as Hh.
    destruct (tyhd_facts _ Hh) as [Fe [FI FB]].
    assert (Hne : hd0 (u ++ l ++ 69 :: rest) <> 69).
    { intros E. rewrite E in Fe. discriminate. }
    assert (Hlt : p < L).
    { destruct (u ++ l ++ 69 :: rest) as [| c r] eqn:E; [ discriminate |]. apply (At_lt _ _ _ H). }
    erewrite bind_R; [| apply (curr_at _ (u ++ l ++ 69 :: rest)); [ exact H | reflexivity ] ].
    chs. rwf (hd0 (u ++ l ++ 69 :: rest) =? 69).
    (* dd_template_arg -> dd_type *)
    assert (Harg : run true s 0 k FTemplateArg (G p o lv t tp fnm) = R 0 (G (p + Z.of_nat (List.length u)) o lv t tp fnm)).
    { destruct k as [| k1]; [ lia |]. destruct k1 as [| k2]; [ lia |].
      change (run true s 0 (S (S k2)) FTemplateArg) with (dd_template_arg s 0 (run true s 0 (S k2))).
      unfold dd_template_arg. unfold G at 1.
      erewrite bind_R; [| apply (curr_at _ (u ++ l ++ 69 :: rest)); [ exact H | reflexivity ] ].
      rewrite bind_eof. stsimpl. rwf (p >=? L). cbn [Z.eqb]. chs.
      assert (Hx : (hd0 (u ++ l ++ 69 :: rest) =? 88) = false /\ (hd0 (u ++ l ++ 69 :: rest) =? 76) = false /\
                   (hd0 (u ++ l ++ 69 :: rest) =? 74) = false).
      { clear - Hh. unfold tyhd, tyqual_okb, is_builtin in Hh. cbn in Hh.
        repeat (apply orb_prop in Hh; destruct Hh as [Hh | Hh]); try discriminate;
          try (apply Z.eqb_eq in Hh; rewrite Hh; repeat split; reflexivity).
        unfold isdigit in Hh. repeat split; lia. }
      destruct Hx as [X1 [X2 X3]]. rewrite X1, X2, X3.
      fold (G p o lv t tp fnm).
      erewrite bind_R; [| apply (type_wrap n u IHu (TyL_nonempty n u Hu) (S k2) p o lv t tp fnm (l ++ 69 :: rest) Ht H (proj1 (TAL_hd m l Hl rest))); lia ].
      reflexivity. }
    fold (G p o lv t tp fnm). erewrite bind_R; [| exact Harg ].
    cbn [Z.ltb Z.compare].
    rewrite (IHl k _ o lv t tp fnm rest Ht (At_app _ _ _ H) ltac:(lia)).
    f_equal. unfold G. f_equal. rewrite app_length. lia.
  - (* a literal argument  L <builtin> <number> E *)
    intros c v m l Hc Hv Hl IHl k p o lv t tp fnm rest Ht H Hk.
    destruct k as [| k]; [ lia |].
    cbn [run body]. unfold until_E. unfold G at 1. cbn [app] in H. rewrite <- app_assoc in H. cbn [app] in H.
    pose proof (At_lt _ _ _ H) as Hlt.
    erewrite bind_R; [| apply (curr_at _ (76 :: c :: dec v ++ 69 :: l ++ 69 :: rest)); [ exact H | reflexivity ] ].
    cbn [hd0]. chs. cbn [Z.eqb Pos.eqb].
    pose proof (At_cons _ _ _ H) as H1. pose proof (At_cons _ _ _ H1) as H2.
    replace (p + 1 + 1) with (p + 2) in H2 by lia.
    pose proof (At_app _ _ _ H2) as H3.
    pose proof (At_lt _ _ _ H1) as Hlt1. pose proof (At_lt _ _ _ H3) as Hlt3.
    destruct (hd0_dec_digit v (69 :: l ++ 69 :: rest) Hv) as [Hdg Hdne].
    assert (Harg : run true s 0 k FTemplateArg (G p o lv t tp fnm) =
                   R 0 (G (p + 2 + Z.of_nat (List.length (dec v)) + 1) o lv t tp fnm)).
    { destruct k as [| k1]; [ lia |]. destruct k1 as [| k2]; [ lia |].
      change (run true s 0 (S (S k2)) FTemplateArg) with (dd_template_arg s 0 (run true s 0 (S k2))).
      unfold dd_template_arg. unfold G at 1.
      erewrite bind_R; [| apply (curr_at _ (76 :: c :: dec v ++ 69 :: l ++ 69 :: rest)); [ exact H | reflexivity ] ].
      rewrite bind_eof. stsimpl. rwf (p >=? L). cbn [hd0 Z.eqb]. chs. cbn [Z.eqb Pos.eqb].
      fold (G p o lv t tp fnm).
      assert (Hep : run true s 0 (S k2) FExprPrimary (G p o lv t tp fnm) =
                    R 0 (G (p + 2 + Z.of_nat (List.length (dec v)) + 1) o lv t tp fnm)).
      2:{ erewrite bind_R; [| exact Hep ]. reflexivity. }
      change (run true s 0 (S k2) FExprPrimary) with (dd_expr_primary s 0 (run true s 0 k2)).
      unfold dd_expr_primary. unfold G at 1.
      rewrite bind_eof. stsimpl. rwf (p >=? L). cbn [Z.eqb].
      unfold expect at 1. unfold consume.
      erewrite bind_R; [| apply (consume_n_at _ 1 (76 :: c :: dec v ++ 69 :: l ++ 69 :: rest)); [ exact H | reflexivity | cbn [List.length]; lia ] ].
      cbn [hd0]. chs. cbn [Z.eqb Pos.eqb]. stsimpl.
      unfold inc_typ, inc_level. rewrite !bind_modify. stsimpl.
      erewrite bind_R; [| apply (curr_at _ (c :: dec v ++ 69 :: l ++ 69 :: rest)); [ exact H1 | reflexivity ] ].
      erewrite bind_R; [| apply (peek1_at _ c (dec v ++ 69 :: l ++ 69 :: rest)); [ exact H1 | reflexivity ] ].
      cbn [hd0]. pose proof (builtin_lower c Hc) as Hlow. chs. rwf (c =? 95). cbn [andb].
      fold (G (p + 1) o (lv + 1) (t + 1) tp fnm).
      erewrite bind_R.
      2:{ apply (type_wrap 1 [c] (P_builtin c Hc) ltac:(discriminate) k2 (p + 1) o (lv + 1) (t + 1) tp fnm
                   (dec v ++ 69 :: l ++ 69 :: rest)); [ lia | exact H1 | | lia ].
          apply isdigit_range in Hdg. split; lia. }
      cbn [List.length]. replace (p + 1 + Z.of_nat 1) with (p + 2) by lia.
      unfold G at 1.
      destruct (number_lit_at (mkst (p + 2) L o (t + 1) (lv + 1) tp false fnm false false) v (l ++ 69 :: rest) H2 eq_refl Hv) as [rv Hnum].
      erewrite bind_R; [| exact Hnum ].
      stsimpl.
      erewrite bind_R; [| apply (curr_at _ (69 :: l ++ 69 :: rest)); [ exact H3 | reflexivity ] ].
      cbn [hd0]. chs. cbn [Z.eqb Pos.eqb]. rewrite bind_ret_k.
      unfold expect. unfold consume.
      erewrite bind_R; [| apply (consume_n_at _ 1 (69 :: l ++ 69 :: rest)); [ exact H3 | reflexivity | cbn [List.length]; lia ] ].
      cbn [hd0]. chs. cbn [Z.eqb Pos.eqb]. stsimpl.
      unfold dec_level, dec_typ. rewrite !bind_modify. unfold ret, G. stsimpl.
      replace (t + 1 - 1) with t by lia. replace (lv + 1 - 1) with lv by lia. reflexivity. }
    fold (G p o lv t tp fnm). erewrite bind_R; [| exact Harg ].
    cbn [Z.ltb Z.compare].
    rewrite (IHl k _ o lv t tp fnm rest Ht (At_cons _ _ _ H3) ltac:(lia)).
    f_equal. unfold G. f_equal. cbn [List.length]. repeat rewrite app_length. cbn [List.length]. lia.
  - (* end of a nested name *)
    intros k p o lv t tp fnm rest Ht H Hk.
    destruct k as [| k]; [ lia |].
    cbn [run body]. unfold nested_loop, G. cbn [app] in H.
    erewrite bind_R; [| apply (curr_at _ (69 :: rest)); [ exact H | reflexivity ] ].
    rewrite bind_eof. stsimpl. pose proof (At_lt _ _ _ H). rwf (p >=? L). cbn [hd0 List.length]. chs.
    replace (p + Z.of_nat 0) with p by lia. reflexivity.
  - (* <source-name> [<targs>] in a nested name *)
    intros id n ta m l Hid Hta IHa Hl IHl k p o lv t tp fnm rest Ht H Hk.
    destruct k as [| k]; [ lia |]. destruct k as [| k1]; [ lia |].
    change (run true s 0 (S (S k1)) (LNested 0)) with (nested_loop true s 0 (run true s 0 (S k1)) 0).
    unfold nested_loop. rewrite <- !app_assoc in H.
    set (tail := ta ++ l ++ 69 :: rest) in *.
    pose proof (src_hd_digit id tail Hid) as Hd.
    destruct (src id ++ tail) as [| d tl] eqn:E.
    { exfalso. unfold src in E. destruct (hd0_dec_digit _ (id ++ tail) (ident_len id Hid)) as [_ Hne].
      rewrite <- app_assoc in E. destruct (dec (Z.of_nat (List.length id))); [ contradiction | discriminate ]. }
    cbn [hd0] in Hd. unfold G at 1.
    erewrite bind_R; [| apply (curr_at _ (d :: tl)); [ exact H | reflexivity ] ].
    rewrite bind_eof. stsimpl. pose proof (At_lt _ _ _ H) as Hlt. rwf (p >=? L). cbn [hd0]. chs. cbn [Z.eqb].
    rwf (d =? 69). cbn [orb negb].
    erewrite bind_R; [| apply (peek1_at _ d tl); [ exact H | reflexivity ] ].
    rwf (d =? 68). rwf (d =? 67). cbn [andb orb]. rwf (d =? 85). cbn [orb].
    unfold islower, isdigit. rwf (97 <=? d). rwt (48 <=? d). rwt (d <=? 57). cbn [andb orb].
    rewrite <- E in H. fold (G p o lv t tp fnm).
    pose proof (NI_hd m l Hl rest) as Hh.
    assert (HB : hd0 tail <> 66).
    { unfold tail. destruct (TA_hd n ta Hta) as [E1 | [r E1]]; subst ta; cbn [app hd0]; [| lia ].
      cbn zeta in Hh. lia. }
    erewrite bind_R; [| apply (unq_skip k1 p o lv t tp fnm id tail); try assumption; lia ].
    rewrite (ni_cont n ta m l (S k1) _ o lv t tp fnm rest Hta IHa IHl Ht (At_src_tail _ _ _ H) Hh ltac:(lia)).
    f_equal. unfold G. f_equal. repeat rewrite app_length. lia.
  - (* S <seq-id> _ [<targs>] in a nested name *)
    intros seq n ta m l Hs Hta IHa Hl IHl k p o lv t tp fnm rest Ht H Hk.
    destruct k as [| k]; [ lia |]. destruct k as [| k1]; [ lia |].
    change (run true s 0 (S (S k1)) (LNested 0)) with (nested_loop true s 0 (run true s 0 (S k1)) 0).
    unfold nested_loop. cbn [app] in H. rewrite <- !app_assoc in H. cbn [app] in H. rewrite <- app_assoc in H.
    set (tail := ta ++ l ++ 69 :: rest) in *.
    unfold G at 1.
    erewrite bind_R; [| apply (curr_at _ (83 :: seq ++ 95 :: tail)); [ exact H | reflexivity ] ].
    rewrite bind_eof. stsimpl. pose proof (At_lt _ _ _ H) as Hlt. rwf (p >=? L). cbn [hd0]. chs.
    cbn [Z.eqb Pos.eqb orb negb].
    erewrite bind_R; [| apply (peek1_at _ 83 (seq ++ 95 :: tail)); [ exact H | reflexivity ] ].
    cbn [andb orb]. unfold islower, isdigit. cbn [Z.leb Z.compare Pos.compare Pos.compare_cont andb orb].
    fold (G p o lv t tp fnm).
    erewrite bind_R; [| apply (subst_seq_at p o lv t tp fnm seq tail); assumption ].
    assert (H2 : At (p + Z.of_nat (List.length seq) + 2) tail).
    { replace (p + Z.of_nat (List.length seq) + 2) with (p + Z.of_nat (List.length (83 :: seq ++ [95])))
        by (cbn [List.length]; rewrite app_length; cbn [List.length]; lia).
      apply At_app. cbn [app]. rewrite <- app_assoc. exact H. }
    rewrite (ni_cont n ta m l (S k1) _ o lv t tp fnm rest Hta IHa IHl Ht H2 (NI_hd m l Hl rest) ltac:(lia)).
    f_equal. unfold G. f_equal. cbn [List.length]. repeat rewrite app_length. cbn [List.length]. repeat rewrite app_length. lia.
  - (* S t | S a ... [<targs>] in a nested name *)
    intros c nm n ta m l Hc Hta IHa Hl IHl k p o lv t tp fnm rest Ht H Hk.
    destruct k as [| k]; [ lia |]. destruct k as [| k1]; [ lia |].
    change (run true s 0 (S (S k1)) (LNested 0)) with (nested_loop true s 0 (run true s 0 (S k1)) 0).
    unfold nested_loop. cbn [app] in H. rewrite <- app_assoc in H.
    set (tail := ta ++ l ++ 69 :: rest) in *.
    unfold G at 1.
    erewrite bind_R; [| apply (curr_at _ (83 :: c :: tail)); [ exact H | reflexivity ] ].
    rewrite bind_eof. stsimpl. pose proof (At_lt _ _ _ H) as Hlt. rwf (p >=? L). cbn [hd0]. chs.
    cbn [Z.eqb Pos.eqb orb negb].
    erewrite bind_R; [| apply (peek1_at _ 83 (c :: tail)); [ exact H | reflexivity ] ].
    cbn [andb orb]. unfold islower, isdigit. cbn [Z.leb Z.compare Pos.compare Pos.compare_cont andb orb].
    fold (G p o lv t tp fnm).
    pose proof (NI_hd m l Hl rest) as Hh.
    assert (HB : hd0 tail <> 66).
    { unfold tail. destruct (TA_hd n ta Hta) as [E1 | [r E1]]; subst ta; cbn [app hd0]; [| lia ]. cbn zeta in Hh. lia. }
    erewrite bind_R; [| apply (subst_abbr_skip p o lv t tp fnm c nm tail); try assumption; lia ].
    assert (H2 : At (p + 2) tail).
    { pose proof (At_cons _ _ _ (At_cons _ _ _ H)) as HH. replace (p + 1 + 1) with (p + 2) in HH by lia. exact HH. }
    rewrite (ni_cont n ta m l (S k1) _ o lv t tp fnm rest Hta IHa IHl Ht H2 Hh ltac:(lia)).
    f_equal. unfold G. f_equal. cbn [List.length]. repeat rewrite app_length. lia.
Qed.

(* ---- size and alphabet of grammar strings *)
Lemma no_dollar_seq : forall seq, forallb seqchar seq = true -> no_dollar seq.
Proof.
  intros seq H. rewrite forallb_forall in H. apply Forall_forall. intros x Hx. specialize (H x Hx).
  unfold seqchar, isdigit, isupper in H. lia.
Qed.
Lemma dec_len1 : forall v, 0 < v < 1000000000 -> (1 <= List.length (dec v))%nat.
Proof.
  intros v Hv. destruct (dec_spec v Hv) as [ds [E1 [_ [_ [E4 _]]]]]. rewrite E1. destruct ds; [ contradiction | cbn; lia ].
Qed.
Lemma src_len2 : forall id, ident_okb id = true -> (2 <= List.length (src id))%nat.
Proof.
  intros id H. pose proof (ident_len id H). pose proof (dec_len1 _ H0). unfold src. rewrite app_length. lia.
Qed.
Lemma grammar_cost :
  (forall n u, TyL n u -> (n + 3 <= 6 * List.length u)%nat) /\ (forall n ta, TA n ta -> (n <= 6 * List.length ta)%nat) /\
  (forall n l, TAL n l -> (n <= 6 * List.length l + 1)%nat) /\ (forall n l, NI n l -> (n <= 6 * List.length l + 1)%nat).
Proof.
  apply grammar_ind; intros; cbn [List.length] in *; repeat rewrite app_length in *; cbn [List.length] in *;
    repeat rewrite app_length in *; cbn [List.length] in *;
    try match goal with X : ident_okb ?id = true |- _ => pose proof (src_len2 id X) end;
    try match goal with X : 0 < ?v < 1000000000 |- _ => pose proof (dec_len1 v X) end; lia.
Qed.
Lemma grammar_no_dollar :
  (forall n u, TyL n u -> no_dollar u) /\ (forall n ta, TA n ta -> no_dollar ta) /\
  (forall n l, TAL n l -> no_dollar l) /\ (forall n l, NI n l -> no_dollar l).
Proof.
  apply grammar_ind; intros; unfold no_dollar in *.
  - constructor; [| constructor ]. destruct (builtin_facts c H) as [_ [_ [_ [_ [_ [_ [_ [_ [_ [_ [_ [_ [_ F]]]]]]]]]]]]]. exact F.
  - constructor; [| assumption ]. unfold tyqual_okb in H. cbn in H.
    repeat (apply orb_prop in H; destruct H as [H | H]); try discriminate; apply Z.eqb_eq in H; lia.
  - constructor; [ lia |]. apply Forall_app. split; [ apply no_dollar_seq; assumption |]. constructor; [ lia | assumption ].
  - apply Forall_app. split; [ apply no_dollar_src; assumption | assumption ].
  - constructor; [ lia |]. apply Forall_app. split; [ assumption | repeat constructor; lia ].
  - constructor; [ lia |]. constructor; [ pose proof (abbrev_chars c nm H); lia | assumption ].
  - constructor; [ lia |]. constructor; [ lia |]. apply Forall_app. split; [ apply no_dollar_src; assumption | assumption ].
  - constructor.
  - constructor; [ lia |]. apply Forall_app. split; [ assumption | repeat constructor; lia ].
  - constructor.
  - apply Forall_app. split; assumption.
  - constructor; [ lia |]. constructor.
    { destruct (builtin_facts c H) as [_ [_ [_ [_ [_ [_ [_ [_ [_ [_ [_ [_ [_ F]]]]]]]]]]]]]. exact F. }
    apply Forall_app. split.
    { destruct (dec_spec v H0) as [ds [E1 [E2 _]]]. rewrite E1. apply no_dollar_digits. exact E2. }
    constructor; [ lia | assumption ].
  - constructor.
  - apply Forall_app. split; [ apply no_dollar_src; assumption |]. apply Forall_app. split; assumption.
  - constructor; [ lia |]. apply Forall_app. split; [ apply no_dollar_seq; assumption |].
    constructor; [ lia |]. apply Forall_app. split; assumption.
  - constructor; [ lia |]. constructor; [ pose proof (abbrev_chars c nm H); lia |]. apply Forall_app. split; assumption.
Qed.

(* ---- parameter list: <type>* up to the end of the string *)
Inductive PTys : nat -> list Z -> Prop :=
| PT_nil : PTys 1 []
| PT_cons : forall n m u l, TyL n u -> PTys m l -> PTys (n + m + 3) (u ++ l).

Lemma PTys_follow : forall m l, PTys m l -> follow_ok l.
Proof.
  intros m l H. destruct H as [| n m u l Hu Hl ]; [ unfold follow_ok; cbn; split; discriminate |].
  destruct (tyhd_facts _ (TyL_hd n u Hu l)) as [_ [A B]]. split; assumption.
Qed.

Lemma enc_types_g : forall m l, PTys m l -> forall k p x, At p l -> (m <= k)%nat ->
  run true s 0 k LEncTypes (NS p (Some x) 1 false) = R 0 (NS (p + Z.of_nat (List.length l)) (Some x) 1 false).
Proof.
  intros m l H. induction H as [| n m u l Hu Hl IH ]; intros k p x H Hk.
  - destruct k as [| k]; [ lia |].
    cbn [List.length]. cbn [run body]. unfold enc_types_loop, NS.
    rewrite bind_eof. stsimpl. destruct H as [H0 [H1 H2]]. cbn [List.length] in H2.
    rwt (p >=? L).
    erewrite bind_R; [| apply (curr_at _ []); [ split; [ exact H0 | split; [ exact H1 | exact H2 ] ] | reflexivity ] ].
    cbn [Z.eqb orb]. replace (p + Z.of_nat 0) with p by lia. reflexivity.
  - destruct k as [| k]; [ lia |].
    cbn [run body]. unfold enc_types_loop. unfold NS at 1.
    destruct (tyhd_facts _ (TyL_hd n u Hu l)) as [Fe _].
    assert (Hlt : p < L).
    { pose proof (TyL_nonempty n u Hu). destruct u as [| c r]; [ contradiction |]. cbn [app] in H. apply (At_lt _ _ _ H). }
    rewrite bind_eof. stsimpl. rwf (p >=? L).
    erewrite bind_R; [| apply (curr_at _ (u ++ l)); [ exact H | reflexivity ] ].
    cbn [Z.eqb orb]. rewrite Fe.
    change (mkst p L (Some x) 0 1 0 false false false false) with (G p (Some x) 1 0 0 false).
    erewrite bind_R; [| apply (type_wrap n u (proj1 grammar_walk n u Hu) (TyL_nonempty n u Hu) k p (Some x) 1 0 0 false l);
                        [ lia | exact H | exact (PTys_follow m l Hl) | lia ] ].
    cbn [Z.ltb Z.compare].
    change (G (p + Z.of_nat (List.length u)) (Some x) 1 0 0 false) with (NS (p + Z.of_nat (List.length u)) (Some x) 1 false).
    rewrite (IH k _ x (At_app _ _ _ H) ltac:(lia)).
    f_equal. unfold NS. f_equal. rewrite app_length. lia.
Qed.

(* ---- the function's own name: (<source-name> [<targs>])+ with general template arguments *)
Inductive Comps : nat -> list (list Z) -> list Z -> Prop :=
| CP_nil : Comps 0 [] []
| CP_cons : forall id n ta m ids l, ident_okb id = true -> TA n ta -> Comps m ids l ->
            Comps (n + m + 3) (id :: ids) (src id ++ ta ++ l)
| CP_abbr : forall c nm n ta m ids l, find_abbrev std_abbrevs c = Some nm -> TA n ta -> Comps m ids l ->
            Comps (n + m + 3) (nm :: ids) (83 :: c :: ta ++ l).

Lemma Comps_hd : forall m ids l, Comps m ids l -> forall rest, hd0 rest <> 66 -> hd0 (l ++ rest) <> 66.
Proof.
  intros m ids l H rest Hr. destruct H as [| id n ta m ids l Hid Hta Hl | c nm n ta m ids l Hc Hta Hl ]; [ exact Hr | | cbn; lia ].
  rewrite <- !app_assoc. pose proof (src_hd_digit id (ta ++ l ++ rest) Hid). lia.
Qed.
Lemma Comps_no_dollar : forall m ids l, Comps m ids l -> no_dollar l.
Proof.
  intros m ids l H. induction H; [ constructor | |].
  - apply Forall_app. split; [ apply no_dollar_src; assumption |]. apply Forall_app. split; [| assumption ].
    apply (proj1 (proj2 grammar_no_dollar) n ta). assumption.
  - constructor; [ lia |]. constructor; [ pose proof (abbrev_chars c nm H); lia |].
    apply Forall_app. split; [| assumption ]. apply (proj1 (proj2 grammar_no_dollar) n ta). assumption.
Qed.
Lemma Comps_cost : forall m ids l, Comps m ids l -> (m <= 6 * List.length l)%nat.
Proof.
  intros m ids l H. induction H; [ cbn; lia | |].
  - repeat rewrite app_length. pose proof (proj1 (proj2 grammar_cost) n ta H0). pose proof (ident_len id H).
    assert (1 <= List.length (src id))%nat by (unfold src; rewrite app_length; lia). lia.
  - cbn [List.length]. rewrite app_length. pose proof (proj1 (proj2 grammar_cost) n ta H0). lia.
Qed.

Lemma nested_gcomps : forall m ids enc, Comps m ids enc -> forall l k p o lv fnm rest x,
  At p (enc ++ last_enc l ++ 69 :: rest) -> last_okb l = true ->
  no_dollar (enc ++ last_enc l ++ 69 :: rest) -> L <= INT_MAX ->
  out_after o fnm ids = Some x -> fnm_after fnm ids = false -> (m + 3 <= k)%nat ->
  run true s 0 k (LNested 0) (NS p o lv fnm) =
  R 0 (NS (p + Z.of_nat (List.length enc) + Z.of_nat (List.length (last_enc l))) (Some (last_out x l)) lv false).
Proof.
  intros m ids enc H. induction H as [| id n ta m ids enc Hid Hta Hc IH | c nm n ta m ids enc Hcn Hta Hc IH ];
    intros l k p o lv fnm rest x H Hl Hnd HL Hout Hfnm Hk.
  - cbn [app List.length out_after fnm_after] in *. subst o fnm. replace (p + Z.of_nat 0) with p by lia.
    destruct k as [| [| [| k]]]; try lia.
    apply (nested_end l k p x lv rest H Hl).
  - rewrite <- !app_assoc in H, Hnd.
    set (tail := enc ++ last_enc l ++ 69 :: rest) in *.
    assert (HlastB : hd0 (last_enc l ++ 69 :: rest) <> 66).
    { destruct l as [| kd | kd | c0 c1]; cbn [last_enc app hd0]; try lia.
      cbn [last_okb] in Hl. apply andb_prop in Hl. destruct Hl as [Hl _]. apply andb_prop in Hl. destruct Hl as [Hl _].
      unfold op_okb in Hl. apply andb_prop in Hl. destruct Hl as [Hl _]. apply andb_prop in Hl. destruct Hl as [Hl _].
      unfold islower in Hl. lia. }
    assert (HtailB : hd0 tail <> 66) by (apply (Comps_hd m ids enc Hc); exact HlastB).
    destruct k as [| k1]; [ lia |]. destruct k1 as [| k2]; [ lia |].
    change (run true s 0 (S (S k2)) (LNested 0)) with (nested_loop true s 0 (run true s 0 (S k2)) 0).
    unfold nested_loop.
    pose proof (src_hd_digit id (ta ++ tail) Hid) as Hd.
    destruct (src id ++ ta ++ tail) as [| d tl] eqn:E.
    { exfalso. unfold src in E. destruct (hd0_dec_digit _ (id ++ ta ++ tail) (ident_len id Hid)) as [_ Hne].
      rewrite <- app_assoc in E. destruct (dec (Z.of_nat (List.length id))); [ contradiction | discriminate ]. }
    cbn [hd0] in Hd. unfold NS at 1.
    erewrite bind_R; [| apply (curr_at _ (d :: tl)); [ exact H | reflexivity ] ].
    rewrite bind_eof. stsimpl. pose proof (At_lt _ _ _ H) as Hlt. rwf (p >=? L). cbn [hd0]. chs. cbn [Z.eqb].
    rwf (d =? 69). cbn [orb negb].
    erewrite bind_R; [| apply (peek1_at _ d tl); [ exact H | reflexivity ] ].
    rwf (d =? 68). rwf (d =? 67). cbn [andb orb]. rwf (d =? 85). cbn [orb].
    unfold islower, isdigit. rwf (97 <=? d). rwt (48 <=? d). rwt (d <=? 57). cbn [andb orb].
    rewrite <- E in H, Hnd.
    assert (Hnd2 : no_dollar (id ++ ta ++ tail)).
    { unfold src in Hnd. rewrite <- app_assoc in Hnd. eapply no_dollar_app_r. exact Hnd. }
    assert (HB2 : hd0 (ta ++ tail) <> 66).
    { destruct (TA_hd n ta Hta) as [E1 | [r E1]]; subst ta; cbn [app hd0]; [ exact HtailB | lia ]. }
    fold (NS p o lv fnm).
    erewrite bind_R; [| apply (unq_src k2 p o lv fnm id (ta ++ tail)); assumption ].
    apply At_src_tail in H.
    cbn [out_after fnm_after] in Hout, Hfnm.
    set (p1 := p + Z.of_nat (List.length (src id))) in *.
    set (o1 := add_out (sep_out o fnm) id) in *.
    assert (Hrest : forall kk pp, At pp tail -> (m + 3 <= kk)%nat ->
              run true s 0 kk (LNested 0) (NS pp o1 lv false) =
              R 0 (NS (pp + Z.of_nat (List.length enc) + Z.of_nat (List.length (last_enc l))) (Some (last_out x l)) lv false)).
    { intros kk pp Hpp Hkk. apply (IH l kk pp o1 lv false rest x); try assumption.
      - eapply no_dollar_app_r. eapply no_dollar_app_r. exact Hnd.
      - destruct ids; reflexivity. }
    destruct (TA_hd n ta Hta) as [E1 | [r E1]]; subst ta.
    + cbn [app List.length] in *. rewrite (Hrest (S k2) p1 H ltac:(lia)).
      f_equal. unfold NS. f_equal. rewrite app_length. unfold p1. lia.
    + change (run true s 0 (S k2) (LNested 0)) with (nested_loop true s 0 (run true s 0 k2) 0).
      unfold nested_loop. unfold NS at 1. cbn [app] in H.
      erewrite bind_R; [| apply (curr_at _ (73 :: r ++ tail)); [ exact H | reflexivity ] ].
      rewrite bind_eof. stsimpl. pose proof (At_lt _ _ _ H) as Hlt1. rwf (p1 >=? L). cbn [hd0]. chs.
      cbn [Z.eqb Pos.eqb orb negb].
      erewrite bind_R; [| apply (peek1_at _ 73 (r ++ tail)); [ exact H | reflexivity ] ].
      cbn [andb orb]. unfold islower, isdigit. cbn [Z.leb Z.compare Pos.compare Pos.compare_cont andb orb].
      change (mkst p1 L o1 0 lv 0 false false false false) with (G p1 o1 lv 0 0 false).
      change (73 :: r ++ tail) with ((73 :: r) ++ tail) in H.
      erewrite bind_R; [| apply (proj1 (proj2 grammar_walk) n (73 :: r) Hta k2 p1 o1 lv 0 0 false tail); [ lia | discriminate | exact H | lia ] ].
      change (G (p1 + Z.of_nat (List.length (73 :: r))) o1 lv 0 0 false) with (NS (p1 + Z.of_nat (List.length (73 :: r))) o1 lv false).
      rewrite (Hrest k2 _ (At_app _ _ _ H) ltac:(lia)).
      f_equal. unfold NS. f_equal. repeat rewrite app_length. unfold p1. cbn [List.length]. lia.
  - (* a std abbreviation as component *)
    cbn [app] in H, Hnd. rewrite <- !app_assoc in H, Hnd.
    set (tail := enc ++ last_enc l ++ 69 :: rest) in *.
    assert (HlastB : hd0 (last_enc l ++ 69 :: rest) <> 66).
    { destruct l as [| kd | kd | c0 c1]; cbn [last_enc app hd0]; try lia.
      cbn [last_okb] in Hl. apply andb_prop in Hl. destruct Hl as [Hl _]. apply andb_prop in Hl. destruct Hl as [Hl _].
      unfold op_okb in Hl. apply andb_prop in Hl. destruct Hl as [Hl _]. apply andb_prop in Hl. destruct Hl as [Hl _].
      unfold islower in Hl. lia. }
    assert (HtailB : hd0 tail <> 66) by (apply (Comps_hd m ids enc Hc); exact HlastB).
    destruct k as [| k1]; [ lia |]. destruct k1 as [| k2]; [ lia |].
    change (run true s 0 (S (S k2)) (LNested 0)) with (nested_loop true s 0 (run true s 0 (S k2)) 0).
    unfold nested_loop. unfold NS at 1.
    erewrite bind_R; [| apply (curr_at _ (83 :: c :: ta ++ tail)); [ exact H | reflexivity ] ].
    rewrite bind_eof. stsimpl. pose proof (At_lt _ _ _ H) as Hlt. rwf (p >=? L). cbn [hd0]. chs.
    cbn [Z.eqb Pos.eqb orb negb].
    erewrite bind_R; [| apply (peek1_at _ 83 (c :: ta ++ tail)); [ exact H | reflexivity ] ].
    cbn [andb orb]. unfold islower, isdigit. cbn [Z.leb Z.compare Pos.compare Pos.compare_cont andb orb].
    assert (HB2 : hd0 (ta ++ tail) <> 66).
    { destruct (TA_hd n ta Hta) as [E1 | [r E1]]; subst ta; cbn [app hd0]; [ exact HtailB | lia ]. }
    fold (NS p o lv fnm).
    erewrite bind_R; [| apply (subst_abbr_at p o lv fnm c nm (ta ++ tail)); assumption ].
    pose proof (At_cons _ _ _ (At_cons _ _ _ H)) as H2. replace (p + 1 + 1) with (p + 2) in H2 by lia.
    cbn [out_after fnm_after] in Hout, Hfnm.
    set (p1 := p + 2) in *.
    set (o1 := add_out (sep_out o fnm) nm) in *.
    assert (Hrest : forall kk pp, At pp tail -> (m + 3 <= kk)%nat ->
              run true s 0 kk (LNested 0) (NS pp o1 lv false) =
              R 0 (NS (pp + Z.of_nat (List.length enc) + Z.of_nat (List.length (last_enc l))) (Some (last_out x l)) lv false)).
    { intros kk pp Hpp Hkk. apply (IH l kk pp o1 lv false rest x); try assumption.
      - eapply no_dollar_app_r. inversion Hnd as [| ? ? _ Hnd1 ]; subst. inversion Hnd1 as [| ? ? _ Hnd2 ]; subst. exact Hnd2.
      - destruct ids; reflexivity. }
    destruct (TA_hd n ta Hta) as [E1 | [r E1]]; subst ta.
    + cbn [app List.length] in *. rewrite (Hrest (S k2) p1 H2 ltac:(lia)).
      f_equal. unfold NS. f_equal. unfold p1. lia.
    + change (run true s 0 (S k2) (LNested 0)) with (nested_loop true s 0 (run true s 0 k2) 0).
      unfold nested_loop. unfold NS at 1. cbn [app] in H2.
      erewrite bind_R; [| apply (curr_at _ (73 :: r ++ tail)); [ exact H2 | reflexivity ] ].
      rewrite bind_eof. stsimpl. pose proof (At_lt _ _ _ H2) as Hlt1. rwf (p1 >=? L). cbn [hd0]. chs.
      cbn [Z.eqb Pos.eqb orb negb].
      erewrite bind_R; [| apply (peek1_at _ 73 (r ++ tail)); [ exact H2 | reflexivity ] ].
      cbn [andb orb]. unfold islower, isdigit. cbn [Z.leb Z.compare Pos.compare Pos.compare_cont andb orb].
      change (mkst p1 L o1 0 lv 0 false false false false) with (G p1 o1 lv 0 0 false).
      change (73 :: r ++ tail) with ((73 :: r) ++ tail) in H2.
      erewrite bind_R; [| apply (proj1 (proj2 grammar_walk) n (73 :: r) Hta k2 p1 o1 lv 0 0 false tail); [ lia | discriminate | exact H2 | lia ] ].
      change (G (p1 + Z.of_nat (List.length (73 :: r))) o1 lv 0 0 false) with (NS (p1 + Z.of_nat (List.length (73 :: r))) o1 lv false).
      rewrite (Hrest k2 _ (At_app _ _ _ H2) ltac:(lia)).
      f_equal. unfold NS. f_equal. repeat rewrite app_length. unfold p1. cbn [List.length]. rewrite app_length. cbn [List.length]. lia.
Qed.

Lemma encoding_generic_g : forall c0 tl x pe m ptxt F3,
  At 0 (95 :: 90 :: c0 :: tl) -> c0 <> 84 -> c0 <> 71 ->
  run true s 0 (S (S F3)) FName (NS 2 None 1 true) = R 0 (NS pe (Some x) 1 false) ->
  At pe ptxt -> PTys m ptxt -> (m <= S (S F3))%nat ->
  run true s 0 (S (S (S F3))) FEncoding (st0 L) = R 0 (NS L (Some x) 0 false).
Proof.
  intros c0 tl x pe m ptxt F3 H0 HcT HcG Hname Hpe Hpar HF.
  pose proof (At_cons _ _ _ H0) as H1. pose proof (At_cons _ _ _ H1) as H2. cbn [Z.add Pos.add] in H1, H2.
  change (run true s 0 (S (S (S F3))) FEncoding) with (dd_encoding s 0 (run true s 0 (S (S F3)))).
  unfold dd_encoding, st0.
  pose proof (At_lt _ _ _ H0) as HL0.
  rewrite bind_eof. stsimpl. rwf (0 >=? L). cbn [Z.eqb].
  rewrite bind_gets. stsimpl. cbn [Z.eqb].
  erewrite bind_R; [| apply (consume_n_at _ 2 (95 :: 90 :: c0 :: tl)); [ exact H0 | reflexivity | cbn [List.length]; lia ] ].
  stsimpl. cbn [Z.add]. unfold inc_level. rewrite bind_modify. stsimpl. cbn [Z.add].
  erewrite bind_R; [| apply (curr_at _ (c0 :: tl)); [ exact H2 | reflexivity ] ].
  cbn [hd0]. chs. rwf (c0 =? 84). rwf (c0 =? 71). cbn [orb].
  fold (NS 2 None 1 true). erewrite bind_R; [| exact Hname ].
  cbn [Z.ltb Z.compare].
  erewrite bind_R; [| apply (enc_types_g m ptxt Hpar (S (S F3)) pe x Hpe HF) ].
  assert (HpeL : pe + Z.of_nat (List.length ptxt) = L) by (destruct Hpe as [_ [_ HH]]; exact HH).
  rewrite HpeL.
  assert (Hend : At L []).
  { rewrite <- HpeL. replace ptxt with (ptxt ++ []) in Hpe by apply app_nil_r. apply (At_app _ ptxt []). exact Hpe. }
  unfold NS at 1.
  erewrite bind_R; [| apply (curr_at _ []); [ exact Hend | reflexivity ] ].
  cbn [hd0]. chs. cbn [Z.eqb]. rewrite bind_ret.
  erewrite bind_R; [| apply (curr_at _ []); [ exact Hend | reflexivity ] ].
  cbn [hd0 Z.eqb]. rewrite bind_ret.
  unfold dec_level. rewrite bind_modify. stsimpl. reflexivity.
Qed.

Lemma gencoding_at : forall quals n id ids enc l m ptxt F,
  s = str "_ZN" ++ quals ++ enc ++ last_enc l ++ 69 :: ptxt ->
  forallb qual_okb quals = true -> Comps n (id :: ids) enc -> last_okb l = true -> PTys m ptxt ->
  no_dollar (enc ++ last_enc l ++ 69 :: ptxt) -> L <= INT_MAX ->
  (List.length quals + n + m + 10 <= F)%nat ->
  run true s 0 F FEncoding (st0 L) = R 0 (NS L (Some (last_out (join_sep (id :: ids)) l)) 0 false).
Proof.
  intros quals n id ids enc l m ptxt F Hs Hq Hc Hl Hpar Hnd HL HF.
  set (body := quals ++ enc ++ last_enc l ++ 69 :: ptxt) in *.
  assert (H0 : At 0 (95 :: 90 :: 78 :: body)).
  { unfold At. split; [ lia |]. split; [ unfold suffix; cbn [Z.add Z.to_nat skipn]; rewrite Hs; reflexivity |].
    unfold flen. rewrite Hs. cbn [str app List.length]. lia. }
  pose proof (At_cons _ _ _ H0) as H1. pose proof (At_cons _ _ _ H1) as H2. cbn [Z.add Pos.add] in H1, H2.
  destruct F as [| F1]; [ lia |]. destruct F1 as [| F2]; [ lia |]. destruct F2 as [| F3]; [ lia |].
  set (pq := 3 + Z.of_nat (List.length quals)).
  set (pe := pq + Z.of_nat (List.length enc) + Z.of_nat (List.length (last_enc l)) + 1).
  pose proof (At_cons _ _ _ H2) as H3. cbn [Z.add Pos.add] in H3.
  assert (Hpq : At pq (enc ++ last_enc l ++ 69 :: ptxt)) by (apply (At_app _ quals); exact H3).
  assert (Hpe : At pe ptxt).
  { unfold pe. replace (pq + Z.of_nat (List.length enc) + Z.of_nat (List.length (last_enc l)) + 1)
      with (pq + Z.of_nat (List.length enc) + Z.of_nat (List.length (last_enc l)) + Z.of_nat (List.length [69])) by (cbn [List.length]; lia).
    apply (At_app _ [69] ptxt). apply (At_app _ (last_enc l)). apply (At_app _ enc). exact Hpq. }
  apply (encoding_generic_g 78 body (last_out (join_sep (id :: ids)) l) pe m ptxt F3 H0); try lia; try assumption.
  change (run true s 0 (S (S F3)) FName) with (dd_name true s 0 (run true s 0 (S F3))).
  unfold dd_name. unfold NS at 1.
  erewrite bind_R; [| apply (curr_at _ (78 :: body)); [ exact H2 | reflexivity ] ].
  pose proof (At_lt _ _ _ H2).
  rewrite bind_eof. stsimpl. rwf (2 >=? L). cbn [hd0]. chs. cbn [Z.eqb Pos.eqb].
  change (run true s 0 (S F3) FNestedName) with (dd_nested_name s 0 (run true s 0 F3)).
  unfold dd_nested_name.
  rewrite bind_eof. stsimpl. rwf (2 >=? L). cbn [Z.eqb].
  unfold expect at 1. unfold consume.
  erewrite bind_R; [| apply (consume_n_at _ 1 (78 :: body)); [ exact H2 | reflexivity | cbn [List.length]; lia ] ].
  cbn [hd0]. chs. cbn [Z.eqb Pos.eqb]. stsimpl.
  unfold inc_level. rewrite bind_modify. stsimpl. cbn [Z.add Pos.add].
  fold (NS 3 None 2 true).
  assert (Hne : enc ++ last_enc l ++ 69 :: ptxt <> []).
  { destruct enc; cbn [app]; [| discriminate ]. destruct (last_enc l); discriminate. }
  erewrite bind_R.
  2:{ replace F3 with (List.length quals + (F3 - List.length quals))%nat by lia.
      rewrite (nested_quals quals _ 3 None 2 true (enc ++ last_enc l ++ 69 :: ptxt) H3 Hq Hne).
      fold pq.
      apply (nested_gcomps n (id :: ids) enc Hc l _ pq None 2 true ptxt (join_sep (id :: ids))); try assumption.
      - apply out_after_start.
      - reflexivity.
      - lia. }
  assert (H4 : At (pq + Z.of_nat (List.length enc) + Z.of_nat (List.length (last_enc l))) (69 :: ptxt)).
  { apply (At_app _ (last_enc l)). apply (At_app _ enc). exact Hpq. }
  unfold expect. unfold consume. unfold NS at 1.
  erewrite bind_R; [| apply (consume_n_at _ 1 (69 :: ptxt)); [ exact H4 | reflexivity | cbn [List.length]; lia ] ].
  cbn [hd0]. chs. cbn [Z.eqb Pos.eqb]. stsimpl.
  unfold dec_level. rewrite bind_modify. stsimpl. unfold ret, NS. cbn [Z.sub Z.add Z.opp Z.pos_sub Pos.pred_double].
  reflexivity.
Qed.

(* _Z St <source-name> [<targs>] <type>* : functions of namespace std (std::sort<...>, std::move<...>, ...) *)
Lemma std_unscoped_encoding_at : forall id n ta m ptxt F,
  s = str "_ZSt" ++ src id ++ ta ++ ptxt ->
  ident_okb id = true -> TA n ta -> PTys m ptxt -> no_dollar (id ++ ta ++ ptxt) -> L <= INT_MAX ->
  (n + m + 10 <= F)%nat ->
  run true s 0 F FEncoding (st0 L) = R 0 (NS L (Some (str "std::" ++ id)) 0 false).
Proof.
  intros id n ta m ptxt F Hs Hid Hta Hpar Hnd HL HF.
  set (body := src id ++ ta ++ ptxt) in *.
  assert (H0 : At 0 (95 :: 90 :: 83 :: 116 :: body)).
  { unfold At. split; [ lia |]. split; [ unfold suffix; cbn [Z.add Z.to_nat skipn]; rewrite Hs; reflexivity |].
    unfold flen. rewrite Hs. cbn [str app List.length]. lia. }
  pose proof (At_cons _ _ _ H0) as H1. pose proof (At_cons _ _ _ H1) as H2. cbn [Z.add Pos.add] in H1, H2.
  pose proof (At_cons _ _ _ (At_cons _ _ _ H2)) as H4. cbn [Z.add Pos.add] in H4.
  destruct F as [| F1]; [ lia |]. destruct F1 as [| F2]; [ lia |]. destruct F2 as [| F3]; [ lia |].
  set (pe := 4 + Z.of_nat (List.length (src id)) + Z.of_nat (List.length ta)).
  assert (Hpe : At pe ptxt).
  { unfold pe. apply (At_app _ ta). apply (At_app _ (src id)). exact H4. }
  apply (encoding_generic_g 83 (116 :: body) (str "std::" ++ id) pe m ptxt F3 H0); try lia; try assumption.
  change (run true s 0 (S (S F3)) FName) with (dd_name true s 0 (run true s 0 (S F3))).
  unfold dd_name. unfold NS at 1.
  erewrite bind_R; [| apply (curr_at _ (83 :: 116 :: body)); [ exact H2 | reflexivity ] ].
  pose proof (At_lt _ _ _ H2).
  rewrite bind_eof. stsimpl. rwf (2 >=? L). cbn [hd0]. chs. cbn [Z.eqb Pos.eqb].
  pose proof (src_hd_digit id (ta ++ ptxt) Hid) as Hd. fold body in Hd.
  fold (NS 2 None 1 true).
  erewrite bind_R; [| apply (subst_abbr_at 2 None 1 true 116 (str "std") body); [ exact H2 | reflexivity | lia ] ].
  cbn [Z.ltb Z.compare Z.add Pos.add]. unfold NS at 1.
  erewrite bind_R; [| apply (curr_at _ body); [ exact H4 | reflexivity ] ].
  rwf (hd0 body =? 73).
  destruct F3 as [| F4]; [ lia |].
  assert (HB : hd0 (ta ++ ptxt) <> 66).
  { destruct (TA_hd n ta Hta) as [E1 | [r E1]]; subst ta; cbn [app hd0]; [| lia ]. destruct (PTys_follow m ptxt Hpar). assumption. }
  change (mkst 4 L (add_out (sep_out None true) (str "std")) 0 1 0 false false false false)
    with (NS 4 (Some (str "std")) 1 false).
  erewrite bind_R; [| apply (unq_src (S F4) 4 (Some (str "std")) 1 false id (ta ++ ptxt)); assumption ].
  cbn [Z.ltb Z.compare].
  change (NS (4 + Z.of_nat (List.length (src id))) (add_out (sep_out (Some (str "std")) false) id) 1 false)
    with (G (4 + Z.of_nat (List.length (src id))) (Some (str "std::" ++ id)) 1 0 0 false).
  rewrite (targs_cont n ta (S (S F4)) _ _ 1 0 0 false ptxt 0 Hta (proj1 (proj2 grammar_walk) n ta Hta) ltac:(lia)
             (At_src_tail _ _ _ H4) (proj1 (PTys_follow m ptxt Hpar)) ltac:(lia) eq_refl).
  reflexivity.
Qed.

(* ================================================================ Rust legacy `$` escapes and `..` *)
Definition ao (o : option (list Z)) (t : list Z) : option (list Z) := Some (match o with None => t | Some y => y ++ t end).
(* state while a name is being appended: first_name = false *)
Notation St p o lv := (NS p o lv false).

Definition plain_txt (t : list Z) : Prop := Forall (fun c => c <> 46 /\ c <> 36) t.     (* no '.', no '$' *)

Lemma index_of2_skip : forall t r, Forall (fun c => c <> 46) t -> index_of2 46 46 (t ++ 46 :: 46 :: r) = Some (Z.of_nat (List.length t)).
Proof.
  induction t as [| a t IH]; intros r H.
  - reflexivity.
  - inversion H; subst. cbn [app index_of2 List.length].
    destruct (t ++ 46 :: 46 :: r) as [| b r'] eqn:E; [ destruct t; discriminate |].
    rwf (a =? 46). cbn [andb]. rewrite <- E. rewrite (IH r H3). f_equal. lia.
Qed.
Lemma index_of2_far : forall t c r, Forall (fun x => x <> 46) t -> c <> 46 ->
  match index_of2 46 46 (t ++ c :: r) with None => True | Some d => Z.of_nat (List.length t) < d end.
Proof.
  induction t as [| a t IH]; intros c r H Hc.
  - cbn [app index_of2 List.length]. destruct r as [| b r']; [ exact I |].
    rwf (c =? 46). cbn [andb]. destruct (index_of2 46 46 (b :: r')) as [k |] eqn:E; [| exact I ].
    assert (0 <= k). { clear - E. revert k E. generalize (b :: r'). induction l as [| x l IHl]; intros k E; [ discriminate |].
      cbn [index_of2] in E. destruct l as [| y l']; [ discriminate |]. destruct ((x =? 46) && (y =? 46)); [ inversion E; lia |].
      destruct (index_of2 46 46 (y :: l')) as [k' |]; [| discriminate ]. inversion E. specialize (IHl k' eq_refl). lia. }
    cbn. lia.
  - inversion H; subst. cbn [app index_of2 List.length].
    destruct (t ++ c :: r) as [| b r'] eqn:E; [ destruct t; discriminate |].
    rwf (a =? 46). cbn [andb]. rewrite <- E. specialize (IH c r H3 Hc).
    destruct (index_of2 46 46 (t ++ c :: r)) as [k |]; [| exact I ]. lia.
Qed.
Lemma index_of_first : forall t r, Forall (fun c => c <> 36) t -> index_of 36 (t ++ 36 :: r) = Some (Z.of_nat (List.length t)).
Proof.
  induction t as [| a t IH]; intros r H; [ reflexivity |].
  inversion H; subst. cbn [app index_of List.length]. rwf (a =? 36). rewrite (IH r H3). f_equal. lia.
Qed.
Lemma index_of_ge : forall t r, Forall (fun c => c <> 36) t ->
  match index_of 36 (t ++ r) with None => True | Some d => Z.of_nat (List.length t) <= d end.
Proof.
  induction t as [| a t IH]; intros r H.
  - cbn [app List.length]. destruct (index_of 36 r) as [k |] eqn:E; [| exact I ].
    clear - E. revert k E. induction r as [| x r IHr]; intros k E; [ discriminate |]. cbn [index_of] in E.
    destruct (x =? 36); [ inversion E; cbn; lia |]. destruct (index_of 36 r) as [k' |]; [| discriminate ].
    inversion E. specialize (IHr k' eq_refl). cbn in *. lia.
  - inversion H; subst. cbn [app index_of List.length]. rwf (a =? 36). specialize (IH r H3).
    destruct (index_of 36 (t ++ r)) as [k |]; [| exact I ]. lia.
Qed.

Lemma append_len_at : forall src p o lv t rest, At src (t ++ rest) ->
  append_len s 0 src (Z.of_nat (List.length t)) (St p o lv) = R 0 (St p (ao o t) lv).
Proof.
  intros src p o lv t rest H. unfold append_len, valid_ptr. destruct H as [H0 [H1 H2]].
  rewrite app_length in H2.
  rwf (0 + src <? 0). rwt (0 + src <=? L). unfold NS. stsimpl. unfold slen. rewrite H1.
  assert (Hf : firstn (Z.to_nat (Z.of_nat (List.length t))) (t ++ rest) = t).
  { rewrite Nat2Z.id. rewrite firstn_app, Nat.sub_diag, firstn_all. cbn [firstn]. apply app_nil_r. }
  rewrite Hf. set (n := Z.of_nat (List.length t)) in *. assert (0 <= n) by lia.
  destruct o as [y |]; unfold ao.
  - rwf (n + 1 <? 0). assert (E2 : (Z.of_nat (List.length y) + n <? 0) = false) by (apply Z.ltb_ge; lia). rewrite E2.
    rwf (n >? L - 0 - src). rwf (n <? 0). reflexivity.
  - rwf (n <? 0). rwf (n >? L - 0 - src). reflexivity.
Qed.

Lemma append_sep_at : forall p o lv, append_separator (str "::") (St p o lv) = R 0 (St p (ao o (str "::")) lv).
Proof. intros p o lv. destruct o; reflexivity. Qed.
Lemma append_lit_at : forall p o lv t, append t (St p o lv) = R 0 (St p (ao o t) lv).
Proof. intros p o lv t. destruct o; reflexivity. Qed.

Definition enc_pairs (ps : list (list Z)) : list Z := List.concat (map (fun t => t ++ [46; 46]) ps).
Definition tr_pairs (o : option (list Z)) (ps : list (list Z)) : option (list Z) :=
  fold_left (fun o t => ao (ao o t) (str "::")) ps o.

Lemma dots_loop_at : forall ps K sep p o lv txt c rest,
  Forall plain_txt ps -> plain_txt txt -> c <> 46 ->
  At sep (enc_pairs ps ++ txt ++ c :: rest) -> (List.length ps < K)%nat ->
  dots_loop s 0 K sep (sep + Z.of_nat (List.length (enc_pairs ps)) + Z.of_nat (List.length txt)) (St p o lv) =
  R (sep + Z.of_nat (List.length (enc_pairs ps))) (St p (tr_pairs o ps) lv).
Proof.
  induction ps as [| t ps IH]; intros K sep p o lv txt c rest Hps Htxt Hc H HK.
  - destruct K as [| K]; [ cbn in HK; lia |]. cbn [enc_pairs map List.concat app List.length tr_pairs fold_left] in *.
    cbn [dots_loop]. chs. destruct H as [H0 [H1 H2]]. rewrite H1.
    assert (Hnd : Forall (fun x => x <> 46) txt) by (eapply Forall_impl; [| exact Htxt ]; intros a [A _]; exact A).
    pose proof (index_of2_far txt c rest Hnd Hc) as Hf.
    replace (sep + Z.of_nat 0) with sep by lia.
    destruct (index_of2 46 46 (txt ++ c :: rest)) as [d |]; [| reflexivity ].
    rwt (sep + d >? sep + Z.of_nat (List.length txt)). reflexivity.
  - destruct K as [| K]; [ cbn in HK; lia |]. inversion Hps as [| ? ? Ht Hps' ]; subst.
    unfold enc_pairs in *. cbn [map List.concat] in *. rewrite <- !app_assoc in H. cbn [app] in H.
    set (tailp := List.concat (map (fun t0 => t0 ++ [46; 46]) ps)) in *.
    cbn [dots_loop]. chs. pose proof H as [H0 [H1 H2]]. rewrite H1.
    assert (Hnd : Forall (fun x => x <> 46) t) by (eapply Forall_impl; [| exact Ht ]; intros a [A _]; exact A).
    rewrite (index_of2_skip t (tailp ++ txt ++ c :: rest) Hnd).
    repeat rewrite app_length. cbn [List.length].
    match goal with |- context [if ?a >? ?b then _ else _] => rwf (a >? b) end. unfold bind.
    replace (sep + Z.of_nat (List.length t) - sep) with (Z.of_nat (List.length t)) by lia.
    rewrite (append_len_at sep p o lv t (46 :: 46 :: tailp ++ txt ++ c :: rest) H).
    rewrite append_sep_at.
    assert (H' : At (sep + Z.of_nat (List.length t) + 2) (tailp ++ txt ++ c :: rest)).
    { replace (sep + Z.of_nat (List.length t) + 2) with (sep + Z.of_nat (List.length (t ++ [46; 46]))) by (rewrite app_length; cbn [List.length]; lia).
      apply At_app. rewrite <- app_assoc. exact H. }
    cbn [List.length] in HK.
    replace (sep + Z.of_nat (List.length t) + 2) with (sep + Z.of_nat (List.length t) + 2) by lia.
    pose proof (IH K (sep + Z.of_nat (List.length t) + 2) p (ao (ao o t) (str "::")) lv txt c rest Hps' Htxt Hc H' ltac:(lia)) as E.
    fold tailp in E.
    replace (sep + Z.of_nat (List.length t + 2 + List.length tailp) + Z.of_nat (List.length txt))
      with (sep + Z.of_nat (List.length t) + 2 + Z.of_nat (List.length tailp) + Z.of_nat (List.length txt)) by lia.
    rewrite E. cbn [tr_pairs fold_left]. f_equal. lia.
Qed.

(* one escape:  <text with ..>* $code$  *)
Record rgroup := mkrg { rg_ps : list (list Z); rg_txt : list Z; rg_code : list Z; rg_punct : list Z }.
Definition rblock (g : rgroup) : list Z := enc_pairs (rg_ps g) ++ rg_txt g.
Definition enc_group (g : rgroup) : list Z := rblock g ++ 36 :: rg_code g ++ [36].
Definition tr_group (o : option (list Z)) (g : rgroup) : option (list Z) :=
  ao (ao (tr_pairs o (rg_ps g)) (rg_txt g)) (rg_punct g).
Definition rgroup_ok (g : rgroup) : Prop :=
  Forall plain_txt (rg_ps g) /\ plain_txt (rg_txt g) /\ In (rg_code g, rg_punct g) rust_mappings.

Lemma mapping_found : forall code punct after, In (code, punct) rust_mappings ->
  find_mapping rust_mappings (code ++ 36 :: after) = Some (code, punct).
Proof.
  intros code punct after H. unfold rust_mappings in H. cbn [In] in H.
  repeat (destruct H as [H | H]; [ inversion H; subst; reflexivity |]). contradiction.
Qed.
Lemma mapping_len : forall code punct, In (code, punct) rust_mappings -> (1 <= List.length code <= 3)%nat /\ Forall (fun c => c <> 36) code.
Proof.
  intros code punct H. unfold rust_mappings in H. cbn [In] in H.
  repeat (destruct H as [H | H]; [ inversion H; subst; split; [ cbn; lia | repeat constructor; discriminate ] |]). contradiction.
Qed.

Lemma rblock_nodollar : forall g, rgroup_ok g -> Forall (fun c => c <> 36) (rblock g).
Proof.
  intros g [Hps [Htxt _]]. unfold rblock. apply Forall_app. split.
  - unfold enc_pairs. induction (rg_ps g) as [| t ps IH]; [ constructor |]. inversion Hps; subst.
    cbn [map List.concat]. apply Forall_app. split; [| apply IH; assumption ].
    apply Forall_app. split; [ eapply Forall_impl; [| eassumption ]; intros a [_ A]; exact A | repeat constructor; discriminate ].
  - eapply Forall_impl; [| exact Htxt ]. intros a [_ A]. exact A.
Qed.
Lemma enc_pairs_len : forall ps, (List.length ps <= List.length (enc_pairs ps))%nat.
Proof.
  induction ps as [| t ps IH]; [ cbn; lia |]. unfold enc_pairs in *. cbn [map List.concat List.length].
  repeat rewrite app_length. cbn [List.length]. lia.
Qed.

(* one iteration of the `$` loop *)
Lemma dollar_step : forall k g p o lv after e,
  rgroup_ok g -> At p (enc_group g ++ after) ->
  p + Z.of_nat (List.length (enc_group g)) <= e -> e <= L ->
  prefix_of (str "$u20$as$u20$") (36 :: rg_code g ++ 36 :: after) = false ->
  dollar_loop true s 0 (S k) p (p + Z.of_nat (List.length (rblock g))) e (St p o lv) =
  (let p' := p + Z.of_nat (List.length (enc_group g)) in
   match strchr_from s 0 p' (ch "$") with
   | Some d' => dollar_loop true s 0 k p' d' e
   | None => ret p'
   end) (St (p + Z.of_nat (List.length (enc_group g))) (tr_group o g) lv).
Proof.
  intros k g p o lv after e [Hps [Htxt Hin]] H He HeL Has.
  destruct (mapping_len _ _ Hin) as [Hcl Hcnd].
  set (dollar := p + Z.of_nat (List.length (rblock g))).
  assert (Hlen : Z.of_nat (List.length (enc_group g)) = Z.of_nat (List.length (rblock g)) + Z.of_nat (List.length (rg_code g)) + 2).
  { unfold enc_group. repeat rewrite app_length. cbn [List.length]. rewrite app_length. cbn [List.length]. lia. }
  assert (Hrb : Z.of_nat (List.length (rblock g)) = Z.of_nat (List.length (enc_pairs (rg_ps g))) + Z.of_nat (List.length (rg_txt g)))
    by (unfold rblock; rewrite app_length; lia).
  cbn [dollar_loop]. rwf (negb (dollar <? e)).
  unfold enc_group, rblock in H. rewrite <- !app_assoc in H. cbn [app] in H. rewrite <- !app_assoc in H.
  unfold bind at 1.
  assert (Hsl : (List.length (rg_ps g) < S (Z.to_nat (slen s 0)))%nat).
  { pose proof (enc_pairs_len (rg_ps g)) as Hel. destruct H as [Ha [_ Hb]]. rewrite app_length in Hb. unfold slen, flen in *. lia. }
  pose proof (dots_loop_at (rg_ps g) (S (Z.to_nat (slen s 0))) p p o lv (rg_txt g) 36 (rg_code g ++ [36] ++ after) Hps Htxt ltac:(discriminate) H Hsl) as Ed.
  unfold dollar, rblock. rewrite app_length.
  replace (p + Z.of_nat (List.length (enc_pairs (rg_ps g)) + List.length (rg_txt g)))
    with (p + Z.of_nat (List.length (enc_pairs (rg_ps g))) + Z.of_nat (List.length (rg_txt g))) by lia.
  rewrite Ed. unfold bind at 1.
  replace (p + Z.of_nat (List.length (enc_pairs (rg_ps g))) + Z.of_nat (List.length (rg_txt g)) - (p + Z.of_nat (List.length (enc_pairs (rg_ps g)))))
    with (Z.of_nat (List.length (rg_txt g))) by lia.
  pose proof (At_app _ _ _ H) as H1.
  rewrite (append_len_at _ p _ lv (rg_txt g) (36 :: rg_code g ++ [36] ++ after) H1).
  pose proof (At_app _ _ _ H1) as H2.
  set (dl := p + Z.of_nat (List.length (enc_pairs (rg_ps g))) + Z.of_nat (List.length (rg_txt g))) in *.
  pose proof (At_cons _ _ _ H2) as H3.
  destruct H3 as [H30 [H31 H32]]. rewrite H31.
  change (rg_code g ++ [36] ++ after) with (rg_code g ++ 36 :: after).
  rewrite (mapping_found _ _ after Hin). cbn [andb].
  rwf (dl + Z.of_nat (List.length (rg_code g)) + 2 >? e).
  destruct H2 as [H20 [H21 H22]]. rewrite H21.
  change (36 :: rg_code g ++ [36] ++ after) with (36 :: rg_code g ++ 36 :: after). rewrite Has.
  unfold bind at 1. rewrite append_lit_at.
  unfold bind at 1.
  assert (Hcn : consume_n s 0 (dl - p + Z.of_nat (List.length (rg_code g)) + 2) (St p (tr_group o g) lv)
                = R (hd0 (enc_pairs (rg_ps g) ++ rg_txt g ++ 36 :: rg_code g ++ [36] ++ after))
                    (St (p + Z.of_nat (List.length (enc_group g))) (tr_group o g) lv)).
  { rewrite (consume_n_at _ _ (enc_pairs (rg_ps g) ++ rg_txt g ++ 36 :: rg_code g ++ [36] ++ after)); [| exact H | reflexivity |].
    - unfold NS. stsimpl. f_equal. f_equal. unfold dl. lia.
    - clear Ed. repeat rewrite app_length. cbn [List.length]. repeat rewrite app_length. cbn [List.length]. unfold dl. lia. }
  change (ao (ao (tr_pairs o (rg_ps g)) (rg_txt g)) (rg_punct g)) with (tr_group o g).
  rewrite Hcn. unfold bind at 1. unfold valid_ptr.
  replace (p + (dl - p + Z.of_nat (List.length (rg_code g)) + 2)) with (p + Z.of_nat (List.length (enc_group g))) by (unfold dl; lia).
  rwf (0 + (p + Z.of_nat (List.length (enc_group g))) <? 0). rwt (0 + (p + Z.of_nat (List.length (enc_group g))) <=? L).
  cbv zeta. reflexivity.
Qed.

Definition enc_groups (gs : list rgroup) : list Z := List.concat (map enc_group gs).
Definition tr_groups (o : option (list Z)) (gs : list rgroup) : option (list Z) := fold_left tr_group gs o.
(* `$u20$as$u20$` is the one escape sequence with a meaning of its own: not inside the translated part *)
Fixpoint noas (gs : list rgroup) (after : list Z) : Prop :=
  match gs with
  | [] => True
  | g :: r => prefix_of (str "$u20$as$u20$") (36 :: rg_code g ++ 36 :: enc_groups r ++ after) = false /\ noas r after
  end.

Lemma enc_groups_len : forall gs, (List.length gs <= List.length (enc_groups gs))%nat.
Proof.
  induction gs as [| g gs IH]; [ cbn; lia |]. unfold enc_groups in *. cbn [map List.concat List.length].
  set (X := List.concat (map enc_group gs)) in *. clearbody X.
  rewrite app_length. unfold enc_group. repeat rewrite app_length. cbn [List.length]. lia.
Qed.

Lemma dollar_groups : forall gs k p o lv tl beyond,
  Forall rgroup_ok gs -> Forall (fun c => c <> 36) tl ->
  At p (enc_groups gs ++ tl ++ beyond) -> noas gs (tl ++ beyond) -> (List.length gs < k)%nat ->
  match gs with
  | [] => True
  | g :: _ =>
      let e := p + Z.of_nat (List.length (enc_groups gs)) + Z.of_nat (List.length tl) in
      dollar_loop true s 0 k p (p + Z.of_nat (List.length (rblock g))) e (St p o lv) =
      R (p + Z.of_nat (List.length (enc_groups gs)))
        (St (p + Z.of_nat (List.length (enc_groups gs))) (tr_groups o gs) lv)
  end.
Proof.
  induction gs as [| g gs IH]; intros k p o lv tl beyond Hok Htl H Hna Hk; [ exact I |].
  inversion Hok as [| ? ? Hg Hgs ]; subst. destruct Hna as [Hna1 Hna2].
  destruct k as [| k]; [ lia |]. cbn [List.length] in Hk. cbv zeta.
  unfold enc_groups in *. cbn [map List.concat] in *. fold (enc_groups gs) in *.
  rewrite <- app_assoc in H.
  set (e := p + Z.of_nat (List.length (enc_group g ++ enc_groups gs)) + Z.of_nat (List.length tl)).
  assert (HeL : e <= L).
  { destruct H as [_ [_ HH]]. unfold e. repeat rewrite app_length in *. lia. }
  rewrite (dollar_step k g p o lv (enc_groups gs ++ tl ++ beyond) e Hg H); [| unfold e; rewrite app_length; lia | exact HeL | exact Hna1 ].
  cbv zeta. set (p' := p + Z.of_nat (List.length (enc_group g))).
  pose proof (At_app _ _ _ H) as H'. fold p' in H'.
  unfold strchr_from. chs. destruct H' as [H'0 [H'1 H'2]]. rewrite H'1.
  destruct gs as [| g2 gs2].
  - cbn [enc_groups map List.concat app List.length] in *. cbn [tr_groups fold_left].
    pose proof (index_of_ge tl beyond Htl) as Hi.
    replace (p + Z.of_nat (List.length (enc_group g ++ []))) with p' by (rewrite app_nil_r; reflexivity).
    destruct (index_of 36 (tl ++ beyond)) as [d |]; [| reflexivity ].
    destruct k as [| k']; [ lia |]. cbn [dollar_loop].
    assert (Ege : negb (p' + d <? e) = true).
    { unfold e. rewrite app_nil_r. fold p'. apply negb_true_iff. apply Z.ltb_ge. lia. }
    rewrite Ege. reflexivity.
  - inversion Hgs as [| ? ? Hg2 _ ]; subst.
    unfold enc_groups at 1. cbn [map List.concat]. fold (enc_groups gs2).
    unfold enc_group at 1. rewrite <- !app_assoc. cbn [app].
    rewrite (index_of_first (rblock g2) _ (rblock_nodollar g2 Hg2)).
    assert (H2 : At p' (enc_groups (g2 :: gs2) ++ tl ++ beyond)) by (split; [ exact H'0 | split; [ exact H'1 | exact H'2 ] ]).
    pose proof (IH k p' (tr_group o g) lv tl beyond Hgs Htl H2 Hna2 ltac:(cbn [List.length] in *; lia)) as E.
    cbv zeta in E.
    replace e with (p' + Z.of_nat (List.length (enc_groups (g2 :: gs2))) + Z.of_nat (List.length tl))
      by (unfold e, p'; rewrite app_length; lia).
    rewrite E. cbn [tr_groups fold_left]. f_equal.
    + unfold p'. rewrite app_length. lia.
    + unfold NS. f_equal. unfold p'. rewrite app_length. lia.
Qed.

(* the ` as Trait` ending:  <text/..>* $u20$as$u20$ <anything>  prints ">" and skips to the end of the component *)
Definition AS : list Z := str "$u20$as$u20$".
Definition asblock (ps : list (list Z)) (txt asrest : list Z) : list Z := enc_pairs ps ++ txt ++ AS ++ asrest.

Lemma prefix_of_app : forall a b, prefix_of a (a ++ b) = true.
Proof. induction a as [| x a IH]; intros b; [ reflexivity |]. cbn [app prefix_of]. rewrite Z.eqb_refl, IH. reflexivity. Qed.

Lemma dollar_as_step : forall k p o lv ps txt asrest beyond,
  Forall plain_txt ps -> plain_txt txt -> At p (asblock ps txt asrest ++ beyond) ->
  let e := p + Z.of_nat (List.length (asblock ps txt asrest)) in
  dollar_loop true s 0 (S (S k)) p (p + Z.of_nat (List.length (enc_pairs ps)) + Z.of_nat (List.length txt)) e (St p o lv) =
  R e (St e (ao (ao (tr_pairs o ps) txt) (str ">")) lv).
Proof.
  intros k p o lv ps txt asrest beyond Hps Htxt H e.
  set (dl := p + Z.of_nat (List.length (enc_pairs ps)) + Z.of_nat (List.length txt)).
  assert (Hlen : Z.of_nat (List.length (asblock ps txt asrest)) =
                 Z.of_nat (List.length (enc_pairs ps)) + Z.of_nat (List.length txt) + 12 + Z.of_nat (List.length asrest)).
  { unfold asblock. repeat rewrite app_length. change (List.length AS) with 12%nat. lia. }
  assert (HeL : e <= L). { destruct H as [_ [_ HH]]. rewrite app_length in HH. unfold e. lia. }
  cbn [dollar_loop]. rwf (negb (dl <? e)).
  unfold asblock in H. rewrite <- !app_assoc in H.
  unfold bind at 1.
  assert (Hsl : (List.length ps < S (Z.to_nat (slen s 0)))%nat).
  { pose proof (enc_pairs_len ps) as Hel. destruct H as [Ha [_ Hb]]. rewrite app_length in Hb. unfold slen, flen in *. lia. }
  assert (H' : At p (enc_pairs ps ++ txt ++ 36 :: (str "u20$as$u20$" ++ asrest ++ beyond))) by exact H.
  pose proof (dots_loop_at ps (S (Z.to_nat (slen s 0))) p p o lv txt 36 (str "u20$as$u20$" ++ asrest ++ beyond) Hps Htxt ltac:(discriminate) H' Hsl) as Ed.
  fold dl in Ed. rewrite Ed. unfold bind at 1.
  replace (dl - (p + Z.of_nat (List.length (enc_pairs ps)))) with (Z.of_nat (List.length txt)) by (unfold dl; lia).
  pose proof (At_app _ _ _ H') as H1.
  rewrite (append_len_at _ p _ lv txt _ H1).
  pose proof (At_app _ _ _ H1) as H2. fold dl in H2.
  pose proof (At_cons _ _ _ H2) as H3.
  destruct H3 as [H30 [H31 H32]]. rewrite H31.
  change (str "u20$as$u20$" ++ asrest ++ beyond) with (str "u20" ++ 36 :: (str "as$u20$" ++ asrest ++ beyond)).
  rewrite (mapping_found (str "u20") (str " ") _ ltac:(unfold rust_mappings; cbn [In]; tauto)). cbn [andb List.length str].
  rwf (dl + Z.of_nat 3 + 2 >? e).
  destruct H2 as [H20 [H21 H22]]. rewrite H21.
  repeat match goal with |- context [prefix_of ?a ?b] => replace (prefix_of a b) with true by reflexivity end.
  change [ch ">"] with (str ">").
  unfold bind at 1. rewrite append_lit_at. unfold bind at 1.
  assert (Hcn : consume_n s 0 (dl - p + (e - dl)) (St p (ao (ao (tr_pairs o ps) txt) (str ">")) lv)
                = R (hd0 (enc_pairs ps ++ txt ++ AS ++ asrest ++ beyond)) (St e (ao (ao (tr_pairs o ps) txt) (str ">")) lv)).
  { rewrite (consume_n_at _ _ (enc_pairs ps ++ txt ++ AS ++ asrest ++ beyond)); [| exact H | reflexivity |].
    - unfold NS. stsimpl. f_equal. f_equal. lia.
    - repeat rewrite app_length. change (List.length AS) with 12%nat. unfold dl, e. lia. }
  rewrite Hcn. unfold bind at 1. unfold valid_ptr.
  replace (p + (dl - p + (e - dl))) with e by lia.
  assert (He0 : 0 <= e) by (destruct H as [Ha _]; unfold e; lia).
  rwf (0 + e <? 0). rwt (0 + e <=? L).
  assert (Hbe : At e beyond).
  { unfold e. replace (enc_pairs ps ++ txt ++ AS ++ asrest ++ beyond) with (asblock ps txt asrest ++ beyond) in H
      by (unfold asblock; rewrite <- !app_assoc; reflexivity). apply At_app. exact H. }
  unfold strchr_from. destruct Hbe as [Hb0 [Hb1 Hb2]]. rewrite Hb1. chs.
  pose proof (index_of_ge [] beyond (Forall_nil _)) as Ei. cbn [app List.length] in Ei.
  destruct (index_of 36 beyond) as [d |]; [| reflexivity ].
  cbn [dollar_loop]. assert (Ege : negb (e + d <? e) = true) by (apply negb_true_iff; apply Z.ltb_ge; lia).
  rewrite Ege. reflexivity.
Qed.

Lemma asblock_first_dollar : forall ps txt asrest beyond, Forall plain_txt ps -> plain_txt txt ->
  index_of 36 (asblock ps txt asrest ++ beyond) = Some (Z.of_nat (List.length (enc_pairs ps)) + Z.of_nat (List.length txt)).
Proof.
  intros ps txt asrest beyond Hps Htxt. unfold asblock. rewrite <- !app_assoc.
  replace (enc_pairs ps ++ txt ++ AS ++ asrest ++ beyond) with ((enc_pairs ps ++ txt) ++ 36 :: (str "u20$as$u20$" ++ asrest ++ beyond))
    by (rewrite <- app_assoc; reflexivity).
  rewrite index_of_first; [ rewrite app_length; f_equal; lia |].
  pose proof (rblock_nodollar (mkrg ps txt (str "C") (str ",")) ltac:(repeat split; try assumption; unfold rust_mappings; cbn [In]; tauto)) as Hb.
  exact Hb.
Qed.

Lemma dollar_groups_as : forall gs k p o lv ps txt asrest beyond,
  Forall rgroup_ok gs -> Forall plain_txt ps -> plain_txt txt ->
  At p (enc_groups gs ++ asblock ps txt asrest ++ beyond) -> noas gs (asblock ps txt asrest ++ beyond) ->
  (List.length gs + 1 < k)%nat ->
  let e := p + Z.of_nat (List.length (enc_groups gs)) + Z.of_nat (List.length (asblock ps txt asrest)) in
  let d0 := match gs with [] => p + Z.of_nat (List.length (enc_pairs ps)) + Z.of_nat (List.length txt)
                        | g :: _ => p + Z.of_nat (List.length (rblock g)) end in
  dollar_loop true s 0 k p d0 e (St p o lv) =
  R e (St e (ao (ao (tr_pairs (tr_groups o gs) ps) txt) (str ">")) lv).
Proof.
  induction gs as [| g gs IH]; intros k p o lv ps txt asrest beyond Hok Hps Htxt H Hna Hk; cbv zeta.
  - cbn [enc_groups map List.concat app List.length tr_groups fold_left] in *.
    destruct k as [| [| k]]; try lia.
    replace (p + Z.of_nat 0 + Z.of_nat (List.length (asblock ps txt asrest))) with (p + Z.of_nat (List.length (asblock ps txt asrest))) by lia.
    apply (dollar_as_step k p o lv ps txt asrest beyond Hps Htxt H).
  - inversion Hok as [| ? ? Hg Hgs ]; subst. destruct Hna as [Hna1 Hna2].
    destruct k as [| k]; [ lia |]. cbn [List.length] in Hk.
    unfold enc_groups in *. cbn [map List.concat] in *. fold (enc_groups gs) in *.
    rewrite <- app_assoc in H.
    set (e := p + Z.of_nat (List.length (enc_group g ++ enc_groups gs)) + Z.of_nat (List.length (asblock ps txt asrest))).
    assert (HeL : e <= L).
    { destruct H as [_ [_ HH]]. unfold e. repeat rewrite app_length in *. lia. }
    rewrite (dollar_step k g p o lv (enc_groups gs ++ asblock ps txt asrest ++ beyond) e Hg H); [| unfold e; rewrite app_length; lia | exact HeL | exact Hna1 ].
    cbv zeta. set (p' := p + Z.of_nat (List.length (enc_group g))).
    pose proof (At_app _ _ _ H) as H'. fold p' in H'.
    assert (Heq : e = p' + Z.of_nat (List.length (enc_groups gs)) + Z.of_nat (List.length (asblock ps txt asrest)))
      by (unfold e, p'; rewrite app_length; lia).
    pose proof (IH k p' (tr_group o g) lv ps txt asrest beyond Hgs Hps Htxt H' Hna2 ltac:(lia)) as E. cbv zeta in E.
    rewrite <- Heq in E.
    unfold strchr_from. chs. pose proof H' as [H'0 [H'1 H'2]]. rewrite H'1.
    destruct gs as [| g2 gs2].
    + cbn [enc_groups map List.concat app] in *. rewrite (asblock_first_dollar ps txt asrest beyond Hps Htxt).
      replace (p' + (Z.of_nat (List.length (enc_pairs ps)) + Z.of_nat (List.length txt)))
        with (p' + Z.of_nat (List.length (enc_pairs ps)) + Z.of_nat (List.length txt)) by lia.
      rewrite E. cbn [tr_groups fold_left]. reflexivity.
    + inversion Hgs as [| ? ? Hg2 _ ]; subst.
      unfold enc_groups at 1. cbn [map List.concat]. fold (enc_groups gs2).
      unfold enc_group at 1. rewrite <- !app_assoc. cbn [app].
      rewrite (index_of_first (rblock g2) _ (rblock_nodollar g2 Hg2)).
      rewrite E. cbn [tr_groups fold_left]. reflexivity.
Qed.

(* a component with escapes:  <number> ( <text/..>* $code$ )+ <tail>  *)
Definition rd_text (gs : list rgroup) (tl : list Z) : list Z := enc_groups gs ++ tl.
Definition rd_ok (gs : list rgroup) (tl rest : list Z) : Prop :=
  gs <> [] /\ Forall rgroup_ok gs /\ Forall (fun c => c <> 36) tl /\ starts_nondigit (rd_text gs tl) /\
  0 < Z.of_nat (List.length (rd_text gs tl)) < 1000000000 /\
  ((Z.of_nat (List.length (rd_text gs tl)) =? 17) && hash17 (rd_text gs tl)) = false /\
  noas gs (tl ++ rest).
Definition rd_src (gs : list rgroup) (tl : list Z) : list Z := dec (Z.of_nat (List.length (rd_text gs tl))) ++ rd_text gs tl.

Lemma append_separator_at : forall p o lv fnm,
  append_separator (str "::") (NS p o lv fnm) = R 0 (St p (sep_out o fnm) lv).
Proof. intros p o lv fnm. destruct fnm, o; reflexivity. Qed.

Lemma source_name_dollar_at : forall p o lv fnm gs tl rest,
  At p (rd_src gs tl ++ rest) -> rd_ok gs tl rest ->
  dd_source_name true s 0 (NS p o lv fnm) =
  R 0 (St (p + Z.of_nat (List.length (rd_src gs tl))) (ao (tr_groups (sep_out o fnm) gs) tl) lv).
Proof.
  intros p o lv fnm gs tl rest H [Hne [Hok [Htl [Hsn [Hn [Hh Hna]]]]]].
  assert (Hsn2 : starts_nondigit (rd_text gs tl ++ rest)).
  { clear - Hsn Hn. destruct (rd_text gs tl) as [| x c']; [ cbn [List.length] in Hn; lia | exact Hsn ]. }
  set (c := rd_text gs tl) in *. set (n := Z.of_nat (List.length c)) in *.
  assert (Hndef : n = Z.of_nat (List.length c)) by reflexivity.
  unfold rd_src in *. fold c in H. fold n in H. fold c. fold n. rewrite <- app_assoc in H.
  unfold dd_source_name. unfold NS at 1.
  erewrite bind_R; [| apply (number_at _ n (c ++ rest)); [ exact H | reflexivity | exact Hn | exact Hsn2 ] ].
  rwf (n <? 0).
  apply At_app in H. set (p0 := p + Z.of_nat (List.length (dec n))) in *.
  stsimpl. fold p0.
  assert (Hfin : p + Z.of_nat (List.length (dec n ++ c)) = p0 + n) by (rewrite app_length; unfold p0; lia).
  rewrite Hfin. clearbody p0.
  assert (Hp0n : p0 + n <= L) by (destruct H as [H0 [H1 H2]]; rewrite app_length in H2; lia).
  pose proof (At_le _ _ H) as Hp0r.
  rewrite bind_eof. stsimpl. rwf (p0 >=? L).
  rewrite bind_gets, bind_gets. stsimpl. cbn [Z.eqb negb andb]. rwf (n >? L - p0).
  rewrite bind_gets, bind_getb, bind_gets. stsimpl. cbn [Z.eqb negb andb orb].
  assert (Hh2 : ((n =? 17) && hash17 (suffix s 0 p0)) = false).
  { destruct H as [H0 [H1 H2]]. rewrite H1. destruct (n =? 17) eqn:E17; [| reflexivity ]. cbn [andb] in *.
    rewrite hash17_app by lia. exact Hh. }
  rewrite Hh2.
  change (mkst p0 L o 0 lv 0 false fnm false false) with (NS p0 o lv fnm).
  unfold bind at 1. rewrite append_separator_at.
  (* the first '$' *)
  destruct gs as [| g gs']; [ contradiction |].
  inversion Hok as [| ? ? Hg Hgs ]; subst.
  assert (Hc : c = rblock g ++ 36 :: rg_code g ++ 36 :: enc_groups gs' ++ tl).
  { unfold c, rd_text. change (enc_groups (g :: gs')) with (enc_group g ++ enc_groups gs'). unfold enc_group at 1.
    repeat (rewrite <- app_assoc; cbn [app]). reflexivity. }
  assert (Hsc : strchr_from s 0 p0 (ch "$") = Some (p0 + Z.of_nat (List.length (rblock g)))).
  { unfold strchr_from. chs. destruct H as [H0 [H1 H2]]. rewrite H1, Hc. rewrite <- app_assoc. cbn [app].
    rewrite (index_of_first (rblock g) _ (rblock_nodollar g Hg)). reflexivity. }
  rewrite Hsc.
  assert (Hbl : Z.of_nat (List.length (rblock g)) < n).
  { rewrite Hndef, Hc. repeat rewrite app_length. cbn [List.length]. lia. }
  rwf (p0 + Z.of_nat (List.length (rblock g)) >? p0 + n).
  assert (Hgl : (List.length (g :: gs') < S (Z.to_nat (slen s 0)))%nat).
  { pose proof (enc_groups_len (g :: gs')) as Hel. destruct H as [Ha [_ Hb]]. unfold c, rd_text in Hb. repeat rewrite app_length in Hb.
    unfold slen, flen in *. lia. }
  assert (Hat : At p0 (enc_groups (g :: gs') ++ tl ++ rest)) by (unfold c, rd_text in H; rewrite <- app_assoc in H; exact H).
  pose proof (dollar_groups (g :: gs') (S (Z.to_nat (slen s 0))) p0 (sep_out o fnm) lv tl rest Hok Htl Hat Hna Hgl) as E.
  cbv zeta in E.
  assert (Hn2 : n = Z.of_nat (List.length (enc_groups (g :: gs'))) + Z.of_nat (List.length tl)).
  { rewrite Hndef. unfold c, rd_text. rewrite app_length. lia. }
  replace (p0 + n) with (p0 + Z.of_nat (List.length (enc_groups (g :: gs'))) + Z.of_nat (List.length tl)) by lia.
  unfold bind at 1. rewrite E.
  set (pf := p0 + Z.of_nat (List.length (enc_groups (g :: gs')))) in *.
  replace (pf + Z.of_nat (List.length tl) - pf) with (Z.of_nat (List.length tl)) by lia.
  assert (Hpf : At pf (tl ++ rest)) by (unfold pf; apply At_app; exact Hat).
  unfold bind at 1. rewrite (append_len_at pf pf _ lv tl rest Hpf).
  unfold bind at 1.
  rewrite (consume_n_at _ (Z.of_nat (List.length tl)) (tl ++ rest)); [| exact Hpf | reflexivity | rewrite app_length; lia ].
  reflexivity.
Qed.

(* ... ending in ` as Trait` *)
Definition ra_text (gs : list rgroup) (ps : list (list Z)) (txt asrest : list Z) : list Z := enc_groups gs ++ asblock ps txt asrest.
Definition ra_ok (gs : list rgroup) (ps : list (list Z)) (txt asrest rest : list Z) : Prop :=
  Forall rgroup_ok gs /\ Forall plain_txt ps /\ plain_txt txt /\ starts_nondigit (ra_text gs ps txt asrest) /\
  0 < Z.of_nat (List.length (ra_text gs ps txt asrest)) < 1000000000 /\
  ((Z.of_nat (List.length (ra_text gs ps txt asrest)) =? 17) && hash17 (ra_text gs ps txt asrest)) = false /\
  noas gs (asblock ps txt asrest ++ rest).
Definition ra_src (gs : list rgroup) (ps : list (list Z)) (txt asrest : list Z) : list Z :=
  dec (Z.of_nat (List.length (ra_text gs ps txt asrest))) ++ ra_text gs ps txt asrest.

Lemma source_name_dollar_as_at : forall p o lv fnm gs ps txt asrest rest,
  At p (ra_src gs ps txt asrest ++ rest) -> ra_ok gs ps txt asrest rest ->
  dd_source_name true s 0 (NS p o lv fnm) =
  R 0 (St (p + Z.of_nat (List.length (ra_src gs ps txt asrest))) (ao (ao (tr_pairs (tr_groups (sep_out o fnm) gs) ps) txt) (str ">")) lv).
Proof.
  intros p o lv fnm gs ps txt asrest rest H [Hok [Hps [Htxt [Hsn [Hn [Hh Hna]]]]]].
  assert (Hsn2 : starts_nondigit (ra_text gs ps txt asrest ++ rest)).
  { clear - Hsn Hn. destruct (ra_text gs ps txt asrest) as [| x c']; [ cbn [List.length] in Hn; lia | exact Hsn ]. }
  set (c := ra_text gs ps txt asrest) in *. set (n := Z.of_nat (List.length c)) in *.
  assert (Hndef : n = Z.of_nat (List.length c)) by reflexivity.
  unfold ra_src in *. fold c in H. fold n in H. fold c. fold n. rewrite <- app_assoc in H.
  unfold dd_source_name. unfold NS at 1.
  erewrite bind_R; [| apply (number_at _ n (c ++ rest)); [ exact H | reflexivity | exact Hn | exact Hsn2 ] ].
  rwf (n <? 0).
  apply At_app in H. set (p0 := p + Z.of_nat (List.length (dec n))) in *.
  stsimpl. fold p0.
  assert (Hfin : p + Z.of_nat (List.length (dec n ++ c)) = p0 + n) by (rewrite app_length; unfold p0; lia).
  rewrite Hfin. clearbody p0.
  assert (Hp0n : p0 + n <= L) by (destruct H as [H0 [H1 H2]]; rewrite app_length in H2; lia).
  pose proof (At_le _ _ H) as Hp0r.
  rewrite bind_eof. stsimpl. rwf (p0 >=? L).
  rewrite bind_gets, bind_gets. stsimpl. cbn [Z.eqb negb andb]. rwf (n >? L - p0).
  rewrite bind_gets, bind_getb, bind_gets. stsimpl. cbn [Z.eqb negb andb orb].
  assert (Hh2 : ((n =? 17) && hash17 (suffix s 0 p0)) = false).
  { destruct H as [H0 [H1 H2]]. rewrite H1. destruct (n =? 17) eqn:E17; [| reflexivity ]. cbn [andb] in *.
    rewrite hash17_app by lia. exact Hh. }
  rewrite Hh2.
  change (mkst p0 L o 0 lv 0 false fnm false false) with (NS p0 o lv fnm).
  unfold bind at 1. rewrite append_separator_at.
  (* the first '$' *)
  assert (Hat : At p0 (enc_groups gs ++ asblock ps txt asrest ++ rest)) by (unfold c, ra_text in H; rewrite <- app_assoc in H; exact H).
  set (d0 := match gs with [] => p0 + Z.of_nat (List.length (enc_pairs ps)) + Z.of_nat (List.length txt)
                        | g :: _ => p0 + Z.of_nat (List.length (rblock g)) end).
  assert (Hn2 : n = Z.of_nat (List.length (enc_groups gs)) + Z.of_nat (List.length (asblock ps txt asrest))).
  { rewrite Hndef. unfold c, ra_text. rewrite app_length. lia. }
  assert (Hsc : strchr_from s 0 p0 (ch "$") = Some d0 /\ d0 < p0 + n).
  { unfold strchr_from. chs. destruct H as [H0 [H1 H2]]. rewrite H1. unfold c, ra_text. rewrite <- app_assoc.
    destruct gs as [| g gs'].
    - cbn [enc_groups map List.concat app]. rewrite (asblock_first_dollar ps txt asrest rest Hps Htxt). unfold d0.
      split; [ f_equal; lia |]. cbn [enc_groups map List.concat List.length] in Hn2. unfold asblock in Hn2.
      repeat rewrite app_length in Hn2. change (List.length AS) with 12%nat in Hn2. lia.
    - inversion Hok as [| ? ? Hg Hgs ]; subst.
      unfold enc_groups at 1. cbn [map List.concat]. fold (enc_groups gs'). unfold enc_group at 1. rewrite <- !app_assoc. cbn [app].
      rewrite (index_of_first (rblock g) _ (rblock_nodollar g Hg)). unfold d0. split; [ reflexivity |].
      unfold enc_groups in Hn2. cbn [map List.concat] in Hn2. unfold enc_group at 1 in Hn2. repeat rewrite app_length in Hn2. cbn [List.length] in Hn2. lia. }
  destruct Hsc as [Hsc Hd0]. rewrite Hsc.
  rwf (d0 >? p0 + n).
  assert (Hgl : (List.length gs + 1 < S (Z.to_nat (slen s 0)))%nat).
  { pose proof (enc_groups_len gs) as Hel. destruct H as [Ha [_ Hb]]. unfold c, ra_text, asblock in Hb. repeat rewrite app_length in Hb.
    change (List.length AS) with 12%nat in Hb. unfold slen, flen in *. lia. }
  pose proof (dollar_groups_as gs (S (Z.to_nat (slen s 0))) p0 (sep_out o fnm) lv ps txt asrest rest Hok Hps Htxt Hat Hna Hgl) as E.
  cbv zeta in E. fold d0 in E.
  replace (p0 + n) with (p0 + Z.of_nat (List.length (enc_groups gs)) + Z.of_nat (List.length (asblock ps txt asrest))) by lia.
  unfold bind at 1. rewrite E.
  set (pf := p0 + Z.of_nat (List.length (enc_groups gs)) + Z.of_nat (List.length (asblock ps txt asrest))) in *.
  replace (pf - pf) with (Z.of_nat (List.length (@nil Z))) by (cbn; lia).
  assert (Hpf : At pf ([] ++ rest)).
  { unfold pf. cbn [app]. replace (p0 + Z.of_nat (List.length (enc_groups gs)) + Z.of_nat (List.length (asblock ps txt asrest)))
      with (p0 + Z.of_nat (List.length (enc_groups gs ++ asblock ps txt asrest))) by (rewrite app_length; lia).
    apply At_app. rewrite <- app_assoc. exact Hat. }
  unfold bind at 1. rewrite (append_len_at pf pf _ lv [] rest Hpf).
  unfold bind at 1.
  rewrite (consume_n_at _ (Z.of_nat (List.length (@nil Z))) ([] ++ rest)); [| exact Hpf | reflexivity | cbn [List.length app]; lia ].
  unfold NS, ao. stsimpl. cbn [List.length]. replace (pf + Z.of_nat 0) with pf by lia.
  destruct (tr_pairs (tr_groups (sep_out o fnm) gs) ps) as [y |]; rewrite ?app_nil_r; reflexivity.
Qed.

(* ---- a plain component inside a name that has `$` elsewhere *)
Lemma source_name_plain2 : forall p o lv fnm id rest,
  At p (src id ++ rest) -> ident_okb id = true ->
  dd_source_name true s 0 (NS p o lv fnm) =
  R 0 (St (p + Z.of_nat (List.length (src id))) (add_out (sep_out o fnm) id) lv).
Proof.
  intros p o lv fnm id rest H Hid.
  set (n := Z.of_nat (List.length id)).
  assert (Hndef : n = Z.of_nat (List.length id)) by reflexivity.
  pose proof (ident_len id Hid) as Hn. fold n in Hn.
  unfold src in *. fold n in H. fold n. rewrite <- app_assoc in H.
  unfold dd_source_name. unfold NS at 1.
  erewrite bind_R; [| apply (number_at _ n (id ++ rest)); [ exact H | reflexivity | exact Hn
                                                          | apply ident_starts_nondigit; exact Hid ] ].
  rwf (n <? 0).
  apply At_app in H. set (p0 := p + Z.of_nat (List.length (dec n))) in *.
  stsimpl. fold p0.
  assert (Hfin : p + Z.of_nat (List.length (dec n ++ id)) = p0 + n) by (rewrite app_length; unfold p0; lia).
  rewrite Hfin. clearbody p0.
  assert (Hp0n : p0 + n <= L) by (destruct H as [H0 [H1 H2]]; rewrite app_length in H2; lia).
  pose proof (At_le _ _ H) as Hp0r.
  rewrite bind_eof. stsimpl. rwf (p0 >=? L).
  rewrite bind_gets, bind_gets. stsimpl. cbn [Z.eqb negb andb]. rwf (n >? L - p0).
  rewrite bind_gets, bind_getb, bind_gets. stsimpl. cbn [Z.eqb negb andb orb].
  assert (Hh : ((n =? 17) && hash17 (suffix s 0 p0)) = false).
  { destruct H as [H0 [H1 H2]]. rewrite H1. pose proof (ident_nohash id Hid) as Hnh. rewrite <- Hndef in Hnh.
    destruct (n =? 17) eqn:E17; [| reflexivity ]. cbn [andb] in *. rewrite hash17_app by lia. exact Hnh. }
  rewrite Hh.
  change (mkst p0 L o 0 lv 0 false fnm false false) with (NS p0 o lv fnm).
  unfold bind at 1. rewrite append_separator_at.
  assert (Hsimple : (append_len s 0 p0 n;;; consume_n s 0 n;;; ret 0) (St p0 (sep_out o fnm) lv) =
                    R 0 (St (p0 + n) (add_out (sep_out o fnm) id) lv)).
  { unfold bind. rewrite Hndef. rewrite (append_len_at p0 p0 _ lv id rest H).
    rewrite (consume_n_at _ (Z.of_nat (List.length id)) (id ++ rest)); [| exact H | reflexivity | rewrite app_length; lia ].
    unfold ao, add_out. reflexivity. }
  assert (Hidnd : Forall (fun c => c <> 36) id) by (apply no_dollar_ident; exact Hid).
  unfold strchr_from. chs. pose proof H as [H0 [H1 H2]]. rewrite H1.
  pose proof (index_of_ge id rest Hidnd) as Hi.
  destruct (index_of 36 (id ++ rest)) as [d |]; [| exact Hsimple ].
  destruct (p0 + d >? p0 + n) eqn:Eg; [ exact Hsimple |].
  (* the '$' is the first byte behind the name: the loop does nothing *)
  cbn [dollar_loop]. assert (Ege : negb (p0 + d <? p0 + n) = true) by (apply negb_true_iff; apply Z.ltb_ge; lia).
  rewrite Ege. rewrite bind_ret. replace (p0 + n - p0) with n by lia. exact Hsimple.
Qed.

(* dd_unqualified_name around any <number>... component *)
Lemma unq_of_src : forall k p o lv fnm cenc rest p' o',
  At p (cenc ++ rest) -> 48 <= hd0 (cenc ++ rest) <= 57 ->
  dd_source_name true s 0 (NS p o lv fnm) = R 0 (St p' o' lv) -> At p' rest -> hd0 rest <> 66 ->
  run true s 0 (S k) FUnqualifiedName (NS p o lv fnm) = R 0 (St p' o' lv).
Proof.
  intros k p o lv fnm cenc rest p' o' H Hd Hsrc H' HB.
  cbn [run body]. unfold dd_unqualified_name. unfold NS at 1.
  destruct (cenc ++ rest) as [| d tl] eqn:E; [ cbn in Hd; lia |]. cbn [hd0] in Hd.
  erewrite bind_R; [| apply (curr_at _ (d :: tl)); [ exact H | reflexivity ] ].
  erewrite bind_R; [| apply (peek1_at _ d tl); [ exact H | reflexivity ] ].
  rewrite bind_eof. stsimpl. pose proof (At_lt _ _ _ H) as Hlt. rwf (p >=? L). cbn [hd0]. chs. cbn [Z.eqb].
  rwf (d =? 67). rwf (d =? 68). rwf (d =? 85). cbn [orb].
  unfold islower. rwf (97 <=? d). cbn [andb]. rwf (d =? 76).
  rewrite bind_ret. fold (NS p o lv fnm).
  erewrite bind_R; [| exact Hsrc ].
  unfold NS at 1.
  erewrite bind_R; [| apply (curr_at _ rest); [ exact H' | reflexivity ] ].
  rwf (hd0 rest =? 66). reflexivity.
Qed.

(* rest-independent form of the `as` condition *)
Fixpoint noas_c (gs : list rgroup) (tl : list Z) : Prop :=
  match gs with
  | [] => True
  | g :: r => (rg_code g = str "u20" -> prefix_of [97; 115] (enc_groups r ++ tl) = false) /\ noas_c r tl
  end.
Definition rest_ok (rest : list Z) : Prop := 48 <= hd0 rest <= 57 \/ hd0 rest = 69.

Lemma as_prefix_inv : forall code punct X, In (code, punct) rust_mappings ->
  prefix_of (str "$u20$as$u20$") (36 :: code ++ 36 :: X) = true -> code = str "u20" /\ prefix_of [97; 115] X = true.
Proof.
  intros code punct X H Hp. unfold rust_mappings in H. cbn [In] in H.
  repeat (destruct H as [H | H]; [ inversion H; subst; cbn in Hp; try discriminate |]); try contradiction.
  split; [ reflexivity |]. destruct X as [| a [| b X]]; cbn in Hp |- *; try discriminate.
  - rewrite andb_false_r in Hp. discriminate.
  - apply andb_prop in Hp. destruct Hp as [Ha Hp]. apply andb_prop in Hp. destruct Hp as [Hb _]. rewrite Ha, Hb. reflexivity.
Qed.
Lemma prefix_as_app : forall Y rest, prefix_of [97; 115] Y = false -> rest_ok rest -> prefix_of [97; 115] (Y ++ rest) = false.
Proof.
  intros Y rest H Hr. unfold rest_ok in Hr. destruct Y as [| a Y].
  - cbn [app]. destruct rest as [| r0 rest']; [ reflexivity |]. cbn [prefix_of hd0] in *. destruct Hr as [Hr | Hr]; rwf (97 =? r0); reflexivity.
  - destruct Y as [| b Y]; [| exact H ].
    cbn [app prefix_of] in *. destruct (97 =? a); [| reflexivity ]. cbn [andb].
    destruct rest as [| r0 rest']; [ reflexivity |]. cbn [hd0] in Hr. destruct Hr as [Hr | Hr]; rwf (115 =? r0); reflexivity.
Qed.
Lemma noas_lift : forall gs tl rest, Forall rgroup_ok gs -> noas_c gs tl -> rest_ok rest -> noas gs (tl ++ rest).
Proof.
  induction gs as [| g gs IH]; intros tl rest Hok Hn Hr; [ exact I |].
  inversion Hok as [| ? ? [_ [_ Hin]] Hgs ]; subst. destruct Hn as [Hn1 Hn2]. split; [| apply IH; assumption ].
  destruct (prefix_of (str "$u20$as$u20$") (36 :: rg_code g ++ 36 :: enc_groups gs ++ tl ++ rest)) eqn:E; [| reflexivity ].
  exfalso. destruct (as_prefix_inv _ _ _ Hin E) as [Ec Ep]. specialize (Hn1 Ec).
  rewrite app_assoc in Ep. rewrite (prefix_as_app _ rest Hn1 Hr) in Ep. discriminate.
Qed.

(* ---- components of a Rust path *)
Inductive rcomp := RPlain (id : list Z) | RDollar (gs : list rgroup) (tl : list Z)
  | RDollarAs (gs : list rgroup) (ps : list (list Z)) (txt asrest : list Z).
Definition rc_enc (c : rcomp) : list Z :=
  match c with RPlain id => src id | RDollar gs tl => rd_src gs tl | RDollarAs gs ps txt asrest => ra_src gs ps txt asrest end.
Definition rc_out (c : rcomp) (o : option (list Z)) (fnm : bool) : option (list Z) :=
  match c with
  | RPlain id => add_out (sep_out o fnm) id
  | RDollar gs tl => ao (tr_groups (sep_out o fnm) gs) tl
  | RDollarAs gs ps txt asrest => ao (ao (tr_pairs (tr_groups (sep_out o fnm) gs) ps) txt) (str ">")
  end.
Definition rc_ok (c : rcomp) : Prop :=
  match c with
  | RPlain id => ident_okb id = true
  | RDollar gs tl =>
      gs <> [] /\ Forall rgroup_ok gs /\ Forall (fun x => x <> 36) tl /\ starts_nondigit (rd_text gs tl) /\
      0 < Z.of_nat (List.length (rd_text gs tl)) < 1000000000 /\
      ((Z.of_nat (List.length (rd_text gs tl)) =? 17) && hash17 (rd_text gs tl)) = false /\ noas_c gs tl
  | RDollarAs gs ps txt asrest =>
      Forall rgroup_ok gs /\ Forall plain_txt ps /\ plain_txt txt /\ starts_nondigit (ra_text gs ps txt asrest) /\
      0 < Z.of_nat (List.length (ra_text gs ps txt asrest)) < 1000000000 /\
      ((Z.of_nat (List.length (ra_text gs ps txt asrest)) =? 17) && hash17 (ra_text gs ps txt asrest)) = false /\
      noas_c gs (asblock ps txt asrest)
  end.

Lemma rc_enc_hd : forall c rest, rc_ok c -> 48 <= hd0 (rc_enc c ++ rest) <= 57.
Proof.
  intros c rest H. destruct c as [id | gs tl | gs ps txt asrest]; cbn [rc_enc rc_ok] in *.
  - apply src_hd_digit. exact H.
  - destruct H as [_ [_ [_ [_ [Hn _]]]]]. unfold rd_src. rewrite <- app_assoc.
    destruct (hd0_dec_digit _ (rd_text gs tl ++ rest) Hn) as [Hd _]. apply isdigit_range. exact Hd.
  - destruct H as [_ [_ [_ [_ [Hn _]]]]]. unfold ra_src. rewrite <- app_assoc.
    destruct (hd0_dec_digit _ (ra_text gs ps txt asrest ++ rest) Hn) as [Hd _]. apply isdigit_range. exact Hd.
Qed.

Lemma unq_rcomp : forall c k p o lv fnm rest, rc_ok c -> At p (rc_enc c ++ rest) -> rest_ok rest ->
  run true s 0 (S k) FUnqualifiedName (NS p o lv fnm) =
  R 0 (St (p + Z.of_nat (List.length (rc_enc c))) (rc_out c o fnm) lv).
Proof.
  intros c k p o lv fnm rest Hok H Hr.
  assert (HB : hd0 rest <> 66) by (destruct Hr; lia).
  apply (unq_of_src k p o lv fnm (rc_enc c) rest); [ exact H | apply rc_enc_hd; exact Hok | | apply At_app; exact H | exact HB ].
  destruct c as [id | gs tl | gs ps txt asrest]; cbn [rc_enc rc_out rc_ok] in *.
  - apply (source_name_plain2 p o lv fnm id rest H Hok).
  - destruct Hok as [A [B [C [D [E [F G]]]]]].
    apply (source_name_dollar_at p o lv fnm gs tl rest H).
    repeat split; try assumption; try lia. apply noas_lift; assumption.
  - destruct Hok as [A [B [C [D [E [F G]]]]]].
    apply (source_name_dollar_as_at p o lv fnm gs ps txt asrest rest H).
    repeat split; try assumption; try lia. apply noas_lift; assumption.
Qed.

Definition rcs_enc (cs : list rcomp) : list Z := List.concat (map rc_enc cs).
Fixpoint rcs_out (o : option (list Z)) (fnm : bool) (cs : list rcomp) : option (list Z) :=
  match cs with [] => o | c :: r => rcs_out (rc_out c o fnm) false r end.

Lemma nested_rcomps : forall cs k p o lv fnm rest,
  At p (rcs_enc cs ++ rest) -> Forall rc_ok cs -> rest_ok rest ->
  run true s 0 (List.length cs + S k) (LNested 0) (NS p o lv fnm) =
  run true s 0 (S k) (LNested 0)
    (NS (p + Z.of_nat (List.length (rcs_enc cs))) (rcs_out o fnm cs) lv (match cs with [] => fnm | _ => false end)).
Proof.
  induction cs as [| c cs IH]; intros k p o lv fnm rest H Hok Hr.
  - cbn [List.length rcs_enc map List.concat app rcs_out Nat.add]. replace (p + Z.of_nat 0) with p by lia. reflexivity.
  - inversion Hok as [| ? ? Hc Hcs]; subst.
    unfold rcs_enc in *. cbn [map List.concat] in *. rewrite <- app_assoc in H.
    cbn [List.length Nat.add]. cbn [run body]. unfold nested_loop.
    pose proof (rc_enc_hd c (List.concat (map rc_enc cs) ++ rest) Hc) as Hd.
    destruct (rc_enc c ++ List.concat (map rc_enc cs) ++ rest) as [| d tl] eqn:E; [ cbn in Hd; lia |].
    cbn [hd0] in Hd. unfold NS at 1.
    erewrite bind_R; [| apply (curr_at _ (d :: tl)); [ exact H | reflexivity ] ].
    rewrite bind_eof. stsimpl. pose proof (At_lt _ _ _ H) as Hlt. rwf (p >=? L). cbn [hd0]. chs. cbn [Z.eqb].
    rwf (d =? 69). cbn [orb negb].
    erewrite bind_R; [| apply (peek1_at _ d tl); [ exact H | reflexivity ] ].
    rwf (d =? 68). rwf (d =? 67). cbn [andb orb]. rwf (d =? 85). cbn [orb].
    unfold islower, isdigit. rwf (97 <=? d). rwt (48 <=? d). rwt (d <=? 57). cbn [andb orb].
    rewrite <- E in H.
    assert (Hr2 : rest_ok (List.concat (map rc_enc cs) ++ rest)).
    { destruct cs as [| c2 cs2]; [ exact Hr |]. inversion Hcs; subst. cbn [map List.concat]. rewrite <- app_assoc.
      left. apply rc_enc_hd. assumption. }
    replace (List.length cs + S k)%nat with (S (List.length cs + k)) by lia.
    fold (NS p o lv fnm).
    erewrite bind_R; [| apply (unq_rcomp c _ p o lv fnm (List.concat (map rc_enc cs) ++ rest)); assumption ].
    replace (S (List.length cs + k)) with (List.length cs + S k)%nat by lia.
    rewrite (IH k _ _ lv false rest (At_app _ _ _ H) Hcs Hr).
    cbn [rcs_out]. rewrite app_length.
    replace (p + Z.of_nat (List.length (rc_enc c)) + Z.of_nat (List.length (List.concat (map rc_enc cs))))
      with (p + Z.of_nat (List.length (rc_enc c) + List.length (List.concat (map rc_enc cs)))) by lia.
    destruct cs; reflexivity.
Qed.

(* _ZN <component>+ 17h<hash> E  with escapes in the components *)
Lemma rust2_encoding_at : forall c cs h F x,
  s = str "_ZN" ++ rcs_enc (c :: cs) ++ str "17" ++ h ++ [69] ->
  Forall rc_ok (c :: cs) -> hash_okb h = true -> rcs_out None true (c :: cs) = Some x -> L <= INT_MAX ->
  (List.length (c :: cs) + 8 <= F)%nat ->
  run true s 0 F FEncoding (st0 L) = R 0 (NS L (Some x) 0 false).
Proof.
  intros c cs h F x Hs Hok Hh Hx HL HF.
  set (comps := c :: cs) in *.
  set (body := rcs_enc comps ++ str "17" ++ h ++ [69]) in *.
  assert (H0 : At 0 (95 :: 90 :: 78 :: body)).
  { unfold At. split; [ lia |]. split; [ unfold suffix; cbn [Z.add Z.to_nat skipn]; rewrite Hs; reflexivity |].
    unfold flen. rewrite Hs. cbn [str app List.length]. lia. }
  pose proof (At_cons _ _ _ H0) as H1. pose proof (At_cons _ _ _ H1) as H2. cbn [Z.add Pos.add] in H1, H2.
  assert (Hhl : List.length h = 17%nat).
  { unfold hash_okb in Hh. apply andb_prop in Hh. destruct Hh as [Hlen _]. apply Nat.eqb_eq in Hlen. exact Hlen. }
  assert (HLen : L = 3 + Z.of_nat (List.length (rcs_enc comps)) + 19 + 1).
  { destruct H0 as [_ [_ HH]]. cbn [List.length] in HH. unfold body in HH.
    repeat rewrite app_length in HH. cbn [List.length str] in HH. lia. }
  destruct F as [| F1]; [ lia |]. destruct F1 as [| F2]; [ lia |]. destruct F2 as [| F3]; [ lia |].
  change (run true s 0 (S (S (S F3))) FEncoding) with (dd_encoding s 0 (run true s 0 (S (S F3)))).
  unfold dd_encoding, st0.
  pose proof (At_lt _ _ _ H0) as HL0.
  rewrite bind_eof. stsimpl. rwf (0 >=? L). cbn [Z.eqb].
  rewrite bind_gets. stsimpl. cbn [Z.eqb].
  erewrite bind_R; [| apply (consume_n_at _ 2 (95 :: 90 :: 78 :: body)); [ exact H0 | reflexivity | cbn [List.length]; lia ] ].
  stsimpl. cbn [Z.add]. unfold inc_level. rewrite bind_modify. stsimpl. cbn [Z.add].
  erewrite bind_R; [| apply (curr_at _ (78 :: body)); [ exact H2 | reflexivity ] ].
  cbn [hd0]. chs. cbn [Z.eqb Pos.eqb orb].
  set (pe := 3 + Z.of_nat (List.length (rcs_enc comps))).
  assert (H3 : At pe (str "17" ++ h ++ [69])).
  { unfold pe. apply (At_app _ (rcs_enc comps)). apply At_cons in H2. exact H2. }
  assert (H4 : At (pe + 19) [69]).
  { apply At_app in H3. apply At_app in H3. rewrite Hhl in H3. cbn [List.length str] in H3.
    replace (pe + Z.of_nat 2 + Z.of_nat 17) with (pe + 19) in H3 by lia. exact H3. }
  assert (Hname : run true s 0 (S (S F3)) FName (NS 2 None 1 true) = R 0 (NS L (Some x) 1 false)).
  { change (run true s 0 (S (S F3)) FName) with (dd_name true s 0 (run true s 0 (S F3))).
    unfold dd_name. unfold NS at 1.
    erewrite bind_R; [| apply (curr_at _ (78 :: body)); [ exact H2 | reflexivity ] ].
    pose proof (At_lt _ _ _ H2).
    rewrite bind_eof. stsimpl. rwf (2 >=? L). cbn [hd0]. chs. cbn [Z.eqb Pos.eqb].
    change (run true s 0 (S F3) FNestedName) with (dd_nested_name s 0 (run true s 0 F3)).
    unfold dd_nested_name.
    rewrite bind_eof. stsimpl. rwf (2 >=? L). cbn [Z.eqb].
    unfold expect at 1. unfold consume.
    erewrite bind_R; [| apply (consume_n_at _ 1 (78 :: body)); [ exact H2 | reflexivity | cbn [List.length]; lia ] ].
    cbn [hd0]. chs. cbn [Z.eqb Pos.eqb]. stsimpl.
    unfold inc_level. rewrite bind_modify. stsimpl. cbn [Z.add Pos.add].
    fold (NS 3 None 2 true).
    erewrite bind_R.
    2:{ replace F3 with (List.length comps + S (S (S (F3 - List.length comps - 3))))%nat at 1 by (cbn [List.length] in *; lia).
        rewrite (nested_rcomps comps _ 3 None 2 true (str "17" ++ h ++ [69])); try assumption.
        - rewrite Hx. change (match comps with [] => true | _ :: _ => false end) with false. fold pe.
          change (run true s 0 (S (S (S (F3 - List.length comps - 3)))) (LNested 0))
            with (nested_loop true s 0 (run true s 0 (S (S (F3 - List.length comps - 3)))) 0).
          unfold nested_loop. unfold NS at 1. cbn [str app] in H3.
          erewrite bind_R; [| apply (curr_at _ (49 :: 55 :: h ++ [69])); [ exact H3 | reflexivity ] ].
          pose proof (At_lt _ _ _ H3).
          rewrite bind_eof. stsimpl. rwf (pe >=? L). cbn [hd0]. chs. cbn [Z.eqb Pos.eqb orb negb].
          erewrite bind_R; [| apply (peek1_at _ 49 (55 :: h ++ [69])); [ exact H3 | reflexivity ] ].
          cbn [andb orb]. unfold islower, isdigit.
          cbn [Z.leb Z.compare Pos.compare Pos.compare_cont andb orb].
          fold (NS pe (Some x) 2 false).
          erewrite bind_R; [| apply (unq_hash _ pe _ 2 false h [69]); [ exact H3 | exact Hh | exact HL | cbn; lia ] ].
          apply (nested_end_plain _ (pe + 19) _ 2 false []). exact H4.
        - apply At_cons in H2. exact H2.
        - left. cbn. lia. }
    unfold expect. unfold consume. unfold NS at 1.
    erewrite bind_R; [| apply (consume_n_at _ 1 [69]); [ exact H4 | reflexivity | cbn [List.length]; lia ] ].
    cbn [hd0]. chs. cbn [Z.eqb Pos.eqb]. stsimpl.
    unfold dec_level. rewrite bind_modify. stsimpl. unfold ret, NS. cbn [Z.sub Z.add Z.opp Z.pos_sub Pos.pred_double].
    replace (pe + 19 + 1) with L by (unfold pe; lia). reflexivity. }
  fold (NS 2 None 1 true). erewrite bind_R; [| exact Hname ].
  cbn [Z.ltb Z.compare].
  assert (Hend : At L []).
  { replace L with (pe + 19 + Z.of_nat (List.length [69])) by (unfold pe; cbn [List.length]; lia).
    apply (At_app _ [69] []). exact H4. }
  (* the type loop stops at once: end of string *)
  erewrite bind_R.
  2:{ change (run true s 0 (S (S F3)) LEncTypes) with (enc_types_loop s 0 (run true s 0 (S F3))).
      unfold enc_types_loop, NS. rewrite bind_eof. stsimpl. rwt (L >=? L).
      erewrite bind_R; [| apply (curr_at _ []); [ exact Hend | reflexivity ] ].
      cbn [Z.eqb orb Pos.eqb]. reflexivity. }
  erewrite bind_R; [| apply (curr_at _ []); [ exact Hend | reflexivity ] ].
  cbn [hd0]. chs. cbn [Z.eqb]. rewrite bind_ret.
  erewrite bind_R; [| apply (curr_at _ []); [ exact Hend | reflexivity ] ].
  cbn [hd0 Z.eqb]. rewrite bind_ret.
  unfold dec_level. rewrite bind_modify. stsimpl. reflexivity.
Qed.
End Walk.

(* ================================================================ the formal mangler and the theorem *)
Record decl := mkdecl { d_first : list Z; d_rest : list (list Z); d_last : lastk; d_params : list Z }.
Definition scopes (d : decl) : list (list Z) := d_first d :: d_rest d.
(* _Z N <source-name>+ [C<n> | D<n> | <operator code>] E <builtin type>*  *)
Definition mangle (d : decl) : list Z :=
  str "_ZN" ++ srcs (scopes d) ++ last_enc (d_last d) ++ 69 :: d_params d.
Definition decl_okb (d : decl) : bool :=
  forallb ident_okb (scopes d) && last_okb (d_last d) && forallb is_builtin (d_params d)
  && (Z.of_nat (List.length (mangle d)) <=? INT_MAX).

Definition op_name (c0 c1 : Z) : list Z := match find_op ops c0 c1 with Some nm => nm | None => [] end.
(* the qualified function name without parameter list *)
Definition simple_name (d : decl) : list Z :=
  join_sep (scopes d) ++
  match d_last d with
  | LPlain => []
  | LCtor _ => str "::" ++ last (scopes d) []
  | LDtor _ => str "::~" ++ last (scopes d) []
  | LOp c0 c1 => str "::operator" ++ op_name c0 c1
  end.

(* ---- strrchr(new, ':') finds the last component *)
Lemma rindex_app : forall c a b i acc,
  rindex_of c (a ++ b) i acc = rindex_of c b (i + Z.of_nat (List.length a)) (rindex_of c a i acc).
Proof.
  induction a as [| x a IH]; intros b i acc; cbn [app rindex_of List.length].
  - replace (i + Z.of_nat 0) with i by lia. reflexivity.
  - rewrite IH. f_equal. lia.
Qed.
Lemma rindex_none : forall c a i acc, Forall (fun x => x <> c) a -> rindex_of c a i acc = acc.
Proof.
  induction a as [| x a IH]; intros i acc H; cbn [rindex_of]; [ reflexivity |].
  inversion H; subst. rwf (x =? c). apply IH. assumption.
Qed.
Definition no_colon (id : list Z) : Prop := Forall (fun x => x <> 58) id.
Lemma ident_no_colon : forall id, ident_okb id = true -> no_colon id.
Proof.
  intros id H. unfold ident_okb in H. apply andb_prop in H. destruct H as [H _].
  apply andb_prop in H. destruct H as [H _]. apply andb_prop in H. destruct H as [_ H].
  rewrite forallb_forall in H. apply Forall_forall. intros x Hx. specialize (H x Hx).
  unfold idchar, isdigit, isupper, islower in H. lia.
Qed.

Lemma last_segment_join : forall a cs, Forall no_colon (a :: cs) ->
  last_segment (join_sep (a :: cs)) = last (a :: cs) [].
Proof.
  intros a cs. revert a. induction cs as [| z cs' IH] using rev_ind; intros a H.
  - cbn [join_sep map List.concat last]. rewrite app_nil_r. unfold last_segment. change (ch ":") with 58.
    inversion H; subst. rewrite rindex_none by assumption. reflexivity.
  - change (a :: cs' ++ [z]) with ((a :: cs') ++ [z]) in *.
    rewrite last_last.
    assert (Hz : no_colon z).
    { apply Forall_app in H. destruct H as [_ H]. inversion H; assumption. }
    change ((a :: cs') ++ [z]) with (a :: cs' ++ [z]).
    cbn [join_sep]. rewrite map_app, concat_app. cbn [map List.concat]. rewrite app_nil_r.
    set (P := a ++ List.concat (map (fun id => str "::" ++ id) cs')).
    replace (a ++ List.concat (map (fun id => str "::" ++ id) cs') ++ str "::" ++ z)
      with (P ++ [58; 58] ++ z) by (unfold P; rewrite <- app_assoc; reflexivity).
    unfold last_segment. change (ch ":") with 58.
    rewrite rindex_app, rindex_app. rewrite (rindex_none 58 z) by assumption.
    cbn [rindex_of Z.eqb Pos.eqb List.length].
    replace (Z.to_nat (0 + Z.of_nat (List.length P) + 1 + 1)) with (List.length P + 2)%nat by lia.
    rewrite skipn_app. rewrite skipn_all2 by lia.
    replace (List.length P + 2 - List.length P)%nat with 2%nat by lia. reflexivity.
Qed.

Lemma srcs_length : forall cs, Forall (fun id => ident_okb id = true) cs ->
  (List.length cs <= List.length (srcs cs))%nat.
Proof.
  induction cs as [| id cs IH]; intros H; [ cbn; lia |].
  inversion H; subst. unfold srcs in *. cbn [map List.concat List.length]. rewrite app_length.
  specialize (IH ltac:(assumption)). pose proof (ident_len id ltac:(assumption)).
  assert (1 <= List.length (src id))%nat by (unfold src; rewrite app_length; lia).
  lia.
Qed.

Theorem roundtrip : forall d, decl_okb d = true -> demangle (mangle d) = Str (last_out (join_sep (scopes d)) (d_last d)).
Proof.
  intros d H. unfold decl_okb in H.
  apply andb_prop in H. destruct H as [H HL]. apply andb_prop in H. destruct H as [H Hpar].
  apply andb_prop in H. destruct H as [Hids Hl].
  assert (Hok : Forall (fun id => ident_okb id = true) (scopes d)).
  { apply Forall_forall. rewrite forallb_forall in Hids. exact Hids. }
  set (s := mangle d) in *.
  assert (Hs : s = str "_ZN" ++ srcs (d_first d :: d_rest d) ++ last_enc (d_last d) ++ 69 :: d_params d) by reflexivity.
  assert (Hnd : no_dollar (srcs (d_first d :: d_rest d) ++ last_enc (d_last d) ++ 69 :: d_params d)).
  { apply Forall_app. split; [ apply no_dollar_srcs; exact Hok |].
    apply Forall_app. split; [ apply no_dollar_last; exact Hl |].
    constructor; [ lia | apply no_dollar_params; exact Hpar ]. }
  assert (HLs : flen s <= INT_MAX) by (unfold flen; apply Z.leb_le; exact HL).
  assert (Hfuel : (List.length (d_first d :: d_rest d) + List.length (d_params d) + 8 <= fuel_of s)%nat).
  { unfold fuel_of. rewrite Hs. cbn [str]. repeat rewrite app_length. cbn [List.length].
    pose proof (srcs_length _ Hok). unfold scopes in *. cbn [List.length] in *. lia. }
  pose proof (encoding_at s (d_first d) (d_rest d) (d_last d) (d_params d) (fuel_of s) Hs Hok Hl Hpar Hnd HLs Hfuel) as E.
  unfold demangle, demangle_fuel.
  assert (Hpre : prefix_of prefix_str s = false) by (rewrite Hs; reflexivity).
  assert (Hm : mangled_form s = true) by (unfold mangled_form, stripped; rewrite Hpre, Hs; reflexivity).
  rewrite Hm, Hpre. cbn [negb].
  replace (Z.of_nat (List.length s) - 0) with (flen s) by (unfold flen; lia).
  rewrite E. cbn [of_res]. unfold NS. stsimpl. cbn [Z.ltb Z.compare Z.eqb orb negb].
  rwt (flen s >=? flen s). reflexivity.
Qed.

(* the readable form: <scope>::...::<last scope>[::<last scope> | ::~<last scope> | ::operator<op>] *)
Theorem roundtrip_simple_name : forall d, decl_okb d = true -> demangle (mangle d) = Str (simple_name d).
Proof.
  intros d H. rewrite (roundtrip d H). f_equal. unfold simple_name.
  assert (Hnc : Forall no_colon (scopes d)).
  { unfold decl_okb in H. apply andb_prop in H. destruct H as [H _]. apply andb_prop in H. destruct H as [H _].
    apply andb_prop in H. destruct H as [H _]. rewrite forallb_forall in H. apply Forall_forall.
    intros x Hx. apply ident_no_colon. apply H. exact Hx. }
  assert (Hl : last_okb (d_last d) = true).
  { unfold decl_okb in H. apply andb_prop in H. destruct H as [H _]. apply andb_prop in H. destruct H as [H _].
    apply andb_prop in H. destruct H as [_ H]. exact H. }
  destruct (d_last d) as [| kd | kd | c0 c1]; cbn [last_out].
  - rewrite app_nil_r. reflexivity.
  - unfold scopes in *. rewrite (last_segment_join _ _ Hnc). reflexivity.
  - unfold scopes in *. rewrite (last_segment_join _ _ Hnc). reflexivity.
  - unfold op_name. destruct (find_op ops c0 c1) as [nm |] eqn:E.
    + rewrite <- !app_assoc. reflexivity.
    + exfalso. cbn [last_okb] in Hl. rewrite E in Hl. rewrite andb_false_r in Hl. discriminate.
Qed.

(* non-vacuity: the guard holds on ordinary declarations and the result is what one expects *)
Definition d_ctor : decl := mkdecl (str "ns") [str "Cls"] (LCtor (ch "1")) (str "i").
Definition d_dtor : decl := mkdecl (str "v8") [str "internal"; str "Heap"] (LDtor (ch "0")) (str "v").
Definition d_op : decl := mkdecl (str "ns") [str "Cls"] (LOp (ch "p") (ch "L")) (str "i").
Definition d_fn : decl := mkdecl (str "ABC") [str "foo"] LPlain (str "v").
Example roundtrip_examples :
  decl_okb d_ctor = true /\ mangle d_ctor = str "_ZN2ns3ClsC1Ei" /\ simple_name d_ctor = str "ns::Cls::Cls" /\
  decl_okb d_dtor = true /\ mangle d_dtor = str "_ZN2v88internal4HeapD0Ev" /\
    simple_name d_dtor = str "v8::internal::Heap::~Heap" /\
  decl_okb d_op = true /\ mangle d_op = str "_ZN2ns3ClspLEi" /\ simple_name d_op = str "ns::Cls::operator+=" /\
  decl_okb d_fn = true /\ mangle d_fn = str "_ZN3ABC3fooEv" /\ simple_name d_fn = str "ABC::foo".
Proof. vm_compute. repeat split; reflexivity. Qed.

(* ================================================================ Rust legacy names and unscoped names *)
Lemma demangle_of_encoding : forall s o,
  prefix_of prefix_str s = false -> mangled_form s = true ->
  run true s 0 (fuel_of s) FEncoding (st0 (flen s)) = R 0 (NS s (flen s) (Some o) 0 false) ->
  demangle s = Str o.
Proof.
  intros s o Hpre Hm E. unfold demangle, demangle_fuel. rewrite Hm, Hpre. cbn [negb].
  replace (Z.of_nat (List.length s) - 0) with (flen s) by (unfold flen; lia).
  rewrite E. cbn [of_res]. unfold NS. stsimpl. cbn [Z.ltb Z.compare Z.eqb orb negb].
  rwt (flen s >=? flen s). reflexivity.
Qed.

Definition rust_mangle (a : list Z) (cs : list (list Z)) (h : list Z) : list Z :=
  str "_ZN" ++ srcs (a :: cs) ++ str "17" ++ h ++ [69].
Definition rust_okb (a : list Z) (cs : list (list Z)) (h : list Z) : bool :=
  forallb ident_okb (a :: cs) && hash_okb h && (Z.of_nat (List.length (rust_mangle a cs h)) <=? INT_MAX).

Lemma no_dollar_hash : forall h, hash_okb h = true -> no_dollar h.
Proof.
  intros h H. unfold hash_okb in H. apply andb_prop in H. destruct H as [Hl Hh]. apply Nat.eqb_eq in Hl.
  destruct h as [| h0 r]; [ discriminate |]. unfold hash17 in Hh.
  apply andb_prop in Hh. destruct Hh as [Hh _]. apply andb_prop in Hh. destruct Hh as [H0 Hx].
  cbn [List.length] in Hl. rewrite firstn_all2 in Hx by lia.
  constructor.
  - apply Z.eqb_eq in H0. change (ch "h") with 104 in H0. lia.
  - rewrite forallb_forall in Hx. apply Forall_forall. intros x Hin. specialize (Hx x Hin).
    unfold isxdigit, isdigit in Hx. lia.
Qed.

Theorem roundtrip_rust : forall a cs h, rust_okb a cs h = true ->
  demangle (rust_mangle a cs h) = Str (join_sep (a :: cs)).
Proof.
  intros a cs h H. unfold rust_okb in H.
  apply andb_prop in H. destruct H as [H HL]. apply andb_prop in H. destruct H as [Hids Hh].
  assert (Hok : Forall (fun id => ident_okb id = true) (a :: cs)).
  { apply Forall_forall. rewrite forallb_forall in Hids. exact Hids. }
  set (s := rust_mangle a cs h) in *.
  assert (Hs : s = str "_ZN" ++ srcs (a :: cs) ++ str "17" ++ h ++ [69]) by reflexivity.
  assert (Hnd : no_dollar (srcs (a :: cs) ++ str "17" ++ h ++ [69])).
  { apply Forall_app. split; [ apply no_dollar_srcs; exact Hok |].
    apply Forall_app. split; [ cbn; repeat constructor; lia |].
    apply Forall_app. split; [ apply no_dollar_hash; exact Hh | repeat constructor; lia ]. }
  assert (HLs : flen s <= INT_MAX) by (unfold flen; apply Z.leb_le; exact HL).
  assert (Hfuel : (List.length (a :: cs) + 8 <= fuel_of s)%nat).
  { unfold fuel_of. rewrite Hs. cbn [str]. repeat rewrite app_length. cbn [List.length].
    pose proof (srcs_length _ Hok). cbn [List.length] in *. lia. }
  apply demangle_of_encoding.
  - rewrite Hs. reflexivity.
  - unfold mangled_form, stripped. rewrite Hs. reflexivity.
  - apply (rust_encoding_at s a cs h (fuel_of s) Hs Hok Hh Hnd HLs Hfuel).
Qed.

Definition unscoped_mangle (id params : list Z) : list Z := str "_Z" ++ src id ++ params.
Definition unscoped_okb (id params : list Z) : bool :=
  ident_okb id && forallb is_builtin params && (Z.of_nat (List.length (unscoped_mangle id params)) <=? INT_MAX).

Theorem roundtrip_unscoped : forall id params, unscoped_okb id params = true ->
  demangle (unscoped_mangle id params) = Str id.
Proof.
  intros id params H. unfold unscoped_okb in H.
  apply andb_prop in H. destruct H as [H HL]. apply andb_prop in H. destruct H as [Hid Hpar].
  set (s := unscoped_mangle id params) in *.
  assert (Hs : s = str "_Z" ++ src id ++ params) by reflexivity.
  assert (HLs : flen s <= INT_MAX) by (unfold flen; apply Z.leb_le; exact HL).
  assert (Hfuel : (List.length params + 8 <= fuel_of s)%nat).
  { unfold fuel_of. rewrite Hs. cbn [str]. repeat rewrite app_length. cbn [List.length]. lia. }
  (* the first character after _Z is a digit: neither G (prefix) nor anything special *)
  pose proof (src_hd_digit id params Hid) as Hd.
  destruct (src id ++ params) as [| d tl] eqn:E.
  { exfalso. unfold src in E. destruct (hd0_dec_digit _ (id ++ params) (ident_len id Hid)) as [_ Hne].
    rewrite <- app_assoc in E. destruct (dec (Z.of_nat (List.length id))); [ contradiction | discriminate ]. }
  cbn [hd0] in Hd.
  apply demangle_of_encoding.
  - rewrite Hs. reflexivity.
  - unfold mangled_form, stripped.
    assert (Hp : prefix_of prefix_str s = false).
    { rewrite Hs. reflexivity. }
    rewrite Hp. rewrite Hs. reflexivity.
  - rewrite <- E in *. apply (unscoped_encoding_at s id params (fuel_of s) Hs Hid Hpar HLs Hfuel).
Qed.

Example roundtrip_examples2 :
  rust_okb (str "foo") [str "bar"] (str "h05af221e174051e9") = true /\
  rust_mangle (str "foo") [str "bar"] (str "h05af221e174051e9") = str "_ZN3foo3bar17h05af221e174051e9E" /\
  join_sep [str "foo"; str "bar"] = str "foo::bar" /\
  unscoped_okb (str "main_loop") (str "iPc") = false /\
  unscoped_okb (str "main_loop") (str "ic") = true /\
  unscoped_mangle (str "main_loop") (str "ic") = str "_Z9main_loopic".
Proof. vm_compute. repeat split; reflexivity. Qed.

(* ================================================================ class / function templates with builtin arguments *)
Record tdecl := mktdecl { t_first : list Z * list Z; t_rest : list (list Z * list Z); t_last : lastk; t_params : list Z }.
Definition tscopes (d : tdecl) : list (list Z * list Z) := t_first d :: t_rest d.
(* _Z N (<source-name> [I <builtin type>+ E])+ [C<n> | D<n> | <operator code>] E <builtin type>*  *)
Definition tmangle (d : tdecl) : list Z :=
  str "_ZN" ++ tsrcs (tscopes d) ++ last_enc (t_last d) ++ 69 :: t_params d.
Definition tdecl_okb (d : tdecl) : bool :=
  forallb tcomp_okb (tscopes d) && last_okb (t_last d) && forallb is_builtin (t_params d)
  && (Z.of_nat (List.length (tmangle d)) <=? INT_MAX).
(* the same declaration without its template-argument lists *)
Definition erase (d : tdecl) : decl := mkdecl (fst (t_first d)) (map fst (t_rest d)) (t_last d) (t_params d).

Lemma last_out_eq : forall a cs l, Forall (fun id => ident_okb id = true) (a :: cs) -> last_okb l = true ->
  last_out (join_sep (a :: cs)) l =
  join_sep (a :: cs) ++
  match l with
  | LPlain => []
  | LCtor _ => str "::" ++ last (a :: cs) []
  | LDtor _ => str "::~" ++ last (a :: cs) []
  | LOp c0 c1 => str "::operator" ++ op_name c0 c1
  end.
Proof.
  intros a cs l Hok Hl.
  assert (Hnc : Forall no_colon (a :: cs)).
  { eapply Forall_impl; [| exact Hok ]. intros x Hx. apply ident_no_colon. exact Hx. }
  destruct l as [| kd | kd | c0 c1]; cbn [last_out].
  - rewrite app_nil_r. reflexivity.
  - rewrite (last_segment_join _ _ Hnc). reflexivity.
  - rewrite (last_segment_join _ _ Hnc). reflexivity.
  - unfold op_name. destruct (find_op ops c0 c1) as [nm |] eqn:E.
    + rewrite <- !app_assoc. reflexivity.
    + exfalso. cbn [last_okb] in Hl. rewrite E in Hl. rewrite andb_false_r in Hl. discriminate.
Qed.

Lemma no_dollar_tsrcs : forall cs, forallb tcomp_okb cs = true -> no_dollar (tsrcs cs).
Proof.
  induction cs as [| [id ta] cs IH]; intros H; [ constructor |].
  cbn [forallb] in H. apply andb_prop in H. destruct H as [Hc Hcs].
  unfold tcomp_okb in Hc. cbn [fst snd] in Hc. apply andb_prop in Hc. destruct Hc as [Hid Hta].
  unfold tsrcs. cbn [map List.concat]. apply Forall_app. split; [| apply IH; exact Hcs ].
  unfold tenc. cbn [fst snd]. apply Forall_app. split; [ apply no_dollar_src; exact Hid |].
  destruct ta as [| t0 ts]; [ constructor |]. cbn [targs_enc].
  constructor; [ lia |]. apply Forall_app. split; [ apply no_dollar_params; exact Hta | repeat constructor; lia ].
Qed.

Lemma tcosts_bound : forall cs, forallb tcomp_okb cs = true -> (tcosts cs <= 8 * List.length (tsrcs cs))%nat.
Proof.
  induction cs as [| [id ta] cs IH]; intros H; [ cbn; lia |].
  cbn [forallb] in H. apply andb_prop in H. destruct H as [Hc Hcs].
  unfold tcomp_okb in Hc. cbn [fst snd] in Hc. apply andb_prop in Hc. destruct Hc as [Hid _].
  specialize (IH Hcs). unfold tsrcs in *. cbn [map List.concat tcosts fold_right]. fold (tcosts cs).
  rewrite app_length. unfold tenc at 1. cbn [fst snd]. rewrite app_length.
  pose proof (ident_len id Hid).
  assert (1 <= List.length (src id))%nat by (unfold src; rewrite app_length; lia).
  unfold tcost. cbn [snd]. destruct ta as [| t0 ts]; cbn [targs_enc List.length].
  - lia.
  - rewrite app_length. cbn [List.length]. lia.
Qed.

Theorem roundtrip_templates : forall d, tdecl_okb d = true -> demangle (tmangle d) = Str (simple_name (erase d)).
Proof.
  intros d H. unfold tdecl_okb in H.
  apply andb_prop in H. destruct H as [H HL]. apply andb_prop in H. destruct H as [H Hpar].
  apply andb_prop in H. destruct H as [Hok Hl].
  set (s := tmangle d) in *.
  assert (Hs : s = str "_ZN" ++ tsrcs (t_first d :: t_rest d) ++ last_enc (t_last d) ++ 69 :: t_params d) by reflexivity.
  assert (Hnd : no_dollar (tsrcs (t_first d :: t_rest d) ++ last_enc (t_last d) ++ 69 :: t_params d)).
  { apply Forall_app. split; [ apply no_dollar_tsrcs; exact Hok |].
    apply Forall_app. split; [ apply no_dollar_last; exact Hl |].
    constructor; [ lia | apply no_dollar_params; exact Hpar ]. }
  assert (HLs : flen s <= INT_MAX) by (unfold flen; apply Z.leb_le; exact HL).
  assert (Hfuel : (tcosts (t_first d :: t_rest d) + List.length (t_params d) + 10 <= fuel_of s)%nat).
  { unfold fuel_of. rewrite Hs. cbn [str]. repeat rewrite app_length. cbn [List.length].
    pose proof (tcosts_bound _ Hok). unfold tscopes in *. lia. }
  assert (Hids : Forall (fun id => ident_okb id = true) (map fst (t_first d :: t_rest d))).
  { apply Forall_forall. intros x Hx. apply in_map_iff in Hx. destruct Hx as [c [Hc1 Hc2]]. subst x.
    unfold tscopes in Hok. rewrite forallb_forall in Hok. specialize (Hok c Hc2).
    unfold tcomp_okb in Hok. apply andb_prop in Hok. tauto. }
  replace (simple_name (erase d)) with (last_out (join_sep (map fst (t_first d :: t_rest d))) (t_last d)).
  - apply demangle_of_encoding.
    + rewrite Hs. reflexivity.
    + unfold mangled_form, stripped. rewrite Hs. reflexivity.
    + apply (tencoding_at s (t_first d) (t_rest d) (t_last d) (t_params d) (fuel_of s) Hs Hok Hl Hpar Hnd HLs Hfuel).
  - cbn [map] in *. rewrite (last_out_eq _ _ _ Hids Hl). unfold simple_name, erase, scopes. cbn [d_first d_rest d_last].
    reflexivity.
Qed.

Definition td_ctor : tdecl :=
  mktdecl (str "v8", []) [(str "internal", []); (str "ScopedVector", str "c")] (LCtor (ch "1")) (str "i").
Definition td_fn : tdecl := mktdecl (str "ns", []) [(str "tf", str "il")] LPlain (str "ii").
Example roundtrip_examples3 :
  tdecl_okb td_ctor = true /\ tmangle td_ctor = str "_ZN2v88internal12ScopedVectorIcEC1Ei" /\
  simple_name (erase td_ctor) = str "v8::internal::ScopedVector::ScopedVector" /\
  tdecl_okb td_fn = true /\ tmangle td_fn = str "_ZN2ns2tfIilEEii" /\ simple_name (erase td_fn) = str "ns::tf".
Proof. vm_compute. repeat split; reflexivity. Qed.

(* ================================================================ cv / ref-qualified member functions *)
(* _Z N [V] [K] [R | O] (<source-name> [I <builtin type>+ E])+ [C<n> | D<n> | <operator code>] E <builtin type>*
   e.g. _ZNO5store3Buf4takeEv  =  int store::Buf::take() &&  *)
Definition qmangle (quals : list Z) (d : tdecl) : list Z :=
  str "_ZN" ++ quals ++ tsrcs (tscopes d) ++ last_enc (t_last d) ++ 69 :: t_params d.
Definition qdecl_okb (quals : list Z) (d : tdecl) : bool :=
  forallb qual_okb quals && forallb tcomp_okb (tscopes d) && last_okb (t_last d) && forallb is_builtin (t_params d)
  && (Z.of_nat (List.length (qmangle quals d)) <=? INT_MAX).

Theorem roundtrip_qualified : forall quals d, qdecl_okb quals d = true ->
  demangle (qmangle quals d) = Str (simple_name (erase d)).
Proof.
  intros quals d H. unfold qdecl_okb in H.
  apply andb_prop in H. destruct H as [H HL]. apply andb_prop in H. destruct H as [H Hpar].
  apply andb_prop in H. destruct H as [H Hl]. apply andb_prop in H. destruct H as [Hq Hok].
  set (s := qmangle quals d) in *.
  assert (Hs : s = str "_ZN" ++ quals ++ tsrcs (t_first d :: t_rest d) ++ last_enc (t_last d) ++ 69 :: t_params d) by reflexivity.
  assert (Hnd : no_dollar (tsrcs (t_first d :: t_rest d) ++ last_enc (t_last d) ++ 69 :: t_params d)).
  { apply Forall_app. split; [ apply no_dollar_tsrcs; exact Hok |].
    apply Forall_app. split; [ apply no_dollar_last; exact Hl |].
    constructor; [ lia | apply no_dollar_params; exact Hpar ]. }
  assert (HLs : flen s <= INT_MAX) by (unfold flen; apply Z.leb_le; exact HL).
  assert (Hfuel : (List.length quals + tcosts (t_first d :: t_rest d) + List.length (t_params d) + 10 <= fuel_of s)%nat).
  { unfold fuel_of. rewrite Hs. cbn [str]. repeat rewrite app_length. cbn [List.length].
    pose proof (tcosts_bound _ Hok). unfold tscopes in *. lia. }
  assert (Hids : Forall (fun id => ident_okb id = true) (map fst (t_first d :: t_rest d))).
  { apply Forall_forall. intros x Hx. apply in_map_iff in Hx. destruct Hx as [c [Hc1 Hc2]]. subst x.
    unfold tscopes in Hok. rewrite forallb_forall in Hok. specialize (Hok c Hc2).
    unfold tcomp_okb in Hok. apply andb_prop in Hok. tauto. }
  assert (Hpre : prefix_of prefix_str s = false).
  { rewrite Hs. reflexivity. }
  replace (simple_name (erase d)) with (last_out (join_sep (map fst (t_first d :: t_rest d))) (t_last d)).
  - apply demangle_of_encoding.
    + exact Hpre.
    + unfold mangled_form, stripped. rewrite Hpre. rewrite Hs. reflexivity.
    + apply (tqencoding_at s quals (t_first d) (t_rest d) (t_last d) (t_params d) (fuel_of s) Hs Hq Hok Hl Hpar Hnd HLs Hfuel).
  - cbn [map] in *. rewrite (last_out_eq _ _ _ Hids Hl). unfold simple_name, erase, scopes. cbn [d_first d_rest d_last].
    reflexivity.
Qed.

Definition td_take : tdecl := mktdecl (str "store", []) [(str "Buf", []); (str "take", [])] LPlain (str "v").
Definition td_qop : tdecl := mktdecl (str "store", []) [(str "Buf", str "i")] (LOp (ch "p") (ch "l")) (str "i").
Example roundtrip_examples4 :
  qdecl_okb (str "O") td_take = true /\ qmangle (str "O") td_take = str "_ZNO5store3Buf4takeEv" /\
  simple_name (erase td_take) = str "store::Buf::take" /\
  qdecl_okb (str "KR") td_qop = true /\ qmangle (str "KR") td_qop = str "_ZNKR5store3BufIiEplEi" /\
  simple_name (erase td_qop) = str "store::Buf::operator+" /\
  qdecl_okb (str "r") td_take = false.
Proof. vm_compute. repeat split; reflexivity. Qed.

(* ================================================================ general parameter types *)
(* _Z N [V][K][R|O] (<source-name> [I <builtin>+ E])+ [C<n> | D<n> | <operator>] E <type>*   with
   <type> ::= (r|V|K|P|R|O|C|G)* (<builtin> | S <seq-id> _ | <source-name> | N (<source-name> | S <seq-id> _)* E)
   and <seq-id> any string of digits and upper-case letters (base 36, any number of candidates) *)
Definition ymangle (quals : list Z) (d : tdecl) (tys : list ty) : list Z :=
  str "_ZN" ++ quals ++ tsrcs (tscopes d) ++ last_enc (t_last d) ++ 69 :: tys_enc tys.
Definition ydecl_okb (quals : list Z) (d : tdecl) (tys : list ty) : bool :=
  forallb qual_okb quals && forallb tcomp_okb (tscopes d) && last_okb (t_last d) && forallb ty_okb tys
  && (Z.of_nat (List.length (ymangle quals d tys)) <=? INT_MAX).

Lemma no_dollar_nitems : forall items, forallb nitem_okb items = true -> no_dollar (nitems_enc items).
Proof.
  induction items as [| i items IH]; intros H; [ constructor |].
  cbn [forallb] in H. apply andb_prop in H. destruct H as [Hi H].
  unfold nitems_enc. cbn [map List.concat]. apply Forall_app. split; [| apply IH; exact H ].
  destruct i as [id | seq]; cbn [nitem_enc nitem_okb] in *.
  - apply no_dollar_src. exact Hi.
  - constructor; [ lia |]. apply Forall_app. split; [ apply no_dollar_seq; exact Hi | repeat constructor; lia ].
Qed.
Lemma no_dollar_ty : forall t, ty_okb t = true -> no_dollar (ty_enc t).
Proof.
  intros [quals b] H. unfold ty_okb, ty_enc in *. cbn [ty_quals ty_base] in *.
  apply andb_prop in H. destruct H as [Hq Hb]. apply Forall_app. split.
  - rewrite forallb_forall in Hq. apply Forall_forall. intros x Hx. specialize (Hq x Hx).
    unfold tyqual_okb in Hq. cbn in Hq.
    repeat (apply orb_prop in Hq; destruct Hq as [Hq | Hq]); try discriminate; apply Z.eqb_eq in Hq; lia.
  - destruct b as [c | seq | id | items]; cbn [tbase_enc tbase_okb] in *.
    + constructor; [| constructor ]. destruct (builtin_facts c Hb) as [_ [_ [_ [_ [_ [_ [_ [_ [_ [_ [_ [_ [_ F]]]]]]]]]]]]]. exact F.
    + constructor; [ lia |]. apply Forall_app. split; [ apply no_dollar_seq; exact Hb | repeat constructor; lia ].
    + apply no_dollar_src. exact Hb.
    + constructor; [ lia |]. apply Forall_app. split; [ apply no_dollar_nitems; exact Hb | repeat constructor; lia ].
Qed.
Lemma no_dollar_tys : forall tys, forallb ty_okb tys = true -> no_dollar (tys_enc tys).
Proof.
  induction tys as [| t tys IH]; intros H; [ constructor |].
  cbn [forallb] in H. apply andb_prop in H. destruct H as [Ht H].
  unfold tys_enc. cbn [map List.concat]. apply Forall_app. split; [ apply no_dollar_ty; exact Ht | apply IH; exact H ].
Qed.

Lemma nitems_length : forall items, forallb nitem_okb items = true ->
  (List.length items <= List.length (nitems_enc items))%nat.
Proof.
  induction items as [| i items IH]; intros H; [ cbn; lia |].
  cbn [forallb] in H. apply andb_prop in H. destruct H as [Hi H]. specialize (IH H).
  unfold nitems_enc in *. cbn [map List.concat List.length]. rewrite app_length.
  assert (1 <= List.length (nitem_enc i))%nat.
  { destruct i as [id | seq]; cbn [nitem_enc nitem_okb List.length] in *; [| lia ].
    pose proof (ident_len id Hi). unfold src. rewrite app_length. lia. }
  lia.
Qed.
Lemma tys_cost_bound : forall tys, forallb ty_okb tys = true ->
  (tys_cost tys + List.length tys <= 8 * List.length (tys_enc tys))%nat.
Proof.
  induction tys as [| [quals b] tys IH]; intros H; [ cbn; lia |].
  cbn [forallb] in H. apply andb_prop in H. destruct H as [Ht H]. specialize (IH H).
  unfold tys_enc in *. cbn [map List.concat tys_cost fold_right List.length]. fold (tys_cost tys).
  set (X := List.concat (map ty_enc tys)) in *. clearbody X.
  rewrite app_length. unfold ty_cost, ty_enc. cbn [ty_quals ty_base]. rewrite app_length.
  unfold ty_okb in Ht. cbn [ty_quals ty_base] in Ht. apply andb_prop in Ht. destruct Ht as [_ Hb].
  assert (tbase_cost b + 2 <= 8 * List.length (tbase_enc b))%nat.
  { destruct b as [c | seq | id | items]; cbn [tbase_cost tbase_enc tbase_okb List.length] in *; try lia.
    - pose proof (ident_len id Hb). unfold src. rewrite app_length. lia.
    - rewrite app_length. cbn [List.length]. pose proof (nitems_length items Hb). lia. }
  lia.
Qed.

Theorem roundtrip_typed : forall quals d tys, ydecl_okb quals d tys = true ->
  demangle (ymangle quals d tys) = Str (simple_name (erase d)).
Proof.
  intros quals d tys H. unfold ydecl_okb in H.
  apply andb_prop in H. destruct H as [H HL]. apply andb_prop in H. destruct H as [H Hpar].
  apply andb_prop in H. destruct H as [H Hl]. apply andb_prop in H. destruct H as [Hq Hok].
  set (s := ymangle quals d tys) in *.
  assert (Hs : s = str "_ZN" ++ quals ++ tsrcs (t_first d :: t_rest d) ++ last_enc (t_last d) ++ 69 :: tys_enc tys) by reflexivity.
  assert (Hnd : no_dollar (tsrcs (t_first d :: t_rest d) ++ last_enc (t_last d) ++ 69 :: tys_enc tys)).
  { apply Forall_app. split; [ apply no_dollar_tsrcs; exact Hok |].
    apply Forall_app. split; [ apply no_dollar_last; exact Hl |].
    constructor; [ lia | apply no_dollar_tys; exact Hpar ]. }
  assert (HLs : flen s <= INT_MAX) by (unfold flen; apply Z.leb_le; exact HL).
  assert (Hfuel : (List.length quals + tcosts (t_first d :: t_rest d) + tys_cost tys + List.length tys + 10 <= fuel_of s)%nat).
  { unfold fuel_of. rewrite Hs. cbn [str]. repeat rewrite app_length. cbn [List.length].
    pose proof (tcosts_bound _ Hok). pose proof (tys_cost_bound _ Hpar). unfold tscopes in *. lia. }
  assert (Hids : Forall (fun id => ident_okb id = true) (map fst (t_first d :: t_rest d))).
  { apply Forall_forall. intros x Hx. apply in_map_iff in Hx. destruct Hx as [c [Hc1 Hc2]]. subst x.
    unfold tscopes in Hok. rewrite forallb_forall in Hok. specialize (Hok c Hc2).
    unfold tcomp_okb in Hok. apply andb_prop in Hok. tauto. }
  assert (Hpre : prefix_of prefix_str s = false) by (rewrite Hs; reflexivity).
  replace (simple_name (erase d)) with (last_out (join_sep (map fst (t_first d :: t_rest d))) (t_last d)).
  - apply demangle_of_encoding.
    + exact Hpre.
    + unfold mangled_form, stripped. rewrite Hpre. rewrite Hs. reflexivity.
    + apply (tyencoding_at s quals (t_first d) (t_rest d) (t_last d) tys (fuel_of s) Hs Hq Hok Hl Hpar Hnd HLs Hfuel).
  - cbn [map] in *. rewrite (last_out_eq _ _ _ Hids Hl). unfold simple_name, erase, scopes. cbn [d_first d_rest d_last].
    reflexivity.
Qed.

(* void store::Buf::put(const char*, store::Buf&, store::Buf*, <18th candidate>, <37th candidate>, Other) const & *)
Definition ty_ex : list ty :=
  [ mkty (str "PK") (BBuiltin (ch "c"));
    mkty (str "R") (BNested [ISub []; ISrc (str "Buf")]);
    mkty (str "P") (BSubst (str "0"));
    mkty [] (BSubst (str "G"));
    mkty (str "K") (BSubst (str "10"));
    mkty [] (BSrc (str "Other")) ].
Definition td_put : tdecl := mktdecl (str "store", []) [(str "Buf", []); (str "put", [])] LPlain [].
Example roundtrip_examples5 :
  ydecl_okb (str "KR") td_put ty_ex = true /\
  ymangle (str "KR") td_put ty_ex = str "_ZNKR5store3Buf3putEPKcRNS_3BufEPS0_SG_KS10_5Other" /\
  simple_name (erase td_put) = str "store::Buf::put".
Proof. vm_compute. repeat split; reflexivity. Qed.

(* ================================================================ the general formal mangler *)
(* _Z N [V][K][R|O] (<source-name> [<targs>])+ [C<n> | D<n> | <operator>] E <type>*   with the mutually recursive
   grammar TyL / TA / TAL / NI above: template arguments are types or literals, types may carry template
   arguments, nested names and base-36 substitutions, to any depth *)
Definition gmangle (quals enc : list Z) (l : lastk) (ptxt : list Z) : list Z :=
  str "_ZN" ++ quals ++ enc ++ last_enc l ++ 69 :: ptxt.
Definition gname (ids : list (list Z)) (l : lastk) : list Z :=
  join_sep ids ++
  match l with
  | LPlain => []
  | LCtor _ => str "::" ++ last ids []
  | LDtor _ => str "::~" ++ last ids []
  | LOp c0 c1 => str "::operator" ++ op_name c0 c1
  end.

Lemma last_segment_join_gen : forall a cs, no_colon (last (a :: cs) []) ->
  last_segment (join_sep (a :: cs)) = last (a :: cs) [].
Proof.
  intros a cs. revert a. induction cs as [| z cs' IH] using rev_ind; intros a H.
  - cbn [join_sep map List.concat last] in *. rewrite app_nil_r. unfold last_segment. change (ch ":") with 58.
    rewrite rindex_none by assumption. reflexivity.
  - change (a :: cs' ++ [z]) with ((a :: cs') ++ [z]) in *.
    rewrite last_last in *.
    change ((a :: cs') ++ [z]) with (a :: cs' ++ [z]).
    cbn [join_sep]. rewrite map_app, concat_app. cbn [map List.concat]. rewrite app_nil_r.
    set (P := a ++ List.concat (map (fun id => str "::" ++ id) cs')).
    replace (a ++ List.concat (map (fun id => str "::" ++ id) cs') ++ str "::" ++ z)
      with (P ++ [58; 58] ++ z) by (unfold P; rewrite <- app_assoc; reflexivity).
    unfold last_segment. change (ch ":") with 58.
    rewrite rindex_app, rindex_app. rewrite (rindex_none 58 z) by assumption.
    cbn [rindex_of Z.eqb Pos.eqb List.length].
    replace (Z.to_nat (0 + Z.of_nat (List.length P) + 1 + 1)) with (List.length P + 2)%nat by lia.
    rewrite skipn_app. rewrite skipn_all2 by lia.
    replace (List.length P + 2 - List.length P)%nat with 2%nat by lia. reflexivity.
Qed.
Definition needs_class (l : lastk) : bool := match l with LCtor _ | LDtor _ => true | _ => false end.

(* [ids] are the components as printed: identifiers, or "std", "std::allocator", ... for S t, S a, ... *)
Theorem roundtrip_general : forall quals n id ids enc l m ptxt,
  forallb qual_okb quals = true -> Comps n (id :: ids) enc -> last_okb l = true -> PTys m ptxt ->
  (needs_class l = true -> ident_okb (last (id :: ids) []) = true) ->
  Z.of_nat (List.length (gmangle quals enc l ptxt)) <= INT_MAX ->
  demangle (gmangle quals enc l ptxt) = Str (gname (id :: ids) l).
Proof.
  intros quals n id ids enc l m ptxt Hq Hc Hl Hpar Hcls HL.
  set (s := gmangle quals enc l ptxt) in *.
  assert (Hs : s = str "_ZN" ++ quals ++ enc ++ last_enc l ++ 69 :: ptxt) by reflexivity.
  assert (Hpnd : no_dollar ptxt).
  { clear - Hpar. induction Hpar; [ constructor |]. apply Forall_app. split; [| assumption ].
    apply (proj1 grammar_no_dollar n u). assumption. }
  assert (Hnd : no_dollar (enc ++ last_enc l ++ 69 :: ptxt)).
  { apply Forall_app. split; [ apply (Comps_no_dollar n (id :: ids) enc Hc) |].
    apply Forall_app. split; [ apply no_dollar_last; exact Hl |]. constructor; [ lia | exact Hpnd ]. }
  assert (Hpc : (m <= 6 * List.length ptxt + 1)%nat).
  { clear - Hpar. induction Hpar; [ cbn; lia |]. rewrite app_length.
    pose proof (proj1 grammar_cost n u H). lia. }
  assert (Hfuel : (List.length quals + n + m + 10 <= fuel_of s)%nat).
  { unfold fuel_of. rewrite Hs. cbn [str]. repeat rewrite app_length. cbn [List.length].
    pose proof (Comps_cost n (id :: ids) enc Hc). lia. }
  assert (Hpre : prefix_of prefix_str s = false) by (rewrite Hs; reflexivity).
  replace (gname (id :: ids) l) with (last_out (join_sep (id :: ids)) l).
  - apply demangle_of_encoding.
    + exact Hpre.
    + unfold mangled_form, stripped. rewrite Hpre. rewrite Hs. reflexivity.
    + apply (gencoding_at s quals n id ids enc l m ptxt (fuel_of s) Hs Hq Hc Hl Hpar Hnd HL Hfuel).
  - unfold gname. destruct l as [| kd | kd | c0 c1]; cbn [last_out needs_class] in *.
    + rewrite app_nil_r. reflexivity.
    + rewrite (last_segment_join_gen _ _ (ident_no_colon _ (Hcls eq_refl))). reflexivity.
    + rewrite (last_segment_join_gen _ _ (ident_no_colon _ (Hcls eq_refl))). reflexivity.
    + unfold op_name. destruct (find_op ops c0 c1) as [nm |] eqn:E.
      * rewrite <- !app_assoc. reflexivity.
      * exfalso. cbn [last_okb] in Hl. rewrite E in Hl. rewrite andb_false_r in Hl. discriminate.
Qed.

Definition std_unscoped_mangle (id ta ptxt : list Z) : list Z := str "_ZSt" ++ src id ++ ta ++ ptxt.
Theorem roundtrip_std_unscoped : forall id n ta m ptxt,
  ident_okb id = true -> TA n ta -> PTys m ptxt ->
  Z.of_nat (List.length (std_unscoped_mangle id ta ptxt)) <= INT_MAX ->
  demangle (std_unscoped_mangle id ta ptxt) = Str (str "std::" ++ id).
Proof.
  intros id n ta m ptxt Hid Hta Hpar HL.
  set (s := std_unscoped_mangle id ta ptxt) in *.
  assert (Hs : s = str "_ZSt" ++ src id ++ ta ++ ptxt) by reflexivity.
  assert (Hpnd : no_dollar ptxt).
  { clear - Hpar. induction Hpar; [ constructor |]. apply Forall_app. split; [| assumption ].
    apply (proj1 grammar_no_dollar n u). assumption. }
  assert (Hnd : no_dollar (id ++ ta ++ ptxt)).
  { apply Forall_app. split; [ apply no_dollar_ident; exact Hid |]. apply Forall_app. split; [| exact Hpnd ].
    apply (proj1 (proj2 grammar_no_dollar) n ta Hta). }
  assert (Hpc : (m <= 6 * List.length ptxt + 1)%nat).
  { clear - Hpar. induction Hpar; [ cbn; lia |]. rewrite app_length. pose proof (proj1 grammar_cost n u H). lia. }
  assert (Hfuel : (n + m + 10 <= fuel_of s)%nat).
  { unfold fuel_of. rewrite Hs. cbn [str]. repeat rewrite app_length. cbn [List.length].
    pose proof (proj1 (proj2 grammar_cost) n ta Hta). lia. }
  assert (Hpre : prefix_of prefix_str s = false) by (rewrite Hs; reflexivity).
  apply demangle_of_encoding.
  - exact Hpre.
  - unfold mangled_form, stripped. rewrite Hpre. rewrite Hs. reflexivity.
  - apply (std_unscoped_encoding_at s id n ta m ptxt (fuel_of s) Hs Hid Hta Hpar Hnd); [ unfold flen; exact HL | exact Hfuel ].
Qed.

(* non-vacuity:  void std::vector<app::Rec, std::allocator<app::Rec> >::push_back(app::Rec const&)   and   std::sort *)
Example roundtrip_examples7 :
  (exists n m enc ptxt,
     Comps n [str "std"; str "vector"; str "push_back"] enc /\ PTys m ptxt /\
     gmangle [] enc LPlain ptxt = str "_ZNSt6vectorIN3app3RecESaIS1_EE9push_backERKS1_" /\
     gname [str "std"; str "vector"; str "push_back"] LPlain = str "std::vector::push_back") /\
  (exists n m ta ptxt, TA n ta /\ PTys m ptxt /\
     std_unscoped_mangle (str "sort") ta ptxt = str "_ZSt4sortIPN3app3RecEEvS2_S2_").
Proof.
  split.
  - do 4 eexists. split; [| split; [| split ] ].
    + eapply (CP_abbr (ch "t") (str "std") _ [] _ _ _ eq_refl TA_none).
      eapply (CP_cons (str "vector") _ _ _ _ _ eq_refl).
      { eapply TA_some. eapply TAL_ty.
        { eapply TL_nested. eapply (NI_src (str "app") _ [] _ _ eq_refl TA_none).
          eapply (NI_src (str "Rec") _ [] _ _ eq_refl TA_none). apply NI_nil. }
        eapply TAL_ty.
        { eapply (TL_abbr (ch "a") (str "std::allocator") _ _ eq_refl); [ discriminate |].
          eapply TA_some. eapply TAL_ty; [ eapply (TL_subst (str "1") _ [] eq_refl TA_none) | apply TAL_nil ]. }
        apply TAL_nil. }
      eapply (CP_cons (str "push_back") _ [] _ _ _ eq_refl TA_none). apply CP_nil.
    + eapply PT_cons.
      { eapply (TL_qual (ch "R")); [ reflexivity |]. eapply (TL_qual (ch "K")); [ reflexivity |].
        eapply (TL_subst (str "1") _ [] eq_refl TA_none). }
      apply PT_nil.
    + vm_compute. reflexivity.
    + vm_compute. reflexivity.
  - do 4 eexists. split; [| split ].
    + eapply TA_some. eapply TAL_ty.
      { eapply (TL_qual (ch "P")); [ reflexivity |]. eapply TL_nested.
        eapply (NI_src (str "app") _ [] _ _ eq_refl TA_none). eapply (NI_src (str "Rec") _ [] _ _ eq_refl TA_none). apply NI_nil. }
      apply TAL_nil.
    + eapply PT_cons; [ apply (TL_builtin (ch "v")); reflexivity |].
      eapply PT_cons; [ eapply (TL_subst (str "2") _ [] eq_refl TA_none) |].
      eapply PT_cons; [ eapply (TL_subst (str "2") _ [] eq_refl TA_none) |]. apply PT_nil.
    + vm_compute. reflexivity.
Qed.

(* non-vacuity:  void app::Vec<app::Rec, app::Alloc<app::Rec> >::push(app::Rec const&, pointer to app::Vec<int, 3>) *)
Example roundtrip_examples6 :
  exists n m enc ptxt,
    Comps n [str "app"; str "Vec"; str "push"] enc /\ PTys m ptxt /\
    gmangle [] enc LPlain ptxt = str "_ZN3app3VecINS_3RecENS_5AllocIS0_EEE4pushERKS0_PNS_3VecIiLi3EEE" /\
    gname [str "app"; str "Vec"; str "push"] LPlain = str "app::Vec::push".
Proof.
  do 4 eexists. split; [| split; [| split ] ].
  - (* 3app  3Vec I NS_3RecE NS_5AllocIS0_EE E  4push *)
    eapply (CP_cons (str "app") _ [] _ _ _ eq_refl TA_none).
    eapply (CP_cons (str "Vec") _ _ _ _ _ eq_refl).
    { eapply TA_some. eapply TAL_ty.
      { eapply TL_nested. eapply (NI_sub [] _ [] _ _ eq_refl TA_none).
        eapply (NI_src (str "Rec") _ [] _ _ eq_refl TA_none). apply NI_nil. }
      eapply TAL_ty.
      { eapply TL_nested. eapply (NI_sub [] _ [] _ _ eq_refl TA_none).
        eapply (NI_src (str "Alloc") _ _ _ _ eq_refl).
        { eapply TA_some. eapply TAL_ty; [ eapply (TL_subst (str "0") _ [] eq_refl TA_none) | apply TAL_nil ]. }
        apply NI_nil. }
      apply TAL_nil. }
    eapply (CP_cons (str "push") _ [] _ _ _ eq_refl TA_none). apply CP_nil.
  - (* RKS0_  PNS_3VecIiLi3EEE *)
    eapply PT_cons.
    { eapply (TL_qual (ch "R")); [ reflexivity |]. eapply (TL_qual (ch "K")); [ reflexivity |].
      eapply (TL_subst (str "0") _ [] eq_refl TA_none). }
    eapply PT_cons.
    { eapply (TL_qual (ch "P")); [ reflexivity |]. eapply TL_nested.
      eapply (NI_sub [] _ [] _ _ eq_refl TA_none).
      eapply (NI_src (str "Vec") _ _ _ _ eq_refl).
      { eapply TA_some. eapply TAL_ty; [ apply (TL_builtin (ch "i")); reflexivity |].
        eapply (TAL_lit (ch "i") 3); [ reflexivity | lia | apply TAL_nil ]. }
      apply NI_nil. }
    apply PT_nil.
  - vm_compute. reflexivity.
  - vm_compute. reflexivity.
Qed.

(* ================================================================ Rust legacy names with escapes *)
(* _ZN <component>+ 17h<16 hex digits> E  where a component is an identifier, or
     <number> ( (<text> ..)* <text> $<code>$ )+ <tail>                      ($LT$ $GT$ $RF$ $u20$ ... and `..` -> `::`), or
     <number> ( (<text> ..)* <text> $<code>$ )* (<text> ..)* <text> $u20$as$u20$ <anything>     (` as Trait` is dropped, `>` printed) *)
Definition rust2_mangle (cs : list rcomp) (h : list Z) : list Z := str "_ZN" ++ rcs_enc cs ++ str "17" ++ h ++ [69].
Definition rust2_name (cs : list rcomp) : list Z := match rcs_out None true cs with Some x => x | None => [] end.

Lemma rcs_enc_length : forall cs, Forall rc_ok cs -> (List.length cs <= List.length (rcs_enc cs))%nat.
Proof.
  induction cs as [| c cs IH]; intros H; [ cbn; lia |]. inversion H; subst. specialize (IH ltac:(assumption)).
  unfold rcs_enc in *. cbn [map List.concat List.length]. rewrite app_length.
  assert (1 <= List.length (rc_enc c))%nat.
  { pose proof (rc_enc_hd c [] ltac:(assumption)) as Hd. rewrite app_nil_r in Hd. destruct (rc_enc c); [ cbn in Hd; lia | cbn; lia ]. }
  lia.
Qed.

Theorem roundtrip_rust2 : forall c cs h, Forall rc_ok (c :: cs) -> hash_okb h = true ->
  Z.of_nat (List.length (rust2_mangle (c :: cs) h)) <= INT_MAX ->
  demangle (rust2_mangle (c :: cs) h) = Str (rust2_name (c :: cs)).
Proof.
  intros c cs h Hok Hh HL.
  set (s := rust2_mangle (c :: cs) h) in *.
  assert (Hs : s = str "_ZN" ++ rcs_enc (c :: cs) ++ str "17" ++ h ++ [69]) by reflexivity.
  assert (Hx : exists x, rcs_out None true (c :: cs) = Some x).
  { cbn [rcs_out]. assert (G : forall cs0 o, exists x, rcs_out (Some o) false cs0 = Some x).
    { induction cs0 as [| c0 cs0 IH]; intros o; [ eexists; reflexivity |]. cbn [rcs_out].
      destruct c0; cbn [rc_out]; unfold add_out, ao; apply IH. }
    destruct c; cbn [rc_out]; unfold add_out, ao; apply G. }
  destruct Hx as [x Hx].
  assert (Hfuel : (List.length (c :: cs) + 8 <= fuel_of s)%nat).
  { unfold fuel_of. rewrite Hs. cbn [str]. repeat rewrite app_length. cbn [List.length].
    pose proof (rcs_enc_length _ Hok). cbn [List.length] in *. lia. }
  unfold rust2_name. rewrite Hx.
  apply demangle_of_encoding.
  - rewrite Hs. reflexivity.
  - unfold mangled_form, stripped. rewrite Hs. reflexivity.
  - apply (rust2_encoding_at s c cs h (fuel_of s) x Hs Hok Hh Hx); [ unfold flen; exact HL | exact Hfuel ].
Qed.

(* non-vacuity: the trait-impl name of utils/demangle.c's own unit test *)
Definition rc_stdout : rcomp :=
  RDollarAs [ mkrg [] (str "_") (str "LT") (str "<"); mkrg [] [] (str "RF") (str "&") ]
            [ str "std"; str "io"; str "stdio" ] (str "Stdout") (str "std..io..Write$GT$").
Example roundtrip_examples8 :
  Forall rc_ok [rc_stdout; RPlain (str "write_fmt")] /\
  rust2_mangle [rc_stdout; RPlain (str "write_fmt")] (str "h75c561f414a62159") =
    str "_ZN61_$LT$$RF$std..io..stdio..Stdout$u20$as$u20$std..io..Write$GT$9write_fmt17h75c561f414a62159E" /\
  rust2_name [rc_stdout; RPlain (str "write_fmt")] = str "_<&std::io::stdio::Stdout>::write_fmt".
Proof.
  split; [| split; vm_compute; reflexivity ].
  constructor; [| constructor; [ reflexivity | constructor ] ].
  cbn [rc_ok rc_stdout]. split.
  { constructor; [| constructor; [| constructor ] ]; (split; [ constructor | split; [ repeat constructor; discriminate | unfold rust_mappings; cbn [In]; tauto ] ]). }
  split. { repeat constructor; discriminate. }
  split. { repeat constructor; discriminate. }
  split. { vm_compute. reflexivity. }
  split. { vm_compute. split; reflexivity. }
  split. { vm_compute. reflexivity. }
  cbn [noas_c rg_code]. split; [ intros E; discriminate |]. split; [ intros E; discriminate | exact I ].
Qed.
