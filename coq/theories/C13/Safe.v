(* C13 - the current code (fixed = true): no NULL result; and, for names without '$', the only fault
   the model can still reach is a read BEFORE the first byte (the lower cursor bound is not proved) *)
From Coq Require Import ZArith List Bool Lia Ascii String.
Import ListNotations.
Require Import UV.C13.Model UV.C13.Proofs.
Local Open Scope Z_scope.

(* ================================================================ never NULL (wrapper level) *)
Lemma finish_fixed_str : forall s hp st, exists r, finish true s hp st = Str r.
Proof. intros s hp st. unfold finish. destruct (out st); eexists; reflexivity. Qed.

Lemma never_null : forall fuel s, demangle_fuel true fuel s <> Null.
Proof.
  intros fuel s. unfold demangle_fuel.
  destruct (negb (mangled_form s)); [ discriminate |].
  set (base := if prefix_of prefix_str s then 15 else 0).
  set (l := Z.of_nat (List.length s) - base).
  destruct (run true s base fuel FEncoding (st0 l)) as [v st | k |]; cbn [of_res]; try discriminate.
  destruct ((v <? 0) || negb (level st =? 0)); [ discriminate |].
  destruct (pos st >=? len st).
  { destruct (finish_fixed_str s (prefix_of prefix_str s) st) as [r E]. rewrite E. discriminate. }
  destruct (negb (type_info st)); [ discriminate |].
  destruct (run true s base fuel FName st) as [v2 st2 | k |]; cbn [of_res]; try discriminate.
  destruct (v2 <? 0); [ discriminate |].
  destruct (finish_fixed_str s (prefix_of prefix_str s) st2) as [r E]. rewrite E. discriminate.
Qed.

(* ================================================================ faults *)
Section Safe.
Variable full : list Z.
Variable base : Z.

Notation slen := (slen full base).
Notation flen := (flen full).
Notation inv := (inv full base).

Definition safe (m : M) : Prop :=
  forall st, inv st -> match m st with R _ st' => inv st' | Fault k => k = F_under_read | OOF => True end.

Lemma safe_ret : forall v, safe (ret v).
Proof. intros v st H. exact H. Qed.
Lemma safe_under : safe (fail F_under_read).
Proof. intros st H. reflexivity. Qed.
Lemma safe_bind : forall m k, safe m -> (forall v, safe (k v)) -> safe (bind m k).
Proof.
  intros m k Hm Hk st H. unfold bind. specialize (Hm st H).
  destruct (m st) as [v st' | |]; auto. apply Hk. exact Hm.
Qed.
Lemma safe_gets : forall f, safe (gets f).
Proof. intros f st H. exact H. Qed.
Lemma safe_getb : forall f, safe (getb f).
Proof. intros f st H. exact H. Qed.
Lemma safe_eof : safe eof.
Proof. intros st H. exact H. Qed.
Lemma safe_set_other : forall f,
  (forall st, pos (f st) = pos st /\ len (f st) = len st) -> safe (modify f).
Proof. intros f Hf st [Hp Hl]. destruct (Hf st) as [E1 E2]. unfold modify, Proofs.inv. rewrite E1, E2. split; auto. Qed.
Lemma safe_modify : forall f, (forall st, inv st -> inv (f st)) -> safe (modify f).
Proof. intros f Hf st H. apply Hf, H. Qed.

(* a read at an offset that is at most strlen can only fail by being before the string *)
Lemma rd_safe : forall i st, i <= slen -> match rd full base i st with R _ st' => st' = st | Fault k => k = F_under_read | OOF => True end.
Proof.
  intros i st Hi. unfold rd, Model.slen in *.
  destruct (base + i <? 0) eqn:E1; [ reflexivity |].
  destruct (base + i <? flen) eqn:E2; [ reflexivity |].
  destruct (base + i =? flen) eqn:E; [ reflexivity | lia ].
Qed.
Lemma safe_peek : forall la, safe (peek full base la).
Proof.
  intros la st [Hp Hl]. unfold peek. destruct (pos st + la >? len st) eqn:E; [ split; assumption |].
  pose proof (rd_safe (pos st + la) st ltac:(lia)) as Hr.
  destruct (rd full base (pos st + la) st); auto. subst. split; assumption.
Qed.
Lemma safe_curr : safe (curr full base).
Proof. apply safe_peek. Qed.
Lemma safe_consume_n : forall k, safe (consume_n full base k).
Proof.
  intros k st H. unfold consume_n. pose proof (safe_curr st H) as Hc.
  destruct (curr full base st) as [c st' | |]; auto.
  destruct (pos st + k >? len st) eqn:Hk; auto.
  destruct H as [Hp Hl]. split; simpl; auto. lia.
Qed.
Lemma safe_consume : safe (consume full base).
Proof. apply safe_consume_n. Qed.
Lemma safe_dbg : forall inc, inc <= 0 -> safe (dbg inc).
Proof. intros inc Hi st [Hp Hl]. split; simpl; auto. lia. Qed.
Lemma safe_expect : forall c k, safe k -> safe (expect full base c k).
Proof.
  intros c k Hk. unfold expect. apply safe_bind; [ apply safe_consume |].
  intros v. destruct (v =? c); auto.
  intros st [Hp Hl]. destruct (expected st); split; simpl; auto. lia.
Qed.
Lemma safe_inc_typ : safe inc_typ. Proof. apply safe_set_other. intros; split; reflexivity. Qed.
Lemma safe_dec_typ : safe dec_typ. Proof. apply safe_set_other. intros; split; reflexivity. Qed.
Lemma safe_inc_level : safe inc_level. Proof. apply safe_set_other. intros; split; reflexivity. Qed.
Lemma safe_dec_level : safe dec_level. Proof. apply safe_set_other. intros; split; reflexivity. Qed.
Lemma safe_inc_templates : safe inc_templates. Proof. apply safe_set_other. intros; split; reflexivity. Qed.
Lemma safe_dec_templates : safe dec_templates. Proof. apply safe_set_other. intros; split; reflexivity. Qed.
Lemma safe_append : forall s, safe (append s).
Proof. intros s st H. exact H. Qed.
Lemma safe_append_separator : forall s, safe (append_separator s).
Proof. intros s st H. unfold append_separator. destruct (first_name st); exact H. Qed.
Lemma safe_restore_on_fail : forall m, safe m -> safe (restore_on_fail m).
Proof.
  intros m Hm st H. unfold restore_on_fail. specialize (Hm st H).
  destruct (m st) as [r st' | |]; auto.
  destruct (r <? 0); auto. destruct H as [Hp Hl], Hm as [Hp' Hl']. split; simpl; auto.
Qed.

Lemma safe_dd_number : safe (dd_number full base).
Proof.
  intros st H. pose proof (pres_dd_number full base st H) as P. unfold dd_number in *.
  destruct (pos st >=? len st) eqn:He; [ exact H |].
  destruct H as [Hp Hl].
  pose proof (rd_safe (pos st) st ltac:(lia)) as Hr.
  destruct (rd full base (pos st) st) as [c stx | |] eqn:Hrd; auto.
  set (st1 := if c =? ch "n" then set_pos st (pos st + 1) else st) in *.
  assert (H1 : pos st1 <= slen).
  { unfold st1. destruct (c =? ch "n"); simpl; lia. }
  pose proof (rd_safe (pos st1) st1 H1) as Hr1.
  destruct (rd full base (pos st1) st1) as [c1 sty | |] eqn:Hrd1; auto.
  destruct (negb (isdigit c1)); [ exact P |].
  destruct (strtoul0 (suffix full base (pos st1))). exact P.
Qed.

Lemma safe_dd_seq_id : safe (dd_seq_id full base).
Proof.
  intros st H. pose proof (pres_dd_seq_id full base st H) as P. unfold dd_seq_id, bind in *.
  pose proof (safe_curr st H) as Hc.
  destruct (curr full base st) as [c st1 | |]; auto.
  unfold eof in *. destruct (pos st1 >=? len st1); simpl in *; auto.
Qed.

(* append_len with a source inside the string and a size that fits *)
Lemma append_len_safe : forall src size st, inv st -> src <= slen -> 0 <= size <= slen - src ->
  match append_len full base src size st with R _ st' => inv st' | Fault k => k = F_under_read | OOF => True end.
Proof.
  intros src size st H Hs Hz. unfold append_len, valid_ptr, Model.slen in *.
  destruct (base + src <? 0); [ reflexivity |].
  destruct (base + src <=? flen) eqn:E; [| lia ].
  destruct (out st) as [o |].
  - destruct (size + 1 <? 0) eqn:E1; [ lia |].
    destruct (Z.of_nat (List.length o) + size <? 0) eqn:E2; [ apply Z.ltb_lt in E2; lia |].
    destruct (size >? flen - base - src) eqn:E3; [ lia |].
    destruct (size <? 0); exact H.
  - destruct (size <? 0) eqn:E1; [ lia |].
    destruct (size >? flen - base - src) eqn:E3; [ lia |]. exact H.
Qed.

(* ---- the Rust `$` loop of dd_source_name (with the guard "the escape must end inside this name") *)
Definition safeQ (m : M) (Q : Z -> Prop) : Prop :=
  forall st, inv st -> match m st with R v st' => inv st' /\ Q v | Fault k => k = F_under_read | OOF => True end.

Lemma nth_skipn : forall (l : list Z) n k, nth k (skipn n l) 0 = nth (n + k) l 0.
Proof.
  induction l as [| a l IH]; intros n k.
  - rewrite skipn_nil. destruct k, n; reflexivity.
  - destruct n as [| n]; [ reflexivity |]. cbn [skipn Nat.add nth]. apply IH.
Qed.
Lemma index_of_spec : forall c l j, index_of c l = Some j ->
  0 <= j < Z.of_nat (List.length l) /\ nth (Z.to_nat j) l 0 = c.
Proof.
  induction l as [| a l IH]; intros j H; [ discriminate |].
  cbn [index_of] in H. destruct (a =? c) eqn:E.
  - inversion H; subst. apply Z.eqb_eq in E. cbn [List.length]. split; [ lia | exact E ].
  - destruct (index_of c l) as [k |]; [| discriminate ]. inversion H; subst.
    destruct (IH k eq_refl) as [Hk Hn]. cbn [List.length]. split; [ lia |].
    replace (Z.to_nat (k + 1)) with (S (Z.to_nat k)) by lia. exact Hn.
Qed.
Lemma index_of2_spec : forall c d l j, index_of2 c d l = Some j ->
  0 <= j /\ j + 2 <= Z.of_nat (List.length l) /\ nth (Z.to_nat j) l 0 = c /\ nth (S (Z.to_nat j)) l 0 = d.
Proof.
  induction l as [| a l IH]; intros j H; [ discriminate |].
  cbn [index_of2] in H. destruct l as [| b r]; [ discriminate |].
  destruct ((a =? c) && (b =? d)) eqn:E.
  - inversion H; subst. apply andb_prop in E. destruct E as [E1 E2]. apply Z.eqb_eq in E1, E2.
    cbn [List.length]. repeat split; try lia; assumption.
  - destruct (index_of2 c d (b :: r)) as [k |]; [| discriminate ]. inversion H; subst.
    destruct (IH k eq_refl) as [Hk [Hl [Hn1 Hn2]]]. cbn [List.length] in *.
    replace (Z.to_nat (k + 1)) with (S (Z.to_nat k)) by lia.
    repeat split; try lia; assumption.
Qed.

(* dollar is the offset of a '$' *)
Definition is_dollar (dollar : Z) : Prop :=
  0 <= base + dollar /\ base + dollar < flen /\ nth (Z.to_nat (base + dollar)) full 0 = 36.

Lemma strchr_from_spec : forall p d, 0 <= base + p -> strchr_from full base p (ch "$") = Some d ->
  p <= d /\ is_dollar d.
Proof.
  intros p d Hp H. unfold strchr_from, suffix in H. change (ch "$") with 36 in H.
  destruct (index_of 36 (skipn (Z.to_nat (base + p)) full)) as [j |] eqn:E; [| discriminate ].
  inversion H; subst. apply index_of_spec in E. destruct E as [Hj Hn].
  rewrite skipn_length in Hj. rewrite nth_skipn in Hn. unfold is_dollar, Model.flen.
  replace (Z.to_nat (base + (p + j))) with (Z.to_nat (base + p) + Z.to_nat j)%nat by lia.
  repeat split; try lia; exact Hn.
Qed.

Lemma append_len_safeQ : forall src size, src <= slen -> 0 <= size <= slen - src ->
  safeQ (append_len full base src size) (fun _ => 0 <= base + src).
Proof.
  intros src size Hs Hz st H. pose proof (append_len_safe src size st H Hs Hz) as A.
  unfold append_len, valid_ptr in *.
  destruct (base + src <? 0) eqn:E; [ exact A |].
  destruct (base + src <=? flen); [| exact A ].
  destruct (match out st with Some _ => _ | None => _ end); auto. split; [ exact A | lia ].
Qed.

Lemma safe_dots_loop : forall k sep dollar, sep <= dollar -> dollar <= slen -> is_dollar dollar ->
  safeQ (dots_loop full base k sep dollar) (fun r => sep <= r <= dollar).
Proof.
  induction k as [| k IH]; intros sep dollar Hsd Hd Hdol; cbn [dots_loop].
  - intros st H. exact I.
  - destruct (index_of2 (ch ".") (ch ".") (suffix full base sep)) as [j |] eqn:E.
    2:{ intros st H. split; [ exact H | lia ]. }
    destruct (sep + j >? dollar) eqn:Eu.
    { intros st H. split; [ exact H | lia ]. }
    intros st H. unfold bind.
    apply index_of2_spec in E. destruct E as [Hj [Hl [Hn1 Hn2]]].
    destruct (Z_lt_ge_dec (base + sep) 0) as [Hneg | Hpos].
    { (* the source pointer is before the string: append_len reports the under-read *)
      unfold append_len, valid_ptr. replace (base + sep <? 0) with true by lia. reflexivity. }
    unfold suffix in Hl, Hn1, Hn2. rewrite skipn_length in Hl. rewrite nth_skipn in Hn1, Hn2.
    assert (Hsl : sep + j + 2 <= slen) by (unfold Model.slen, Model.flen in *; lia).
    pose proof (append_len_safeQ sep (sep + j - sep) ltac:(lia) ltac:(lia) st H) as A.
    destruct (append_len full base sep (sep + j - sep) st) as [v1 st1 | |]; auto.
    destruct A as [A _].
    pose proof (safe_append_separator (str "::") st1 A) as B.
    destruct (append_separator (str "::") st1) as [v2 st2 | |]; auto.
    (* the two dots are not the dollar *)
    destruct Hdol as [D1 [D2 D3]]. change (ch ".") with 46 in *.
    assert (Hne : sep + j + 2 <= dollar).
    { destruct (Z.eq_dec (sep + j) dollar) as [E1 | E1].
      - exfalso. rewrite <- E1 in D3. replace (Z.to_nat (base + (sep + j))) with (Z.to_nat (base + sep) + Z.to_nat j)%nat in D3 by lia.
        rewrite D3 in Hn1. discriminate.
      - destruct (Z.eq_dec (sep + j + 1) dollar) as [E2 | E2]; [| lia ].
        exfalso. rewrite <- E2 in D3.
        replace (Z.to_nat (base + (sep + j + 1))) with (Z.to_nat (base + sep) + S (Z.to_nat j))%nat in D3 by lia.
        rewrite D3 in Hn2. discriminate. }
    pose proof (IH (sep + j + 2) dollar Hne Hd (conj D1 (conj D2 D3)) st2 B) as C.
    destruct (dots_loop full base k (sep + j + 2) dollar st2) as [v3 st3 | |]; auto.
    destruct C as [C1 C2]. split; [ exact C1 | lia ].
Qed.

Lemma safe_dollar_loop : forall k p dollar e, p <= dollar -> p <= e -> e <= slen -> is_dollar dollar ->
  safeQ (dollar_loop true full base k p dollar e) (fun r => r <= e).
Proof.
  induction k as [| k IH]; intros p dollar e Hpd Hpe He Hdol; cbn [dollar_loop].
  - intros st H. exact I.
  - destruct (negb (dollar <? e)) eqn:Ed.
    { intros st H. split; [ exact H | lia ]. }
    apply negb_false_iff in Ed. apply Z.ltb_lt in Ed.
    intros st H. unfold bind.
    pose proof (safe_dots_loop (S (Z.to_nat slen)) p dollar Hpd ltac:(lia) Hdol st H) as A.
    destruct (dots_loop full base (S (Z.to_nat slen)) p dollar st) as [sep st1 | |]; auto.
    destruct A as [A [As1 As2]].
    pose proof (append_len_safeQ sep (dollar - sep) ltac:(lia) ltac:(lia) st1 A) as B.
    destruct (append_len full base sep (dollar - sep) st1) as [v2 st2 | |]; auto.
    destruct B as [B Bsep].
    destruct (find_mapping rust_mappings (suffix full base (dollar + 1))) as [[code punc] |].
    2:{ split; [ exact B | lia ]. }
    cbn [andb].
    destruct (dollar + Z.of_nat (List.length code) + 2 >? e) eqn:Eg.
    { split; [ exact B | lia ]. }
    set (num' := if prefix_of (str "$u20$as$u20$") (suffix full base dollar)
                 then dollar - p + (e - dollar) else dollar - p + Z.of_nat (List.length code) + 2) in *.
    assert (Hn' : dollar < p + num' <= e) by (unfold num'; destruct (prefix_of _ _); lia).
    pose proof (safe_append (if prefix_of (str "$u20$as$u20$") (suffix full base dollar) then str ">" else punc) st2 B) as C.
    destruct (append _ st2) as [v3 st3 | |]; auto.
    pose proof (safe_consume_n num' st3 C) as D.
    destruct (consume_n full base num' st3) as [v4 st4 | |]; auto.
    unfold valid_ptr.
    destruct (base + (p + num') <? 0) eqn:E1; [ reflexivity |].
    destruct (base + (p + num') <=? flen) eqn:E2; [| unfold Model.slen in *; lia ].
    destruct (strchr_from full base (p + num') (ch "$")) as [dollar' |] eqn:Es.
    + apply strchr_from_spec in Es; [| lia ]. destruct Es as [Es1 Es2].
      apply (IH (p + num') dollar' e Es1 ltac:(lia) He Es2 st4 D).
    + split; [ exact D | lia ].
Qed.

Lemma dd_number_pos : forall st v st1, dd_number full base st = R v st1 -> 0 <= v -> 0 <= base + pos st1.
Proof.
  intros st v st1 H Hv. unfold dd_number in H.
  destruct (pos st >=? len st); [ inversion H; lia |].
  destruct (rd full base (pos st) st) as [c stx | |] eqn:Hr; try discriminate.
  set (st0 := if c =? ch "n" then set_pos st (pos st + 1) else st) in *.
  destruct (rd full base (pos st0) st0) as [c1 sty | |] eqn:Hr1; try discriminate.
  apply rd_ok_range in Hr1.
  destruct (negb (isdigit c1)); [ inversion H; lia |].
  destruct (strtoul0 (suffix full base (pos st0))) as [v0 cnt] eqn:Es. inversion H; subst.
  apply strtoul0_cnt in Es. simpl. lia.
Qed.

Lemma safe_dd_source_name : safe (dd_source_name true full base).
Proof.
  intros st H. unfold dd_source_name, bind.
  pose proof (safe_dd_number st H) as Hn.
  destruct (dd_number full base st) as [num st1 | |] eqn:Edn; auto.
  destruct (num <? 0) eqn:En; [ exact Hn |].
  unfold eof. destruct (pos st1 >=? len st1) eqn:Ee; cbn [Z.eqb].
  { apply (safe_dbg 0 ltac:(lia) st1 Hn). }
  unfold gets. cbn [negb andb].
  destruct (num >? len st1 - pos st1) eqn:Ec.
  { apply (safe_dbg 0 ltac:(lia) st1 Hn). }
  unfold getb.
  assert (Hc : forall stx, inv stx ->
               match (consume_n full base num ;;; ret 0) stx with
               | R _ st' => inv st' | Fault k => k = F_under_read | OOF => True end).
  { intros stx Hx. apply (safe_bind _ _ (safe_consume_n num) (fun _ => safe_ret 0) stx Hx). }
  destruct ((negb (typ st1 =? 0) && ((if type_info st1 then 1 else 0) =? 0)) || negb (templates st1 =? 0)).
  { apply Hc; auto. }
  destruct ((num =? 17) && hash17 (suffix full base (pos st1))).
  { apply Hc; auto. }
  pose proof (safe_append_separator (str "::") st1 Hn) as Hs.
  unfold append_separator in *.
  set (st2 := match (if first_name st1 then R 0 st1 else append (str "::") st1) with
              | R v st' => R v (set_first_name st' false) | r => r end) in *.
  assert (E2 : exists st2', st2 = R 0 st2' /\ pos st2' = pos st1 /\ len st2' = len st1).
  { unfold st2. destruct (first_name st1); eexists; (split; [ reflexivity | split; reflexivity ]). }
  destruct E2 as [st2' [E2 [Ep El]]]. rewrite E2 in *.
  destruct Hn as [Hp1 Hl1].
  assert (Hsimple : match (append_len full base (pos st1) num ;;; consume_n full base num ;;; ret 0) st2' with
                    | R _ st' => inv st' | Fault k => k = F_under_read | OOF => True end).
  { unfold bind.
    pose proof (append_len_safe (pos st1) num st2' Hs ltac:(lia) ltac:(lia)) as Ha.
    destruct (append_len full base (pos st1) num st2') as [v3 st3 | |]; auto.
    apply (safe_bind _ _ (safe_consume_n num) (fun _ => safe_ret 0) st3 Ha). }
  destruct (strchr_from full base (pos st1) (ch "$")) as [dollar |] eqn:Es; [| exact Hsimple ].
  destruct (dollar >? pos st1 + num) eqn:Eg; [ exact Hsimple |].
  assert (Hpos : 0 <= base + pos st1).
  { apply (dd_number_pos st num st1 Edn). apply Z.ltb_ge in En. exact En. }
  apply strchr_from_spec in Es; [| lia ]. destruct Es as [Es1 Es2].
  unfold bind.
  pose proof (safe_dollar_loop (S (Z.to_nat slen)) (pos st1) dollar (pos st1 + num) Es1 ltac:(lia) ltac:(lia) Es2 st2' Hs) as A.
  destruct (dollar_loop true full base (S (Z.to_nat slen)) (pos st1) dollar (pos st1 + num) st2') as [p st3 | |]; auto.
  destruct A as [A Ap].
  assert (Hp3 : p <= slen) by lia.
  destruct (Z_lt_ge_dec (pos st1 + num - p) 0) as [Hn0 | Hn0]; [ lia |].
  pose proof (append_len_safe p (pos st1 + num - p) st3 A Hp3 ltac:(lia)) as B.
  destruct (append_len full base p (pos st1 + num - p) st3) as [v4 st4 | |]; auto.
  apply (safe_bind _ _ (safe_consume_n (pos st1 + num - p)) (fun _ => safe_ret 0) st4 B).
Qed.

(* ---- automation *)
Hint Resolve safe_ret safe_under safe_gets safe_getb safe_eof safe_peek safe_curr
     safe_consume_n safe_consume safe_inc_typ safe_dec_typ safe_inc_level safe_dec_level
     safe_inc_templates safe_dec_templates safe_append safe_append_separator
     safe_dd_number safe_dd_seq_id safe_dd_source_name : safe.

Lemma index_of_strchr : forall set c, strchr_g true set c = true -> index_of c set <> None.
Proof.
  intros set c H. unfold strchr_g in H. apply andb_prop in H. destruct H as [H0 H].
  unfold strchr_set in H. apply negb_true_iff in H0. rewrite H0 in H. cbn [orb] in H.
  induction set as [| a set IH]; [ discriminate |].
  cbn [existsb index_of] in *. rewrite Z.eqb_sym. destruct (c =? a); [ discriminate |].
  cbn [orb] in H. specialize (IH H). destruct (index_of c set); [ discriminate | contradiction ].
Qed.

Ltac safe_step :=
  match goal with
  | |- safe (bind _ _) => apply safe_bind; [| intros ? ]
  | |- safe (expect _ _ _ _) => apply safe_expect
  | |- safe (restore_on_fail _) => apply safe_restore_on_fail
  | |- safe (dbg _) => apply safe_dbg; lia
  | |- safe (modify _) => apply safe_set_other; intros; split; reflexivity
  | |- safe (match index_of ?c ?l with _ => _ end) =>
      let E := fresh "E" in destruct (index_of c l) eqn:E;
      [| exfalso; eapply index_of_strchr; [ eassumption | exact E ] ]
  | |- safe (if ?b then _ else _) => let E := fresh "E" in destruct b eqn:E
  | |- safe (match ?x with _ => _ end) => destruct x
  | |- safe (let '(_, _) := ?x in _) => destruct x
  | |- safe _ => solve [ auto with safe ]
  end.
Ltac safe_auto := cbv zeta; cbn [negb andb]; repeat safe_step.

Lemma safe_dd_call_offset : safe (dd_call_offset full base).
Proof. unfold dd_call_offset. safe_auto. Qed.
Lemma safe_dd_qualifier : safe (dd_qualifier full base).
Proof. unfold dd_qualifier. safe_auto. Qed.
Hint Resolve safe_dd_call_offset safe_dd_qualifier : safe.
Lemma safe_dd_abi_tag : safe (dd_abi_tag true full base).
Proof. unfold dd_abi_tag. safe_auto. Qed.
Hint Resolve safe_dd_abi_tag : safe.
Lemma safe_dd_substitution : safe (dd_substitution true full base).
Proof. unfold dd_substitution. safe_auto. Qed.
Lemma safe_dd_function_param : safe (dd_function_param full base).
Proof. unfold dd_function_param. safe_auto. Qed.
Lemma safe_dd_template_param : safe (dd_template_param full base).
Proof. unfold dd_template_param. safe_auto. Qed.
Lemma safe_dd_discriminator : safe (dd_discriminator full base).
Proof. unfold dd_discriminator. safe_auto. Qed.
Hint Resolve safe_dd_substitution safe_dd_function_param safe_dd_template_param safe_dd_discriminator : safe.

Section Rec.
Variable rec : fn -> M.
Hypothesis Hrec : forall f, safe (rec f).
Hint Resolve Hrec : safe.

Lemma safe_body : forall f, safe (body true full base rec f).
Proof.
  destruct f; simpl;
    [ unfold dd_encoding | unfold dd_name | unfold dd_local_name | unfold dd_nested_name
    | unfold dd_unqualified_name | unfold dd_operator_name | unfold dd_ctor_dtor_name
    | unfold dd_type | unfold dd_decltype | unfold dd_expression | unfold dd_expr_primary
    | unfold dd_expr_list | unfold dd_initializer | unfold dd_template_arg | unfold dd_template_args
    | unfold dd_simple_id | unfold dd_unresolved_type | unfold dd_destructor_name
    | unfold dd_base_unresolved_name | unfold dd_unresolved_name | unfold dd_function_type
    | unfold dd_array_type | unfold dd_ptr_to_member_type | unfold dd_vector_type | unfold dd_special_name
    | unfold until_E | unfold expr_list_loop | unfold unresolved_loop | unfold func_args_loop
    | unfold type_loop | unfold nested_loop | unfold enc_types_loop ];
    safe_auto.
  all: try (intros st [Hp Hl]; split; simpl; auto; lia).
  all: try (intros st H; destruct (out st); exact H).
Qed.
End Rec.

Theorem run_safe : forall fuel f, safe (run true full base fuel f).
Proof.
  induction fuel as [| k IH]; intros f; simpl.
  - intros st H. exact I.
  - apply safe_body. exact IH.
Qed.
End Safe.

(* ================================================================ the wrapper *)
Lemma prefix_of_length : forall p l, prefix_of p l = true -> (List.length p <= List.length l)%nat.
Proof.
  induction p as [| a p IH]; intros l H; [ cbn; lia |].
  destruct l as [| b l]; [ discriminate |]. cbn [prefix_of] in H. apply andb_prop in H. destruct H as [_ H].
  apply IH in H. cbn [List.length]. lia.
Qed.

Theorem no_fault_partial : forall fuel s k,
  demangle_fuel true fuel s = Crash k -> k = F_under_read.
Proof.
  intros fuel s k. unfold demangle_fuel.
  destruct (negb (mangled_form s)); [ discriminate |].
  set (base := if prefix_of prefix_str s then 15 else 0).
  assert (Hb : 0 <= base <= flen s).
  { unfold base, flen. destruct (prefix_of prefix_str s) eqn:E; [| lia ].
    apply prefix_of_length in E. change (List.length prefix_str) with 15%nat in E. lia. }
  replace (Z.of_nat (List.length s) - base) with (slen s base) by reflexivity.
  pose proof (run_safe s base fuel FEncoding (st0 (slen s base)) (inv_st0 s base Hb)) as H1.
  destruct (run true s base fuel FEncoding (st0 (slen s base))) as [v st | f |]; cbn [of_res].
  - destruct ((v <? 0) || negb (level st =? 0)); [ discriminate |].
    destruct (pos st >=? len st).
    { destruct (finish_fixed_str s (prefix_of prefix_str s) st) as [r E]. rewrite E. discriminate. }
    destruct (negb (type_info st)); [ discriminate |].
    pose proof (run_safe s base fuel FName st H1) as H2.
    destruct (run true s base fuel FName st) as [v2 st2 | f |]; cbn [of_res].
    + destruct (v2 <? 0); [ discriminate |].
      destruct (finish_fixed_str s (prefix_of prefix_str s) st2) as [r E]. rewrite E. discriminate.
    + intros E. inversion E; subst; auto.
    + discriminate.
  - intros E. inversion E; subst; auto.
  - discriminate.
Qed.
