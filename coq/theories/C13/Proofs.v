(* C13 - proofs about the model of utils/demangle.c *)
From Coq Require Import ZArith List Bool Lia.
Import ListNotations.
Require Import UV.C13.Model.
Local Open Scope Z_scope.

(* ---------------------------------------------------------------- wrapper level (any parser) *)
Lemma non_mangled_unchanged : forall fuel s, mangled_form s = false -> demangle_fuel fuel s = Str s.
Proof. intros fuel s H. unfold demangle_fuel. rewrite H. reflexivity. Qed.
