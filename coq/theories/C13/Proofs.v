(* C13 - proofs about the model of utils/demangle.c: wrapper-level facts and the cursor invariant *)
From Coq Require Import ZArith List Bool Lia Ascii String.
Import ListNotations.
Require Import UV.C13.Model.
Local Open Scope Z_scope.

(* ================================================================ wrapper level (holds for any parser) *)
Lemma list_eqb_refl : forall a, list_eqb a a = true.
Proof. induction a; simpl; auto. rewrite Z.eqb_refl. auto. Qed.

Lemma non_mangled_unchanged : forall fixed fuel s, mangled_form s = false -> demangle_fuel fixed fuel s = Str s.
Proof. intros fixed fuel s H. unfold demangle_fuel. rewrite H. reflexivity. Qed.

(* the parse of s succeeded and left the state st *)
Definition parsed (fixed : bool) (fuel : nat) (s : list Z) (st : state) : Prop :=
  let base := if prefix_of prefix_str s then 15 else 0 in
  let l := Z.of_nat (List.length s) - base in
  mangled_form s = true /\
  exists v st1, run fixed s base fuel FEncoding (st0 l) = R v st1 /\ 0 <= v /\ level st1 = 0 /\
    ((pos st1 >= len st1 /\ st = st1) \/
     (pos st1 < len st1 /\ type_info st1 = true /\ exists v2, run fixed s base fuel FName st1 = R v2 st /\ 0 <= v2)).

Lemma fallback_or_parsed : forall fixed fuel s,
  demangle_fuel fixed fuel s = Str s \/
  (exists k, demangle_fuel fixed fuel s = Crash k) \/
  demangle_fuel fixed fuel s = Hang \/
  exists st, parsed fixed fuel s st /\ demangle_fuel fixed fuel s = finish fixed s (prefix_of prefix_str s) st.
Proof.
  intros fixed fuel s. unfold demangle_fuel, parsed.
  destruct (mangled_form s) eqn:Hm; cbn [negb]; [| left; reflexivity ].
  set (base := if prefix_of prefix_str s then 15 else 0).
  set (l := Z.of_nat (List.length s) - base).
  destruct (run fixed s base fuel FEncoding (st0 l)) as [v st1 | k | ] eqn:Hr; cbn [of_res].
  - destruct (v <? 0) eqn:Hv; cbn [orb]; [ left; reflexivity |].
    destruct (level st1 =? 0) eqn:Hl; cbn [negb]; [| left; reflexivity ].
    apply Z.ltb_ge in Hv. apply Z.eqb_eq in Hl.
    destruct (pos st1 >=? len st1) eqn:Hp.
    + right; right; right. exists st1. split; [| reflexivity ].
      split; [ reflexivity |]. exists v, st1. repeat split; auto. left. split; [ lia | reflexivity ].
    + destruct (type_info st1) eqn:Hti; cbn [negb]; [| left; reflexivity ].
      destruct (run fixed s base fuel FName st1) as [v2 st2 | k | ] eqn:Hr2; cbn [of_res].
      * destruct (v2 <? 0) eqn:Hv2; [ left; reflexivity |].
        apply Z.ltb_ge in Hv2.
        right; right; right. exists st2. split; [| reflexivity ].
        split; [ reflexivity |]. exists v, st1. repeat split; auto. right.
        split; [ lia |]. split; [ exact Hti |]. exists v2. split; auto.
      * right; left. eexists; reflexivity.
      * right; right; left. reflexivity.
  - right; left. eexists; reflexivity.
  - right; right; left. reflexivity.
Qed.

(* a result that is not itself of mangled form is a fixed point, for every fuel *)
Lemma idempotent_plain : forall fixed fixed' fuel fuel' s t,
  demangle_fuel fixed fuel s = Str t -> mangled_form t = false -> demangle_fuel fixed' fuel' t = Str t.
Proof. intros. apply non_mangled_unchanged. assumption. Qed.

(* the executable checker used on implementation outputs accepts whatever string the model returns *)
Lemma checker_accepts_model : forall fixed fuel s r, demangle_fuel fixed fuel s = Str r -> ok_total s (IStr r) = true.
Proof.
  intros fixed fuel s r H. unfold ok_total. destruct (mangled_form s) eqn:Hm; [ reflexivity |].
  rewrite (non_mangled_unchanged fixed fuel s Hm) in H. inversion H. apply list_eqb_refl.
Qed.

(* ================================================================ the cursor invariant *)
Section Inv.
Variable fixed : bool.
Variable full : list Z.
Variable base : Z.
Hypothesis base_ok : 0 <= base <= flen full.

Notation slen := (slen full base).
Notation flen := (flen full).

(* pos and len never exceed strlen(dd->old): every dd_peek / dd_consume read stays inside the
   string including its terminating NUL *)
Definition inv (st : state) : Prop := pos st <= slen /\ len st <= slen.

Definition pres (m : M) : Prop :=
  forall st, inv st -> match m st with R _ st' => inv st' | _ => True end.

Lemma pres_ret : forall v, pres (ret v).
Proof. intros v st H. exact H. Qed.
Lemma pres_fail : forall k, pres (fail k).
Proof. intros k st H. exact I. Qed.
Lemma pres_bind : forall m k, pres m -> (forall v, pres (k v)) -> pres (bind m k).
Proof.
  intros m k Hm Hk st H. unfold bind. specialize (Hm st H).
  destruct (m st) as [v st' | |]; auto. apply Hk. exact Hm.
Qed.
Lemma pres_gets : forall f, pres (gets f).
Proof. intros f st H. exact H. Qed.
Lemma pres_getb : forall f, pres (getb f).
Proof. intros f st H. exact H. Qed.
Lemma pres_modify : forall f, (forall st, inv st -> inv (f st)) -> pres (modify f).
Proof. intros f Hf st H. apply Hf, H. Qed.
Lemma pres_rd : forall i, pres (rd full base i).
Proof.
  intros i st H. unfold rd.
  destruct (base + i <? 0); auto. destruct (base + i <? flen); auto. destruct (base + i =? flen); auto.
Qed.
Lemma pres_valid_ptr : forall i, pres (valid_ptr full base i).
Proof.
  intros i st H. unfold valid_ptr. destruct (base + i <? 0); auto. destruct (base + i <=? flen); auto.
Qed.
Lemma pres_eof : pres eof.
Proof. intros st H. exact H. Qed.
Lemma pres_peek : forall la, pres (peek full base la).
Proof. intros la st H. unfold peek. destruct (pos st + la >? len st); auto. apply pres_rd, H. Qed.
Lemma pres_curr : pres (curr full base).
Proof. apply pres_peek. Qed.

(* __dd_consume_n: for ANY n (also negative or huge) the new position is at most len *)
Lemma pres_consume_n : forall k, pres (consume_n full base k).
Proof.
  intros k st H. unfold consume_n.
  pose proof (pres_curr st H) as Hc. destruct (curr full base st) as [c st' | |]; auto.
  destruct (pos st + k >? len st) eqn:Hk; auto.
  destruct H as [Hp Hl]. split; simpl; auto. lia.
Qed.
Lemma pres_consume : pres (consume full base).
Proof. apply pres_consume_n. Qed.
Lemma pres_dbg : forall inc, inc <= 0 -> pres (dbg inc).
Proof. intros inc Hi st [Hp Hl]. split; simpl; auto. lia. Qed.
Lemma pres_expect : forall c k, pres k -> pres (expect full base c k).
Proof.
  intros c k Hk. unfold expect. apply pres_bind; [ apply pres_consume |].
  intros v. destruct (v =? c); auto.
  intros st [Hp Hl]. destruct (expected st); split; simpl; auto. lia.
Qed.

Lemma pres_set_other : forall f,
  (forall st, pos (f st) = pos st /\ len (f st) = len st) -> pres (modify f).
Proof. intros f Hf. apply pres_modify. intros st [Hp Hl]. destruct (Hf st) as [E1 E2]. unfold inv. rewrite E1, E2. split; auto. Qed.

Lemma pres_inc_typ : pres inc_typ. Proof. apply pres_set_other. intros; split; reflexivity. Qed.
Lemma pres_dec_typ : pres dec_typ. Proof. apply pres_set_other. intros; split; reflexivity. Qed.
Lemma pres_inc_level : pres inc_level. Proof. apply pres_set_other. intros; split; reflexivity. Qed.
Lemma pres_dec_level : pres dec_level. Proof. apply pres_set_other. intros; split; reflexivity. Qed.
Lemma pres_inc_templates : pres inc_templates. Proof. apply pres_set_other. intros; split; reflexivity. Qed.
Lemma pres_dec_templates : pres dec_templates. Proof. apply pres_set_other. intros; split; reflexivity. Qed.

Lemma pres_append_len : forall src size, pres (append_len full base src size).
Proof.
  intros src size st H. unfold append_len.
  destruct (valid_ptr full base src st) as [v st' | |]; auto.
  destruct (out st).
  - repeat match goal with |- context [if ?b then _ else _] => destruct b end; auto.
  - repeat match goal with |- context [if ?b then _ else _] => destruct b end; auto.
Qed.
Lemma pres_append : forall s, pres (append s).
Proof. intros s st H. exact H. Qed.
Lemma pres_append_separator : forall s, pres (append_separator s).
Proof. intros s st H. unfold append_separator. destruct (first_name st); exact H. Qed.

Lemma pres_restore_on_fail : forall m, pres m -> pres (restore_on_fail m).
Proof.
  intros m Hm st H. unfold restore_on_fail. specialize (Hm st H).
  destruct (m st) as [r st' | |]; auto.
  destruct (r <? 0); auto. destruct H as [Hp Hl], Hm as [Hp' Hl']. split; simpl; auto.
Qed.

(* ---- strtoul / seq-id never run past the end of the list they scan *)
Lemma scan_digits_cnt : forall b l acc cnt v c,
  scan_digits b l acc cnt = (v, c) -> cnt <= c <= cnt + Z.of_nat (List.length l).
Proof.
  induction l as [| x l IH]; intros acc cnt v c H; simpl in H.
  - inversion H; subst. simpl. lia.
  - destruct (digit_val x <? b).
    + apply IH in H. simpl List.length. lia.
    + inversion H; subst. simpl List.length. lia.
Qed.
Lemma scan_sat_cnt : forall b l v c, scan_sat b l = (v, c) -> 0 <= c <= Z.of_nat (List.length l).
Proof.
  intros b l v c H. unfold scan_sat in H. destruct (scan_digits b l 0 0) as [v1 c1] eqn:E.
  inversion H; subst. apply scan_digits_cnt in E. lia.
Qed.
Lemma strtoul0_cnt : forall l v c, strtoul0 l = (v, c) -> 0 <= c <= Z.of_nat (List.length l).
Proof.
  intros l v c H. unfold strtoul0 in H.
  destruct l as [| a l1]; [ eapply scan_sat_cnt; eauto |].
  destruct (a =? 48); [| eapply scan_sat_cnt; eauto ].
  destruct l1 as [| x l2]; [ eapply scan_sat_cnt; eauto |].
  destruct l2 as [| h r]; [ eapply scan_sat_cnt; eauto |].
  destruct (((x =? 120) || (x =? 88)) && isxdigit h); [| eapply scan_sat_cnt; eauto ].
  destruct (scan_sat 16 (h :: r)) as [v1 c1] eqn:E. inversion H; subst.
  apply scan_sat_cnt in E. cbn [List.length] in *. lia.
Qed.
Lemma span_len_bound : forall p l, 0 <= span_len p l <= Z.of_nat (List.length l).
Proof.
  induction l as [| a l IH]; cbn [span_len List.length]; [ lia |].
  destruct (p a); lia.
Qed.
Lemma suffix_length : forall i, 0 <= base + i <= flen ->
  Z.of_nat (List.length (suffix full base i)) = slen - i.
Proof.
  intros i H. unfold suffix, Model.slen, Model.flen in *. rewrite skipn_length. lia.
Qed.
Lemma rd_ok_range : forall i st v st', rd full base i st = R v st' -> 0 <= base + i <= flen.
Proof.
  intros i st v st' H. unfold rd in H.
  destruct (base + i <? 0) eqn:E1; [ discriminate |].
  destruct (base + i <? flen) eqn:E2; [ lia |].
  destruct (base + i =? flen) eqn:E3; [ lia | discriminate ].
Qed.
Lemma rd_state : forall i st v st', rd full base i st = R v st' -> st' = st.
Proof.
  intros i st v st' H. unfold rd in H.
  destruct (base + i <? 0); [ discriminate |].
  destruct (base + i <? flen); [ inversion H; reflexivity |].
  destruct (base + i =? flen); [ inversion H; reflexivity | discriminate ].
Qed.

Lemma pres_dd_number : pres (dd_number full base).
Proof.
  intros st H. unfold dd_number.
  destruct (pos st >=? len st) eqn:He; [ exact H |].
  destruct (rd full base (pos st) st) as [c stx | |] eqn:Hr; auto.
  set (st1 := if c =? ch "n" then set_pos st (pos st + 1) else st).
  assert (H1 : inv st1).
  { unfold st1. destruct (c =? ch "n"); auto. destruct H as [Hp Hl]. split; simpl; auto. lia. }
  destruct (rd full base (pos st1) st1) as [c1 sty | |] eqn:Hr1; auto.
  destruct (negb (isdigit c1)).
  - destruct H1 as [Hp Hl]. split; simpl; auto.
  - destruct (strtoul0 (suffix full base (pos st1))) as [v cnt] eqn:Hs.
    apply strtoul0_cnt in Hs. apply rd_ok_range in Hr1.
    rewrite suffix_length in Hs by exact Hr1.
    destruct H1 as [Hp Hl]. split; simpl; auto. lia.
Qed.

Lemma pres_dd_seq_id : pres (dd_seq_id full base).
Proof.
  unfold dd_seq_id. intros st H. unfold bind.
  pose proof (pres_curr st H) as Hc.
  destruct (curr full base st) as [c st1 | |] eqn:Hcu; auto.
  unfold eof. destruct (pos st1 >=? len st1) eqn:He; simpl; [ exact Hc |].
  (* curr succeeded with pos < len: the read index is valid *)
  unfold curr, peek in Hcu. replace (pos st + 0) with (pos st) in Hcu by lia.
  destruct (pos st >? len st) eqn:Hgt.
  - inversion Hcu; subst. lia.
  - pose proof (rd_state _ _ _ _ Hcu) as ->. apply rd_ok_range in Hcu.
    pose proof (span_len_bound (fun c0 => isdigit c0 || isupper c0) (suffix full base (pos st))) as Hs.
    rewrite suffix_length in Hs by exact Hcu.
    destruct H as [Hp Hl]. split; simpl; auto. lia.
Qed.

(* ---- tactic: walk through a monadic body *)
Hint Resolve pres_ret pres_fail pres_gets pres_getb pres_rd pres_valid_ptr pres_eof pres_peek pres_curr
     pres_consume_n pres_consume pres_inc_typ pres_dec_typ pres_inc_level pres_dec_level
     pres_inc_templates pres_dec_templates pres_append_len pres_append pres_append_separator
     pres_dd_number pres_dd_seq_id : pres.

Ltac pres_step :=
  match goal with
  | |- pres (bind _ _) => apply pres_bind; [| intros ? ]
  | |- pres (expect _ _ _ _) => apply pres_expect
  | |- pres (restore_on_fail _) => apply pres_restore_on_fail
  | |- pres (dbg _) => apply pres_dbg; lia
  | |- pres (modify _) => apply pres_set_other; intros; split; reflexivity
  | |- pres (if ?b then _ else _) => destruct b
  | |- pres (match ?x with _ => _ end) => destruct x
  | |- pres (let '(_, _) := ?x in _) => destruct x
  | |- pres _ => solve [ auto with pres ]
  end.
Ltac pres_auto := cbv zeta; repeat pres_step.

Lemma pres_dd_call_offset : pres (dd_call_offset full base).
Proof. unfold dd_call_offset. pres_auto. Qed.
Lemma pres_dd_qualifier : pres (dd_qualifier full base).
Proof. unfold dd_qualifier. pres_auto. Qed.

Lemma pres_dots_loop : forall k sep dollar, pres (dots_loop full base k sep dollar).
Proof.
  induction k as [| k IH]; intros sep dollar; simpl.
  - intros st H. exact I.
  - pres_auto; try apply IH.
Qed.
Lemma pres_dollar_loop : forall k p dollar e, pres (dollar_loop fixed full base k p dollar e).
Proof.
  induction k as [| k IH]; intros p dollar e; simpl.
  - intros st H. exact I.
  - pres_auto; try apply pres_dots_loop; try apply IH.
Qed.
Lemma pres_dd_source_name : pres (dd_source_name fixed full base).
Proof. unfold dd_source_name. pres_auto; try apply pres_dollar_loop. Qed.
Hint Resolve pres_dd_call_offset pres_dd_qualifier pres_dd_source_name : pres.
Lemma pres_dd_abi_tag : pres (dd_abi_tag fixed full base).
Proof. unfold dd_abi_tag. pres_auto. Qed.
Hint Resolve pres_dd_abi_tag : pres.
Lemma pres_dd_substitution : pres (dd_substitution fixed full base).
Proof. unfold dd_substitution. pres_auto. Qed.
Lemma pres_dd_function_param : pres (dd_function_param full base).
Proof. unfold dd_function_param. pres_auto. Qed.
Lemma pres_dd_template_param : pres (dd_template_param full base).
Proof. unfold dd_template_param. pres_auto. Qed.
Lemma pres_dd_discriminator : pres (dd_discriminator full base).
Proof. unfold dd_discriminator. pres_auto. Qed.
Hint Resolve pres_dd_substitution pres_dd_function_param pres_dd_template_param pres_dd_discriminator : pres.

(* ---- the recursive part: every body preserves the invariant if the callees do *)
Section Rec.
Variable rec : fn -> M.
Hypothesis Hrec : forall f, pres (rec f).
Hint Resolve Hrec : pres.

Lemma pres_body : forall f, pres (body fixed full base rec f).
Proof.
  destruct f; simpl;
    [ unfold dd_encoding | unfold dd_name | unfold dd_local_name | unfold dd_nested_name
    | unfold dd_unqualified_name | unfold dd_operator_name | unfold dd_ctor_dtor_name
    | unfold dd_type | unfold dd_decltype | unfold dd_expression | unfold dd_expr_primary
    | unfold dd_expr_list | unfold dd_initializer | unfold dd_template_arg | unfold dd_template_args
    | unfold dd_simple_id | unfold dd_unresolved_type | unfold dd_destructor_name
    | unfold dd_base_unresolved_name | unfold dd_unresolved_name | unfold dd_function_type
    | unfold dd_array_type | unfold dd_ptr_to_member_type | unfold dd_vector_type | unfold dd_special_name
    | unfold until_E | unfold expr_list_loop | unfold unresolved_loop | unfold func_args_loop
    | unfold type_loop | unfold nested_loop | unfold enc_types_loop ];
    pres_auto.
  (* leftovers: state-level steps written in direct style *)
  all: try (intros st [Hp Hl]; split; simpl; auto; lia).
  all: try (intros st H; destruct (out st); [ exact H | destruct fixed; [ exact H | exact I ] ]).
Qed.
End Rec.

Theorem run_pres : forall fuel f, pres (run fixed full base fuel f).
Proof.
  induction fuel as [| k IH]; intros f; simpl.
  - intros st H. exact I.
  - apply pres_body. exact IH.
Qed.

(* under the invariant the cursor primitives never read behind the terminating NUL *)
Lemma peek_no_over_read : forall la st, inv st -> peek full base la st <> Fault F_over_read.
Proof.
  intros la st [Hp Hl]. unfold peek. destruct (pos st + la >? len st) eqn:E; [ discriminate |].
  unfold rd. destruct (base + (pos st + la) <? 0); [ discriminate |].
  destruct (base + (pos st + la) <? flen) eqn:E2; [ discriminate |].
  destruct (base + (pos st + la) =? flen) eqn:E3; [ discriminate |].
  unfold Model.slen in *. lia.
Qed.
Lemma consume_n_no_over_read : forall k st, inv st -> consume_n full base k st <> Fault F_over_read.
Proof.
  intros k st H. unfold consume_n. pose proof (peek_no_over_read 0 st H) as Hn. unfold curr.
  destruct (peek full base 0 st) as [c st' | f |]; try discriminate.
  - destruct (pos st + k >? len st); discriminate.
  - intros E. apply Hn. exact E.
Qed.

(* the initial state of demangle_simple satisfies the invariant *)
Lemma inv_st0 : inv (st0 slen).
Proof. unfold inv, st0; simpl. unfold Model.slen. lia. Qed.

Theorem cursor_upper_bound : forall fuel f v st',
  run fixed full base fuel f (st0 slen) = R v st' -> pos st' <= slen /\ len st' <= slen.
Proof.
  intros fuel f v st' H. pose proof (run_pres fuel f (st0 slen) inv_st0) as P. rewrite H in P. exact P.
Qed.
End Inv.

Lemma cursor_primitives : forall full base,
  (forall la, pres full base (peek full base la)) /\
  (forall n, pres full base (consume_n full base n)) /\
  (forall inc, inc <= 0 -> pres full base (dbg inc)) /\
  (forall c k, pres full base k -> pres full base (expect full base c k)) /\
  pres full base (dd_number full base) /\
  pres full base (dd_seq_id full base) /\
  (forall la st, inv full base st -> peek full base la st <> Fault F_over_read) /\
  (forall n st, inv full base st -> consume_n full base n st <> Fault F_over_read).
Proof.
  intros full base.
  split; [ exact (pres_peek full base) |].
  split; [ exact (pres_consume_n full base) |].
  split; [ exact (pres_dbg full base) |].
  split; [ exact (pres_expect full base) |].
  split; [ exact (pres_dd_number full base) |].
  split; [ exact (pres_dd_seq_id full base) |].
  split; [ exact (peek_no_over_read full base) | exact (consume_n_no_over_read full base) ].
Qed.

(* dd_number returns a C int: the strtoul value is truncated to 32 bits (explicit wrap) *)
Lemma wrap32_range : forall v, -2147483648 <= wrap32 v < 2147483648.
Proof.
  intros v. unfold wrap32. pose proof (Z.mod_pos_bound v 4294967296 ltac:(lia)).
  destruct (v mod 4294967296 >=? 2147483648) eqn:E; lia.
Qed.
Lemma dd_number_int : forall full base st v st',
  dd_number full base st = R v st' -> -2147483648 <= v < 2147483648.
Proof.
  intros full base st v st' H. unfold dd_number in H.
  destruct (pos st >=? len st); [ inversion H; lia |].
  destruct (rd full base (pos st) st) as [c stx | |]; try discriminate.
  set (st1 := if c =? ch "n" then set_pos st (pos st + 1) else st) in *.
  destruct (rd full base (pos st1) st1) as [c1 sty | |]; try discriminate.
  destruct (negb (isdigit c1)); [ inversion H; lia |].
  destruct (strtoul0 (suffix full base (pos st1))) as [v0 cnt]. inversion H. apply wrap32_range.
Qed.
