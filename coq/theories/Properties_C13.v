(* Property C13 - only statements, each closed by [exact]. *)
From Coq Require Import ZArith List Bool.
Import ListNotations.
Require Import UV.C13.Model UV.C13.Proofs.
Local Open Scope Z_scope.

(* A name that does not start with "_Z" (after the optional "_GLOBAL__sub_I_") comes back unchanged,
   whatever the parser does and for every fuel. *)
Theorem C13_non_mangled_unchanged : forall fuel s, mangled_form s = false -> demangle_fuel fuel s = Str s.
Proof. exact non_mangled_unchanged. Qed.
Print Assumptions C13_non_mangled_unchanged.
