(* Property C13 - only statements, each closed by [exact].
   The model has two variants: [fixed = true] is utils/demangle.c as it is now (with the seven guards
   of the `fix: demangle:` commits; [demangle] uses it), [fixed = false] is the code as found
   ([demangle_legacy]), kept for the *_legacy_refuted witnesses. *)
From Coq Require Import ZArith List Bool Ascii String.
Import ListNotations.
Require Import UV.C13.Model UV.C13.Proofs UV.C13.Mono UV.C13.Refuted UV.C13.Roundtrip UV.C13.Safe.
Local Open Scope Z_scope.

(* ---- wrapper level: holds for ANY parser behaviour, both variants and every fuel *)

(* A name that does not start with "_Z" (after the optional "_GLOBAL__sub_I_") comes back unchanged. *)
Theorem C13_non_mangled_unchanged : forall fixed fuel s, mangled_form s = false -> demangle_fuel fixed fuel s = Str s.
Proof. exact non_mangled_unchanged. Qed.
Print Assumptions C13_non_mangled_unchanged.

(* Fallback on every error: the result is the input itself, or the parse succeeded (then the result
   is the output buffer of the final parser state), or the model left defined behaviour / ran out
   of fuel. *)
Theorem C13_fallback_on_every_error : forall fixed fuel s,
  demangle_fuel fixed fuel s = Str s \/
  (exists k, demangle_fuel fixed fuel s = Crash k) \/
  demangle_fuel fixed fuel s = Hang \/
  exists st, parsed fixed fuel s st /\ demangle_fuel fixed fuel s = finish fixed s (prefix_of prefix_str s) st.
Proof. exact fallback_or_parsed. Qed.
Print Assumptions C13_fallback_on_every_error.

(* Demangling an already plain name changes nothing: a result that is not itself of mangled form
   is a fixed point. *)
Theorem C13_idempotent_plain : forall fixed fixed' fuel fuel' s t,
  demangle_fuel fixed fuel s = Str t -> mangled_form t = false -> demangle_fuel fixed' fuel' t = Str t.
Proof. exact idempotent_plain. Qed.
Print Assumptions C13_idempotent_plain.

(* ---- the cursor: pos <= strlen and len <= strlen are invariant *)

(* primitives, with C ints as Z: dd_peek / __dd_consume_n (for ANY n, negative or huge) / DD_DEBUG
   with inc <= 0 / DD_DEBUG_CONSUME / dd_number (strtoul) / dd_seq_id keep the invariant, and under
   it dd_peek and __dd_consume_n never read behind the terminating NUL *)
Theorem C13_cursor_primitives_in_bounds : forall full base,
  (forall la, pres full base (peek full base la)) /\
  (forall n, pres full base (consume_n full base n)) /\
  (forall inc, inc <= 0 -> pres full base (dbg inc)) /\
  (forall c k, pres full base k -> pres full base (expect full base c k)) /\
  pres full base (dd_number full base) /\
  pres full base (dd_seq_id full base) /\
  (forall la st, inv full base st -> peek full base la st <> Fault F_over_read) /\
  (forall n st, inv full base st -> consume_n full base n st <> Fault F_over_read).
Proof. exact cursor_primitives. Qed.
Print Assumptions C13_cursor_primitives_in_bounds.

(* ... and hence under every parser function and loop of the grammar, for every fuel: *)
Theorem C13_cursor_in_bounds_all_parsers : forall fixed full base fuel f, pres full base (run fixed full base fuel f).
Proof. exact run_pres. Qed.
Print Assumptions C13_cursor_in_bounds_all_parsers.

Theorem C13_cursor_in_bounds_from_start : forall fixed full base, 0 <= base <= flen full ->
  forall fuel f v st', run fixed full base fuel f (st0 (slen full base)) = R v st' ->
  pos st' <= slen full base /\ len st' <= slen full base.
Proof. exact cursor_upper_bound. Qed.
Print Assumptions C13_cursor_in_bounds_from_start.

(* dd_number yields a C int: (int)strtoul(str, &end, 0), explicit 32-bit wrap *)
Theorem C13_number_is_wrapped_int : forall full base st v st',
  dd_number full base st = R v st' -> -2147483648 <= v < 2147483648.
Proof. exact dd_number_int. Qed.
Print Assumptions C13_number_is_wrapped_int.

(* ---- fuel: OOF is the only way in which the fuel influences the answer *)
Theorem C13_fuel_monotone : forall fixed s k k', (k <= k')%nat ->
  demangle_fuel fixed k s <> Hang -> demangle_fuel fixed k' s = demangle_fuel fixed k s.
Proof. exact demangle_fuel_mono. Qed.
Print Assumptions C13_fuel_monotone.

(* the run-time checker applied to implementation results accepts every string the model returns *)
Theorem C13_checker_accepts_model : forall fixed fuel s r, demangle_fuel fixed fuel s = Str r -> ok_total s (IStr r) = true.
Proof. exact checker_accepts_model. Qed.
Print Assumptions C13_checker_accepts_model.

(* ---- correctness on a formal mangler (partial: a subset of what compilers produce) *)

(* For every declaration of the subset
     _Z N <source-name>+ [C<digit> | D<digit> | <two-letter operator code, not cv/li>] E <builtin type code>*
   (identifiers [A-Za-z_][A-Za-z0-9_]*, not of the Rust hash form, total length <= INT_MAX) the
   demangler (with the fuel the model uses, 8*len+64) returns the qualified name
     scope::...::last[::last | ::~last | ::operator<op>]   without parameter list.
   Not covered by the round-trip theorems: substitutions S<seq-id>_ as prefix of the function's own name,
   expression / pack / negative-literal template arguments, function,
   array, pointer-to-member, decltype and vendor types, ABI tags, local names, special names, Rust components
   whose text after the last escape contains `..` or whose escapes are cut off (those are differential-tested only). *)
Theorem C13_roundtrip_subset_partial : forall d, decl_okb d = true -> demangle (mangle d) = Str (simple_name d).
Proof. exact roundtrip_simple_name. Qed.
Print Assumptions C13_roundtrip_subset_partial.

(* non-vacuity of the guard, and what mangle / simple_name look like *)
Theorem C13_roundtrip_examples :
  decl_okb d_ctor = true /\ mangle d_ctor = str "_ZN2ns3ClsC1Ei" /\ simple_name d_ctor = str "ns::Cls::Cls" /\
  decl_okb d_dtor = true /\ mangle d_dtor = str "_ZN2v88internal4HeapD0Ev" /\
    simple_name d_dtor = str "v8::internal::Heap::~Heap" /\
  decl_okb d_op = true /\ mangle d_op = str "_ZN2ns3ClspLEi" /\ simple_name d_op = str "ns::Cls::operator+=" /\
  decl_okb d_fn = true /\ mangle d_fn = str "_ZN3ABC3fooEv" /\ simple_name d_fn = str "ABC::foo".
Proof. exact roundtrip_examples. Qed.
Print Assumptions C13_roundtrip_examples.

(* class and function templates whose arguments are builtin types:
     _Z N (<source-name> [I <builtin type>+ E])+ [C<n> | D<n> | <operator code>] E <builtin type>*
   demangles to the qualified name of the same declaration without template-argument lists *)
Theorem C13_roundtrip_templates_partial : forall d, tdecl_okb d = true ->
  demangle (tmangle d) = Str (simple_name (erase d)).
Proof. exact roundtrip_templates. Qed.
Print Assumptions C13_roundtrip_templates_partial.

Theorem C13_roundtrip_examples3 :
  tdecl_okb td_ctor = true /\ tmangle td_ctor = str "_ZN2v88internal12ScopedVectorIcEC1Ei" /\
  simple_name (erase td_ctor) = str "v8::internal::ScopedVector::ScopedVector" /\
  tdecl_okb td_fn = true /\ tmangle td_fn = str "_ZN2ns2tfIilEEii" /\ simple_name (erase td_fn) = str "ns::tf".
Proof. exact roundtrip_examples3. Qed.
Print Assumptions C13_roundtrip_examples3.

(* cv- and ref-qualified member functions (the V K R O of <nested-name>), with or without templates:
     _Z N [V] [K] [R | O] (<source-name> [I <builtin type>+ E])+ [C<n> | D<n> | <operator code>] E <builtin type>*
   e.g. _ZNO5store3Buf4takeEv (int store::Buf::take() &&) demangles to store::Buf::take *)
Theorem C13_roundtrip_qualified_partial : forall quals d, qdecl_okb quals d = true ->
  demangle (qmangle quals d) = Str (simple_name (erase d)).
Proof. exact roundtrip_qualified. Qed.
Print Assumptions C13_roundtrip_qualified_partial.

Theorem C13_roundtrip_examples4 :
  qdecl_okb (str "O") td_take = true /\ qmangle (str "O") td_take = str "_ZNO5store3Buf4takeEv" /\
  simple_name (erase td_take) = str "store::Buf::take" /\
  qdecl_okb (str "KR") td_qop = true /\ qmangle (str "KR") td_qop = str "_ZNKR5store3BufIiEplEi" /\
  simple_name (erase td_qop) = str "store::Buf::operator+" /\
  qdecl_okb (str "r") td_take = false.
Proof. exact roundtrip_examples4. Qed.
Print Assumptions C13_roundtrip_examples4.

(* general parameter types: qualifiers, class names, nested names and substitutions with ANY base-36
   <seq-id> (any number of substitution candidates):
     _Z N [V][K][R|O] (<source-name> [I <builtin>+ E])+ [C<n> | D<n> | <operator>] E <type>*
     <type> ::= (r|V|K|P|R|O|C|G)* (<builtin> | S <seq-id> _ | <source-name> | N (<source-name> | S <seq-id> _)* E)
   demangles to the qualified name *)
Theorem C13_roundtrip_typed_partial : forall quals d tys, ydecl_okb quals d tys = true ->
  demangle (ymangle quals d tys) = Str (simple_name (erase d)).
Proof. exact roundtrip_typed. Qed.
Print Assumptions C13_roundtrip_typed_partial.

Theorem C13_roundtrip_examples5 :
  ydecl_okb (str "KR") td_put ty_ex = true /\
  ymangle (str "KR") td_put ty_ex = str "_ZNKR5store3Buf3putEPKcRNS_3BufEPS0_SG_KS10_5Other" /\
  simple_name (erase td_put) = str "store::Buf::put".
Proof. exact roundtrip_examples5. Qed.
Print Assumptions C13_roundtrip_examples5.

(* the general formal mangler: a mutually recursive grammar (Roundtrip.v: TyL / TA / TAL / NI, Comps, PTys)
     _Z N [V][K][R|O] (<source-name> [<targs>])+ [C<n> | D<n> | <operator>] E <type>*
     <targs> ::= I (<type> | L <builtin> <number> E)* E
     <type>  ::= (r|V|K|P|R|O|C|G)* ( <builtin> | S <seq-id> _ [<targs>] | <source-name> [<targs>]
                                    | S [absiod] [<targs>] | S t <source-name> [<targs>]
                                    | N (<source-name> [<targs>] | S <seq-id> _ [<targs>] | S [tabsiod] [<targs>])* E )
   and the components of the function's own name may be the std abbreviations S t (std), S a (std::allocator),
   S b, S s, S i, S o, S d as well
   to any nesting depth: class and function templates over user types, parameters of template class types,
   nested names, substitutions.  Every such name demangles to the qualified name without parameter and
   template-argument lists. *)
Theorem C13_roundtrip_general_partial : forall quals n id ids enc l m ptxt,
  forallb qual_okb quals = true -> Comps n (id :: ids) enc -> last_okb l = true -> PTys m ptxt ->
  (needs_class l = true -> ident_okb (last (id :: ids) []) = true) ->
  Z.of_nat (List.length (gmangle quals enc l ptxt)) <= INT_MAX ->
  demangle (gmangle quals enc l ptxt) = Str (gname (id :: ids) l).
Proof. exact roundtrip_general. Qed.
Print Assumptions C13_roundtrip_general_partial.

Theorem C13_roundtrip_examples6 :
  exists n m enc ptxt,
    Comps n [str "app"; str "Vec"; str "push"] enc /\ PTys m ptxt /\
    gmangle [] enc LPlain ptxt = str "_ZN3app3VecINS_3RecENS_5AllocIS0_EEE4pushERKS0_PNS_3VecIiLi3EEE" /\
    gname [str "app"; str "Vec"; str "push"] LPlain = str "app::Vec::push".
Proof. exact roundtrip_examples6. Qed.
Print Assumptions C13_roundtrip_examples6.

(* functions of namespace std outside any class:  _Z St <source-name> [<targs>] <type>*  (std::sort<..>, std::move<..>) *)
Theorem C13_roundtrip_std_unscoped_partial : forall id n ta m ptxt,
  ident_okb id = true -> TA n ta -> PTys m ptxt ->
  Z.of_nat (List.length (std_unscoped_mangle id ta ptxt)) <= INT_MAX ->
  demangle (std_unscoped_mangle id ta ptxt) = Str (str "std::" ++ id).
Proof. exact roundtrip_std_unscoped. Qed.
Print Assumptions C13_roundtrip_std_unscoped_partial.

Theorem C13_roundtrip_examples7 :
  (exists n m enc ptxt,
     Comps n [str "std"; str "vector"; str "push_back"] enc /\ PTys m ptxt /\
     gmangle [] enc LPlain ptxt = str "_ZNSt6vectorIN3app3RecESaIS1_EE9push_backERKS1_" /\
     gname [str "std"; str "vector"; str "push_back"] LPlain = str "std::vector::push_back") /\
  (exists n m ta ptxt, TA n ta /\ PTys m ptxt /\
     std_unscoped_mangle (str "sort") ta ptxt = str "_ZSt4sortIPN3app3RecEEvS2_S2_").
Proof. exact roundtrip_examples7. Qed.
Print Assumptions C13_roundtrip_examples7.

(* Rust legacy scheme: _ZN <source-name>+ 17h<16 hex digits> E demangles to the path without the hash *)
Theorem C13_roundtrip_rust_legacy_partial : forall a cs h, rust_okb a cs h = true ->
  demangle (rust_mangle a cs h) = Str (join_sep (a :: cs)).
Proof. exact roundtrip_rust. Qed.
Print Assumptions C13_roundtrip_rust_legacy_partial.

(* Rust legacy names with escapes:  _ZN <component>+ 17h<hash> E  where a component is an identifier or
     <number> ((<text> ..)* <text> $<code>$)+ <tail>      ($LT$ $GT$ $RF$ $BP$ $LP$ $RP$ $C$ $SP$ $uXX$, `..` -> `::`)  or
     <number> ((<text> ..)* <text> $<code>$)* (<text> ..)* <text> $u20$as$u20$ <anything>   (` as Trait` dropped, `>` printed);
   rust2_name is the translated path (leading `_` of a component kept), e.g.
   _ZN61_$LT$$RF$std..io..stdio..Stdout$u20$as$u20$std..io..Write$GT$9write_fmt17h75c561f414a62159E  ->
   _<&std::io::stdio::Stdout>::write_fmt *)
Theorem C13_roundtrip_rust_escapes_partial : forall c cs h, Forall rc_ok (c :: cs) -> hash_okb h = true ->
  Z.of_nat (List.length (rust2_mangle (c :: cs) h)) <= INT_MAX ->
  demangle (rust2_mangle (c :: cs) h) = Str (rust2_name (c :: cs)).
Proof. exact roundtrip_rust2. Qed.
Print Assumptions C13_roundtrip_rust_escapes_partial.

Theorem C13_roundtrip_examples8 :
  Forall rc_ok [rc_stdout; RPlain (str "write_fmt")] /\
  rust2_mangle [rc_stdout; RPlain (str "write_fmt")] (str "h75c561f414a62159") =
    str "_ZN61_$LT$$RF$std..io..stdio..Stdout$u20$as$u20$std..io..Write$GT$9write_fmt17h75c561f414a62159E" /\
  rust2_name [rc_stdout; RPlain (str "write_fmt")] = str "_<&std::io::stdio::Stdout>::write_fmt".
Proof. exact roundtrip_examples8. Qed.
Print Assumptions C13_roundtrip_examples8.

(* functions outside any namespace: _Z <source-name> <builtin type code>* demangles to the identifier *)
Theorem C13_roundtrip_unscoped_partial : forall id params, unscoped_okb id params = true ->
  demangle (unscoped_mangle id params) = Str id.
Proof. exact roundtrip_unscoped. Qed.
Print Assumptions C13_roundtrip_unscoped_partial.

Theorem C13_roundtrip_examples2 :
  rust_okb (str "foo") [str "bar"] (str "h05af221e174051e9") = true /\
  rust_mangle (str "foo") [str "bar"] (str "h05af221e174051e9") = str "_ZN3foo3bar17h05af221e174051e9E" /\
  join_sep [str "foo"; str "bar"] = str "foo::bar" /\
  unscoped_okb (str "main_loop") (str "iPc") = false /\
  unscoped_okb (str "main_loop") (str "ic") = true /\
  unscoped_mangle (str "main_loop") (str "ic") = str "_Z9main_loopic".
Proof. exact roundtrip_examples2. Qed.
Print Assumptions C13_roundtrip_examples2.

(* ---- total and safe, the code as it is now (fixed = true) *)

(* demangle never returns NULL: for every byte string and every fuel *)
Theorem C13_never_null : forall fuel s, demangle_fuel true fuel s <> Null.
Proof. exact never_null. Qed.
Print Assumptions C13_never_null.

(* C13_total_no_fault, PARTIAL: for every byte string and every fuel the only fault the model of the
   current code can reach is a read BEFORE the first byte of the string.  Excluded by this theorem:
   NULL output buffer, signed overflow, reads behind the terminating NUL (cursor, strchr/strstr of the
   Rust `$` loop, append sources), negative or oversized strncpy sizes, the T_type_name index.
   Missing for the unguarded statement: the lower cursor bound pos >= 0 (DD_DEBUG moves the cursor
   backwards; differential-tested only) and termination / fuel sufficiency (every loop iteration
   consumes input or errors) - not proved, the model may still answer Hang; tested on every run. *)
Theorem C13_total_no_fault_partial : forall fuel s k, demangle_fuel true fuel s = Crash k -> k = F_under_read.
Proof. exact no_fault_partial. Qed.
Print Assumptions C13_total_no_fault_partial.

(* the invariant behind it, for every parser function and loop *)
Theorem C13_every_parser_safe : forall full base fuel f, safe full base (run true full base fuel f).
Proof. exact run_safe. Qed.
Print Assumptions C13_every_parser_safe.

(* every legacy witness now yields a string *)
Theorem C13_legacy_witnesses_now_strings :
  demangle w_ctor = Str w_ctor /\ demangle w_dtor = Str w_dtor /\ demangle w_nested_ctor = Str w_nested_ctor /\
  demangle w_len = Str w_len /\ demangle w_len2 = Str w_len2 /\
  demangle w_dollar_over = Str (str "aa$C") /\ demangle w_dollar_neg = Str w_dollar_neg /\
  demangle w_special = Str w_special /\ demangle w_null = Str w_null /\ demangle w_hang = Str w_hang /\
  demangle w_lambda = Str (str "$_2147483648").
Proof. exact witnesses_fixed. Qed.
Print Assumptions C13_legacy_witnesses_now_strings.

(* ---- the code as found (fixed = false): "total and safe for every byte string" was FALSE *)

Theorem C13_ctor_fault_legacy_refuted :
  demangle_legacy (str "_ZC1v") = Crash F_null_out /\ demangle_legacy (str "_ZD0v") = Crash F_null_out /\
  demangle_legacy (str "_ZNC1Ev") = Crash F_null_out.
Proof. exact ctor_fault. Qed.
Print Assumptions C13_ctor_fault_legacy_refuted.

Theorem C13_length_overflow_legacy_refuted :
  demangle_legacy (str "_Z2147483647x") = Crash F_int_overflow /\
  demangle_legacy (str "_ZN2147483646aE") = Crash F_int_overflow.
Proof. exact length_overflow. Qed.
Print Assumptions C13_length_overflow_legacy_refuted.

Theorem C13_dollar_over_read_legacy_refuted : demangle_legacy (str "_Z3a$C") = Crash F_over_read.
Proof. exact dollar_over_read. Qed.
Print Assumptions C13_dollar_over_read_legacy_refuted.
Theorem C13_dollar_negative_size_legacy_refuted : demangle_legacy (str "_Z1$u20$xx") = Crash F_neg_size.
Proof. exact dollar_negative_size. Qed.
Print Assumptions C13_dollar_negative_size_legacy_refuted.

Theorem C13_special_name_index_legacy_refuted : demangle_legacy (str "_ZT") = Crash F_index_oob.
Proof. exact special_name_index. Qed.
Print Assumptions C13_special_name_index_legacy_refuted.

Theorem C13_null_result_legacy_refuted : demangle_legacy (str "_ZUt_") = Null.
Proof. exact null_result. Qed.
Print Assumptions C13_null_result_legacy_refuted.

(* lambda numbered INT_MAX: n + 1 overflowed *)
Theorem C13_lambda_overflow_legacy_refuted : demangle_legacy (str "_ZUlvE2147483647_") = Crash F_int_overflow.
Proof. exact lambda_overflow. Qed.
Print Assumptions C13_lambda_overflow_legacy_refuted.

(* not bounded time: for EVERY fuel the legacy model does not return on "_Z1aD" *)
Theorem C13_termination_legacy_refuted : forall fuel, demangle_fuel false fuel (str "_Z1aD") = Hang.
Proof. exact hang_every_fuel. Qed.
Print Assumptions C13_termination_legacy_refuted.

(* (int)strtoul: 4294967297 is the length 1 *)
Theorem C13_number_truncation_example : demangle (str "_Z4294967297x") = Str (str "x").
Proof. exact number_truncation. Qed.
Print Assumptions C13_number_truncation_example.
