(* Property C04 - only statements, each closed by [exact].
   `run true` / `stop_loop true` = the code as it is (record_ret_stack publishes header and payload
   with one size update, fix 4751e05; stop_tracing drops pending forks, fix df8806b);
   `run false` / `stop_loop false` = the legacy code, kept for the refuted statements. *)
From Coq Require Import NArith ZArith List Bool Arith.
Import ListNotations.
Require Import UV.C04.Model UV.C04.Proofs UV.C04.ProofsLazy UV.C04.ProofsLive UV.C04.Compose UV.C04.ProofsDecode UV.C04.ProofsMulti UV.C04.ProofsDark UV.C04.Later.

(* One thread stores the records `recs` (store by store, switching / re-using / growing / shrinking
   its ring of buffers; `start true`: beginning with its set-up by the first hook call, prepare_shmem_buffer);
   the recorder's main thread and writer run interleaved in any order (`sched`); at any point the message
   pipe may be closed (label LPC: mcount_trace_finish of a finish / signal trigger, REC_END / REC_START are
   lost from then on) and between two hook calls the thread may end its recording (LD / LDC: mtd_dtor of a
   normal thread end / after a finish or signal trigger), or the task may exec() a new image (LX: the old image's
   buffer stays announced, the new image sets up a ring of its own and sends TASK_START; the recorder's
   flush_old_shmem takes the first announced buffer of the tid); the tracee is killed or the recording is ended at
   an arbitrary point (= `sched` ends); then the recorder drains
   the pipe, runs flush_shmem_list and record_remaining_buffer.  The data file then consists of
   whole records: exactly those completely stored, in order - a prefix of what the thread was
   going to write.  No guard. *)
Theorem C04_prefix : forall setup cap recs sched,
  let s := run true cap sched (start setup recs) in
  match_recs (done s) (file (finish s)) = true
  /\ (exists rest, recs = done s ++ rest)
  /\ ok_prefix recs (file (finish s)) = true.
Proof. exact prefix_fixed. Qed.
Print Assumptions C04_prefix.

Theorem C04_prefix_exact : forall setup cap recs sched,
  let s := run true cap sched (start setup recs) in
  exists rest, Matches (done s) (file (finish s)) /\ recs = done s ++ rest.
Proof. exact prefix_general_now. Qed.
Print Assumptions C04_prefix_exact.

(* "for every thread": any number of threads, each with its own ring of buffers and data file, one message
   pipe, one shmem_list and one buf_write_list in the recorder, per-tid writers; any interleaving of all of
   them; a kill / end of the recording at any point: every thread's data file consists of exactly the records
   that thread stored completely, in order (proved by showing that one thread's view of any run of the whole
   system is a run of the single-thread LTS and that the end-of-recording sequence commutes with that view) *)
Theorem C04_prefix_every_thread : forall cap recss sched t,
  t < length recss ->
  let Mk := mrun true cap sched (minit recss) in
  match_recs (mdone t Mk) (mfile t (mfinish Mk)) = true
  /\ (exists rest, nth t recss [] = mdone t Mk ++ rest)
  /\ ok_prefix (nth t recss []) (mfile t (mfinish Mk)) = true.
Proof. exact multi_prefix. Qed.
Print Assumptions C04_prefix_every_thread.

Theorem C04_every_thread_prefix_of_its_execution : forall cap opss sched t,
  t < length opss ->
  wf_ops [] (nth t opss []) = true ->
  let Mk := mrun true cap sched (minit (map (fun ops => concat (snd (ops_run [] ops))) opss)) in
  exists k, match_recs (firstn k (eager [] (nth t opss []))) (mfile t (mfinish Mk)) = true.
Proof. exact multi_killed_trace_is_prefix_of_execution. Qed.
Print Assumptions C04_every_thread_prefix_of_its_execution.

Theorem C04_crashing_thread_among_others_is_complete : forall cap recss sched t ops,
  t < length recss ->
  wf_ops [] ops = true ->
  nth t recss [] = concat (snd (ops_run [] ops)) ++ segv_flush (fst (ops_run [] ops)) ->
  let Mk := mrun true cap sched (minit recss) in
  mdone t Mk = nth t recss [] ->
  match_recs (eager [] ops) (mfile t (mfinish Mk)) = true.
Proof. exact multi_crashed_thread_is_complete. Qed.
Print Assumptions C04_crashing_thread_among_others_is_complete.

(* the `PDark` abstraction of the LTS is faithful: in the machine where a thread whose messages no longer reach the
   recorder (pipe closed by a finish / signal trigger) goes on storing into shared memory, the data file is the
   same, for every schedule (FC = the pipe is closed; afterwards producer steps send nothing) ... *)
Theorem C04_dark_abstraction_is_faithful : forall setup single cap recs sched,
  file (finish (fst (frun single cap sched (start setup recs, false))))
  = file (finish (run single cap (asched false sched) (start setup recs))).
Proof. exact dark_is_faithful. Qed.
Print Assumptions C04_dark_abstraction_is_faithful.

(* ... so the faithful machine has the guarantee too *)
Theorem C04_prefix_faithful_machine : forall setup cap recs sched,
  ok_prefix recs (file (finish (fst (frun true cap sched (start setup recs, false))))) = true.
Proof. exact prefix_faithful. Qed.
Print Assumptions C04_prefix_faithful_machine.

(* exec: the one data file of the task is what the old image stored completely, followed by what the new image
   stored completely - whole records, in order, a prefix of what the task executed *)
Theorem C04_exec_old_then_new : forall setup cap recs before after,
  let s1 := run true cap before (start setup recs) in
  let s := run true cap (before ++ [LX] ++ after) (start setup recs) in
  exists new, done s = done s1 ++ new
              /\ match_recs (done s1 ++ new) (file (finish s)) = true
              /\ exists rest, recs = done s1 ++ new ++ rest.
Proof. exact exec_old_then_new. Qed.
Print Assumptions C04_exec_old_then_new.

(* both variants at once: the file is the stored records plus `extra` (empty for the code as it is) *)
Theorem C04_prefix_general : forall setup single cap recs sched,
  let s := run single cap sched (start setup recs) in
  exists bs rest, Matches (done s) bs /\ file (finish s) = bs ++ extra single s /\ recs = done s ++ rest.
Proof. exact prefix_general. Qed.
Print Assumptions C04_prefix_general.

(* legacy code (two size updates per record with payload): between them the file ends with a header
   whose payload is missing ... *)
Theorem C04_window_legacy_exact : forall setup cap recs sched,
  let s := run false cap sched (start setup recs) in
  in_window false s = true ->
  exists r bs rest, (pc s = PCopy r \/ pc s = PBumpPl r) /\
    Matches (done s) bs /\ file (finish s) = bs ++ hdr r /\ recs = done s ++ r :: rest.
Proof. exact window_exact. Qed.
Print Assumptions C04_window_legacy_exact.

(* ... which is not a sequence of whole records: the property was false of the legacy code *)
Theorem C04_header_without_payload_legacy_refuted :
  in_window false (run false 4080 w_sched (init w_recs)) = true
  /\ ok_prefix w_recs (file (finish (run false 4080 w_sched (init w_recs)))) = false
  /\ file (finish (run false 4080 w_sched (init w_recs))) = hdr w_r1.
Proof. exact window_witness. Qed.
Print Assumptions C04_header_without_payload_legacy_refuted.

(* every record stored: nothing is missing *)
Theorem C04_complete_run : forall setup single cap recs sched,
  let s := run single cap sched (start setup recs) in
  pc s = PIdle -> todo s = [] -> match_recs recs (file (finish s)) = true.
Proof. exact complete_run. Qed.
Print Assumptions C04_complete_run.

(* the run-time checker accepts every byte string made of whole records *)
Theorem C04_checker_sound : forall rs bs, Matches rs bs -> match_recs rs bs = true.
Proof. exact Matches_match_recs. Qed.
Print Assumptions C04_checker_sound.

(* the decoder that judges real <tid>.dat files end to end (bytes -> words -> bit fields) inverts the
   model's encoder (partial C04_reader_accepts: records without payload; the payload layout is C12's) *)
Theorem C04_decoder_inverts_encoder_partial : forall rs,
  Forall (fun r => fields_ok r /\ r_pl r = []) rs ->
  dec_bytes (concat (map hdr rs)) = Some (map drec_of rs).
Proof. exact decode_inverts_encode. Qed.
Print Assumptions C04_decoder_inverts_encoder_partial.

(* record_trace_data writes ENTRY records lazily; what is written at any time plus what the crash
   handler (segv_handler, also the exit/exec-like PLT flush) adds is the eager trace *)
Theorem C04_lazy_plus_flush_is_eager : forall ops,
  wf_ops [] ops = true ->
  concat (snd (ops_run [] ops)) ++ segv_flush (fst (ops_run [] ops)) = eager [] ops.
Proof. exact lazy_plus_flush_is_eager. Qed.
Print Assumptions C04_lazy_plus_flush_is_eager.

(* on SIGSEGV/SIGABRT the crashing thread's open calls are included: every open RECORDABLE call has its
   ENTRY (at the depth it was entered with) after the handler's flush - the return stack may contain
   NORECORD frames anywhere, in particular the innermost frame the handler passes to record_trace_data *)
Theorem C04_segv_includes_open_calls : forall ops i c,
  wf_ops [] ops = true ->
  nth_error (final_stack [] ops) i = Some c -> c_skip c = false ->
  In (entry_rec (cdepth (firstn i (final_stack [] ops))) c)
     (concat (snd (ops_run [] ops)) ++ segv_flush (fst (ops_run [] ops))).
Proof. exact segv_includes_open_calls. Qed.
Print Assumptions C04_segv_includes_open_calls.

(* hook calls -> records -> stores -> kill anywhere -> recorder: whole records, prefix of the execution *)
Theorem C04_killed_trace_is_prefix_of_execution : forall setup cap ops sched,
  wf_ops [] ops = true ->
  let s := run true cap sched (start setup (concat (snd (ops_run [] ops)))) in
  exists k, match_recs (firstn k (eager [] ops)) (file (finish s)) = true.
Proof. exact killed_trace_now. Qed.
Print Assumptions C04_killed_trace_is_prefix_of_execution.

Theorem C04_crashed_trace_is_complete : forall setup single cap ops sched,
  wf_ops [] ops = true ->
  let recs := concat (snd (ops_run [] ops)) ++ segv_flush (fst (ops_run [] ops)) in
  let s := run single cap sched (start setup recs) in
  pc s = PIdle -> todo s = [] ->
  match_recs (eager [] ops) (file (finish s)) = true.
Proof. exact crashed_trace_is_complete. Qed.
Print Assumptions C04_crashed_trace_is_complete.

(* `uftrace record` terminates: every tracee has closed the pipe (`nowriter`); if after the pending
   messages every listed task is marked, a pending fork (tid = -1), or a dead task with a real tid - or
   FINISH was received - the loop of stop_tracing ends within |pending messages| + 2 iterations *)
Theorem C04_recorder_terminates : forall dead ms s fuel,
  rchan s = ms ->
  forallb (task_done dead) (tids (handle_all ms s)) = true \/ finish_received (handle_all ms s) = true ->
  (length ms + 2 < fuel)%nat ->
  is_stopped (stop_loop true fuel dead true s) = true.
Proof. exact recorder_stops. Qed.
Print Assumptions C04_recorder_terminates.

(* in the words of the property - no hypothesis about forks any more *)
Theorem C04_recorder_terminates_all_dead : forall dead ms,
  (forall tid, (0 <= tid)%Z -> dead tid = true) ->
  forallb real_or_fork (tids (handle_all ms (rs0 ms))) = true ->
  is_stopped (stop_loop true (length ms + 3) dead true (rs0 ms)) = true.
Proof. exact recorder_stops_when_all_dead. Qed.
Print Assumptions C04_recorder_terminates_all_dead.

(* without drop_pending_forks (legacy), or while some process still holds the pipe open, an entry with
   tid < 0 is never marked and the loop never ends *)
Theorem C04_stuck_forever : forall dropf nowriter dead,
  dropf && nowriter = false ->
  forall fuel s, stuck s -> is_stopped (stop_loop dropf fuel dead nowriter s) = false.
Proof. exact stuck_forever. Qed.
Print Assumptions C04_stuck_forever.

(* FORK_START without FORK_END, every task dead: the legacy recorder never terminated *)
Theorem C04_fork_window_legacy_refuted :
  forall fuel, is_stopped (stop_loop false fuel (fun _ => true) true (rs0 fw_msgs)) = false.
Proof. exact fork_window_legacy_spins. Qed.
Print Assumptions C04_fork_window_legacy_refuted.

(* EVENT records with payload (record_event; read triggers): the trace with its events - the "read" event right after
   the function's ENTRY, the "diff" event right before its EXIT - killed at every instant (every single store of
   record_event included: header words, payload copy, the ONE size update), under every interleaving with the recorder,
   leaves whole records that form a prefix of what the thread executed; complete after the crash handler *)
Theorem C04_killed_trace_with_events_is_prefix : forall setup cap ops evs sched,
  wf_ops [] ops = true ->
  let recs := add_events evs (concat (snd (ops_run [] ops))) in
  let s := run true cap sched (start setup recs) in
  exists k, match_recs (firstn k (add_events evs (eager [] ops))) (file (finish s)) = true.
Proof. exact killed_trace_with_events_is_prefix. Qed.
Print Assumptions C04_killed_trace_with_events_is_prefix.

Theorem C04_crashed_trace_with_events_is_complete : forall setup cap ops evs sched,
  wf_ops [] ops = true ->
  let recs := add_events evs (concat (snd (ops_run [] ops)) ++ segv_flush (fst (ops_run [] ops))) in
  let s := run true cap sched (start setup recs) in
  pc s = PIdle -> todo s = [] ->
  match_recs (add_events evs (eager [] ops)) (file (finish s)) = true.
Proof. exact crashed_trace_with_events_is_complete. Qed.
Print Assumptions C04_crashed_trace_with_events_is_complete.

(* MONOTONE IN THE KILL POINT: for every setup, buffer capacity, record list and schedule, if the traced process
   is killed later (the schedule continues with ANY further steps of producer, recorder and writer), the records
   found whole in the data file are those found at the earlier kill point, unchanged and in order, followed by zero or
   more further ones - still a prefix of what the thread was going to write. *)
Theorem C04_later_kill_extends : forall setup cap recs sched more,
  let s1 := run true cap sched (start setup recs) in
  let s2 := run true cap (sched ++ more) (start setup recs) in
  exists new, done s2 = done s1 ++ new
              /\ match_recs (done s1 ++ new) (file (finish s2)) = true
              /\ exists rest, recs = done s1 ++ new ++ rest.
Proof. exact later_kill_extends. Qed.
Print Assumptions C04_later_kill_extends.
