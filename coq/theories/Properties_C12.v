(* Property C12 - only statements, each closed by [exact].
   Model: UV.C12.Model (per-task record stream reader of utils/fstack.c: __read_task_ustack,
   read_task_args/read_task_arg, read_task_event, read_task_ustack; FILE = bytes not yet consumed).
   [read_file false] is the code as it is, [read_file true] the proposed repair (proposed-fixes/C12-1.diff).
   rs ranges over ALL lists of records that are well-formed w.r.t. the argument specs [env] and the
   event table [evs] the reader uses; n over ALL truncation lengths. *)
From Coq Require Import NArith List Bool.
Import ListNotations.
Require Import UV.C12.Model UV.C12.Proofs UV.C12.Lines.

(* The code as it is, under the exact guard: outside the defect class the reader reports exactly
   the records that are completely present in the first n bytes and then ends (end of data, or the
   diagnostic exit "record missing argument info"). *)
Theorem C12_stream_prefix : forall env evs wv rs n,
  wf_recs env evs rs = true -> defect_cut false rs n = false ->
  let res := read_file false env evs wv (firstn n (enc rs)) in
  fst res = map full_item (whole_prefix rs n) /\ (snd res = EEof \/ snd res = EMissingArg).
Proof. exact stream_prefix_legacy. Qed.
Print Assumptions C12_stream_prefix.

(* The guard is exact: on every cut it excludes, what the code reports differs from the completely
   present records (it shows one more record, with an unfilled or stale payload). *)
Theorem C12_guard_exact : forall env evs wv rs n,
  wf_recs env evs rs = true -> defect_cut false rs n = true ->
  ok_cut rs n (read_file false env evs wv (firstn n (enc rs))) = false.
Proof. exact guard_exact. Qed.
Print Assumptions C12_guard_exact.

(* DESIGN section 9 #6, concretely: g("hi", "second", 7) cut inside the second string is reported
   as a record whose payload is shorter than its argument spec needs (the consumer reads past the
   valid bytes), although only one record is completely present. *)
Theorem C12_partial_args_refuted :
  wf_recs (lookup_range w_envl) evsize_repo w_rs = true /\ w_cut <= length (enc w_rs) /\
  let res := read_file false (lookup_range w_envl) evsize_repo watchvar_repo (firstn w_cut (enc w_rs)) in
  ok_cut w_rs w_cut res = false /\
  forallb (item_in_bounds (lookup_range w_envl) evsize_repo) (fst res) = false /\
  length (fst res) = 2 /\ length (whole_prefix w_rs w_cut) = 1.
Proof. exact partial_args_refuted. Qed.
Print Assumptions C12_partial_args_refuted.

(* The repaired reader: for EVERY truncation length the result is exactly the completely present
   records followed by end of data ... *)
Theorem C12_stream_prefix_fixed : forall env evs wv rs n,
  wf_recs env evs rs = true ->
  read_file true env evs wv (firstn n (enc rs)) = (map full_item (whole_prefix rs n), EEof).
Proof. exact stream_prefix_fixed. Qed.
Print Assumptions C12_stream_prefix_fixed.

(* ... i.e. exactly the result on the copy cut at the last whole record. *)
Theorem C12_stream_prefix_fixed_copy : forall env evs wv rs n,
  wf_recs env evs rs = true ->
  read_file true env evs wv (firstn n (enc rs)) = read_file true env evs wv (enc (whole_prefix rs n)).
Proof. exact stream_prefix_fixed_copy. Qed.
Print Assumptions C12_stream_prefix_fixed_copy.

(* Complete description of both readers on every prefix (what the correspondence check compares). *)
Theorem C12_reader_characterised : forall env evs wv fixed rs n,
  wf_recs env evs rs = true ->
  read_file fixed env evs wv (firstn n (enc rs)) = expected fixed env a0 rs n.
Proof. exact read_file_expected. Qed.
Print Assumptions C12_reader_characterised.

(* Every payload the reader hands to its consumers covers all arguments of the spec (no read past
   the valid bytes of args.data): as it is under the guard, repaired without. *)
Theorem C12_reported_in_bounds : forall env evs wv rs n,
  wf_recs env evs rs = true -> defect_cut false rs n = false ->
  forallb (item_in_bounds env evs) (fst (read_file false env evs wv (firstn n (enc rs)))) = true.
Proof. exact reported_in_bounds_legacy. Qed.
Print Assumptions C12_reported_in_bounds.

Theorem C12_reported_in_bounds_fixed : forall env evs wv rs n,
  wf_recs env evs rs = true ->
  forallb (item_in_bounds env evs) (fst (read_file true env evs wv (firstn n (enc rs)))) = true.
Proof. exact reported_in_bounds_fixed. Qed.
Print Assumptions C12_reported_in_bounds_fixed.

(* The run-time checker accepts the model on every safe cut (and the repaired one on every cut). *)
Theorem C12_checker_accepts_model : forall env evs wv rs n,
  wf_recs env evs rs = true -> defect_cut false rs n = false ->
  ok_cut rs n (read_file false env evs wv (firstn n (enc rs))) = true.
Proof. exact stream_prefix_legacy_ok. Qed.
Print Assumptions C12_checker_accepts_model.

(* No hang: on ARBITRARY bytes (not only well-formed files) the reader consumes at least one record
   header per iteration; any fuel above length/16 gives the same result and is never exhausted. *)
Theorem C12_terminates : forall env evs wv fixed (f : bytes) a k,
  length f < HDR * k ->
  read_stream fixed env evs wv k a f = read_stream fixed env evs wv (S (length f)) a f /\
  snd (read_stream fixed env evs wv k a f) <> EFuel.
Proof. exact terminates. Qed.
Print Assumptions C12_terminates.

(* non-vacuity of the guard: safe cuts exist inside a payload and at its end; the witness cut is excluded *)
Theorem C12_guard_non_vacuous :
  defect_cut false w_rs 33 = false /\ defect_cut false w_rs 16 = false /\ defect_cut false w_rs 48 = false /\
  defect_cut false w_rs 40 = true /\ length (enc w_rs) = 48.
Proof. exact guard_non_vacuous. Qed.
Print Assumptions C12_guard_non_vacuous.

(* Text files (task.txt, info lines, .map, .sym) are read by getline()/fgets() loops.  For EVERY file made of
   '\n'-terminated lines and EVERY truncation length the loop sees exactly the complete lines inside the prefix, in
   order, followed - if the cut is inside a line - by the unterminated rest, which is a prefix of the next line. *)
Theorem C12_text_lines : forall ls n, forallb no_nl ls = true ->
  getlines (firstn n (text_of ls)) = expected_lines ls n.
Proof. exact getlines_prefix. Qed.
Print Assumptions C12_text_lines.

Theorem C12_text_cut_structure : forall ls n c p, cut_lines ls n = (c, p) ->
  c = firstn (length c) ls /\
  (p = [] \/ exists l, nth_error ls (length c) = Some l /\ p = firstn (length p) l).
Proof. exact cut_lines_structure. Qed.
Print Assumptions C12_text_cut_structure.

(* Hence any reader that parses line by line and stops at the first rejected line yields, on the prefix, the entries
   of the complete lines and then - only if all were accepted - whatever its line parser makes of the unterminated
   rest (partial: what the C line parsers make of such a rest is not modelled; observed: accepted when it still scans). *)
Theorem C12_text_files_partial : forall (E : Type) (parse : bytes -> option E) ls n, forallb no_nl ls = true ->
  read_text parse (firstn n (text_of ls)) =
  let '(c, p) := cut_lines ls n in
  let '(es, ok) := parse_lines parse (map addnl c) in
  if ok then match p with
             | [] => (es, true)
             | _ => match parse p with Some e => (es ++ [e], true) | None => (es, false) end
             end
  else (es, false).
Proof. exact @read_text_prefix. Qed.
Print Assumptions C12_text_files_partial.
