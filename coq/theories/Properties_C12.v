(* Property C12 - only statements, each closed by [exact].
   Model: UV.C12.Model (per-task record stream reader of utils/fstack.c: __read_task_ustack,
   read_task_args/read_task_arg, read_task_event, read_task_ustack; FILE = bytes not yet consumed).
   [read_file true] is the reader of the current tree (a payload read that hits end-of-file ends the task's
   data, fix ec00259); [read_file false] is the reader before that repair and appears only in the
   `_legacy_` statements.
   rs ranges over ALL lists of records that are well-formed w.r.t. the argument specs [env] and the
   event table [evs] the reader uses; n over ALL truncation lengths. *)
From Coq Require Import NArith List Bool.
Import ListNotations.
Require Import UV.C12.Model UV.C12.Proofs UV.C12.Lines UV.C12.TextModel UV.C12.TaskTxt UV.C12.Scan UV.C12.Mono.

(* MAIN: for EVERY truncation length the reader reports exactly the records that are completely present in
   the first n bytes (header and payload), each with exactly its payload, and then ends with end of data. *)
Theorem C12_stream_prefix : forall env evs wv rs n,
  wf_recs env evs rs = true ->
  read_file true env evs wv (firstn n (enc rs)) = (map full_item (whole_prefix rs n), EEof).
Proof. exact stream_prefix_fixed. Qed.
Print Assumptions C12_stream_prefix.

(* ... i.e. exactly the result on the copy cut at the last whole record ... *)
Theorem C12_stream_prefix_copy : forall env evs wv rs n,
  wf_recs env evs rs = true ->
  read_file true env evs wv (firstn n (enc rs)) = read_file true env evs wv (enc (whole_prefix rs n)).
Proof. exact stream_prefix_fixed_copy. Qed.
Print Assumptions C12_stream_prefix_copy.

(* ... and what is completely present is an initial segment of what was written; all of it when nothing is cut. *)
Theorem C12_whole_prefix_initial : forall rs n, exists k, whole_prefix rs n = firstn k rs.
Proof. exact whole_prefix_initial. Qed.
Print Assumptions C12_whole_prefix_initial.

Theorem C12_whole_prefix_all : forall rs n, length (enc rs) <= n -> whole_prefix rs n = rs.
Proof. exact whole_prefix_all. Qed.
Print Assumptions C12_whole_prefix_all.

(* Every payload the reader hands to its consumers (get_argspec_string, pr_args, event printers) covers all
   arguments of the spec: no read past the valid bytes of args.data, for every n. *)
Theorem C12_reported_in_bounds : forall env evs wv rs n,
  wf_recs env evs rs = true ->
  forallb (item_in_bounds env evs) (fst (read_file true env evs wv (firstn n (enc rs)))) = true.
Proof. exact reported_in_bounds_fixed. Qed.
Print Assumptions C12_reported_in_bounds.

(* The run-time checker accepts the model on every cut. *)
Theorem C12_checker_accepts_model : forall env evs wv rs n,
  wf_recs env evs rs = true ->
  ok_cut rs n (read_file true env evs wv (firstn n (enc rs))) = true.
Proof. exact stream_prefix_fixed_ok. Qed.
Print Assumptions C12_checker_accepts_model.

(* No hang: on ARBITRARY bytes (not only well-formed files) the reader consumes at least one record
   header per iteration; any fuel above length/16 gives the same result and is never exhausted. *)
Theorem C12_terminates : forall env evs wv fixed (f : bytes) a k,
  length f < HDR * k ->
  read_stream fixed env evs wv k a f = read_stream fixed env evs wv (S (length f)) a f /\
  snd (read_stream fixed env evs wv k a f) <> EFuel.
Proof. exact terminates. Qed.
Print Assumptions C12_terminates.

(* Complete description of both readers on every prefix (what the correspondence check compares). *)
Theorem C12_reader_characterised : forall env evs wv fixed rs n,
  wf_recs env evs rs = true ->
  read_file fixed env evs wv (firstn n (enc rs)) = expected fixed env a0 rs n.
Proof. exact read_file_expected. Qed.
Print Assumptions C12_reader_characterised.

(* ---- legacy reader (before ec00259): DESIGN section 9 #6 ---- *)
(* g("hi", "second", 7) cut inside the second string was reported as a record whose payload is shorter than
   its argument spec needs (the consumer read past the valid bytes), although only one record is present. *)
Theorem C12_partial_args_legacy_refuted :
  wf_recs (lookup_range w_envl) evsize_repo w_rs = true /\ w_cut <= length (enc w_rs) /\
  let res := read_file false (lookup_range w_envl) evsize_repo watchvar_repo (firstn w_cut (enc w_rs)) in
  ok_cut w_rs w_cut res = false /\
  forallb (item_in_bounds (lookup_range w_envl) evsize_repo) (fst res) = false /\
  length (fst res) = 2 /\ length (whole_prefix w_rs w_cut) = 1.
Proof. exact partial_args_refuted. Qed.
Print Assumptions C12_partial_args_legacy_refuted.

(* exact extent of the legacy defect: the cuts [defect_cut] are precisely those on which the old reader failed
   the checker; on all others it already reported the completely present records. *)
Theorem C12_legacy_defect_exact : forall env evs wv rs n,
  wf_recs env evs rs = true ->
  ok_cut rs n (read_file false env evs wv (firstn n (enc rs))) = negb (defect_cut false rs n).
Proof. exact legacy_defect_exact. Qed.
Print Assumptions C12_legacy_defect_exact.

Theorem C12_legacy_defect_non_vacuous :
  defect_cut false w_rs 33 = false /\ defect_cut false w_rs 16 = false /\ defect_cut false w_rs 48 = false /\
  defect_cut false w_rs 40 = true /\ length (enc w_rs) = 48.
Proof. exact guard_non_vacuous. Qed.
Print Assumptions C12_legacy_defect_non_vacuous.

(* ---- text files ---- *)
(* Text files (task.txt, info lines, .map, .sym) are read by getline()/fgets() loops.  For EVERY file made of
   '\n'-terminated lines and EVERY truncation length the loop sees exactly the complete lines inside the prefix, in
   order, followed - if the cut is inside a line - by the unterminated rest, which is a prefix of the next line. *)
Theorem C12_text_lines : forall ls n, forallb no_nl ls = true ->
  getlines (firstn n (text_of ls)) = expected_lines ls n.
Proof. exact getlines_prefix. Qed.
Print Assumptions C12_text_lines.

Theorem C12_text_cut_structure : forall ls n c p, cut_lines ls n = (c, p) ->
  c = firstn (length c) ls /\
  (p = [] \/ exists l, nth_error ls (length c) = Some l /\ p = firstn (length p) l).
Proof. exact cut_lines_structure. Qed.
Print Assumptions C12_text_cut_structure.

(* Hence any reader that parses line by line and stops at the first rejected line yields, on the prefix, the entries
   of the complete lines and then - only if all were accepted - whatever its line parser makes of the unterminated
   rest (partial: what the C line parsers make of such a rest is not modelled; the tie checks that it is either
   rejected, ignored, or treated exactly like the same text followed by a newline). *)
Theorem C12_text_files_partial : forall (E : Type) (parse : bytes -> option E) ls n, forallb no_nl ls = true ->
  read_text parse (firstn n (text_of ls)) =
  let '(c, p) := cut_lines ls n in
  let '(es, ok) := parse_lines parse (map addnl c) in
  if ok then match p with
             | [] => (es, true)
             | _ => match parse p with Some e => (es ++ [e], true) | None => (es, false) end
             end
  else (es, false).
Proof. exact @read_text_prefix. Qed.
Print Assumptions C12_text_files_partial.

From Coq Require Import String.
(* ---- the task list (task.txt), model UV.C12.TextModel of read_task_txt_file with its sscanf conversions ---- *)
(* MAIN (task list): for EVERY task.txt made of newline-terminated lines (whatever they contain) and EVERY truncation
   length, what the reader builds from the first n bytes is what it builds from the copy cut at the last whole line:
   no task or session is created from an incomplete line (fix 17db0a1). *)
Theorem C12_task_txt_prefix : forall ls n, forallb no_nl ls = true ->
  read_task_txt true (firstn n (text_of ls)) = read_task_txt true (text_of (fst (cut_lines ls n))).
Proof. exact task_txt_prefix. Qed.
Print Assumptions C12_task_txt_prefix.

(* ... and those lines are an initial segment of the file's lines. *)
Theorem C12_task_txt_prefix_lines : forall ls n, forallb no_nl ls = true ->
  exists k, read_task_txt true (firstn n (text_of ls)) = read_lines true (map addnl (firstn k ls)).
Proof. exact task_txt_prefix_lines. Qed.
Print Assumptions C12_task_txt_prefix_lines.

(* The reader before that fix: "FORK ... pid=101 ppid=100" cut after "ppid=10" created a task with parent 10. *)
Theorem C12_task_txt_legacy_refuted :
  forallb no_nl w_lines = true /\ (w_tcut < List.length (text_of w_lines))%nat /\
  read_task_txt false (firstn w_tcut (text_of w_lines)) =
    ([ESess 100 100 (B "a1b2c3d4e5f60718") (B "/fake/prog"); ETask 200 100 100; EFork 1200 101 10], true) /\
  read_task_txt false (text_of (fst (cut_lines w_lines w_tcut))) =
    ([ESess 100 100 (B "a1b2c3d4e5f60718") (B "/fake/prog"); ETask 200 100 100], true) /\
  read_task_txt true (firstn w_tcut (text_of w_lines)) =
    ([ESess 100 100 (B "a1b2c3d4e5f60718") (B "/fake/prog"); ETask 200 100 100], true).
Proof. exact task_txt_legacy_refuted. Qed.
Print Assumptions C12_task_txt_legacy_refuted.

(* non-vacuity: the written lines are read back as the entries they were written from *)
Theorem C12_task_txt_roundtrip_example : read_task_txt true (text_of w_lines) = (w_entries, true).
Proof. exact task_txt_roundtrip_example. Qed.
Print Assumptions C12_task_txt_roundtrip_example.

(* Any line-by-line reader whose line parser stops at a line without newline - whatever it does with complete lines -
   reads from the first n bytes exactly what it reads from the copy cut at the last whole line (the task list reader
   above is one instance; utils/dwarf.c load_debug_file is of this kind since afd718d, its per-line parser not modelled). *)
Theorem C12_stop_reader_prefix : forall (E : Type) (parse : bytes -> step E) ls n,
  (forall p, has_nl p = false -> parse p = SStop) -> forallb no_nl ls = true ->
  run_text parse (firstn n (text_of ls)) = run_text parse (text_of (fst (cut_lines ls n))).
Proof. exact @stop_reader_prefix. Qed.
Print Assumptions C12_stop_reader_prefix.

(* ---- sscanf on a cut line (the conversions of the task list and map readers) ---- *)
(* For EVERY text written piece by piece for a format (each piece well-formed for its directive and followed by a
   byte that ends the conversion) and EVERY k: what sscanf converts from the first k bytes is exactly the values of
   the complete pieces, plus the cut number / string if at least one of its bytes is there - nothing else.  Hence a
   reader that demands all conversions takes a cut line exactly when the cut lies inside (or behind) the last
   converting piece, and the value it then gets is the prefix of that piece (what C12_task_txt_legacy_refuted shows
   for ppid; what read_session_map still does for a map line cut inside its path). *)
Theorem C12_scan_prefix : forall segs k, wf_segs segs = true ->
  scan (map fst segs) (firstn k (List.concat (map snd segs))) = prefix_vals segs k.
Proof. exact scan_prefix. Qed.
Print Assumptions C12_scan_prefix.

Theorem C12_scan_full : forall segs, wf_segs segs = true ->
  scan (map fst segs) (List.concat (map snd segs)) = flat_map seg_val segs.
Proof. exact scan_full. Qed.
Print Assumptions C12_scan_full.

Theorem C12_scan_prefix_never_more : forall l k, List.length (prefix_vals l k) <= List.length (flat_map seg_val l).
Proof. exact prefix_vals_length. Qed.
Print Assumptions C12_scan_prefix_never_more.

Theorem C12_scan_prefix_example :
  wf_segs ex_segs = true /\ map fst ex_segs = task_fmt /\
  prefix_vals ex_segs 39 = [SNum false 12; SNum false 345; SNum false 100; SNum false 4711] /\
  prefix_vals ex_segs 37 = [SNum false 12; SNum false 345; SNum false 100; SNum false 47] /\
  prefix_vals ex_segs 35 = [SNum false 12; SNum false 345; SNum false 100].
Proof. exact scan_prefix_example. Qed.
Print Assumptions C12_scan_prefix_example.

(* MONOTONE IN THE CRASH POINT: if the recorder (or the copy) got further - m >= n bytes of the same task file
   survive - the reader reports what it reported for the n-byte file, unchanged and in the same order, followed by
   zero or more further records: no record reported from a shorter file is taken back or altered by more data. *)
Theorem C12_later_crash_extends : forall env evs wv rs n m,
  wf_recs env evs rs = true -> n <= m ->
  exists k, fst (read_file true env evs wv (firstn n (enc rs))) =
            firstn k (fst (read_file true env evs wv (firstn m (enc rs)))).
Proof. exact later_crash_extends. Qed.
Print Assumptions C12_later_crash_extends.
Theorem C12_whole_prefix_monotone : forall rs n m, n <= m -> exists k, whole_prefix rs n = firstn k (whole_prefix rs m).
Proof. exact whole_prefix_mono. Qed.
Print Assumptions C12_whole_prefix_monotone.
