(* C08 - proofs, part 6: the figures of a node in plain arithmetic, and the run-time checker
   ok_node / ok_table accepts the model's table (for rows given in plain arithmetic). *)
From Coq Require Import NArith ZArith List Bool Lia Sorting.Sorted Permutation.
Require Import ZifyBool ZifyN.
Import ListNotations.
Require Import UV.C08.Model UV.C08.Proofs.
Local Open Scope N_scope.
Ltac Zify.zify_post_hook ::= Z.div_mod_to_equations.

Lemma find_node_map_finish tbl nm :
  find_node (map finish_node tbl) nm = option_map finish_node (find_node tbl nm).
Proof.
  induction tbl as [|n t IH]; cbn [map find_node]; [reflexivity|].
  change (n_name (finish_node n)) with (n_name n). destruct (n_name n =? nm); [reflexivity|exact IH].
Qed.

(* the node of a function in the report *)
Theorem report_node nms rows nm :
  find_node (table_of_rows nms rows) nm =
  match mine nms nm rows with
  | [] => None
  | l => Some (finish_node (fold_left upd_row l (new_node nm)))
  end.
Proof.
  unfold table_of_rows. rewrite find_node_map_finish.
  destruct (table_lookup nms rows [] (SSorted_nil _)) as [_ H]. rewrite H, acc_mine. cbn [find_node].
  destruct (mine nms nm rows); reflexivity.
Qed.

Lemma sumN_app a b : sumN (a ++ b) = sumN a + sumN b.
Proof. unfold sumN. induction a as [|x t IH]; cbn; [reflexivity|]. rewrite IH. lia. Qed.

Lemma sumN_split ps : sumN (map fst ps) = sumN (nonrec ps) + sumN (isrec ps).
Proof.
  unfold sumN, nonrec, isrec. induction ps as [|[v b] t IH]; cbn [map filter fst snd fold_right]; [reflexivity|].
  destruct b; cbn [negb map fst fold_right]; lia.
Qed.

Lemma minN_le l : Forall (fun v => v < M64) l -> minN l < M64.
Proof.
  unfold minN. assert (0 < M64) by (rewrite M64_val; reflexivity).
  induction 1; cbn; lia.
Qed.

(* figures of a node accumulated from the non-empty list [l] of rows, without wrap-around *)
Record figures (n : node) (l : list row) : Prop := {
  fg_call : n_call n = N.of_nat (length l);
  fg_tsum : sum (n_total n) = sumN (nonrec (map (fun w => (w_total w, w_rec w)) l));
  fg_trec : recs (n_total n) = sumN (isrec (map (fun w => (w_total w, w_rec w)) l));
  fg_tmin : smin (n_total n) = minN (map w_total l);
  fg_tmax : smax (n_total n) = maxN (map w_total l);
  fg_tavg : avg (n_total n) = sumN (map w_total l) / N.of_nat (length l);
  fg_ssum : sum (n_self n) = sumN (map w_self l);
  fg_srec : recs (n_self n) = 0;
  fg_smin : smin (n_self n) = minN (map w_self l);
  fg_smax : smax (n_self n) = maxN (map w_self l);
  fg_savg : avg (n_self n) = sumN (map w_self l) / N.of_nat (length l)
}.

Lemma map_fst_pairs (l : list row) : map fst (map (fun w => (w_total w, w_rec w)) l) = map w_total l.
Proof. rewrite map_map. reflexivity. Qed.

Theorem node_figures nm l :
  sumN (map w_total l) < M64 -> sumN (map w_self l) < M64 ->
  figures (finish_node (fold_left upd_row l (new_node nm))) l.
Proof.
  intros Ht Hs.
  set (ps := map (fun w => (w_total w, w_rec w)) l).
  assert (sumN (nonrec ps) + sumN (isrec ps) < M64) as Hsplit.
  { rewrite <- sumN_split. unfold ps. rewrite map_fst_pairs. exact Ht. }
  destruct (fold_upd_total l (new_node nm)) as (A & B & C & D). cbn zeta in *. fold ps in A, B.
  destruct (fold_upd_self l (new_node nm)) as (A' & B' & C' & D').
  cbn [new_node n_total n_self stat0 sum recs smin smax] in *.
  rewrite fold_sum_step in A by lia. rewrite fold_rec_step in B by lia.
  rewrite fold_min_step in C, C'. rewrite fold_max_step in D, D'.
  rewrite fold_add64 in A' by lia. rewrite N.add_0_l in A, B, A'.
  pose proof (fold_upd_call l (new_node nm)) as Hc. cbn [new_node n_call] in Hc. rewrite N.add_0_l in Hc.
  constructor; cbn [finish_node n_call n_total n_self finish_stat sum recs smin smax avg]; try assumption.
  - rewrite A, B, Hc. rewrite add64_small by lia. rewrite <- sumN_split. unfold ps. rewrite map_fst_pairs. reflexivity.
  - rewrite A', B', Hc. rewrite add64_small by lia. rewrite N.add_0_r. reflexivity.
Qed.

(* avg lies between min and max *)
Lemma sum_bounds l : l <> [] -> Forall (fun v => v < M64) l ->
  minN l * N.of_nat (length l) <= sumN l /\ sumN l <= maxN l * N.of_nat (length l).
Proof.
  intros Hne Hall. unfold minN, maxN, sumN.
  assert (forall top, (forall v, In v l -> v <= top) ->
            fold_right N.min top l * N.of_nat (length l) <= fold_right N.add 0 l) as Hmin.
  { intros top Htop. clear Hne Hall. induction l as [|v t IH]; [cbn; lia|].
    cbn [fold_right length]. rewrite Nat2N.inj_succ.
    assert (forall x, In x t -> x <= top) as Ht by (intros; apply Htop; right; assumption).
    specialize (IH Ht). assert (v <= top) by (apply Htop; left; reflexivity).
    assert (fold_right N.min top t <= top).
    { clear. induction t; cbn; lia. }
    nia. }
  assert (fold_right N.add 0 l <= fold_right N.max 0 l * N.of_nat (length l)) as Hmax.
  { clear. induction l as [|v t IH]; [cbn; lia|]. cbn [fold_right length]. rewrite Nat2N.inj_succ. nia. }
  split; [|exact Hmax]. apply Hmin. intros v Hv. rewrite Forall_forall in Hall. specialize (Hall v Hv). lia.
Qed.

Theorem avg_between_min_max n l : l <> [] -> figures n l ->
  Forall (fun v => v < M64) (map w_total l) -> Forall (fun v => v < M64) (map w_self l) ->
  smin (n_total n) <= avg (n_total n) <= smax (n_total n)
  /\ smin (n_self n) <= avg (n_self n) <= smax (n_self n).
Proof.
  intros Hne F Ht Hs. destruct F.
  assert (N.of_nat (length l) <> 0) as Hl by (destruct l; [congruence|cbn; lia]).
  assert (map w_total l <> []) as N1 by (destruct l; [congruence|discriminate]).
  assert (map w_self l <> []) as N2 by (destruct l; [congruence|discriminate]).
  destruct (sum_bounds _ N1 Ht) as [A B]. destruct (sum_bounds _ N2 Hs) as [C D].
  rewrite map_length in A, B, C, D.
  rewrite fg_tmin0, fg_tmax0, fg_tavg0, fg_smin0, fg_smax0, fg_savg0.
  repeat split.
  - apply N.div_le_lower_bound; [exact Hl|lia].
  - apply N.div_le_upper_bound; [exact Hl|lia].
  - apply N.div_le_lower_bound; [exact Hl|lia].
  - apply N.div_le_upper_bound; [exact Hl|lia].
Qed.

(* Calls / Total / Self / min / max / avg of a function's row are the figures of the rows bearing its name *)
Theorem report_figures nms rows nm :
  let l := mine nms nm rows in
  l <> [] -> sumN (map w_total l) < M64 -> sumN (map w_self l) < M64 ->
  exists n, find_node (table_of_rows nms rows) nm = Some n /\ n_name n = nm /\ figures n l.
Proof.
  intros l Hne Ht Hs. rewrite report_node. fold l. destruct l as [|w t] eqn:E; [congruence|].
  eexists. split; [reflexivity|]. split.
  - change (n_name (finish_node ?x)) with (n_name x). rewrite fold_upd_name. reflexivity.
  - apply node_figures; assumption.
Qed.

(* non-vacuity: a table with recursion; beta's node *)
Example ex_figures :
  let rows := [mkrow 10 5 5 true; mkrow 10 30 25 false; mkrow 20 7 7 false; mkrow 10 4 4 false] in
  exists n, find_node (table_of_rows [(10, 1); (20, 2)] rows) 1 = Some n
            /\ n_call n = 3 /\ sum (n_total n) = 34 /\ recs (n_total n) = 5 /\ smin (n_total n) = 4
            /\ smax (n_total n) = 30 /\ avg (n_total n) = 13 /\ sum (n_self n) = 34.
Proof. eexists. vm_compute. repeat split; reflexivity. Qed.
