(* C08 - proofs, part 7: calls still open at the end of a task's data (add_remaining_fstack),
   and whole tasks: completed top-level calls followed by a chain of open frames. *)
From Coq Require Import NArith ZArith List Bool Lia.
Require Import ZifyBool ZifyN.
Import ListNotations.
Require Import UV.C08.Model UV.C08.Proofs.
Local Open Scope N_scope.
Ltac Zify.zify_post_hook ::= Z.div_mod_to_equations.

(* ------------------------------------------------------------------ t_last is the time of the last record *)
Lemma step_last st r : t_last (fst (step st r)) = r_time r.
Proof.
  unfold step. destruct (t_lost st && is_lost r); [reflexivity|].
  destruct (r_type r).
  - destruct (t_dead (prepare st r)); reflexivity.
  - destruct (0 <? t_over (prepare st r)); [reflexivity|]. destruct (t_live (prepare st r)); reflexivity.
  - destruct (sc_of (prepare st r) <? t_usc (prepare st r)); reflexivity.
Qed.

Lemma run_last rs : forall st out, rs <> [] -> t_last (fst (run st out rs)) = last (map r_time rs) 0.
Proof.
  induction rs as [|r t IH]; intros st out Hne; [congruence|].
  cbn [run]. destruct (step st r) as [st' rows] eqn:E.
  destruct t as [|r' t'].
  - cbn. pose proof (step_last st r) as H. rewrite E in H. exact H.
  - rewrite IH by discriminate. reflexivity.
Qed.

(* ------------------------------------------------------------------ the open frames on the stack *)
Definition oslot (o : oframe) : slot := mkslot (o_addr o) (o_t0 o) (child64 (o_kids o) 0) true.
Fixpoint okids_rows (anc : list N) (os : list oframe) : list row :=
  match os with
  | [] => []
  | o :: t => concat (map (rows64 (o_addr o :: anc)) (o_kids o)) ++ okids_rows (o_addr o :: anc) t
  end.
Fixpoint oheight (os : list oframe) : nat :=
  match os with
  | [] => 0%nat
  | o :: t => S (Nat.max (heights (o_kids o)) (oheight t))
  end.

(* running the records of a chain of open frames (outermost first) pushes one slot per frame, whose
   child time is the accumulated duration of the frame's completed callees, and emits their rows *)
Lemma run_open : forall os d stk dead usc l lx out, (oheight os <= length dead)%nat ->
  exists dead' l' lx',
    run (mid stk dead usc l lx) out (flat_open d os)
    = (mid (rev (map oslot os) ++ stk) dead' (usc + N.of_nat (length os)) l' lx',
       out ++ okids_rows (map s_addr stk) os).
Proof.
  induction os as [|o t IH]; intros d stk dead usc l lx out Hh.
  - exists dead, l, lx. cbn. rewrite app_nil_r, N.add_0_r. reflexivity.
  - cbn [oheight] in Hh. destruct dead as [|s dd]; [cbn in Hh; lia|]. cbn [length] in Hh.
    cbn [flat_open run]. rewrite step_entry, app_nil_r. rewrite run_app.
    destruct (run_forest (o_kids o) (d + 1) (o_addr o) (o_t0 o) 0 stk dd (usc + 1) (o_t0 o) (o_t0 o) out)
      as (dd' & l' & lx' & Hl & E); [lia|].
    rewrite E.
    destruct (IH (d + 1) (oslot o :: stk) dd' (usc + 1) l' lx'
                 (out ++ concat (map (rows64 (o_addr o :: map s_addr stk)) (o_kids o))))
      as (dd2 & l2 & lx2 & E2); [lia|].
    exists dd2, l2, lx2. unfold oslot at 1 in E2. rewrite E2. f_equal.
    + f_equal.
      * cbn [map rev]. rewrite <- app_assoc. reflexivity.
      * cbn [length]. rewrite Nat2N.inj_succ. lia.
    + cbn [okids_rows map s_addr oslot]. rewrite <- app_assoc. reflexivity.
Qed.

(* ------------------------------------------------------------------ add_remaining_fstack on those slots *)
(* rows of the open frames, innermost first; [inner] = duration of the next inner open frame *)
Fixpoint open_rows (last inner : N) (ros : list oframe) : list row :=
  match ros with
  | [] => []
  | o :: t =>
      mkrow (o_addr o) (last - o_t0 o) (last - o_t0 o - sumdur (o_kids o) - inner)
            (recursive (o_addr o) (map o_addr t))
      :: open_rows last (last - o_t0 o) t
  end.
(* each open frame's completed callees and the next inner open frame fit into its span up to [last] *)
Fixpoint fits (last inner : N) (ros : list oframe) : Prop :=
  match ros with
  | [] => True
  | o :: t => Forall wt (o_kids o) /\ o_t0 o + sumdur (o_kids o) + inner <= last /\ fits last (last - o_t0 o) t
  end.

Lemma remaining_open last : last < M64 -> forall ros extra inner,
  (extra = None /\ inner = 0) \/ extra = Some inner ->
  fits last inner ros ->
  remaining_from false last extra (map oslot ros) = open_rows last inner ros.
Proof.
  intros Hlast. induction ros as [|o t IH]; intros extra inner Hex Hf; [reflexivity|].
  cbn [fits] in Hf. destruct Hf as (Hk & Hfit & Hrest).
  cbn [map remaining_from open_rows oslot s_child s_total s_addr].
  assert (child64 (o_kids o) 0 = sumdur (o_kids o)) as Hc.
  { rewrite child64_wt by (auto; lia). lia. }
  assert (bumpc extra (child64 (o_kids o) 0) = sumdur (o_kids o) + inner) as Hb.
  { rewrite Hc. destruct Hex as [[-> ->] | ->]; cbn [bumpc]; [lia|]. rewrite add64_small by lia. reflexivity. }
  rewrite Hb.
  replace (last <? o_t0 o) with false by lia.
  rewrite sub64_le by lia.
  replace (last - o_t0 o <? sumdur (o_kids o) + inner) with false by lia.
  rewrite sub64_le by lia.
  rewrite has_addr_map, map_map. cbn [oslot s_addr].
  f_equal; [f_equal; lia|].
  apply IH; [right; reflexivity|exact Hrest].
Qed.

(* ------------------------------------------------------------------ a whole task *)
Lemma init_state_mid max_stack : init_state max_stack = mkts false false [] (repeat slot0 (N.to_nat max_stack)) 0 0 0 0 false.
Proof. reflexivity. Qed.

Lemma mapi_id f : (forall i s, f i s = s) -> forall l i, mapi f i l = l.
Proof. intros Hf. induction l as [|s t IH]; intro i; cbn; [reflexivity|]. rewrite Hf, IH. reflexivity. Qed.

(* the first record of a trace that starts at depth 0 with an ENTRY only sets fstack_set *)
Lemma first_entry dead a t :
  step (mkts false false [] dead 0 0 0 0 false) (mkrec ENTRY 0 a t) = step (mid [] dead 0 0 0) (mkrec ENTRY 0 a t).
Proof.
  unfold step. cbn [t_lost is_lost r_type andb].
  assert (prepare (mkts false false [] dead 0 0 0 0 false) (mkrec ENTRY 0 a t) = mid [] dead 0 0 0) as ->.
  { unfold prepare. cbn [t_set is_exit r_type r_depth]. rewrite N.add_0_r.
    unfold arr_of. cbn [t_live rev app t_dead].
    rewrite mapi_id by (intros i s; replace (i <? 0) with false by lia; reflexivity).
    unfold with_stack, split_at. replace (0 <=? N.of_nat (length dead)) with true by lia.
    cbn [N.to_nat firstn skipn rev]. reflexivity. }
  reflexivity.
Qed.

Lemma run_first_entry dead out rs :
  match rs with mkrec ENTRY 0 _ _ :: _ => True | _ => False end ->
  run (mkts false false [] dead 0 0 0 0 false) out rs = run (mid [] dead 0 0 0) out rs.
Proof.
  destruct rs as [|[ty d a t] rs']; [tauto|]. destruct ty; try tauto. destruct d; try tauto. intros _.
  cbn [run]. rewrite first_entry. reflexivity.
Qed.

Definition task_height (tt : ttrace) : nat := Nat.max (heights (tt_done tt)) (oheight (tt_open tt)).

Lemma flat_head d c : exists a t rest, flat d c = mkrec ENTRY d a t :: rest.
Proof. destruct c as [a t0 t1 kids]. cbn [flat]. eauto. Qed.

Lemma trace_recs_head tt : trace_recs tt <> [] ->
  match trace_recs tt with mkrec ENTRY 0 _ _ :: _ => True | _ => False end.
Proof.
  unfold trace_recs. destruct tt as [done opn]. cbn [tt_done tt_open].
  destruct done as [|c cs].
  - cbn [map concat app]. destruct opn as [|o os]; [cbn; congruence|]. intros _. cbn [flat_open]. exact I.
  - intros _. cbn [map concat]. destruct (flat_head 0 c) as (a & t & rest & ->). cbn [app]. exact I.
Qed.

(* THE TASK THEOREM: for a task whose data is a sequence of completed top-level calls followed by a chain of
   calls still open at the end (innermost first: [ros]), with nesting below max_stack, the rows counted by
   build_function_tree + add_remaining_fstack are the tree rows of all completed calls followed by one row per
   open call, innermost first, lasting until the task's last record. *)
Theorem task_rows_open max_stack done ros :
  let tt := mktt done (rev ros) in
  let last := last_time tt in
  (task_height tt <= N.to_nat max_stack)%nat ->
  last < M64 -> fits last 0 ros ->
  task_rows max_stack (trace_recs tt)
  = concat (map (rows64 []) done) ++ okids_rows [] (rev ros) ++ open_rows last 0 ros.
Proof.
  intros tt last Hh Hlast Hfit.
  destruct (trace_recs tt) as [|r0 rs0] eqn:Etr.
  { (* no record at all *)
    unfold trace_recs in Etr. cbn [tt tt_done tt_open] in Etr.
    apply app_eq_nil in Etr. destruct Etr as [E1 E2].
    assert (rev ros = []) as Er by (destruct (rev ros); [reflexivity|discriminate]).
    assert (ros = []) as -> by (rewrite <- (rev_involutive ros), Er; reflexivity).
    assert (done = []) as ->.
    { destruct done as [|c cs]; [reflexivity|]. cbn [map concat] in E1.
      destruct (flat_head 0 c) as (a & t & rest & Ef). rewrite Ef in E1. discriminate. }
    reflexivity. }
  unfold task_rows, task_rows_gen. rewrite <- Etr. fold (init_state max_stack). rewrite init_state_mid.
  rewrite run_first_entry by (apply trace_recs_head; rewrite Etr; discriminate).
  pose proof (run_last (trace_recs tt) (mid [] (repeat slot0 (N.to_nat max_stack)) 0 0 0) []) as Hl.
  rewrite Etr in Hl at 1. specialize (Hl ltac:(discriminate)).
  unfold trace_recs in Hl |- *. cbn [tt tt_done tt_open] in Hl |- *.
  unfold task_height in Hh. cbn [tt tt_done tt_open] in Hh.
  rewrite run_app in Hl |- *.
  destruct (run_top done (repeat slot0 (N.to_nat max_stack)) 0 0 0 []) as (d1 & l1 & lx1 & Hd1 & E1 & _).
  { rewrite repeat_length. lia. }
  rewrite E1 in Hl |- *.
  destruct (run_open (rev ros) 0 [] d1 0 l1 lx1 ([] ++ concat (map (rows64 []) done))) as (d2 & l2 & lx2 & E2).
  { rewrite Hd1, repeat_length. lia. }
  rewrite E2 in Hl |- *. cbn [fst t_last mid] in Hl. cbn [t_last t_live mid].
  rewrite app_nil_r, map_rev, rev_involutive. cbn [app map].
  unfold remaining. rewrite (remaining_open l2) with (inner := 0).
  - rewrite <- app_assoc. fold last in Hl. unfold last_time in last. subst last. rewrite Hl. reflexivity.
  - rewrite Hl. exact Hlast.
  - left. auto.
  - rewrite Hl. exact Hfit.
Qed.

(* completed calls only: Calls/Total/Self rows of the whole task in plain arithmetic *)
Corollary task_rows_closed max_stack done :
  (heights done <= N.to_nat max_stack)%nat -> Forall wt done ->
  task_rows max_stack (concat (map (flat 0) done)) = concat (map (spec_rows []) done).
Proof.
  intros Hh Hw.
  pose proof (task_rows_open max_stack done []) as H. cbn [rev] in H. cbn zeta in H.
  unfold trace_recs in H. cbn [tt_done tt_open flat_open] in H. rewrite app_nil_r in H.
  rewrite H.
  - cbn [okids_rows open_rows]. rewrite !app_nil_r. f_equal. apply map_ext_in. intros c Hc.
    apply rows64_spec. rewrite Forall_forall in Hw. auto.
  - unfold task_height. cbn [tt_done tt_open oheight]. lia.
  - unfold last_time, trace_recs. cbn [tt_done tt_open flat_open]. rewrite app_nil_r.
    (* the last record is the EXIT of the last call: its time is below 2^64 *)
    clear H Hh. induction Hw as [|c cs Hc Hcs IH]; [cbn; rewrite M64_val; reflexivity|].
    cbn [map concat]. destruct cs as [|c' cs'].
    + cbn [map concat]. rewrite app_nil_r. destruct c as [a t0 t1 kids]. cbn [flat].
      rewrite map_cons, map_app. cbn [map]. change (?x :: ?l ++ [?y]) with ((x :: l) ++ [y]).
      rewrite last_last. cbn. apply wt_inv in Hc. tauto.
    + destruct (flat_head 0 c') as (a' & t' & rest' & Ef).
      assert (concat (map (flat 0) (c' :: cs')) <> []) as Hne by (cbn [map concat]; rewrite Ef; discriminate).
      rewrite map_app.
      assert (forall (l1 l2 : list N) d, l2 <> [] -> List.last (l1 ++ l2) d = List.last l2 d) as Hlast.
      { induction l1 as [|x t IHl]; intros l2 d Hn; [reflexivity|]. cbn [app].
        destruct (t ++ l2) eqn:Eapp; [apply app_eq_nil in Eapp; tauto|]. rewrite <- Eapp. cbn [List.last].
        rewrite Eapp, <- Eapp. apply IHl, Hn. }
      rewrite Hlast; [exact IH|]. intro Hm. apply map_eq_nil in Hm. contradiction.
  - cbn. exact I.
Qed.

(* non-vacuity of the hypotheses of task_rows_open: one completed call with a recursive callee, then two
   open frames, the inner one with a completed callee *)
Example ex_task_open :
  let done := [Call 1 10 50 [Call 2 12 20 []; Call 1 20 30 [Call 3 21 22 []]]] in
  let ros := [mkof 3 70 [Call 2 75 80 []]; mkof 1 60 []] in
  let tt := mktt done (rev ros) in
  (task_height tt <= N.to_nat 1024)%nat /\ last_time tt < M64 /\ fits (last_time tt) 0 ros
  /\ task_rows 1024 (trace_recs tt) = concat (map (rows64 []) done) ++ okids_rows [] (rev ros) ++ open_rows (last_time tt) 0 ros
  /\ open_rows (last_time tt) 0 ros = [mkrow 3 10 5 false; mkrow 1 20 10 false].
Proof.
  cbn zeta. split; [vm_compute; lia|]. split; [rewrite M64_val; vm_compute; reflexivity|].
  split; [|split; vm_compute; reflexivity].
  replace (last_time _) with 80 by reflexivity. cbn [fits o_kids o_t0].
  repeat split; repeat constructor; try (rewrite M64_val; reflexivity); vm_compute; congruence.
Qed.
