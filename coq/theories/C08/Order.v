(* C08 - proofs, part 8: the node table does not depend on the order in which the rows are counted
   (tasks are merged by time in the code; the model counts task after task). *)
From Coq Require Import NArith ZArith List Bool Lia Sorting.Sorted Permutation.
Require Import ZifyBool ZifyN.
Import ListNotations.
Require Import UV.C08.Model UV.C08.Proofs.
Local Open Scope N_scope.

Lemma add64_swap a b c : add64 (add64 a b) c = add64 (add64 a c) b.
Proof. rewrite !add64_assoc. f_equal. apply add64_comm. Qed.

Lemma update_stat_comm ts t1 r1 t2 r2 :
  update_stat (update_stat ts t1 r1) t2 r2 = update_stat (update_stat ts t2 r2) t1 r1.
Proof.
  unfold update_stat. cbn [sum recs smin smax avg]. f_equal.
  - destruct r1, r2; try reflexivity. apply add64_swap.
  - destruct r1, r2; try reflexivity. apply add64_swap.
  - destruct (N.ltb_spec t1 (smin ts)), (N.ltb_spec t2 (smin ts));
      repeat match goal with |- context [?a <? ?b] => destruct (N.ltb_spec a b) end; lia.
  - destruct (N.ltb_spec (smax ts) t1), (N.ltb_spec (smax ts) t2);
      repeat match goal with |- context [?a <? ?b] => destruct (N.ltb_spec a b) end; lia.
Qed.

Lemma upd_row_comm n w1 w2 : upd_row (upd_row n w1) w2 = upd_row (upd_row n w2) w1.
Proof.
  unfold upd_row, update_node. cbn [n_name n_call n_total n_self]. f_equal; apply update_stat_comm.
Qed.

Lemma fold_upd_perm l l' : Permutation l l' -> forall n, fold_left upd_row l n = fold_left upd_row l' n.
Proof.
  induction 1 as [|x l l' _ IH|x y l|l l' l'' _ IH1 _ IH2]; intro n; cbn [fold_left].
  - reflexivity.
  - apply IH.
  - rewrite upd_row_comm. reflexivity.
  - rewrite IH1. apply IH2.
Qed.

Lemma filter_perm {A} (f : A -> bool) l l' : Permutation l l' -> Permutation (filter f l) (filter f l').
Proof.
  induction 1 as [|x l l' _ IH|x y l|l l' l'' _ IH1 _ IH2]; cbn [filter].
  - constructor.
  - destruct (f x); [constructor|]; assumption.
  - destruct (f x), (f y); try apply Permutation_refl. constructor.
  - eapply perm_trans; eassumption.
Qed.

Lemma find_some tbl nm n : find_node tbl nm = Some n -> In n tbl /\ n_name n = nm.
Proof.
  induction tbl as [|x t IH]; cbn [find_node]; [discriminate|].
  destruct (N.eqb_spec (n_name x) nm) as [E|NE].
  - intro H. injection H as <-. split; [left; reflexivity|exact E].
  - intro H. destruct (IH H). split; [right; assumption|assumption].
Qed.

(* two name-sorted tables with the same lookups are the same list *)
Lemma table_ext t1 : forall t2, names_sorted t1 -> names_sorted t2 ->
  (forall nm, find_node t1 nm = find_node t2 nm) -> t1 = t2.
Proof.
  unfold names_sorted. induction t1 as [|n1 r1 IH]; intros t2 S1 S2 H.
  - destruct t2 as [|n2 r2]; [reflexivity|]. specialize (H (n_name n2)). cbn in H. rewrite N.eqb_refl in H. discriminate.
  - destruct t2 as [|n2 r2].
    { specialize (H (n_name n1)). cbn in H. rewrite N.eqb_refl in H. discriminate. }
    cbn [map] in S1, S2. apply StronglySorted_inv in S1. apply StronglySorted_inv in S2.
    destruct S1 as [S1 A1], S2 as [S2 A2].
    assert (Forall (fun x => n_name n1 < n_name x) r1) as B1.
    { rewrite Forall_forall in A1 |- *. intros x Hx. apply A1, in_map, Hx. }
    assert (Forall (fun x => n_name n2 < n_name x) r2) as B2.
    { rewrite Forall_forall in A2 |- *. intros x Hx. apply A2, in_map, Hx. }
    assert (n1 = n2) as ->.
    { pose proof (H (n_name n1)) as H1. pose proof (H (n_name n2)) as H2.
      cbn [find_node] in H1, H2. rewrite N.eqb_refl in H1, H2.
      destruct (N.eqb_spec (n_name n2) (n_name n1)) as [E|NE].
      - congruence.
      - exfalso. replace (n_name n1 =? n_name n2) with false in H2 by lia.
        symmetry in H1. apply find_some in H1. apply find_some in H2.
        destruct H1 as [I1 E1], H2 as [I2 E2].
        rewrite Forall_forall in B1, B2. specialize (B2 _ I1). specialize (B1 _ I2). lia. }
    f_equal. apply IH; try assumption.
    intros nm. specialize (H nm). cbn [find_node] in H.
    destruct (N.eqb_spec (n_name n2) nm) as [E|NE]; [|exact H].
    subst nm. rewrite !find_node_above; auto.
Qed.

Theorem table_perm nms rows rows' : Permutation rows rows' -> table_of_rows nms rows = table_of_rows nms rows'.
Proof.
  intro P. unfold table_of_rows. f_equal.
  destruct (table_lookup nms rows [] (SSorted_nil _)) as [S1 L1].
  destruct (table_lookup nms rows' [] (SSorted_nil _)) as [S2 L2].
  apply table_ext; try assumption.
  intros nm. rewrite L1, L2, !acc_mine. cbn [find_node node_or_new].
  pose proof (filter_perm (fun w => name_of nms (w_addr w) =? nm) _ _ P) as PM. fold (mine nms nm rows) (mine nms nm rows') in PM.
  destruct (mine nms nm rows) as [|a l] eqn:E1.
  - apply Permutation_nil in PM. rewrite PM. reflexivity.
  - destruct (mine nms nm rows') as [|a' l'] eqn:E2.
    + apply Permutation_sym, Permutation_nil in PM. discriminate.
    + f_equal. apply fold_upd_perm, PM.
Qed.
