(* C08 - proofs, part 13: LOST markers.  In data that starts at depth 0, a LOST marker between records whose
   depth fields agree with the nesting (the dropped records were complete calls) does not change any row:
   the rows of a trace with markers are the rows of the trace without them. *)
From Coq Require Import NArith ZArith List Bool Lia Arith.
Require Import ZifyBool ZifyN ZifyNat.
Import ListNotations.
Require Import UV.C08.Model UV.C08.Proofs UV.C08.Open UV.C08.Merge.
Local Open Scope N_scope.

Definition erase (rs : list rec) : list rec := filter (fun r => negb (is_lost r)) rs.

(* the depth fields agree with the nesting, which stays below [max]; result: the depth at the end *)
Fixpoint walk (max n : nat) (rs : list rec) : option nat :=
  match rs with
  | [] => Some n
  | r :: t =>
      match r_type r with
      | ENTRY => if (r_depth r =? N.of_nat n) && (n <? max)%nat then walk max (S n) t else None
      | EXIT => match n with
                | O => None
                | S n' => if r_depth r =? N.of_nat n' then walk max n' t else None
                end
      | LOST => walk max n t
      end
  end.

Definition allinv (l : list slot) : Prop := Forall (fun s => s_valid s = false) l.
Definition allval (l : list slot) : Prop := Forall (fun s => s_valid s = true) l.

(* the state after a LOST marker: add_lost_fstack has moved the innermost open frame above stack_count *)
Definition pending (stk dead : list slot) (usc last lastx : N) : tstate :=
  mkts true true (tl stk) (match stk with [] => dead | top :: _ => top :: dead end) 0 usc last lastx false.

Lemma nth_error_app_len {A} (l1 l2 : list A) : nth_error (l1 ++ l2) (length l1) = nth_error l2 0.
Proof. induction l1; cbn; auto. Qed.

Lemma step_lost_mid stk dead l lx d a t :
  allinv dead ->
  step (mid stk dead (N.of_nat (length stk)) l lx) (mkrec LOST d a t)
  = (pending stk dead (N.of_nat (length stk)) t lx, []).
Proof.
  intro Hinv. unfold step. cbn [mid t_lost is_lost r_type andb].
  change (prepare (mid stk dead (N.of_nat (length stk)) l lx) (mkrec LOST d a t))
    with (mid stk dead (N.of_nat (length stk)) l lx).
  assert (sc_of (mid stk dead (N.of_nat (length stk)) l lx) = N.of_nat (length stk)) as ->
      by (unfold sc_of, mid; cbn [t_live t_over]; lia).
  cbn [r_type r_time mid t_usc t_legacy t_live t_dead t_over t_lastx].
  rewrite N.ltb_irrefl, N.sub_diag.
  cbn [N.to_nat lost_loop].
  unfold arr_of, mid. cbn [t_live t_dead].
  (* no row: the slot above the stack is not valid *)
  assert (lost_rows false 1 (N.of_nat (length stk)) (rev stk ++ dead) = []) as ->.
  { cbn [lost_rows]. unfold get. rewrite Nat2N.id.
    replace (length stk) with (length (rev stk)) at 1 by apply rev_length.
    rewrite nth_error_app_len.
    destruct dead as [|s dd]; cbn [nth_error].
    - destruct (N.of_nat (length stk) =? 0); reflexivity.
    - inversion Hinv as [|? ? Hs _]; subst. rewrite Hs. destruct (N.of_nat (length stk) =? 0); reflexivity. }
  unfold with_stack, split_at, pending. cbn [t_set t_lost t_usc t_last t_lastx t_legacy].
  rewrite app_length, rev_length.
  destruct stk as [|top rest].
  - cbn. replace (0 <=? N.of_nat (length dead)) with true by lia. reflexivity.
  - cbn [length tl].
    replace (N.of_nat (S (length rest)) - 1 <=? N.of_nat (S (length rest) + length dead)) with true by lia.
    replace (N.to_nat (N.of_nat (S (length rest)) - 1)) with (length rest) by lia.
    cbn [rev]. rewrite <- app_assoc. cbn [app].
    replace (length rest) with (length (rev rest)) by apply rev_length.
    rewrite firstn_app, firstn_all, Nat.sub_diag, skipn_app, skipn_all, Nat.sub_diag.
    cbn [firstn skipn app]. rewrite app_nil_r, rev_involutive. reflexivity.
Qed.

Lemma step_lost_pending stk dead usc l lx d a t :
  step (pending stk dead usc l lx) (mkrec LOST d a t) = (pending stk dead usc t lx, []).
Proof. reflexivity. Qed.

Lemma mapi_app f : forall l1 l2 i, mapi f i (l1 ++ l2) = mapi f i l1 ++ mapi f (i + N.of_nat (length l1)) l2.
Proof.
  induction l1 as [|s t IH]; intros l2 i; cbn [app mapi length].
  - rewrite N.add_0_r. reflexivity.
  - rewrite IH. do 3 f_equal. lia.
Qed.
Lemma mapi_length f : forall l i, length (mapi f i l) = length l.
Proof. induction l as [|s t IH]; intro i; cbn; [reflexivity|]. rewrite IH. reflexivity. Qed.
Lemma mapi_below f u : (forall i s, i < u -> f i s = s) ->
  forall l i, i + N.of_nat (length l) <= u -> mapi f i l = l.
Proof.
  intros Hf. induction l as [|s t IH]; intros i Hi; cbn [mapi]; [reflexivity|].
  cbn [length] in Hi. rewrite Hf by lia. rewrite IH by lia. reflexivity.
Qed.
Lemma mapi_allinv f : (forall i s, s_valid (f i s) = s_valid s) -> forall l i, allinv l -> allinv (mapi f i l).
Proof.
  intros Hf. induction l as [|s t IH]; intros i H; cbn [mapi]; [constructor|].
  inversion H; subst. constructor; [rewrite Hf; assumption|apply IH; assumption].
Qed.

Lemma arr_pending stk dead usc l lx : arr_of (pending stk dead usc l lx) = rev stk ++ dead.
Proof.
  unfold arr_of, pending. cbn [t_live t_dead]. destruct stk as [|top rest]; [reflexivity|].
  cbn [tl rev]. rewrite <- app_assoc. reflexivity.
Qed.

(* the first record after the marker re-synchronises the stack: with an agreeing depth field nothing moves *)
Lemma prepare_pending stk dead l lx r :
  is_lost r = false -> allinv dead ->
  r_depth r + (if is_exit r then 1 else 0) = N.of_nat (length stk) ->
  exists dead2, length dead2 = length dead /\ allinv dead2 /\
    prepare (pending stk dead (N.of_nat (length stk)) l lx) r = mid stk dead2 (N.of_nat (length stk)) l lx.
Proof.
  intros Hnl Hinv Hk.
  set (u := N.of_nat (length stk)).
  set (f := fun (i : N) (s : slot) => if (u <=? i) && (i <=? u + r_depth r)
                                      then mkslot (s_addr s) (sub64 (r_time r) 1) 0 (s_valid s) else s).
  exists (mapi f u dead). split; [apply mapi_length|]. split.
  { apply mapi_allinv; [|exact Hinv]. intros i s. unfold f. destruct ((u <=? i) && (i <=? u + r_depth r)); reflexivity. }
  unfold prepare. rewrite Hk. fold u.
  change (t_set (pending stk dead u l lx)) with true. cbv iota.
  change (t_lost (pending stk dead u l lx)) with true. rewrite Hnl. cbn [negb andb].
  change (t_usc (pending stk dead u l lx)) with u. fold f.
  rewrite arr_pending, mapi_app, rev_length. fold u. rewrite N.add_0_l.
  rewrite (mapi_below f u).
  2:{ intros i s Hi. unfold f. replace (u <=? i) with false by lia. reflexivity. }
  2:{ rewrite rev_length. fold u. lia. }
  unfold with_stack, split_at. rewrite app_length, rev_length, mapi_length.
  replace (u <=? N.of_nat (length stk + length dead)) with true by lia.
  unfold u. rewrite Nat2N.id.
  assert (forall X : list slot, firstn (length stk) (rev stk ++ X) = rev stk /\ skipn (length stk) (rev stk ++ X) = X) as HX.
  { intro X. rewrite <- (rev_length stk). rewrite firstn_app, firstn_all, Nat.sub_diag, skipn_app, skipn_all, Nat.sub_diag.
    cbn [firstn skipn app]. rewrite app_nil_r. auto. }
  destruct (HX (mapi f (N.of_nat (length stk)) dead)) as [-> ->].
  rewrite rev_involutive. reflexivity.
Qed.

Lemma step_pending stk dead l lx r :
  is_lost r = false -> allinv dead ->
  r_depth r + (if is_exit r then 1 else 0) = N.of_nat (length stk) ->
  exists dead2, length dead2 = length dead /\ allinv dead2 /\
    step (pending stk dead (N.of_nat (length stk)) l lx) r = step (mid stk dead2 (N.of_nat (length stk)) l lx) r.
Proof.
  intros Hnl Hinv Hk. destruct (prepare_pending stk dead l lx r Hnl Hinv Hk) as (dead2 & Hl & Hi & E).
  exists dead2. split; [exact Hl|]. split; [exact Hi|].
  unfold step. change (t_lost (pending stk dead (N.of_nat (length stk)) l lx)) with true.
  change (t_lost (mid stk dead2 (N.of_nat (length stk)) l lx)) with false.
  rewrite Hnl. cbn [andb]. rewrite E.
  change (prepare (mid stk dead2 (N.of_nat (length stk)) l lx) r) with (mid stk dead2 (N.of_nat (length stk)) l lx).
  reflexivity.
Qed.

(* the two shapes of a state inside data that starts at depth 0 *)
Definition St (pend : bool) (stk dead : list slot) (l lx : N) : tstate :=
  if pend then pending stk dead (N.of_nat (length stk)) l lx else mid stk dead (N.of_nat (length stk)) l lx.
Definition final_pend (pend : bool) (rs : list rec) : bool := fold_left (fun _ r => is_lost r) rs pend.

Lemma bump_length stk d : length (bump stk d) = length stk.
Proof. destruct stk; reflexivity. Qed.
Lemma bump_allval stk d : allval stk -> allval (bump stk d).
Proof. destruct stk as [|p t]; [auto|]. intro H. inversion H; subst. constructor; [assumption|assumption]. Qed.

(* one ENTRY or EXIT from a settled state: the same row and the same stack whatever the unused slots hold *)
Lemma step_settled max stk dead dead' l l' lx r n m' :
  n = length stk -> (length stk + length dead = max)%nat -> length dead' = length dead ->
  allinv dead -> allinv dead' -> allval stk -> is_lost r = false ->
  walk max n [r] = Some m' ->
  exists stk2 deadA deadB rows,
    step (mid stk dead (N.of_nat (length stk)) l lx) r = (St false stk2 deadA (r_time r) (r_time r), rows)
    /\ step (mid stk dead' (N.of_nat (length stk)) l' lx) r = (St false stk2 deadB (r_time r) (r_time r), rows)
    /\ length stk2 = m' /\ (length stk2 + length deadA = max)%nat /\ length deadB = length deadA
    /\ allinv deadA /\ allinv deadB /\ allval stk2.
Proof.
  intros Hn Hmax Hl Hi Hi' Hv Hnl Hw. destruct r as [ty d a t]. cbn [walk r_type r_depth] in Hw.
  destruct ty; [| |discriminate Hnl].
  - (* ENTRY *)
    destruct ((d =? N.of_nat n) && (n <? max)%nat) eqn:C; [|discriminate]. injection Hw as <-.
    apply andb_true_iff in C. destruct C as [C1 C2].
    destruct dead as [|s dd]; [cbn in Hmax; lia|]. destruct dead' as [|s' dd']; [discriminate|].
    cbn [length] in Hl, Hmax. apply Forall_inv_tail in Hi. apply Forall_inv_tail in Hi'.
    exists (mkslot a t 0 true :: stk), dd, dd', []. rewrite !step_entry. unfold St. cbn [length r_time].
    rewrite Nat2N.inj_succ, <- N.add_1_r.
    repeat split; auto; try lia. constructor; [reflexivity|assumption].
  - (* EXIT *)
    destruct n as [|n']; [discriminate|]. destruct (d =? N.of_nat n') eqn:C; [|discriminate]. injection Hw as <-.
    destruct stk as [|top rest]; [discriminate|]. pose proof (Forall_inv Hv) as Ht. apply Forall_inv_tail in Hv.
    destruct top as [a0 t0 ch v]. cbn [s_valid] in Ht. rewrite Ht in *. clear Ht.
    rewrite !step_exit. cbv zeta. cbn [length] in Hn, Hmax. injection Hn as Hn.
    set (delta := sub64 t t0). set (child := if delta <? ch then delta else ch).
    exists (bump rest delta), (mkslot a0 delta child false :: dead), (mkslot a0 delta child false :: dead'),
      [mkrow a delta (sub64 delta child) (has_addr false a0 rest)].
    unfold St. cbn [length r_time]. rewrite bump_length.
    replace (N.of_nat (S (length rest)) - 1) with (N.of_nat (length rest)) by lia.
    repeat split; auto; try lia.
    + constructor; [reflexivity|assumption].
    + constructor; [reflexivity|assumption].
    + apply bump_allval. assumption.
Qed.

Lemma walk_cons max n r t :
  walk max n (r :: t) = match walk max n [r] with Some m' => walk max m' t | None => None end.
Proof.
  cbn [walk]. destruct (r_type r).
  - destruct ((r_depth r =? N.of_nat n) && (n <? max)%nat); reflexivity.
  - destruct n as [|n']; [reflexivity|]. destruct (r_depth r =? N.of_nat n'); reflexivity.
  - reflexivity.
Qed.

Lemma walk_depth max n r m' : is_lost r = false -> walk max n [r] = Some m' ->
  r_depth r + (if is_exit r then 1 else 0) = N.of_nat n.
Proof.
  unfold is_lost, is_exit. cbn [walk]. destruct (r_type r); intros Hnl Hw; [| |discriminate].
  - destruct (N.eqb_spec (r_depth r) (N.of_nat n)); [lia|discriminate].
  - destruct n as [|n']; [discriminate|]. destruct (N.eqb_spec (r_depth r) (N.of_nat n')); [lia|discriminate].
Qed.

(* THE SIMULATION: from a settled or pending state, running a record list with markers and running it without
   them produce the same rows and the same stack *)
Lemma sim_run max : forall rs n pend stk dead dead' l l' lx m,
  walk max n rs = Some m -> n = length stk -> (length stk + length dead = max)%nat -> length dead' = length dead ->
  allinv dead -> allinv dead' -> allval stk -> (pend = false -> l = l') ->
  exists stk2 deadA deadB l2 l2' lx2 R,
    run (St pend stk dead l lx) [] rs = (St (final_pend pend rs) stk2 deadA l2 lx2, R)
    /\ run (St false stk dead' l' lx) [] (erase rs) = (St false stk2 deadB l2' lx2, R)
    /\ length stk2 = m /\ (final_pend pend rs = false -> l2 = l2').
Proof.
  induction rs as [|r t IH]; intros n pend stk dead dead' l l' lx m Hw Hn Hmax Hl Hi Hi' Hv Hll.
  - cbn in Hw. injection Hw as <-. exists stk, dead, dead', l, l', lx, []. cbn. repeat split; auto.
  - destruct (is_lost r) eqn:Hlost.
    + (* a marker *)
      destruct r as [ty d a tm]. destruct ty; try discriminate Hlost.
      cbn [walk r_type] in Hw.
      assert (step (St pend stk dead l lx) (mkrec LOST d a tm) = (St true stk dead tm lx, [])) as Es.
      { unfold St. destruct pend; [apply step_lost_pending|apply step_lost_mid, Hi]. }
      destruct (IH n true stk dead dead' tm l' lx m Hw Hn Hmax Hl Hi Hi' Hv) as
          (stk2 & dA & dB & l2 & l2' & lx2 & R & E1 & E2 & Hm & Hf); [discriminate|].
      exists stk2, dA, dB, l2, l2', lx2, R. cbn [run]. rewrite Es. cbn [app].
      unfold erase. cbn [filter is_lost r_type negb]. fold (erase t).
      unfold final_pend. cbn [fold_left is_lost r_type]. fold (final_pend true t).
      repeat split; assumption.
    + (* an ENTRY or EXIT record *)
      rewrite walk_cons in Hw. destruct (walk max n [r]) as [m'|] eqn:Hw1; [|discriminate].
      pose proof (walk_depth max n r m' Hlost Hw1) as Hk. rewrite Hn in Hk.
      (* settle the left state *)
      assert (exists deadL, length deadL = length dead /\ allinv deadL /\
                step (St pend stk dead l lx) r = step (mid stk deadL (N.of_nat (length stk)) l lx) r) as (deadL & HlL & HiL & EL).
      { unfold St. destruct pend.
        - apply step_pending; assumption.
        - exists dead. auto. }
      destruct (step_settled max stk deadL dead' l l' lx r n m' Hn) as
          (stk1 & dA1 & dB1 & rows & S1 & S2 & Hm1 & Hmax1 & Hl1 & Hi1 & Hi1' & Hv1); try assumption; try lia.
      destruct (IH m' false stk1 dA1 dB1 (r_time r) (r_time r) (r_time r) m Hw) as
          (stk2 & dA & dB & l2 & l2' & lx2 & R & E1 & E2 & Hm & Hf); auto.
      exists stk2, dA, dB, l2, l2', lx2, (rows ++ R). cbn [run]. rewrite EL, S1.
      unfold erase. cbn [filter]. rewrite Hlost. cbn [negb]. fold (erase t). cbn [run].
      change (St false stk dead' l' lx) with (mid stk dead' (N.of_nat (length stk)) l' lx). rewrite S2.
      rewrite (run_out t), (run_out (erase t)). rewrite E1, E2. cbn [fst snd app].
      unfold final_pend. cbn [fold_left]. rewrite Hlost. fold (final_pend false t).
      repeat split; assumption.
Qed.

(* ------------------------------------------------------------------ whole tasks *)
(* the first record of the data (depth field 0, not an EXIT) only sets fstack_set *)
Lemma first_record dead r :
  is_exit r = false -> r_depth r = 0 ->
  step (mkts false false [] dead 0 0 0 0 false) r = step (mid [] dead 0 0 0) r.
Proof.
  intros Hx Hd. unfold step. cbn [t_lost andb mid].
  assert (prepare (mkts false false [] dead 0 0 0 0 false) r = mid [] dead 0 0 0) as ->.
  { unfold prepare. cbn [t_set]. rewrite Hx, Hd. cbn [N.add].
    unfold arr_of. cbn [t_live rev app t_dead].
    rewrite mapi_id by (intros i s; replace (i <? 0) with false by lia; reflexivity).
    unfold with_stack, split_at. replace (0 <=? N.of_nat (length dead)) with true by lia.
    cbn [N.to_nat firstn skipn rev]. reflexivity. }
  reflexivity.
Qed.

Definition head_ok (rs : list rec) : Prop :=
  match rs with [] => True | r :: _ => is_exit r = false /\ r_depth r = 0 end.

Lemma run_first dead rs : rs <> [] -> head_ok rs ->
  run (mkts false false [] dead 0 0 0 0 false) [] rs = run (mid [] dead 0 0 0) [] rs.
Proof.
  destruct rs as [|r t]; [congruence|]. intros _ [Hx Hd]. cbn [run]. rewrite first_record by assumption. reflexivity.
Qed.

Lemma erase_head max : forall rs m, walk max 0 rs = Some m -> head_ok (erase rs).
Proof.
  induction rs as [|r t IH]; intros m Hw; [exact I|].
  unfold erase. cbn [filter]. destruct (is_lost r) eqn:Hl; cbn [negb].
  - apply (IH m). cbn [walk] in Hw. unfold is_lost in Hl. destruct (r_type r); try discriminate. exact Hw.
  - cbn [head_ok]. cbn [walk] in Hw. unfold is_lost in Hl. unfold is_exit.
    destruct (r_type r); try discriminate.
    destruct (N.eqb_spec (r_depth r) (N.of_nat 0)) as [E|]; [|discriminate]. cbn in E. auto.
Qed.

Lemma erase_nonempty : forall pend rs, final_pend pend rs = false -> rs <> [] -> erase rs <> [].
Proof.
  intros pend rs. revert pend. induction rs as [|r t IH]; intros pend Hf Hne; [congruence|].
  unfold final_pend in Hf. cbn [fold_left] in Hf. fold (final_pend (is_lost r) t) in Hf.
  unfold erase. cbn [filter]. destruct t as [|r' t'].
  - cbn in Hf. rewrite Hf. cbn. discriminate.
  - destruct (is_lost r); cbn [negb]; [|discriminate]. apply (IH true); [exact Hf|discriminate].
Qed.

Lemma allinv_repeat n : allinv (repeat slot0 n).
Proof. induction n; constructor; auto. Qed.

(* THE THEOREM: LOST markers between records whose depth fields agree with the nesting change nothing *)
Theorem lost_markers_transparent max_stack rs m :
  walk (N.to_nat max_stack) 0 rs = Some m -> head_ok rs -> final_pend false rs = false ->
  task_rows max_stack rs = task_rows max_stack (erase rs).
Proof.
  intros Hw Hh Hf. destruct rs as [|r0 t0]; [reflexivity|]. set (rs := r0 :: t0) in *.
  assert (rs <> []) as Hne by discriminate.
  unfold task_rows, task_rows_gen. fold (init_state max_stack). rewrite init_state_mid.
  rewrite run_first by assumption.
  rewrite run_first; [|apply (erase_nonempty false); assumption|eapply erase_head; exact Hw].
  destruct (sim_run (N.to_nat max_stack) rs 0%nat false [] (repeat slot0 (N.to_nat max_stack))
                    (repeat slot0 (N.to_nat max_stack)) 0 0 0 m Hw) as
      (stk2 & dA & dB & l2 & l2' & lx2 & R & E1 & E2 & Hm & Hl); auto.
  - cbn [length]. rewrite repeat_length. lia.
  - apply allinv_repeat.
  - apply allinv_repeat.
  - constructor.
  - unfold St in E1, E2. cbn [length N.of_nat] in E1, E2. rewrite Hf in E1. rewrite E1, E2.
    cbn [mid t_last t_live]. rewrite (Hl Hf). reflexivity.
Qed.

(* ------------------------------------------------------------------ markers inside the data of a call forest *)
Lemma walk_app max : forall l1 l2 n,
  walk max n (l1 ++ l2) = match walk max n l1 with Some m => walk max m l2 | None => None end.
Proof.
  induction l1 as [|r t IH]; intros l2 n; [reflexivity|].
  cbn [app]. rewrite (walk_cons max n r (t ++ l2)), (walk_cons max n r t).
  destruct (walk max n [r]); [apply IH|reflexivity].
Qed.

Lemma walk_erase max : forall rs n, walk max n (erase rs) = walk max n rs.
Proof.
  induction rs as [|r t IH]; intro n; [reflexivity|].
  unfold erase. cbn [filter]. destruct (is_lost r) eqn:Hl; cbn [negb]; fold (erase t).
  - rewrite IH. cbn [walk]. unfold is_lost in Hl. destruct (r_type r); try discriminate. reflexivity.
  - rewrite (walk_cons max n r (erase t)), (walk_cons max n r t). destruct (walk max n [r]); [apply IH|reflexivity].
Qed.

Lemma flat_walk max : forall c n, (n + height c <= max)%nat -> walk max n (flat (N.of_nat n) c) = Some n.
Proof.
  induction c as [e a t0 t1 kids IH] using call_ind'. intros n Hh.
  cbn [height] in Hh. fold (heights kids) in Hh.
  cbn [flat]. rewrite walk_cons. cbn [walk r_type r_depth].
  rewrite N.eqb_refl. replace (n <? max)%nat with true by lia. cbn [andb].
  rewrite walk_app.
  assert (walk max (S n) (concat (map (flat (N.of_nat n + 1)) kids)) = Some (S n)) as ->.
  { replace (N.of_nat n + 1) with (N.of_nat (S n)) by lia.
    assert (S n + heights kids <= max)%nat as Hk by lia. clear Hh.
    induction IH as [|k ks Hk1 _ IHk]; [reflexivity|].
    cbn [heights fold_right] in Hk. fold (heights ks) in Hk.
    cbn [map concat]. rewrite walk_app, Hk1 by lia. apply IHk. lia. }
  cbn [walk r_type r_depth]. rewrite N.eqb_refl. reflexivity.
Qed.

Lemma flat_forest_walk max cs : forall n, (n + heights cs <= max)%nat ->
  walk max n (concat (map (flat (N.of_nat n)) cs)) = Some n.
Proof.
  induction cs as [|c t IH]; intros n Hh; [reflexivity|].
  cbn [heights fold_right] in Hh. fold (heights t) in Hh.
  cbn [map concat]. rewrite walk_app, flat_walk by lia. apply IH. lia.
Qed.

Lemma flat_open_walk max : forall os n, (n + oheight os <= max)%nat ->
  walk max n (flat_open (N.of_nat n) os) = Some (n + length os)%nat.
Proof.
  induction os as [|o t IH]; intros n Hh; [cbn; f_equal; lia|].
  cbn [oheight] in Hh. cbn [flat_open]. rewrite walk_cons. cbn [walk r_type r_depth].
  rewrite N.eqb_refl. replace (n <? max)%nat with true by lia. cbn [andb].
  rewrite walk_app. replace (N.of_nat n + 1) with (N.of_nat (S n)) by lia.
  rewrite flat_forest_walk by lia. rewrite IH by lia. cbn [length]. f_equal. lia.
Qed.

Lemma trace_walk max tt : (task_height tt <= max)%nat ->
  walk max 0 (trace_recs tt) = Some (length (tt_open tt)).
Proof.
  intro Hh. unfold task_height in Hh. unfold trace_recs.
  rewrite walk_app. change 0 with (N.of_nat 0). rewrite flat_forest_walk by lia.
  rewrite flat_open_walk by lia. reflexivity.
Qed.
