(* C08 - proofs, part 16: what `uftrace report --diff DIR` prints when DIR is the data set itself: one row per
   function, every difference cell is the zero cell ("0 us" / "+0"). *)
From Coq Require Import NArith List Bool Lia Sorting.Sorted Permutation.
Import ListNotations.
Require Import UV.C08.Model UV.C08.Proofs.
Local Open Scope N_scope.

Lemma insert_diff_perm x l : Permutation (x :: l) (insert_diff x l).
Proof.
  induction l as [|y t IH]; cbn [insert_diff]; [apply Permutation_refl|].
  destruct (absdiff y <? absdiff x); [apply Permutation_refl|].
  eapply perm_trans; [apply perm_swap|]. apply perm_skip, IH.
Qed.

Lemma diff_report_perm base pair : Permutation (diff_pairs base pair) (diff_report base pair).
Proof.
  unfold diff_report.
  assert (forall l acc, Permutation (acc ++ l) (fold_left (fun a x => insert_diff x a) l acc)) as G.
  { induction l as [|x t IH]; intro acc; cbn [fold_left]; [rewrite app_nil_r; apply Permutation_refl|].
    eapply perm_trans; [|apply IH]. eapply perm_trans; [apply Permutation_sym, Permutation_middle|].
    change (x :: acc ++ t) with ((x :: acc) ++ t). apply Permutation_app_tail, insert_diff_perm. }
  apply (G _ []).
Qed.

Lemma show_dtime_same x : show_dtime x x = None.
Proof. unfold show_dtime. rewrite sdiff_same. reflexivity. Qed.
Lemma show_dcount_same x : show_dcount x x = None.
Proof. unfold show_dcount. rewrite sdiff_same. reflexivity. Qed.

Theorem diff_stdout_self tbl : names_sorted tbl ->
  Permutation (map fst (diff_stdout tbl tbl)) (map n_name tbl)
  /\ Forall (fun l => snd l = [None; None; None]) (diff_stdout tbl tbl).
Proof.
  intro Hs. destruct (diff_self_zero tbl Hs) as [E _].
  pose proof (diff_report_perm tbl tbl) as P. rewrite E in P.
  unfold diff_stdout. split.
  - rewrite map_map. eapply perm_trans; [apply Permutation_map, Permutation_sym, P|].
    rewrite map_map. cbn. apply Permutation_refl.
  - apply Forall_forall. intros l Hl. apply in_map_iff in Hl. destruct Hl as ([b p] & <- & Hin).
    apply (Permutation_in _ (Permutation_sym P)) in Hin. apply in_map_iff in Hin. destruct Hin as (n & Hn & _).
    injection Hn as <- <-. cbn [snd]. rewrite !show_dtime_same, show_dcount_same. reflexivity.
Qed.
