(* C08 - proofs, part 14: the property for data with LOST markers: a task whose records are those of a good
   task (completed calls, then calls open at the end) with LOST markers in between - the dropped records were
   complete calls, so every depth field agrees with the nesting - has exactly the rows of the task without the
   markers, and the run-time checker accepts the model's report. *)
From Coq Require Import NArith ZArith List Bool Lia Arith Sorting.Sorted Permutation.
Import ListNotations.
Require Import UV.C08.Model UV.C08.Proofs UV.C08.Open UV.C08.Order UV.C08.Checker UV.C08.OpenSpec UV.C08.Lost.
Local Open Scope N_scope.

(* [rs] is the data of [tt] with LOST markers inserted (not as the last record; the first record has depth 0) *)
Definition marked (tt : ttrace) (rs : list rec) : Prop :=
  erase rs = trace_recs tt /\ head_ok rs /\ final_pend false rs = false.

Theorem marked_task_rows max_stack tt rs : good_task max_stack tt -> marked tt rs ->
  task_rows max_stack rs = task_rows max_stack (trace_recs tt)
  /\ Permutation (task_rows max_stack rs) (spec_task tt).
Proof.
  intros Hg (He & Hh & Hf).
  assert (task_rows max_stack rs = task_rows max_stack (trace_recs tt)) as E.
  { rewrite <- He. apply (lost_markers_transparent max_stack rs (length (tt_open tt))); try assumption.
    rewrite <- walk_erase, He. apply trace_walk. destruct Hg as (Hh' & _). exact Hh'. }
  split; [exact E|]. rewrite E. apply task_rows_good, Hg.
Qed.

Theorem checker_accepts_model_lost max_stack nms tts rss :
  Forall (good_task max_stack) tts -> Forall2 marked tts rss ->
  sumN (map w_total (concat (map spec_task tts))) < M64 ->
  report (mkcase max_stack nms rss) = report (mkcase max_stack nms (map trace_recs tts))
  /\ ok_table nms tts (report (mkcase max_stack nms rss)) = true.
Proof.
  intros Hg Hm Hb.
  assert (report (mkcase max_stack nms rss) = report (mkcase max_stack nms (map trace_recs tts))) as E.
  { unfold report, report_gen, all_rows_gen. cbn [c_names c_max c_tasks]. fold task_rows. do 2 f_equal.
    clear Hb. induction Hm as [|tt rs tts' rss' Hm1 _ IH]; [reflexivity|].
    inversion Hg as [|? ? Hg1 Hg']; subst. cbn [map]. f_equal; [|apply IH, Hg'].
    apply (marked_task_rows max_stack tt rs Hg1 Hm1). }
  split; [exact E|]. rewrite E. apply checker_accepts_model; assumption.
Qed.

(* non-vacuity: markers before the first record, inside a call, between calls, doubled, and inside the open chain *)
Definition ex_lost_tt : ttrace :=
  mktt [Call 1 10 50 [Call 2 12 20 []; Call 1 20 30 [Call 3 21 21 []]]] [mkof 1 60 []; mkof 3 70 [Call 2 75 80 []]].
Definition ex_lost_rs : list rec :=
  [mkrec LOST 0 5 0; mkrec ENTRY 0 1 10; mkrec ENTRY 1 2 12; mkrec LOST 0 1 0; mkrec EXIT 1 2 20; mkrec LOST 0 2 0;
   mkrec LOST 0 2 0; mkrec ENTRY 1 1 20; mkrec ENTRY 2 3 21; mkrec EXIT 2 3 21; mkrec EXIT 1 1 30; mkrec EXIT 0 1 50;
   mkrec LOST 0 1 0; mkrec ENTRY 0 1 60; mkrec ENTRY 1 3 70; mkrec LOST 0 1 0; mkrec ENTRY 2 2 75; mkrec EXIT 2 2 80].
Example ex_lost_marked : good_task 1024 ex_lost_tt /\ marked ex_lost_tt ex_lost_rs.
Proof.
  split.
  - unfold ex_lost_tt. repeat constructor; try (rewrite M64_val; reflexivity);
      try (vm_compute; congruence); try (vm_compute; lia).
  - repeat split; vm_compute; reflexivity.
Qed.
Example ex_lost_rows :
  task_rows 1024 ex_lost_rs = task_rows 1024 (trace_recs ex_lost_tt)
  /\ sumN (map w_self (task_rows 1024 ex_lost_rs)) = 40 + 20.
Proof. split; [apply marked_task_rows; apply ex_lost_marked|vm_compute; reflexivity]. Qed.
