(* C08 - model of the "Total stdv" / "Self stdv" column of `uftrace report` (utils/report.c update_time_stat:
   sums of squares in double; finish_time_stat: relative standard deviation sigma / mean * 100 in double) with
   Coq's primitive floats (the machine's IEEE-754 binary64, evaluated by vm_compute), its text ("%9.2f%%"),
   and an exact rational checker for the printed figure.  NO proofs in this file. *)
From Coq Require Import NArith ZArith List Bool Floats.
Import ListNotations.
Require Import UV.C08.Model.

Local Open Scope float_scope.

(* (double)x for x < 2^63 *)
Definition fl (n : N) : float := PrimFloat.of_uint63 (Uint63.of_Z (Z.of_N n)).
Definition sq (t : N) : float := fl t * fl t.

(* per name, in the order the rows are counted: total.sum_sq, total.rec_sq, self.sum_sq *)
Definition sq_acc (nms : names) (nm : N) (rows : list row) : float * float * float :=
  fold_left (fun acc w =>
               let '(s, r, ss) := acc in
               if N.eqb (name_of nms (w_addr w)) nm
               then (if w_rec w then (s, r + sq (w_total w), ss + sq (w_self w))
                     else (s + sq (w_total w), r, ss + sq (w_self w)))
               else acc) rows (0, 0, 0).

(* finish_time_stat *)
Definition stdv_of (sumsq recsq : float) (sumrec call : N) : float :=
  let mean := fl sumrec / fl call in
  let variance := (sumsq + recsq) / fl call - mean * mean in
  let variance := if variance <? 0 then 0 else variance in
  if 0 <? mean then sqrt variance * 100 / mean else 0.
(* the code before the three fixes: squares and mean in uint64_t, sigma / sqrt(calls), no test of the mean *)
(* (double)x for any uint64_t x: halve with a sticky bit above 2^63 (same rounding) *)
Definition fl64 (n : N) : float :=
  if (n <? 9223372036854775808)%N then fl n else fl (N.lor (N.div n 2) (N.modulo n 2)) * 2.
Definition stdv_legacy (sumsq recsq avg call : N) : float :=
  let variance := fl64 (N.div (add64 sumsq recsq) call) - fl64 ((avg * avg) mod M64)%N in
  sqrt (variance / fl call) * 100 / fl avg.

(* (name, total stdv, self stdv) for every node of the report over the rows in counting order *)
Definition report_stdv (nms : names) (rows : list row) : list (N * float * float) :=
  map (fun n =>
         let '(s, r, ss) := sq_acc nms (n_name n) rows in
         (n_name n,
          stdv_of s r (add64 (sum (n_total n)) (recs (n_total n))) (n_call n),
          stdv_of ss 0 (add64 (sum (n_self n)) (recs (n_self n))) (n_call n)))
      (table_of_rows nms rows).

(* bit-for-bit comparison with the implementation's doubles (NaN equals NaN) *)
Definition feq (a b : float) : bool := (a =? b) || (is_nan a && is_nan b).

(* "%9.2f" : the exact value rounded to hundredths, half to even; None for NaN / infinity *)
Definition hundredths (x : float) : option Z :=
  match Prim2SF x with
  | S754_zero _ => Some 0%Z
  | S754_finite s m e =>
      let v := (Z.pos m * 100)%Z in
      let r := if (0 <=? e)%Z then (v * 2 ^ e)%Z
               else let d := (2 ^ (- e))%Z in
                    let q := (v / d)%Z in let rem := (v mod d)%Z in
                    if (2 * rem <? d)%Z then q
                    else if (d <? 2 * rem)%Z then (q + 1)%Z
                    else if Z.even q then q else (q + 1)%Z in
      Some (if s then (- r)%Z else r)
  | _ => None
  end.

(* checker, in exact arithmetic: the printed percentage p (in hundredths of a percent) is the relative standard
   deviation sigma/mean*100 of the values, within one unit of the last printed digit:
   (p-1)^2 * S1^2 <= 10^8 * (n*S2 - S1^2) <= (p+1)^2 * S1^2 ;  a zero mean is printed as 0.00 *)
Definition ok_stdv (p : Z) (vals : list N) : bool :=
  let n := Z.of_nat (length vals) in
  let s1 := Z.of_N (sumN vals) in
  let s2 := Z.of_N (sumN (map (fun v => (v * v)%N) vals)) in
  if (s1 =? 0)%Z then (p =? 0)%Z
  else
    let lhs := (100000000 * (n * s2 - s1 * s1))%Z in
    let lo := Z.max (p - 1) 0 in
    (0 <=? p)%Z && (lo * lo * (s1 * s1) <=? lhs)%Z && (lhs <=? (p + 1) * (p + 1) * (s1 * s1))%Z.

(* rows in descending order of a float key, ties in name order (the rb-tree insertion of report_sort_nodes) *)
Fixpoint insert_f (x : N * float) (l : list (N * float)) : list (N * float) :=
  match l with
  | [] => [x]
  | y :: t => if snd y <? snd x then x :: y :: t else y :: insert_f x t
  end.
Definition sort_f (l : list (N * float)) : list N := map fst (fold_left (fun acc x => insert_f x acc) l []).
Fixpoint sorted_f (l : list (N * float)) : bool :=
  match l with
  | a :: ((b :: _) as t) => negb (snd a <? snd b) && (if snd a =? snd b then (fst a <? fst b)%N else true) && sorted_f t
  | _ => true
  end.
