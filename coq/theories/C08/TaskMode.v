(* C08 - proofs, part 17: `uftrace report --task`.  For a good task (completed calls, then calls open at the end) the task's line shows the summed duration of its top-level calls
   (Total = Self, adjust_task_runtime) and the number of counted calls. *)
From Coq Require Import NArith ZArith List Bool Lia Arith Sorting.Sorted Permutation.
Require Import ZifyBool ZifyN ZifyNat.
Import ListNotations.
Require Import UV.C08.Model UV.C08.Proofs UV.C08.Figures UV.C08.Open UV.C08.Order UV.C08.Checker UV.C08.OpenSpec UV.C08.Inherit.
Local Open Scope N_scope.

Lemma step_lastx st r : is_lost r = false -> t_lastx (fst (step st r)) = r_time r.
Proof.
  intro Hnl. unfold step. rewrite Hnl, andb_false_r. unfold is_lost in Hnl.
  destruct (r_type r); try discriminate.
  - destruct (t_dead (prepare st r)); reflexivity.
  - destruct (0 <? t_over (prepare st r)); [reflexivity|]. destruct (t_live (prepare st r)); reflexivity.
Qed.

Lemma run_lastx rs : forall st out, rs <> [] -> Forall (fun r => is_lost r = false) rs ->
  t_lastx (fst (run st out rs)) = last (map r_time rs) 0.
Proof.
  induction rs as [|r t IH]; intros st out Hne Hnl; [congruence|].
  inversion Hnl as [|? ? Hr Ht]; subst. cbn [run]. destruct (step st r) as [st' rows] eqn:E.
  destruct t as [|r' t'].
  - cbn. pose proof (step_lastx st r Hr) as H. rewrite E in H. exact H.
  - rewrite IH by (try discriminate; assumption). reflexivity.
Qed.

(* the records of a ground truth carry no LOST marker *)
Lemma flat_nolost : forall c d, Forall (fun r => is_lost r = false) (flat d c).
Proof.
  induction c as [e a t0 t1 kids IH] using call_ind'. intro d. cbn [flat]. constructor; [reflexivity|].
  apply Forall_app. split; [|repeat constructor].
  apply Forall_forall. intros r Hr. apply in_concat in Hr. destruct Hr as (l & Hl & Hr).
  apply in_map_iff in Hl. destruct Hl as (k & <- & Hk). rewrite Forall_forall in IH.
  specialize (IH k Hk (d + 1)). rewrite Forall_forall in IH. auto.
Qed.
Lemma flat_forest_nolost cs d : Forall (fun r => is_lost r = false) (concat (map (flat d) cs)).
Proof.
  apply Forall_forall. intros r Hr. apply in_concat in Hr. destruct Hr as (l & Hl & Hr).
  apply in_map_iff in Hl. destruct Hl as (k & <- & _). pose proof (flat_nolost k d) as F. rewrite Forall_forall in F. auto.
Qed.
Lemma flat_open_nolost : forall os d, Forall (fun r => is_lost r = false) (flat_open d os).
Proof.
  induction os as [|o t IH]; intro d; [constructor|]. cbn [flat_open]. constructor; [reflexivity|].
  apply Forall_app. split; [apply flat_forest_nolost|apply IH].
Qed.
Lemma trace_nolost tt : Forall (fun r => is_lost r = false) (trace_recs tt).
Proof. unfold trace_recs. apply Forall_app. split; [apply flat_forest_nolost|apply flat_open_nolost]. Qed.

(* add_remaining_task_fstack against add_remaining_fstack: the same durations *)
Lemma remaining_task_self last : forall stk extra,
  map w_self (remaining_task_from false last extra stk) = map w_self (remaining_from false last extra stk).
Proof.
  induction stk as [|top rest IH]; intros extra; [reflexivity|].
  cbn [remaining_task_from remaining_from andb orb].
  destruct (last <? s_total top); [apply IH|]. cbn [map w_self]. f_equal. apply IH.
Qed.

Lemma fold_self_sum l : forall a, a + sumN (map w_self l) < M64 ->
  fold_left (fun s w => add64 s (w_self w)) l a = a + sumN (map w_self l).
Proof.
  unfold sumN. induction l as [|w t IH]; intros a H; cbn [fold_left map fold_right] in *; [lia|].
  rewrite add64_small by lia. rewrite IH by lia. lia.
Qed.

Lemma fold_self_map l : forall a,
  fold_left (fun s w => add64 s (w_self w)) l a = fold_left add64 (map w_self l) a.
Proof. induction l as [|w t IH]; intro a; cbn; [reflexivity|]. apply IH. Qed.

(* the state at the end of a task's data *)
Lemma run_task_state max_stack tt : (task_height tt <= N.to_nat max_stack)%nat -> trace_recs tt <> [] ->
  exists d2 usc l2 lx2,
    run (init_state max_stack) [] (trace_recs tt)
    = (mid (rev (map oslot (tt_open tt))) d2 usc l2 lx2,
       concat (map (rows64 []) (tt_done tt)) ++ okids_rows [] (tt_open tt)).
Proof.
  intros Hh Hne. rewrite init_state_mid.
  rewrite run_first_entry by (apply trace_recs_head; exact Hne).
  unfold trace_recs. unfold task_height in Hh. rewrite run_app.
  destruct (run_top (tt_done tt) (repeat slot0 (N.to_nat max_stack)) 0 0 0 []) as (d1 & l1 & lx1 & Hd1 & E1 & _).
  { rewrite repeat_length. lia. }
  rewrite E1.
  destruct (run_open (tt_open tt) 0 [] d1 0 l1 lx1 ([] ++ concat (map (rows64 []) (tt_done tt)))) as (d2 & l2 & lx2 & E2).
  { rewrite Hd1, repeat_length. lia. }
  rewrite E2. exists d2, (0 + N.of_nat (length (tt_open tt))), l2, lx2. rewrite app_nil_r. reflexivity.
Qed.

Theorem task_line_good max_stack tt :
  good_task max_stack tt ->
  sumN (map w_self (spec_task tt)) < M64 ->
  task_line max_stack (trace_recs tt) = (top_time tt, N.of_nat (length (spec_task tt))).
Proof.
  intros Hg Hb.
  pose proof (task_rows_good max_stack tt Hg) as P.
  pose proof (top_time_good max_stack tt Hg) as Htop.
  destruct (trace_recs tt) as [|r0 rs0] eqn:Etr.
  { (* no record *)
    assert (spec_task tt = []) as Es.
    { apply Permutation_nil. exact P. }
    rewrite Es in Htop |- *. cbn in Htop. rewrite <- Htop. reflexivity. }
  rewrite <- Etr in *.
  assert (trace_recs tt <> []) as Hne by (rewrite Etr; discriminate).
  destruct Hg as (Hh & _).
  destruct (run_task_state max_stack tt Hh Hne) as (d2 & usc & l2 & lx2 & E).
  pose proof (run_last (trace_recs tt) (init_state max_stack) [] Hne) as HL.
  pose proof (run_lastx (trace_recs tt) (init_state max_stack) [] Hne (trace_nolost tt)) as HX.
  rewrite E in HL, HX. cbn [fst mid t_last t_lastx] in HL, HX.
  assert (map w_self (task_rows max_stack (trace_recs tt))
          = map w_self (concat (map (rows64 []) (tt_done tt)) ++ okids_rows [] (tt_open tt)
                        ++ remaining_task false lx2 (rev (map oslot (tt_open tt))))) as Hs.
  { unfold task_rows, task_rows_gen. fold (init_state max_stack). rewrite E. cbn [mid t_last t_live].
    rewrite <- app_assoc, !map_app. do 2 f_equal. unfold remaining_task, remaining.
    rewrite HX, <- HL. symmetry. apply remaining_task_self. }
  unfold task_line. rewrite E. cbn [mid t_lastx t_live].
  rewrite <- app_assoc, fold_self_map, <- Hs.
  assert (sumN (map w_self (task_rows max_stack (trace_recs tt))) = top_time tt) as Hsum.
  { rewrite <- sum_self_sumN, (sum_self_perm _ _ P). exact Htop. }
  rewrite fold_add64 by (rewrite Hsum, <- Htop, sum_self_sumN; lia).
  rewrite Hsum, N.add_0_l. f_equal. f_equal.
  transitivity (length (map w_self (task_rows max_stack (trace_recs tt)))).
  - rewrite Hs, map_length. reflexivity.
  - rewrite map_length. apply Permutation_length, P.
Qed.

(* non-vacuity *)
Example ex_task_line :
  let tt := mktt [Call 1 10 50 [Call 2 12 20 []]] [mkof 1 60 []; mkof 3 70 [Call 2 75 80 []]] in
  task_line 1024 (trace_recs tt) = (60, 5).
Proof. vm_compute. reflexivity. Qed.
