(* C08 - proofs, part 9: the run-time property checker ok_table accepts the model's report for every
   set of tasks made of completed, well-timed calls (the checker is what is applied to the
   implementation's table on every run). *)
From Coq Require Import NArith ZArith List Bool Lia Sorting.Sorted Permutation.
Require Import ZifyBool ZifyN.
Import ListNotations.
Require Import UV.C08.Model UV.C08.Proofs UV.C08.Figures UV.C08.Open UV.C08.Order.
Local Open Scope N_scope.

Lemma increasing_sorted l : StronglySorted N.lt l -> increasing l = true.
Proof.
  induction 1 as [|a t Hs IH Ha]; [reflexivity|]. destruct t as [|b t']; [reflexivity|].
  change (increasing (a :: b :: t')) with ((a <? b) && increasing (b :: t')).
  rewrite IH. inversion Ha; subst. lia.
Qed.

Lemma combine_maps {A B C} (f : A -> B) (g : A -> C) l : combine (map f l) (map g l) = map (fun x => (f x, g x)) l.
Proof. induction l as [|x t IH]; cbn; [reflexivity|]. rewrite IH. reflexivity. Qed.

Lemma sum_self_sumN l : sum_self l = sumN (map w_self l).
Proof. unfold sum_self, sumN. induction l as [|w t IH]; cbn; [reflexivity|]. rewrite IH. reflexivity. Qed.

Lemma sumN_filter_le {A} (f : A -> bool) (g : A -> N) l : sumN (map g (filter f l)) <= sumN (map g l).
Proof. unfold sumN. induction l as [|x t IH]; cbn; [lia|]. destruct (f x); cbn; lia. Qed.

Lemma sumN_concat ls : sumN (concat ls) = sumN (map sumN ls).
Proof. induction ls as [|l t IH]; cbn [concat map]; [reflexivity|]. rewrite sumN_app, IH. reflexivity. Qed.

(* ------------------------------------------------------------------ partition of the self times over the nodes *)
Definition tself (tbl : list node) : N := sumN (map (fun n => sum (n_self n)) tbl).

Lemma tself_update tbl nm tot slf rc : tself tbl + slf < M64 ->
  tself (tbl_update tbl nm tot slf rc) = tself tbl + slf.
Proof.
  unfold tself, sumN. induction tbl as [|n t IH]; intro H; cbn [tbl_update].
  - cbn. rewrite add64_small by (cbn in H; lia). lia.
  - cbn [map fold_right] in H. destruct (nm ?= n_name n).
    + cbn [map fold_right update_node n_self update_stat sum]. rewrite add64_small by lia. lia.
    + cbn [map fold_right update_node new_node n_self update_stat sum stat0]. rewrite add64_small by lia. lia.
    + cbn [map fold_right]. rewrite IH by lia. lia.
Qed.

Lemma tself_fold nms rows : forall tbl, tself tbl + sumN (map w_self rows) < M64 ->
  tself (fold_left (tbl_add nms) rows tbl) = tself tbl + sumN (map w_self rows).
Proof.
  induction rows as [|w t IH]; intros tbl H; cbn [fold_left map] in *.
  - unfold sumN. cbn. lia.
  - assert (sumN (w_self w :: map w_self t) = w_self w + sumN (map w_self t)) as E by reflexivity.
    rewrite E in H |- *.
    assert (tself (tbl_add nms tbl w) = tself tbl + w_self w) as E2.
    { unfold tbl_add. apply tself_update. lia. }
    rewrite IH; rewrite E2; lia.
Qed.

Lemma tself_finish tbl : tself (map finish_node tbl) = tself tbl.
Proof. unfold tself. rewrite map_map. reflexivity. Qed.

Theorem self_partition nms rows : sumN (map w_self rows) < M64 ->
  tself (table_of_rows nms rows) = sumN (map w_self rows).
Proof.
  intro H. unfold table_of_rows. rewrite tself_finish, tself_fold; unfold tself, sumN in *; cbn; lia.
Qed.

(* ------------------------------------------------------------------ ok_node *)
Lemma spec_self_le_total anc c : Forall (fun w => w_self w <= w_total w) (spec_rows anc c).
Proof.
  revert anc. induction c as [e a t0 t1 kids IH] using call_ind'. intro anc. cbn [spec_rows].
  apply Forall_app. split.
  - rewrite Forall_forall in IH |- *. intros w Hw. apply in_concat in Hw. destruct Hw as (l & Hl & Hw).
    apply in_map_iff in Hl. destruct Hl as (k & <- & Hk). specialize (IH k Hk (e :: anc)).
    rewrite Forall_forall in IH. auto.
  - constructor; [cbn; lia|constructor].
Qed.

Lemma sumN_le_pointwise (l : list row) : Forall (fun w => w_self w <= w_total w) l ->
  sumN (map w_self l) <= sumN (map w_total l).
Proof. unfold sumN. induction 1; cbn; lia. Qed.

Lemma ok_node_figures nms spec n :
  let l := mine nms (n_name n) spec in
  l <> [] -> figures n l -> ok_node nms spec n = true.
Proof.
  intros l Hne F. destruct F as [fg_call0 fg_tsum0 fg_trec0 fg_tmin0 fg_tmax0 fg_tavg0 fg_ssum0 fg_srec0 fg_smin0 fg_smax0 fg_savg0].
  unfold ok_node. fold (mine nms (n_name n) spec). fold l.
  assert (0 < N.of_nat (length l)) by (destruct l; [congruence|cbn; lia]).
  unfold ok_stat. rewrite !combine_maps.
  fold (nonrec (map (fun w => (w_total w, w_rec w)) l)). fold (isrec (map (fun w => (w_total w, w_rec w)) l)).
  rewrite fg_call0, <- fg_tsum0, <- fg_trec0, <- fg_tmin0, <- fg_tmax0, <- fg_tavg0.
  assert (map fst (filter (fun p : N * bool => negb (snd p)) (map (fun w => (w_self w, false)) l)) = map w_self l) as E1.
  { clear. induction l as [|w t IH]; cbn; [reflexivity|]. rewrite IH. reflexivity. }
  assert (map fst (filter (fun p : N * bool => snd p) (map (fun w => (w_self w, false)) l)) = []) as E2.
  { clear. induction l as [|w t IH]; cbn; [reflexivity|]. exact IH. }
  rewrite E1, E2, <- fg_savg0, <- fg_smin0, <- fg_smax0, <- fg_ssum0, fg_srec0.
  rewrite !N.eqb_refl. cbn [andb sumN fold_right]. lia.
Qed.

(* ------------------------------------------------------------------ the theorem *)
Definition closed_task (max_stack : N) (tt : ttrace) : Prop :=
  tt_open tt = [] /\ (heights (tt_done tt) <= N.to_nat max_stack)%nat /\ Forall wt (tt_done tt).

Lemma all_rows_closed max_stack nms tts : Forall (closed_task max_stack) tts ->
  all_rows (mkcase max_stack nms (map trace_recs tts)) = concat (map spec_task tts).
Proof.
  unfold all_rows, all_rows_gen. cbn [c_max c_tasks]. fold task_rows. induction 1 as [|tt t Hc _ IH]; [reflexivity|].
  cbn [map concat]. rewrite IH. f_equal.
  destruct Hc as (Ho & Hh & Hw). unfold trace_recs, spec_task. rewrite Ho. cbn [flat_open spec_open].
  rewrite !app_nil_r. apply task_rows_closed; assumption.
Qed.

Lemma top_time_closed max_stack tt : closed_task max_stack tt -> sum_self (spec_task tt) = top_time tt.
Proof.
  intros (Ho & _ & Hw). unfold spec_task, top_time. rewrite Ho. cbn [spec_open]. rewrite app_nil_r, N.add_0_r.
  apply conservation_forest, Hw.
Qed.

Theorem checker_accepts_model_closed max_stack nms tts :
  Forall (closed_task max_stack) tts ->
  sumN (map w_total (concat (map spec_task tts))) < M64 ->
  ok_table nms tts (report (mkcase max_stack nms (map trace_recs tts))) = true.
Proof.
  intros Hc Hb. unfold report, report_gen. fold all_rows. cbn [c_names]. rewrite (all_rows_closed _ _ _ Hc).
  set (spec := concat (map spec_task tts)) in *.
  assert (Forall (fun w => w_self w <= w_total w) spec) as Hle.
  { unfold spec. apply Forall_forall. intros w Hw. apply in_concat in Hw. destruct Hw as (l & Hl & Hw).
    apply in_map_iff in Hl. destruct Hl as (tt & <- & Htt).
    rewrite Forall_forall in Hc. destruct (Hc tt Htt) as (Ho & _ & _).
    unfold spec_task in Hw. rewrite Ho in Hw. cbn [spec_open] in Hw. rewrite app_nil_r in Hw.
    apply in_concat in Hw. destruct Hw as (l & Hl & Hw). apply in_map_iff in Hl. destruct Hl as (c & <- & _).
    pose proof (spec_self_le_total [] c) as F. rewrite Forall_forall in F. auto. }
  assert (sumN (map w_self spec) < M64) as Hbs.
  { pose proof (sumN_le_pointwise spec Hle). lia. }
  set (tbl := table_of_rows nms spec).
  assert (names_sorted tbl) as Hs.
  { unfold tbl, table_of_rows, names_sorted. rewrite finish_names. apply (table_lookup nms spec []). constructor. }
  unfold ok_table. fold spec. rewrite !andb_true_iff. repeat split.
  - apply increasing_sorted, Hs.
  - apply forallb_forall. intros n Hn.
    pose proof (find_node_in tbl Hs n Hn) as Hf. unfold tbl in Hf. rewrite report_node in Hf.
    remember (n_name n) as nm eqn:Enm.
    destruct (mine nms nm spec) as [|w l] eqn:E; [discriminate|]. injection Hf as Hf.
    apply ok_node_figures; cbn zeta; rewrite <- Enm, E; [discriminate|].
    rewrite <- Hf. change (fold_left upd_row l (upd_row (new_node nm) w)) with (fold_left upd_row (w :: l) (new_node nm)).
    apply node_figures; rewrite <- E.
    + pose proof (sumN_filter_le (fun w => name_of nms (w_addr w) =? nm) w_total spec). unfold mine. lia.
    + pose proof (sumN_filter_le (fun w => name_of nms (w_addr w) =? nm) w_self spec). unfold mine. lia.
  - apply forallb_forall. intros w Hw. apply existsb_exists.
    pose proof (report_node nms spec (name_of nms (w_addr w))) as Hr.
    destruct (mine nms (name_of nms (w_addr w)) spec) as [|x l] eqn:E.
    + exfalso. assert (In w (mine nms (name_of nms (w_addr w)) spec)) as Hi.
      { unfold mine. apply filter_In. split; [exact Hw|apply N.eqb_refl]. }
      rewrite E in Hi. destruct Hi.
    + apply find_some in Hr. destruct Hr as [Hi Hname]. eexists. split; [exact Hi|]. rewrite Hname. apply N.eqb_refl.
  - apply N.eqb_eq. fold (tself tbl). unfold tbl. rewrite self_partition by exact Hbs.
    unfold spec. rewrite concat_map, sumN_concat, !map_map. f_equal. apply map_ext_in. intros tt Htt.
    rewrite <- sum_self_sumN. rewrite Forall_forall in Hc. apply (top_time_closed max_stack), Hc, Htt.
Qed.

(* non-vacuity: two tasks, recursion, a zero-duration call; the hypotheses hold and the checker accepts *)
Definition ex_tts : list ttrace :=
  [mktt [Call 1 10 50 [Call 2 12 20 []; Call 1 20 30 [Call 3 21 21 []]]; Call 2 60 65 []] [];
   mktt [Call 3 15 40 [Call 3 16 17 []]] []].
Example ex_checker_hyps :
  Forall (closed_task 1024) ex_tts /\ sumN (map w_total (concat (map spec_task ex_tts))) < M64.
Proof.
  split.
  - unfold ex_tts, closed_task. repeat constructor; try (rewrite M64_val; reflexivity); try (vm_compute; congruence);
      vm_compute; lia.
  - rewrite M64_val. vm_compute. reflexivity.
Qed.
Example ex_checker_accepts :
  ok_table [(1, 1); (2, 2); (3, 3)] ex_tts (report (mkcase 1024 [(1, 1); (2, 2); (3, 3)] (map trace_recs ex_tts))) = true.
Proof. apply checker_accepts_model_closed; apply ex_checker_hyps. Qed.
(* ... and it is not trivially true: it rejects a table whose Self column forgets a callee *)
Example ex_checker_rejects :
  ok_table [(1, 1); (2, 2); (3, 3)] ex_tts
    (map (fun n => if n_name n =? 1 then mknode 1 (n_call n) (n_total n) (n_total n) else n)
         (report (mkcase 1024 [(1, 1); (2, 2); (3, 3)] (map trace_recs ex_tts)))) = false.
Proof. vm_compute. reflexivity. Qed.

(* ------------------------------------------------------------------ the code before the fixes (legacy) *)
(* data of a forked child: the frames main{work{fork}} are inherited, only their EXITs are recorded.
   [work]'s only invocation is outermost.  Before the fix it was classified recursive (the never-entered
   slots all have addr 0): Total 0 while Self 1000.  Now it counts: Total 1000. *)
Definition child_case : case :=
  mkcase 1024 [(10, 1); (20, 2); (30, 3)] [[mkrec EXIT 2 30 1310; mkrec EXIT 1 20 2310; mkrec EXIT 0 10 3310]].
Lemma inherited_frames_legacy_refuted :
  (exists n, find_node (report_gen true child_case) 2 = Some n
             /\ n_call n = 1 /\ sum (n_total n) = 0 /\ recs (n_total n) = 1000 /\ sum (n_self n) = 1000)
  /\ (exists n, find_node (report child_case) 2 = Some n
              /\ n_call n = 1 /\ sum (n_total n) = 1000 /\ recs (n_total n) = 0 /\ sum (n_self n) = 1000).
Proof. split; eexists; vm_compute; repeat split; reflexivity. Qed.

(* LOST markers (fixed: c76be09).  Before the fix fstack_account_time started its LOST loop with the slot above
   the innermost open call: (1) every marker took 1 ns from the Self time of the innermost open call; (2) after
   data starting at depth > 0 the stale time of that slot wrapped a duration below zero. *)
Definition lost_1ns_case : case :=
  mkcase 1024 [(10, 1); (20, 2)]
    [[mkrec ENTRY 0 10 1000; mkrec ENTRY 1 20 1100; mkrec LOST 0 1 0; mkrec EXIT 1 20 1900; mkrec EXIT 0 10 2000]].
Lemma lost_marker_legacy_refuted :
  map (fun n => (n_name n, sum (n_total n), sum (n_self n))) (report_gen true lost_1ns_case) = [(1, 1000, 200); (2, 800, 799)]
  /\ map (fun n => (n_name n, sum (n_total n), sum (n_self n))) (report lost_1ns_case) = [(1, 1000, 200); (2, 800, 800)].
Proof. vm_compute. split; reflexivity. Qed.
Definition lost_case : case :=
  mkcase 1024 [(10, 1); (20, 2); (30, 3)]
    [[mkrec LOST 0 1 0; mkrec EXIT 2 30 1300; mkrec EXIT 1 20 1400; mkrec ENTRY 1 20 1500; mkrec LOST 0 1 0;
      mkrec EXIT 0 10 1900]].
Lemma lost_after_inherited_legacy_refuted :
  (exists n, find_node (report_gen true lost_case) 2 = Some n /\ smax (n_total n) = M64 - 1499)
  /\ (exists n, find_node (report lost_case) 2 = Some n /\ smax (n_total n) = 1).
Proof. split; eexists; vm_compute; split; reflexivity. Qed.

(* STILL PRESENT (known finding lost-in-inherited-data): a LOST marker in data that starts at depth > 0 - here the
   data of a forked child, nothing was actually dropped - closes the innermost open call with 1 ns and counts it
   twice, because user_stack_count was never set to the inherited depth: leaf (one call of 300 ns) gets Calls 2,
   Total 2 ns, and work's Self absorbs the rest *)
Definition lost_inherited_case : case :=
  mkcase 1024 [(10, 1); (20, 2); (30, 3); (40, 4)]
    [[mkrec EXIT 1 40 1310; mkrec ENTRY 1 20 1400; mkrec ENTRY 2 30 1500; mkrec LOST 0 1 0; mkrec EXIT 2 30 1800;
      mkrec EXIT 1 20 1900; mkrec EXIT 0 10 2000]].
Lemma lost_in_inherited_refuted :
  map (fun n => (n_name n, n_call n, sum (n_total n), sum (n_self n))) (report lost_inherited_case)
  = [(1, 1, 690, 190); (2, 1, 500, 498); (3, 2, 2, 2); (4, 1, 0, 0)].
Proof. vm_compute. reflexivity. Qed.

(* report --task before the fix measured open calls until the last EXIT: 200 ns instead of 8000 ns; no EXIT,
   no line.  Now a task's line adds up to the Self times of its rows. *)
Lemma task_mode_open_legacy_refuted :
  let killed := [mkrec ENTRY 0 10 1000; mkrec ENTRY 1 30 1100; mkrec EXIT 1 30 1200; mkrec ENTRY 1 20 1300;
                 mkrec ENTRY 2 30 9000] in
  let noexit := [mkrec ENTRY 0 10 1000; mkrec ENTRY 1 20 5000] in
  task_line_legacy 1024 killed = (200, 2) /\ task_line_legacy 1024 noexit = (0, 0)
  /\ sumN (map w_self (task_rows 1024 killed)) = 8000
  /\ task_line 1024 killed = (8000, 4) /\ task_line 1024 noexit = (4000, 2).
Proof. vm_compute. repeat split; reflexivity. Qed.

(* ... and skipped the frames a forked child inherits and never returns from (4ec4e50): child data
   [EXIT fork; leaf 100 ns; leaf 50 ns], main still open: 150 ns instead of the 340 ns the child ran *)
Lemma task_mode_inherited_legacy_refuted :
  let child := [mkrec EXIT 1 30 1310; mkrec ENTRY 1 20 1400; mkrec EXIT 1 20 1500; mkrec ENTRY 1 20 1600;
                mkrec EXIT 1 20 1650] in
  task_line_legacy 1024 child = (150, 3) /\ task_line 1024 child = (340, 4)
  /\ sumN (map w_self (task_rows 1024 child)) = 340.
Proof. vm_compute. repeat split; reflexivity. Qed.

(* report --diff without colours before the fix: an increase from 100 ns to 300 ns was printed with "-" *)
Lemma diff_sign_legacy_refuted :
  show_dtime_legacy 100 300 = Some (true, 0, 200, 0) /\ show_dtime_legacy 300 100 = Some (false, 0, 200, 0)
  /\ show_dtime 100 300 = Some (false, 0, 200, 0) /\ show_dtime 300 100 = Some (true, 0, 200, 0).
Proof. vm_compute. repeat split; reflexivity. Qed.
