(* C08 - the stdv column: the code before the three fixes (5fe3294 NaN for a zero mean, b241d75 squares and mean
   in uint64_t, a863f9f sigma / sqrt(calls)) against the code now, on the witnesses, by computation with the
   machine's binary64 arithmetic. *)
From Coq Require Import NArith ZArith List Bool Floats.
Import ListNotations.
Require Import UV.C08.Model UV.C08.Stdv.

(* two calls of 100 ns and 300 ns: mean 200, sigma 100: RSD 50.00 %; the code printed 35.36 % *)
Lemma stdv_formula_legacy_refuted :
  hundredths (stdv_legacy (100 * 100 + 300 * 300) 0 200 2) = Some 3536%Z
  /\ hundredths (stdv_of (sq 100 + sq 300) 0 400 2) = Some 5000%Z
  /\ ok_stdv 5000 [100; 300]%N = true /\ ok_stdv 3536 [100; 300]%N = false.
Proof. vm_compute. repeat split; reflexivity. Qed.

(* two calls of 5 s and 6 s: the squares wrapped at 2^64, the "variance" was negative: NaN; now 9.09 % *)
Lemma stdv_overflow_legacy_refuted :
  let a := 5000000000%N in let b := 6000000000%N in
  is_nan (stdv_legacy (add64 ((a * a) mod M64) ((b * b) mod M64)) 0 5500000000 2) = true
  /\ hundredths (stdv_of (sq a + sq b) 0 (a + b) 2) = Some 909%Z
  /\ ok_stdv 909 [a; b] = true.
Proof. vm_compute. repeat split; reflexivity. Qed.

(* calls of 0 ns: 0/0 was printed as -nan%; now 0.00 % *)
Lemma stdv_zero_mean_legacy_refuted :
  is_nan (stdv_legacy 0 0 0 3) = true /\ hundredths (stdv_of 0 0 0 3) = Some 0%Z /\ ok_stdv 0 [0; 0; 0]%N = true.
Proof. vm_compute. repeat split; reflexivity. Qed.

(* the checker is exact arithmetic: it accepts the true RSD to the last printed digit and nothing else nearby *)
Example ok_stdv_sharp :
  ok_stdv 4714 [100; 200; 400]%N = false /\ ok_stdv 5345 [100; 200; 400]%N = true /\ ok_stdv 5347 [100; 200; 400]%N = false.
Proof. vm_compute. repeat split; reflexivity. Qed.
