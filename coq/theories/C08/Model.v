(* C08 - model of `uftrace report`:

     utils/fstack.c   fstack_account_time, fstack_update_stack_count, fstack_get      (per record)
     cmds/report.c    build_function_tree (EXIT rows, add_lost_fstack), add_remaining_fstack,
                      report_task / add_remaining_task_fstack / adjust_task_runtime (--task)
     utils/report.c   report_update_node, update_time_stat, finish_time_stat, find_or_create_node
                      (name tree), cmp_node / insert_node / report_sort_nodes, report_diff_nodes
     utils/debug.c    __print_time_unit (the text of a time column)

   The model describes the code AS IT IS: uint64 arithmetic wraps (add64/sub64), the clamps are
   the code's clamps, LOST handling indexes the stack the way the code does.

   Representation of task->func_stack[0 .. max_stack-1] and task->stack_count: a zipper
       array = rev live ++ dead         stack_count = length live + over
   [live] = the open frames, innermost first; [dead] = the slots above stack_count (they keep the
   values of calls that returned - the code reads them again at LOST); [over] counts the levels
   above max_stack, for which fstack_get() returns NULL.

   NO proofs in this file (it must keep compiling when a proof breaks; it is run by vm_compute). *)
From Coq Require Import NArith List Bool.
Import ListNotations.
Local Open Scope N_scope.

(* ------------------------------------------------------------------ uint64 *)
Definition M64 : N := 18446744073709551616.
Definition add64 (a b : N) : N := (a + b) mod M64.
Definition sub64 (a b : N) : N := (a + (M64 - b mod M64)) mod M64.

(* ------------------------------------------------------------------ records, slots, rows *)
Inductive rtype := ENTRY | EXIT | LOST.
Record rec := mkrec { r_type : rtype; r_depth : N; r_addr : N; r_time : N }.

(* struct uftrace_fstack: addr, total_time (start time while open, duration afterwards),
   child_time, valid.  (flags / orig_depth only matter with filters: not modelled) *)
Record slot := mkslot { s_addr : N; s_total : N; s_child : N; s_valid : bool }.
Definition slot0 := mkslot 0 0 0 false.

(* one counted report_update_node(): address that names the node, total, self, recursive *)
Record row := mkrow { w_addr : N; w_total : N; w_self : N; w_rec : bool }.

Record tstate := mkts {
  t_set : bool;          (* task->fstack_set *)
  t_lost : bool;         (* task->lost_seen *)
  t_live : list slot;
  t_dead : list slot;
  t_over : N;
  t_usc : N;             (* task->user_stack_count *)
  t_last : N;            (* task->rstack->time : time of the last record read *)
  t_lastx : N;           (* report --task: task->timestamp_last = time of the last ENTRY/EXIT record *)
  t_legacy : bool        (* modelling device: true = the code before the fix of report_update_node's recursion
                            test (frames inherited at fork, addr 0, were taken for recursive calls) *)
}.

Definition init_state_gen (legacy : bool) (max_stack : N) : tstate :=
  mkts false false [] (repeat slot0 (N.to_nat max_stack)) 0 0 0 0 legacy.
Definition init_state := init_state_gen false.

Definition is_exit (r : rec) := match r_type r with EXIT => true | _ => false end.
Definition is_lost (r : rec) := match r_type r with LOST => true | _ => false end.

(* ------------------------------------------------------------------ array view (rare paths) *)
Definition arr_of (st : tstate) : list slot := rev (t_live st) ++ t_dead st.
Definition sc_of (st : tstate) : N := N.of_nat (length (t_live st)) + t_over st.

Definition split_at (k : N) (arr : list slot) : list slot * list slot * N :=
  let n := N.of_nat (length arr) in
  if k <=? n then (rev (firstn (N.to_nat k) arr), skipn (N.to_nat k) arr, 0)
  else (rev arr, [], k - n).

Fixpoint mapi (f : N -> slot -> slot) (i : N) (l : list slot) : list slot :=
  match l with
  | [] => []
  | s :: t => f i s :: mapi f (i + 1) t
  end.

Definition get (arr : list slot) (i : N) : option slot := nth_error arr (N.to_nat i).
Definition upd (arr : list slot) (i : N) (f : slot -> slot) : list slot :=
  mapi (fun j s => if j =? i then f s else s) 0 arr.

Definition with_stack (st : tstate) (k : N) (arr : list slot) : tstate :=
  let '(lv, dd, ov) := split_at k arr in
  mkts (t_set st) (t_lost st) lv dd ov (t_usc st) (t_last st) (t_lastx st) (t_legacy st).

(* fstack_account_time, first part: "if (!task->fstack_set)" and "if (task->lost_seen)" *)
Definition prepare (st : tstate) (r : rec) : tstate :=
  let k := r_depth r + (if is_exit r then 1 else 0) in
  let st1 :=
    if t_set st then st
    else
      let arr := mapi (fun i s => if i <? k then mkslot (s_addr s) (r_time r) 0 true else s) 0 (arr_of st) in
      let st' := with_stack st k arr in
      mkts true (t_lost st') (t_live st') (t_dead st') (t_over st') (t_usc st') (t_last st') (t_lastx st') (t_legacy st') in
  if t_lost st1 && negb (is_lost r) then
    let u := t_usc st1 in
    let arr := mapi (fun i s => if (u <=? i) && (i <=? u + r_depth r)
                                then mkslot (s_addr s) (sub64 (r_time r) 1) 0 (s_valid s) else s) 0 (arr_of st1) in
    let st' := with_stack st1 k arr in
    mkts (t_set st') false (t_live st') (t_dead st') (t_over st') (t_usc st') (t_last st') (t_lastx st') (t_legacy st')
  else st1.

(* parent's child_time += d *)
Definition bump (stk : list slot) (d : N) : list slot :=
  match stk with
  | [] => []
  | p :: t => mkslot (s_addr p) (s_total p) (add64 (s_child p) d) (s_valid p) :: t
  end.

(* report_update_node: "if (check->addr && check->addr == fstack->addr) recursive = true"
   (legacy: without the "check->addr &&") *)
Definition has_addr (legacy : bool) (a : N) (stk : list slot) : bool :=
  existsb (fun s => (legacy || negb (s_addr s =? 0)) && (s_addr s =? a)) stk.

(* LOST: "for (i = task->stack_count; i >= task->user_stack_count; i--)" of fstack_account_time *)
Fixpoint lost_loop (n : nat) (i lt : N) (arr : list slot) : list slot :=
  match n with
  | O => arr
  | S n' =>
      match get arr i with
      | None => if i =? 0 then arr else lost_loop n' (i - 1) lt arr
      | Some s =>
          let lt' := if lt =? 0 then add64 (s_total s) 1 else lt in
          let delta := sub64 lt' (s_total s) in
          let arr1 := upd arr i (fun s => mkslot (s_addr s) delta (if delta <? s_child s then delta else s_child s) (s_valid s)) in
          let arr2 := if 0 <? i then upd arr1 (i - 1) (fun p => mkslot (s_addr p) (s_total p) (add64 (s_child p) delta) (s_valid p)) else arr1 in
          if i =? 0 then arr2 else lost_loop n' (i - 1) lt' arr2
      end
  end.

(* add_lost_fstack of cmds/report.c: "while (task->stack_count >= task->user_stack_count)" *)
Fixpoint lost_rows (leg : bool) (n : nat) (i : N) (arr : list slot) : list row :=
  match n with
  | O => []
  | S n' =>
      let here :=
        match get arr i with
        | Some s => if s_valid s
                    then [mkrow (s_addr s) (s_total s) (sub64 (s_total s) (s_child s))
                                (has_addr leg (s_addr s) (firstn (N.to_nat i) arr))]
                    else []
        | None => []
        end in
      here ++ (if i =? 0 then [] else lost_rows leg n' (i - 1) arr)
  end.

(* one record of one task in build_function_tree: fstack_account_time, fstack_update_stack_count,
   then the body of the read loop.  Returns the new state and the rows added to the name tree. *)
Definition step (st0 : tstate) (r : rec) : tstate * list row :=
  if t_lost st0 && is_lost r then
    (mkts (t_set st0) true (t_live st0) (t_dead st0) (t_over st0) (t_usc st0) (r_time r) (t_lastx st0) (t_legacy st0), [])
  else
  let st := prepare st0 r in
  let tm := r_time r in
  match r_type r with
  | ENTRY =>
      match t_dead st with
      | [] => (mkts true (t_lost st) (t_live st) [] (t_over st + 1) (t_usc st + 1) tm tm (t_legacy st), [])
      | _ :: dd =>
          (mkts true (t_lost st) (mkslot (r_addr r) tm 0 true :: t_live st) dd 0 (t_usc st + 1) tm tm (t_legacy st), [])
      end
  | EXIT =>
      let usc' := t_usc st - 1 in
      if 0 <? t_over st then
        (mkts true (t_lost st) (t_live st) (t_dead st) (t_over st - 1) usc' tm tm (t_legacy st), [])
      else
        match t_live st with
        | [] =>
            (* stack_count == 0: nothing accounted; the report still reads func_stack[0] *)
            let rows := match t_dead st with
                        | [] => []
                        | d :: _ => [mkrow (r_addr r) (s_total d) (sub64 (s_total d) (s_child d)) false]
                        end in
            (mkts true (t_lost st) [] (t_dead st) 0 usc' tm tm (t_legacy st), rows)
        | top :: rest =>
            let delta := if s_valid top then sub64 tm (s_total top) else 0 in
            let child := if delta <? s_child top then delta else s_child top in
            let top' := mkslot (s_addr top) delta child false in
            (mkts true (t_lost st) (bump rest delta) (top' :: t_dead st) 0 usc' tm tm (t_legacy st),
             [mkrow (r_addr r) delta (sub64 delta child) (has_addr (t_legacy st) (s_addr top) rest)])
        end
  | LOST =>
      let sc := sc_of st in
      let u := t_usc st in
      if sc <? u then
        (mkts true true (t_live st) (t_dead st) (t_over st) u tm (t_lastx st) (t_legacy st), [])
      else
        let n := S (N.to_nat (sc - u)) in
        (* fstack_account_time: "for (i = task->stack_count - 1; i >= task->user_stack_count; i--)": the open
           frames above the user frames; legacy: the loop started at stack_count, i.e. with the slot ABOVE the
           innermost open frame, and billed that slot's 1 ns to the innermost open call *)
        let arr := if t_legacy st then lost_loop n sc 0 (arr_of st)
                   else lost_loop (N.to_nat (sc - u)) (sc - 1) 0 (arr_of st) in
        let rows := lost_rows (t_legacy st) n sc arr in
        let st' := with_stack st (u - 1) arr in
        (mkts true true (t_live st') (t_dead st') (t_over st') u tm (t_lastx st) (t_legacy st), rows)
  end.

Fixpoint run (st : tstate) (out : list row) (rs : list rec) : tstate * list row :=
  match rs with
  | [] => (st, out)
  | r :: t => let '(st', rows) := step st r in run st' (out ++ rows) t
  end.

(* add_remaining_fstack for one task: "while (--task->stack_count >= 0)" *)
Definition bumpc (extra : option N) (child : N) : N :=
  match extra with None => child | Some d => add64 child d end.
(* [extra]: what the frame above just added to this frame's child_time ("fstack[-1].child_time += ...") *)
Fixpoint remaining_from (leg : bool) (last : N) (extra : option N) (stk : list slot) : list row :=
  match stk with
  | [] => []
  | top :: rest =>
      let child := bumpc extra (s_child top) in
      if last <? s_total top then remaining_from leg last None rest
      else
        let tot := sub64 last (s_total top) in
        let tot' := if tot <? child then child else tot in
        mkrow (s_addr top) tot' (sub64 tot' child) (has_addr leg (s_addr top) rest)
        :: remaining_from leg last (Some tot') rest
  end.
Definition remaining (leg : bool) (last : N) (stk : list slot) : list row := remaining_from leg last None stk.

Definition task_rows_gen (legacy : bool) (max_stack : N) (rs : list rec) : list row :=
  let '(st, out) := run (init_state_gen legacy max_stack) [] rs in
  out ++ remaining legacy (t_last st) (t_live st).
Definition task_rows := task_rows_gen false.

(* ------------------------------------------------------------------ the node table *)
Record stat := mkstat { sum : N; recs : N; smin : N; smax : N; avg : N }.
Record node := mknode { n_name : N; n_call : N; n_total : stat; n_self : stat }.

Definition stat0 := mkstat 0 0 (M64 - 1) 0 0.              (* init_time_stat: min = -1ULL *)
Definition update_stat (ts : stat) (t : N) (recursive : bool) : stat :=
  mkstat (if recursive then sum ts else add64 (sum ts) t)
         (if recursive then add64 (recs ts) t else recs ts)
         (if t <? smin ts then t else smin ts)
         (if smax ts <? t then t else smax ts)
         (avg ts).
Definition update_node (n : node) (tot slf : N) (rc : bool) : node :=
  mknode (n_name n) (n_call n + 1) (update_stat (n_total n) tot rc) (update_stat (n_self n) slf false).
Definition new_node (nm : N) := mknode nm 0 stat0 stat0.

(* find_or_create_node + report_update_node; the name tree is kept as the list of its in-order
   traversal (names are numbered in strcmp order by the harness) *)
Fixpoint tbl_update (tbl : list node) (nm tot slf : N) (rc : bool) : list node :=
  match tbl with
  | [] => [update_node (new_node nm) tot slf rc]
  | n :: t =>
      match nm ?= n_name n with
      | Eq => update_node n tot slf rc :: t
      | Lt => update_node (new_node nm) tot slf rc :: n :: t
      | Gt => n :: tbl_update t nm tot slf rc
      end
  end.

Definition names := list (N * N).                   (* address -> name number *)
Fixpoint name_of (nms : names) (a : N) : N :=
  match nms with
  | [] => 0
  | (x, nm) :: t => if x =? a then nm else name_of t a
  end.

Definition tbl_add (nms : names) (tbl : list node) (w : row) : list node :=
  tbl_update tbl (name_of nms (w_addr w)) (w_total w) (w_self w) (w_rec w).

(* finish_time_stat (stdv not modelled) *)
Definition finish_stat (ts : stat) (call : N) : stat :=
  mkstat (sum ts) (recs ts) (smin ts) (smax ts) (add64 (sum ts) (recs ts) / call).
Definition finish_node (n : node) : node :=
  mknode (n_name n) (n_call n) (finish_stat (n_total n) (n_call n)) (finish_stat (n_self n) (n_call n)).

Definition table_of_rows (nms : names) (rows : list row) : list node :=
  map finish_node (fold_left (tbl_add nms) rows []).

Record case := mkcase { c_max : N; c_names : names; c_tasks : list (list rec) }.

Definition all_rows_gen (legacy : bool) (c : case) : list row :=
  concat (map (task_rows_gen legacy (c_max c)) (c_tasks c)).
Definition report_gen (legacy : bool) (c : case) : list node := table_of_rows (c_names c) (all_rows_gen legacy c).
(* the code as it is now *)
Definition all_rows := all_rows_gen false.
Definition report := report_gen false.

(* ------------------------------------------------------------------ sorting (-s keys) *)
Inductive key := K_total | K_total_avg | K_total_min | K_total_max
               | K_self | K_self_avg | K_self_min | K_self_max | K_call | K_func.

Definition field (k : key) (n : node) : N :=
  match k with
  | K_total => sum (n_total n) | K_total_avg => avg (n_total n)
  | K_total_min => smin (n_total n) | K_total_max => smax (n_total n)
  | K_self => sum (n_self n) | K_self_avg => avg (n_self n)
  | K_self_min => smin (n_self n) | K_self_max => smax (n_self n)
  | K_call => n_call n
  | K_func => n_name n
  end.

(* SORT_KEY(...) / cmp_func: strcmp(b->name, a->name) *)
Definition cmp1 (k : key) (a b : node) : comparison :=
  match k with
  | K_func => n_name b ?= n_name a
  | _ => field k a ?= field k b
  end.
Fixpoint cmp_node (ks : list key) (a b : node) : comparison :=
  match ks with
  | [] => Eq
  | k :: t => match cmp1 k a b with Eq => cmp_node t a b | c => c end
  end.
Definition lt_node ks a b := match cmp_node ks a b with Lt => true | _ => false end.

(* insert_node: left of [iter] iff cmp_node(iter, node) < 0, i.e. in front of the first smaller row *)
Fixpoint insert_sorted (ks : list key) (n : node) (l : list node) : list node :=
  match l with
  | [] => [n]
  | x :: t => if lt_node ks x n then n :: x :: t else x :: insert_sorted ks n t
  end.
Definition sort_nodes (ks : list key) (tbl : list node) : list node :=
  fold_left (fun acc n => insert_sorted ks n acc) tbl [].

(* ------------------------------------------------------------------ --diff (default policy: abs, compact) *)
Definition zero_node (nm : N) := mknode nm 0 (mkstat 0 0 0 0 0) (mkstat 0 0 0 0 0).   (* dummy_node / xzalloc *)
Fixpoint find_node (tbl : list node) (nm : N) : option node :=
  match tbl with
  | [] => None
  | n :: t => if n_name n =? nm then Some n else find_node t nm
  end.
(* rows of report_diff_nodes before sorting: (base, pair) *)
Definition diff_pairs (base pair : list node) : list (node * node) :=
  map (fun b => (b, match find_node pair (n_name b) with Some p => p | None => zero_node 0 end)) base
  ++ map (fun p => (zero_node (n_name p), p))
         (filter (fun p => match find_node base (n_name p) with Some _ => false | None => true end) pair).
(* the three default columns: pair - base as a signed difference (sign, magnitude) *)
Definition sdiff (b p : N) : bool * N := if b <=? p then (false, p - b) else (true, b - p).
Definition diff_cols (bp : node * node) : N * (bool * N) * (bool * N) * (bool * N) :=
  let '(b, p) := bp in
  (n_name b, sdiff (sum (n_total b)) (sum (n_total p)), sdiff (sum (n_self b)) (sum (n_self p)),
   sdiff (n_call b) (n_call p)).
Definition diff_is_zero (d : N * (bool * N) * (bool * N) * (bool * N)) : bool :=
  let '(_, (_, a), (_, b), (_, c)) := d in (a =? 0) && (b =? 0) && (c =? 0).

(* ------------------------------------------------------------------ report --task *)
(* report_task notes the time of every ENTRY/EXIT record (timestamp_last), skips ENTRY and LOST records
   before the filter check, counts every EXIT, then add_remaining_task_fstack (last_time = timestamp_last;
   legacy: timestamp_last was only set at EXIT records, and open frames with addr 0 - inherited at fork() and
   never returning - were skipped);
   adjust_task_runtime: Total = Self = sum of the self times, "Num funcs" = number of rows.
   Modelled for LOST-free tasks only. *)
Fixpoint remaining_task_from (leg : bool) (last : N) (extra : option N) (stk : list slot) : list row :=
  match stk with
  | [] => []
  | top :: rest =>
      let child := bumpc extra (s_child top) in
      if (leg && (s_addr top =? 0)) || (last <? s_total top) then remaining_task_from leg last None rest
      else
        let tot := sub64 last (s_total top) in
        let tot' := if tot <? child then child else tot in
        mkrow (s_addr top) tot' (sub64 tot' child) false :: remaining_task_from leg last (Some tot') rest
  end.
Definition remaining_task (leg : bool) (last : N) (stk : list slot) : list row := remaining_task_from leg last None stk.
Definition task_line (max_stack : N) (rs : list rec) : N * N :=      (* (total = self, num funcs) *)
  let '(st, out) := run (init_state max_stack) [] rs in
  let rows := out ++ remaining_task false (t_lastx st) (t_live st) in
  (fold_left (fun s w => add64 s (w_self w)) rows 0, N.of_nat (length rows)).
Definition last_exit_time (rs : list rec) : N :=
  fold_left (fun t r => if is_exit r then r_time r else t) rs 0.
Definition task_line_legacy (max_stack : N) (rs : list rec) : N * N :=
  let '(st, out) := run (init_state max_stack) [] rs in
  let rows := out ++ remaining_task true (last_exit_time rs) (t_live st) in
  (fold_left (fun s w => add64 s (w_self w)) rows 0, N.of_nat (length rows)).

(* ------------------------------------------------------------------ __print_time_unit *)
(* the text "ddd.fff uu" as (ddd, fff, unit index 0..4 = us ms s m h); None = blank (value 0) *)
Definition limits : list N := [1000; 1000; 1000; 60; 60].
Definition limits_legacy : list N := [1000; 1000; 1000; 60; 24].     (* before the fix: hours = minutes / 24 *)
Definition next_limit (all : list N) (idx : nat) : N := nth (S idx) all 2147483647.
Fixpoint unit_loop (all ls : list N) (idx : nat) (delta : N) : N * N * nat :=
  match ls with
  | [] => (delta, 0, idx)                    (* not reached: the last limit is INT_MAX *)
  | l :: t =>
      let small := delta mod l in
      let d := delta / l in
      if (d <? next_limit all idx) || (match t with [] => true | _ => false end) then (d, small, idx)
      else unit_loop all t (S idx) d
  end.
(* the argument is taken as int64_t and llabs() is applied *)
Definition llabs64 (ns : N) : N := if ns <? 9223372036854775808 then ns else M64 - ns.
Definition fmt_time_with (all : list N) (ns : N) : option (N * N * N) :=
  if ns =? 0 then None
  else
    let '(d, s, idx) := unit_loop all all 0 (llabs64 ns) in
    let '(d, s) := if 999 <? d then (999, 999) else (d, s) in
    Some (d, s, N.of_nat idx).
Definition fmt_time := fmt_time_with limits.
Definition fmt_time_legacy := fmt_time_with limits_legacy.

(* ------------------------------------------------------------------ ground truth and checker *)
(* a completed call: address of its ENTRY record (0: the entry was not seen - a frame inherited at fork() or
   data starting at depth > 0), address of its EXIT record, entry time, exit time, callees *)
Inductive call := CallX (e a t0 t1 : N) (kids : list call).
Definition Call (a : N) := CallX a a.
(* calls still open at the end of a task's data: the chain of open frames, outermost first, each with
   the completed calls made before the next open frame was entered *)
Record oframe := mkof { o_addr : N; o_t0 : N; o_kids : list call }.
Record ttrace := mktt { tt_done : list call; tt_open : list oframe }.

Fixpoint flat (d : N) (c : call) : list rec :=
  match c with
  | CallX e a t0 t1 kids => mkrec ENTRY d e t0 :: concat (map (flat (d + 1)) kids) ++ [mkrec EXIT d a t1]
  end.
Fixpoint flat_open (d : N) (os : list oframe) : list rec :=
  match os with
  | [] => []
  | o :: t => mkrec ENTRY d (o_addr o) (o_t0 o) :: concat (map (flat (d + 1)) (o_kids o)) ++ flat_open (d + 1) t
  end.
Definition trace_recs (tt : ttrace) : list rec :=
  concat (map (flat 0) (tt_done tt)) ++ flat_open 0 (tt_open tt).
Definition last_time (tt : ttrace) : N := last (map r_time (trace_recs tt)) 0.

(* what the property says about one invocation, by recursion on the call tree, in plain arithmetic:
   total = t1 - t0, self = total - (durations of the direct callees), recursive = the same (known) address is
   open further out; the row is named by the EXIT record *)
Definition recursive (e : N) (anc : list N) : bool := negb (e =? 0) && existsb (N.eqb e) anc.
Definition dur (c : call) : N := match c with CallX _ _ t0 t1 _ => t1 - t0 end.
Definition sumdur (l : list call) : N := fold_right (fun c s => dur c + s) 0 l.
Fixpoint spec_rows (anc : list N) (c : call) : list row :=
  match c with
  | CallX e a t0 t1 kids =>
      concat (map (spec_rows (e :: anc)) kids)
      ++ [mkrow a (t1 - t0) ((t1 - t0) - sumdur kids) (recursive e anc)]
  end.
(* calls open at the end of the data last until the task's last record *)
Definition odur (last : N) (o : oframe) : N := last - o_t0 o.
Fixpoint spec_open (last : N) (anc : list N) (os : list oframe) : list row :=
  match os with
  | [] => []
  | o :: t =>
      concat (map (spec_rows (o_addr o :: anc)) (o_kids o))
      ++ spec_open last (o_addr o :: anc) t
      ++ [mkrow (o_addr o) (odur last o)
                (odur last o - sumdur (o_kids o) - match t with [] => 0 | n :: _ => odur last n end)
                (recursive (o_addr o) anc)]
  end.
Definition spec_task (tt : ttrace) : list row :=
  concat (map (spec_rows []) (tt_done tt)) ++ spec_open (last_time tt) [] (tt_open tt).
(* summed duration of a task's top-level calls *)
Definition top_time (tt : ttrace) : N :=
  sumdur (tt_done tt) + match tt_open tt with [] => 0 | o :: _ => odur (last_time tt) o end.

Definition sumN (l : list N) : N := fold_right N.add 0 l.
Definition minN (l : list N) : N := fold_right N.min (M64 - 1) l.
Definition maxN (l : list N) : N := fold_right N.max 0 l.

(* the executable property checker for the node table of an implementation run:
   every function once (names strictly increasing = the name tree), and for each row
   Calls / Total / Self / min / max / avg are the figures of the trace *)
Definition ok_stat (ts : stat) (vals : list N) (recflags : list bool) (call : N) : bool :=
  let pairs := combine vals recflags in
  (sum ts =? sumN (map fst (filter (fun p => negb (snd p)) pairs)))
  && (recs ts =? sumN (map fst (filter (fun p => snd p) pairs)))
  && (smin ts =? minN vals) && (smax ts =? maxN vals)
  && (avg ts =? sumN vals / call).
Definition ok_node (nms : names) (spec : list row) (n : node) : bool :=
  let mine := filter (fun w => name_of nms (w_addr w) =? n_name n) spec in
  (0 <? n_call n)
  && (n_call n =? N.of_nat (length mine))
  && ok_stat (n_total n) (map w_total mine) (map w_rec mine) (n_call n)
  && ok_stat (n_self n) (map w_self mine) (map (fun _ => false) mine) (n_call n).
Fixpoint increasing (l : list N) : bool :=
  match l with
  | a :: ((b :: _) as t) => (a <? b) && increasing t
  | _ => true
  end.
Definition ok_table (nms : names) (tts : list ttrace) (tbl : list node) : bool :=
  let spec := concat (map spec_task tts) in
  increasing (map n_name tbl)
  && forallb (ok_node nms spec) tbl
  && forallb (fun w => existsb (fun n => n_name n =? name_of nms (w_addr w)) tbl) spec
  (* the Self times add up to the summed duration of the top-level calls *)
  && (sumN (map (fun n => sum (n_self n)) tbl) =? sumN (map top_time tts)).

(* rows follow the requested sort keys: descending, ties in name order, same set of rows *)
Fixpoint sorted_desc (ks : list key) (l : list node) : bool :=
  match l with
  | a :: ((b :: _) as t) =>
      negb (lt_node ks a b)
      && (match cmp_node ks a b with Eq => n_name a <? n_name b | _ => true end)
      && sorted_desc ks t
  | _ => true
  end.
Fixpoint insert_name (n : N) (l : list N) : list N :=
  match l with [] => [n] | x :: t => if n <=? x then n :: l else x :: insert_name n t end.
Definition sort_names (l : list N) : list N := fold_right insert_name [] l.
Fixpoint list_eqb (a b : list N) : bool :=
  match a, b with
  | [], [] => true
  | x :: a', y :: b' => (x =? y) && list_eqb a' b'
  | _, _ => false
  end.
Definition ok_sorted (ks : list key) (tbl : list node) (order : list N) : bool :=
  let rows := map (fun nm => match find_node tbl nm with Some n => n | None => zero_node nm end) order in
  list_eqb (sort_names order) (map n_name tbl) && sorted_desc ks rows.

(* a printed time cell (ddd, fff, unit) denotes the value truncated to the unit *)
Definition unit_ns (u : N) : N * N :=          (* (ns per fff step, fff steps per ddd step) *)
  match u with
  | 0 => (1, 1000) | 1 => (1000, 1000) | 2 => (1000000, 1000)
  | 3 => (1000000000, 60) | _ => (60000000000, 60)
  end.
Definition ok_cell (v : N) (cell : option (N * N * N)) : bool :=
  match cell with
  | None => v =? 0
  | Some (d, f, u) =>
      let '(step, per) := unit_ns u in
      let lo := (d * per + f) * step in
      (0 <? v) && (f <? per) && (lo <=? v) && (v <? lo + step)
      && (match u with 0 => d <? 1000 | 1 => d <? 1000 | 2 => d <? 60 | 3 => d <? 60 | _ => true end)
  end.

(* ------------------------------------------------------------------ helpers for cases files *)
Fixpoint bad_indices {A} (ok : A -> bool) (l : list A) (i : nat) : list nat :=
  match l with
  | [] => []
  | x :: t => if ok x then bad_indices ok t (S i) else i :: bad_indices ok t (S i)
  end.

Definition stat_eqb (a b : stat) : bool :=
  (sum a =? sum b) && (recs a =? recs b) && (smin a =? smin b) && (smax a =? smax b) && (avg a =? avg b).
Definition node_eqb (a b : node) : bool :=
  (n_name a =? n_name b) && (n_call a =? n_call b) && stat_eqb (n_total a) (n_total b)
  && stat_eqb (n_self a) (n_self b).
Fixpoint nodes_eqb (a b : list node) : bool :=
  match a, b with
  | [], [] => true
  | x :: a', y :: b' => node_eqb x y && nodes_eqb a' b'
  | _, _ => false
  end.
(* rows as the harness can observe them: (name, total, self, recursive-if-it-matters) *)
Definition obs_row (nms : names) (w : row) : N * N * N * bool :=
  (name_of nms (w_addr w), w_total w, w_self w, w_rec w && negb (w_total w =? 0)).
Definition orow_eqb (a b : N * N * N * bool) : bool :=
  let '(n1, t1, s1, r1) := a in let '(n2, t2, s2, r2) := b in
  (n1 =? n2) && (t1 =? t2) && (s1 =? s2) && Bool.eqb r1 r2.
Fixpoint orows_eqb (a b : list (N * N * N * bool)) : bool :=
  match a, b with
  | [], [] => true
  | x :: a', y :: b' => orow_eqb x y && orows_eqb a' b'
  | _, _ => false
  end.

(* ------------------------------------------------------------------ stdout of `uftrace report` *)
(* a printed cell: None = blank, Some (ddd, fff, unit) = a time, Some (n, 0, 99) = a count *)
Inductive fld := F_total | F_total_avg | F_total_min | F_total_max
               | F_self | F_self_avg | F_self_min | F_self_max | F_call.
Definition fld_value (f : fld) (n : node) : N :=
  match f with
  | F_total => sum (n_total n) | F_total_avg => avg (n_total n)
  | F_total_min => smin (n_total n) | F_total_max => smax (n_total n)
  | F_self => sum (n_self n) | F_self_avg => avg (n_self n)
  | F_self_min => smin (n_self n) | F_self_max => smax (n_self n)
  | F_call => n_call n
  end.
(* setup_field (utils/field.c): -f selects columns, they are always printed in table order *)
Definition all_flds := [F_total; F_total_avg; F_total_min; F_total_max; F_self; F_self_avg; F_self_min; F_self_max; F_call].
Definition fld_id (f : fld) : N :=
  match f with
  | F_total => 0 | F_total_avg => 1 | F_total_min => 2 | F_total_max => 3
  | F_self => 4 | F_self_avg => 5 | F_self_min => 6 | F_self_max => 7 | F_call => 8
  end.
Definition select_fields (req : list fld) : list fld :=
  filter (fun f => existsb (fun g => fld_id g =? fld_id f) req) all_flds.
Definition cell := option (N * N * N).
Definition show (f : fld) (n : node) : cell :=
  match f with
  | F_call => Some (n_call n, 0, 99)
  | _ => fmt_time (fld_value f n)
  end.
Definition ok_show (f : fld) (n : node) (c : cell) : bool :=
  match f with
  | F_call => match c with Some (v, 0, 99) => v =? n_call n | _ => false end
  | _ => ok_cell (fld_value f n) c
  end.
Definition cell_eqb (a b : cell) : bool :=
  match a, b with
  | None, None => true
  | Some (a1, a2, a3), Some (b1, b2, b3) => (a1 =? b1) && (a2 =? b2) && (a3 =? b3)
  | _, _ => false
  end.
Definition line := (N * list cell)%type.             (* function name number, cells *)
Definition stdout_model (ks : list key) (fs : list fld) (tbl : list node) : list line :=
  map (fun n => (n_name n, map (fun f => show f n) (select_fields fs))) (sort_nodes ks tbl).
Fixpoint cells_eqb (a b : list cell) : bool :=
  match a, b with
  | [], [] => true
  | x :: a', y :: b' => cell_eqb x y && cells_eqb a' b'
  | _, _ => false
  end.
Fixpoint lines_eqb (a b : list line) : bool :=
  match a, b with
  | [], [] => true
  | (n1, c1) :: a', (n2, c2) :: b' => (n1 =? n2) && cells_eqb c1 c2 && lines_eqb a' b'
  | _, _ => false
  end.
Fixpoint ok_cells (fs : list fld) (n : node) (cs : list cell) : bool :=
  match fs, cs with
  | [], [] => true
  | f :: fs', c :: cs' => ok_show f n c && ok_cells fs' n cs'
  | _, _ => false
  end.
(* checker for printed rows against the raw node table of the same run: every cell denotes the
   node's figure, and the rows follow the sort keys *)
Definition ok_stdout (ks : list key) (fs : list fld) (tbl : list node) (out : list line) : bool :=
  forallb (fun l => match find_node tbl (fst l) with Some n => ok_cells (select_fields fs) n (snd l) | None => false end) out
  && ok_sorted ks tbl (map fst out).

(* ------------------------------------------------------------------ stdout of `uftrace report --diff` *)
(* default options: sort key "total" on the difference column, policy abs/compact; rows are inserted into
   the diff tree (insert_diff: left of [iter] iff cmp_diff(iter, node) < 0) base rows first, in name order *)
Definition absdiff (bp : node * node) : N := snd (sdiff (sum (n_total (fst bp))) (sum (n_total (snd bp)))).
Fixpoint insert_diff (x : node * node) (l : list (node * node)) : list (node * node) :=
  match l with
  | [] => [x]
  | y :: t => if absdiff y <? absdiff x then x :: y :: t else y :: insert_diff x t
  end.
Definition diff_report (base pair : list node) : list (node * node) :=
  fold_left (fun acc x => insert_diff x acc) (diff_pairs base pair) [].
(* a difference cell: None = "0 us" / "+0"; Some (a minus sign is printed, ddd, fff, unit).
   legacy (before the fix of __print_time_unit): without colours signs[] = { "+", "-" } was indexed by
   (delta_nsec > 0), i.e. an INCREASE was printed with "-" *)
Definition dcell := option (bool * N * N * N).
Definition show_dtime (b p : N) : dcell :=
  let '(neg, m) := sdiff b p in
  match fmt_time m with None => None | Some (d, f, u) => Some (neg, d, f, u) end.
Definition show_dtime_legacy (b p : N) : dcell :=
  let '(neg, m) := sdiff b p in
  match fmt_time m with None => None | Some (d, f, u) => Some (negb neg, d, f, u) end.
Definition show_dcount (b p : N) : dcell :=
  let '(neg, m) := sdiff b p in if m =? 0 then None else Some (neg, m, 0, 99).
Definition dline := (N * list dcell)%type.
Definition diff_stdout (base pair : list node) : list dline :=
  map (fun bp => let '(b, p) := bp in
                 (n_name b, [show_dtime (sum (n_total b)) (sum (n_total p));
                             show_dtime (sum (n_self b)) (sum (n_self p));
                             show_dcount (n_call b) (n_call p)]))
      (diff_report base pair).
Definition dcell_eqb (a b : dcell) : bool :=
  match a, b with
  | None, None => true
  | Some (s1, a1, a2, a3), Some (s2, b1, b2, b3) => Bool.eqb s1 s2 && (a1 =? b1) && (a2 =? b2) && (a3 =? b3)
  | _, _ => false
  end.
Fixpoint dcells_eqb (a b : list dcell) : bool :=
  match a, b with
  | [], [] => true
  | x :: a', y :: b' => dcell_eqb x y && dcells_eqb a' b'
  | _, _ => false
  end.
Fixpoint dlines_eqb (a b : list dline) : bool :=
  match a, b with
  | [], [] => true
  | (n1, c1) :: a', (n2, c2) :: b' => (n1 =? n2) && dcells_eqb c1 c2 && dlines_eqb a' b'
  | _, _ => false
  end.
(* checker: a printed difference denotes pair - base of the two raw tables *)
Definition ok_dtime (b p : N) (c : dcell) : bool :=
  match c with
  | None => b =? p
  | Some (neg, d, f, u) => negb (b =? p) && Bool.eqb neg (p <? b) && ok_cell (if p <? b then b - p else p - b) (Some (d, f, u))
  end.
Definition ok_dcount (b p : N) (c : dcell) : bool :=
  match c with
  | None => b =? p
  | Some (neg, m, 0, 99) => negb (b =? p) && Bool.eqb neg (p <? b) && (m =? (if p <? b then b - p else p - b))
  | _ => false
  end.
Definition ok_dline (base pair : list node) (l : dline) : bool :=
  let b := match find_node base (fst l) with Some n => n | None => zero_node (fst l) end in
  let p := match find_node pair (fst l) with Some n => n | None => zero_node (fst l) end in
  match snd l with
  | [c1; c2; c3] => ok_dtime (sum (n_total b)) (sum (n_total p)) c1
                    && ok_dtime (sum (n_self b)) (sum (n_self p)) c2
                    && ok_dcount (n_call b) (n_call p) c3
  | _ => false
  end.
Definition ok_diff_stdout (base pair : list node) (out : list dline) : bool :=
  forallb (ok_dline base pair) out
  && list_eqb (sort_names (map fst out))
              (sort_names (map n_name base ++ map n_name (filter (fun p => match find_node base (n_name p) with Some _ => false | None => true end) pair))).

(* comparison of a printed --diff table with the model up to the order of rows whose |difference| is equal
   (cmp_diff returns -1 in both directions for +x / -x, so that order depends on the shape of the rb-tree) *)
Fixpoint insert_dline (x : dline) (l : list dline) : list dline :=
  match l with [] => [x] | y :: t => if fst x <=? fst y then x :: l else y :: insert_dline x t end.
Definition sort_dlines (l : list dline) : list dline := fold_right insert_dline [] l.
Definition absdiff_of (base pair : list node) (nm : N) : N :=
  let b := match find_node base nm with Some n => n | None => zero_node nm end in
  let p := match find_node pair nm with Some n => n | None => zero_node nm end in
  absdiff (b, p).
Fixpoint nonincreasing (l : list N) : bool :=
  match l with a :: ((b :: _) as t) => (b <=? a) && nonincreasing t | _ => true end.
Definition diff_stdout_agrees (base pair : list node) (out : list dline) : bool :=
  dlines_eqb (sort_dlines (diff_stdout base pair)) (sort_dlines out)
  && nonincreasing (map (fun l => absdiff_of base pair (fst l)) out).

(* ------------------------------------------------------------------ --avg-total / --avg-self *)
(* command_report: avg_mode; convert_sort_keys (default key per mode, short keys avg/min/max renamed);
   setup_default_field / setup_avg_total_field / setup_avg_self_field (the stdv column is not modelled) *)
Inductive avg_mode := AVG_NONE | AVG_TOTAL | AVG_SELF.
Inductive skey := SK (k : key) | S_avg | S_min | S_max.     (* a token of -s *)
Definition convert_key (m : avg_mode) (s : skey) : option key :=
  match s, m with
  | SK k, _ => Some k
  | _, AVG_NONE => None                          (* "avg" is not a sort key without --avg-* : invalid sort key *)
  | S_avg, AVG_TOTAL => Some K_total_avg | S_avg, AVG_SELF => Some K_self_avg
  | S_min, AVG_TOTAL => Some K_total_min | S_min, AVG_SELF => Some K_self_min
  | S_max, AVG_TOTAL => Some K_total_max | S_max, AVG_SELF => Some K_self_max
  end.
Definition default_keys (m : avg_mode) : list key :=
  match m with AVG_NONE => [K_total] | AVG_TOTAL => [K_total_avg] | AVG_SELF => [K_self_avg] end.
Definition default_fields (m : avg_mode) : list fld :=
  match m with
  | AVG_NONE => [F_total; F_self; F_call]
  | AVG_TOTAL => [F_total_avg; F_total_min; F_total_max]
  | AVG_SELF => [F_self_avg; F_self_min; F_self_max]
  end.
Fixpoint convert_keys (m : avg_mode) (l : list skey) : option (list key) :=
  match l with
  | [] => Some []
  | s :: t => match convert_key m s, convert_keys m t with Some k, Some r => Some (k :: r) | _, _ => None end
  end.
(* the options of one `uftrace report` run: --avg-* mode, -s tokens (None: not given), -f fields (None: not given;
   with -f the --avg-* option is ignored altogether) *)
Definition report_stdout (m : avg_mode) (s : option (list skey)) (f : option (list fld)) (tbl : list node)
  : option (list line) :=
  let m := match f with Some _ => AVG_NONE | None => m end in
  let ks := match s with None => Some (default_keys m) | Some l => convert_keys m l end in
  let fs := match f with None => default_fields m | Some l => l end in
  match ks with
  | Some ks => Some (stdout_model ks fs tbl)
  | None => None
  end.
Definition report_keys (m : avg_mode) (s : option (list skey)) (f : option (list fld)) : list key :=
  let m := match f with Some _ => AVG_NONE | None => m end in
  match (match s with None => Some (default_keys m) | Some l => convert_keys m l end) with Some ks => ks | None => [] end.
Definition report_fields (m : avg_mode) (f : option (list fld)) : list fld :=
  match f with None => default_fields m | Some l => l end.

(* ------------------------------------------------------------------ the read loop over the merged stream *)
(* build_function_tree reads the records of all tasks merged by time (read_rstack) and keeps one state per
   task (handle->tasks[i]); add_remaining_fstack then walks the tasks in index order.  [ms]: the merged
   stream as (task index, record); [n]: number of tasks *)
Definition upd_task (i : nat) (st : tstate) (f : nat -> tstate) : nat -> tstate :=
  fun j => if Nat.eqb j i then st else f j.
Fixpoint grun (f : nat -> tstate) (out : list row) (ms : list (nat * rec)) : (nat -> tstate) * list row :=
  match ms with
  | [] => (f, out)
  | (i, r) :: t => let '(st', rows) := step (f i) r in grun (upd_task i st' f) (out ++ rows) t
  end.
Definition merged_rows (max_stack : N) (n : nat) (ms : list (nat * rec)) : list row :=
  let '(f, out) := grun (fun _ => init_state max_stack) [] ms in
  out ++ concat (map (fun i => remaining false (t_last (f i)) (t_live (f i))) (seq 0 n)).
(* the records of task i, in their own order *)
Definition proj (i : nat) (ms : list (nat * rec)) : list rec :=
  map snd (filter (fun p => Nat.eqb (fst p) i) ms).
