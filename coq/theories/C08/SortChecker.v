(* C08 - proofs, part 11: the run-time checker ok_sorted accepts the model's row order for every key list. *)
From Coq Require Import NArith ZArith List Bool Lia Sorting.Sorted Permutation.
Require Import ZifyBool ZifyN.
Import ListNotations.
Require Import UV.C08.Model UV.C08.Proofs UV.C08.Order.
Local Open Scope N_scope.

Lemma list_eqb_refl l : list_eqb l l = true.
Proof. induction l as [|x t IH]; cbn; [reflexivity|]. rewrite N.eqb_refl, IH. reflexivity. Qed.

Lemma insert_name_perm n l : Permutation (n :: l) (insert_name n l).
Proof.
  induction l as [|x t IH]; cbn [insert_name]; [apply Permutation_refl|].
  destruct (n <=? x); [apply Permutation_refl|].
  eapply perm_trans; [apply perm_swap|]. apply perm_skip, IH.
Qed.
Lemma insert_name_sorted n l : StronglySorted N.le l -> StronglySorted N.le (insert_name n l).
Proof.
  induction l as [|x t IH]; intro Hs; cbn [insert_name].
  - repeat constructor.
  - apply StronglySorted_inv in Hs. destruct Hs as [Hs Hx].
    destruct (N.leb_spec n x).
    + constructor; [constructor; assumption|]. constructor; [assumption|].
      rewrite Forall_forall in Hx |- *. intros y Hy. specialize (Hx y Hy). lia.
    + constructor; [apply IH, Hs|]. apply (Permutation_Forall (insert_name_perm n t)).
      constructor; [lia|exact Hx].
Qed.
Lemma sort_names_spec l : StronglySorted N.le (sort_names l) /\ Permutation l (sort_names l).
Proof.
  unfold sort_names. induction l as [|x t [IH1 IH2]]; cbn [fold_right].
  - split; constructor.
  - split; [apply insert_name_sorted, IH1|].
    eapply perm_trans; [apply perm_skip, IH2|apply insert_name_perm].
Qed.

Lemma sorted_perm_unique a : forall b, StronglySorted N.le a -> StronglySorted N.le b -> Permutation a b -> a = b.
Proof.
  induction a as [|x a' IH]; intros b Sa Sb P.
  - apply Permutation_nil in P. congruence.
  - destruct b as [|y b']; [apply Permutation_sym, Permutation_nil in P; discriminate|].
    apply StronglySorted_inv in Sa. apply StronglySorted_inv in Sb. destruct Sa as [Sa Ha], Sb as [Sb Hb].
    assert (x = y) as ->.
    { assert (In x (y :: b')) as I1 by (apply (Permutation_in _ P); left; reflexivity).
      assert (In y (x :: a')) as I2 by (apply (Permutation_in _ (Permutation_sym P)); left; reflexivity).
      rewrite Forall_forall in Ha, Hb.
      destruct I1 as [->|I1]; [reflexivity|]. destruct I2 as [->|I2]; [reflexivity|].
      specialize (Ha _ I2). specialize (Hb _ I1). lia. }
    f_equal. apply IH; try assumption. apply Permutation_cons_inv in P. exact P.
Qed.

Lemma lt_le_sorted l : StronglySorted N.lt l -> StronglySorted N.le l.
Proof.
  induction 1 as [|x t Hs IH Hx]; constructor; [exact IH|].
  rewrite Forall_forall in Hx |- *. intros y Hy. specialize (Hx y Hy). lia.
Qed.

Theorem sort_checker_accepts_model ks tbl : names_sorted tbl ->
  ok_sorted ks tbl (map n_name (sort_nodes ks tbl)) = true.
Proof.
  intro Hs. destruct (sort_nodes_sorted ks tbl Hs) as [Hb Hp].
  unfold ok_sorted. apply andb_true_iff. split.
  - destruct (sort_names_spec (map n_name (sort_nodes ks tbl))) as [S1 P1].
    rewrite (sorted_perm_unique (sort_names (map n_name (sort_nodes ks tbl))) (map n_name tbl)).
    + apply list_eqb_refl.
    + exact S1.
    + apply lt_le_sorted, Hs.
    + eapply perm_trans; [apply Permutation_sym, P1|]. apply Permutation_map, Permutation_sym, Hp.
  - rewrite map_map.
    assert (map (fun x => match find_node tbl (n_name x) with Some n => n | None => zero_node (n_name x) end)
                (sort_nodes ks tbl) = sort_nodes ks tbl) as ->.
    { rewrite <- (map_id (sort_nodes ks tbl)) at 2. apply map_ext_in. intros n Hn.
      rewrite (find_node_in tbl Hs n); [reflexivity|]. apply (Permutation_in _ (Permutation_sym Hp)), Hn. }
    apply sorted_desc_of_before, Hb.
Qed.

(* ------------------------------------------------------------------ the stdout checker accepts the model's stdout *)
Definition small_figures (tbl : list node) : Prop :=
  forall n f, In n tbl -> f <> F_call -> fld_value f n < 3600000000000000.

Lemma ok_show_model f n : (f <> F_call -> fld_value f n < 3600000000000000) -> ok_show f n (show f n) = true.
Proof.
  intro H. destruct f; cbn [ok_show show]; try (apply fmt_time_ok, H; discriminate).
  apply N.eqb_refl.
Qed.

Lemma ok_cells_model fs n : (forall f, f <> F_call -> fld_value f n < 3600000000000000) ->
  ok_cells fs n (map (fun f => show f n) fs) = true.
Proof.
  intro H. induction fs as [|f t IH]; cbn [map ok_cells]; [reflexivity|].
  rewrite ok_show_model by (apply H). exact IH.
Qed.

Theorem stdout_checker_accepts_model ks fs tbl : names_sorted tbl -> small_figures tbl ->
  ok_stdout ks fs tbl (stdout_model ks fs tbl) = true.
Proof.
  intros Hs Hsm. unfold ok_stdout, stdout_model. apply andb_true_iff. split.
  - apply forallb_forall. intros l Hl. apply in_map_iff in Hl. destruct Hl as (n & <- & Hn). cbn [fst snd].
    destruct (sort_nodes_sorted ks tbl Hs) as [_ Hp].
    assert (In n tbl) as Hin by (apply (Permutation_in _ (Permutation_sym Hp)), Hn).
    rewrite (find_node_in tbl Hs n Hin). apply ok_cells_model. intros f Hf. apply Hsm; assumption.
  - rewrite map_map. cbn [fst]. apply sort_checker_accepts_model, Hs.
Qed.
