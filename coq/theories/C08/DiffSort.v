(* C08 - model of the row order of `uftrace report --diff OTHER` (utils/report.c DIFF_KEY: cmp_field_*,
   _cmp_diff_*, cmp_pcnt_*, cmp_diff_*; cmp_diff; insert_diff; report_diff_nodes) for every diff policy
   (abs / no-abs, percent / no-percent; compact / full only change what is printed), every --sort-column
   (0 = base data, 1 = data given with --diff, 2 = difference) and every list of sort keys.
   The value a row is sorted by is kept as an exact fraction; the code computes the percentage in double:
   for figures below 2^26 ns the two orders coincide (100*d exact, the quotient correctly rounded, distinct
   fractions further apart than an ulp).  NO proofs in this file. *)
From Coq Require Import NArith ZArith List Bool.
Import ListNotations.
Require Import UV.C08.Model.
Local Open Scope Z_scope.

Record dpolicy := mkdp { dp_abs : bool; dp_percent : bool }.

Definition frac := (Z * Z)%type.                       (* numerator, denominator > 0 *)
Definition cmpq (x y : frac) : comparison := (fst x * snd y ?= fst y * snd x).

(* the figure of key k a row is sorted by *)
Definition dval (pol : dpolicy) (col : N) (k : key) (bp : node * node) : frac :=
  let b := Z.of_N (field k (fst bp)) in
  let p := Z.of_N (field k (snd bp)) in
  match col with
  | 0%N => (b, 1)
  | 1%N => (p, 1)
  | _ =>
      let d := p - b in
      if dp_percent pol
      then (if b =? 0 then (0, 1) else ((if dp_abs pol then Z.abs (100 * d) else 100 * d), b))
      else ((if dp_abs pol then Z.abs d else d), 1)
  end.

Definition cmp_d1 (pol : dpolicy) (col : N) (k : key) (a b : node * node) : comparison :=
  match k with
  | K_func => (n_name (fst b) ?= n_name (fst a))%N          (* cmp_diff_func: strcmp(b->name, a->name) *)
  | _ => cmpq (dval pol col k a) (dval pol col k b)
  end.
Fixpoint cmp_d (pol : dpolicy) (col : N) (ks : list key) (a b : node * node) : comparison :=
  match ks with
  | [] => Eq
  | k :: t => match cmp_d1 pol col k a b with Eq => cmp_d pol col t a b | c => c end
  end.

(* insert_diff: left of [iter] iff cmp_diff(iter, node) < 0 *)
Section Insert.
  Context {A : Type} (cmp : A -> A -> comparison).
  Fixpoint insert_by (x : A) (l : list A) : list A :=
    match l with
    | [] => [x]
    | y :: t => match cmp y x with Lt => x :: y :: t | _ => y :: insert_by x t end
    end.
  Definition sort_by (l : list A) : list A := fold_left (fun acc x => insert_by x acc) l [].
  (* run-time checker: no row stands before a larger one *)
  Fixpoint sorted_by (l : list A) : bool :=
    match l with
    | a :: ((b :: _) as t) => (match cmp a b with Lt => false | _ => true end) && sorted_by t
    | _ => true
    end.
End Insert.

(* report_diff_nodes: base rows in name order, then the rows only the other data has, each inserted in turn *)
Definition diff_order (pol : dpolicy) (col : N) (ks : list key) (base pair : list node) : list (node * node) :=
  sort_by (cmp_d pol col ks) (diff_pairs base pair).

(* the code before the fixes: column 1 was sorted like column 0, and under the abs policy +x / -x compared as
   "less" in both directions *)
Definition cmp_d1_legacy (pol : dpolicy) (col : N) (k : key) (a b : node * node) : comparison :=
  match k with
  | K_func => (n_name (fst b) ?= n_name (fst a))%N
  | _ =>
      let col' := if (col =? 1)%N then 0%N else col in
      match col' with
      | 2%N =>
          let signed := mkdp false (dp_percent pol) in
          match cmpq (dval signed 2 k a) (dval signed 2 k b) with
          | Eq => Eq
          | _ => match cmpq (dval pol 2 k a) (dval pol 2 k b) with Gt => Gt | _ => Lt end
          end
      | _ => cmpq (dval pol col' k a) (dval pol col' k b)
      end
  end.
Fixpoint cmp_d_legacy (pol : dpolicy) (col : N) (ks : list key) (a b : node * node) : comparison :=
  match ks with
  | [] => Eq
  | k :: t => match cmp_d1_legacy pol col k a b with Eq => cmp_d_legacy pol col t a b | c => c end
  end.

(* the printed percentage "%+7.2f%%" of print_diff_percent: None = "N/A" (nothing to compare);
   checker in exact arithmetic: h hundredths of a percent, capped at +-999.99 *)
Definition ok_dpct (b p : N) (c : option Z) : bool :=
  match c with
  | None => (b =? 0)%N || (p =? 0)%N
  | Some h =>
      negb ((b =? 0)%N || (p =? 0)%N)
      && (let bz := Z.of_N b in let d := Z.of_N p - bz in
          let x := 10000 * d in              (* exact value in hundredths of a percent, times bz *)
          if (99999 * bz <=? x) then (h =? 99999)
          else if (x <=? -99999 * bz) then (h =? -99999)
          else ((h - 1) * bz <=? x) && (x <=? (h + 1) * bz))
  end.
