(* C08 - proofs, part 10: tasks with calls still open at the end - the rows proved in Open.v are the
   specification's rows (spec_open), their Self times add up to the duration of the outermost open call,
   and the run-time checker accepts the model's report for such tasks too. *)
From Coq Require Import NArith ZArith List Bool Lia Sorting.Sorted Permutation.
Require Import ZifyBool ZifyN.
Import ListNotations.
Require Import UV.C08.Model UV.C08.Proofs UV.C08.Figures UV.C08.Open UV.C08.Order UV.C08.Checker.
Local Open Scope N_scope.

(* open_rows with the addresses open outside the chain *)
Fixpoint open_rows_a (last inner : N) (anc : list N) (ros : list oframe) : list row :=
  match ros with
  | [] => []
  | o :: t =>
      mkrow (o_addr o) (last - o_t0 o) (last - o_t0 o - sumdur (o_kids o) - inner)
            (recursive (o_addr o) (map o_addr t ++ anc))
      :: open_rows_a last (last - o_t0 o) anc t
  end.
Lemma open_rows_a_nil last inner ros : open_rows_a last inner [] ros = open_rows last inner ros.
Proof.
  revert inner. induction ros as [|o t IH]; intro inner; cbn [open_rows_a open_rows]; [reflexivity|].
  rewrite app_nil_r, IH. reflexivity.
Qed.

(* duration of the innermost... of the last frame of an innermost-first chain, i.e. of the outermost one *)
Definition inner_of (last i : N) (l : list oframe) : N :=
  match rev l with [] => i | o :: _ => last - o_t0 o end.

Lemma open_rows_a_snoc last : forall l i anc o,
  open_rows_a last i anc (l ++ [o])
  = open_rows_a last i (o_addr o :: anc) l
    ++ [mkrow (o_addr o) (last - o_t0 o) (last - o_t0 o - sumdur (o_kids o) - inner_of last i l)
              (recursive (o_addr o) anc)].
Proof.
  induction l as [|x t IH]; intros i anc o.
  - reflexivity.
  - cbn [app open_rows_a]. rewrite IH. cbn [app]. f_equal.
    + f_equal. rewrite map_app, <- app_assoc. reflexivity.
    + f_equal. f_equal. f_equal. unfold inner_of. cbn [rev].
      destruct (rev t) as [|y r] eqn:E; cbn [app].
      * assert (t = []) as -> by (rewrite <- (rev_involutive t), E; reflexivity). reflexivity.
      * reflexivity.
Qed.

Fixpoint okids_spec (anc : list N) (os : list oframe) : list row :=
  match os with
  | [] => []
  | o :: t => concat (map (spec_rows (o_addr o :: anc)) (o_kids o)) ++ okids_spec (o_addr o :: anc) t
  end.

Lemma spec_open_split last : forall os anc,
  Permutation (spec_open last anc os) (okids_spec anc os ++ open_rows_a last 0 anc (rev os)).
Proof.
  induction os as [|o t IH]; intro anc; [constructor|].
  cbn [spec_open okids_spec rev]. rewrite open_rows_a_snoc.
  assert (inner_of last 0 (rev t) = match t with [] => 0 | n :: _ => odur last n end) as ->.
  { unfold inner_of. rewrite rev_involutive. destruct t; reflexivity. }
  rewrite <- app_assoc. apply Permutation_app_head.
  rewrite app_assoc. apply Permutation_app_tail. apply IH.
Qed.

Lemma okids_rows_spec os : forall anc, Forall (fun o => Forall wt (o_kids o)) os -> okids_rows anc os = okids_spec anc os.
Proof.
  induction os as [|o t IH]; intros anc H; [reflexivity|]. inversion H as [|? ? Ho Ht]; subst.
  cbn [okids_rows okids_spec]. rewrite IH by assumption. f_equal. f_equal.
  apply map_ext_in. intros c Hc. apply rows64_spec. rewrite Forall_forall in Ho. auto.
Qed.

Lemma fits_kids last : forall ros inner, fits last inner ros -> Forall (fun o => Forall wt (o_kids o)) ros.
Proof. induction ros as [|o t IH]; intros inner H; [constructor|]. cbn in H. destruct H as (A & _ & C). constructor; eauto. Qed.

(* ------------------------------------------------------------------ a task with open calls *)
Definition good_task (max_stack : N) (tt : ttrace) : Prop :=
  (task_height tt <= N.to_nat max_stack)%nat /\ Forall wt (tt_done tt)
  /\ last_time tt < M64 /\ fits (last_time tt) 0 (rev (tt_open tt)).

Lemma task_rows_good max_stack tt : good_task max_stack tt ->
  Permutation (task_rows max_stack (trace_recs tt)) (spec_task tt).
Proof.
  intros (Hh & Hw & Hl & Hf). destruct tt as [done os]. cbn [tt_done tt_open] in *.
  pose proof (task_rows_open max_stack done (rev os)) as H. cbn zeta in H. rewrite rev_involutive in H.
  rewrite H by assumption. unfold spec_task. cbn [tt_done tt_open].
  assert (concat (map (rows64 []) done) = concat (map (spec_rows []) done)) as ->.
  { f_equal. apply map_ext_in. intros c Hc. apply rows64_spec. rewrite Forall_forall in Hw. auto. }
  apply Permutation_app_head.
  rewrite okids_rows_spec.
  2:{ apply fits_kids in Hf. apply Forall_forall. intros o Ho. rewrite Forall_forall in Hf. apply Hf. apply in_rev. rewrite rev_involutive. exact Ho. }
  rewrite <- open_rows_a_nil. apply Permutation_sym, spec_open_split.
Qed.

(* Self times of the open chain telescope to the duration of the outermost open call *)
Definition okids_dur (ros : list oframe) : N := sumN (map (fun o => sumdur (o_kids o)) ros).
Lemma open_rows_self last : forall ros inner, fits last inner ros ->
  sum_self (open_rows last inner ros) + okids_dur ros + inner = inner_of last inner ros.
Proof.
  induction ros as [|o t IH]; intros inner Hf.
  - cbn. unfold okids_dur, sumN, inner_of. cbn. lia.
  - cbn [fits] in Hf. destruct Hf as (_ & Hfit & Hrest). specialize (IH _ Hrest).
    cbn [open_rows]. unfold sum_self in *. cbn [fold_right w_self].
    unfold okids_dur, sumN in *. cbn [map fold_right].
    assert (inner_of last inner (o :: t) = inner_of last (last - o_t0 o) t) as ->.
    { unfold inner_of. cbn [rev]. destruct (rev t) as [|y r] eqn:E; cbn [app]; reflexivity. }
    lia.
Qed.

Lemma okids_spec_self os : forall anc, Forall (fun o => Forall wt (o_kids o)) os ->
  sum_self (okids_spec anc os) = okids_dur os.
Proof.
  induction os as [|o t IH]; intros anc H; [reflexivity|]. inversion H; subst.
  cbn [okids_spec]. rewrite sum_self_app, conservation_forest, IH by assumption.
  unfold okids_dur, sumN. cbn. reflexivity.
Qed.

Lemma sum_self_perm l l' : Permutation l l' -> sum_self l = sum_self l'.
Proof. unfold sum_self. induction 1; cbn; lia. Qed.

Lemma okids_dur_rev l : okids_dur (rev l) = okids_dur l.
Proof.
  unfold okids_dur. rewrite map_rev. generalize (map (fun o => sumdur (o_kids o)) l). intro v.
  unfold sumN. induction v as [|x t IH]; [reflexivity|]. cbn [rev].
  change (fold_right N.add 0 (rev t ++ [x])) with (sumN (rev t ++ [x])). rewrite sumN_app.
  unfold sumN in *. cbn. lia.
Qed.

Theorem top_time_good max_stack tt : good_task max_stack tt -> sum_self (spec_task tt) = top_time tt.
Proof.
  intros (_ & Hw & _ & Hf). unfold spec_task, top_time.
  rewrite sum_self_app, conservation_forest by assumption. f_equal.
  rewrite (sum_self_perm _ _ (spec_open_split (last_time tt) (tt_open tt) [])).
  rewrite sum_self_app, open_rows_a_nil.
  pose proof (fits_kids _ _ _ Hf) as Hk.
  rewrite okids_spec_self.
  2:{ apply Forall_forall. intros o Ho. rewrite Forall_forall in Hk. apply Hk. apply in_rev. rewrite rev_involutive. exact Ho. }
  pose proof (open_rows_self _ _ _ Hf) as H. rewrite okids_dur_rev in H.
  unfold inner_of in H. rewrite rev_involutive in H. unfold odur.
  destruct (tt_open tt) as [|o t]; lia.
Qed.

(* ------------------------------------------------------------------ the checker accepts the model *)
Lemma ok_table_perm_rows nms rows rows' : Permutation rows rows' ->
  table_of_rows nms rows = table_of_rows nms rows'.
Proof. apply table_perm. Qed.

Lemma spec_open_self_le_total last : forall os anc, Forall (fun w => w_self w <= w_total w) (spec_open last anc os).
Proof.
  induction os as [|o t IH]; intro anc; [constructor|]. cbn [spec_open].
  apply Forall_app. split.
  - apply Forall_forall. intros w Hw. apply in_concat in Hw. destruct Hw as (l & Hl & Hw).
    apply in_map_iff in Hl. destruct Hl as (c & <- & _).
    pose proof (spec_self_le_total (o_addr o :: anc) c) as F. rewrite Forall_forall in F. auto.
  - apply Forall_app. split; [apply IH|]. constructor; [cbn; lia|constructor].
Qed.

Lemma spec_task_self_le_total tt : Forall (fun w => w_self w <= w_total w) (spec_task tt).
Proof.
  unfold spec_task. apply Forall_app. split; [|apply spec_open_self_le_total].
  apply Forall_forall. intros w Hw. apply in_concat in Hw. destruct Hw as (l & Hl & Hw).
  apply in_map_iff in Hl. destruct Hl as (c & <- & _).
  pose proof (spec_self_le_total [] c) as F. rewrite Forall_forall in F. auto.
Qed.

(* the table built from the specification's rows passes the checker *)
Lemma ok_table_of_spec nms tts :
  let spec := concat (map spec_task tts) in
  sumN (map w_total spec) < M64 ->
  (forall tt, In tt tts -> sum_self (spec_task tt) = top_time tt) ->
  ok_table nms tts (table_of_rows nms spec) = true.
Proof.
  intros spec Hb Htop.
  assert (Forall (fun w => w_self w <= w_total w) spec) as Hle.
  { unfold spec. apply Forall_forall. intros w Hw. apply in_concat in Hw. destruct Hw as (l & Hl & Hw).
    apply in_map_iff in Hl. destruct Hl as (tt & <- & Htt).
    pose proof (spec_task_self_le_total tt) as F. rewrite Forall_forall in F. auto. }
  assert (sumN (map w_self spec) < M64) as Hbs.
  { pose proof (sumN_le_pointwise spec Hle). lia. }
  set (tbl := table_of_rows nms spec).
  assert (names_sorted tbl) as Hs.
  { unfold tbl, table_of_rows, names_sorted. rewrite finish_names. apply (table_lookup nms spec []). constructor. }
  unfold ok_table. fold spec. rewrite !andb_true_iff. repeat split.
  - apply increasing_sorted, Hs.
  - apply forallb_forall. intros n Hn.
    pose proof (find_node_in tbl Hs n Hn) as Hf. unfold tbl in Hf. rewrite report_node in Hf.
    remember (n_name n) as nm eqn:Enm.
    destruct (mine nms nm spec) as [|w l] eqn:E; [discriminate|]. injection Hf as Hf.
    apply ok_node_figures; cbn zeta; rewrite <- Enm, E; [discriminate|].
    rewrite <- Hf. change (fold_left upd_row l (upd_row (new_node nm) w)) with (fold_left upd_row (w :: l) (new_node nm)).
    apply node_figures; rewrite <- E.
    + pose proof (sumN_filter_le (fun w => name_of nms (w_addr w) =? nm) w_total spec). unfold mine. lia.
    + pose proof (sumN_filter_le (fun w => name_of nms (w_addr w) =? nm) w_self spec). unfold mine. lia.
  - apply forallb_forall. intros w Hw. apply existsb_exists.
    pose proof (report_node nms spec (name_of nms (w_addr w))) as Hr.
    destruct (mine nms (name_of nms (w_addr w)) spec) as [|x l] eqn:E.
    + exfalso. assert (In w (mine nms (name_of nms (w_addr w)) spec)) as Hi.
      { unfold mine. apply filter_In. split; [exact Hw|apply N.eqb_refl]. }
      rewrite E in Hi. destruct Hi.
    + apply find_some in Hr. destruct Hr as [Hi Hname]. eexists. split; [exact Hi|]. rewrite Hname. apply N.eqb_refl.
  - apply N.eqb_eq. fold (tself tbl). unfold tbl. rewrite self_partition by exact Hbs.
    unfold spec. rewrite concat_map, sumN_concat, !map_map. f_equal. apply map_ext_in. intros tt Htt.
    rewrite <- sum_self_sumN. apply Htop, Htt.
Qed.

Lemma all_rows_good max_stack nms tts : Forall (good_task max_stack) tts ->
  Permutation (all_rows (mkcase max_stack nms (map trace_recs tts))) (concat (map spec_task tts)).
Proof.
  unfold all_rows, all_rows_gen. cbn [c_max c_tasks]. fold task_rows. induction 1 as [|tt t Hg _ IH]; [constructor|].
  cbn [map concat]. apply Permutation_app; [apply task_rows_good, Hg|exact IH].
Qed.

(* THE PROPERTY ON THE MODEL: tasks of completed calls followed by calls still open at the end *)
Theorem checker_accepts_model max_stack nms tts :
  Forall (good_task max_stack) tts ->
  sumN (map w_total (concat (map spec_task tts))) < M64 ->
  ok_table nms tts (report (mkcase max_stack nms (map trace_recs tts))) = true.
Proof.
  intros Hg Hb. unfold report, report_gen. fold all_rows. cbn [c_names].
  rewrite (table_perm nms _ _ (all_rows_good max_stack nms tts Hg)).
  apply ok_table_of_spec; [exact Hb|].
  intros tt Htt. rewrite Forall_forall in Hg. apply (top_time_good max_stack), Hg, Htt.
Qed.

(* non-vacuity: a task with two calls open at the end next to a task of completed calls *)
Definition ex_open_tts : list ttrace :=
  [mktt [Call 1 10 50 [Call 2 12 20 []; Call 1 20 30 [Call 3 21 21 []]]]
        [mkof 1 60 []; mkof 3 70 [Call 2 75 80 []]];
   mktt [Call 3 15 40 [Call 3 16 17 []]] []].
Example ex_open_hyps :
  Forall (good_task 1024) ex_open_tts /\ sumN (map w_total (concat (map spec_task ex_open_tts))) < M64.
Proof.
  split.
  - unfold ex_open_tts. repeat constructor; try (rewrite M64_val; reflexivity);
      try (vm_compute; congruence); try (vm_compute; lia).
  - rewrite M64_val. vm_compute. reflexivity.
Qed.
Example ex_open_accepts :
  ok_table [(1, 1); (2, 2); (3, 3)] ex_open_tts
           (report (mkcase 1024 [(1, 1); (2, 2); (3, 3)] (map trace_recs ex_open_tts))) = true.
Proof. apply checker_accepts_model; apply ex_open_hyps. Qed.
