(* C08 - proofs, part 15: data that starts at depth k > 0 (a forked child, a thread whose first buffers were
   not recorded): the k frames open at the first record are counted exactly as if the data began with k ENTRY
   records of unknown address (0) at the time of the first record. *)
From Coq Require Import NArith ZArith List Bool Lia Arith Sorting.Sorted Permutation.
Require Import ZifyBool ZifyN ZifyNat.
Import ListNotations.
Require Import UV.C08.Model UV.C08.Proofs UV.C08.Open UV.C08.Order UV.C08.Checker UV.C08.OpenSpec UV.C08.Merge UV.C08.Lost.
Local Open Scope N_scope.

(* states that differ only in user_stack_count and the two time stamps *)
Definition same_core (s s' : tstate) : Prop :=
  t_set s = true /\ t_set s' = true /\ t_lost s = false /\ t_lost s' = false
  /\ t_live s = t_live s' /\ t_dead s = t_dead s' /\ t_over s = t_over s' /\ t_legacy s = t_legacy s'.

Lemma prepare_set st r : t_set st = true -> t_lost st = false -> prepare st r = st.
Proof. intros H1 H2. unfold prepare. rewrite H1, H2. reflexivity. Qed.

Lemma step_core s s' r : same_core s s' -> is_lost r = false ->
  same_core (fst (step s r)) (fst (step s' r)) /\ snd (step s r) = snd (step s' r)
  /\ t_last (fst (step s r)) = t_last (fst (step s' r)) /\ t_lastx (fst (step s r)) = t_lastx (fst (step s' r)).
Proof.
  intros (H1 & H2 & H3 & H4 & H5 & H6 & H7 & H8) Hnl. unfold step.
  rewrite H3, H4. cbn [andb]. rewrite !prepare_set by assumption.
  unfold is_lost in Hnl. destruct (r_type r); [| |discriminate].
  - rewrite H6, H5, H7, H8. destruct (t_dead s'); cbn; unfold same_core; cbn; repeat split; auto.
  - rewrite H7, H6, H5, H8. destruct (0 <? t_over s').
    + cbn; unfold same_core; cbn; repeat split; auto.
    + destruct (t_live s') as [|top rest].
      * cbn; unfold same_core; cbn; repeat split; auto.
      * cbn; unfold same_core; cbn; repeat split; auto.
Qed.

Lemma run_core rs : forall s s' out, same_core s s' -> Forall (fun r => is_lost r = false) rs ->
  same_core (fst (run s out rs)) (fst (run s' out rs)) /\ snd (run s out rs) = snd (run s' out rs)
  /\ (rs <> [] -> t_last (fst (run s out rs)) = t_last (fst (run s' out rs))).
Proof.
  induction rs as [|r t IH]; intros s s' out Hc Hnl.
  - cbn. split; [exact Hc|]. split; [reflexivity|]. intro H; congruence.
  - inversion Hnl as [|? ? Hr Ht]; subst. cbn [run].
    destruct (step_core s s' r Hc Hr) as (C & R & L & _).
    destruct (step s r) as [s1 rows1]. destruct (step s' r) as [s1' rows1']. cbn [fst snd] in *. subst rows1'.
    destruct (IH s1 s1' (out ++ rows1) C Ht) as (C2 & R2 & L2). split; [exact C2|]. split; [exact R2|].
    intros _. destruct t as [|r' t']; [cbn; exact L|]. apply L2. discriminate.
Qed.

(* ------------------------------------------------------------------ the first record of such data *)
Definition islot (t : N) : slot := mkslot 0 t 0 true.
Definition zeros (k : nat) (t : N) : list rec := map (fun i => mkrec ENTRY (N.of_nat i) 0 t) (seq 0 k).

Lemma rev_repeat {A} (x : A) n : rev (repeat x n) = repeat x n.
Proof.
  induction n as [|n IH]; [reflexivity|]. cbn [repeat rev]. rewrite IH.
  clear IH. induction n as [|n IH]; [reflexivity|]. cbn [repeat app]. rewrite IH. reflexivity.
Qed.

Lemma mapi_prefix t K : forall n i,
  mapi (fun j s => if j <? N.of_nat K then mkslot (s_addr s) t 0 true else s) (N.of_nat i) (repeat slot0 n)
  = repeat (islot t) (Nat.min n (K - i)) ++ repeat slot0 (n - (K - i)).
Proof.
  induction n as [|n IH]; intro i; [reflexivity|].
  cbn [repeat mapi]. replace (N.of_nat i + 1) with (N.of_nat (S i)) by lia. rewrite IH.
  destruct (N.ltb_spec (N.of_nat i) (N.of_nat K)) as [L|L].
  - replace (K - i)%nat with (S (K - S i)) by lia. cbn [Nat.min repeat app Nat.sub]. reflexivity.
  - replace (K - i)%nat with 0%nat by lia. replace (K - S i)%nat with 0%nat by lia.
    rewrite !Nat.min_0_r, !Nat.sub_0_r. reflexivity.
Qed.

Lemma mapi_prefix0 t K n : (K <= n)%nat ->
  mapi (fun j s => if j <? N.of_nat K then mkslot (s_addr s) t 0 true else s) 0 (repeat slot0 n)
  = repeat (islot t) K ++ repeat slot0 (n - K).
Proof.
  intro H. pose proof (mapi_prefix t K n 0) as E. cbn [N.of_nat] in E. rewrite E.
  rewrite Nat.sub_0_r, Nat.min_r by lia. reflexivity.
Qed.

Lemma prepare_first max_stack r k :
  is_lost r = false -> N.of_nat k = r_depth r + (if is_exit r then 1 else 0) -> (k <= N.to_nat max_stack)%nat ->
  prepare (init_state max_stack) r
  = mkts true false (repeat (islot (r_time r)) k) (repeat slot0 (N.to_nat max_stack - k)) 0 0 0 0 false.
Proof.
  intros Hnl Hk Hmax. unfold prepare, init_state, init_state_gen. cbn [t_set]. rewrite <- Hk.
  unfold arr_of. cbn [t_live t_dead rev app].
  rewrite mapi_prefix0 by exact Hmax.
  unfold with_stack, split_at. rewrite app_length, !repeat_length.
  replace (N.of_nat k <=? N.of_nat (k + (N.to_nat max_stack - k))) with true by lia.
  rewrite Nat2N.id.
  assert (forall (P X : list slot), length P = k -> firstn k (P ++ X) = P /\ skipn k (P ++ X) = X) as HX.
  { intros P X HP. rewrite <- HP. rewrite firstn_app, firstn_all, Nat.sub_diag, skipn_app, skipn_all, Nat.sub_diag.
    cbn [firstn skipn app]. rewrite app_nil_r. auto. }
  destruct (HX (repeat (islot (r_time r)) k) (repeat slot0 (N.to_nat max_stack - k)) (repeat_length _ _)) as [-> ->].
  rewrite rev_repeat.
  cbn [t_set t_lost t_live t_dead t_over t_usc t_last t_lastx t_legacy]. rewrite Hnl. cbn [negb andb].
  reflexivity.
Qed.

Lemma repeat_snoc {A} (x : A) n (l : list A) : repeat x n ++ x :: l = repeat x (S n) ++ l.
Proof. induction n as [|n IH]; [reflexivity|]. cbn [repeat app]. rewrite IH. reflexivity. Qed.

Lemma run_zeros_mid t : forall j d stk n usc out, (j <= n)%nat ->
  run (mid stk (repeat slot0 n) usc t t) out (map (fun i => mkrec ENTRY (N.of_nat i) 0 t) (seq d j))
  = (mid (repeat (islot t) j ++ stk) (repeat slot0 (n - j)) (usc + N.of_nat j) t t, out).
Proof.
  induction j as [|j IH]; intros d stk n usc out Hj.
  - cbn. rewrite Nat.sub_0_r, N.add_0_r. reflexivity.
  - destruct n as [|n]; [lia|]. cbn [seq map run repeat]. rewrite step_entry, app_nil_r.
    rewrite IH by lia. fold (islot t). rewrite repeat_snoc. cbn [Nat.sub]. do 2 f_equal. lia.
Qed.

Lemma run_zeros max_stack k t : (k <= N.to_nat max_stack)%nat -> k <> 0%nat ->
  run (init_state max_stack) [] (zeros k t)
  = (mid (repeat (islot t) k) (repeat slot0 (N.to_nat max_stack - k)) (N.of_nat k) t t, []).
Proof.
  intros Hk Hnz. destruct k as [|k]; [congruence|]. unfold zeros. cbn [seq map run].
  rewrite init_state_mid. rewrite first_record by reflexivity.
  destruct (N.to_nat max_stack) as [|n] eqn:En; [lia|]. cbn [repeat]. rewrite step_entry. cbn [app].
  rewrite run_zeros_mid by lia. fold (islot t). rewrite repeat_snoc, app_nil_r. cbn [Nat.sub].
  do 2 f_equal. lia.
Qed.

(* THE THEOREM: data whose first record is at depth k > 0 (an EXIT at depth k-1 or an ENTRY at depth k), without
   LOST markers: the counted rows are exactly those of the same data preceded by k ENTRY records of address 0
   at the time of the first record. *)
Theorem inherited_start max_stack r0 rest k :
  Forall (fun r => is_lost r = false) (r0 :: rest) ->
  N.of_nat k = r_depth r0 + (if is_exit r0 then 1 else 0) -> (k <= N.to_nat max_stack)%nat ->
  task_rows max_stack (r0 :: rest) = task_rows max_stack (zeros k (r_time r0) ++ r0 :: rest).
Proof.
  intros Hnl Hk Hmax. destruct (Nat.eq_dec k 0) as [->|Hnz]; [reflexivity|].
  unfold task_rows, task_rows_gen. fold (init_state max_stack).
  rewrite (run_app (init_state max_stack) [] (zeros k (r_time r0))), run_zeros by assumption.
  set (sR := mid (repeat (islot (r_time r0)) k) (repeat slot0 (N.to_nat max_stack - k)) (N.of_nat k) (r_time r0) (r_time r0)).
  set (sL := mkts true false (repeat (islot (r_time r0)) k) (repeat slot0 (N.to_nat max_stack - k)) 0 0 0 0 false).
  assert (Hr0 : is_lost r0 = false) by (inversion Hnl; assumption).
  (* the first record: from the initial state it behaves as from the prepared state *)
  assert (step (init_state max_stack) r0 = step sL r0) as E0.
  { unfold step. change (t_lost (init_state max_stack)) with false. change (t_lost sL) with false. cbn [andb].
    rewrite (prepare_first max_stack r0 k Hr0 Hk Hmax). fold sL.
    rewrite (prepare_set sL) by reflexivity. reflexivity. }
  assert (run (init_state max_stack) [] (r0 :: rest) = run sL [] (r0 :: rest)) as ->.
  { cbn [run]. rewrite E0. reflexivity. }
  assert (same_core sL sR) as Hc by (unfold same_core, sL, sR, mid; cbn; repeat split; reflexivity).
  destruct (run_core (r0 :: rest) sL sR [] Hc Hnl) as (C & R & L).
  destruct (run sL [] (r0 :: rest)) as [s1 o1]. destruct (run sR [] (r0 :: rest)) as [s2 o2].
  cbn [fst snd] in *. subst o2. rewrite (L ltac:(discriminate)).
  destruct C as (_ & _ & _ & _ & C5 & _). rewrite C5. reflexivity.
Qed.

(* ------------------------------------------------------------------ the property for such data *)
(* [rs] is the data of [tt] without the ENTRY records of the frames that were open when recording began:
   in [tt] those frames are calls with entry address 0 entered at the time of the first record *)
Definition inherits (max_stack : N) (tt : ttrace) (rs : list rec) : Prop :=
  match rs with
  | [] => trace_recs tt = []
  | r0 :: _ =>
      Forall (fun r => is_lost r = false) rs
      /\ exists k, N.of_nat k = r_depth r0 + (if is_exit r0 then 1 else 0) /\ (k <= N.to_nat max_stack)%nat
                   /\ trace_recs tt = zeros k (r_time r0) ++ rs
  end.

Theorem inherited_task_rows max_stack tt rs : good_task max_stack tt -> inherits max_stack tt rs ->
  task_rows max_stack rs = task_rows max_stack (trace_recs tt)
  /\ Permutation (task_rows max_stack rs) (spec_task tt).
Proof.
  intros Hg Hi.
  assert (task_rows max_stack rs = task_rows max_stack (trace_recs tt)) as E.
  { destruct rs as [|r0 rest]; cbn [inherits] in Hi; [rewrite Hi; reflexivity|].
    destruct Hi as (Hnl & k & Hk & Hmax & Ht). rewrite Ht. apply inherited_start; assumption. }
  split; [exact E|]. rewrite E. apply task_rows_good, Hg.
Qed.

Theorem checker_accepts_model_inherited max_stack nms tts rss :
  Forall (good_task max_stack) tts -> Forall2 (inherits max_stack) tts rss ->
  sumN (map w_total (concat (map spec_task tts))) < M64 ->
  report (mkcase max_stack nms rss) = report (mkcase max_stack nms (map trace_recs tts))
  /\ ok_table nms tts (report (mkcase max_stack nms rss)) = true.
Proof.
  intros Hg Hm Hb.
  assert (report (mkcase max_stack nms rss) = report (mkcase max_stack nms (map trace_recs tts))) as E.
  { unfold report, report_gen, all_rows_gen. cbn [c_names c_max c_tasks]. fold task_rows. do 2 f_equal.
    clear Hb. induction Hm as [|tt rs tts' rss' Hm1 _ IH]; [reflexivity|].
    inversion Hg as [|? ? Hg1 Hg']; subst. cbn [map]. f_equal; [|apply IH, Hg'].
    apply (inherited_task_rows max_stack tt rs Hg1 Hm1). }
  split; [exact E|]. rewrite E. apply checker_accepts_model; assumption.
Qed.

(* non-vacuity: the data of a forked child: main{work{fork}} inherited, fork returns, work calls a leaf and
   returns, main is still open at the end *)
Definition ex_child_tt : ttrace :=
  mktt [] [mkof 0 1310 [CallX 0 20 1310 2310 [CallX 0 30 1310 1310 []; Call 40 1400 1500 []]]].
Definition ex_child_rs : list rec :=
  [mkrec EXIT 2 30 1310; mkrec ENTRY 2 40 1400; mkrec EXIT 2 40 1500; mkrec EXIT 1 20 2310].
Example ex_child : good_task 1024 ex_child_tt /\ inherits 1024 ex_child_tt ex_child_rs.
Proof.
  split.
  - unfold ex_child_tt. repeat constructor; try (rewrite M64_val; reflexivity);
      try (vm_compute; congruence); try (vm_compute; lia).
  - cbn [inherits ex_child_rs]. split; [repeat constructor|]. exists 3%nat. repeat split; vm_compute; try reflexivity; lia.
Qed.
Example ex_child_rows :
  Permutation (task_rows 1024 ex_child_rs) (spec_task ex_child_tt)
  /\ map (fun w => (w_addr w, w_total w, w_self w, w_rec w)) (task_rows 1024 ex_child_rs)
     = [(30, 0, 0, false); (40, 100, 100, false); (20, 1000, 900, false); (0, 1000, 0, false)].
Proof. split; [apply inherited_task_rows; apply ex_child|vm_compute; reflexivity]. Qed.
