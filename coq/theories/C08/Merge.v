(* C08 - proofs, part 12: reading the records of several tasks merged in ANY order (the code merges by time)
   gives the same report as handling task after task: per-task states do not interact, the table does not
   depend on the row order. *)
From Coq Require Import NArith ZArith List Bool Lia Sorting.Sorted Permutation Arith.
Import ListNotations.
Require Import UV.C08.Model UV.C08.Proofs UV.C08.Order.
Local Open Scope N_scope.

Lemma run_out rs : forall st out, run st out rs = (fst (run st [] rs), out ++ snd (run st [] rs)).
Proof.
  induction rs as [|r t IH]; intros st out; cbn [run].
  - cbn. rewrite app_nil_r. reflexivity.
  - destruct (step st r) as [st' rows]. rewrite (IH st' (out ++ rows)), (IH st' ([] ++ rows)).
    cbn [fst snd app]. rewrite app_assoc. reflexivity.
Qed.

Lemma proj_cons_same i r t : proj i ((i, r) :: t) = r :: proj i t.
Proof. unfold proj. cbn [filter fst]. rewrite Nat.eqb_refl. reflexivity. Qed.
Lemma proj_cons_other i j r t : j <> i -> proj j ((i, r) :: t) = proj j t.
Proof. intro H. unfold proj. cbn [filter fst]. destruct (Nat.eqb_spec i j); [congruence|reflexivity]. Qed.

(* moving the rows of one task to the front *)
Lemma concat_one (g g1 : nat -> list row) rows i l :
  NoDup l -> In i l -> g i = rows ++ g1 i -> (forall j, j <> i -> g j = g1 j) ->
  Permutation (rows ++ concat (map g1 l)) (concat (map g l)).
Proof.
  intros ND Hin Hi Hj. induction l as [|x t IH]; [destruct Hin|].
  apply NoDup_cons_iff in ND. destruct ND as [Hx ND]. cbn [map concat].
  destruct (Nat.eq_dec x i) as [->|NE].
  - rewrite Hi. rewrite <- app_assoc. apply Permutation_app_head.
    apply Permutation_app_head.
    assert (map g1 t = map g t) as ->; [|apply Permutation_refl].
    apply map_ext_in. intros j Hjt. symmetry. apply Hj. intros ->. contradiction.
  - rewrite (Hj x NE). destruct Hin as [->|Hin]; [congruence|].
    eapply perm_trans; [|apply Permutation_app_head, (IH ND Hin)].
    rewrite !app_assoc. apply Permutation_app_tail, Permutation_app_comm.
Qed.

Lemma grun_spec ms : forall f out n, (forall p, In p ms -> (fst p < n)%nat) ->
  let '(f', out') := grun f out ms in
  (forall i, f' i = fst (run (f i) [] (proj i ms)))
  /\ Permutation out' (out ++ concat (map (fun i => snd (run (f i) [] (proj i ms))) (seq 0 n))).
Proof.
  induction ms as [|[i r] t IH]; intros f out n Hn; cbn [grun].
  - split; [reflexivity|].
    assert (concat (map (fun i => snd (run (f i) [] (proj i []))) (seq 0 n)) = []) as ->.
    { induction (seq 0 n) as [|x l IHl]; [reflexivity|]. cbn [map concat]. rewrite IHl. reflexivity. }
    rewrite app_nil_r. apply Permutation_refl.
  - destruct (step (f i) r) as [st' rows] eqn:E.
    assert (forall p, In p t -> (fst p < n)%nat) as Hn' by (intros p Hp; apply Hn; right; exact Hp).
    specialize (IH (upd_task i st' f) (out ++ rows) n Hn').
    destruct (grun (upd_task i st' f) (out ++ rows) t) as [f' out'] eqn:G. destruct IH as [IH1 IH2].
    assert (forall j, fst (run (f j) [] (proj j ((i, r) :: t))) = fst (run (upd_task i st' f j) [] (proj j t))
                      /\ snd (run (f j) [] (proj j ((i, r) :: t)))
                         = (if Nat.eqb j i then rows else []) ++ snd (run (upd_task i st' f j) [] (proj j t))) as Hstep.
    { intro j. unfold upd_task. destruct (Nat.eqb_spec j i) as [->|NE].
      - rewrite proj_cons_same. cbn [run]. rewrite E. rewrite run_out. cbn [fst snd app]. split; reflexivity.
      - rewrite proj_cons_other by exact NE. split; reflexivity. }
    split.
    + intro j. rewrite IH1. symmetry. apply Hstep.
    + eapply perm_trans; [exact IH2|]. rewrite <- app_assoc. apply Permutation_app_head.
      apply (concat_one _ _ rows i).
      * apply seq_NoDup.
      * apply in_seq. specialize (Hn (i, r) (or_introl eq_refl)). cbn in Hn. lia.
      * destruct (Hstep i) as [_ H2]. rewrite H2, Nat.eqb_refl. reflexivity.
      * intros j NE. destruct (Hstep j) as [_ H2]. rewrite H2.
        destruct (Nat.eqb_spec j i); [contradiction|reflexivity].
Qed.

Lemma concat_zip (a b : nat -> list row) l :
  Permutation (concat (map a l) ++ concat (map b l)) (concat (map (fun i => a i ++ b i) l)).
Proof.
  induction l as [|x t IH]; [constructor|]. cbn [map concat].
  rewrite <- !app_assoc. apply Permutation_app_head.
  eapply perm_trans; [|apply Permutation_app_head, IH].
  rewrite !app_assoc. apply Permutation_app_tail, Permutation_app_comm.
Qed.

Theorem merged_rows_perm max_stack n ms : (forall p, In p ms -> (fst p < n)%nat) ->
  Permutation (merged_rows max_stack n ms)
              (concat (map (fun i => task_rows max_stack (proj i ms)) (seq 0 n))).
Proof.
  intro Hn. unfold merged_rows.
  pose proof (grun_spec ms (fun _ => init_state max_stack) [] n Hn) as H.
  destruct (grun (fun _ => init_state max_stack) [] ms) as [f out]. destruct H as [H1 H2].
  cbn [app] in H2.
  eapply perm_trans; [apply Permutation_app_tail, H2|].
  eapply perm_trans; [apply concat_zip|].
  assert (forall i, snd (run (init_state max_stack) [] (proj i ms)) ++ remaining false (t_last (f i)) (t_live (f i))
                    = task_rows max_stack (proj i ms)) as E.
  { intro i. unfold task_rows, task_rows_gen. fold (init_state max_stack). rewrite H1. destruct (run (init_state max_stack) [] (proj i ms)). reflexivity. }
  rewrite (map_ext _ _ E). apply Permutation_refl.
Qed.

(* the report does not depend on how the tasks' records are interleaved *)
Theorem merge_irrelevant max_stack nms n ms : (forall p, In p ms -> (fst p < n)%nat) ->
  table_of_rows nms (merged_rows max_stack n ms)
  = report (mkcase max_stack nms (map (fun i => proj i ms) (seq 0 n))).
Proof.
  intro Hn. unfold report, report_gen, all_rows_gen. fold task_rows. cbn [c_names c_max c_tasks]. rewrite map_map.
  apply table_perm, merged_rows_perm, Hn.
Qed.

(* non-vacuity: two tasks interleaved record by record *)
Example ex_merge :
  let ms := [(0%nat, mkrec ENTRY 0 10 100); (1%nat, mkrec ENTRY 0 10 105); (0%nat, mkrec ENTRY 1 20 110);
             (1%nat, mkrec EXIT 0 10 150); (0%nat, mkrec EXIT 1 20 160); (0%nat, mkrec EXIT 0 10 200)] in
  table_of_rows [(10, 1); (20, 2)] (merged_rows 1024 2 ms)
  = report (mkcase 1024 [(10, 1); (20, 2)] [proj 0 ms; proj 1 ms])
  /\ map n_call (report (mkcase 1024 [(10, 1); (20, 2)] [proj 0 ms; proj 1 ms])) = [2; 1].
Proof. split; [apply (merge_irrelevant 1024 _ 2); cbn; intros p [<-|[<-|[<-|[<-|[<-|[<-|[]]]]]]]; cbn; lia|vm_compute; reflexivity]. Qed.
