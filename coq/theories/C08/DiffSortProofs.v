(* C08 - proofs, part 18: the rows of `report --diff OTHER` follow the requested key for every diff policy,
   sort column and key list: the order is a permutation of the paired rows in which no row stands before a row
   that is larger under the key list. *)
From Coq Require Import NArith ZArith List Bool Lia Sorting.Sorted Permutation.
Require Import ZifyBool ZifyN.
Import ListNotations.
Require Import UV.C08.Model UV.C08.DiffSort.
Local Open Scope Z_scope.

(* ------------------------------------------------------------------ insertion into a list ordered by a preorder *)
Section Generic.
  Context {A : Type} (cmp : A -> A -> comparison).
  Hypothesis cmp_antisym : forall a b, cmp b a = CompOpp (cmp a b).
  Hypothesis cmp_trans : forall a b c, cmp a b = Lt -> cmp b c = Lt -> cmp a c = Lt.
  Hypothesis cmp_eq_r : forall a b c, cmp b c = Eq -> cmp a b = cmp a c.

  Definition notlt (a b : A) : Prop := cmp a b <> Lt.

  Lemma insert_by_perm x l : Permutation (x :: l) (insert_by cmp x l).
  Proof.
    induction l as [|y t IH]; cbn [insert_by]; [apply Permutation_refl|].
    destruct (cmp y x); try apply Permutation_refl;
      (eapply perm_trans; [apply perm_swap|]; apply perm_skip, IH).
  Qed.

  Lemma insert_by_sorted x l : StronglySorted notlt l -> StronglySorted notlt (insert_by cmp x l).
  Proof.
    induction l as [|y t IH]; intro Hs; cbn [insert_by]; [repeat constructor|].
    apply StronglySorted_inv in Hs. destruct Hs as [Hs Hy].
    destruct (cmp y x) eqn:C.
    - constructor; [apply IH, Hs|]. apply (Permutation_Forall (insert_by_perm x t)).
      constructor; [unfold notlt; congruence|exact Hy].
    - (* y < x : x goes in front *)
      assert (cmp x y = Gt) as G by (rewrite cmp_antisym, C; reflexivity).
      constructor; [constructor; assumption|]. constructor; [unfold notlt; congruence|].
      rewrite Forall_forall in Hy |- *. intros z Hz. specialize (Hy z Hz). unfold notlt in *.
      intro L. destruct (cmp y z) eqn:Cyz; [| congruence |].
      + rewrite (cmp_eq_r x y z Cyz) in G. congruence.
      + (* y > z and x < z would give y < ... : z < y, x < z -> x < y *)
        assert (cmp z y = Lt) as Lzy by (rewrite cmp_antisym, Cyz; reflexivity).
        pose proof (cmp_trans x z y L Lzy). congruence.
    - constructor; [apply IH, Hs|]. apply (Permutation_Forall (insert_by_perm x t)).
      constructor; [unfold notlt; congruence|exact Hy].
  Qed.

  Theorem sort_by_sorted l : StronglySorted notlt (sort_by cmp l) /\ Permutation l (sort_by cmp l).
  Proof.
    unfold sort_by.
    assert (forall acc, StronglySorted notlt acc ->
              StronglySorted notlt (fold_left (fun a x => insert_by cmp x a) l acc)
              /\ Permutation (acc ++ l) (fold_left (fun a x => insert_by cmp x a) l acc)) as G.
    { induction l as [|x t IH]; intros acc Ha; cbn [fold_left].
      - rewrite app_nil_r. split; [exact Ha|apply Permutation_refl].
      - destruct (IH (insert_by cmp x acc) (insert_by_sorted x acc Ha)) as [I1 I2]. split; [exact I1|].
        eapply perm_trans; [|exact I2]. eapply perm_trans; [apply Permutation_sym, Permutation_middle|].
        change (x :: acc ++ t) with ((x :: acc) ++ t). apply Permutation_app_tail, insert_by_perm. }
    destruct (G [] (SSorted_nil _)) as [G1 G2]. split; assumption.
  Qed.

  Lemma sorted_by_of_sorted l : StronglySorted notlt l -> sorted_by cmp l = true.
  Proof.
    induction 1 as [|a t Hs IH Ha]; [reflexivity|]. destruct t as [|b t']; [reflexivity|].
    change (sorted_by cmp (a :: b :: t')) with ((match cmp a b with Lt => false | _ => true end) && sorted_by cmp (b :: t')).
    rewrite IH. inversion Ha as [|? ? Hab _]; subst. unfold notlt in Hab. destruct (cmp a b); try reflexivity. congruence.
  Qed.
End Generic.

(* ------------------------------------------------------------------ the comparator of the diff rows is a preorder *)
Lemma dval_den pol col k bp : 0 < snd (dval pol col k bp).
Proof.
  unfold dval. destruct col as [|[p|p|]]; cbn [snd]; try lia;
    destruct (dp_percent pol); cbn [snd]; try lia;
    destruct (Z.eqb_spec (Z.of_N (field k (fst bp))) 0); cbn [snd]; lia.
Qed.

Lemma cmpq_antisym x y : cmpq y x = CompOpp (cmpq x y).
Proof. unfold cmpq. apply Z.compare_antisym. Qed.
Lemma cmpq_trans x y z : 0 < snd x -> 0 < snd y -> 0 < snd z -> cmpq x y = Lt -> cmpq y z = Lt -> cmpq x z = Lt.
Proof.
  unfold cmpq. destruct x as [n1 d1], y as [n2 d2], z as [n3 d3]. cbn [fst snd]. rewrite !Z.compare_lt_iff. nia.
Qed.
Lemma cmpq_eq_r x y z : 0 < snd x -> 0 < snd y -> 0 < snd z -> cmpq y z = Eq -> cmpq x y = cmpq x z.
Proof.
  unfold cmpq. destruct x as [n1 d1], y as [n2 d2], z as [n3 d3]. cbn [fst snd]. intros H1 H2 H3 E.
  apply Z.compare_eq_iff in E.
  destruct (Z.compare_spec (n1 * d2) (n2 * d1)), (Z.compare_spec (n1 * d3) (n3 * d1)); try reflexivity; exfalso; nia.
Qed.

Lemma cmp_d1_antisym pol col k a b : cmp_d1 pol col k b a = CompOpp (cmp_d1 pol col k a b).
Proof. destruct k; cbn [cmp_d1]; try apply cmpq_antisym. apply N.compare_antisym. Qed.
Lemma cmp_d1_trans pol col k a b c : cmp_d1 pol col k a b = Lt -> cmp_d1 pol col k b c = Lt -> cmp_d1 pol col k a c = Lt.
Proof.
  destruct k; cbn [cmp_d1]; try (apply cmpq_trans; apply dval_den).
  rewrite !N.compare_lt_iff. lia.
Qed.
Lemma cmp_d1_eq_r pol col k a b c : cmp_d1 pol col k b c = Eq -> cmp_d1 pol col k a b = cmp_d1 pol col k a c.
Proof.
  destruct k; cbn [cmp_d1]; try (apply cmpq_eq_r; apply dval_den).
  rewrite N.compare_eq_iff. intros ->. reflexivity.
Qed.
Lemma cmp_d1_eq_l pol col k a b c : cmp_d1 pol col k a b = Eq -> cmp_d1 pol col k a c = cmp_d1 pol col k b c.
Proof.
  intro E. rewrite (cmp_d1_antisym pol col k c a), (cmp_d1_antisym pol col k c b). f_equal.
  apply cmp_d1_eq_r. exact E.
Qed.

Lemma cmp_d_antisym pol col ks a b : cmp_d pol col ks b a = CompOpp (cmp_d pol col ks a b).
Proof.
  induction ks as [|k t IH]; cbn [cmp_d]; [reflexivity|].
  rewrite (cmp_d1_antisym pol col k a b). destruct (cmp_d1 pol col k a b); cbn [CompOpp]; auto.
Qed.
Lemma cmp_d_eq_r pol col ks a b c : cmp_d pol col ks b c = Eq -> cmp_d pol col ks a b = cmp_d pol col ks a c.
Proof.
  induction ks as [|k t IH]; cbn [cmp_d]; [reflexivity|].
  destruct (cmp_d1 pol col k b c) eqn:E; try discriminate. intro H.
  rewrite (cmp_d1_eq_r pol col k a b c E). destruct (cmp_d1 pol col k a c); auto.
Qed.
Lemma cmp_d_eq_l pol col ks a b c : cmp_d pol col ks a b = Eq -> cmp_d pol col ks a c = cmp_d pol col ks b c.
Proof.
  induction ks as [|k t IH]; cbn [cmp_d]; [reflexivity|].
  destruct (cmp_d1 pol col k a b) eqn:E; try discriminate. intro H.
  rewrite (cmp_d1_eq_l pol col k a b c E). destruct (cmp_d1 pol col k b c); auto.
Qed.
Lemma cmp_d_trans pol col ks a b c : cmp_d pol col ks a b = Lt -> cmp_d pol col ks b c = Lt -> cmp_d pol col ks a c = Lt.
Proof.
  induction ks as [|k t IH]; cbn [cmp_d]; [discriminate|].
  destruct (cmp_d1 pol col k a b) eqn:E1; try discriminate; destruct (cmp_d1 pol col k b c) eqn:E2; try discriminate; intros H1 H2.
  - rewrite (cmp_d1_eq_l pol col k a b c E1), E2. auto.
  - rewrite (cmp_d1_eq_l pol col k a b c E1), E2. reflexivity.
  - rewrite <- (cmp_d1_eq_r pol col k a b c E2), E1. reflexivity.
  - rewrite (cmp_d1_trans pol col k a b c E1 E2). reflexivity.
Qed.

(* THE THEOREM: for every policy, sort column and key list the rows of the diff report are a permutation of the
   paired rows in which no row stands before a row that is larger under the key list; the run-time checker for the
   order accepts the model's order *)
Theorem diff_order_sorted pol col ks base pair :
  StronglySorted (notlt (cmp_d pol col ks)) (diff_order pol col ks base pair)
  /\ Permutation (diff_pairs base pair) (diff_order pol col ks base pair)
  /\ sorted_by (cmp_d pol col ks) (diff_order pol col ks base pair) = true.
Proof.
  unfold diff_order.
  destruct (sort_by_sorted (cmp_d pol col ks) (cmp_d_antisym pol col ks) (cmp_d_trans pol col ks)
                           (cmp_d_eq_r pol col ks) (diff_pairs base pair)) as [S P].
  split; [exact S|]. split; [exact P|]. apply sorted_by_of_sorted, S.
Qed.

(* ------------------------------------------------------------------ non-vacuity and the code before the fixes *)
Definition tn (nm tot : N) : node := mknode nm 1 (mkstat tot 0 tot tot tot) (mkstat tot 0 tot tot tot).
(* names: 1 alpha, 2 beta, 3 delta, 4 gamma, 5 main *)
Definition ex_base : list node := [tn 1 10000; tn 2 20000; tn 3 5000; tn 4 10000; tn 5 47400]%N.
Definition ex_pair : list node := [tn 1 18000; tn 2 4000; tn 3 5000; tn 4 7000; tn 5 36400]%N.
Definition names_of (l : list (node * node)) : list N := map (fun bp => n_name (fst bp)) l.

Example ex_diff_orders :
  names_of (diff_order (mkdp true false) 2 [K_total] ex_base ex_pair) = [2; 5; 1; 4; 3]%N          (* |-16|, |-11|, |+8|, |-3|, 0 us *)
  /\ names_of (diff_order (mkdp false false) 2 [K_total] ex_base ex_pair) = [1; 3; 4; 5; 2]%N      (* +8, 0, -3, -11, -16 us *)
  /\ names_of (diff_order (mkdp false true) 2 [K_total] ex_base ex_pair) = [1; 3; 5; 4; 2]%N       (* +80, 0, -23.2, -30, -80 % *)
  /\ names_of (diff_order (mkdp true false) 0 [K_total] ex_base ex_pair) = [5; 2; 1; 4; 3]%N       (* base figures *)
  /\ names_of (diff_order (mkdp true false) 1 [K_total] ex_base ex_pair) = [5; 1; 4; 3; 2]%N.      (* figures of the other data *)
Proof. vm_compute. repeat split; reflexivity. Qed.

(* fix 29f6519: --sort-column 1 was sorted by the base figures *)
Lemma diff_column1_legacy_refuted :
  names_of (sort_by (cmp_d_legacy (mkdp true false) 1 [K_total]) (diff_pairs ex_base ex_pair)) = [5; 2; 1; 4; 3]%N
  /\ names_of (diff_order (mkdp true false) 1 [K_total] ex_base ex_pair) = [5; 1; 4; 3; 2]%N.
Proof. vm_compute. split; reflexivity. Qed.

(* fix 434cc50: under the abs policy +80 % and -80 % compared as "less" in both directions: beta was placed
   before alpha although alpha was inserted first (and a second key was never consulted) *)
Lemma diff_abs_tie_legacy_refuted :
  let pol := mkdp true true in
  cmp_d_legacy pol 2 [K_total] (tn 1 10000, tn 1 18000) (tn 2 20000, tn 2 4000) = Lt
  /\ cmp_d_legacy pol 2 [K_total] (tn 2 20000, tn 2 4000) (tn 1 10000, tn 1 18000) = Lt
  /\ cmp_d pol 2 [K_total] (tn 1 10000, tn 1 18000) (tn 2 20000, tn 2 4000) = Eq
  /\ names_of (sort_by (cmp_d_legacy pol 2 [K_total]) (diff_pairs ex_base ex_pair)) = [2; 1; 4; 5; 3]%N
  /\ names_of (diff_order pol 2 [K_total] ex_base ex_pair) = [1; 2; 4; 5; 3]%N.
Proof. vm_compute. repeat split; reflexivity. Qed.
