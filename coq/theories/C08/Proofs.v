(* C08 - proofs about the model of `uftrace report` (Model.v).
   Part 1: the per-task accumulation automaton equals a recursion on the call tree
           (unconditionally, in the code's wrapping arithmetic, clamp included);
           under well-timedness the recursion is the plain-arithmetic specification
           (total = t1 - t0, self = total - sum of the callees), and the self times telescope. *)
From Coq Require Import NArith ZArith List Bool Lia.
Require Import ZifyBool ZifyN.
Import ListNotations.
Require Import UV.C08.Model.
Local Open Scope N_scope.
Ltac Zify.zify_post_hook ::= Z.div_mod_to_equations.

(* ------------------------------------------------------------------ uint64 arithmetic *)
Lemma M64_val : M64 = 18446744073709551616. Proof. reflexivity. Qed.
Global Opaque M64.

Lemma add64_small a b : a + b < M64 -> add64 a b = a + b.
Proof. intro H. unfold add64. apply N.mod_small, H. Qed.
Lemma add64_0_r a : a < M64 -> add64 a 0 = a.
Proof. intro H. rewrite add64_small; lia. Qed.
Lemma add64_0_l a : a < M64 -> add64 0 a = a.
Proof. intro H. rewrite add64_small; lia. Qed.
Lemma add64_lt a b : add64 a b < M64.
Proof. unfold add64. apply N.mod_lt. rewrite M64_val. discriminate. Qed.
Lemma add64_comm a b : add64 a b = add64 b a.
Proof. unfold add64. f_equal. lia. Qed.
Lemma add64_assoc a b c : add64 (add64 a b) c = add64 a (add64 b c).
Proof.
  unfold add64. assert (M64 <> 0) by (rewrite M64_val; discriminate).
  rewrite N.add_mod_idemp_l, N.add_mod_idemp_r by assumption. f_equal. lia.
Qed.
Lemma add64_mod_l a b : add64 (a mod M64) b = add64 a b.
Proof. unfold add64. apply N.add_mod_idemp_l. rewrite M64_val. discriminate. Qed.
Lemma sub64_le a b : b <= a -> a < M64 -> sub64 a b = a - b.
Proof.
  intros H1 H2. unfold sub64. assert (M64 <> 0) by (rewrite M64_val; discriminate).
  rewrite (N.mod_small b) by lia.
  replace (a + (M64 - b)) with ((a - b) + 1 * M64) by lia.
  rewrite N.mod_add by assumption. apply N.mod_small. lia.
Qed.
Lemma sub64_lt a b : sub64 a b < M64.
Proof. unfold sub64. apply N.mod_lt. rewrite M64_val. discriminate. Qed.

(* ------------------------------------------------------------------ induction on call trees *)
Section call_ind.
  Variable P : call -> Prop.
  Hypothesis H : forall e a t0 t1 kids, Forall P kids -> P (CallX e a t0 t1 kids).
  Fixpoint call_ind' (c : call) : P c :=
    match c with
    | CallX e a t0 t1 kids =>
        H e a t0 t1 kids ((fix go (l : list call) : Forall P l :=
                           match l with [] => Forall_nil _ | x :: t => Forall_cons _ (call_ind' x) (go t) end) kids)
    end.
End call_ind.

Definition c_t0 (c : call) := match c with CallX _ _ t0 _ _ => t0 end.
Definition c_t1 (c : call) := match c with CallX _ _ _ t1 _ => t1 end.
Definition c_addr (c : call) := match c with CallX _ a _ _ _ => a end.
Definition c_kids (c : call) := match c with CallX _ _ _ _ k => k end.

Fixpoint height (c : call) : nat :=
  match c with CallX _ _ _ _ kids => S (fold_right (fun k m => Nat.max (height k) m) 0%nat kids) end.
Definition heights (l : list call) : nat := fold_right (fun k m => Nat.max (height k) m) 0%nat l.

(* ------------------------------------------------------------------ the tree recursion in the code's arithmetic *)
Definition dur64 (c : call) : N := sub64 (c_t1 c) (c_t0 c).
Definition child64 (kids : list call) (ch : N) : N := fold_left (fun s k => add64 s (dur64 k)) kids ch.
Fixpoint rows64 (anc : list N) (c : call) : list row :=
  match c with
  | CallX e a t0 t1 kids =>
      concat (map (rows64 (e :: anc)) kids)
      ++ [let delta := sub64 t1 t0 in
          let ch := child64 kids 0 in
          let child := if delta <? ch then delta else ch in
          mkrow a delta (sub64 delta child) (recursive e anc)]
  end.

Lemma run_app st out l1 l2 :
  run st out (l1 ++ l2) = let '(st', out') := run st out l1 in run st' out' l2.
Proof.
  revert st out. induction l1 as [|r t IH]; intros st out; cbn [app run].
  - reflexivity.
  - destruct (step st r) as [st' rows]. apply IH.
Qed.

(* the recursion test of the code as it is now: slots whose addr is 0 (frames never entered) do not count *)
Lemma has_addr_map a stk : has_addr false a stk = recursive a (map s_addr stk).
Proof.
  unfold recursive. induction stk as [|s t IH]; [cbn; rewrite andb_false_r; reflexivity|].
  change (has_addr false a (s :: t)) with ((negb (s_addr s =? 0) && (s_addr s =? a)) || has_addr false a t).
  rewrite IH. cbn [map existsb]. rewrite (N.eqb_sym a (s_addr s)).
  destruct (N.eqb_spec (s_addr s) a) as [->|NE]; destruct (a =? 0) eqn:E0; cbn; try reflexivity.
  - destruct (s_addr s =? 0); reflexivity.
  - destruct (s_addr s =? 0); reflexivity.
Qed.
(* before the fix every slot counted *)
Lemma has_addr_legacy a stk : has_addr true a stk = existsb (N.eqb a) (map s_addr stk).
Proof.
  induction stk as [|s t IH]; [reflexivity|].
  change (has_addr true a (s :: t)) with ((s_addr s =? a) || has_addr true a t).
  rewrite IH. cbn [map existsb]. rewrite N.eqb_sym. reflexivity.
Qed.

(* the state of a task in the middle of a LOST-free trace *)
Definition mid (stk dead : list slot) (usc last lastx : N) : tstate := mkts true false stk dead 0 usc last lastx false.

Lemma step_entry stk s dd usc l lx d a t :
  step (mid stk (s :: dd) usc l lx) (mkrec ENTRY d a t) = (mid (mkslot a t 0 true :: stk) dd (usc + 1) t t, []).
Proof. reflexivity. Qed.

Lemma step_exit a0 t0 ch rest dead usc l lx d a t :
  step (mid (mkslot a0 t0 ch true :: rest) dead usc l lx) (mkrec EXIT d a t) =
  (let delta := sub64 t t0 in
   let child := if delta <? ch then delta else ch in
   (mid (bump rest delta) (mkslot a0 delta child false :: dead) (usc - 1) t t,
    [mkrow a delta (sub64 delta child) (has_addr false a0 rest)])).
Proof. reflexivity. Qed.

Definition bump_top (top : slot) (d : N) : slot := mkslot (s_addr top) (s_total top) (add64 (s_child top) d) (s_valid top).
Lemma bump_cons top stk d : bump (top :: stk) d = bump_top top d :: stk.
Proof. reflexivity. Qed.

(* a sequence of complete calls below an open frame [top]: each adds its duration to top's child time *)
Lemma run_kids_gen kids :
  Forall (fun c => forall d stk dead usc l lx out, (height c <= length dead)%nat ->
            exists dead', length dead' = length dead /\
              run (mid stk dead usc l lx) out (flat d c)
              = (mid (bump stk (dur64 c)) dead' usc (c_t1 c) (c_t1 c), out ++ rows64 (map s_addr stk) c)) kids ->
  forall d a t0 ch stk dead usc l lx out, (heights kids <= length dead)%nat ->
    exists dead' l' lx', length dead' = length dead /\
      run (mid (mkslot a t0 ch true :: stk) dead usc l lx) out (concat (map (flat d) kids))
      = (mid (mkslot a t0 (child64 kids ch) true :: stk) dead' usc l' lx',
         out ++ concat (map (rows64 (a :: map s_addr stk)) kids)).
Proof.
  induction 1 as [|k t Hk _ IH]; intros d a t0 ch stk dead usc l lx out Hh.
  - exists dead, l, lx. cbn. rewrite app_nil_r. auto.
  - cbn [map concat]. rewrite run_app.
    cbn [heights fold_right] in Hh.
    destruct (Hk d (mkslot a t0 ch true :: stk) dead usc l lx out) as (dead1 & Hl1 & E1); [lia|].
    rewrite E1. cbn [bump s_addr s_total s_child s_valid].
    destruct (IH d a t0 (add64 ch (dur64 k)) stk dead1 usc (c_t1 k) (c_t1 k)
                 (out ++ rows64 (map s_addr (mkslot a t0 ch true :: stk)) k)) as (dead2 & l2 & lx2 & Hl2 & E2).
    { fold (heights t) in Hh. lia. }
    exists dead2, l2, lx2. split; [congruence|].
    rewrite E2. cbn [child64 fold_left map s_addr]. rewrite <- app_assoc. reflexivity.
Qed.

(* THE SIMULATION: a complete call, run from any LOST-free state with enough free stack slots, adds
   its duration to the parent's child time and appends exactly the rows of its tree. *)
Theorem run_call : forall c d stk dead usc l lx out, (height c <= length dead)%nat ->
  exists dead', length dead' = length dead /\
    run (mid stk dead usc l lx) out (flat d c)
    = (mid (bump stk (dur64 c)) dead' usc (c_t1 c) (c_t1 c), out ++ rows64 (map s_addr stk) c).
Proof.
  induction c as [e a t0 t1 kids IH] using call_ind'. intros d stk dead usc l lx out Hh.
  cbn [height] in Hh. fold (heights kids) in Hh.
  destruct dead as [|s dd]; [cbn in Hh; lia|]. cbn [length] in Hh.
  cbn [flat]. cbn [run]. rewrite step_entry. rewrite app_nil_r.
  rewrite run_app.
  destruct (run_kids_gen kids IH (d + 1) e t0 0 stk dd (usc + 1) t0 t0 out) as (dd' & l' & lx' & Hl & E); [lia|].
  rewrite E. cbn [run]. rewrite step_exit. cbn zeta.
  exists (mkslot e (sub64 t1 t0) (if sub64 t1 t0 <? child64 kids 0 then sub64 t1 t0 else child64 kids 0) false :: dd').
  split; [cbn [length]; congruence|].
  cbn [rows64 c_t1 dur64 c_t0]. rewrite has_addr_map, N.add_sub, <- app_assoc. reflexivity.
Qed.

Corollary run_forest : forall cs d a t0 ch stk dead usc l lx out, (heights cs <= length dead)%nat ->
  exists dead' l' lx', length dead' = length dead /\
    run (mid (mkslot a t0 ch true :: stk) dead usc l lx) out (concat (map (flat d) cs))
    = (mid (mkslot a t0 (child64 cs ch) true :: stk) dead' usc l' lx',
       out ++ concat (map (rows64 (a :: map s_addr stk)) cs)).
Proof.
  intros cs. apply run_kids_gen. apply Forall_forall. intros c _. apply run_call.
Qed.

(* top-level calls of a task (empty stack) *)
Lemma run_top : forall cs dead usc l lx out, (heights cs <= length dead)%nat ->
  exists dead' l' lx', length dead' = length dead /\
    run (mid [] dead usc l lx) out (concat (map (flat 0) cs))
    = (mid [] dead' usc l' lx', out ++ concat (map (rows64 []) cs))
    /\ (cs <> [] -> l' = c_t1 (last cs (Call 0 0 0 []))).
Proof.
  induction cs as [|c t IH]; intros dead usc l lx out Hh.
  - exists dead, l, lx. cbn. rewrite app_nil_r. repeat split; auto. congruence.
  - cbn [map concat]. rewrite run_app. cbn [heights fold_right] in Hh. fold (heights t) in Hh.
    destruct (run_call c 0 [] dead usc l lx out) as (dead1 & Hl1 & E1); [lia|].
    rewrite E1. cbn [bump map].
    destruct (IH dead1 usc (c_t1 c) (c_t1 c) (out ++ rows64 [] c)) as (dead2 & l2 & lx2 & Hl2 & E2 & Hlast); [lia|].
    exists dead2, l2, lx2. split; [congruence|]. rewrite E2, <- app_assoc. split; [reflexivity|].
    intros _. destruct t as [|c' t']; [|apply Hlast; discriminate].
    cbn in E2. inversion E2. reflexivity.
Qed.

(* ------------------------------------------------------------------ well-timed trees: plain arithmetic *)
Fixpoint chain (lo : N) (l : list call) (hi : N) : Prop :=
  match l with
  | [] => lo <= hi
  | k :: r => lo <= c_t0 k /\ chain (c_t1 k) r hi
  end.
Inductive wt : call -> Prop :=
| wt_call e a t0 t1 kids : t0 <= t1 -> t1 < M64 -> Forall wt kids -> chain t0 kids t1 -> wt (CallX e a t0 t1 kids).

Lemma wt_inv e a t0 t1 kids : wt (CallX e a t0 t1 kids) -> t0 <= t1 /\ t1 < M64 /\ Forall wt kids /\ chain t0 kids t1.
Proof. inversion 1; auto. Qed.

Lemma wt_le c : wt c -> c_t0 c <= c_t1 c /\ c_t1 c < M64.
Proof. destruct c. intro H. apply wt_inv in H. cbn. tauto. Qed.
Lemma dur64_wt c : wt c -> dur64 c = dur c.
Proof. intro H. destruct (wt_le c H). destruct c. cbn in *. unfold dur64. cbn. apply sub64_le; lia. Qed.

Lemma chain_sumdur kids : Forall wt kids -> forall lo hi, chain lo kids hi -> lo <= hi /\ sumdur kids <= hi - lo.
Proof.
  induction 1 as [|k r Hk _ IH]; intros lo hi Hc; cbn in Hc |- *.
  - lia.
  - destruct Hc as [H1 H2]. destruct (IH _ _ H2) as [H3 H4].
    destruct (wt_le k Hk). destruct k as [a t0 t1 ks]. unfold sumdur in *. cbn in *. lia.
Qed.

Lemma child64_wt kids : Forall wt kids -> forall ch, ch + sumdur kids < M64 -> child64 kids ch = ch + sumdur kids.
Proof.
  induction 1 as [|k r Hk _ IH]; intros ch Hb; unfold sumdur in *; cbn in *.
  - lia.
  - rewrite (dur64_wt k Hk). rewrite add64_small by lia. rewrite IH by lia. lia.
Qed.

(* under well-timedness the code's rows are the specification's rows: no wrap, no clamp *)
Theorem rows64_spec : forall c anc, wt c -> rows64 anc c = spec_rows anc c.
Proof.
  induction c as [e a t0 t1 kids IH] using call_ind'. intros anc H.
  apply wt_inv in H. destruct H as (H1 & H2 & H3 & H4).
  cbn [rows64 spec_rows]. f_equal.
  - f_equal. apply map_ext_in. intros k Hk.
    rewrite Forall_forall in IH, H3. apply IH; auto.
  - destruct (chain_sumdur kids H3 _ _ H4) as [_ Hs].
    rewrite child64_wt by (auto; lia). rewrite N.add_0_l.
    rewrite sub64_le by lia.
    replace (t1 - t0 <? sumdur kids) with false by lia.
    rewrite sub64_le by lia. reflexivity.
Qed.

(* ------------------------------------------------------------------ conservation of self time *)
Definition sum_self (l : list row) : N := fold_right (fun w s => w_self w + s) 0 l.
Lemma sum_self_app l1 l2 : sum_self (l1 ++ l2) = sum_self l1 + sum_self l2.
Proof. unfold sum_self. induction l1 as [|w t IH]; cbn; [reflexivity|]. rewrite IH. lia. Qed.

Theorem conservation : forall c anc, wt c -> sum_self (spec_rows anc c) = dur c.
Proof.
  induction c as [e a t0 t1 kids IH] using call_ind'. intros anc H.
  apply wt_inv in H. destruct H as (H1 & H2 & H3 & H4).
  cbn [spec_rows dur]. rewrite sum_self_app.
  assert (forall anc', sum_self (concat (map (spec_rows anc') kids)) = sumdur kids) as ->.
  { intro anc'. clear H4. induction IH as [|k t Hk _ IHk]; cbn; [reflexivity|].
    inversion H3; subst. rewrite sum_self_app, Hk, IHk by assumption. reflexivity. }
  destruct (chain_sumdur kids H3 _ _ H4) as [_ Hs]. cbn. lia.
Qed.

Lemma conservation_forest cs anc : Forall wt cs -> sum_self (concat (map (spec_rows anc) cs)) = sumdur cs.
Proof.
  induction 1 as [|c t Hc _ IH]; cbn; [reflexivity|].
  rewrite sum_self_app, conservation, IH by assumption. reflexivity.
Qed.

(* ================================================================== Part 2: the node table *)
From Coq Require Import Sorting.Sorted Permutation.

Definition names_sorted (tbl : list node) : Prop := StronglySorted N.lt (map n_name tbl).

Lemma find_node_above tbl nm : Forall (fun n => nm < n_name n) tbl -> find_node tbl nm = None.
Proof.
  induction 1 as [|n t Hn _ IH]; cbn; [reflexivity|].
  replace (n_name n =? nm) with false by lia. exact IH.
Qed.

Lemma update_node_name n tot slf rc : n_name (update_node n tot slf rc) = n_name n.
Proof. reflexivity. Qed.

Definition node_or_new (o : option node) (nm : N) : node := match o with Some n => n | None => new_node nm end.

Lemma tbl_update_spec tbl nm tot slf rc :
  names_sorted tbl ->
  names_sorted (tbl_update tbl nm tot slf rc)
  /\ (forall lo, lo < nm -> Forall (fun n => lo < n_name n) tbl ->
                 Forall (fun n => lo < n_name n) (tbl_update tbl nm tot slf rc))
  /\ (forall nm', find_node (tbl_update tbl nm tot slf rc) nm'
                  = if nm' =? nm then Some (update_node (node_or_new (find_node tbl nm) nm) tot slf rc)
                    else find_node tbl nm').
Proof.
  unfold names_sorted. induction tbl as [|n t IH]; intro Hs.
  - cbn. repeat split.
    + repeat constructor.
    + intros lo Hlo _. repeat constructor. exact Hlo.
    + intros nm'. rewrite N.eqb_sym. destruct (nm' =? nm); reflexivity.
  - cbn [map] in Hs. apply StronglySorted_inv in Hs. destruct Hs as [Hs Hall].
    cbn [tbl_update]. destruct (N.compare_spec nm (n_name n)) as [E|L|G].
    + (* same name: update in place *)
      repeat split.
      * cbn [map]. rewrite update_node_name. constructor; assumption.
      * intros lo Hlo Hf. inversion Hf; subst. constructor; [rewrite update_node_name; assumption|assumption].
      * intros nm'. cbn [find_node]. rewrite update_node_name. subst nm.
        rewrite (N.eqb_sym nm'). rewrite N.eqb_refl. cbn [node_or_new].
        destruct (n_name n =? nm'); reflexivity.
    + (* new node in front *)
      repeat split.
      * cbn [map]. rewrite update_node_name. cbn [new_node n_name]. constructor.
        -- constructor; assumption.
        -- constructor; [exact L|]. rewrite Forall_forall in Hall |- *. intros x Hx. specialize (Hall x Hx). lia.
      * intros lo Hlo Hf. constructor; [cbn; exact Hlo|exact Hf].
      * intros nm'. cbn [find_node]. rewrite update_node_name. cbn [new_node n_name].
        replace (n_name n =? nm) with false by lia.
        rewrite (find_node_above t nm).
        2:{ rewrite Forall_forall in Hall |- *. intros x Hx.
            assert (In (n_name x) (map n_name t)) as Hi by (apply in_map; exact Hx).
            specialize (Hall _ Hi). lia. }
        cbn [node_or_new]. rewrite (N.eqb_sym nm'). destruct (nm =? nm'); reflexivity.
    + (* further down *)
      destruct (IH Hs) as (IH1 & IH2 & IH3). repeat split.
      * cbn [map]. constructor; [exact IH1|].
        assert (Forall (fun x => n_name n < n_name x) (tbl_update t nm tot slf rc)) as Hf.
        { apply IH2; [exact G|]. rewrite Forall_forall in Hall |- *. intros x Hx. apply Hall, in_map, Hx. }
        rewrite Forall_forall in Hf |- *. intros x Hx. apply in_map_iff in Hx. destruct Hx as (y & <- & Hy). auto.
      * intros lo Hlo Hf. inversion Hf; subst. constructor; [assumption|]. apply IH2; assumption.
      * intros nm'. cbn [find_node]. rewrite IH3.
        replace (n_name n =? nm) with false by lia.
        destruct (N.eqb_spec (n_name n) nm') as [E|NE]; [|reflexivity].
        replace (nm' =? nm) with false by lia. reflexivity.
Qed.

(* what happens to the node of one name when one more row is counted *)
Definition acc (nms : names) (nm : N) (o : option node) (w : row) : option node :=
  if name_of nms (w_addr w) =? nm
  then Some (update_node (node_or_new o nm) (w_total w) (w_self w) (w_rec w))
  else o.

(* each function has exactly one node; it is the accumulation of the rows bearing its name *)
Theorem table_lookup nms rows : forall tbl, names_sorted tbl ->
  names_sorted (fold_left (tbl_add nms) rows tbl)
  /\ forall nm, find_node (fold_left (tbl_add nms) rows tbl) nm = fold_left (acc nms nm) rows (find_node tbl nm).
Proof.
  induction rows as [|w t IH]; intros tbl Hs; cbn [fold_left].
  - split; [exact Hs|reflexivity].
  - unfold tbl_add at 2 4.
    destruct (tbl_update_spec tbl (name_of nms (w_addr w)) (w_total w) (w_self w) (w_rec w) Hs) as (H1 & _ & H3).
    destruct (IH _ H1) as [I1 I2]. split; [exact I1|].
    intros nm. rewrite I2. f_equal. rewrite H3. unfold acc.
    rewrite (N.eqb_sym nm). destruct (N.eqb_spec (name_of nms (w_addr w)) nm) as [->|]; reflexivity.
Qed.

(* closed form of the accumulation for one name *)
Definition mine (nms : names) (nm : N) (rows : list row) : list row :=
  filter (fun w => name_of nms (w_addr w) =? nm) rows.
Definition upd_row (n : node) (w : row) : node := update_node n (w_total w) (w_self w) (w_rec w).

Lemma acc_mine nms nm rows : forall o,
  fold_left (acc nms nm) rows o =
  match mine nms nm rows with
  | [] => o
  | l => Some (fold_left upd_row l (node_or_new o nm))
  end.
Proof.
  induction rows as [|w t IH]; intro o; [reflexivity|].
  cbn [fold_left]. rewrite IH. unfold mine. cbn [filter]. fold (mine nms nm t). unfold acc.
  destruct (name_of nms (w_addr w) =? nm).
  - cbn [node_or_new]. destruct (mine nms nm t); reflexivity.
  - reflexivity.
Qed.

(* field-wise closed forms of fold_left upd_row *)
Lemma fold_upd_name l : forall n, n_name (fold_left upd_row l n) = n_name n.
Proof. induction l as [|w t IH]; intro n; cbn; [reflexivity|]. rewrite IH. reflexivity. Qed.
Lemma fold_upd_call l : forall n, n_call (fold_left upd_row l n) = n_call n + N.of_nat (length l).
Proof. induction l as [|w t IH]; intro n; cbn [fold_left length]; [lia|]. rewrite IH. cbn. lia. Qed.

Definition sum_step (a : N) (p : N * bool) : N := if snd p then a else add64 a (fst p).
Definition rec_step (a : N) (p : N * bool) : N := if snd p then add64 a (fst p) else a.
Definition min_step (m v : N) : N := if v <? m then v else m.
Definition max_step (m v : N) : N := if m <? v then v else m.

Lemma fold_upd_total l : forall n,
  let ps := map (fun w => (w_total w, w_rec w)) l in
  sum (n_total (fold_left upd_row l n)) = fold_left sum_step ps (sum (n_total n))
  /\ recs (n_total (fold_left upd_row l n)) = fold_left rec_step ps (recs (n_total n))
  /\ smin (n_total (fold_left upd_row l n)) = fold_left min_step (map w_total l) (smin (n_total n))
  /\ smax (n_total (fold_left upd_row l n)) = fold_left max_step (map w_total l) (smax (n_total n)).
Proof.
  induction l as [|w t IH]; intro n; cbn [fold_left map]; [auto|].
  destruct (IH (upd_row n w)) as (A & B & C & D). cbn zeta in *. rewrite A, B, C, D.
  repeat split; reflexivity.
Qed.
Lemma fold_upd_self l : forall n,
  sum (n_self (fold_left upd_row l n)) = fold_left add64 (map w_self l) (sum (n_self n))
  /\ recs (n_self (fold_left upd_row l n)) = recs (n_self n)
  /\ smin (n_self (fold_left upd_row l n)) = fold_left min_step (map w_self l) (smin (n_self n))
  /\ smax (n_self (fold_left upd_row l n)) = fold_left max_step (map w_self l) (smax (n_self n)).
Proof.
  induction l as [|w t IH]; intro n; cbn [fold_left map]; [auto|].
  destruct (IH (upd_row n w)) as (A & B & C & D). rewrite A, B, C, D.
  repeat split; reflexivity.
Qed.

(* plain sums, minima and maxima *)
Lemma fold_add64 l : forall a, a + sumN l < M64 -> fold_left add64 l a = a + sumN l.
Proof.
  unfold sumN. induction l as [|v t IH]; intros a H; cbn in *; [lia|].
  rewrite add64_small by lia. rewrite IH by lia. lia.
Qed.
Definition nonrec (ps : list (N * bool)) : list N := map fst (filter (fun p => negb (snd p)) ps).
Definition isrec (ps : list (N * bool)) : list N := map fst (filter (fun p => snd p) ps).
Lemma fold_sum_step ps : forall a, a + sumN (nonrec ps) < M64 -> fold_left sum_step ps a = a + sumN (nonrec ps).
Proof.
  unfold sumN, nonrec. induction ps as [|[v b] t IH]; intros a H; cbn [fold_left]; [cbn; lia|].
  unfold sum_step at 2. cbn [fst snd]. cbn [filter snd negb] in H |- *.
  destruct b; cbn [negb map fst fold_right] in H |- *.
  - apply IH. exact H.
  - rewrite add64_small by lia. rewrite IH by lia. lia.
Qed.
Lemma fold_rec_step ps : forall a, a + sumN (isrec ps) < M64 -> fold_left rec_step ps a = a + sumN (isrec ps).
Proof.
  unfold sumN, isrec. induction ps as [|[v b] t IH]; intros a H; cbn [fold_left]; [cbn; lia|].
  unfold rec_step at 2. cbn [fst snd]. cbn [filter snd] in H |- *.
  destruct b; cbn [map fst fold_right] in H |- *.
  - rewrite add64_small by lia. rewrite IH by lia. lia.
  - apply IH. exact H.
Qed.
Lemma fold_min_step l : forall m, fold_left min_step l m = fold_right N.min m l.
Proof.
  induction l as [|v t IH]; intro m; cbn [fold_left fold_right]; [reflexivity|].
  rewrite IH. unfold min_step. clear IH.
  revert m. induction t as [|x t IHt]; intro m; cbn [fold_right].
  - destruct (N.ltb_spec v m); lia.
  - rewrite IHt. lia.
Qed.
Lemma fold_max_step l : forall m, fold_left max_step l m = fold_right N.max m l.
Proof.
  induction l as [|v t IH]; intro m; cbn [fold_left fold_right]; [reflexivity|].
  rewrite IH. unfold max_step. clear IH.
  revert m. induction t as [|x t IHt]; intro m; cbn [fold_right].
  - destruct (N.ltb_spec m v); lia.
  - rewrite IHt. lia.
Qed.

(* ================================================================== Part 3: sorting *)
Ltac cmp3 :=
  repeat match goal with
         | |- context [?a ?= ?b] => destruct (N.compare_spec a b)
         | H : context [?a ?= ?b] |- _ => destruct (N.compare_spec a b)
         end; try congruence; try lia.

Lemma cmp1_antisym k a b : cmp1 k b a = CompOpp (cmp1 k a b).
Proof. destruct k; cbn [cmp1]; apply N.compare_antisym. Qed.
Lemma cmp1_trans k a b c : cmp1 k a b = Lt -> cmp1 k b c = Lt -> cmp1 k a c = Lt.
Proof. destruct k; cbn [cmp1]; rewrite !N.compare_lt_iff; lia. Qed.
Lemma cmp1_eq_l k a b c : cmp1 k a b = Eq -> cmp1 k a c = cmp1 k b c.
Proof. destruct k; cbn [cmp1]; rewrite N.compare_eq_iff; intros ->; reflexivity. Qed.
Lemma cmp1_eq_r k a b c : cmp1 k b c = Eq -> cmp1 k a b = cmp1 k a c.
Proof. destruct k; cbn [cmp1]; rewrite N.compare_eq_iff; intros ->; reflexivity. Qed.

Lemma cmp_antisym ks a b : cmp_node ks b a = CompOpp (cmp_node ks a b).
Proof.
  induction ks as [|k t IH]; cbn [cmp_node]; [reflexivity|].
  rewrite (cmp1_antisym k a b). destruct (cmp1 k a b); cbn [CompOpp]; auto.
Qed.
Lemma cmp_eq_l ks a b c : cmp_node ks a b = Eq -> cmp_node ks a c = cmp_node ks b c.
Proof.
  induction ks as [|k t IH]; cbn [cmp_node]; [reflexivity|].
  destruct (cmp1 k a b) eqn:E; try discriminate. intro H.
  rewrite (cmp1_eq_l k a b c E). destruct (cmp1 k b c); auto.
Qed.
Lemma cmp_eq_r ks a b c : cmp_node ks b c = Eq -> cmp_node ks a b = cmp_node ks a c.
Proof.
  induction ks as [|k t IH]; cbn [cmp_node]; [reflexivity|].
  destruct (cmp1 k b c) eqn:E; try discriminate. intro H.
  rewrite (cmp1_eq_r k a b c E). destruct (cmp1 k a c); auto.
Qed.
Lemma cmp_trans ks a b c : cmp_node ks a b = Lt -> cmp_node ks b c = Lt -> cmp_node ks a c = Lt.
Proof.
  induction ks as [|k t IH]; cbn [cmp_node]; [discriminate|].
  destruct (cmp1 k a b) eqn:E1; try discriminate; destruct (cmp1 k b c) eqn:E2; try discriminate; intros H1 H2.
  - rewrite (cmp1_eq_l k a b c E1), E2. auto.
  - rewrite (cmp1_eq_l k a b c E1), E2. reflexivity.
  - rewrite <- (cmp1_eq_r k a b c E2), E1. reflexivity.
  - rewrite (cmp1_trans k a b c E1 E2). reflexivity.
Qed.

(* the order of printed rows: [a] may stand before [b] *)
Definition before (ks : list key) (a b : node) : Prop :=
  lt_node ks a b = false /\ (cmp_node ks a b = Eq -> n_name a < n_name b).

Lemma lt_node_Lt ks a b : lt_node ks a b = true <-> cmp_node ks a b = Lt.
Proof. unfold lt_node. destruct (cmp_node ks a b); split; congruence. Qed.

Lemma insert_perm ks n l : Permutation (n :: l) (insert_sorted ks n l).
Proof.
  induction l as [|x t IH]; cbn [insert_sorted]; [apply Permutation_refl|].
  destruct (lt_node ks x n); [apply Permutation_refl|].
  eapply perm_trans; [apply perm_swap|]. apply perm_skip, IH.
Qed.

Lemma insert_before ks n l :
  StronglySorted (before ks) l -> Forall (fun x => n_name x < n_name n) l ->
  StronglySorted (before ks) (insert_sorted ks n l).
Proof.
  induction l as [|x t IH]; intros Hs Hn; cbn [insert_sorted].
  - repeat constructor.
  - apply StronglySorted_inv in Hs. destruct Hs as [Hs Hx]. inversion Hn as [|? ? Hxn Htn]; subst.
    destruct (lt_node ks x n) eqn:L.
    + (* n goes in front of x: x < n *)
      apply lt_node_Lt in L.
      assert (cmp_node ks n x = Gt) as G by (rewrite cmp_antisym, L; reflexivity).
      constructor; [constructor; assumption|]. constructor.
      * unfold before, lt_node. rewrite G. split; [reflexivity|discriminate].
      * rewrite Forall_forall in Hx |- *. intros y Hy. destruct (Hx y Hy) as [Hxy _].
        (* x >= y and x < n, so n > y *)
        destruct (cmp_node ks n y) eqn:C.
        -- exfalso. rewrite (cmp_eq_r ks x n y C) in L. apply lt_node_Lt in L. congruence.
        -- exfalso. pose proof (cmp_trans ks x n y L C) as T. apply lt_node_Lt in T. congruence.
        -- unfold before, lt_node. rewrite C. split; [reflexivity|discriminate].
    + constructor; [apply IH; assumption|].
      apply (Permutation_Forall (insert_perm ks n t)). constructor; [|exact Hx].
      split; [exact L|]. intros _. exact Hxn.
Qed.

(* report_sort_nodes: the rows are a permutation of the table, no row stands before a row that is
   larger under the key list (descending order), rows equal under all keys keep the name order *)
Theorem sort_nodes_sorted ks tbl : names_sorted tbl ->
  StronglySorted (before ks) (sort_nodes ks tbl) /\ Permutation tbl (sort_nodes ks tbl).
Proof.
  unfold sort_nodes, names_sorted.
  assert (forall acc, StronglySorted (before ks) acc ->
                      Forall (fun x => Forall (fun y => n_name x < n_name y) tbl) acc ->
                      StronglySorted N.lt (map n_name tbl) ->
                      StronglySorted (before ks) (fold_left (fun a n => insert_sorted ks n a) tbl acc)
                      /\ Permutation (acc ++ tbl) (fold_left (fun a n => insert_sorted ks n a) tbl acc)) as G.
  { induction tbl as [|n t IH]; intros acc Ha Hlt Hs; cbn [fold_left].
    - rewrite app_nil_r. split; [exact Ha|apply Permutation_refl].
    - cbn [map] in Hs. apply StronglySorted_inv in Hs. destruct Hs as [Hs Hn].
      destruct (IH (insert_sorted ks n acc)) as [I1 I2].
      + apply insert_before; [exact Ha|]. rewrite Forall_forall in Hlt |- *. intros x Hx.
        specialize (Hlt x Hx). inversion Hlt; assumption.
      + apply (Permutation_Forall (insert_perm ks n acc)). constructor.
        * rewrite Forall_forall in Hn |- *. intros y Hy. apply Hn, in_map, Hy.
        * rewrite Forall_forall in Hlt |- *. intros x Hx. specialize (Hlt x Hx). inversion Hlt; assumption.
      + exact Hs.
      + split; [exact I1|]. eapply perm_trans; [|exact I2].
        eapply perm_trans; [apply Permutation_sym, Permutation_middle|].
        change (n :: acc ++ t) with ((n :: acc) ++ t). apply Permutation_app_tail, insert_perm. }
  intro Hs. destruct (G [] (SSorted_nil _) (Forall_nil _) Hs) as [G1 G2]. split; assumption.
Qed.

(* the run-time checker's adjacent-pair test follows *)
Lemma sorted_desc_of_before ks l : StronglySorted (before ks) l -> sorted_desc ks l = true.
Proof.
  induction 1 as [|a t Hs IH Ha]; [reflexivity|].
  destruct t as [|b t']; [reflexivity|].
  change (sorted_desc ks (a :: b :: t')) with
    (negb (lt_node ks a b) && (match cmp_node ks a b with Eq => n_name a <? n_name b | _ => true end)
     && sorted_desc ks (b :: t')).
  rewrite IH.
  inversion Ha as [|? ? [H1 H2] _]; subst. rewrite H1. cbn [negb andb].
  destruct (cmp_node ks a b); try reflexivity. rewrite andb_true_r. specialize (H2 eq_refl). lia.
Qed.

(* ================================================================== Part 4: --diff of a data set with itself *)
Lemma find_node_in tbl : names_sorted tbl -> forall n, In n tbl -> find_node tbl (n_name n) = Some n.
Proof.
  unfold names_sorted. induction tbl as [|x t IH]; intros Hs n Hin; [destruct Hin|].
  cbn [map] in Hs. apply StronglySorted_inv in Hs. destruct Hs as [Hs Hx].
  cbn [find_node]. destruct Hin as [->|Hin].
  - rewrite N.eqb_refl. reflexivity.
  - rewrite Forall_forall in Hx. assert (n_name x < n_name n) by (apply Hx, in_map, Hin).
    replace (n_name x =? n_name n) with false by lia. apply IH; assumption.
Qed.

Lemma sdiff_same x : sdiff x x = (false, 0).
Proof. unfold sdiff. rewrite N.leb_refl, N.sub_diag. reflexivity. Qed.

Theorem diff_self_zero tbl : names_sorted tbl ->
  diff_pairs tbl tbl = map (fun n => (n, n)) tbl
  /\ forallb diff_is_zero (map diff_cols (diff_pairs tbl tbl)) = true.
Proof.
  intro Hs.
  assert (diff_pairs tbl tbl = map (fun n => (n, n)) tbl) as E.
  { unfold diff_pairs.
    assert (filter (fun p => match find_node tbl (n_name p) with Some _ => false | None => true end) tbl = []) as ->.
    { assert (forall l, (forall n, In n l -> In n tbl) ->
                        filter (fun p => match find_node tbl (n_name p) with Some _ => false | None => true end) l = []) as G.
      { induction l as [|x t IH]; intro Hin; [reflexivity|]. cbn [filter].
        rewrite (find_node_in tbl Hs x) by (apply Hin; left; reflexivity).
        apply IH. intros n Hn. apply Hin. right. exact Hn. }
      apply G. auto. }
    cbn [map]. rewrite app_nil_r. apply map_ext_in. intros n Hn.
    rewrite (find_node_in tbl Hs n Hn). reflexivity. }
  split; [exact E|]. rewrite E, map_map. apply forallb_forall. intros d Hd.
  apply in_map_iff in Hd. destruct Hd as (n & <- & _). cbn [diff_cols]. rewrite !sdiff_same. reflexivity.
Qed.

Lemma finish_names tbl : map n_name (map finish_node tbl) = map n_name tbl.
Proof. rewrite map_map. apply map_ext. reflexivity. Qed.

Lemma report_gen_names_sorted leg c : names_sorted (report_gen leg c).
Proof.
  unfold report_gen, table_of_rows, names_sorted. rewrite finish_names.
  apply (table_lookup (c_names c) (all_rows_gen leg c) []). constructor.
Qed.
Lemma report_names_sorted c : names_sorted (report c).
Proof. apply report_gen_names_sorted. Qed.

(* ================================================================== Part 5: the printed time *)
Lemma fmt_time_us ns : 0 < ns -> ns < 1000000 -> fmt_time ns = Some (ns / 1000, ns mod 1000, 0).
Proof.
  intros H0 H1. unfold fmt_time, fmt_time_with. replace (ns =? 0) with false by lia.
  unfold llabs64. replace (ns <? 9223372036854775808) with true by lia.
  cbn [limits unit_loop next_limit nth].
  replace (ns / 1000 <? 1000) with true by lia. cbn [orb].
  replace (999 <? ns / 1000) with false by lia. reflexivity.
Qed.

(* below one millisecond the printed figure is the value itself *)
Theorem fmt_time_exact ns d f u : 0 < ns -> ns < 1000000 -> fmt_time ns = Some (d, f, u) ->
  u = 0 /\ ns = d * 1000 + f /\ f < 1000.
Proof. intros H0 H1. rewrite fmt_time_us by assumption. intro E. injection E as <- <- <-. lia. Qed.

(* up to 1000 hours the printed figure is the value truncated to the unit *)
Theorem fmt_time_ok ns : ns < 3600000000000000 -> ok_cell ns (fmt_time ns) = true.
Proof.
  intro H. unfold fmt_time, fmt_time_with. destruct (N.eqb_spec ns 0) as [->|NZ]; [reflexivity|].
  unfold llabs64. replace (ns <? 9223372036854775808) with true by lia.
  cbn [limits unit_loop next_limit nth orb].
  destruct (N.ltb_spec (ns / 1000) 1000) as [A|A]; cbn [orb].
  { replace (999 <? ns / 1000) with false by lia. cbn [ok_cell unit_ns N.of_nat]. lia. }
  destruct (N.ltb_spec (ns / 1000 / 1000) 1000) as [B|B]; cbn [orb].
  { replace (999 <? ns / 1000 / 1000) with false by lia. cbn [ok_cell unit_ns N.of_nat Pos.of_succ_nat Pos.succ]. lia. }
  destruct (N.ltb_spec (ns / 1000 / 1000 / 1000) 60) as [C|C]; cbn [orb].
  { replace (999 <? ns / 1000 / 1000 / 1000) with false by lia. cbn [ok_cell unit_ns N.of_nat Pos.of_succ_nat Pos.succ]. lia. }
  destruct (N.ltb_spec (ns / 1000 / 1000 / 1000 / 60) 60) as [D|D]; cbn [orb].
  { replace (999 <? ns / 1000 / 1000 / 1000 / 60) with false by lia. cbn [ok_cell unit_ns N.of_nat Pos.of_succ_nat Pos.succ]. lia. }
  rewrite orb_true_r.
  replace (999 <? ns / 1000 / 1000 / 1000 / 60 / 60) with false by lia.
  cbn [ok_cell unit_ns N.of_nat Pos.of_succ_nat Pos.succ]. lia.
Qed.

(* the code before the fix divided minutes by 24 to give "hours": 35 min was printed "1.011 h" *)
Lemma fmt_time_hours_legacy_refuted :
  let ns := 35 * 60 * 1000000000 in
  fmt_time_legacy ns = Some (1, 11, 4) /\ ok_cell ns (fmt_time_legacy ns) = false
  /\ fmt_time ns = Some (35, 0, 3).
Proof. vm_compute. repeat split; reflexivity. Qed.
