From Coq Require Import NArith List Bool Lia.
Import ListNotations.
Require Import UV.C08.Model.
Local Open Scope N_scope.

Lemma placeholder : add64 0 0 = 0.
Proof. reflexivity. Qed.
