From Coq Require Import NArith ZArith List Bool.
Import ListNotations.
Require Import UV.Gen.Consts UV.Gen.C17Consts UV.Mcount.Model UV.Mcount.Forest UV.C17.Model UV.C17.Proofs.
Local Open Scope N_scope.
Theorem C17_table : table = [K_STATM; K_PF; K_CYCLE; K_CACHE; K_BRANCH].
Proof. exact table_is_all. Qed.
Print Assumptions C17_table.
