(* Property C17 - Read-trigger and watchpoint events are placed and valued consistently.
   Only statements; every proof is [exact <lemma>].
   Model: UV.Mcount.Model (libmcount's hook automaton) extended by UV.C17.Model (per-frame event area,
   save_trigger_read, save_watchpoint, pending-event queue, emission order of record_ret_stack /
   record_trace_data, invalidation in mcount_exit_filter_record) - the code AS IT IS. *)
From Coq Require Import NArith ZArith List Bool.
Import ListNotations.
Require Import UV.Gen.Consts UV.Gen.C17Consts UV.Mcount.Model UV.Mcount.Forest UV.Mcount.PlainStep
  UV.Mcount.PlainProofs UV.C17.Model UV.C17.Proofs.
Local Open Scope N_scope.

(* ------------------------------------------------------------------ events never break entry/exit nesting *)
(* For EVERY configuration (any trigger table / -F/-N/-D/-t / --max-stack, any read= triggers, -W cpu,
   -W var, perf available or not), every history of hooks and every sequence of observed values:
   erasing the EVENT items from the thread's stream gives exactly the stream of the machine without
   events (the C02/C05 machine), and the filter state / shadow stack are those of that machine:
   events are pure insertions - they never remove, reorder or alter an ENTRY/EXIT record. *)
Theorem C17_nesting_kept : forall C es,
  erase (xout (snd (xexec C es xstart))) = out (fst (exec (xb C) (map bev es) (init, []))) /\
  fst (xexec C es xstart) = exec (xb C) (map bev es) (init, []).
Proof. exact erase_run. Qed.
Print Assumptions C17_nesting_kept.

(* hence, with -t/-D only: for every call forest, any read= triggers and watch points, the records are the
   documented selection (C05) and properly nested *)
Theorem C17_nesting_kept_plain : forall C thr gd ms sh f, xb C = plain thr gd ms sh ->
  all_timed (map strip f) -> heights (map strip f) <= ms ->
  erase (xout (snd (xexec C (flat_map xflat f) xstart))) = flat_map (recs thr gd 0) (map strip f) /\
  scan 0 (erase (xout (snd (xexec C (flat_map xflat f) xstart)))) = Some 0.
Proof. exact nesting_kept. Qed.
Print Assumptions C17_nesting_kept_plain.

(* ------------------------------------------------------------------ read / diff events *)
(* For every call forest (any shape, recursion, any number of calls), every -t / -D / --max-stack, both
   instrumentation shapes, ANY assignment of read= kinds to functions (perf available or not), every
   sequence of readings: the stream is exactly the specification [xrecs]:
     a recorded call of a function with read=k1..kn appears as
        ENTRY f; READ_k1 v1 .. READ_kn vn; <callees>; DIFF_k1 (w1-v1) .. DIFF_kn (wn-vn); EXIT f
     (vi / wi the readings at its entry / exit hook, differences per field mod 2^64, events stamped
     with the ENTRY / EXIT time), a call that is not recorded contributes nothing.
   Guard [all_xtimed]: time stamps below 2^64, and a call with a read= trigger takes at least one clock
   tick (see C17_zero_duration_refuted).  No watch points, no argument capture (see below). *)
Theorem C17_read_diff : forall thr gd ms sh rd pm fv fd f,
  all_xtimed thr gd ms sh rd pm fv fd f -> heights (map strip f) <= ms ->
  xout (snd (xexec (xplain thr gd ms sh rd pm fv fd) (flat_map xflat f) xstart)) =
  flat_map (xrecs (xplain thr gd ms sh rd pm fv fd) thr gd 0) f.
Proof. exact xrun_forest. Qed.
Print Assumptions C17_read_diff.

(* non-vacuity, with a negative difference *)
Theorem C17_read_diff_example :
  xout (snd (xexec ex_cfg [XEnter 0 100 (o_pf_only 9); XLeave 200 (o_pf_only 5)] xstart)) =
  [IR {| r_time := 100; r_type := ENTRY; r_depth := 0; r_addr := 0 |};
   IE {| e_time := 100; e_id := EVENT_ID_READ_PAGE_FAULT; e_data := [0; 9] |};
   IE {| e_time := 200; e_id := EVENT_ID_DIFF_PAGE_FAULT; e_data := [0; 18446744073709551612] |};
   IR {| r_time := 200; r_type := EXIT; r_depth := 0; r_addr := 0 |}].
Proof. exact read_diff_example. Qed.
Print Assumptions C17_read_diff_example.

(* read / diff events are dropped together with a call that is filtered out (time filter, depth limit) *)
Theorem C17_read_dropped_with_call : forall thr gd ms sh rd pm fv fd k d,
  recs thr gd d (strip k) = [] -> xrecs (xplain thr gd ms sh rd pm fv fd) thr gd d k = [].
Proof. exact read_events_dropped_with_call. Qed.
Print Assumptions C17_read_dropped_with_call.

(* their time stamps lie in the closed interval of the call they belong to *)
Theorem C17_read_event_times_inside : forall C thr gd f, all_ordered f ->
  ok_times (map oideal (flat_map (xrecs C thr gd 0) f)) = true.
Proof. exact read_event_times. Qed.
Print Assumptions C17_read_event_times_inside.

(* FALSE for a recorded call of zero duration (reachable with the `trace` trigger when two clock readings
   coincide): every event of the frame is emitted by both passes *)
Theorem C17_zero_duration_refuted :
  map (fun i => match i with IR r => (0, r_time r) | IE e => (e_id e, e_time e) end)
      (xout (snd (xexec zero_cfg [XEnter 0 100 (o_pf_only 5); XLeave 100 (o_pf_only 9)] xstart))) =
  [(0, 100); (EVENT_ID_READ_PAGE_FAULT, 100); (EVENT_ID_DIFF_PAGE_FAULT, 100);
   (EVENT_ID_READ_PAGE_FAULT, 100); (EVENT_ID_DIFF_PAGE_FAULT, 100); (0, 100)].
Proof. exact zero_duration_read_twice_refuted. Qed.
Print Assumptions C17_zero_duration_refuted.

(* ------------------------------------------------------------------ watch points *)
(* -W cpu: for every sequence of observations, with the pending queue drained between the hooks, the
   cpu events generated are exactly the changes of the observed value w.r.t. the thread's previous
   observation (the first observation always) *)
Theorem C17_watch_cpu_iff_changed : forall C, wp_cpu C = true -> forall l X, pend X = [] ->
  cpu_values (wrun C l X) = map cpu_word (changes_from (prev_cpu X) (map (fun p => o_cpu (snd p)) l)).
Proof. exact cpu_run. Qed.
Print Assumptions C17_watch_cpu_iff_changed.

(* one hook, queue not full: an event is queued iff the value differs from the previous observation or it
   is the thread's first observation; stamped with the hook's time -1 ns (first: +1 ns) *)
Theorem C17_watch_cpu_decision : forall C f pos o X, full (pend X) = false -> wp_cpu C = true -> wp_var C = false ->
  pend (x_watch C f pos o X) =
    pend X ++ (if negb (w_cpu X =? o_cpu o)%Z || negb (w_inited X)
               then [{| a_ev := {| e_time := ((if negb (w_inited X) then (ts_of f + 2) mod W64 else ts_of f) + (W64 - 1)) mod W64;
                                   e_id := C17_EVENT_ID_WATCH_CPU; e_data := [cpu_word (o_cpu o)] |}; a_idx := pos |}]
               else []).
Proof. exact watch_room_cpu. Qed.
Print Assumptions C17_watch_cpu_decision.

Theorem C17_watch_stamp : forall ts, 1 <= ts -> ts + 2 < W64 ->
  (ts + (W64 - 1)) mod W64 = ts - 1 /\ ((ts + 2) mod W64 + (W64 - 1)) mod W64 = ts + 1.
Proof. exact watch_stamp. Qed.
Print Assumptions C17_watch_stamp.

(* placement in the stream: FALSE when two hooks are only 1 ns apart (the +1 ns stamp of the thread's first
   event and the -1 ns stamp of the next one cross): an event is then written inside a call that starts
   after the event's time stamp; with >= 2 ns the same history is placed correctly (stream-level placement
   of watch events is otherwise covered by the tie's [ok_times] / watch checkers, not by a theorem) *)
Theorem C17_watch_times_gap1_refuted :
  map oideal (xout (snd (xexec gap_cfg (gap_run 1) xstart))) =
  [OR (100, 0, 5, 0, 0); OR (101, 0, 5, 1, 256); OE 101 C17_EVENT_ID_WATCH_CPU [1]; OE 100 C17_EVENT_ID_WATCH_CPU [2];
   OE 101 C17_EVENT_ID_WATCH_CPU [3]; OR (102, 1, 5, 1, 256); OE 199 C17_EVENT_ID_WATCH_CPU [4]; OR (200, 1, 5, 0, 0)] /\
  ok_times (map oideal (xout (snd (xexec gap_cfg (gap_run 1) xstart)))) = false.
Proof. exact watch_times_gap1_refuted. Qed.
Print Assumptions C17_watch_times_gap1_refuted.

Theorem C17_watch_times_gap2_example :
  map oideal (xout (snd (xexec gap_cfg (gap_run 2) xstart))) =
  [OR (100, 0, 5, 0, 0); OE 101 C17_EVENT_ID_WATCH_CPU [1]; OE 101 C17_EVENT_ID_WATCH_CPU [2]; OR (102, 0, 5, 1, 256);
   OE 103 C17_EVENT_ID_WATCH_CPU [3]; OR (104, 1, 5, 1, 256); OE 199 C17_EVENT_ID_WATCH_CPU [4]; OR (200, 1, 5, 0, 0)] /\
  ok_times (map oideal (xout (snd (xexec gap_cfg (gap_run 2) xstart)))) = true.
Proof. exact watch_times_gap2. Qed.
Print Assumptions C17_watch_times_gap2_example.

(* -W cpu at the level of the stream, bounded but exhaustive: for EVERY history of at most 4 calls (both
   shapes with hooks 2 ns apart, -pg also 3 ns), the chains of 5 and 6 nested calls, and EVERY change pattern
   of the observed cpu number, the stream equals the hook-by-hook specification [wspec] - an event iff the
   value differs from the previous hook's (first always) and fewer than MAX_EVENT events are pending, stamped
   -1 ns and written in front of the hook's record (the first: +1 ns, behind the first ENTRY) - and every
   event lies in the closed interval of the enclosing recorded call. *)
Theorem C17_watch_stream_small :
  forallb small_ok [1; 2; 3; 4]%nat && chain_ok 5 PG 2 && chain_ok 6 CYG 2 = true.
Proof. exact watch_stream_small. Qed.
Print Assumptions C17_watch_stream_small.

Theorem C17_watch_stream_small_domain :
  map (fun n => length (filter (fun d => balanced d 0) (bitlists (2 * n)))) [1; 2; 3; 4]%nat = [1; 2; 5; 14]%nat /\
  balanced (chain 5) 0 = true /\
  length (filter (fun i => match i with OE _ _ _ => true | _ => false end)
                 (wspec (hooks_of (chain 5) [true; false; true; false; true; false; true; false; true; false] 100 2 0))) = 8%nat.
Proof. exact small_domain. Qed.
Print Assumptions C17_watch_stream_small_domain.

(* the stated limit: with MAX_EVENT events pending nothing is queued - and the observation is still
   overwritten, so that change is never reported *)
Theorem C17_watch_limit : forall C f pos o X, full (pend X) = true -> wp_cpu C = true ->
  pend (x_watch C f pos o X) = pend X /\ w_cpu (x_watch C f pos o X) = o_cpu o.
Proof. exact watch_limit. Qed.
Print Assumptions C17_watch_limit.

(* -W var:NAME, one thread: the same statement under the exact guard that the variable never returns to
   the value it had at the thread's first hook ... *)
Theorem C17_watch_var_iff_changed_partial : forall C v0, fix_var C = false -> wp_var C = true -> forall l X, pend X = [] ->
  v_copy X = Some v0 -> g_init X = false -> no_return v0 (map (fun p => o_var (snd p)) l) ->
  var_values (wrun C l X) = nchanges_from v0 (map (fun p => o_var (snd p)) l).
Proof. exact var_run. Qed.
Print Assumptions C17_watch_var_iff_changed_partial.

(* ... and FALSE without it (genuine defect: save_watchpoint compares with the thread's copy made at its
   first hook and never updates it): 3 -> 4 -> 3 reports only the first change *)
Theorem C17_watch_var_refuted :
  var_values (wrun var_cfg [(100, ov 3); (110, ov 4); (120, ov 3)] var_x0) = [4] /\
  nchanges_from 3 [3; 4; 3] = [4; 3].
Proof. exact var_watch_refuted. Qed.
Print Assumptions C17_watch_var_refuted.

(* for the code with proposed-fixes/C17-2.diff (model variant fix_var = true: the thread's copy follows
   the observations) the statement holds for EVERY sequence of values *)
Theorem C17_watch_var_iff_changed_fixed : forall C, fix_var C = true -> wp_var C = true -> forall l X v0,
  pend X = [] -> v_copy X = Some v0 -> (g_init X = true -> g_val X = v0) ->
  var_values (wrun C l X) = nchanges_from v0 (map (fun p => o_var (snd p)) l).
Proof. exact var_run_fixed. Qed.
Print Assumptions C17_watch_var_iff_changed_fixed.

(* ------------------------------------------------------------------ dropped with the call: watch events *)
(* FALSE (genuine defect): the watch events queued by a call that the time filter then drops stay in the
   queue (the test `event.idx < mtdp->idx` runs before idx is decremented, so it keeps the exiting
   frame's own events) and are written with the next record: f1 is absent, its two events are present *)
Theorem C17_watch_dropped_with_call_refuted :
  xout (snd (xexec drop_cfg drop_run xstart)) =
  [IR {| r_time := 100; r_type := ENTRY; r_depth := 0; r_addr := 0 |}; wcpu 101 3; wcpu 109 4; wcpu 119 5;
   IR {| r_time := 130; r_type := ENTRY; r_depth := 1; r_addr := 512 |};
   IR {| r_time := 190; r_type := EXIT; r_depth := 1; r_addr := 512 |};
   IR {| r_time := 200; r_type := EXIT; r_depth := 0; r_addr := 0 |}].
Proof. exact watch_dropped_with_call_refuted. Qed.
Print Assumptions C17_watch_dropped_with_call_refuted.

Theorem C17_invalidate_keeps_own : forall e n,
  invalidate (n + 1) [{| a_ev := e; a_idx := n |}] = [{| a_ev := e; a_idx := n |}].
Proof. exact invalidate_keeps_own. Qed.
Print Assumptions C17_invalidate_keeps_own.

(* for the code with proposed-fixes/C17-3.diff (model variant fix_drop = true): the same history records
   neither f1 nor its events; and in general, on a queue ordered by frame index, the invalidation at the exit
   of frame n keeps exactly the events of the frames below n *)
Theorem C17_watch_dropped_with_call_fixed :
  xout (snd (xexec drop_cfg_fixed drop_run xstart)) =
  [IR {| r_time := 100; r_type := ENTRY; r_depth := 0; r_addr := 0 |}; wcpu 101 3;
   IR {| r_time := 130; r_type := ENTRY; r_depth := 1; r_addr := 512 |};
   IR {| r_time := 190; r_type := EXIT; r_depth := 1; r_addr := 512 |};
   IR {| r_time := 200; r_type := EXIT; r_depth := 0; r_addr := 0 |}].
Proof. exact watch_dropped_with_call_fixed. Qed.
Print Assumptions C17_watch_dropped_with_call_fixed.

Theorem C17_invalidate_sorted : forall m p, sorted_idx p ->
  invalidate m p = filter (fun x => a_idx x <? m) p.
Proof. exact invalidate_sorted. Qed.
Print Assumptions C17_invalidate_sorted.

(* ------------------------------------------------------------------ events and arguments in one frame buffer *)
(* the guard of save_trigger_read would keep events and argument bytes apart if the word it adds to the
   buffer start were the size of the argument area ... *)
Theorem C17_guard_sound_if_word_right : forall b dsz, w_at_ptr b = 4 + asz b ->
  guard_stores b dsz = true -> disjoint_after b dsz = true.
Proof. exact guard_sound_if_word_right. Qed.
Print Assumptions C17_guard_sound_if_word_right.

(* ... but it reads that word through the event pointer (genuine defect).  FALSE: disjointness ... *)
Theorem C17_event_area_disjoint_refuted :
  let b := {| has_args := true; asz := 1000; event_idx := C17_ARGBUF_SIZE; w_at_ptr := 0 |} in
  guard_stores b SIZEOF_PAGE_FAULT = true /\ disjoint_after b SIZEOF_PAGE_FAULT = false.
Proof. exact event_area_disjoint_refuted. Qed.
Print Assumptions C17_event_area_disjoint_refuted.

(* ... and FALSE: "a diff event is stored whenever it fits" - with arguments or a return value captured in
   the frame the word is the low half of the read event's time stamp *)
Theorem C17_diff_lost_with_args_refuted :
  let b := {| has_args := true; asz := 8; event_idx := C17_ARGBUF_SIZE - (EVTBUF_HDR + SIZEOF_PAGE_FAULT);
              w_at_ptr := 5000 |} in
  room_for b SIZEOF_PAGE_FAULT = true /\ guard_stores b SIZEOF_PAGE_FAULT = false.
Proof. exact diff_event_lost_with_args_refuted. Qed.
Print Assumptions C17_diff_lost_with_args_refuted.

(* without argument / return-value capture the guard is exact, and all events of a frame always fit *)
Theorem C17_guard_exact_without_args : forall b dsz, has_args b = false -> guard_stores b dsz = room_for b dsz.
Proof. exact guard_exact_without_args. Qed.
Print Assumptions C17_guard_exact_without_args.

Theorem C17_all_events_fit :
  2 * ((EVTBUF_HDR + SIZEOF_PROC_STATM) + (EVTBUF_HDR + SIZEOF_PAGE_FAULT) + (EVTBUF_HDR + SIZEOF_PMU_CYCLE) +
       (EVTBUF_HDR + SIZEOF_PMU_CACHE) + (EVTBUF_HDR + SIZEOF_PMU_BRANCH)) <= C17_ARGBUF_SIZE.
Proof. exact all_events_fit. Qed.
Print Assumptions C17_all_events_fit.

(* the model's constants are those of the current source *)
Theorem C17_layout_sanity :
  table = [K_STATM; K_PF; K_CYCLE; K_CACHE; K_BRANCH] /\
  SIZEOF_PROC_STATM = 24 /\ SIZEOF_PAGE_FAULT = 16 /\ SIZEOF_PMU_CYCLE = 16 /\ SIZEOF_PMU_CACHE = 16 /\
  SIZEOF_PMU_BRANCH = 16 /\ EVTBUF_HDR = 16 /\ C17_MAX_EVENT = MAX_EVENT /\ C17_ARGBUF_SIZE = ARGBUF_SIZE /\
  NoDup (map id_read all_kinds ++ map id_diff all_kinds ++ [C17_EVENT_ID_WATCH_CPU; C17_EVENT_ID_WATCH_VAR]).
Proof. exact layout_sanity. Qed.
Print Assumptions C17_layout_sanity.
