(* Property C17 - Read-trigger and watchpoint events are placed and valued consistently.
   Only statements; every proof is [exact <lemma>].
   Model: UV.Mcount.Model (libmcount's hook automaton) extended by UV.C17.Model (per-frame event area,
   save_trigger_read, save_watchpoint, pending-event queue, emission order of record_ret_stack /
   record_trace_data, invalidation in mcount_exit_filter_record) - the code AS IT IS, i.e. with the four
   repairs 7cf042b, aa8baff, 35535f9, 197b449 that this property's machinery led to; the behaviour before
   them is kept in [_legacy] definitions and refuted in the [_legacy_refuted] theorems. *)
From Coq Require Import NArith ZArith List Bool.
Import ListNotations.
Require Import UV.Gen.Consts UV.Gen.C17Consts UV.Mcount.Model UV.Mcount.Forest UV.Mcount.PlainStep
  UV.Mcount.PlainProofs UV.C17.Model UV.C17.Proofs.
Local Open Scope N_scope.

(* ------------------------------------------------------------------ events never break entry/exit nesting *)
(* For EVERY configuration (any trigger table / -F/-N/-D/-t / --max-stack, any read= triggers, -W cpu,
   -W var, perf available or not), every history of hooks and every sequence of observed values:
   erasing the EVENT items from the thread's stream gives exactly the stream of the machine without
   events (the C02/C05 machine), and the filter state / shadow stack are those of that machine:
   events are pure insertions - they never remove, reorder or alter an ENTRY/EXIT record. *)
Theorem C17_nesting_kept : forall C es,
  erase (xout (snd (xexec C es xstart))) = out (fst (exec (xb C) (map bev es) (init, []))) /\
  fst (xexec C es xstart) = exec (xb C) (map bev es) (init, []).
Proof. exact erase_run. Qed.
Print Assumptions C17_nesting_kept.

(* hence, with -t/-D only: for every call forest, any read= triggers and watch points, the records are the
   documented selection (C05) and properly nested *)
Theorem C17_nesting_kept_plain : forall C thr gd ms sh f, xb C = plain thr gd ms sh ->
  all_timed (map strip f) -> heights (map strip f) <= ms ->
  erase (xout (snd (xexec C (flat_map xflat f) xstart))) = flat_map (recs thr gd 0) (map strip f) /\
  scan 0 (erase (xout (snd (xexec C (flat_map xflat f) xstart)))) = Some 0.
Proof. exact nesting_kept. Qed.
Print Assumptions C17_nesting_kept_plain.

(* ------------------------------------------------------------------ read / diff events *)
(* For every call forest (any shape, recursion, any number of calls), every -t / -D / --max-stack, both
   instrumentation shapes, ANY assignment of read= kinds to functions (perf available or not), every
   sequence of readings: the stream is exactly the specification [xrecs]:
     a recorded call of a function with read=k1..kn appears as
        ENTRY f; READ_k1 v1 .. READ_kn vn; <callees>; DIFF_k1 (w1-v1) .. DIFF_kn (wn-vn); EXIT f
     (vi / wi the readings at its entry / exit hook, differences per field mod 2^64, events stamped
     with the ENTRY / EXIT time), a call that is not recorded contributes nothing.
   Guard [all_xtimed]: time stamps below 2^64 and not decreasing (zero-duration calls included, see
   C17_zero_duration_example), and the argument data captured for a call (any -A specification; its
   size is an input of the entry hook) is at most 684 bytes, i.e. leaves room for all ten events a frame can
   get (exact: C17_asz_bound_exact; beyond it C17_read_without_diff_refuted).  No watch points. *)
Theorem C17_read_diff : forall thr gd ms sh rd pm f,
  all_xtimed f -> heights (map strip f) <= ms ->
  xout (snd (xexec (xplain thr gd ms sh rd pm) (flat_map xflat f) xstart)) =
  flat_map (xrecs (xplain thr gd ms sh rd pm) thr gd 0) f.
Proof. exact xrun_forest. Qed.
Print Assumptions C17_read_diff.

(* non-vacuity, with a negative difference *)
Theorem C17_read_diff_example :
  xout (snd (xexec ex_cfg [XEnter 0 100 (o_pf_only 9); XLeave 200 (o_pf_only 5)] xstart)) =
  [IR {| r_time := 100; r_type := ENTRY; r_depth := 0; r_addr := 0 |};
   IE {| e_time := 100; e_id := EVENT_ID_READ_PAGE_FAULT; e_data := [0; 9] |};
   IE {| e_time := 200; e_id := EVENT_ID_DIFF_PAGE_FAULT; e_data := [0; 18446744073709551612] |};
   IR {| r_time := 200; r_type := EXIT; r_depth := 0; r_addr := 0 |}].
Proof. exact read_diff_example. Qed.
Print Assumptions C17_read_diff_example.

(* read / diff events are dropped together with a call that is filtered out (time filter, depth limit) *)
Theorem C17_read_dropped_with_call : forall thr gd ms sh rd pm k d,
  recs thr gd d (strip k) = [] -> xrecs (xplain thr gd ms sh rd pm) thr gd d k = [].
Proof. exact read_events_dropped_with_call. Qed.
Print Assumptions C17_read_dropped_with_call.

(* their time stamps lie in the closed interval of the call they belong to *)
Theorem C17_read_event_times_inside : forall C thr gd f, all_ordered f ->
  ok_times (map oideal (flat_map (xrecs C thr gd 0) f)) = true.
Proof. exact read_event_times. Qed.
Print Assumptions C17_read_event_times_inside.

(* a recorded call of zero duration (two clock readings coincide; always recorded, the threshold test being >=):
   every event appears once, the reads after ENTRY and the differences before EXIT (part of C17_read_diff, whose
   guard no longer asks for a clock tick; here a concrete run) *)
Theorem C17_zero_duration_example :
  map (fun i => match i with IR r => (0, r_time r) | IE e => (e_id e, e_time e) end)
      (xout (snd (xexec zero_cfg [XEnter 0 100 (o_pf_only 5); XLeave 100 (o_pf_only 9)] xstart))) =
  [(0, 100); (EVENT_ID_READ_PAGE_FAULT, 100); (EVENT_ID_DIFF_PAGE_FAULT, 100); (0, 100)].
Proof. exact zero_duration_read_once. Qed.
Print Assumptions C17_zero_duration_example.

(* before 491a61f both passes of record_ret_stack selected the frame's events by time stamp alone: for a call of
   zero duration each of them emitted ALL events of the frame, i.e. every event twice *)
Theorem C17_zero_duration_legacy_refuted : forall C a t o0 o1,
  let evs := reads C a t o0 ++ diffs C a t o0 o1 in
  legacy_entry_events t evs = evs /\ legacy_exit_events t evs = evs.
Proof. exact zero_duration_legacy_refuted. Qed.
Print Assumptions C17_zero_duration_legacy_refuted.

(* ------------------------------------------------------------------ watch points *)
(* -W cpu: for every sequence of observations, with the pending queue drained between the hooks, the
   cpu events generated are exactly the changes of the observed value w.r.t. the thread's previous
   observation (the first observation always) *)
Theorem C17_watch_cpu_iff_changed : forall C, wp_cpu C = true -> forall l X, pend X = [] ->
  cpu_values (wrun C l X) = map cpu_word (changes_from (prev_cpu X) (map (fun p => o_cpu (snd p)) l)).
Proof. exact cpu_run. Qed.
Print Assumptions C17_watch_cpu_iff_changed.

(* one hook, queue not full: an event is queued iff the value differs from the previous observation or it
   is the thread's first observation; stamped with the hook's time -1 ns (first: +1 ns) *)
Theorem C17_watch_cpu_decision : forall C f pos o X, full (pend X) = false -> wp_cpu C = true -> wp_var C = false ->
  pend (x_watch C f pos o X) =
    pend X ++ (if negb (w_cpu X =? o_cpu o)%Z || negb (w_inited X)
               then [{| a_ev := {| e_time := ((if negb (w_inited X) then (ts_of f + 2) mod W64 else ts_of f) + (W64 - 1)) mod W64;
                                   e_id := C17_EVENT_ID_WATCH_CPU; e_data := [cpu_word (o_cpu o)] |}; a_idx := pos |}]
               else []).
Proof. exact watch_room_cpu. Qed.
Print Assumptions C17_watch_cpu_decision.

Theorem C17_watch_stamp : forall ts, 1 <= ts -> ts + 2 < W64 ->
  (ts + (W64 - 1)) mod W64 = ts - 1 /\ ((ts + 2) mod W64 + (W64 - 1)) mod W64 = ts + 1.
Proof. exact watch_stamp. Qed.
Print Assumptions C17_watch_stamp.

(* placement in the stream (known finding watch-first-event-1ns): FALSE when two hooks are only 1 ns apart (the +1 ns stamp of the thread's first
   event and the -1 ns stamp of the next one cross): an event is then written inside a call that starts
   after the event's time stamp; with >= 2 ns the same history is placed correctly (stream-level placement
   of watch events is otherwise covered by the tie's [ok_times] / watch checkers, not by a theorem) *)
Theorem C17_watch_times_gap1_refuted :
  map oideal (xout (snd (xexec gap_cfg (gap_run 1) xstart))) =
  [OR (100, 0, 5, 0, 0); OR (101, 0, 5, 1, 256); OE 101 C17_EVENT_ID_WATCH_CPU [1]; OE 100 C17_EVENT_ID_WATCH_CPU [2];
   OE 101 C17_EVENT_ID_WATCH_CPU [3]; OR (102, 1, 5, 1, 256); OE 199 C17_EVENT_ID_WATCH_CPU [4]; OR (200, 1, 5, 0, 0)] /\
  ok_times (map oideal (xout (snd (xexec gap_cfg (gap_run 1) xstart)))) = false.
Proof. exact watch_times_gap1_refuted. Qed.
Print Assumptions C17_watch_times_gap1_refuted.

Theorem C17_watch_times_gap2_example :
  map oideal (xout (snd (xexec gap_cfg (gap_run 2) xstart))) =
  [OR (100, 0, 5, 0, 0); OE 101 C17_EVENT_ID_WATCH_CPU [1]; OE 101 C17_EVENT_ID_WATCH_CPU [2]; OR (102, 0, 5, 1, 256);
   OE 103 C17_EVENT_ID_WATCH_CPU [3]; OR (104, 1, 5, 1, 256); OE 199 C17_EVENT_ID_WATCH_CPU [4]; OR (200, 1, 5, 0, 0)] /\
  ok_times (map oideal (xout (snd (xexec gap_cfg (gap_run 2) xstart)))) = true.
Proof. exact watch_times_gap2. Qed.
Print Assumptions C17_watch_times_gap2_example.

(* THE WHOLE STREAM, unbounded: plain configuration without threshold (every call recorded), both shapes, ANY
   read= triggers (5 kinds, perf available or not), -W cpu and/or -W var, argument capture <= 684 bytes, EVERY
   complete history of hooks that are at least 2 ns apart and nest within -D / --max-stack, every sequence of
   observed values: the stream equals the hook-by-hook specification [hspec] - each hook contributes
       entry of f:  <this hook's watch events, stamped -1 ns>  ENTRY f  READ_k..
       exit of f:   <this hook's watch events, stamped -1 ns>  DIFF_k..  EXIT f
   (only the thread's first hook has its watch events, stamped +1 ns, behind ENTRY f READ_k..); which watch
   events a hook generates is save_watchpoint's decision (C17_watch_cpu_iff_changed, C17_watch_var_iff_changed,
   MAX_EVENT counted since the last exit hook).  Hence: read right after entry, diff right before exit with the
   differences, watch events at the hook that observed the change, every stamp inside the enclosing call. *)
Theorem C17_stream_spec : forall gd ms sh rd pm wc wv es, wf gd ms es 0 0 -> endn es 0 = 0%nat ->
  map oideal (xout (snd (xexec (xplainw 0 gd ms sh rd pm wc wv) es xstart))) = hspec (xplainw 0 gd ms sh rd pm wc wv) es.
Proof. exact stream_spec. Qed.
Print Assumptions C17_stream_spec.

Theorem C17_stream_spec_example :
  wf 16 16 sx_run 0 0 /\ endn sx_run 0 = 0%nat /\
  hspec sx_cfg sx_run =
  [OR (100, 0, 5, 0, 0); OE 100 EVENT_ID_READ_PAGE_FAULT [0; 5]; OE 101 C17_EVENT_ID_WATCH_CPU [1];
   OE 101 C17_EVENT_ID_WATCH_CPU [2]; OR (102, 0, 5, 1, 256);
   OE 103 C17_EVENT_ID_WATCH_VAR [8]; OR (104, 1, 5, 1, 256);
   OE 199 C17_EVENT_ID_WATCH_CPU [3]; OE 199 C17_EVENT_ID_WATCH_VAR [7]; OE 200 EVENT_ID_DIFF_PAGE_FAULT [0; 4];
   OR (200, 1, 5, 0, 0)].
Proof. exact stream_spec_example. Qed.
Print Assumptions C17_stream_spec_example.

(* -W cpu at the level of the stream, bounded but exhaustive: for EVERY history of at most 4 calls (both
   shapes with hooks 2 ns apart, -pg also 3 ns), the chains of 5 and 6 nested calls, and EVERY change pattern
   of the observed cpu number, the stream equals the hook-by-hook specification [wspec] - an event iff the
   value differs from the previous hook's (first always) and fewer than MAX_EVENT events are pending (a change that finds the queue full is reported by the next hook with room), stamped
   -1 ns and written in front of the hook's record (the first: +1 ns, behind the first ENTRY) - and every
   event lies in the closed interval of the enclosing recorded call. *)
Theorem C17_watch_stream_small :
  forallb small_ok [1; 2; 3; 4]%nat && chain_ok 5 PG 2 && chain_ok 6 CYG 2 = true.
Proof. exact watch_stream_small. Qed.
Print Assumptions C17_watch_stream_small.

Theorem C17_watch_stream_small_domain :
  map (fun n => length (filter (fun d => balanced d 0) (bitlists (2 * n)))) [1; 2; 3; 4]%nat = [1; 2; 5; 14]%nat /\
  balanced (chain 5) 0 = true /\
  length (filter (fun i => match i with OE _ _ _ => true | _ => false end)
                 (wspec (hooks_of (chain 5) [true; false; true; false; true; false; true; false; true; false] 100 2 0))) = 8%nat.
Proof. exact small_domain. Qed.
Print Assumptions C17_watch_stream_small_domain.

(* the MAX_EVENT limit: a hook that finds the queue full queues nothing and keeps the old observations (cpu
   number, copy of the variable, global item), so the change is reported by the next hook with a free slot *)
Theorem C17_watch_limit : forall C f pos o X, full (pend X) = true -> w_inited X = true ->
  pend (x_watch C f pos o X) = pend X /\ w_cpu (x_watch C f pos o X) = w_cpu X /\
  v_copy (x_watch C f pos o X) = v_copy X /\ g_init (x_watch C f pos o X) = g_init X /\
  g_val (x_watch C f pos o X) = g_val X.
Proof. exact watch_limit. Qed.
Print Assumptions C17_watch_limit.

(* before the repair the cpu number was remembered although no event could be stored: the change 1 -> 2 seen
   with a full queue was never reported (second line), now the next hook reports it (first line) *)
Theorem C17_watch_limit_legacy_refuted :
  let X1 := x_watch cpu_cfg (dummy_frame 100) 0 (ocpu' 2) (full_x 1) in
  let L1 := x_watch_cpu_legacy cpu_cfg (dummy_frame 100) 0 (ocpu' 2) (full_x 1) in
  cpu_values (map a_ev (pend (x_watch cpu_cfg (dummy_frame 110) 0 (ocpu' 2) (set_pend X1 [])))) = [2] /\
  cpu_values (map a_ev (pend (x_watch cpu_cfg (dummy_frame 110) 0 (ocpu' 2) (set_pend L1 [])))) = [].
Proof. exact watch_limit_legacy_refuted. Qed.
Print Assumptions C17_watch_limit_legacy_refuted.

(* -W var:NAME (a variable of 1, 2, 4 or 8 bytes), one thread: for EVERY sequence of values, with the queue drained between the hooks, the
   events generated are exactly the changes of the value w.r.t. the thread's previous observation
   (v0 = the copy made at the thread's first hook) *)
Theorem C17_watch_var_iff_changed : forall C, wp_var C = true -> forall l X v0,
  pend X = [] -> v_copy X = Some v0 -> (g_init X = true -> g_val X = v0) ->
  var_values (wrun C l X) = nchanges_from v0 (map (fun p => o_var (snd p)) l).
Proof. exact var_run. Qed.
Print Assumptions C17_watch_var_iff_changed.

Theorem C17_watch_var_example :
  var_values (wrun var_cfg [(100, ov 3); (110, ov 4); (120, ov 3)] var_x0) = [4; 3].
Proof. exact var_watch_example. Qed.
Print Assumptions C17_watch_var_example.

(* the first change may be TO zero: the zero-filled global item is "nothing reported yet" (inited = false), not
   "0 was reported" - with that confusion the change 3 -> 0 would be swallowed (second line; seeded change C17-7) *)
Theorem C17_watch_var_first_change_to_zero :
  var_values (wrun var_cfg [(100, ov 3); (110, ov 0)] var_x0) = [0] /\
  var_values (wrun var_cfg [(100, ov 3); (110, ov 0)] var_x0_zero_reported) = [].
Proof. exact var_first_change_to_zero. Qed.
Print Assumptions C17_watch_var_first_change_to_zero.

(* FALSE across threads (known finding watch-var-once-per-process): the global watch item makes a value reported
   once per process - threads 0 and 1 both observe 3 at entry and 4 at exit (multi-thread machine xexec_mt:
   per-thread machines, shared item): thread 0 reports the change, thread 1, whose own previous observation
   was 3, stays silent *)
Theorem C17_watch_var_threads_refuted :
  map (fun D => ids (xout (snd D))) (fst (xexec_mt var_cfg mt_run [] false 0)) =
  [[(0, 100); (C17_EVENT_ID_WATCH_VAR, 199); (0, 200)]; [(0, 105); (0, 205)]].
Proof. exact watch_var_threads_refuted. Qed.
Print Assumptions C17_watch_var_threads_refuted.

(* before aa8baff the thread's copy was never updated: 3 -> 4 -> 3 reported only the first change *)
Theorem C17_watch_var_legacy_refuted :
  var_values (wrun_legacy var_cfg [(100, ov 3); (110, ov 4); (120, ov 3)] var_x0) = [4] /\
  nchanges_from 3 [3; 4; 3] = [4; 3].
Proof. exact var_watch_legacy_refuted. Qed.
Print Assumptions C17_watch_var_legacy_refuted.

(* ------------------------------------------------------------------ dropped with the call: all events *)
(* Plain base configuration (-t / -D / --max-stack, both shapes), ANY read= triggers, -W cpu and/or -W var,
   any observations: a complete call that is not recorded (time filter or depth limit - then none of its
   callees is recorded either), started in any state whose pending events belong to open frames, leaves
   the stream, the pending-event queue, the per-frame event areas and the shadow stack exactly as it
   found them: everything its hooks (and its callees' hooks) queued is removed by the invalidation. *)
Theorem C17_watch_dropped_with_call : forall thr gd ms sh rd pm wc wv k, timed (strip k) -> forall s hk X d,
  recs thr gd d (strip k) = [] ->
  fc s = fcd d -> enabled s = true -> ridx s = d -> idx s + height (strip k) <= ms ->
  Forall (fun a => a_idx a < idx s) (pend X) ->
  exists s' X', xexec (xplainw thr gd ms sh rd pm wc wv) (xflat k) (((s, hk) : dstate), X) = (((s', hk) : dstate), X') /\
                pend X' = pend X /\ xout X' = xout X /\ xs X' = xs X /\ stack s' = stack s /\ out s' = out s.
Proof. exact dropped_with_call. Qed.
Print Assumptions C17_watch_dropped_with_call.

(* non-vacuity: f1 (10 ns, -t 50 ns) and the cpu changes seen at its entry and exit are absent *)
Theorem C17_watch_dropped_with_call_example :
  xout (snd (xexec drop_cfg drop_run xstart)) =
  [IR {| r_time := 100; r_type := ENTRY; r_depth := 0; r_addr := 0 |}; wcpu 101 3;
   IR {| r_time := 130; r_type := ENTRY; r_depth := 1; r_addr := 512 |};
   IR {| r_time := 190; r_type := EXIT; r_depth := 1; r_addr := 512 |};
   IR {| r_time := 200; r_type := EXIT; r_depth := 0; r_addr := 0 |}].
Proof. exact watch_dropped_with_call_example. Qed.
Print Assumptions C17_watch_dropped_with_call_example.

(* on a queue ordered by frame index the invalidation at the exit of frame n keeps exactly the events of
   the frames below n *)
Theorem C17_invalidate_sorted : forall m p, sorted_idx p ->
  invalidate m p = filter (fun x => a_idx x <? m) p.
Proof. exact invalidate_sorted. Qed.
Print Assumptions C17_invalidate_sorted.

(* before 35535f9 the test used mtdp->idx = n + 1 at the exit of frame n: the frame's own events passed *)
Theorem C17_watch_dropped_with_call_legacy_refuted : forall e n,
  invalidate (n + 1) [{| a_ev := e; a_idx := n |}] = [{| a_ev := e; a_idx := n |}] /\
  invalidate n [{| a_ev := e; a_idx := n |}] = [].
Proof. exact invalidate_legacy_keeps_own. Qed.
Print Assumptions C17_watch_dropped_with_call_legacy_refuted.

(* ------------------------------------------------------------------ events and arguments in one frame buffer *)
(* Machine level, for EVERY configuration, history and observation sequence, argument data of any size
   save_argument can store (<= ARGBUF_SIZE - 4): in every reachable state, for every open frame, the argument
   bytes [0, 4 + size) and the bytes of the stored events [ARGBUF_SIZE - used, ARGBUF_SIZE) do not overlap. *)
Theorem C17_frames_disjoint : forall C es, Forall aok es -> xok (snd (xexec C es xstart)).
Proof. exact frames_disjoint_run. Qed.
Print Assumptions C17_frames_disjoint.

(* Whatever the two passes of a call store - also when the arguments leave room for only some events - the
   entry pass stores read events only, and every event of the exit pass is DIFF_k = exit reading - entry
   reading of a kind k whose read event is there (never an absolute reading at the exit) *)
Theorem C17_stored_diffs_are_differences : forall C a ks t0 t1 o0 o1,
  exists D, str_go_g C a ks o1 t1 true (str_go_g C a ks o0 t0 false []) = str_go_g C a ks o0 t0 false [] ++ D /\
            Forall (is_diff_of t1 o0 o1) D /\
            Forall (fun e => exists k, e = mkread t0 o0 k) (str_go_g C a ks o0 t0 false []).
Proof. exact stored_diffs_are_differences. Qed.
Print Assumptions C17_stored_diffs_are_differences.

(* FALSE without room (known finding events-refused-when-args-fill-buffer): 1000 bytes of arguments - no event;
   920 bytes - two read events, no diff event; the bound 684 of C17_read_diff is exact *)
Theorem C17_read_diff_no_room_refuted :
  ids (xout (snd (xexec big_cfg [XEnter 0 100 (o_pfa 9 (Some 1000)); XLeave 200 (o_pfa 12 None)] xstart))) =
  [(0, 100); (0, 200)].
Proof. exact read_diff_no_room_refuted. Qed.
Print Assumptions C17_read_diff_no_room_refuted.

Theorem C17_read_without_diff_refuted :
  ids (xout (snd (xexec big_cfg [XEnter 0 100 (o_pfa 9 (Some 920)); XLeave 200 (o_pfa 12 None)] xstart))) =
  [(0, 100); (EVENT_ID_READ_PROC_STATM, 100); (EVENT_ID_READ_PAGE_FAULT, 100); (0, 200)].
Proof. exact read_without_diff_refuted. Qed.
Print Assumptions C17_read_without_diff_refuted.

Theorem C17_asz_bound_exact :
  length (xout (snd (xexec big_cfg [XEnter 0 100 (o_pfa 9 (Some 684)); XLeave 200 (o_pfa 12 None)] xstart))) = 12%nat /\
  length (xout (snd (xexec big_cfg [XEnter 0 100 (o_pfa 9 (Some 688)); XLeave 200 (o_pfa 12 None)] xstart))) = 11%nat.
Proof. exact asz_bound_exact. Qed.
Print Assumptions C17_asz_bound_exact.

(* the return value save_retval writes at the exit (after the diff events are in place: size word, for a string
   2-byte length + at most ARG_STR_MAX + 1 bytes; scalars <= 16 bytes; a struct is not copied) ends below the
   event area even when all ten events are stored *)
Theorem C17_retval_below_events : 4 + 2 + ARG_STR_MAX + 1 <= C17_ARGBUF_SIZE - 2 * ksize table.
Proof. exact retval_below_events. Qed.
Print Assumptions C17_retval_below_events.

(* the guard itself, at buffer level *)
(* save_trigger_read stores an event only where it does not overlap the argument bytes of the frame
   (size word included), and stores it whenever it fits *)
Theorem C17_event_area_disjoint : forall b dsz, guard_stores b dsz = true -> disjoint_after b dsz = true.
Proof. exact event_area_disjoint. Qed.
Print Assumptions C17_event_area_disjoint.

Theorem C17_guard_exact : forall b dsz, guard_stores b dsz = room_for b dsz.
Proof. exact guard_exact. Qed.
Print Assumptions C17_guard_exact.

(* before 7cf042b the size word was read through the event pointer: events could overwrite argument bytes ... *)
Theorem C17_event_area_disjoint_legacy_refuted :
  let b := {| has_args := true; asz := 1000; event_idx := C17_ARGBUF_SIZE; w_at_ptr := 0 |} in
  guard_stores_legacy b SIZEOF_PAGE_FAULT = true /\ disjoint_after b SIZEOF_PAGE_FAULT = false /\
  guard_stores b SIZEOF_PAGE_FAULT = false.
Proof. exact event_area_disjoint_legacy_refuted. Qed.
Print Assumptions C17_event_area_disjoint_legacy_refuted.

(* ... and the diff event of a function with captured arguments was always rejected *)
Theorem C17_diff_lost_with_args_legacy_refuted :
  let b := {| has_args := true; asz := 8; event_idx := C17_ARGBUF_SIZE - (EVTBUF_HDR + SIZEOF_PAGE_FAULT);
              w_at_ptr := 5000 |} in
  room_for b SIZEOF_PAGE_FAULT = true /\ guard_stores_legacy b SIZEOF_PAGE_FAULT = false /\
  guard_stores b SIZEOF_PAGE_FAULT = true.
Proof. exact diff_event_lost_with_args_legacy_refuted. Qed.
Print Assumptions C17_diff_lost_with_args_legacy_refuted.

(* all events of a frame (5 kinds, read + diff) always fit into the buffer *)
Theorem C17_all_events_fit :
  2 * ((EVTBUF_HDR + SIZEOF_PROC_STATM) + (EVTBUF_HDR + SIZEOF_PAGE_FAULT) + (EVTBUF_HDR + SIZEOF_PMU_CYCLE) +
       (EVTBUF_HDR + SIZEOF_PMU_CACHE) + (EVTBUF_HDR + SIZEOF_PMU_BRANCH)) <= C17_ARGBUF_SIZE.
Proof. exact all_events_fit. Qed.
Print Assumptions C17_all_events_fit.

(* ------------------------------------------------------------------ the reader side: depth limits at analysis time *)
(* For EVERY recorded call tree with events anywhere in it, every -D N and every set of depth=N triggers given to
   replay / dump / report / graph: the depth filter of utils/fstack.c shows exactly [rvis]: a function iff the
   depth budget lets it (a depth= trigger opens a new budget), an event iff the innermost function around it is
   shown - under that function; events of functions beyond the limit vanish with them; the filter state after a
   call is the state before it *)
Theorem C17_reader_depth : forall c t b stk,
  rrun false c (rflat t) (b, stk) = ((b, stk), rvis c (top_shown (b, stk)) b t).
Proof. exact reader_depth. Qed.
Print Assumptions C17_reader_depth.

Theorem C17_reader_depth_recording : forall c ts,
  snd (rrun false c (flat_map rflat ts) (rgdepth c, [])) = flat_map (rvis c (0 <? rgdepth c)%Z (rgdepth c)) ts.
Proof. exact reader_depth_top. Qed.
Print Assumptions C17_reader_depth_recording.

(* main { alpha { e1; beta { e2 }; e3 } } with -D 2: alpha keeps e1 and e3, beta and e2 are gone ... *)
Theorem C17_reader_depth_example :
  snd (rrun false rd_cfg (rflat rd_tree) (2%Z, [])) = [RE 0; RE 1; REV 1; REV 3; RX 1; RX 0].
Proof. exact reader_depth_example. Qed.
Print Assumptions C17_reader_depth_example.

(* ... before 9a6dfe6 the deepest function shown lost its events (shown iff filter.depth > 0) *)
Theorem C17_reader_depth_legacy_refuted :
  snd (rrun true rd_cfg (rflat rd_tree) (2%Z, [])) = [RE 0; RE 1; RX 1; RX 0].
Proof. exact reader_depth_legacy_refuted. Qed.
Print Assumptions C17_reader_depth_legacy_refuted.

(* the model's constants are those of the current source *)
Theorem C17_layout_sanity :
  table = [K_STATM; K_PF; K_CYCLE; K_CACHE; K_BRANCH] /\
  SIZEOF_PROC_STATM = 24 /\ SIZEOF_PAGE_FAULT = 16 /\ SIZEOF_PMU_CYCLE = 16 /\ SIZEOF_PMU_CACHE = 16 /\
  SIZEOF_PMU_BRANCH = 16 /\ EVTBUF_HDR = 16 /\ C17_MAX_EVENT = MAX_EVENT /\ C17_ARGBUF_SIZE = ARGBUF_SIZE /\
  NoDup (map id_read all_kinds ++ map id_diff all_kinds ++ [C17_EVENT_ID_WATCH_CPU; C17_EVENT_ID_WATCH_VAR]).
Proof. exact layout_sanity. Qed.
Print Assumptions C17_layout_sanity.
