(* C07 - the internal fixup table (exec*, setjmp, longjmp, fork, vfork, daemon ...) is trigger-only: the calls an
   analysis command selects do not depend on whether a function is in that table. *)
From Coq Require Import NArith ZArith List Bool Lia.
Import ListNotations.
Require Import UV.C07.Model UV.C07.Proofs.
Local Open Scope Z_scope.

(* [has_user] tells which functions have an entry in the user's table: every other function has no action there *)
Definition user_table (has_user : N -> bool) (c : cfg) : Prop := forall f, has_user f = false -> trig_of c f = notrig.

Lemma lookup_is_user isf user c : user_table user c -> forall f, entry_lookup fixup_entry isf user c f = trig_of c f.
Proof.
  intros Hu f. unfold entry_lookup, fixup_entry. destruct (user f) eqn:E; [reflexivity|].
  rewrite (Hu f E). destruct (isf f); reflexivity.
Qed.

Section Ext.
  Variables (isf user : N -> bool) (c : cfg).
  Hypothesis Hu : user_table user c.
  Let c' := cfg_seen fixup_entry isf user c.

  Lemma trig_seen f : trig_of c' f = trig_of c f.
  Proof. apply lookup_is_user. exact Hu. Qed.

  Lemma flat_map_ext_Forall {A B} (g h : A -> list B) l : Forall (fun x => g x = h x) l -> flat_map g l = flat_map h l.
  Proof. induction 1 as [|x l Hx _ IH]; [reflexivity|]. cbn [flat_map]. rewrite Hx, IH. reflexivity. Qed.

  Lemma tprune_seen : forall n thr, tprune c' thr n = tprune c thr n.
  Proof.
    induction n as [f t0 t1 ks IH] using call_ind'. intro thr. cbn [tprune]. rewrite (trig_seen f).
    change (caller_filter c') with (caller_filter c).
    set (th := match q_time (trig_of c f) with Some t => t | None => thr end).
    rewrite (flat_map_ext_Forall (tprune c' th) (tprune c th) ks)
      by (eapply Forall_impl; [|exact IH]; intros k Hk; apply Hk).
    reflexivity.
  Qed.

  Lemma vis_seen : forall n inF bud d rd, vis c' inF bud d rd n = vis c inF bud d rd n.
  Proof.
    induction n as [f t0 t1 ks IH] using call_ind'. intros inF bud d rd.
    assert (K : forall inF bud d rd, flat_map (vis c' inF bud d rd) ks = flat_map (vis c inF bud d rd) ks).
    { intros. apply flat_map_ext_Forall. eapply Forall_impl; [|exact IH]. intros k Hk. apply Hk. }
    cbn [vis]. rewrite (trig_seen f).
    change (fmode_in c') with (fmode_in c). change (gdepth c') with (gdepth c).
    change (loc_hidden c' f) with (loc_hidden c f). change (hidden_plt c' f) with (hidden_plt c f).
    rewrite !K. reflexivity.
  Qed.

  (* the selection of report / graph / dump / replay (C07_matches_documented...) is the user's options' selection *)
  Theorem select_seen forest : select c' forest = select c forest.
  Proof.
    unfold select. change (threshold c') with (threshold c). change (gdepth c') with (gdepth c).
    rewrite (flat_map_ext_Forall (tprune c' (threshold c)) (tprune c (threshold c)) forest)
      by (apply Forall_forall; intros n _; apply tprune_seen).
    apply flat_map_ext_Forall. apply Forall_forall. intros n _. apply vis_seen.
  Qed.
End Ext.

Theorem fixup_table_irrelevant isf user c forest : user_table user c ->
  select (cfg_seen fixup_entry isf user c) forest = select c forest.
Proof. intro Hu. apply select_seen. exact Hu. Qed.

(* had the table been registered as opt-in filters (uftrace_setup_filter: TRIGGER_FL_FILTER, FILTER_MODE_IN), a call
   to fork outside the -F scope would be selected, and -D would start again below it *)
Definition as_filter : rtrig :=
  {| q_filter := Some true; q_depth := None; q_time := None; q_trace_on := false; q_trace_off := false;
     q_trace := false; q_caller := false; q_hide := false |}.
Definition c_fx : cfg := mkcfg [(3%N, as_filter)] true false 2 0 0 0 [] true false.
Definition f_fx : list call :=
  [Call 0 1000 2000 [Call 2 1100 1150 []; Call 3 1400 1900 [Call 1 1500 1800 [Call 2 1600 1700 [Call 4 1610 1620 []]]]]].
Definition is_fork (f : N) : bool := (f =? 2)%N.
Definition user_fx (f : N) : bool := (f =? 3)%N.
Lemma fixup_as_filter :
  map ob_n (select c_fx f_fx) = [(false, 3%N); (false, 1%N); (true, 1%N); (true, 3%N)]
  /\ map ob_n (select (cfg_seen as_filter is_fork user_fx c_fx) f_fx)
     = [(false, 2%N); (true, 2%N); (false, 3%N); (false, 1%N); (false, 2%N); (false, 4%N); (true, 4%N); (true, 2%N); (true, 1%N); (true, 3%N)]
  /\ user_table user_fx c_fx.
Proof.
  split; [vm_compute; reflexivity|]. split; [vm_compute; reflexivity|].
  intros f E. unfold c_fx, mkcfg, mkcfgL, user_fx in *. cbn [trig_of assoc]. rewrite E. reflexivity.
Qed.
