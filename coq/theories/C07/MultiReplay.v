(* C07 - replay with leaf folding over SEVERAL tasks: fstack_skip() peeks at the globally next record, which
   may belong to another task; it still shows exactly the calls the report/graph/dump loop shows, for all
   option sets (trace_on/trace_off and -r included) and all interleavings of depth-consistent task streams,
   provided --no-libcall hides no PLT function. *)
From Coq Require Import NArith ZArith List Bool Lia PeanoNat.
Import ListNotations.
Require Import ZifyBool ZifyN ZifyNat.
Require Import UV.C07.Model UV.C07.Proofs UV.C07.Replay UV.C07.Multi.
Local Open Scope Z_scope.

(* ------------------------------------------------------------------ the shared flag *)
Lemma we_we s a b : with_enabled (with_enabled s a) b = with_enabled s b.
Proof. reflexivity. Qed.
Lemma we_id s : with_enabled s (enabled s) = s.
Proof. destruct s; reflexivity. Qed.
Lemma we_update s b : update_entry (with_enabled s b) = with_enabled (update_entry s) b.
Proof. reflexivity. Qed.
Lemma task_put_other m t t' s : t' <> t -> task_of (put_task m t s) t' = with_enabled (task_of m t') (enabled s).
Proof. intro H. unfold task_of. rewrite (tasks_put_other m t t' s H). reflexivity. Qed.
Lemma task_enabled m t : enabled (task_of m t) = m_enabled m.
Proof. reflexivity. Qed.
Lemma task_we m t : with_enabled (task_of m t) (m_enabled m) = task_of m t.
Proof. reflexivity. Qed.

Lemma GI_we s b : GI (with_enabled s b) <-> GI s.
Proof. unfold GI. cbn [with_enabled started outc below disp]. tauto. Qed.
Lemma GI_update s : GI s -> GI (update_entry s).
Proof. intros (A & B & C & D). unfold GI, update_entry, set_disp. cbn [started outc below disp]. repeat split; auto. lia. Qed.

(* ------------------------------------------------------------------ a task that has not read a record yet *)
Definition task_ok (c : cfg) (s : st) (rs : list rec) : Prop :=
  (started s = true /\ GI s /\ dcons (stack_count s) rs)
  \/ (started s = false /\ s = with_enabled (st0 c) (enabled s) /\ dcons0 rs).

Lemma task_ok_we c s b rs : task_ok c s rs -> task_ok c (with_enabled s b) rs.
Proof.
  intros [(A & B & C)|(A & B & C)]; [left|right].
  - split; [exact A|]. split; [apply (proj2 (GI_we s b)); exact B|exact C].
  - split; [exact A|]. split; [rewrite B at 1; reflexivity|exact C].
Qed.

Lemma normalize c s r rs : task_ok c s (r :: rs) ->
  exists s', started s' = true /\ GI s' /\ dcons (stack_count s') (r :: rs)
             /\ consume c s r = consume c s' r /\ check_skip c s r = check_skip c s' r /\ enabled s' = enabled s.
Proof.
  intros [(A & B & C)|(A & B & C)].
  - exists s. split; [exact A|]. split; [exact B|]. split; [exact C|]. repeat split; reflexivity.
  - cbn [dcons0] in C. destruct C as [Hn D].
    exists (with_enabled (sinit c (first_count r)) (enabled s)).
    assert (Hc : stack_count (with_enabled (sinit c (first_count r)) (enabled s)) = first_count r)
      by (apply (sinit_count c _ Hn)).
    split; [reflexivity|]. split; [apply (proj2 (GI_we _ _)); apply sinit_GI|]. split; [rewrite Hc; exact D|].
    split; [|split; [|reflexivity]].
    + rewrite B. unfold consume, first_count. cbn [with_enabled st0 started]. destruct (r_type r); reflexivity.
    + rewrite B. unfold check_skip. cbn [with_enabled st0 sinit outc below inc fdepth].
      destruct (r_type r); [reflexivity|]. destruct (Z.to_nat (first_count r)); reflexivity.
Qed.

(* ------------------------------------------------------------------ the simulation over several tasks *)
Definition mpend (md : mmode) : list tev := match md with MNormal => [] | MSkipping t e d => [(t, mkev false e d)] end.
Lemma mpend_lift t md : mpend (lift_mode t md) = map (pair t) (pendout md).
Proof. destruct md; reflexivity. Qed.

Definition MRel (m : mst) (md : mmode) (ms : mst) : Prop :=
  match md with
  | MNormal => forall t, task_of ms t = task_of m t
  | MSkipping te e d =>
      SkipInv (task_of m te) e d
      /\ forall t, task_of ms t = if Nat.eqb t te then update_entry (task_of m te) else task_of m t
  end.
Definition TI (c : cfg) (m : mst) (trs : list trec) : Prop := forall t, task_ok c (task_of m t) (of_task t trs).

Lemma MRel_enabled m md ms : MRel m md ms -> m_enabled ms = m_enabled m.
Proof.
  destruct md as [|te e d]; cbn [MRel].
  - intro H. specialize (H 0%nat). apply (f_equal enabled) in H. exact H.
  - intros [_ H]. specialize (H te). rewrite Nat.eqb_refl in H. apply (f_equal enabled) in H. exact H.
Qed.

Lemma of_task_cons_same {A} t (x : A) l : of_task t ((t, x) :: l) = x :: of_task t l.
Proof. unfold of_task. cbn [filter fst]. rewrite Nat.eqb_refl. reflexivity. Qed.
Lemma of_task_cons_other {A} t t' (x : A) l : t' <> t -> of_task t ((t', x) :: l) = of_task t l.
Proof. intro H. unfold of_task. cbn [filter fst]. apply Nat.eqb_neq in H. rewrite H. reflexivity. Qed.

Section MSim.
  Variable c : cfg.
  Hypothesis Hplt : plt_free_all c.
  Hypothesis Hmerge : no_merge c = false.

  (* both loops put the same new state of task t (up to the pending display depth of task te) *)
  Lemma put_rel m ms t s' ss' md1 :
    (forall t', t' <> t -> task_of ms t' = task_of m t') -> Rel s' md1 ss' ->
    MRel (put_task m t s') (lift_mode t md1) (put_task ms t ss').
  Proof.
    intros Hoth R. destruct md1 as [|e d]; cbn [Rel lift_mode MRel] in *.
    - subst ss'. intro t'. destruct (Nat.eq_dec t' t) as [->|Hne]; [rewrite !task_put_same; reflexivity|].
      rewrite !task_put_other by exact Hne. rewrite (Hoth t' Hne). reflexivity.
    - destruct R as [-> SI]. rewrite task_put_same. split; [exact SI|]. intro t'.
      destruct (Nat.eqb t' t) eqn:E.
      + apply Nat.eqb_eq in E. subst t'. rewrite task_put_same. reflexivity.
      + apply Nat.eqb_neq in E. rewrite !task_put_other by exact E. rewrite (Hoth t' E). reflexivity.
  Qed.

  Lemma put_TI m t s' r trs :
    TI c m ((t, r) :: trs) -> started s' = true -> GI s' -> dcons (stack_count s') (of_task t trs) ->
    TI c (put_task m t s') trs.
  Proof.
    intros T A B C t'. destruct (Nat.eq_dec t' t) as [->|Hne].
    - rewrite task_put_same. left. auto.
    - rewrite task_put_other by exact Hne. apply task_ok_we. specialize (T t').
      rewrite of_task_cons_other in T by (intro; apply Hne; auto). exact T.
  Qed.

  (* main loop of both commands reading a record of task t *)
  Lemma m_normal_step m ms t r trs :
    (forall t', task_of ms t' = task_of m t') -> TI c m ((t, r) :: trs) ->
    let '((m', md'), o) := m_rp_normal c m t r in
    let '(ms', os) := m_std_step c ms (t, r) in
    o ++ mpend md' = os /\ MRel m' md' ms' /\ TI c m' trs.
  Proof.
    intros Heq T. unfold m_rp_normal, m_std_step. rewrite (Heq t).
    pose proof (T t) as Tt. rewrite of_task_cons_same in Tt.
    destruct (normalize c _ r _ Tt) as (s0 & S1 & S2 & S3 & S4 & _ & _).
    assert (E1 : rp_normal c (task_of m t) r = rp_normal c s0 r) by (unfold rp_normal; rewrite S4; reflexivity).
    assert (E2 : std_step c (task_of m t) r = std_step c s0 r) by (unfold std_step; rewrite S4; reflexivity).
    rewrite E1, E2.
    assert (D1 : dcons (stack_count s0) [r]) by (cbn [dcons] in *; destruct (r_type r); intuition).
    pose proof (normal_step c Hplt Hmerge s0 r S2 D1) as N.
    destruct (rp_normal c s0 r) as [[s' md1] o]. destruct (std_step c s0 r) as [ss' os].
    destruct N as (No & NR & NG & Nc).
    split; [rewrite mpend_lift, <- map_app, No; reflexivity|].
    split; [apply put_rel; [intros; apply Heq|exact NR]|].
    apply (put_TI m t s' r trs T); [apply NG|exact NG|].
    rewrite Nc. cbn [dcons] in S3. destruct (r_type r); intuition.
  Qed.

  Lemma put_put_same m t a b t' : task_of (put_task (put_task m t a) t b) t' = task_of (put_task m t b) t'.
  Proof. unfold task_of, put_task. cbn [m_tasks m_enabled]. destruct (Nat.eqb t' t); reflexivity. Qed.

  Lemma MRel_ext m1 m2 md ms : (forall t, task_of m1 t = task_of m2 t) -> MRel m2 md ms -> MRel m1 md ms.
  Proof.
    intros E R. destruct md as [|te e d]; cbn [MRel] in *.
    - intro t. rewrite E. apply R.
    - destruct R as [SI R]. rewrite E. split; [exact SI|]. intro t. rewrite R. destruct (Nat.eqb t te); rewrite ?E; reflexivity.
  Qed.
  Lemma TI_ext m1 m2 trs : (forall t, task_of m1 t = task_of m2 t) -> TI c m2 trs -> TI c m1 trs.
  Proof. intros E T t. rewrite E. apply T. Qed.

  (* the record of the task whose ENTRY is pending: the single-task step, lifted *)
  Lemma m_skip_same m te e d r :
    let '((s', md1), o1) := rp_step c (task_of m te, Skipping e d) r in
    exists M', m_rp_step c (m, MSkipping te e d) (te, r) = ((M', lift_mode te md1), map (pair te) o1)
               /\ forall t', task_of M' t' = task_of (put_task m te s') t'.
  Proof.
    cbn [m_rp_step rp_step]. rewrite Nat.eqb_refl. cbn [andb]. unfold m_rp_normal.
    rewrite task_put_same.
    destruct (r_depth r <=? r_depth e) eqn:Ele.
    - destruct (r_type r).
      + destruct (rp_normal c (update_entry (task_of m te)) r) as [[s' md1] o]. eexists. split; [reflexivity|].
        intro t'. apply put_put_same.
      + destruct (r_depth r =? r_depth e); [eexists; split; [reflexivity|reflexivity]|].
        destruct (rp_normal c (update_entry (task_of m te)) r) as [[s' md1] o]. eexists. split; [reflexivity|].
        intro t'. apply put_put_same.
    - destruct (hidden_plt c (r_fn r)).
      + destruct (enabled _); eexists; (split; [reflexivity|]); intro t'; [reflexivity|].
        rewrite task_put_same. apply put_put_same.
      + destruct (check_skip c (task_of m te) r >=? 0).
        * replace (match r_type r with
                   | ENTRY => let '(sm', o) := rp_normal c (update_entry (task_of m te)) r in (sm', mkev false e d :: o)
                   | EXIT => if r_depth r =? r_depth e
                             then (fstack_exit c (consume c (task_of m te) r), Normal, [mkev false e d; mkev true r d])
                             else let '(sm', o) := rp_normal c (update_entry (task_of m te)) r in (sm', mkev false e d :: o)
                   end)
            with (let '(sm', o) := rp_normal c (update_entry (task_of m te)) r in (sm', mkev false e d :: o)).
          2:{ destruct (r_type r); [reflexivity|]. assert (E : (r_depth r =? r_depth e) = false) by lia.
              rewrite E. reflexivity. }
          destruct (rp_normal c (update_entry (task_of m te)) r) as [[s' md1] o]. eexists. split; [reflexivity|].
          intro t'. apply put_put_same.
        * destruct (enabled _); eexists; (split; [reflexivity|]); intro t'; [reflexivity|].
          rewrite task_put_same. apply put_put_same.
  Qed.

  Lemma skipinv_started c0 s e d rs : SkipInv s e d -> task_ok c0 s rs -> started s = true /\ GI s /\ dcons (stack_count s) rs.
  Proof.
    intros (_ & _ & _ & extra & sle & rest & Hb & _) [H|(A & B & _)]; [exact H|].
    rewrite B in Hb. cbn [with_enabled st0 below] in Hb. destruct extra; discriminate.
  Qed.

  (* a record read while an ENTRY of task te is pending *)
  Lemma m_skip_step m ms te e d t r trs :
    MRel m (MSkipping te e d) ms -> TI c m ((t, r) :: trs) ->
    let '((m', md'), o) := m_rp_step c (m, MSkipping te e d) (t, r) in
    let '(ms', os) := m_std_step c ms (t, r) in
    o ++ mpend md' = (te, mkev false e d) :: os /\ MRel m' md' ms' /\ TI c m' trs.
  Proof.
    intros [SI R] T.
    assert (Roth : forall t', t' <> te -> task_of ms t' = task_of m t').
    { intros t' H. rewrite R. apply Nat.eqb_neq in H. rewrite H. reflexivity. }
    assert (Rte : task_of ms te = update_entry (task_of m te)) by (rewrite R, Nat.eqb_refl; reflexivity).
    destruct (Nat.eq_dec t te) as [->|Hne].
    - (* the pending task itself *)
      pose proof (T te) as Tt. rewrite of_task_cons_same in Tt.
      destruct (skipinv_started c _ e d _ SI Tt) as (S1 & S2 & S3).
      assert (D1 : dcons (stack_count (task_of m te)) [r]) by (cbn [dcons] in *; destruct (r_type r); intuition).
      pose proof (skip_step c Hplt Hmerge (task_of m te) e d r S2 SI D1) as K.
      pose proof (m_skip_same m te e d r) as Same.
      unfold m_std_step. rewrite Rte.
      destruct (rp_step c (task_of m te, Skipping e d) r) as [[s' md1] o1].
      destruct (std_step c (update_entry (task_of m te)) r) as [ss' os].
      destruct Same as (M' & EM & PM). rewrite EM.
      destruct K as (Ko & KR & KG & Kc).
      split; [rewrite mpend_lift, <- map_app, Ko; reflexivity|].
      split.
      + apply (MRel_ext _ _ _ _ PM). apply put_rel; [exact Roth|exact KR].
      + apply (TI_ext _ _ _ PM). apply (put_TI m te s' r trs T); [apply KG|exact KG|].
        rewrite Kc. cbn [dcons] in S3. destruct (r_type r); intuition.
    - (* another task *)
      cbn [m_rp_step]. apply Nat.eqb_neq in Hne. rewrite Hne. cbn [andb]. apply Nat.eqb_neq in Hne.
      rewrite (Hplt (r_fn r)).
      pose proof (T t) as Tt. rewrite of_task_cons_same in Tt.
      destruct (normalize c _ r _ Tt) as (s0 & S1 & S2 & S3 & S4 & S5 & S6).
      assert (D1 : dcons (stack_count s0) [r]) by (cbn [dcons] in *; destruct (r_type r); intuition).
      pose proof (T te) as Tte. rewrite of_task_cons_other in Tte by (intro; apply Hne; auto).
      destruct (skipinv_started c _ e d _ SI Tte) as (E1 & E2 & E3).
      assert (Hen : m_enabled m = true) by (destruct SI as [A _]; exact A).
      rewrite S5.
      destruct (check_skip c s0 r >=? 0) eqn:Ecs.
      + (* not skippable: the pending ENTRY is printed, then the main loop reads the record *)
        set (m1 := put_task m te (update_entry (task_of m te))).
        assert (P1 : forall t', task_of ms t' = task_of m1 t').
        { intro t'. unfold m1. destruct (Nat.eq_dec t' te) as [->|H].
          - rewrite task_put_same. exact Rte.
          - rewrite task_put_other by exact H. cbn [update_entry set_disp enabled]. rewrite task_enabled, task_we.
            apply Roth. exact H. }
        assert (T1 : TI c m1 ((t, r) :: trs)).
        { intro t'. unfold m1. destruct (Nat.eq_dec t' te) as [->|H].
          - rewrite task_put_same. left. rewrite of_task_cons_other by (intro; apply Hne; auto).
            split; [exact E1|]. split; [apply GI_update; exact E2|exact E3].
          - rewrite task_put_other by exact H. cbn [update_entry set_disp enabled]. rewrite task_enabled, task_we.
            apply T. }
        pose proof (m_normal_step m1 ms t r trs P1 T1) as N.
        destruct (m_rp_normal c m1 t r) as [[m' md'] o]. destruct (m_std_step c ms (t, r)) as [ms' os].
        destruct N as (No & NR & NT). split; [cbn [app]; rewrite No; reflexivity|]. split; assumption.
      + (* swallowed by fstack_skip: invisible to the other loop as well *)
        rewrite <- S5 in Ecs. rewrite S5 in Ecs.
        pose proof (swallow_std c Hmerge s0 r S2 D1 Ecs) as (W1 & W2 & W3).
        unfold m_std_step. rewrite (Roth t Hne).
        assert (Estd : std_step c (task_of m t) r = std_step c s0 r) by (unfold std_step; rewrite S4; reflexivity).
        rewrite Estd, W1. rewrite S4.
        set (s2 := match r_type r with
                   | ENTRY => fst (fstack_entry c (consume c s0 r) r)
                   | EXIT => fstack_exit c (consume c s0 r)
                   end) in *.
        assert (T2 : TI c (put_task m t s2) trs).
        { apply (put_TI m t s2 r trs T); [apply W2|exact W2|]. rewrite W3. cbn [dcons] in S3.
          destruct (r_type r); intuition. }
        destruct (enabled s2) eqn:En2.
        * split; [reflexivity|]. split; [|exact T2].
          cbn [MRel]. rewrite (task_put_other m t te s2) by (intro; apply Hne; auto).
          rewrite En2, <- Hen, task_we. split; [exact SI|]. intro t'.
          destruct (Nat.eq_dec t' t) as [->|H].
          -- rewrite !task_put_same. apply Nat.eqb_neq in Hne. rewrite Hne. reflexivity.
          -- rewrite (task_put_other ms t t' s2 H), En2.
             destruct (Nat.eqb t' te) eqn:Ete.
             ++ apply Nat.eqb_eq in Ete. subst t'. rewrite Rte. rewrite <- Hen. reflexivity.
             ++ apply Nat.eqb_neq in Ete. rewrite (task_put_other m t t' s2 H), En2, (Roth t' Ete). reflexivity.
        * split; [reflexivity|].
          set (m2 := put_task m t s2).
          assert (Pte : task_of m2 te = with_enabled (task_of m te) false).
          { unfold m2. rewrite task_put_other by (intro; apply Hne; auto). rewrite En2. reflexivity. }
          split.
          -- cbn [MRel]. intro t'. rewrite Pte.
             destruct (Nat.eq_dec t' te) as [->|H1].
             ++ rewrite task_put_same. rewrite (task_put_other ms t te s2) by (intro; apply Hne; auto).
                rewrite En2, Rte. reflexivity.
             ++ rewrite (task_put_other _ te t' _ H1). cbn [update_entry set_disp enabled with_enabled].
                destruct (Nat.eq_dec t' t) as [->|H2].
                ** unfold m2. rewrite !task_put_same. rewrite <- En2. symmetry. apply we_id.
                ** unfold m2. rewrite (task_put_other ms t t' s2 H2), (task_put_other m t t' s2 H2), En2, (Roth t' H1).
                   reflexivity.
          -- intro t'. rewrite Pte. destruct (Nat.eq_dec t' te) as [->|H1].
             ++ rewrite task_put_same. specialize (T2 te). fold m2 in T2. rewrite Pte in T2.
                destruct T2 as [(A & B & C)|(A & _)]; [|change (started (task_of m te) = false) in A; congruence].
                left. split; [exact A|]. split; [apply GI_update; exact B|exact C].
             ++ rewrite (task_put_other _ te t' _ H1). cbn [update_entry set_disp enabled with_enabled].
                apply task_ok_we. apply T2.
  Qed.

  Lemma msim : forall trs m md ms, MRel m md ms -> TI c m trs ->
    let '(mmr, o_r) := m_run (m_rp_step c) (m, md) trs in
    let '(ms', o_s) := m_run (m_std_step c) ms trs in
    o_r ++ m_rp_finish mmr = mpend md ++ o_s.
  Proof.
    induction trs as [|[t r] trs IH]; intros m md ms R T.
    - cbn [m_run]. destruct md; cbn; reflexivity.
    - cbn [m_run]. destruct md as [|te e d].
      + cbn [m_rp_step]. pose proof (m_normal_step m ms t r trs R T) as N.
        destruct (m_rp_normal c m t r) as [[m' md'] o]. destruct (m_std_step c ms (t, r)) as [ms' os].
        destruct N as (No & NR & NT). specialize (IH m' md' ms' NR NT).
        destruct (m_run (m_rp_step c) (m', md') trs) as [mmr o_r]. destruct (m_run (m_std_step c) ms' trs) as [ms2 o_s].
        cbn [mpend app]. rewrite <- app_assoc, IH, app_assoc, No. reflexivity.
      + pose proof (m_skip_step m ms te e d t r trs R T) as N.
        destruct (m_rp_step c (m, MSkipping te e d) (t, r)) as [[m' md'] o].
        destruct (m_std_step c ms (t, r)) as [ms' os].
        destruct N as (No & NR & NT). specialize (IH m' md' ms' NR NT).
        destruct (m_run (m_rp_step c) (m', md') trs) as [mmr o_r]. destruct (m_run (m_std_step c) ms' trs) as [ms2 o_s].
        cbn [mpend app]. rewrite <- app_assoc, IH, app_assoc, No. reflexivity.
  Qed.
End MSim.

Theorem replay_multi c ss : plt_free_all c -> (forall t, dcons0 (pre c (nth t ss []))) ->
  run_rp_m c ss = run_std_m c ss.
Proof.
  intros Hp Hd. destruct (no_merge c) eqn:Hm; [apply nomerge_multi; assumption|].
  unfold run_rp_m, run_std_m.
  assert (T : TI c (m_init c) (merged c ss)).
  { intro t. right. split; [reflexivity|]. split; [reflexivity|].
    unfold merged. set (ps := map (pre c) ss).
    rewrite (proj1 (merge_task (total_len ps) ps t (le_n _))).
    unfold ps. destruct (Nat.lt_ge_cases t (length ss)) as [H|H].
    - rewrite (nth_indep _ [] (pre c [])) by (rewrite map_length; exact H). rewrite map_nth. apply Hd.
    - rewrite nth_overflow by (rewrite map_length; exact H). exact I. }
  pose proof (msim c Hp Hm (merged c ss) (m_init c) MNormal (m_init c) (fun t => eq_refl) T) as S.
  destruct (m_run (m_rp_step c) (m_init c, MNormal) (merged c ss)) as [mmr o_r].
  destruct (m_run (m_std_step c) (m_init c) (merged c ss)) as [ms o_s]. cbn [snd mpend app] in *. exact S.
Qed.

(* recordings of call forests, no -r: every task of replay shows the documented selection *)
Theorem replay_multi_select c fs t : plt_free_all c -> no_switch_all c -> no_range c = true -> (t < length fs)%nat ->
  of_task t (run_rp_m c (map (flats 0) fs)) = select c (nth t fs []).
Proof.
  intros Hp Hns Hr Ht. rewrite replay_multi; [apply tasks_match_select; assumption|exact Hp|].
  intro t0. destruct (Nat.lt_ge_cases t0 (length fs)) as [H|H].
  - rewrite (nth_indep _ [] (flats 0 [])) by (rewrite map_length; exact H). rewrite map_nth.
    rewrite (pre_forest c _ Hr).
    pose proof (dcons_forest (flat_map (tprune c (threshold c)) (nth t0 fs [])) 0 (Z.le_refl 0)) as D.
    destruct (flats_head 0 (flat_map (tprune c (threshold c)) (nth t0 fs []))) as [->|(tm & fn & rest & E)]; [exact I|].
    rewrite E in *. cbn [dcons0 first_count r_type r_depth]. split; [lia|exact D].
  - rewrite nth_overflow by (rewrite map_length; exact H). unfold pre. cbn. exact I.
Qed.
