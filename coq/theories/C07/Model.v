(* C07 - model of the analysis-time (replay-side) filter machinery of utils/fstack.c and of the
   driver loops of cmds/{replay,report,graph,dump,script}.c, AS THE CODE IS:

     get_task_ustack        look-ahead list: time range, time filter (-t, time=), caller filter (-C),
                            `trace` trigger, per-task stack of time= overrides       -> [lookahead]
     fstack_account_time /  first-record initialisation of stack_count, stack_count++/--
     fstack_update_stack_count                                                        -> [consume]
     fstack_entry / fstack_exit / fstack_update / fstack_check_filter(_done)          -> same names
     fstack_check_skip / fstack_skip + print_graph_rstack (leaf folding)              -> [check_skip], [rp_step]
     report / graph / dump --chrome|--flame-graph / tui loop shape                    -> [std_step]
     dump (raw) loop: read_task_ustack directly - NO look-ahead filter                -> [raw_step]
     replay / script loop shape (--no-libcall tested BEFORE fstack_entry)             -> [rp_step]

   One session, user ENTRY/EXIT records only; first for one task, then (last sections) for several tasks
   merged by timestamp with ONE shared fstack_enabled.  Not modelled: kernel/perf/event/LOST records,
   -Z/size=, -L (needs DWARF), elapsed-time ranges, --trace=off, exec/setjmp/fork fix-ups (tasks are threads),
   stack deeper than max_stack.

   The spec side ([tprune], [vis], [select], [vis_sw], [select_sw]) is written by recursion on call trees.
   NO proofs in this file.                                                                     *)
From Coq Require Import NArith ZArith List Bool.
Import ListNotations.
Require UV.Mcount.Model.
Local Open Scope Z_scope.

(* ------------------------------------------------------------------ call trees and records *)
Inductive call := Call (fn t0 t1 : N) (kids : list call).

Definition c_fn (c : call) : N := match c with Call f _ _ _ => f end.
Definition c_t0 (c : call) : N := match c with Call _ t _ _ => t end.
Definition c_t1 (c : call) : N := match c with Call _ _ t _ => t end.
Definition c_kids (c : call) : list call := match c with Call _ _ _ k => k end.

Inductive rtype := ENTRY | EXIT.
Record rec := { r_time : N; r_type : rtype; r_depth : Z; r_fn : N }.

(* the unfiltered recording of a call executed at nesting depth d *)
Fixpoint flat (d : Z) (c : call) : list rec :=
  match c with
  | Call f t0 t1 ks =>
      {| r_time := t0; r_type := ENTRY; r_depth := d; r_fn := f |}
        :: flat_map (flat (d + 1)) ks
        ++ [{| r_time := t1; r_type := EXIT; r_depth := d; r_fn := f |}]
  end.
Definition flats (d : Z) (f : list call) : list rec := flat_map (flat d) f.

(* ------------------------------------------------------------------ options *)
Record rtrig := {
  q_filter : option bool;          (* TRIGGER_FL_FILTER: Some true = -F / @filter, Some false = -N / @notrace *)
  q_depth : option Z;              (* @depth=N *)
  q_time : option N;               (* @time=T *)
  q_trace_on : bool; q_trace_off : bool;
  q_trace : bool;                  (* @trace *)
  q_caller : bool;                 (* -C *)
  q_hide : bool                    (* -H / @hide *)
}.
Definition notrig : rtrig :=
  {| q_filter := None; q_depth := None; q_time := None; q_trace_on := false; q_trace_off := false;
     q_trace := false; q_caller := false; q_hide := false |}.

Record cfg := {
  trig_of : N -> rtrig;            (* uftrace_match_filter on the session's filter tree, by function number *)
  fmode_in : bool;                 (* fstack_triggers.filter_count > 0 *)
  caller_filter : bool;            (* handle->caller_filter (-C given) *)
  gdepth : Z;                      (* handle->depth (-D, default 1024) *)
  threshold : N;                   (* handle->time_filter (-t) *)
  range_start : N; range_stop : N; (* handle->time_range, absolute timestamps, 0 = not given *)
  loc_of : N -> option bool;       (* TRIGGER_FL_LOC of the function's source file: Some true = -L FILE,
                                      Some false = -L FILE@hide *)
  lmode_in : bool;                 (* fstack_triggers.loc_count > 0 (some -L without @hide) *)
  is_plt : N -> bool;              (* sym->type == ST_PLT_FUNC *)
  libcall : bool;                  (* opts->libcall (false = --no-libcall) *)
  no_merge : bool                  (* replay --no-merge; the script command behaves like no_merge *)
}.

Definition two64 : N := 18446744073709551616.
Definition tdelta (t1 t0 : N) : N := ((t1 + two64 - t0) mod two64)%N.
Definition dur (c : call) : N := tdelta (c_t1 c) (c_t0 c).

(* utils.c check_time_range, absolute start/stop *)
Definition in_range (c : cfg) (t : N) : bool :=
  negb ((negb (range_start c =? 0)%N) && (t <? range_start c)%N)
  && negb ((negb (range_stop c =? 0)%N) && (range_stop c <? t)%N).

(* ------------------------------------------------------------------ get_task_ustack *)
(* [pend] = task->rstack_list, LAST element first (here it only ever holds ENTRY records);
   [tfs]  = task->filter.stack as (depth, threshold), top first.
   The result is the sequence of records handed to the command loops, in order. *)
Definition tfs_thr (c : cfg) (tfs : list (Z * N)) : N :=
  match tfs with (_, th) :: _ => th | [] => threshold c end.

Fixpoint lookahead (c : cfg) (rs : list rec) (pend : list rec) (tfs : list (Z * N)) : list rec :=
  match rs with
  | [] => rev pend
  | r :: rs' =>
      let tr := trig_of c (r_fn r) in
      let tf := match q_time tr with Some t => t | None => tfs_thr c tfs end in
      match r_type r with
      | ENTRY =>
          lookahead c rs' (r :: pend)
                    (match q_time tr with Some _ => (r_depth r, tf) :: tfs | None => tfs end)
      | EXIT =>
          let tfs' := match tfs with
                      | (d, _) :: rest => if d =? r_depth r then rest else tfs
                      | [] => []
                      end in
          match pend with
          | [] => r :: lookahead c rs' [] tfs'                   (* "already exceeded time filter" *)
          | e :: pend' =>
              let filtered := (tdelta (r_time r) (r_time e) <? tf)%N
                              || (caller_filter c && negb (q_caller tr)) in
              if filtered && negb (q_trace tr)
              then lookahead c rs' pend' tfs'                    (* delete the matching entry *)
              else rev pend ++ r :: lookahead c rs' [] tfs'      (* flush the whole list *)
          end
      end
  end.

(* what the merged-stream commands read *)
Definition pre (c : cfg) (rs : list rec) : list rec :=
  lookahead c (filter (fun r => in_range c (r_time r)) rs) [] [].

(* ------------------------------------------------------------------ per-task filter state *)
Definition NOFN : N := 4095.       (* fstack->addr == 0: slot never written by an ENTRY *)
Record slot := { sl_filtered : bool; sl_notrace : bool; sl_norecord : bool; sl_orig : Z; sl_fn : N }.

(* task->func_stack is an array.  [below] = slots 0 .. stack_count-1 (top first),
   [above] = slots stack_count .. (nearest first; missing = never touched = [dslot]). *)
Record st := {
  below : list slot; above : list slot;
  inc : Z; outc : Z; fdepth : Z;            (* task->filter.in_count / out_count / depth *)
  enabled : bool;                           (* fstack_enabled *)
  disp : Z; disp_set : bool;                (* task->display_depth(_set) *)
  started : bool                            (* task->fstack_set *)
}.

Definition dslot (c : cfg) : slot :=
  {| sl_filtered := false; sl_notrace := false; sl_norecord := false; sl_orig := gdepth c; sl_fn := NOFN |}.
Definition st0 (c : cfg) : st :=
  {| below := []; above := []; inc := 0; outc := 0; fdepth := gdepth c; enabled := true;
     disp := 0; disp_set := (range_start c =? 0)%N; started := false |}.

Definition stack_count (s : st) : Z := Z.of_nat (length (below s)).
Definition top_above (c : cfg) (s : st) : slot := hd (dslot c) (above s).

Definition set_stacks (s : st) (b a : list slot) : st :=
  {| below := b; above := a; inc := inc s; outc := outc s; fdepth := fdepth s; enabled := enabled s;
     disp := disp s; disp_set := disp_set s; started := started s |}.

(* fstack_account_time (first record only) + fstack_update_stack_count *)
Definition consume (c : cfg) (s0 : st) (r : rec) : st :=
  let s := if started s0 then s0 else
             let n := match r_type r with ENTRY => r_depth r | EXIT => r_depth r + 1 end in
             {| below := repeat (dslot c) (Z.to_nat n); above := []; inc := inc s0; outc := outc s0;
                fdepth := gdepth c; enabled := enabled s0; disp := disp s0; disp_set := disp_set s0;
                started := true |} in
  match r_type r with
  | ENTRY =>
      let sl := top_above c s in
      set_stacks s ({| sl_filtered := sl_filtered sl; sl_notrace := sl_notrace sl; sl_norecord := sl_norecord sl;
                       sl_orig := sl_orig sl; sl_fn := r_fn r |} :: below s) (tl (above s))
  | EXIT =>
      match below s with
      | [] => s                                         (* stack_count stays 0 *)
      | x :: b => set_stacks s b (x :: above s)
      end
  end.

(* the source-location filter hides the function itself (not its callees), before its triggers are looked at *)
Definition loc_hidden (c : cfg) (f : N) : bool :=
  match loc_of c f with Some false => true | Some true => false | None => lmode_in c end.

(* fstack_entry on slot stack_count-1; returns the new state and "ret == 0" *)
Definition fstack_entry (c : cfg) (s : st) (r : rec) : st * bool :=
  match below s with
  | [] => (s, false)                                    (* fstack_get() == NULL *)
  | sl0 :: b =>
      let mk (flt ntr nrc : bool) := {| sl_filtered := flt; sl_notrace := ntr; sl_norecord := nrc;
                                        sl_orig := fdepth s; sl_fn := sl_fn sl0 |} in
      let ret (flt ntr nrc : bool) (i o d : Z) (en : bool) (dd : Z) (ds : bool) (ok : bool) :=
        ({| below := mk flt ntr nrc :: b; above := above s; inc := i; outc := o; fdepth := d; enabled := en;
            disp := dd; disp_set := ds; started := started s |}, ok) in
      if outc s >? 0 then ret false false true (inc s) (outc s) (fdepth s) (enabled s) (disp s) (disp_set s) false else
      let tr := trig_of c (r_fn r) in
      match q_filter tr with
      | Some false => ret false true true (inc s) (outc s + 1) (fdepth s) (enabled s) (disp s) (disp_set s) false
      | qf =>
          let isF := match qf with Some true => true | _ => false end in
          if negb isF && fmode_in c && (inc s =? 0)
          then ret false false true (inc s) (outc s) (fdepth s) (enabled s) (disp s) (disp_set s) false else
          let i1 := if isF then inc s + 1 else inc s in
          let d1 := if isF then gdepth c else fdepth s in
          if loc_hidden c (r_fn r)
          then ret isF false true i1 (outc s) d1 (enabled s) (disp s) (disp_set s) false else
          let d2 := match q_depth tr with Some x => x | None => d1 end in
          let en1 := if q_trace_on tr then true else enabled s in
          let en2 := if q_trace_off tr then false else en1 in
          let ds1 := if q_trace_off tr then false else disp_set s in
          if negb en2 then ret isF false false i1 (outc s) d2 en2 (disp s) ds1 false else
          if (d2 <=? 0) || q_hide tr then ret isF false true i1 (outc s) d2 en2 (disp s) ds1 false else
          let dd := if ds1 then disp s else Z.max 0 (stack_count s - 1) in
          ret isF false false i1 (outc s) (d2 - 1) en2 dd true true
      end
  end.

(* fstack_exit on slot stack_count (the record has been consumed already) *)
Definition fstack_exit (c : cfg) (s : st) : st :=
  let sl := top_above c s in
  {| below := below s;
     above := {| sl_filtered := false; sl_notrace := false; sl_norecord := false; sl_orig := sl_orig sl;
                 sl_fn := sl_fn sl |} :: tl (above s);
     inc := if sl_filtered sl then inc s - 1 else inc s;
     outc := if sl_filtered sl then outc s else if sl_notrace sl then outc s - 1 else outc s;
     fdepth := sl_orig sl; enabled := enabled s; disp := disp s; disp_set := disp_set s; started := started s |}.

Definition set_disp (s : st) (d : Z) (ds : bool) : st :=
  {| below := below s; above := above s; inc := inc s; outc := outc s; fdepth := fdepth s; enabled := enabled s;
     disp := d; disp_set := ds; started := started s |}.
(* fstack_update(UFTRACE_ENTRY) / (UFTRACE_EXIT) *)
Definition update_entry (s : st) : st := set_disp s (disp s + 1) (disp_set s).
Definition update_exit (s : st) : st :=
  let d := if disp_set s then disp s else stack_count s + 1 in
  set_disp s (if d >? 0 then d - 1 else 0) true.

(* ------------------------------------------------------------------ what a command shows *)
Record vev := { v_exit : bool; v_fn : N; v_disp : Z; v_rdepth : Z; v_time : N }.
Definition mkev (x : bool) (r : rec) (d : Z) : vev :=
  {| v_exit := x; v_fn := r_fn r; v_disp := d; v_rdepth := r_depth r; v_time := r_time r |}.
Definition hidden_plt (c : cfg) (f : N) : bool := negb (libcall c) && is_plt c f.

(* report / graph / dump --chrome ... : fstack_check_filter, libcall test, fstack_check_filter_done *)
Definition std_body (c : cfg) (s : st) (r : rec) : st * list vev :=
  match r_type r with
  | ENTRY =>
      let '(s1, ok) := fstack_entry c s r in
      if ok then (update_entry s1, if hidden_plt c (r_fn r) then [] else [mkev false r (disp s1)])
      else (s1, [])
  | EXIT =>
      let sl := top_above c s in
      if sl_norecord sl || negb (enabled s) then (fstack_exit c s, [])
      else let s1 := update_exit s in
           (fstack_exit c s1, if hidden_plt c (r_fn r) then [] else [mkev true r (disp s1)])
  end.
Definition std_step (c : cfg) (s : st) (r : rec) : st * list vev := std_body c (consume c s r) r.

(* dump (raw): do_dump_file consumes every record, tests the time range afterwards *)
Definition raw_step (c : cfg) (s : st) (r : rec) : st * list vev :=
  let s1 := consume c s r in
  if in_range c (r_time r) then std_body c s1 r else (s1, []).

Fixpoint run_steps {S} (step : S -> rec -> S * list vev) (s : S) (rs : list rec) : S * list vev :=
  match rs with
  | [] => (s, [])
  | r :: rs' => let '(s1, o1) := step s r in
                let '(s2, o2) := run_steps step s1 rs' in (s2, o1 ++ o2)
  end.

(* ------------------------------------------------------------------ replay (and script) *)
(* fstack_check_skip on the not yet consumed record *)
Definition check_skip (c : cfg) (s : st) (r : rec) : Z :=
  if outc s >? 0 then -1 else
  match r_type r with
  | EXIT =>
      match below s with
      | [] => 0
      | sl :: _ => if sl_norecord sl then -1 else 0
      end
  | ENTRY =>
      let tr := trig_of c (r_fn r) in
      let go (depth : Z) :=
        if (match q_depth tr with Some _ => true | None => false end) || q_trace_on tr then 1
        else if q_trace_off tr || q_hide tr || (depth <=? 0) then -1 else 0 in
      match q_filter tr with
      | Some false => -1
      | Some true => go (gdepth c)
      | None =>
          match loc_of c (r_fn r) with
          | Some _ => go (fdepth s)          (* the TRIGGER_FL_LOC branch tests tr.fmode, which is not OUT here *)
          | None => if (fmode_in c || lmode_in c) && (inc s =? 0) then -1 else go (fdepth s)
          end
      end
  end.

(* Skipping = inside fstack_skip() called for a visible ENTRY that is not printed yet *)
Inductive mode := Normal | Skipping (e : rec) (d : Z).

Definition rp_normal (c : cfg) (s0 : st) (r : rec) : (st * mode) * list vev :=
  let s := consume c s0 r in
  if hidden_plt c (r_fn r) then ((s, Normal), []) else
  match r_type r with
  | ENTRY =>
      let '(s1, ok) := fstack_entry c s r in
      if ok then
        if no_merge c then ((update_entry s1, Normal), [mkev false r (disp s1)])
        else ((s1, Skipping r (disp s1)), [])
      else ((s1, Normal), [])
  | EXIT =>
      let sl := top_above c s in
      if enabled s && negb (sl_norecord sl)
      then let s1 := update_exit s in ((fstack_exit c s1, Normal), [mkev true r (disp s1)])
      else ((fstack_exit c s, Normal), [])
  end.

Definition rp_step (c : cfg) (sm : st * mode) (r : rec) : (st * mode) * list vev :=
  let '(s, m) := sm in
  match m with
  | Normal => rp_normal c s r
  | Skipping e d =>
      let resolve :=
        match r_type r with
        | EXIT =>
            if r_depth r =? r_depth e then            (* leaf: consume the EXIT, print `f();` *)
              ((fstack_exit c (consume c s r), Normal), [mkev false e d; mkev true r d])
            else let '(sm', o) := rp_normal c (update_entry s) r in (sm', mkev false e d :: o)
        | ENTRY => let '(sm', o) := rp_normal c (update_entry s) r in (sm', mkev false e d :: o)
        end in
      let swallow :=                                   (* fstack_consume + fstack_entry / fstack_exit *)
        let s1 := consume c s r in
        let s2 := match r_type r with ENTRY => fst (fstack_entry c s1 r) | EXIT => fstack_exit c s1 end in
        if enabled s2 then ((s2, Skipping e d), [])
        else ((update_entry s2, Normal), [mkev false e d]) in   (* fstack_skip returns NULL *)
      if r_depth r <=? r_depth e then resolve
      else if hidden_plt c (r_fn r) then swallow
      else if check_skip c s r >=? 0 then resolve
      else swallow
  end.

Definition rp_finish (sm : st * mode) : list vev :=
  match snd sm with Normal => [] | Skipping e d => [mkev false e d] end.   (* peek_rstack() < 0 *)

Definition run_std (c : cfg) (rs : list rec) : list vev := snd (run_steps (std_step c) (st0 c) (pre c rs)).
Definition run_raw (c : cfg) (rs : list rec) : list vev := snd (run_steps (raw_step c) (st0 c) rs).
Definition run_rp (c : cfg) (rs : list rec) : list vev :=
  let '(sm, o) := run_steps (rp_step c) (st0 c, Normal) (pre c rs) in o ++ rp_finish sm.
Definition set_no_merge (c : cfg) (b : bool) : cfg :=
  {| trig_of := trig_of c; fmode_in := fmode_in c; caller_filter := caller_filter c; gdepth := gdepth c;
     threshold := threshold c; range_start := range_start c; range_stop := range_stop c;
     loc_of := loc_of c; lmode_in := lmode_in c; is_plt := is_plt c;
     libcall := libcall c; no_merge := b |}.
Definition run_script (c : cfg) (rs : list rec) : list vev := run_rp (set_no_merge c true) rs.

(* dump --chrome / --flame-graph (do_dump_replay): after the last record every still open slot gets a
   synthetic EXIT at the time of the last record read, filtered like a real EXIT *)
Definition chrome_close (c : cfg) (s : st) (last : N) : list vev :=
  flat_map (fun sl => if (sl_fn sl =? NOFN)%N || sl_norecord sl || negb (enabled s) || hidden_plt c (sl_fn sl)
                      then [] else [{| v_exit := true; v_fn := sl_fn sl; v_disp := 0; v_rdepth := 0; v_time := last |}])
           (below s).
Definition run_chrome (c : cfg) (rs : list rec) : list vev :=
  let p := pre c rs in
  let '(s, o) := run_steps (std_step c) (st0 c) p in
  o ++ chrome_close c s (r_time (last p {| r_time := 0; r_type := EXIT; r_depth := 0; r_fn := 0 |})).

(* what is still open in a visible stream (innermost first) *)
Fixpoint open_stack (evs : list (bool * N)) (stk : list N) : list N :=
  match evs with
  | [] => stk
  | (false, f) :: r => open_stack r (f :: stk)
  | (true, _) :: r => open_stack r (tl stk)
  end.

(* report: add_remaining_fstack counts every still open slot, whatever its flags *)
Definition remaining (c : cfg) (rs : list rec) : list N :=
  map sl_fn (below (fst (run_steps (std_step c) (st0 c) (pre c rs)))).

(* ------------------------------------------------------------------ the documented semantics on trees *)
(* time / caller / trace pruning: a call stays if it ran at least the threshold in force (and is a
   -C function when -C is used), or carries `trace`, or has a descendant that stays *)
Fixpoint tprune (c : cfg) (thr : N) (n : call) : list call :=
  match n with
  | Call f t0 t1 ks =>
      let tr := trig_of c f in
      let th := match q_time tr with Some t => t | None => thr end in
      let ks' := flat_map (tprune c th) ks in
      let long := negb (tdelta t1 t0 <? th)%N && (negb (caller_filter c) || q_caller tr) in
      if long || q_trace tr || negb (match ks' with [] => true | _ => false end)
      then [Call f t0 t1 ks'] else []
  end.

(* -F / -N / -L / -D / depth= / -H on a (pruned) tree.  inF: inside an -F function; bud: levels left;
   d: display depth; rd: depth in the recording *)
Fixpoint vis (c : cfg) (inF : bool) (bud d rd : Z) (n : call) : list vev :=
  match n with
  | Call f t0 t1 ks =>
      let tr := trig_of c f in
      match q_filter tr with
      | Some false => []
      | qf =>
          let isF := match qf with Some true => true | _ => false end in
          if negb isF && fmode_in c && negb inF
          then flat_map (vis c false bud d (rd + 1)) ks
          else
            let inF' := inF || isF in
            let bud1 := if isF then gdepth c else bud in
            if loc_hidden c f then flat_map (vis c inF' bud1 d (rd + 1)) ks else
            let bud2 := match q_depth tr with Some x => x | None => bud1 end in
            if (bud2 <=? 0) || q_hide tr
            then flat_map (vis c inF' bud2 d (rd + 1)) ks
            else
              let sub := flat_map (vis c inF' (bud2 - 1) (d + 1) (rd + 1)) ks in
              if hidden_plt c f then sub
              else {| v_exit := false; v_fn := f; v_disp := d; v_rdepth := rd; v_time := t0 |}
                     :: sub ++ [{| v_exit := true; v_fn := f; v_disp := d; v_rdepth := rd; v_time := t1 |}]
      end
  end.

Definition select (c : cfg) (f : list call) : list vev :=
  flat_map (vis c false (gdepth c) 0 0) (flat_map (tprune c (threshold c)) f).

(* configurations for which [select] is claimed to describe every merged-stream command *)
Definition no_switch (c : cfg) (fns : list N) : bool :=
  forallb (fun k => negb (q_trace_on (trig_of c k)) && negb (q_trace_off (trig_of c k))) fns.
Definition no_range (c : cfg) : bool := (range_start c =? 0)%N && (range_stop c =? 0)%N.
Fixpoint fns_of (n : call) : list N := match n with Call f _ _ ks => f :: flat_map fns_of ks end.
Definition plt_free (c : cfg) (fns : list N) : bool := libcall c || forallb (fun k => negb (is_plt c k)) fns.

(* ------------------------------------------------------------------ reductions used by the tie *)
Definition ev_eqb (a b : vev) : bool :=
  Bool.eqb (v_exit a) (v_exit b) && (v_fn a =? v_fn b)%N && (v_disp a =? v_disp b) && (v_rdepth a =? v_rdepth b)
  && (v_time a =? v_time b)%N.
Fixpoint list_eqb {A} (eq : A -> A -> bool) (l1 l2 : list A) : bool :=
  match l1, l2 with
  | [], [] => true
  | x :: r1, y :: r2 => eq x y && list_eqb eq r1 r2
  | _, _ => false
  end.
Fixpoint bad_indices {A} (f : A -> bool) (l : list A) (i : nat) : list nat :=
  match l with
  | [] => []
  | x :: r => if f x then bad_indices f r (S i) else i :: bad_indices f r (S i)
  end.

(* what each command's output lets one observe *)
Definition ob_nd (e : vev) : bool * N * Z := (v_exit e, v_fn e, v_disp e).          (* replay, script *)
Definition ob_rt (e : vev) : bool * N * Z * N := (v_exit e, v_fn e, v_rdepth e, v_time e).   (* dump *)
Definition ob_nt (e : vev) : bool * N * N := (v_exit e, v_fn e, v_time e).          (* dump --chrome *)
Definition ob_n (e : vev) : bool * N := (v_exit e, v_fn e).
Definition nd_eqb (a b : bool * N * Z) : bool :=
  let '(x, f, d) := a in let '(x', f', d') := b in Bool.eqb x x' && (f =? f')%N && (d =? d').
Definition rt_eqb (a b : bool * N * Z * N) : bool :=
  let '(x, f, d, t) := a in let '(x', f', d', t') := b in Bool.eqb x x' && (f =? f')%N && (d =? d') && (t =? t')%N.
Definition nt_eqb (a b : bool * N * N) : bool :=
  let '(x, f, t) := a in let '(x', f', t') := b in Bool.eqb x x' && (f =? f')%N && (t =? t')%N.
Definition n_eqb (a b : bool * N) : bool :=
  let '(x, f) := a in let '(x', f') := b in Bool.eqb x x' && (f =? f')%N.

(* report: number of EXITs shown per function (+ open slots), as a table over function numbers *)
Definition count_fn (k : N) (l : list N) : N := N.of_nat (length (filter (fun x => (x =? k)%N) l)).
Definition report_of (nfun : nat) (evs : list vev) (rem : list N) : list N :=
  let xs := map v_fn (filter v_exit evs) ++ rem in
  map (fun k => count_fn (N.of_nat k) xs) (seq 0 nfun) ++ [count_fn NOFN xs].

(* graph: call tree merged by name below the same parent, children in order of first appearance *)
Inductive gnode := G (name : N) (calls : N) (kids : list gnode).
Fixpoint g_enter (path : list N) (f : N) (kids : list gnode) : list gnode :=
  match path with
  | [] =>
      (fix add (l : list gnode) : list gnode :=
         match l with
         | [] => [G f 1 []]
         | G n k ks :: r => if (n =? f)%N then G n (k + 1) ks :: r else G n k ks :: add r
         end) kids
  | p :: path' =>
      (fix go (l : list gnode) : list gnode :=
         match l with
         | [] => []
         | G n k ks :: r => if (n =? p)%N then G n k (g_enter path' f ks) :: r else G n k ks :: go r
         end) kids
  end.
(* path = names from the root down to the current node; an EXIT at the root stays at the root
   (add_graph_exit keeps tg->node when node->parent == NULL) *)
Fixpoint graph_build (evs : list (bool * N)) (path : list N) (kids : list gnode) : list gnode :=
  match evs with
  | [] => kids
  | (false, f) :: r => graph_build r (path ++ [f]) (g_enter path f kids)
  | (true, _) :: r => graph_build r (removelast path) kids
  end.
Fixpoint g_flat (d : N) (g : gnode) : list (N * N * N) :=
  match g with G n k ks => (d, n, k) :: flat_map (g_flat (d + 1)) ks end.
Definition graph_of (evs : list vev) : list (N * N * N) :=
  flat_map (g_flat 0) (graph_build (map ob_n evs) [] []).
Definition tri_eqb (a b : N * N * N) : bool :=
  let '(x, y, z) := a in let '(x', y', z') := b in ((x =? x') && (y =? y') && (z =? z'))%N.

(* ------------------------------------------------------------------ record time (libmcount model) *)
Module MC := UV.Mcount.Model.

Fixpoint events (c : call) : list MC.ev :=
  match c with Call f t0 t1 ks => MC.Enter f t0 :: flat_map events ks ++ [MC.Leave t1] end.
Definition of_mrec (r : MC.rec) : rec :=
  {| r_time := MC.r_time r; r_type := match MC.r_type r with MC.ENTRY => ENTRY | MC.EXIT => EXIT end;
     r_depth := Z.of_N (MC.r_depth r); r_fn := MC.r_addr r |}.
(* the data file of the main thread after `uftrace record <options>` *)
Definition record (mc : MC.cfg) (f : list call) : list rec :=
  map of_mrec (MC.out (fst (MC.exec mc (flat_map events f) (MC.init, [])))).

(* the options that exist at both times, as a libmcount configuration *)
Definition to_mtrig (q : rtrig) : MC.trig :=
  {| MC.t_filter := q_filter q; MC.t_depth := option_map Z.to_N (q_depth q); MC.t_time := q_time q;
     MC.t_size := None; MC.t_trace_on := q_trace_on q; MC.t_trace_off := q_trace_off q;
     MC.t_trace := q_trace q; MC.t_caller := q_caller q; MC.t_loc := None; MC.t_finish := false |}.
Definition to_mcfg (c : cfg) (sh : MC.shape) : MC.cfg :=
  {| MC.trig_of := fun k => to_mtrig (trig_of c k); MC.fmode_in := fmode_in c; MC.has_caller := caller_filter c;
     MC.gdepth := Z.to_N (gdepth c); MC.threshold := threshold c; MC.max_stack := 1024;
     MC.sym_size := fun _ => 0%N; MC.shp := sh; MC.lmode_in := false |}.
Definition plain : cfg :=
  {| trig_of := fun _ => notrig; fmode_in := false; caller_filter := false; gdepth := 1024; threshold := 0;
     range_start := 0; range_stop := 0; loc_of := fun _ => None; lmode_in := false;
     is_plt := fun _ => false; libcall := true; no_merge := false |}.

(* "record with the option, replay without" vs "record without, replay with the option" *)
Definition rec_then_plain (c : cfg) (sh : MC.shape) (f : list call) : list vev :=
  run_std plain (record (to_mcfg c sh) f).
Definition plain_then_opt (c : cfg) (f : list call) : list vev := run_std c (flats 0 f).

(* ------------------------------------------------------------------ table-driven configuration *)
Fixpoint assoc {A} (d : A) (l : list (N * A)) (k : N) : A :=
  match l with [] => d | (k', v) :: r => if (k =? k')%N then v else assoc d r k end.
Definition mkcfgL (tr : list (N * rtrig)) (fm cl : bool) (gd : Z) (thr rs re : N) (plt : list N) (lc nm : bool)
                  (loc : list (N * bool)) : cfg :=
  {| trig_of := assoc notrig tr; fmode_in := fm; caller_filter := cl; gdepth := gd; threshold := thr;
     range_start := rs; range_stop := re;
     loc_of := fun k => assoc None (map (fun p => (fst p, Some (snd p))) loc) k;
     lmode_in := existsb snd loc;
     is_plt := fun k => existsb (fun x => (x =? k)%N) plt;
     libcall := lc; no_merge := nm |}.
Definition mkcfg (tr : list (N * rtrig)) (fm cl : bool) (gd : Z) (thr rs re : N) (plt : list N) (lc nm : bool) : cfg :=
  mkcfgL tr fm cl gd thr rs re plt lc nm [].

(* ------------------------------------------------------------------ size filter (spec only) *)
(* -Z SIZE / -T f@size=N (analysis time): "filter functions that has small sizes": a function whose symbol
   is smaller than the size in force is not shown, its callees are judged on their own; size=N on a function
   replaces the size in force for the function itself and for everything below it. *)
Fixpoint vis_size (szof : N -> N) (ztr : N -> option N) (zs : N) (d rd : Z) (n : call) : list vev :=
  match n with
  | Call f t0 t1 ks =>
      let zs' := match ztr f with Some z => z | None => zs end in
      if (szof f <? zs')%N
      then flat_map (vis_size szof ztr zs' d (rd + 1)) ks
      else {| v_exit := false; v_fn := f; v_disp := d; v_rdepth := rd; v_time := t0 |}
             :: flat_map (vis_size szof ztr zs' (d + 1) (rd + 1)) ks
             ++ [{| v_exit := true; v_fn := f; v_disp := d; v_rdepth := rd; v_time := t1 |}]
  end.
Definition select_size (szof : N -> N) (ztr : N -> option N) (zs : N) (f : list call) : list vev :=
  flat_map (vis_size szof ztr zs 0 0) f.

(* the options -H f for every function f smaller than zs, and nothing else *)
Definition hide_small (szof : N -> N) (zs : N) : cfg :=
  {| trig_of := fun f => {| q_filter := None; q_depth := None; q_time := None; q_trace_on := false; q_trace_off := false;
                            q_trace := false; q_caller := false; q_hide := (szof f <? zs)%N |};
     fmode_in := false; caller_filter := false; gdepth := 1024; threshold := 0;
     range_start := 0; range_stop := 0; loc_of := fun _ => None; lmode_in := false;
     is_plt := fun _ => false; libcall := true; no_merge := false |}.

(* the same as a transformation of the call tree, together with the time filter that shares the look-ahead list:
   get_task_ustack drops the ENTRY and EXIT of a small function before the time filter sees them (the function is
   neither timed nor a -C / trace target; its callees move up), but its time= and size= still govern everything
   below it; -F/-N/-D/... in fstack_entry then work on what is left. *)
Fixpoint zprune (c : cfg) (szof : N -> N) (ztr : N -> option N) (zs thr : N) (n : call) : list call :=
  match n with
  | Call f t0 t1 ks =>
      let tr := trig_of c f in
      let th := match q_time tr with Some t => t | None => thr end in
      let zs' := match ztr f with Some z => z | None => zs end in
      let ks' := flat_map (zprune c szof ztr zs' th) ks in
      if (szof f <? zs')%N then ks'
      else
        let long := negb (tdelta t1 t0 <? th)%N && (negb (caller_filter c) || q_caller tr) in
        if long || q_trace tr || negb (match ks' with [] => true | _ => false end)
        then [Call f t0 t1 ks'] else []
  end.
Definition select_z (c : cfg) (szof : N -> N) (ztr : N -> option N) (zs : N) (f : list call) : list vev :=
  flat_map (vis c false (gdepth c) 0 0) (flat_map (zprune c szof ztr zs (threshold c)) f).

(* ------------------------------------------------------------------ several tasks *)
(* Every task has its own data file, look-ahead list (get_task_ustack) and filter state; the commands read
   the records of all tasks merged by timestamp (read_user_stack: strictly smaller time wins, so the
   lowest task index wins ties); fstack_enabled (trace_on / trace_off) is ONE global flag. *)
Definition trec := (nat * rec)%type.                 (* task index, record *)

(* index of the stream whose first record is the oldest *)
Fixpoint pick_from (ss : list (list rec)) (i : nat) (best : option (nat * N)) : option (nat * N) :=
  match ss with
  | [] => best
  | s :: rest =>
      let best' := match s with
                   | [] => best
                   | r :: _ => match best with
                               | None => Some (i, r_time r)
                               | Some (_, tb) => if (r_time r <? tb)%N then Some (i, r_time r) else best
                               end
                   end in
      pick_from rest (S i) best'
  end.
Fixpoint drop_head (ss : list (list rec)) (i : nat) : list (list rec) :=
  match ss, i with
  | [], _ => []
  | s :: rest, O => tl s :: rest
  | s :: rest, S j => s :: drop_head rest j
  end.
Fixpoint merge (fuel : nat) (ss : list (list rec)) : list trec :=
  match fuel with
  | O => []
  | S fu =>
      match pick_from ss 0 None with
      | None => []
      | Some (i, _) =>
          match nth i ss [] with
          | [] => []
          | r :: _ => (i, r) :: merge fu (drop_head ss i)
          end
      end
  end.
Definition total_len (ss : list (list rec)) : nat := fold_right (fun s n => (length s + n)%nat) 0%nat ss.
Definition merged (c : cfg) (ss : list (list rec)) : list trec :=
  let ps := map (pre c) ss in merge (total_len ps) ps.

Record mst := { m_tasks : nat -> st; m_enabled : bool }.
Definition with_enabled (s : st) (b : bool) : st :=
  {| below := below s; above := above s; inc := inc s; outc := outc s; fdepth := fdepth s; enabled := b;
     disp := disp s; disp_set := disp_set s; started := started s |}.
Fixpoint upd {A} (i : nat) (v : A) (l : list A) : list A :=
  match l, i with
  | [], _ => []
  | _ :: r, O => v :: r
  | x :: r, S j => x :: upd j v r
  end.
Definition m_init (c : cfg) : mst := {| m_tasks := fun _ => st0 c; m_enabled := true |}.
(* a task's state as the code sees it: its own fields plus the shared flag *)
Definition task_of (m : mst) (t : nat) : st := with_enabled (m_tasks m t) (m_enabled m).
Definition put_task (m : mst) (t : nat) (s : st) : mst :=
  {| m_tasks := fun t' => if Nat.eqb t' t then s else m_tasks m t'; m_enabled := enabled s |}.

Definition tev := (nat * vev)%type.
Definition m_std_step (c : cfg) (m : mst) (tr : trec) : mst * list tev :=
  let '(t, r) := tr in
  let '(s', o) := std_step c (task_of m t) r in (put_task m t s', map (pair t) o).

Fixpoint m_run {S} (step : S -> trec -> S * list tev) (s : S) (trs : list trec) : S * list tev :=
  match trs with
  | [] => (s, [])
  | x :: r => let '(s1, o1) := step s x in let '(s2, o2) := m_run step s1 r in (s2, o1 ++ o2)
  end.

Definition run_std_m (c : cfg) (ss : list (list rec)) : list tev :=
  snd (m_run (m_std_step c) (m_init c) (merged c ss)).

(* dump --chrome: after the last record the open calls of every task are closed, task by task *)
Definition last_time (rs : list rec) : N := r_time (last rs {| r_time := 0; r_type := EXIT; r_depth := 0; r_fn := 0 |}).
Definition run_chrome_m (c : cfg) (ss : list (list rec)) : list tev :=
  let '(m, o) := m_run (m_std_step c) (m_init c) (merged c ss) in
  o ++ flat_map (fun t => map (pair t) (chrome_close c (task_of m t) (last_time (pre c (nth t ss [])))))
                (seq 0 (length ss)).
Definition remaining_m (c : cfg) (ss : list (list rec)) : list N :=
  let m := fst (m_run (m_std_step c) (m_init c) (merged c ss)) in
  flat_map (fun t => map sl_fn (below (m_tasks m t))) (seq 0 (length ss)).

(* dump (raw): one data file after the other, not merged; the global flag is carried over *)
Definition run_raw_m (c : cfg) (ss : list (list rec)) : list tev :=
  snd (fold_left (fun (acc : bool * nat * list tev) rs =>
                    let '(en, t, out) := acc in
                    let '(s, o) := run_steps (raw_step c) (with_enabled (st0 c) en) rs in
                    (enabled s, S t, out ++ map (pair t) o))
                 ss (true, 0%nat, [])).

(* replay / script over several tasks: fstack_skip() peeks at the globally next record *)
Inductive mmode := MNormal | MSkipping (t : nat) (e : rec) (d : Z).
Definition lift_mode (t : nat) (m : mode) : mmode :=
  match m with Normal => MNormal | Skipping e d => MSkipping t e d end.

Definition m_rp_normal (c : cfg) (m : mst) (t : nat) (r : rec) : (mst * mmode) * list tev :=
  let '((s', md), o) := rp_normal c (task_of m t) r in ((put_task m t s', lift_mode t md), map (pair t) o).

Definition m_rp_step (c : cfg) (mm : mst * mmode) (tr : trec) : (mst * mmode) * list tev :=
  let '(m, md) := mm in
  let '(t, r) := tr in
  match md with
  | MNormal => m_rp_normal c m t r
  | MSkipping te e d =>
      let pend := (te, mkev false e d) in
      let print_pending (m0 : mst) : mst := put_task m0 te (update_entry (task_of m0 te)) in
      let go_on :=                                     (* not a leaf: print the ENTRY, main loop reads r *)
        let '(mm', o) := m_rp_normal c (print_pending m) t r in (mm', pend :: o) in
      let swallow :=
        let s1 := consume c (task_of m t) r in
        let s2 := match r_type r with ENTRY => fst (fstack_entry c s1 r) | EXIT => fstack_exit c s1 end in
        let m2 := put_task m t s2 in
        if enabled s2 then ((m2, MSkipping te e d), [])
        else ((print_pending m2, MNormal), [pend]) in
      if Nat.eqb t te && (r_depth r <=? r_depth e) then
        match r_type r with
        | EXIT =>
            if r_depth r =? r_depth e
            then ((put_task m t (fstack_exit c (consume c (task_of m t) r)), MNormal), [pend; (t, mkev true r d)])
            else go_on
        | ENTRY => go_on
        end
      else if hidden_plt c (r_fn r) then swallow
      else if check_skip c (task_of m t) r >=? 0 then go_on
      else swallow
  end.
Definition m_rp_finish (mm : mst * mmode) : list tev :=
  match snd mm with MNormal => [] | MSkipping t e d => [(t, mkev false e d)] end.
Definition run_rp_m (c : cfg) (ss : list (list rec)) : list tev :=
  let '(mm, o) := m_run (m_rp_step c) (m_init c, MNormal) (merged c ss) in o ++ m_rp_finish mm.
Definition run_script_m (c : cfg) (ss : list (list rec)) : list tev := run_rp_m (set_no_merge c true) ss.

(* graph: one tree per session, every task keeps its own current node *)
Fixpoint graph_build_m (evs : list (nat * (bool * N))) (paths : list (list N)) (kids : list gnode) : list gnode :=
  match evs with
  | [] => kids
  | (t, (false, f)) :: r =>
      let path := nth t paths [] in graph_build_m r (upd t (path ++ [f]) paths) (g_enter path f kids)
  | (t, (true, _)) :: r => graph_build_m r (upd t (removelast (nth t paths [])) paths) kids
  end.
Definition graph_of_m (n : nat) (evs : list tev) : list (N * N * N) :=
  flat_map (g_flat 0) (graph_build_m (map (fun p => (fst p, ob_n (snd p))) evs) (repeat [] n) []).

(* ------------------------------------------------------------------ trace_on / trace_off: the documented switch *)
(* One switch along the order of events (shared by all tasks; here one task): a trace_off function and
   everything after it is not shown until a trace_on function is entered; the switch is only touched by
   functions the filters -F/-N let through.  Nesting budget not limiting (no -D hit, no depth=, no -H). *)
Fixpoint vis_sw (c : cfg) (inF on : bool) (n : call) : list (bool * N) * bool :=
  match n with
  | Call f t0 t1 ks =>
      let tr := trig_of c f in
      let kids := fix go (inF' on0 : bool) (l : list call) : list (bool * N) * bool :=
                    match l with
                    | [] => ([], on0)
                    | k :: r => let '(o1, b1) := vis_sw c inF' on0 k in
                                let '(o2, b2) := go inF' b1 r in (o1 ++ o2, b2)
                    end in
      match q_filter tr with
      | Some false => ([], on)
      | qf =>
          let isF := match qf with Some true => true | _ => false end in
          if negb isF && fmode_in c && negb inF then kids false on ks
          else
            let on1 := if q_trace_off tr then false else if q_trace_on tr then true else on in
            let '(ko, on2) := kids (inF || isF) on1 ks in
            let shown := negb (hidden_plt c f) in
            ((if on1 && shown then [(false, f)] else []) ++ ko ++ (if on2 && shown then [(true, f)] else []), on2)
      end
  end.
Fixpoint vis_sw_list (c : cfg) (inF on : bool) (l : list call) : list (bool * N) * bool :=
  match l with
  | [] => ([], on)
  | k :: r => let '(o1, b1) := vis_sw c inF on k in
              let '(o2, b2) := vis_sw_list c inF b1 r in (o1 ++ o2, b2)
  end.
Definition select_sw (c : cfg) (f : list call) : list (bool * N) :=
  fst (vis_sw_list c false true (flat_map (tprune c (threshold c)) f)).

(* the class: no depth= / -H anywhere, -D not reached *)
Definition sw_class (c : cfg) (fns : list N) (hmax : Z) : bool :=
  forallb (fun k => match q_depth (trig_of c k) with None => true | Some _ => false end
                    && negb (q_hide (trig_of c k))) fns
  && (hmax <=? gdepth c).

(* ------------------------------------------------------------------ --tid and elapsed time ranges *)
(* handle->time_range.first, the origin of the elapsed times (-r 100us~, -f elapsed); 0 = not set yet.
   fstack_setup_task looks at the first record of EVERY task through update_first_timestamp before any record is
   checked against the range: of the tasks --tid leaves out (they are closed right away) and - since the repair
   of the origin in /repo - of the selected tasks as well (fstack_peek_first_timestamp). *)
Definition upd_first (first t : N) : N := if (first =? 0)%N || (t <? first)%N then t else first.
Definition first_step (a : N) (s : list rec) : N := match s with [] => a | r :: _ => upd_first a (r_time r) end.
Definition setup_first (ss : list (list rec)) : N := fold_left first_step ss 0%N.

(* the code as found: only the tasks that are left out were looked at during setup; an origin still unset was then
   taken from the first timestamp handed to check_time_range: the first record of the first selected task that has
   data (read_user_stack asks the tasks in the order of the info file) *)
Fixpoint first_legacy_excl (sel : nat -> bool) (i : nat) (ss : list (list rec)) (a : N) : N :=
  match ss with
  | [] => a
  | s :: r => first_legacy_excl sel (S i) r (if sel i then a else first_step a s)
  end.
Fixpoint first_legacy_lazy (sel : nat -> bool) (i : nat) (ss : list (list rec)) : N :=
  match ss with
  | [] => 0%N
  | s :: r => match s with
              | x :: _ => if sel i then r_time x else first_legacy_lazy sel (S i) r
              | [] => first_legacy_lazy sel (S i) r
              end
  end.
Definition setup_first_legacy (sel : nat -> bool) (ss : list (list rec)) : N :=
  let a := first_legacy_excl sel 0 ss 0%N in
  if (a =? 0)%N then first_legacy_lazy sel 0 ss else a.

(* -r START~STOP as given: each end is a timestamp or (with a time unit) an elapsed time; 0 = end not given *)
Record erange := { e_start : N; e_start_el : bool; e_stop : N; e_stop_el : bool }.
Definition abs_end (first v : N) (el : bool) : N := if (v =? 0)%N then 0%N else if el then (first + v)%N else v.
Definition with_range (c : cfg) (a b : N) : cfg :=
  {| trig_of := trig_of c; fmode_in := fmode_in c; caller_filter := caller_filter c; gdepth := gdepth c;
     threshold := threshold c; range_start := a; range_stop := b;
     loc_of := loc_of c; lmode_in := lmode_in c; is_plt := is_plt c;
     libcall := libcall c; no_merge := no_merge c |}.
(* check_time_range: start_elapsed / stop_elapsed add the origin *)
Definition resolve_range (c : cfg) (e : erange) (ss : list (list rec)) : cfg :=
  let first := setup_first ss in
  with_range c (abs_end first (e_start e) (e_start_el e)) (abs_end first (e_stop e) (e_stop_el e)).

(* --tid: the tasks that are not listed are done before they start (task->done, file closed) *)
Fixpoint tid_select_from (sel : nat -> bool) (i : nat) (ss : list (list rec)) : list (list rec) :=
  match ss with
  | [] => []
  | s :: r => (if sel i then s else []) :: tid_select_from sel (S i) r
  end.
Definition tid_select (sel : nat -> bool) (ss : list (list rec)) : list (list rec) := tid_select_from sel 0 ss.

(* ------------------------------------------------------------------ the internal fixup table *)
(* fstack_entry looks the function up twice with the same result slot: first in sess->fixups (exec*, setjmp,
   longjmp, fork, vfork, daemon ...: only to recognise those functions), then in the user's table sess->filters,
   which overwrites the slot when it has an entry.  [fx] is what build_fixup_filter registers for a name:
   uftrace_setup_trigger with a bare name = an entry without any action. *)
Definition fixup_entry : rtrig := notrig.
Definition entry_lookup (fx : rtrig) (is_fixup has_user : N -> bool) (c : cfg) (f : N) : rtrig :=
  if has_user f then trig_of c f else if is_fixup f then fx else notrig.
(* the options as fstack_entry sees them (the filter count of the fixup table is local: fmode_in is the user's) *)
Definition cfg_seen (fx : rtrig) (is_fixup has_user : N -> bool) (c : cfg) : cfg :=
  {| trig_of := entry_lookup fx is_fixup has_user c; fmode_in := fmode_in c; caller_filter := caller_filter c;
     gdepth := gdepth c; threshold := threshold c; range_start := range_start c; range_stop := range_stop c;
     loc_of := loc_of c; lmode_in := lmode_in c; is_plt := is_plt c; libcall := libcall c; no_merge := no_merge c |}.
