(* C07 - executable comparison of implementation outputs with the model (the agree_... functions) and the executable
   property checker applied to implementation outputs (ok_agree, ok_spec, ok_rr).  NO proofs here. *)
From Coq Require Import NArith ZArith List Bool.
Import ListNotations.
Require Import UV.C07.Model.
Local Open Scope Z_scope.

Record case := {
  k_cfg : cfg; k_forest : list call; k_nfun : nat;
  o_replay : list (bool * N * Z);          (* uftrace replay -f none            : exit?, function, display depth *)
  o_nomerge : list (bool * N * Z);         (* uftrace replay -f none --no-merge *)
  o_script : list (bool * N * Z);          (* uftrace script: uftrace_entry/exit callbacks, ctx["depth"] *)
  o_raw : list (bool * N * Z * N);         (* uftrace dump: exit?, function, record depth, time *)
  o_chrome : list (bool * N * N);          (* uftrace dump --chrome: exit?, function, time *)
  o_report : list N;                       (* uftrace report: Calls column per function number, then "<0>" *)
  o_graph : list (N * N * N);              (* uftrace graph: pre-order (depth, function, calls) *)
  o_flame : list (N * N * N)               (* uftrace dump --flame-graph: the same tree, one line per call path *)
}.

Definition recs (k : case) : list rec := flats 0 (k_forest k).
Definition fns (k : case) : list N := flat_map fns_of (k_forest k).

(* ---------------------------------------------------------------- model = implementation ? *)
Definition agree_replay (k : case) : bool :=
  list_eqb nd_eqb (map ob_nd (run_rp (set_no_merge (k_cfg k) false) (recs k))) (o_replay k).
Definition agree_nomerge (k : case) : bool :=
  list_eqb nd_eqb (map ob_nd (run_rp (set_no_merge (k_cfg k) true) (recs k))) (o_nomerge k).
Definition agree_script (k : case) : bool :=
  list_eqb nd_eqb (map ob_nd (run_script (k_cfg k) (recs k))) (o_script k).
Definition agree_raw (k : case) : bool :=
  list_eqb rt_eqb (map ob_rt (run_raw (k_cfg k) (recs k))) (o_raw k).
Definition agree_chrome (k : case) : bool :=
  list_eqb nt_eqb (map ob_nt (run_chrome (k_cfg k) (recs k))) (o_chrome k).
Definition agree_report (k : case) : bool :=
  list_eqb N.eqb (report_of (k_nfun k) (run_std (k_cfg k) (recs k)) (remaining (k_cfg k) (recs k))) (o_report k).
Definition agree_graph (k : case) : bool :=
  list_eqb tri_eqb (graph_of (run_std (k_cfg k) (recs k))) (o_graph k).

Definition agree_flame (k : case) : bool :=
  list_eqb tri_eqb (graph_of (run_chrome (k_cfg k) (recs k))) (o_flame k).

(* ---------------------------------------------------------------- the property, on implementation outputs *)
Definition nd_n (a : bool * N * Z) : bool * N := let '(x, f, _) := a in (x, f).
Definition nt_n (a : bool * N * N) : bool * N := let '(x, f, _) := a in (x, f).
Definition rt_nt (a : bool * N * Z * N) : bool * N * N := let '(x, f, _, t) := a in (x, f, t).
Definition n_ev (a : bool * N) : vev :=
  {| v_exit := fst a; v_fn := snd a; v_disp := 0; v_rdepth := 0; v_time := 0 |}.

(* options that the raw dump does not implement (it reads the data files without the look-ahead list) *)
Definition raw_free (c : cfg) (l : list N) : bool :=
  (threshold c =? 0)%N && negb (caller_filter c)
  && forallb (fun f => match q_time (trig_of c f) with None => true | Some _ => false end) l.
Definition raw_class (k : case) : bool := raw_free (k_cfg k) (fns k).

(* "consistently across these commands" *)
Definition ok_agree_gen (with_raw : bool) (k : case) : bool :=
  let c := k_cfg k in
  let pf := plt_free c (fns k) in
  let shown := map nt_n (o_chrome k) in
  let rp := map nd_n (o_replay k) in
  list_eqb nd_eqb (o_script k) (o_nomerge k)
  && (negb pf || list_eqb nd_eqb (o_replay k) (o_nomerge k))
  && (negb pf || list_eqb n_eqb (if no_range c then rp else rp ++ map (fun f => (true, f)) (open_stack rp [])) shown)
  && (negb (no_range c) || list_eqb N.eqb (report_of (k_nfun k) (map n_ev shown) []) (o_report k))
  && list_eqb tri_eqb (graph_of (map n_ev shown)) (o_graph k)
  && list_eqb tri_eqb (graph_of (map n_ev shown)) (o_flame k)
  && (negb (with_raw && raw_class k && no_range c) || list_eqb nt_eqb (map rt_nt (o_raw k)) (o_chrome k)).
Definition ok_agree (k : case) : bool := ok_agree_gen true k.

(* "selects the calls defined by the documented semantics" for the option class of the theorems *)
Definition spec_class (k : case) : bool := no_switch (k_cfg k) (fns k) && no_range (k_cfg k).
Definition ok_spec (k : case) : bool :=
  let c := k_cfg k in
  negb (spec_class k)
  || (let sel := select c (k_forest k) in
      list_eqb nt_eqb (map ob_nt sel) (o_chrome k)
      && (negb (plt_free c (fns k)) || list_eqb nd_eqb (map ob_nd sel) (o_replay k))
      && (negb (raw_class k) || list_eqb rt_eqb (map ob_rt sel) (o_raw k))).

(* -r alone: "only show functions executed within the time RANGE" = exactly the records whose
   timestamp lies in [start, stop] (both ends included, as in the manual's example) *)
Definition trig_empty (q : rtrig) : bool :=
  match q_filter q, q_depth q, q_time q with
  | None, None, None => negb (q_trace_on q || q_trace_off q || q_trace q || q_caller q || q_hide q)
  | _, _, _ => false
  end.
Fixpoint height (n : call) : nat := match n with Call _ _ _ ks => S (fold_right Nat.max 0%nat (map height ks)) end.
Definition loc_free (c : cfg) (l : list N) : bool :=
  negb (lmode_in c) && forallb (fun f => match loc_of c f with None => true | Some _ => false end) l.
Definition range_only (k : case) : bool :=
  let c := k_cfg k in
  loc_free c (fns k) && forallb (fun f => trig_empty (trig_of c f)) (fns k) && (threshold c =? 0)%N && negb (caller_filter c)
  && negb (fmode_in c) && plt_free c (fns k) && forallb (fun n => Z.of_nat (height n) <=? gdepth c) (k_forest k).
Definition in_window (c : cfg) (t : N) : bool :=
  ((range_start c =? 0) || (range_start c <=? t))%N && ((range_stop c =? 0) || (t <=? range_stop c))%N.
Definition ok_range (k : case) : bool :=
  let c := k_cfg k in
  negb (range_only k)
  || (let want := filter (fun r => in_window c (r_time r)) (recs k) in
      let want4 := map (fun r => (match r_type r with ENTRY => false | EXIT => true end, r_fn r, r_depth r, r_time r)) want in
      let names := map (fun a => let '(x, f, _, _) := a in (x, f)) want4 in
      list_eqb rt_eqb want4 (o_raw k)
      && list_eqb n_eqb names (map nd_n (o_replay k))
      && list_eqb n_eqb names (map nd_n (o_script k))
      (* dump --chrome closes what is still open at the end of the window *)
      && list_eqb n_eqb (names ++ map (fun f => (true, f)) (open_stack names [])) (map nt_n (o_chrome k))).

(* ---------------------------------------------------------------- record time vs replay time *)
Record rcase := {
  rr_cfg : cfg; rr_forest : list call; rr_shape : MC.shape;
  rr_records : list (N * bool * Z * N);      (* what the real libmcount wrote: time, exit?, depth, function *)
  rr_rec_replay : list (bool * N * Z);       (* real replay (no options) of those records *)
  rr_opt_replay : list (bool * N * Z)        (* real replay with the options of the unfiltered recording *)
}.
Definition rec4 (r : rec) : N * bool * Z * N :=
  (r_time r, match r_type r with ENTRY => false | EXIT => true end, r_depth r, r_fn r).
Definition rec4_eqb (a b : N * bool * Z * N) : bool :=
  let '(t, x, d, f) := a in let '(t', x', d', f') := b in (t =? t')%N && Bool.eqb x x' && (d =? d') && (f =? f')%N.
Definition of_rec4 (a : N * bool * Z * N) : rec :=
  let '(t, x, d, f) := a in {| r_time := t; r_type := if x then EXIT else ENTRY; r_depth := d; r_fn := f |}.

(* libmcount model = libmcount *)
Definition agree_record (k : rcase) : bool :=
  list_eqb rec4_eqb (map rec4 (record (to_mcfg (rr_cfg k) (rr_shape k)) (rr_forest k))) (rr_records k).
(* replay model on what libmcount wrote = real replay of it *)
Definition agree_rec_replay (k : rcase) : bool :=
  list_eqb nd_eqb (map ob_nd (run_rp plain (map of_rec4 (rr_records k)))) (rr_rec_replay k).
Definition agree_opt_replay (k : rcase) : bool :=
  list_eqb nd_eqb (map ob_nd (run_rp (rr_cfg k) (flats 0 (rr_forest k)))) (rr_opt_replay k).

(* option sets / forests for which both times are claimed to give the same tree (see Proofs):
   no call runs zero time; no trace switch; depth= only without -F *)
Fixpoint calls_of (n : call) : list call := match n with Call _ _ _ ks => n :: flat_map calls_of ks end.
Definition thresholds (c : cfg) (l : list N) : list N :=
  threshold c :: flat_map (fun f => match q_time (trig_of c f) with Some t => [t] | None => [] end) l.
(* (kept for reference: not needed any more - time= is only compared when nothing is hidden, and then
   C07_record_equals_replay_time_trigger needs no monotonicity) *)
Fixpoint mono_thr (c : cfg) (thr : N) (n : call) : bool :=
  match n with
  | Call f _ _ ks =>
      let th := match q_time (trig_of c f) with Some t => t | None => thr end in
      (thr <=? th)%N && forallb (mono_thr c th) ks
  end.
Definition rr_base (c : cfg) (f : list call) : bool :=
  let l := flat_map fns_of f in
  (* calls take time; a call may run exactly a threshold (record keeps `>=`, replay drops `<`: /repo 075e798) *)
  forallb (fun n => negb (dur n =? 0)%N) (flat_map calls_of f)
  (* -C, `trace` and time= act on calls that -F/-N/-D/depth= hide at replay time but not at record time:
     only compared when no call is hidden *)
  && (negb (caller_filter c || existsb (fun k => q_trace (trig_of c k)) l
            || existsb (fun k => match q_time (trig_of c k) with Some _ => true | None => false end) l)
      || (forallb (fun k => match q_filter (trig_of c k) with None => true | Some _ => false end
                            && match q_depth (trig_of c k) with None => true | Some _ => false end) l
          && forallb (fun n => Z.of_nat (height n) <=? gdepth c) f))
  && (1 <=? gdepth c).
Definition no_sw (c : cfg) (l : list N) : bool :=
  forallb (fun k => negb (q_trace_on (trig_of c k)) && negb (q_trace_off (trig_of c k))) l.
(* depth= triggers agree at both times since the fix c9e77e5 (a rejected -pg entry whose trigger changed the filter
   state keeps a not-recorded shadow stack entry), except below an -F function (filter-below-depth-trigger,
   known finding): compared when there is no -F at all *)
Definition depth_ok (c : cfg) (l : list N) : bool :=
  forallb (fun k => match q_depth (trig_of c k) with None => true | Some _ => false end) l
  || forallb (fun k => match q_filter (trig_of c k) with Some true => false | _ => true end) l.
Definition rr_class_of (c : cfg) (f : list call) : bool :=
  let l := flat_map fns_of f in rr_base c f && no_sw c l && depth_ok c l.
Definition rr_class (k : rcase) : bool := rr_class_of (rr_cfg k) (rr_forest k).
(* trace_on / trace_off at both times: the same events in the same order (the recording made with the switch
   has the calls at their recorded depth, the replay of the full recording at their original depth) *)
Definition rr_class_sw (k : rcase) : bool :=
  let c := rr_cfg k in let l := flat_map fns_of (rr_forest k) in
  rr_base c (rr_forest k) && negb (no_sw c l)
  && forallb (fun x => match q_depth (trig_of c x) with None => true | Some _ => false end) l
  (* a trigger on a function that -F/-N hide fires at record time only (same family as
     time-trigger-outside-filter): only compared without -F/-N; calls entered while the switch is off do not
     use up -D at replay time: only without a -D hit *)
  && forallb (fun x => match q_filter (trig_of c x) with None => true | Some _ => false end) l
  && forallb (fun n => Z.of_nat (height n) <=? gdepth c) (rr_forest k).
Definition ok_rr (k : rcase) : bool :=
  (negb (rr_class k) || list_eqb nd_eqb (rr_rec_replay k) (rr_opt_replay k))
  && (negb (rr_class_sw k) || list_eqb n_eqb (map nd_n (rr_rec_replay k)) (map nd_n (rr_opt_replay k))).

(* ---------------------------------------------------------------- several tasks *)
Record mcase := {
  mk_cfg : cfg; mk_forests : list (list call); mk_nfun : nat;
  mo_replay : list (nat * (bool * N * Z));        (* task index, exit?, function, display depth; merged order *)
  mo_nomerge : list (nat * (bool * N * Z));
  mo_script : list (nat * (bool * N * Z));
  mo_raw : list (nat * (bool * N * Z * N));       (* file after file *)
  mo_chrome : list (nat * (bool * N * N));
  mo_report : list N;
  mo_graph : list (N * N * N)
}.
Definition mrecs (k : mcase) : list (list rec) := map (flats 0) (mk_forests k).
Definition mfns (k : mcase) : list N := flat_map (flat_map fns_of) (mk_forests k).
Definition tag_eqb {A} (eq : A -> A -> bool) (a b : nat * A) : bool := Nat.eqb (fst a) (fst b) && eq (snd a) (snd b).
Definition tmap {A} (g : vev -> A) (l : list tev) : list (nat * A) := map (fun p => (fst p, g (snd p))) l.

Definition magree_replay (k : mcase) : bool :=
  list_eqb (tag_eqb nd_eqb) (tmap ob_nd (run_rp_m (set_no_merge (mk_cfg k) false) (mrecs k))) (mo_replay k).
Definition magree_nomerge (k : mcase) : bool :=
  list_eqb (tag_eqb nd_eqb) (tmap ob_nd (run_rp_m (set_no_merge (mk_cfg k) true) (mrecs k))) (mo_nomerge k).
Definition magree_script (k : mcase) : bool :=
  list_eqb (tag_eqb nd_eqb) (tmap ob_nd (run_script_m (mk_cfg k) (mrecs k))) (mo_script k).
Definition magree_raw (k : mcase) : bool :=
  list_eqb (tag_eqb rt_eqb) (tmap ob_rt (run_raw_m (mk_cfg k) (mrecs k))) (mo_raw k).
Definition magree_chrome (k : mcase) : bool :=
  list_eqb (tag_eqb nt_eqb) (tmap ob_nt (run_chrome_m (mk_cfg k) (mrecs k))) (mo_chrome k).
Definition magree_report (k : mcase) : bool :=
  list_eqb N.eqb (report_of (mk_nfun k) (map snd (run_std_m (mk_cfg k) (mrecs k))) (remaining_m (mk_cfg k) (mrecs k)))
           (mo_report k).
Definition magree_graph (k : mcase) : bool :=
  list_eqb tri_eqb (graph_of_m (length (mk_forests k)) (run_std_m (mk_cfg k) (mrecs k))) (mo_graph k).

(* what one task shows *)
Definition of_task {A} (t : nat) (l : list (nat * A)) : list A := map snd (filter (fun p => Nat.eqb (fst p) t) l).
Definition tasks_of (k : mcase) : list nat := seq 0 (length (mk_forests k)).

(* the commands agree task by task (and replay / script / chrome on the merged order as well) *)
Definition mok_agree (k : mcase) : bool :=
  let c := mk_cfg k in
  let pf := plt_free c (mfns k) in
  let tn {A} (g : A -> bool * N) (l : list (nat * A)) := map (fun p => (fst p, g (snd p))) l in
  list_eqb (tag_eqb nd_eqb) (mo_script k) (mo_nomerge k)
  && (negb pf || list_eqb (tag_eqb nd_eqb) (mo_replay k) (mo_nomerge k))
  && (negb (pf && no_range c) || list_eqb (tag_eqb n_eqb) (tn nd_n (mo_replay k)) (tn nt_n (mo_chrome k)))
  && (negb (no_range c) || list_eqb N.eqb (report_of (mk_nfun k) (map (fun p => n_ev (nt_n (snd p))) (mo_chrome k)) [])
                                    (mo_report k))
  (* the raw dump reads file after file: with trace_on/trace_off the shared flag sees another order *)
  && (negb (raw_free c (mfns k) && no_range c && no_switch c (mfns k))
      || forallb (fun t => list_eqb nt_eqb (map rt_nt (of_task t (mo_raw k))) (of_task t (mo_chrome k))) (tasks_of k)).

(* every task shows the documented selection of ITS forest *)
Definition mspec_class (k : mcase) : bool := no_switch (mk_cfg k) (mfns k) && no_range (mk_cfg k).
Definition mok_spec (k : mcase) : bool :=
  let c := mk_cfg k in
  negb (mspec_class k)
  || forallb (fun t =>
       let sel := select c (nth t (mk_forests k) []) in
       list_eqb nt_eqb (map ob_nt sel) (of_task t (mo_chrome k))
       && (negb (plt_free c (mfns k)) || list_eqb nd_eqb (map ob_nd sel) (of_task t (mo_replay k))))
     (tasks_of k).

(* ---------------------------------------------------------------- end to end: a real traced program *)
Record ecase := {
  e_cfg : cfg; e_forest : list call;               (* -F / -N / -D only; the program's call forest, dummy times *)
  e_rec : list (bool * N * Z);                     (* uftrace record OPTS prog; uftrace replay *)
  e_opt : list (bool * N * Z)                      (* uftrace record prog; uftrace replay OPTS *)
}.
Definition ok_e2e (k : ecase) : bool :=
  let want := map ob_nd (select (e_cfg k) (e_forest k)) in
  list_eqb nd_eqb want (e_opt k) && list_eqb nd_eqb want (e_rec k).

(* ---------------------------------------------------------------- trace_on / trace_off against the documented switch *)
Definition fheightZ (f : list call) : Z := Z.of_nat (fold_right Nat.max 0%nat (map height f)).
Definition ok_switch (k : case) : bool :=
  let c := k_cfg k in
  negb (no_range c && loc_free c (fns k) && sw_class c (fns k) (fheightZ (k_forest k)))
  || (list_eqb n_eqb (select_sw c (k_forest k)) (map nt_n (o_chrome k))
      && (negb (plt_free c (fns k)) || list_eqb n_eqb (select_sw c (k_forest k)) (map nd_n (o_replay k)))).

(* ---------------------------------------------------------------- -Z SIZE / -T f@size=N (analysis time only) *)
(* The fstack model has no symbol sizes; the size filter is tied at the level of the documented semantics:
   the calls shown by the commands must be select of the forest with the small functions spliced out (select_z),
   and the commands must agree with each other.  The raw dump is left out: it reads the data files without the
   look-ahead list, where the size filter lives (same root as the known finding about -t/-C/time=). *)
Record zcase := {
  z_case : case;                  (* options other than the size filter, forest, outputs *)
  z_sizes : list (N * N);         (* symbol sizes *)
  z_zs : N;                       (* -Z SIZE, 0 = not given *)
  z_ztr : list (N * N)            (* -T f@size=N *)
}.
Definition z_szof (k : zcase) : N -> N := assoc 128%N (z_sizes k).
Definition z_ztrf (k : zcase) : N -> option N := assoc None (map (fun p => (fst p, Some (snd p))) (z_ztr k)).
Definition z_select (k : zcase) : list vev :=
  select_z (k_cfg (z_case k)) (z_szof k) (z_ztrf k) (z_zs k) (k_forest (z_case k)).
Definition ok_size (k : zcase) : bool :=
  let kk := z_case k in
  let c := k_cfg kk in
  negb (spec_class kk)
  || (let sel := z_select k in
      list_eqb nt_eqb (map ob_nt sel) (o_chrome kk)
      && (negb (plt_free c (fns kk)) || list_eqb nd_eqb (map ob_nd sel) (o_replay kk))
      && list_eqb N.eqb (report_of (k_nfun kk) sel []) (o_report kk)
      && list_eqb tri_eqb (graph_of sel) (o_graph kk)).
Definition ok_size_agree (k : zcase) : bool := ok_agree_gen false (z_case k).
(* the size filter hides something in this case *)
Definition z_hides (k : zcase) : bool :=
  negb (Nat.eqb (length (z_select k)) (length (select (k_cfg (z_case k)) (k_forest (z_case k))))).

(* ---------------------------------------------------------------- -r with several tasks; --tid; elapsed ends *)
(* -r alone, several tasks: every task shows exactly its records inside the window *)
Definition mrange_only (k : mcase) : bool :=
  let c := mk_cfg k in
  loc_free c (mfns k) && forallb (fun f => trig_empty (trig_of c f)) (mfns k) && (threshold c =? 0)%N
  && negb (caller_filter c) && negb (fmode_in c) && plt_free c (mfns k)
  && forallb (forallb (fun n => Z.of_nat (height n) <=? gdepth c)) (mk_forests k).
Definition mok_range (k : mcase) : bool :=
  let c := mk_cfg k in
  negb (mrange_only k)
  || forallb (fun t =>
       let want := filter (fun r => in_window c (r_time r)) (nth t (mrecs k) []) in
       let want4 := map (fun r => (match r_type r with ENTRY => false | EXIT => true end, r_fn r, r_depth r, r_time r)) want in
       let names := map (fun a => let '(x, f, _, _) := a in (x, f)) want4 in
       list_eqb rt_eqb want4 (of_task t (mo_raw k))
       && list_eqb n_eqb names (map nd_n (of_task t (mo_replay k)))
       && list_eqb n_eqb names (map nd_n (of_task t (mo_script k)))
       && list_eqb n_eqb (names ++ map (fun f => (true, f)) (open_stack names [])) (map nt_n (of_task t (mo_chrome k))))
     (tasks_of k).

(* --tid LIST -r START~STOP where an end may be an elapsed time: the outputs are those of the selected tasks alone
   under the absolute window counted from the origin of the WHOLE recording (Model.setup_first over all tasks) *)
Record tcase := {
  t_case : mcase;              (* the options without -r / --tid, the forests of ALL tasks, the outputs *)
  t_range : erange;
  t_sel : list nat             (* --tid: indices of the selected tasks *)
}.
Definition t_selb (k : tcase) (i : nat) : bool := existsb (Nat.eqb i) (t_sel k).
Fixpoint fsel_from {A} (sel : nat -> bool) (i : nat) (l : list (list A)) : list (list A) :=
  match l with [] => [] | x :: r => (if sel i then x else []) :: fsel_from sel (S i) r end.
Definition t_resolved (k : tcase) : mcase :=
  let m := t_case k in
  {| mk_cfg := resolve_range (mk_cfg m) (t_range k) (mrecs m);
     mk_forests := fsel_from (t_selb k) 0 (mk_forests m); mk_nfun := mk_nfun m;
     mo_replay := mo_replay m; mo_nomerge := mo_nomerge m; mo_script := mo_script m; mo_raw := mo_raw m;
     mo_chrome := mo_chrome m; mo_report := mo_report m; mo_graph := mo_graph m |}.
(* the task that owns the oldest record is left out, and an end of the range is an elapsed time *)
Definition t_origin_excluded (k : tcase) : bool :=
  let ss := mrecs (t_case k) in
  let first := setup_first ss in
  (e_start_el (t_range k) && negb (e_start (t_range k) =? 0)%N || e_stop_el (t_range k) && negb (e_stop (t_range k) =? 0)%N)
  && negb (existsb (fun t => match nth t ss [] with r :: _ => (r_time r =? first)%N | [] => false end) (t_sel k)).
