(* C07 - several tasks: without trace_on/trace_off triggers the tasks do not influence each other, so every
   task shows exactly what it would show alone - the documented selection of its own call forest. *)
From Coq Require Import NArith ZArith List Bool Lia PeanoNat.
Import ListNotations.
Require Import ZifyBool ZifyN ZifyNat.
Require Import UV.C07.Model UV.C07.Proofs UV.C07.Replay.
Local Open Scope Z_scope.

Definition of_task {A} (t : nat) (l : list (nat * A)) : list A := map snd (filter (fun p => Nat.eqb (fst p) t) l).

Lemma of_task_app {A} t (l1 l2 : list (nat * A)) : of_task t (l1 ++ l2) = of_task t l1 ++ of_task t l2.
Proof. unfold of_task. rewrite filter_app, map_app. reflexivity. Qed.
Lemma of_task_pair {A} t t' (o : list A) : of_task t (map (pair t') o) = if Nat.eqb t' t then o else [].
Proof.
  unfold of_task. induction o as [|x o IH]; [destruct (Nat.eqb t' t); reflexivity|].
  cbn [map filter fst]. destruct (Nat.eqb t' t) eqn:E; cbn [map snd]; rewrite IH; reflexivity.
Qed.

(* ------------------------------------------------------------------ the merge keeps every task's order *)
Lemma pick_from_spec : forall ss i best,
  match pick_from ss i best with
  | Some (j, _) => (exists tb, best = Some (j, tb))
                   \/ ((i <= j < i + length ss)%nat /\ nth (j - i) ss [] <> [])
  | None => best = None /\ Forall (fun s => s = []) ss
  end.
Proof.
  induction ss as [|s rest IH]; intros i best.
  - cbn [pick_from]. destruct best as [[j tb]|]; [left; eauto|split; auto].
  - cbn [pick_from].
    set (best' := match s with
                  | [] => best
                  | r :: _ => match best with
                              | None => Some (i, r_time r)
                              | Some (_, tb) => if (r_time r <? tb)%N then Some (i, r_time r) else best
                              end
                  end).
    specialize (IH (S i) best'). destruct (pick_from rest (S i) best') as [[j tj]|].
    + destruct IH as [(tb & Eb)|(Hj & Hnth)].
      * unfold best' in Eb. destruct s as [|r s']; [left; eauto|].
        assert (Hhere : (i <= i < i + length ((r :: s') :: rest))%nat /\ nth (i - i) ((r :: s') :: rest) [] <> []).
        { split; [cbn [length]; lia|]. replace (i - i)%nat with 0%nat by lia. discriminate. }
        destruct best as [[j0 tb0]|].
        -- destruct (r_time r <? tb0)%N; [inversion Eb; subst; right; exact Hhere|left; eauto].
        -- inversion Eb; subst. right. exact Hhere.
      * right. split; [cbn [length]; lia|]. replace (j - i)%nat with (S (j - S i)) by lia. exact Hnth.
    + destruct IH as [Eb Hall]. unfold best' in Eb. destruct s as [|r s'].
      * split; [exact Eb|constructor; auto].
      * destruct best as [[j0 tb0]|]; [destruct (r_time r <? tb0)%N; discriminate|discriminate].
Qed.

Lemma pick_some ss j tj : pick_from ss 0 None = Some (j, tj) -> (j < length ss)%nat /\ nth j ss [] <> [].
Proof.
  intro E. pose proof (pick_from_spec ss 0 None) as H. rewrite E in H.
  destruct H as [(tb & H)|(H & Hn)]; [discriminate|]. replace (j - 0)%nat with j in Hn by lia. split; [lia|exact Hn].
Qed.

Lemma nth_drop_head : forall ss i t, nth t (drop_head ss i) [] = if Nat.eqb t i then tl (nth i ss []) else nth t ss [].
Proof.
  induction ss as [|s rest IH]; intros i t.
  - cbn. destruct t, i; cbn; try reflexivity; destruct (Nat.eqb _ _); reflexivity.
  - destruct i as [|i]; destruct t as [|t]; cbn [drop_head nth Nat.eqb]; try reflexivity. apply IH.
Qed.
Lemma length_drop_head : forall ss i, length (drop_head ss i) = length ss.
Proof. induction ss as [|s rest IH]; intros [|i]; cbn [drop_head length]; auto. Qed.
Lemma total_drop_head : forall ss i r s', nth i ss [] = r :: s' -> total_len ss = S (total_len (drop_head ss i)).
Proof.
  induction ss as [|s rest IH]; intros [|i] r s' E; cbn [nth] in E; try discriminate.
  - subst s. cbn. reflexivity.
  - cbn [drop_head total_len fold_right]. fold (total_len rest). fold (total_len (drop_head rest i)).
    rewrite (IH i r s' E). lia.
Qed.

Lemma merge_task : forall fuel ss t, (total_len ss <= fuel)%nat ->
  of_task t (merge fuel ss) = nth t ss [] /\ Forall (fun p => (fst p < length ss)%nat) (merge fuel ss).
Proof.
  induction fuel as [|fu IH]; intros ss t Hf.
  - cbn [merge]. split; [|constructor]. cbn.
    revert t. induction ss as [|s rest IHs]; intro t; [destruct t; reflexivity|].
    cbn [total_len fold_right] in Hf. destruct s; [|cbn in Hf; lia]. destruct t; [reflexivity|]. apply IHs. exact Hf.
  - cbn [merge]. destruct (pick_from ss 0 None) as [[i ti]|] eqn:E.
    + destruct (pick_some ss i ti E) as [Hi Hn]. destruct (nth i ss []) as [|r s'] eqn:En; [congruence|].
      pose proof (total_drop_head ss i r s' En) as Ht.
      destruct (IH (drop_head ss i) t ltac:(lia)) as [I1 I2]. split.
      * unfold of_task in *. cbn [filter fst]. rewrite nth_drop_head in I1.
        destruct (Nat.eqb i t) eqn:Eit.
        -- apply Nat.eqb_eq in Eit. subst t. rewrite Nat.eqb_refl in I1. cbn [map snd]. rewrite I1, En. reflexivity.
        -- rewrite Nat.eqb_sym in Eit. rewrite Eit in I1. exact I1.
      * constructor; [exact Hi|]. rewrite length_drop_head in I2. exact I2.
    + pose proof (pick_from_spec ss 0 None) as H. rewrite E in H. destruct H as [_ Hall]. split; [|constructor].
      cbn. clear -Hall. revert t. induction Hall as [|s rest Hs _ IHs]; intro t; [destruct t; reflexivity|].
      subst s. destruct t; [reflexivity|apply IHs].
Qed.

(* ------------------------------------------------------------------ no trigger switches the tracing *)
Lemma fstack_entry_enabled c s r : no_switch_all c -> enabled (fst (fstack_entry c s r)) = enabled s.
Proof.
  intro H. destruct (H (r_fn r)) as [Hon Hoff]. unfold fstack_entry. destruct (below s) as [|sl0 b]; [reflexivity|].
  rewrite Hon, Hoff. destruct (outc s >? 0); [reflexivity|].
  destruct (q_filter (trig_of c (r_fn r))) as [[|]|]; cbn -[Z.add Z.sub Z.leb Z.gtb Z.eqb Z.max];
    repeat match goal with |- context [if ?b then _ else _] => destruct b; cbn -[Z.add Z.sub Z.leb Z.gtb Z.eqb Z.max] end;
    reflexivity.
Qed.
Lemma consume_enabled c s r : enabled (consume c s r) = enabled s.
Proof.
  unfold consume. destruct (started s); destruct (r_type r); cbn; try reflexivity.
  - destruct (below s); reflexivity.
  - destruct (Z.to_nat (r_depth r + 1)); reflexivity.
Qed.
Lemma std_step_enabled c s r : no_switch_all c -> enabled (fst (std_step c s r)) = enabled s.
Proof.
  intro H. unfold std_step, std_body. destruct (r_type r).
  - pose proof (fstack_entry_enabled c (consume c s r) r H) as E.
    destruct (fstack_entry c (consume c s r) r) as [s1 ok]. cbn [fst] in *. rewrite consume_enabled in E.
    destruct ok; cbn [fst update_entry set_disp enabled]; exact E.
  - destruct (sl_norecord (top_above c (consume c s r)) || negb (enabled (consume c s r)));
      cbn [fst fstack_exit update_exit set_disp enabled]; apply consume_enabled.
Qed.

Lemma with_enabled_id s : with_enabled s (enabled s) = s.
Proof. destruct s; reflexivity. Qed.

Lemma task_put_same m t s : task_of (put_task m t s) t = s.
Proof. unfold task_of, put_task. cbn [m_tasks m_enabled]. rewrite Nat.eqb_refl. apply with_enabled_id. Qed.
Lemma tasks_put_other m t t' s : t' <> t -> m_tasks (put_task m t s) t' = m_tasks m t'.
Proof. intro H. unfold put_task. cbn [m_tasks]. apply Nat.eqb_neq in H. rewrite H. reflexivity. Qed.

Definition all_on (m : mst) : Prop := m_enabled m = true /\ forall t, enabled (m_tasks m t) = true.

(* ------------------------------------------------------------------ independence of the tasks *)
Lemma std_independent c : no_switch_all c -> forall trs m t, all_on m ->
  of_task t (snd (m_run (m_std_step c) m trs))
  = snd (run_steps (std_step c) (m_tasks m t) (of_task t trs)).
Proof.
  intro Hns. induction trs as [|[t' r] trs IH]; intros m t (He & Hall); [reflexivity|].
  cbn [m_run]. unfold m_std_step at 1.
  assert (Etask : task_of m t' = m_tasks m t').
  { unfold task_of. rewrite He. rewrite <- (Hall t') at 1. apply with_enabled_id. }
  rewrite Etask.
  pose proof (std_step_enabled c (m_tasks m t') r Hns) as Een.
  destruct (std_step c (m_tasks m t') r) as [s' o] eqn:Es. cbn [fst] in Een.
  assert (En' : enabled s' = true) by (rewrite Een; apply Hall).
  set (m' := put_task m t' s').
  assert (Hon' : all_on m').
  { unfold all_on, m', put_task. cbn [m_enabled m_tasks]. split; [exact En'|].
    intro t0. destruct (Nat.eqb t0 t'); [exact En'|apply Hall]. }
  specialize (IH m' t Hon').
  destruct (m_run (m_std_step c) m' trs) as [m2 o2]. cbn [snd] in *.
  unfold tev in *. rewrite of_task_app, of_task_pair, IH.
  unfold of_task at 2. cbn [filter fst].
  destruct (Nat.eqb t' t) eqn:E.
  - apply Nat.eqb_eq in E. subst t'. cbn [map snd run_steps]. rewrite Es.
    unfold m', put_task. cbn [m_tasks]. rewrite Nat.eqb_refl.
    fold (@of_task rec t trs). destruct (run_steps (std_step c) s' (of_task t trs)). reflexivity.
  - unfold m', put_task. cbn [m_tasks]. rewrite (Nat.eqb_sym t t'), E. reflexivity.
Qed.

Theorem tasks_independent c ss t : no_switch_all c -> (t < length ss)%nat ->
  of_task t (run_std_m c ss) = run_std c (nth t ss []).
Proof.
  intros Hns Ht. unfold run_std_m, run_std, merged.
  set (ps := map (pre c) ss).
  destruct (merge_task (total_len ps) ps t (le_n _)) as [M1 _].
  rewrite (std_independent c Hns (merge (total_len ps) ps) (m_init c) t).
  - rewrite M1. unfold ps, m_init. cbn [m_tasks].
    rewrite (nth_indep _ [] (pre c [])) by (rewrite map_length; exact Ht).
    rewrite map_nth. reflexivity.
  - unfold all_on, m_init. cbn [m_enabled m_tasks]. split; [reflexivity|]. intro; reflexivity.
Qed.

(* every task shows the documented selection of its own forest *)
Theorem tasks_match_select c fs t : no_switch_all c -> no_range c = true -> (t < length fs)%nat ->
  of_task t (run_std_m c (map (flats 0) fs)) = select c (nth t fs []).
Proof.
  intros Hns Hr Ht. rewrite (tasks_independent c _ t Hns) by (rewrite map_length; exact Ht).
  rewrite (nth_indep _ [] (flats 0 [])) by (rewrite map_length; exact Ht).
  rewrite map_nth. apply std_matches_select; assumption.
Qed.

(* script / replay --no-merge read the merged stream exactly like report / graph / dump *)
Lemma m_rp_nomerge_step c m tr : plt_free_all c -> no_merge c = true ->
  m_rp_step c (m, MNormal) tr = (let '(m', o) := m_std_step c m tr in ((m', MNormal), o)).
Proof.
  intros Hp Hm. destruct tr as [t r]. cbn [m_rp_step]. unfold m_rp_normal, m_std_step.
  pose proof (rp_nomerge_step c (task_of m t) r Hp Hm) as E. cbn [rp_step] in E. rewrite E.
  destruct (std_step c (task_of m t) r) as [s' o]. reflexivity.
Qed.
Theorem nomerge_multi c ss : plt_free_all c -> no_merge c = true -> run_rp_m c ss = run_std_m c ss.
Proof.
  intros Hp Hm. unfold run_rp_m, run_std_m.
  assert (E : forall trs m, m_run (m_rp_step c) (m, MNormal) trs
                            = (let '(m', o) := m_run (m_std_step c) m trs in ((m', MNormal), o))).
  { induction trs as [|tr trs IH]; intro m; [reflexivity|]. cbn [m_run]. rewrite (m_rp_nomerge_step c m tr Hp Hm).
    destruct (m_std_step c m tr) as [m1 o1]. rewrite IH. destruct (m_run (m_std_step c) m1 trs). reflexivity. }
  rewrite E. destruct (m_run (m_std_step c) (m_init c) (merged c ss)) as [m o]. cbn. apply app_nil_r.
Qed.
