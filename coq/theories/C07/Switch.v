(* C07 - trace_on / trace_off: the report/graph/dump loop (hence script and replay, Replay.v) shows exactly the
   events the documented switch lets through, for every forest and option set without depth= / -H whose
   nesting stays below -D. *)
From Coq Require Import NArith ZArith List Bool Lia.
Import ListNotations.
Require Import ZifyBool ZifyN ZifyNat.
Require Import UV.C07.Model UV.C07.Proofs UV.C07.Replay.
Local Open Scope Z_scope.

Definition sw_cfg (c : cfg) : Prop :=
  (forall f, q_depth (trig_of c f) = None /\ q_hide (trig_of c f) = false) /\ loc_free_all c.

Fixpoint heightZ (n : call) : Z := match n with Call _ _ _ ks => 1 + fold_right Z.max 0 (map heightZ ks) end.
Definition fheightZ (l : list call) : Z := fold_right Z.max 0 (map heightZ l).
Lemma heightZ_pos n : 0 < heightZ n.
Proof.
  destruct n as [f t0 t1 ks]. cbn [heightZ].
  assert (0 <= fold_right Z.max 0 (map heightZ ks)) by (induction ks; cbn; lia). lia.
Qed.

Definition core2 (s : st) := (below s, inc s, outc s, fdepth s, started s).
Definition goodsw (c : cfg) (s : st) (rd : Z) : Prop :=
  started s = true /\ 0 <= inc s /\ 0 <= outc s /\ 0 <= rd /\ gdepth c - rd <= fdepth s.

Definition sw_one (c : cfg) (s : st) (n : call) : list (bool * N) * bool :=
  if outc s >? 0 then ([], enabled s) else vis_sw c (0 <? inc s) (enabled s) n.
Definition sw_out (c : cfg) (s : st) (l : list call) : list (bool * N) * bool :=
  if outc s >? 0 then ([], enabled s) else vis_sw_list c (0 <? inc s) (enabled s) l.

Definition sw_call_stmt (c : cfg) (n : call) : Prop :=
  forall rd s, goodsw c s rd -> rd + heightZ n <= gdepth c ->
    exists s' o, run_steps (std_step c) s (flat rd n) = (s', o)
                 /\ map ob_n o = fst (sw_one c s n) /\ enabled s' = snd (sw_one c s n) /\ core2 s' = core2 s.

Lemma goodsw_core c s s' rd : core2 s' = core2 s -> goodsw c s rd -> goodsw c s' rd.
Proof. unfold core2, goodsw. intros H G. inversion H. repeat match goal with H : _ = _ |- _ => rewrite H end. exact G. Qed.

Lemma inner_is_list c : forall ks inF on,
  (fix go (inF' on0 : bool) (l : list call) : list (bool * N) * bool :=
     match l with
     | [] => ([], on0)
     | k :: r => let '(o1, b1) := vis_sw c inF' on0 k in let '(o2, b2) := go inF' b1 r in (o1 ++ o2, b2)
     end) inF on ks = vis_sw_list c inF on ks.
Proof.
  induction ks as [|k ks IH]; intros inF on; [reflexivity|]. cbn [vis_sw_list].
  destruct (vis_sw c inF on k) as [o1 b1]. rewrite IH. reflexivity.
Qed.

Lemma sw_kids c ks : Forall (sw_call_stmt c) ks ->
  forall rd s, goodsw c s rd -> rd + fheightZ ks <= gdepth c ->
    exists s' o, run_steps (std_step c) s (flat_map (flat rd) ks) = (s', o)
                 /\ map ob_n o = fst (sw_out c s ks) /\ enabled s' = snd (sw_out c s ks) /\ core2 s' = core2 s.
Proof.
  induction 1 as [|k ks Hk _ IH]; intros rd s G Hh.
  - exists s, []. unfold sw_out. cbn. destruct (outc s >? 0); repeat split; reflexivity.
  - unfold fheightZ in Hh. cbn [map fold_right] in Hh. fold (fheightZ ks) in Hh.
    cbn [flat_map]. rewrite run_steps_app.
    destruct (Hk rd s G ltac:(lia)) as (s1 & o1 & R1 & M1 & E1 & C1). rewrite R1.
    destruct (IH rd s1 (goodsw_core c s s1 rd C1 G) ltac:(lia)) as (s2 & o2 & R2 & M2 & E2 & C2). rewrite R2.
    exists s2, (o1 ++ o2). split; [reflexivity|].
    assert (Ho : outc s1 = outc s) by (unfold core2 in C1; inversion C1; reflexivity).
    assert (Hi : inc s1 = inc s) by (unfold core2 in C1; inversion C1; reflexivity).
    unfold sw_out, sw_one in *. rewrite Ho, Hi in *. rewrite map_app, M1, M2, E2.
    destruct (outc s >? 0).
    + cbn in *. rewrite E1. repeat split; congruence.
    + cbn [vis_sw_list]. rewrite E1. destruct (vis_sw c (0 <? inc s) (enabled s) k) as [a b]. cbn [fst snd].
      destruct (vis_sw_list c (0 <? inc s) b ks) as [a2 b2]. cbn [fst snd]. repeat split; congruence.
Qed.

Ltac zc := cbn -[Z.add Z.sub Z.leb Z.gtb Z.eqb Z.ltb Z.max run_steps flat_map vis_sw vis_sw_list heightZ].

Ltac sw_kids_exit HK rdk :=
  rewrite run_steps_app;
  match goal with
  | |- context [run_steps (std_step ?c) ?s1 (flat_map _ ?ks)] =>
      destruct (HK s1) as (s2 & o2 & R2 & M2 & E2 & C2);
      [ unfold goodsw; cbn [started inc outc fdepth]; repeat split; lia
      | rewrite R2; unfold sw_out in M2, E2; cbn [inc outc fdepth enabled] in M2, E2;
        destruct s2; unfold core2 in C2; cbn [below inc outc fdepth started enabled] in C2, E2;
        inversion C2; subst;
        rewrite run_steps_cons; unfold std_step at 1, std_body at 1;
        unfold fstack_exit, update_exit, consume, top_above, set_stacks, set_disp, stack_count; zc ]
  end.

Lemma sw_call c (Hsw : sw_cfg c) : forall n, sw_call_stmt c n.
Proof.
  induction n as [f t0 t1 ks IH] using call_ind'. intros rd s G Hh.
  cbn [heightZ] in Hh. fold (fheightZ ks) in Hh.
  assert (HK : forall s1, goodsw c s1 (rd + 1) ->
            exists s' o, run_steps (std_step c) s1 (flat_map (flat (rd + 1)) ks) = (s', o)
                         /\ map ob_n o = fst (sw_out c s1 ks) /\ enabled s' = snd (sw_out c s1 ks) /\ core2 s' = core2 s1).
  { intros s1 G1. apply (sw_kids c ks IH (rd + 1) s1 G1). lia. }
  assert (Hfk : 0 <= fheightZ ks) by (unfold fheightZ; clear; induction ks; cbn; lia).
  destruct s as [b a i o fd en dd ds stt]. destruct G as (Gs & Gi & Go & Grd & Gf).
  cbn [started inc outc fdepth] in Gs, Gi, Go, Gf. subst stt.
  destruct Hsw as [Hsw0 Hlf]. destruct (Hsw0 f) as [Hqd Hqh].
  cbn [flat]. rewrite run_steps_cons.
  unfold sw_one. cbn [outc inc enabled vis_sw]. rewrite !(inner_is_list c).
  unfold std_step at 1. unfold std_body at 1. unfold fstack_entry, consume, top_above, set_stacks, stack_count.
  zc. rewrite Hqd, Hqh, (loc_free_hidden c f Hlf).
  destruct (o >? 0) eqn:Eo.
  - sw_kids_exit HK (rd + 1). rewrite Eo in *. cbn [fst snd] in *.
    cbn [run_steps]. eexists _, _. split; [reflexivity|]. rewrite ?app_nil_r; cbn [app]; rewrite ?app_nil_r, M2.
    repeat split; reflexivity.
  - assert (o = 0) by lia. subst o.
    destruct (q_filter (trig_of c f)) as [[|]|] eqn:Ef.
    + (* -F function *)
      cbn [negb andb orb].
      set (on1 := if q_trace_off (trig_of c f) then false else if q_trace_on (trig_of c f) then true else en).
      assert (Ei : (0 <? i + 1) = true) by lia.
      replace (gdepth c <=? 0) with false by lia. cbn [orb].
      destruct on1 eqn:Eon; cbn [negb].
      * unfold update_entry, set_disp. zc.
        sw_kids_exit HK (rd + 1). change (0 >? 0) with false in *. cbn iota in *. rewrite Ei, orb_true_r in *.
        destruct (vis_sw_list c true true ks) as [ko on2] eqn:Ek. cbn [fst snd] in *.
        destruct on2; cbn [negb orb andb].
        -- cbn [run_steps]. eexists _, _. split; [reflexivity|].
           rewrite Z.add_simpl_r.
           destruct (hidden_plt c f); cbn [negb andb app map ob_n v_exit v_fn mkev]; rewrite ?map_app, ?app_nil_r, M2;
             cbn [map ob_n v_exit v_fn mkev app]; repeat split; reflexivity.
        -- cbn [run_steps]. eexists _, _. split; [reflexivity|]. rewrite ?Z.add_simpl_r.
           destruct (hidden_plt c f); cbn [negb andb app map ob_n v_exit v_fn mkev]; rewrite ?map_app, ?app_nil_r, M2;
             cbn [map ob_n v_exit v_fn mkev app]; rewrite ?app_nil_r; repeat split; reflexivity.
      * sw_kids_exit HK (rd + 1). change (0 >? 0) with false in *. cbn iota in *. rewrite Ei, orb_true_r in *.
        destruct (vis_sw_list c true false ks) as [ko on2] eqn:Ek. cbn [fst snd] in *.
        destruct on2; cbn [negb orb andb].
        -- cbn [run_steps]. eexists _, _. split; [reflexivity|]. rewrite ?Z.add_simpl_r.
           destruct (hidden_plt c f); cbn [negb andb app map ob_n v_exit v_fn mkev]; rewrite ?map_app, ?app_nil_r, M2;
             cbn [map ob_n v_exit v_fn mkev app]; repeat split; reflexivity.
        -- cbn [run_steps]. eexists _, _. split; [reflexivity|]. rewrite ?Z.add_simpl_r.
           cbn [app map]. rewrite ?app_nil_r, M2. repeat split; reflexivity.
    + (* -N function *)
      sw_kids_exit HK (rd + 1). change (0 + 1 >? 0) with true in *. cbn [fst snd] in *.
      cbn [run_steps]. eexists _, _. split; [reflexivity|]. rewrite ?Z.add_simpl_r. rewrite app_nil_r, M2.
      repeat split; reflexivity.
    + cbn [negb andb orb].
      destruct (fmode_in c && (i =? 0)) eqn:Em.
      * assert (Ei : (0 <? i) = false) by lia. rewrite Ei. cbn [negb]. rewrite andb_true_r.
        replace (fmode_in c) with true by (destruct (fmode_in c); cbn in Em; congruence).
        sw_kids_exit HK (rd + 1). change (0 >? 0) with false in *. cbn iota in *. rewrite Ei in *.
        destruct (vis_sw_list c false en ks) as [ko on2] eqn:Ek. cbn [fst snd] in *.
        cbn [run_steps]. eexists _, _. split; [reflexivity|]. rewrite app_nil_r, M2. repeat split; reflexivity.
      * assert (Ei : fmode_in c && negb (0 <? i) = false).
        { destruct (fmode_in c); [|reflexivity]. cbn in *. lia. }
        rewrite Ei. rewrite !orb_false_r.
        set (on1 := if q_trace_off (trig_of c f) then false else if q_trace_on (trig_of c f) then true else en).
        replace (fd <=? 0) with false by lia.
        destruct on1 eqn:Eon; cbn [negb].
        -- unfold update_entry, set_disp. zc.
           sw_kids_exit HK (rd + 1). change (0 >? 0) with false in *. cbn iota in *.
           destruct (vis_sw_list c (0 <? i) true ks) as [ko on2] eqn:Ek. cbn [fst snd] in *.
           destruct on2; cbn [negb orb andb]; cbn [run_steps]; eexists _, _; (split; [reflexivity|]);
             destruct (hidden_plt c f); cbn [negb andb app map ob_n v_exit v_fn mkev]; rewrite ?map_app, ?app_nil_r, M2;
             cbn [map ob_n v_exit v_fn mkev app]; rewrite ?app_nil_r; repeat split; reflexivity.
        -- sw_kids_exit HK (rd + 1). change (0 >? 0) with false in *. cbn iota in *.
           destruct (vis_sw_list c (0 <? i) false ks) as [ko on2] eqn:Ek. cbn [fst snd] in *.
           destruct on2; cbn [negb orb andb]; cbn [run_steps]; eexists _, _; (split; [reflexivity|]);
             destruct (hidden_plt c f); cbn [negb andb app map ob_n v_exit v_fn mkev]; rewrite ?map_app, ?app_nil_r, M2;
             cbn [map ob_n v_exit v_fn mkev app]; rewrite ?app_nil_r; repeat split; reflexivity.
Qed.

Lemma fold_max_le l a : (forall x, In x l -> x <= a) -> 0 <= a -> fold_right Z.max 0 l <= a.
Proof. induction l as [|x l IH]; intros H Ha; cbn [fold_right]; [lia|]. specialize (H x (or_introl eq_refl)) as Hx.
  assert (fold_right Z.max 0 l <= a) by (apply IH; auto; intros y Hy; apply H; right; exact Hy). lia. Qed.

Lemma tprune_height c : forall n thr, fheightZ (tprune c thr n) <= heightZ n.
Proof.
  induction n as [f t0 t1 ks IH] using call_ind'. intro thr. cbn [tprune heightZ].
  set (th := match q_time (trig_of c f) with Some t => t | None => thr end).
  assert (K : fheightZ (flat_map (tprune c th) ks) <= fheightZ ks).
  { unfold fheightZ. induction IH as [|k ks Hk _ IHks]; [cbn; lia|].
    cbn [flat_map map fold_right]. rewrite map_app.
    assert (G : forall l1 l2, fold_right Z.max 0 (l1 ++ l2) = Z.max (fold_right Z.max 0 l1) (fold_right Z.max 0 l2)).
    { induction l1 as [|x l1 IHl]; intro l2; cbn [app fold_right]; [|rewrite IHl]; try lia.
      assert (0 <= fold_right Z.max 0 l2) by (clear; induction l2; cbn; lia). lia. }
    rewrite G. specialize (Hk th). unfold fheightZ in Hk. lia. }
  assert (0 <= fheightZ ks) by (unfold fheightZ; clear; induction ks; cbn; lia).
  destruct (_ || _ || _); unfold fheightZ in *; cbn [map fold_right heightZ]; lia.
Qed.

Lemma tprune_forest_height c thr f : fheightZ (flat_map (tprune c thr) f) <= fheightZ f.
Proof.
  unfold fheightZ. induction f as [|n f IH]; [cbn; lia|]. cbn [flat_map map fold_right]. rewrite map_app.
  assert (G : forall l1 l2, fold_right Z.max 0 (l1 ++ l2) = Z.max (fold_right Z.max 0 l1) (fold_right Z.max 0 l2)).
  { induction l1 as [|x l1 IHl]; intro l2; cbn [app fold_right]; [|rewrite IHl]; try lia.
    assert (0 <= fold_right Z.max 0 l2) by (clear; induction l2; cbn; lia). lia. }
  rewrite G. pose proof (tprune_height c n thr) as H. unfold fheightZ in H. lia.
Qed.

Theorem switch_std c f : sw_cfg c -> no_range c = true -> fheightZ f <= gdepth c ->
  map ob_n (run_std c (flats 0 f)) = select_sw c f.
Proof.
  intros Hsw Hr Hh. unfold run_std, select_sw. rewrite (pre_forest c f Hr).
  set (p := flat_map (tprune c (threshold c)) f).
  assert (Hp : fheightZ p <= gdepth c) by (pose proof (tprune_forest_height c (threshold c) f); fold p in H; lia).
  destruct p as [|n0 p0] eqn:Ep; [reflexivity|]. rewrite <- Ep in *.
  rewrite std_from_st0 by (rewrite Ep; discriminate).
  assert (Hall : Forall (sw_call_stmt c) p) by (apply Forall_forall; intros n _; apply sw_call; exact Hsw).
  assert (G : goodsw c (st1 c) 0) by (unfold goodsw, st1; cbn; repeat split; lia).
  destruct (sw_kids c p Hall 0 (st1 c) G ltac:(lia)) as (s' & o & R & M & _ & _).
  unfold flats. rewrite R. cbn [snd]. rewrite M. unfold sw_out, st1. cbn [outc inc enabled]. reflexivity.
Qed.

Theorem switch_replay c f : sw_cfg c -> plt_free_all c -> no_range c = true -> fheightZ f <= gdepth c ->
  map ob_n (run_rp c (flats 0 f)) = select_sw c f /\ map ob_n (run_script c (flats 0 f)) = select_sw c f.
Proof.
  intros Hsw Hp Hr Hh. split.
  - rewrite rp_eq_std_forest by assumption. apply switch_std; assumption.
  - rewrite script_eq_std by assumption. apply switch_std; assumption.
Qed.

(* without any switch the documented switch shows the documented selection *)
Example hyps_switch :
  let c := mkcfg [(1%N, {| q_filter := None; q_depth := None; q_time := None; q_trace_on := false; q_trace_off := true;
                          q_trace := false; q_caller := false; q_hide := false |});
                  (4%N, {| q_filter := None; q_depth := None; q_time := None; q_trace_on := true; q_trace_off := false;
                          q_trace := false; q_caller := false; q_hide := false |})] false false 1024 0 0 0 [] true false in
  let f := [Call 0 1000 2000 [Call 1 1100 1500 [Call 2 1200 1400 []]; Call 4 1600 1700 [Call 3 1610 1620 []]]] in
  select_sw c f = [(false, 0%N); (false, 4%N); (false, 3%N); (true, 3%N); (true, 4%N); (true, 0%N)].
Proof. vm_compute. reflexivity. Qed.
