(* C07 - record time = replay time, unbounded, for depth= triggers together with -N, -D and -t (no -F: below an
   -F function the two times count the levels differently, known finding filter-below-depth-trigger), -pg
   shape.  A rejected call whose trigger changed the filter state keeps a not-recorded shadow stack entry
   (/repo c9e77e5), so depth=0 hides the function AND its callees at both times. *)
From Coq Require Import NArith ZArith List Bool Lia.
Import ListNotations.
Require Import ZifyBool ZifyN ZifyNat.
Require Import UV.Gen.Consts UV.C07.Model UV.C07.Proofs UV.C07.RecordProof.
Local Open Scope Z_scope.

Definition dtrig (qf : option bool) (qd : option Z) : rtrig :=
  {| q_filter := qf; q_depth := qd; q_time := None; q_trace_on := false; q_trace_off := false;
     q_trace := false; q_caller := false; q_hide := false |}.
Definition classD (c : cfg) : Prop :=
  (forall f, trig_of c f = dtrig (q_filter (trig_of c f)) (q_depth (trig_of c f))
             /\ q_filter (trig_of c f) <> Some true
             /\ (forall d, q_depth (trig_of c f) = Some d -> 0 <= d < 65535))
  /\ fmode_in c = false /\ caller_filter c = false /\ 1 <= gdepth c /\ loc_free_all c.

(* the level limit in force: FILTER_NO_MAX_DEPTH means "use -D" *)
Definition lim (c : cfg) (mx : N) : N := if (mx =? FILTER_NO_MAX_DEPTH)%N then Z.to_N (gdepth c) else mx.

(* what is recorded: dp = levels used, mx = mtdp->filter.max_depth *)
Fixpoint selD (c : cfg) (dp mx : N) (n : call) : list call :=
  match n with
  | Call f t0 t1 ks =>
      match q_filter (trig_of c f) with
      | Some false => []
      | _ =>
          let dp1 := match q_depth (trig_of c f) with Some _ => 0%N | None => dp end in
          let mx1 := match q_depth (trig_of c f) with Some d => Z.to_N d | None => mx end in
          if (lim c mx1 <=? dp1)%N then flat_map (selD c dp1 mx1) ks
          else let gk := flat_map (selD c (dp1 + 1) mx1) ks in if keep c t0 t1 gk then [Call f t0 t1 gk] else []
      end
  end.
Definition selD_at (c : cfg) (o : Z) (dp mx : N) (l : list call) : list call :=
  if o >? 0 then [] else flat_map (selD c dp mx) l.

Definition mkD (i o : Z) (dp mx : N) (stk : list MC.frame) (ri : N) (ou : list MC.rec) : MC.st :=
  {| MC.fc := {| MC.in_count := i; MC.out_count := o; MC.depth := dp; MC.max_depth := mx;
                 MC.ftime := MC.NO_TIME; MC.fsize := 0 |};
     MC.enabled := true; MC.cached := true; MC.stack := stk; MC.ridx := ri; MC.out := ou; MC.warned := false |}.
Definition afterD (g : list call) (i o : Z) (dp mx : N) (stk : list MC.frame) (ri : N) (ou : list MC.rec) : MC.st :=
  match g with
  | [] => mkD i o dp mx stk ri ou
  | _ => mkD i o dp mx (markw stk) ri (ou ++ pend stk ++ flat_map (mflat ri) g)
  end.
Lemma afterD_app g1 g2 i o dp mx stk ri ou :
  (let s1 := afterD g1 i o dp mx stk ri ou in afterD g2 i o dp mx (MC.stack s1) ri (MC.out s1))
  = afterD (g1 ++ g2) i o dp mx stk ri ou.
Proof.
  destruct g1 as [|x g1]; [reflexivity|]. cbn [afterD app mkD MC.stack MC.out].
  destruct g2 as [|y g2].
  - rewrite app_nil_r. reflexivity.
  - cbn [afterD]. rewrite markw_markw, pend_markw. cbn [app].
    unfold mkD. f_equal. rewrite <- !app_assoc. f_equal. f_equal.
    change (x :: g1 ++ y :: g2) with ((x :: g1) ++ (y :: g2)). rewrite flat_map_app. reflexivity.
Qed.
Lemma afterD_mk g i o dp mx stk ri ou :
  afterD g i o dp mx stk ri ou
  = mkD i o dp mx (MC.stack (afterD g i o dp mx stk ri ou)) ri (MC.out (afterD g i o dp mx stk ri ou))
  /\ length (MC.stack (afterD g i o dp mx stk ri ou)) = length stk.
Proof. destruct g; cbn [afterD mkD MC.stack MC.out]; split; try reflexivity. apply flush_length. Qed.
Lemma selD_at_cons c o dp mx k ks : selD_at c o dp mx (k :: ks) = selD_at c o dp mx [k] ++ selD_at c o dp mx ks.
Proof. unfold selD_at. destruct (o >? 0); [reflexivity|]. cbn [flat_map]. rewrite app_nil_r. reflexivity. Qed.

Definition FrD (ntr nrc wr : bool) (a t0 t1 ri svd svm : N) : MC.frame :=
  {| MC.f_addr := a; MC.f_start := t0; MC.f_end := t1;
     MC.f_flags := {| MC.norecord := nrc; MC.notrace := ntr; MC.filtered := false; MC.written := wr;
                      MC.disabled := false; MC.ftrace := false; MC.fcaller := false; MC.cygprof := false |};
     MC.f_depth := ri; MC.sv_depth := svd; MC.sv_max := svm; MC.sv_time := MC.NO_TIME;
     MC.sv_size := 0; MC.f_ghost := false |}.
Lemma markw_consD f t0 ri svd svm stk :
  markw (FrD false false false f t0 0 ri svd svm :: stk) = FrD false false true f t0 0 ri svd svm :: markw stk
  /\ pend (FrD false false false f t0 0 ri svd svm :: stk) = pend stk ++ [mflat_rec false ri t0 f].
Proof.
  unfold markw, pend. cbn [MC.flush_anc FrD MC.f_flags MC.written]. destruct (MC.flush_anc stk) as [rest' recs].
  cbn. split; reflexivity.
Qed.
Lemma markw_skipD ntr f t0 ri svd svm stk :
  markw (FrD ntr true false f t0 0 ri svd svm :: stk) = FrD ntr true false f t0 0 ri svd svm :: markw stk
  /\ pend (FrD ntr true false f t0 0 ri svd svm :: stk) = pend stk.
Proof.
  unfold markw, pend. cbn [MC.flush_anc FrD MC.f_flags MC.written]. destruct (MC.flush_anc stk) as [rest' recs].
  cbn. split; reflexivity.
Qed.

Section RecD.
  Variable c : cfg.
  Hypothesis HD : classD c.
  Local Notation mc := (to_mcfg c MC.PG).

  Ltac mstep :=
    unfold MC.dstep, MC.hooked, MC.do_enter, MC.do_leave, MC.entry_check, MC.entry_record, MC.exit_record,
           MC.check_rstack, MC.idx, MC.with_fc, MC.set_end, MC.state_trig, mkD, FrD;
    cbn [MC.max_stack MC.stack MC.shp MC.fc MC.warned to_mcfg MC.trig_of MC.fmode_in MC.has_caller MC.gdepth
         MC.threshold MC.sym_size MC.out_count MC.in_count MC.depth MC.max_depth MC.ftime MC.fsize MC.enabled
         MC.cached MC.ridx MC.out].

  Lemma enterD_out f t i o dp mx stk ri ou hk : o >? 0 = true -> (length stk < 1024)%nat ->
    MC.dstep mc (mkD i o dp mx stk ri ou, hk) (MC.Enter f t) = (mkD i o dp mx stk ri ou, false :: hk).
  Proof.
    intros Ho Hl. assert (Hidx : (1024 <=? N.of_nat (length stk))%N = false) by lia.
    mstep. rewrite Hidx. cbn. rewrite Ho. cbn. rewrite ?Ho. reflexivity.
  Qed.

  (* a -N function: always a not-recorded frame, whatever its depth= says *)
  Lemma enterD_N f t i dp mx stk ri ou hk qd : trig_of c f = dtrig (Some false) qd -> (length stk < 1024)%nat ->
    exists dp' mx' ts,
      MC.dstep mc (mkD i 0 dp mx stk ri ou, hk) (MC.Enter f t)
      = (mkD i 1 dp' mx' (FrD true true false f ts 0 ri dp mx :: stk) ri ou, true :: hk).
  Proof.
    intros Htr Hl. assert (Hidx : (1024 <=? N.of_nat (length stk))%N = false) by lia.
    destruct HD as (_ & Hfm & _).
    mstep. rewrite Hidx. cbn. rewrite Htr. cbn.
    destruct qd as [d|]; cbn.
    - destruct (Z.to_N d <=? 0)%N; cbn; eexists _, _, _; reflexivity.
    - destruct ((if (mx =? FILTER_NO_MAX_DEPTH)%N then Z.to_N (gdepth c) else mx) <=? 0)%N; cbn; eexists _, _, _; reflexivity.
  Qed.

  Lemma leaveD_skip ntr f ts i o dp0 mx0 dp mx stk ri ou hk t :
    MC.dstep mc (mkD i o dp0 mx0 (FrD ntr true false f ts 0 ri dp mx :: stk) ri ou, true :: hk) (MC.Leave t)
    = (mkD i (if ntr then o - 1 else o) dp mx stk ri ou, hk).
  Proof. mstep. cbn. destruct ntr; reflexivity. Qed.

  (* no trigger, beyond the limit: mcount_entry returns -1, nothing changes *)
  Lemma enterD_rej f t i dp mx stk ri ou hk : trig_of c f = dtrig None None -> (length stk < 1024)%nat ->
    (lim c mx <=? dp)%N = true ->
    MC.dstep mc (mkD i 0 dp mx stk ri ou, hk) (MC.Enter f t) = (mkD i 0 dp mx stk ri ou, false :: hk).
  Proof.
    intros Htr Hl Hh. assert (Hidx : (1024 <=? N.of_nat (length stk))%N = false) by lia.
    destruct HD as (_ & Hfm & _). unfold lim in Hh.
    mstep. rewrite Hidx. cbn. rewrite Htr. cbn. rewrite Hfm. cbn. rewrite Hh. cbn. rewrite ?Hfm, ?Hh. reflexivity.
  Qed.

  (* depth=0: rejected, but the changed state is kept in a not-recorded frame *)
  Lemma enterD_rejT f t i dp mx stk ri ou hk d : trig_of c f = dtrig None (Some d) -> (length stk < 1024)%nat ->
    (Z.to_N d <=? 0)%N = true ->
    MC.dstep mc (mkD i 0 dp mx stk ri ou, hk) (MC.Enter f t)
    = (mkD i 0 0 (Z.to_N d) (FrD false true false f 0 0 ri dp mx :: stk) ri ou, true :: hk).
  Proof.
    intros Htr Hl Hh. assert (Hidx : (1024 <=? N.of_nat (length stk))%N = false) by lia.
    destruct HD as (_ & Hfm & _).
    mstep. rewrite Hidx. cbn. rewrite Htr. cbn. rewrite Hfm. cbn. rewrite Hh. cbn. rewrite ?Hfm, ?Hh. cbn. reflexivity.
  Qed.

  Lemma enterD_vis f t i dp mx stk ri ou hk qd : trig_of c f = dtrig None qd -> (length stk < 1024)%nat ->
    let dp1 := match qd with Some _ => 0%N | None => dp end in
    let mx1 := match qd with Some d => Z.to_N d | None => mx end in
    (forall d, qd = Some d -> 0 <= d < 65535) ->
    (lim c mx1 <=? dp1)%N = false ->
    MC.dstep mc (mkD i 0 dp mx stk ri ou, hk) (MC.Enter f t)
    = (mkD i 0 (dp1 + 1) mx1 (FrD false false false f t 0 ri dp mx :: stk) (ri + 1) ou, true :: hk).
  Proof.
    intros Htr Hl dp1 mx1 Hd Hh. assert (Hidx : (1024 <=? N.of_nat (length stk))%N = false) by lia.
    destruct HD as (_ & Hfm & _). unfold lim in Hh. subst dp1 mx1.
    mstep. rewrite Hidx. cbn. rewrite Htr. cbn. rewrite Hfm. cbn.
    destruct qd as [d|]; cbn in *.
    - specialize (Hd d eq_refl).
      assert (E : (Z.to_N d =? FILTER_NO_MAX_DEPTH)%N = false) by (unfold FILTER_NO_MAX_DEPTH; lia).
      rewrite E in Hh. rewrite Hh. cbn. rewrite ?Hfm. cbn. rewrite ?andb_false_r. cbn. reflexivity.
    - rewrite Hh. cbn. rewrite ?Hfm. cbn. rewrite ?andb_false_r. cbn. reflexivity.
  Qed.

  Lemma leaveD_rec (wr : bool) f t0 t1 i dp0 mx0 dp mx stk ri ou hk : (t0 < t1)%N -> (t1 < two64)%N ->
    MC.dstep mc (mkD i 0 dp0 mx0 (FrD false false wr f t0 0 ri dp mx :: stk) (ri + 1) ou, true :: hk) (MC.Leave t1)
    = (if wr || (threshold c <=? tdelta t1 t0)%N
       then mkD i 0 dp mx (if wr then stk else markw stk) ri
                (ou ++ (if wr then [] else pend stk ++ [mflat_rec false ri t0 f]) ++ [mflat_rec true ri t1 f])
       else mkD i 0 dp mx stk ri ou, hk).
  Proof.
    intros H01 H1. destruct HD as (_ & _ & Hcl & _). unfold two64 in H1. unfold tdelta, two64.
    assert (Hri : (if (0 <? ri + 1)%N then (ri + 1 - 1)%N else 0%N) = ri) by (destruct (0 <? ri + 1)%N eqn:E; lia).
    assert (Ht1 : (t1 =? 0)%N = false) by lia.
    mstep. cbn -[N.modulo N.add N.sub N.ltb MC.flush_anc]. rewrite Hcl. cbn -[N.modulo N.add N.sub N.ltb MC.flush_anc].
    rewrite Hri.
    destruct (threshold c <=? (t1 + 18446744073709551616 - t0) mod 18446744073709551616)%N eqn:EL;
      cbn -[N.modulo N.add N.sub N.ltb MC.flush_anc]; unfold MC.record_trace_data; cbn -[MC.flush_anc];
      destruct wr; cbn -[MC.flush_anc]; rewrite ?Ht1; try reflexivity;
      unfold markw, pend; destruct (MC.flush_anc stk) as [anc' pre]; cbn; rewrite ?Ht1;
      cbn; rewrite <- ?app_assoc; reflexivity.
  Qed.

  Lemma execD_app es1 es2 d : MC.exec mc (es1 ++ es2) d = MC.exec mc es2 (MC.exec mc es1 d).
  Proof. unfold MC.exec. apply fold_left_app. Qed.
  Lemma execD_cons e es d : MC.exec mc (e :: es) d = MC.exec mc es (MC.dstep mc d e).
  Proof. reflexivity. Qed.

  Definition recD_call_stmt (n : call) : Prop := forall i o dp mx stk ri ou hk,
    0 <= o -> (length stk + height n <= 1024)%nat -> wf_call (threshold c) n ->
    MC.exec mc (events n) (mkD i o dp mx stk ri ou, hk) = (afterD (selD_at c o dp mx [n]) i o dp mx stk ri ou, hk).

  Lemma recD_kids ks : Forall recD_call_stmt ks -> forall i o dp mx stk ri ou hk,
    0 <= o -> (length stk + fheight ks <= 1024)%nat -> Forall (wf_call (threshold c)) ks ->
    MC.exec mc (flat_map events ks) (mkD i o dp mx stk ri ou, hk)
    = (afterD (selD_at c o dp mx ks) i o dp mx stk ri ou, hk).
  Proof.
    induction 1 as [|k ks Hk _ IH]; intros i o dp mx stk ri ou hk Ho Hlen Hwf.
    - unfold selD_at. cbn. destruct (o >? 0); reflexivity.
    - inversion Hwf as [|? ? Hwk Hwks]; subst. cbn [flat_map]. rewrite execD_app.
      unfold fheight in Hlen. cbn [map fold_right] in Hlen.
      rewrite (Hk i o dp mx stk ri ou hk Ho) by (auto; lia).
      destruct (afterD_mk (selD_at c o dp mx [k]) i o dp mx stk ri ou) as [E L].
      set (s1 := afterD (selD_at c o dp mx [k]) i o dp mx stk ri ou) in *.
      rewrite E.
      rewrite (IH i o dp mx _ ri _ hk Ho) by (auto; unfold fheight; rewrite L; lia).
      rewrite selD_at_cons. rewrite <- afterD_app. cbn zeta. fold s1. reflexivity.
  Qed.

  Lemma recD_call : forall n, recD_call_stmt n.
  Proof.
    induction n as [f t0 t1 ks IH] using call_ind'. intros i o dp mx stk ri ou hk Ho Hlen Hwf.
    pose proof (recD_kids ks IH) as HK.
    apply wf_kids in Hwf. destruct Hwf as (H01 & H1 & Hwk & _).
    assert (Hl : (length stk < 1024)%nat) by (cbn [height] in Hlen; lia).
    assert (Hlk0 : (length stk + fheight ks <= 1024)%nat) by (cbn [height] in Hlen; unfold fheight; lia).
    assert (Hlk1 : forall F, (length (F :: stk) + fheight ks <= 1024)%nat)
      by (intro; cbn [height length] in *; unfold fheight; lia).
    destruct HD as (Htr & _). destruct (Htr f) as (Etr & HnF & Hdr).
    cbn [events]. rewrite execD_cons, execD_app.
    unfold selD_at. cbn [flat_map selD]. rewrite app_nil_r.
    destruct (o >? 0) eqn:Eo.
    - rewrite (enterD_out f t0 i o dp mx stk ri ou hk Eo Hl).
      rewrite (HK i o dp mx stk ri ou (false :: hk) Ho Hlk0 Hwk). unfold selD_at. rewrite Eo. cbn [afterD]. reflexivity.
    - assert (o = 0) by lia. subst o.
      destruct (q_filter (trig_of c f)) as [[|]|] eqn:Ef; [congruence| |].
      + (* -N *)
        destruct (enterD_N f t0 i dp mx stk ri ou hk _ Etr Hl) as (dp' & mx' & ts & E). rewrite E.
        rewrite (HK i 1 dp' mx' _ ri ou (true :: hk)) by (auto; lia).
        unfold selD_at. change (1 >? 0) with true. cbn [afterD]. cbn [MC.exec fold_left].
        rewrite leaveD_skip. reflexivity.
      + set (dp1 := match q_depth (trig_of c f) with Some _ => 0%N | None => dp end) in *.
        set (mx1 := match q_depth (trig_of c f) with Some d => Z.to_N d | None => mx end) in *.
        destruct (lim c mx1 <=? dp1)%N eqn:Eh.
        * (* rejected by the level limit *)
          destruct (q_depth (trig_of c f)) as [d|] eqn:Eq.
          -- (* ... after its depth= trigger changed the state: a not-recorded frame keeps it *)
             specialize (Hdr d eq_refl). subst dp1 mx1.
             assert (Hz : (Z.to_N d <=? 0)%N = true).
             { unfold lim in Eh. assert (E : (Z.to_N d =? FILTER_NO_MAX_DEPTH)%N = false) by (unfold FILTER_NO_MAX_DEPTH; lia).
               rewrite E in Eh. exact Eh. }
             rewrite (enterD_rejT f t0 i dp mx stk ri ou hk d Etr Hl Hz).
             rewrite (HK i 0 0%N (Z.to_N d) _ ri ou (true :: hk)) by (auto; lia).
             unfold selD_at. change (0 >? 0) with false. cbn iota.
             destruct (markw_skipD false f 0 ri dp mx stk) as [M P].
             destruct (flat_map (selD c 0 (Z.to_N d)) ks) as [|x g']; cbn [afterD]; [|rewrite M, P];
               cbn [MC.exec fold_left]; rewrite leaveD_skip; reflexivity.
          -- subst dp1 mx1. rewrite (enterD_rej f t0 i dp mx stk ri ou hk Etr Hl Eh).
             rewrite (HK i 0 dp mx stk ri ou (false :: hk) Ho Hlk0 Hwk). unfold selD_at. change (0 >? 0) with false.
             reflexivity.
        * pose proof (enterD_vis f t0 i dp mx stk ri ou hk _ Etr Hl) as EV. cbn zeta in EV.
          fold dp1 mx1 in EV. rewrite (EV Hdr Eh).
          rewrite (HK i 0 (dp1 + 1)%N mx1 _ (ri + 1)%N ou (true :: hk)) by (auto; lia).
          unfold selD_at. change (0 >? 0) with false. cbn iota.
          destruct (flat_map (selD c (dp1 + 1) mx1) ks) as [|x g'] eqn:Eg.
          -- cbn [afterD]. cbn [MC.exec fold_left].
             rewrite (leaveD_rec false f t0 t1 i (dp1 + 1)%N mx1 dp mx stk ri ou hk H01 H1).
             unfold keep. cbn [is_nil negb orb].
             destruct (threshold c <=? tdelta t1 t0)%N; [|reflexivity].
             cbn [afterD flat_map mflat]. unfold mkD. rewrite app_nil_r. rewrite <- ?app_assoc. reflexivity.
          -- cbn [afterD]. destruct (markw_consD f t0 ri dp mx stk) as [M P]. rewrite M, P.
             cbn [MC.exec fold_left].
             rewrite (leaveD_rec true f t0 t1 i (dp1 + 1)%N mx1 dp mx (markw stk) ri _ hk H01 H1).
             unfold keep. cbn [is_nil negb orb].
             cbn [afterD flat_map mflat]. unfold mkD. rewrite app_nil_r.
             cbn [app]. rewrite <- ?app_assoc. cbn [app]. reflexivity.
  Qed.
End RecD.

(* ------------------------------------------------------------------ what libmcount writes *)
Lemma record_is_selD c f : classD c -> wf_forest c f -> (fheight f <= 1024)%nat ->
  record (to_mcfg c MC.PG) f = flats 0 (flat_map (selD c 0 FILTER_NO_MAX_DEPTH) f).
Proof.
  intros HD Hwf Hh. unfold record.
  change (MC.init, @nil bool) with (mkD 0 0 0 FILTER_NO_MAX_DEPTH [] 0 [], @nil bool).
  assert (Hall : Forall (recD_call_stmt c) f) by (apply Forall_forall; intros n _; apply recD_call; assumption).
  rewrite (recD_kids c f Hall 0 0 0%N FILTER_NO_MAX_DEPTH [] 0%N [] []) by (auto; cbn [length]; lia).
  unfold selD_at. change (0 >? 0) with false. cbn iota. cbn [fst].
  destruct (flat_map (selD c 0 FILTER_NO_MAX_DEPTH) f) as [|x g] eqn:E; [reflexivity|].
  cbn [afterD mkD MC.out]. unfold pend. cbn [MC.flush_anc snd app].
  unfold flats. generalize (x :: g). intro l. clear.
  induction l as [|n l IH]; [reflexivity|]. cbn [flat_map]. rewrite map_app, (mflat_flat n 0), IH. reflexivity.
Qed.

(* ------------------------------------------------------------------ what the two replays show *)
Lemma shortD c : classD c -> forall n, wf_call (threshold c) n ->
  (tdelta (c_t1 n) (c_t0 n) < threshold c)%N ->
  tprune c (threshold c) n = [] /\ forall dp mx, selD c dp mx n = [].
Proof.
  intros (Htr & _ & Hcl & _). induction n as [f t0 t1 ks IH] using call_ind'. intros Hwf Hs.
  apply wf_kids in Hwf. destruct Hwf as (H01 & H1 & Hwk & Hin). cbn [c_t0 c_t1] in Hs.
  rewrite (tdelta_sub t0 t1) in Hs by lia.
  assert (K : Forall (fun k => tprune c (threshold c) k = [] /\ forall dp mx, selD c dp mx k = []) ks).
  { rewrite Forall_forall in *. intros k Hk. apply (IH k Hk (Hwk k Hk)).
    specialize (Hwk k Hk). specialize (Hin k Hk). destruct k as [fk a b kk]. cbn [c_t0 c_t1] in *.
    apply wf_kids in Hwk. destruct Hwk as (A & B & _). rewrite (tdelta_sub a b) by lia. lia. }
  destruct (Htr f) as (Ef & _ & _).
  assert (Ks : forall dp mx, flat_map (selD c dp mx) ks = []).
  { intros dp mx. apply flat_map_nil. eapply Forall_impl; [|exact K]. cbn. intros k [_ H]. apply H. }
  split.
  - cbn [tprune]. rewrite Ef. cbn [dtrig q_time q_trace q_caller]. rewrite Hcl.
    rewrite (flat_map_nil (tprune c (threshold c)) ks) by (eapply Forall_impl; [|exact K]; cbn; intros k [H _]; exact H).
    rewrite (tdelta_sub t0 t1) by lia. replace (t1 - t0 <? threshold c)%N with true by lia. reflexivity.
  - intros dp mx. cbn [selD]. rewrite !Ks. unfold keep. cbn [is_nil negb orb].
    rewrite (tdelta_sub t0 t1) by lia. replace (threshold c <=? t1 - t0)%N with false by lia.
    destruct (q_filter (trig_of c f)) as [[|]|]; try reflexivity; destruct (_ <=? _)%N; reflexivity.
Qed.

Lemma longD c : classD c -> forall f t0 t1 ks, (threshold c <= tdelta t1 t0)%N ->
  tprune c (threshold c) (Call f t0 t1 ks) = [Call f t0 t1 (flat_map (tprune c (threshold c)) ks)].
Proof.
  intros (Htr & _ & Hcl & _) f t0 t1 ks Hl. destruct (Htr f) as (Ef & _ & _).
  cbn [tprune]. rewrite Ef. cbn [dtrig q_time q_trace q_caller]. rewrite Hcl.
  replace (tdelta t1 t0 <? threshold c)%N with false by lia. reflexivity.
Qed.

Definition visD_stmt (c : cfg) (n : call) : Prop :=
  forall inF dp mx d rd rd' b, Z.of_nat (height n) <= b -> wf_call (threshold c) n ->
    map strip (flat_map (vis c inF (Z.of_N (lim c mx) - Z.of_N dp) d rd) (tprune c (threshold c) n))
    = map strip (flat_map (vis plain false b d rd') (selD c dp mx n)).

Lemma visD_kids c ks : Forall (visD_stmt c) ks ->
  forall inF dp mx d rd rd' b, Z.of_nat (fheight ks) <= b -> Forall (wf_call (threshold c)) ks ->
    map strip (flat_map (vis c inF (Z.of_N (lim c mx) - Z.of_N dp) d rd) (flat_map (tprune c (threshold c)) ks))
    = map strip (flat_map (vis plain false b d rd') (flat_map (selD c dp mx) ks)).
Proof.
  induction 1 as [|k ks Hk _ IH]; intros inF dp mx d rd rd' b Hb Hwf; [reflexivity|].
  inversion Hwf as [|? ? Hwk Hwks]; subst.
  unfold fheight in Hb. cbn [map fold_right] in Hb.
  cbn [flat_map]. rewrite !flat_map_app, !map_app. rewrite (Hk inF dp mx d rd rd' b) by (auto; lia).
  rewrite (IH inF dp mx d rd rd' b) by (auto; unfold fheight; lia). reflexivity.
Qed.

Lemma visD c : classD c -> plt_free_all c -> forall n, visD_stmt c n.
Proof.
  intros HD Hp. pose proof HD as (Htr & Hfm & Hcl & Hgd & Hlf). induction n as [f t0 t1 ks IH] using call_ind'.
  intros inF dp mx d rd rd' b Hb Hwf. pose proof (visD_kids c ks IH) as HK.
  pose proof Hwf as Hwf0. apply wf_kids in Hwf. destruct Hwf as (H01 & H1 & Hwk & _).
  assert (Hcase : (tdelta t1 t0 < threshold c)%N \/ (threshold c <= tdelta t1 t0)%N) by lia.
  destruct Hcase as [Hs|Hl].
  { destruct (shortD c HD _ Hwf0 Hs) as [E1 E2]. rewrite E1, E2. reflexivity. }
  rewrite (longD c HD f t0 t1 ks Hl).
  cbn [height] in Hb. fold (fheight ks) in Hb.
  destruct (Htr f) as (Ef & HnF & Hdr).
  cbn [flat_map vis selD]. rewrite app_nil_r. rewrite Hfm, (Hp f), (loc_free_hidden c f Hlf).
  replace (q_hide (trig_of c f)) with false by (rewrite Ef; reflexivity).
  unfold keep. replace (threshold c <=? tdelta t1 t0)%N with true by lia. rewrite !orb_true_r.
  destruct (q_filter (trig_of c f)) as [[|]|] eqn:Eq; [congruence|reflexivity|].
  cbn [negb andb orb]. rewrite ?orb_false_r.
  set (dp1 := match q_depth (trig_of c f) with Some _ => 0%N | None => dp end).
  set (mx1 := match q_depth (trig_of c f) with Some x => Z.to_N x | None => mx end).
  assert (Eb : match q_depth (trig_of c f) with Some x => x | None => Z.of_N (lim c mx) - Z.of_N dp end
               = Z.of_N (lim c mx1) - Z.of_N dp1).
  { unfold dp1, mx1. destruct (q_depth (trig_of c f)) as [x|]; [|reflexivity]. specialize (Hdr x eq_refl).
    unfold lim. assert (E : (Z.to_N x =? FILTER_NO_MAX_DEPTH)%N = false) by (unfold FILTER_NO_MAX_DEPTH; lia).
    rewrite E. lia. }
  rewrite Eb.
  replace (Z.of_N (lim c mx1) - Z.of_N dp1 <=? 0) with (lim c mx1 <=? dp1)%N by lia.
  destruct (lim c mx1 <=? dp1)%N eqn:Eh.
  - apply HK; [lia|assumption].
  - cbn [flat_map vis]. rewrite app_nil_r.
    cbn [plain trig_of notrig q_filter q_depth q_hide fmode_in negb andb orb gdepth].
    change (loc_hidden plain f) with false. cbn iota.
    replace (b <=? 0) with false by lia. cbn [orb]. unfold hidden_plt at 1. cbn [plain libcall negb andb].
    cbn [map]. rewrite !map_app. cbn [map strip v_exit v_fn v_disp v_time]. f_equal. f_equal.
    replace (Z.of_N (lim c mx1) - Z.of_N dp1 - 1) with (Z.of_N (lim c mx1) - Z.of_N (dp1 + 1)) by lia.
    apply HK; [lia|assumption].
Qed.

Theorem record_equals_replay_depth c f :
  classD c -> plt_free_all c -> no_range c = true -> wf_forest c f -> (fheight f <= 1024)%nat ->
  map strip (rec_then_plain c MC.PG f) = map strip (plain_then_opt c f).
Proof.
  intros HD Hp Hr Hwf Hh. pose proof HD as (Htr & Hfm & Hcl & Hgd & Hlf).
  assert (Hns : no_switch_all c) by (intro k; destruct (Htr k) as (E & _); rewrite E; split; reflexivity).
  unfold rec_then_plain, plain_then_opt.
  rewrite (record_is_selD c f HD Hwf Hh).
  rewrite (std_matches_select plain) by (try reflexivity; intro k; split; reflexivity).
  rewrite (std_matches_select c f Hns Hr).
  unfold select. cbn [plain threshold].
  rewrite (tprune_forest_id plain) by (auto; intro k; reflexivity).
  cbn [plain gdepth].
  assert (Hall : Forall (visD_stmt c) f) by (apply Forall_forall; intros n _; apply visD; assumption).
  pose proof (visD_kids c f Hall false 0%N FILTER_NO_MAX_DEPTH 0 0 0 1024) as E.
  replace (Z.of_N (lim c FILTER_NO_MAX_DEPTH) - Z.of_N 0) with (gdepth c) in E by (unfold lim; cbn; lia).
  symmetry. apply E; [lia|exact Hwf].
Qed.

(* the hypotheses are satisfiable: -T alpha@depth=0 -T delta@depth=1 -N eps -D 3 -t 150 *)
Lemma assoc_classD tr : Forall (fun p => snd p = dtrig (q_filter (snd p)) (q_depth (snd p)) /\ q_filter (snd p) <> Some true
                                         /\ (forall d, q_depth (snd p) = Some d -> 0 <= d < 65535)) tr ->
  forall f, assoc notrig tr f = dtrig (q_filter (assoc notrig tr f)) (q_depth (assoc notrig tr f))
            /\ q_filter (assoc notrig tr f) <> Some true
            /\ (forall d, q_depth (assoc notrig tr f) = Some d -> 0 <= d < 65535).
Proof.
  induction 1 as [|[k v] tr Hv _ IH]; intro f; cbn [assoc]; [repeat split; discriminate|].
  destruct (f =? k)%N; [exact Hv|apply IH].
Qed.
Definition c_exD : cfg :=
  mkcfg [(1%N, dtrig None (Some 0)); (4%N, dtrig None (Some 1)); (5%N, dtrig (Some false) None)] false false 3 150 0 0 [] true false.
Definition f_exD : list call :=
  [Call 0 1000 5000 [Call 1 1100 1900 [Call 2 1200 1800 []];
                     Call 4 2000 3000 [Call 2 2100 2900 [Call 3 2200 2800 []]];
                     Call 2 3100 4000 [Call 5 3200 3900 [Call 3 3300 3800 []]; Call 3 3910 3950 []]]].
Example hyps_classD : classD c_exD /\ wf_forest c_exD f_exD
  /\ map ob_n (plain_then_opt c_exD f_exD)
     = [(false, 0%N); (false, 4%N); (true, 4%N); (false, 2%N); (true, 2%N); (true, 0%N)].
Proof.
  split; [|split].
  - unfold classD, c_exD, mkcfg, mkcfgL, loc_free_all. cbn [trig_of fmode_in caller_filter gdepth loc_of lmode_in].
    split; [|repeat split; try reflexivity; lia].
    apply assoc_classD.
    repeat (apply Forall_cons; [cbn [snd dtrig q_filter q_depth]; split; [reflexivity|split; [discriminate|intros d E; inversion E; lia]]|]).
    apply Forall_nil.
  - unfold wf_forest, c_exD, f_exD, mkcfg, mkcfgL. cbn [threshold]. repeat constructor; cbn; unfold two64; try lia.
    all: vm_compute; congruence.
  - vm_compute. reflexivity.
Qed.
