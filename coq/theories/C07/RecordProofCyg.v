(* C07 - record time = replay time for -F / -N / -D / -t on the -finstrument-functions shape
   (__cyg_profile_func_enter/exit: EVERY call pushes a frame, rejected ones with NORECORD; the exit hook
   always runs).  Same selected forest [sel] as on the -pg shape, hence the same theorem. *)
From Coq Require Import NArith ZArith List Bool Lia.
Import ListNotations.
Require Import ZifyBool ZifyN ZifyNat.
Require Import UV.Gen.Consts UV.C07.Model UV.C07.Proofs UV.C07.RecordProof.
Local Open Scope Z_scope.

Definition FrC (flt ntr nrc wr : bool) (a t0 t1 ri dp : N) : MC.frame :=
  {| MC.f_addr := a; MC.f_start := t0; MC.f_end := t1;
     MC.f_flags := {| MC.norecord := nrc; MC.notrace := ntr; MC.filtered := flt; MC.written := wr;
                      MC.disabled := false; MC.ftrace := false; MC.fcaller := false; MC.cygprof := true |};
     MC.f_depth := ri; MC.sv_depth := dp; MC.sv_max := FILTER_NO_MAX_DEPTH; MC.sv_time := MC.NO_TIME;
     MC.sv_size := 0; MC.f_ghost := false |}.

Lemma markw_consC flt f t0 ri dp stk :
  markw (FrC flt false false false f t0 0 ri dp :: stk) = FrC flt false false true f t0 0 ri dp :: markw stk
  /\ pend (FrC flt false false false f t0 0 ri dp :: stk) = pend stk ++ [mflat_rec false ri t0 f].
Proof.
  unfold markw, pend. cbn [MC.flush_anc FrC MC.f_flags MC.written]. destruct (MC.flush_anc stk) as [rest' recs].
  cbn. split; reflexivity.
Qed.
(* a NORECORD frame is stepped over by the flush *)
Lemma markw_skip ntr f t0 ri dp stk :
  markw (FrC false ntr true false f t0 0 ri dp :: stk) = FrC false ntr true false f t0 0 ri dp :: markw stk
  /\ pend (FrC false ntr true false f t0 0 ri dp :: stk) = pend stk.
Proof.
  unfold markw, pend. cbn [MC.flush_anc FrC MC.f_flags MC.written]. destruct (MC.flush_anc stk) as [rest' recs].
  cbn. split; reflexivity.
Qed.

Section RecC.
  Variable c : cfg.
  Hypothesis Hfo : filter_only c.
  Local Notation mc := (to_mcfg c MC.CYG).

  Ltac mstep :=
    unfold MC.dstep, MC.hooked, MC.do_enter, MC.do_leave, MC.entry_check, MC.entry_record, MC.exit_record,
           MC.check_rstack, MC.idx, MC.with_fc, MC.set_end, mk, FrC;
    cbn [MC.max_stack MC.stack MC.shp MC.fc MC.warned to_mcfg MC.trig_of MC.fmode_in MC.has_caller MC.gdepth
         MC.threshold MC.sym_size MC.out_count MC.in_count MC.depth MC.max_depth MC.ftime MC.fsize MC.enabled
         MC.cached MC.ridx MC.out].

  (* rejected calls: a NORECORD frame that saves the filter state *)
  Lemma enterC_out f t i o dp stk ri ou hk : o >? 0 = true -> (length stk < 1024)%nat ->
    MC.dstep mc (mk i o dp stk ri ou, hk) (MC.Enter f t)
    = (mk i o dp (FrC false false true false f 0 0 ri dp :: stk) ri ou, true :: hk).
  Proof.
    intros Ho Hl. assert (Hidx : (1024 <=? N.of_nat (length stk))%N = false) by lia.
    mstep. rewrite Hidx. cbn. rewrite Ho. cbn. rewrite ?Ho. reflexivity.
  Qed.

  Lemma enterC_hidden f t i dp stk ri ou hk : trig_of c f = ftrig None -> (length stk < 1024)%nat ->
    (fmode_in c && (i =? 0)) || (Z.to_N (gdepth c) <=? dp)%N = true ->
    MC.dstep mc (mk i 0 dp stk ri ou, hk) (MC.Enter f t)
    = (mk i 0 dp (FrC false false true false f 0 0 ri dp :: stk) ri ou, true :: hk).
  Proof.
    intros Htr Hl Hh. assert (Hidx : (1024 <=? N.of_nat (length stk))%N = false) by lia.
    mstep. rewrite Hidx. cbn. rewrite Htr. cbn.
    destruct (fmode_in c && (i =? 0)) eqn:E1; cbn in *.
    - rewrite andb_comm in E1. rewrite ?E1. cbn. reflexivity.
    - rewrite Hh. cbn. reflexivity.
  Qed.

  Lemma leaveC_skip ntr f ts i o dp0 dp stk ri ou hk t :
    MC.dstep mc (mk i o dp0 (FrC false ntr true false f ts 0 ri dp :: stk) ri ou, true :: hk) (MC.Leave t)
    = (mk i (if ntr then o - 1 else o) dp stk ri ou, hk).
  Proof. mstep. cbn. destruct ntr; reflexivity. Qed.

  Lemma enterC_N f t i dp stk ri ou hk : trig_of c f = ftrig (Some false) -> (length stk < 1024)%nat ->
    MC.dstep mc (mk i 0 dp stk ri ou, hk) (MC.Enter f t)
    = (mk i 1 1 (FrC false true true false f t 0 ri dp :: stk) ri ou, true :: hk).
  Proof.
    intros Htr Hl. assert (Hidx : (1024 <=? N.of_nat (length stk))%N = false) by lia.
    destruct Hfo as (_ & _ & Hgd).
    assert (Hg : (Z.to_N (gdepth c) <=? 0)%N = false) by lia.
    mstep. rewrite Hidx. cbn. rewrite Htr. cbn. rewrite Hg. cbn. reflexivity.
  Qed.

  Lemma enterC_F f t i dp stk ri ou hk : trig_of c f = ftrig (Some true) -> (length stk < 1024)%nat -> 0 <= i ->
    MC.dstep mc (mk i 0 dp stk ri ou, hk) (MC.Enter f t)
    = (mk (i + 1) 0 1 (FrC true false false false f t 0 ri dp :: stk) (ri + 1) ou, true :: hk).
  Proof.
    intros Htr Hl Hi. assert (Hidx : (1024 <=? N.of_nat (length stk))%N = false) by lia.
    destruct Hfo as (_ & _ & Hgd).
    assert (Hg : (Z.to_N (gdepth c) <=? 0)%N = false) by lia.
    assert (Hi1 : (i + 1 =? 0) = false) by lia.
    mstep. rewrite Hidx. cbn. rewrite Htr. cbn. rewrite Hg. cbn. rewrite Hi1. cbn. rewrite ?andb_false_r. reflexivity.
  Qed.

  Lemma enterC_vis f t i dp stk ri ou hk : trig_of c f = ftrig None -> (length stk < 1024)%nat ->
    fmode_in c && (i =? 0) = false -> (Z.to_N (gdepth c) <=? dp)%N = false ->
    MC.dstep mc (mk i 0 dp stk ri ou, hk) (MC.Enter f t)
    = (mk i 0 (dp + 1) (FrC false false false false f t 0 ri dp :: stk) (ri + 1) ou, true :: hk).
  Proof.
    intros Htr Hl H1 H2. assert (Hidx : (1024 <=? N.of_nat (length stk))%N = false) by lia.
    mstep. rewrite Hidx. cbn. rewrite Htr. cbn. rewrite H1. cbn. rewrite H2. cbn.
    replace ((i =? 0) && fmode_in c) with false by (rewrite andb_comm; auto). reflexivity.
  Qed.

  Lemma leaveC_rec (flt wr : bool) f t0 t1 i dp0 dp stk ri ou hk : (t0 < t1)%N -> (t1 < two64)%N ->
    MC.dstep mc (mk i 0 dp0 (FrC flt false false wr f t0 0 ri dp :: stk) (ri + 1) ou, true :: hk) (MC.Leave t1)
    = (if wr || (threshold c <=? tdelta t1 t0)%N
       then mk (if flt then i - 1 else i) 0 dp (if wr then stk else markw stk) ri
               (ou ++ (if wr then [] else pend stk ++ [mflat_rec false ri t0 f]) ++ [mflat_rec true ri t1 f])
       else mk (if flt then i - 1 else i) 0 dp stk ri ou, hk).
  Proof.
    intros H01 H1. destruct Hfo as (_ & Hcl & _). unfold two64 in H1. unfold tdelta, two64.
    assert (Hri : (if (0 <? ri + 1)%N then (ri + 1 - 1)%N else 0%N) = ri) by (destruct (0 <? ri + 1)%N eqn:E; lia).
    assert (Ht1 : (t1 =? 0)%N = false) by lia.
    mstep. cbn -[N.modulo N.add N.sub N.ltb MC.flush_anc]. rewrite Hcl. cbn -[N.modulo N.add N.sub N.ltb MC.flush_anc].
    rewrite Hri.
    destruct (threshold c <=? (t1 + 18446744073709551616 - t0) mod 18446744073709551616)%N eqn:EL;
      cbn -[N.modulo N.add N.sub N.ltb MC.flush_anc]; unfold MC.record_trace_data; cbn -[MC.flush_anc];
      destruct wr; cbn -[MC.flush_anc]; rewrite ?Ht1;
      try (destruct flt; reflexivity);
      unfold markw, pend; destruct (MC.flush_anc stk) as [anc' pre]; cbn; rewrite ?Ht1;
      destruct flt; cbn; rewrite <- ?app_assoc; reflexivity.
  Qed.

  Lemma execC_app es1 es2 d : MC.exec mc (es1 ++ es2) d = MC.exec mc es2 (MC.exec mc es1 d).
  Proof. unfold MC.exec. apply fold_left_app. Qed.
  Lemma execC_cons e es d : MC.exec mc (e :: es) d = MC.exec mc es (MC.dstep mc d e).
  Proof. reflexivity. Qed.

  Definition recC_call_stmt (n : call) : Prop := forall i o dp stk ri ou hk,
    0 <= i -> 0 <= o -> (length stk + height n <= 1024)%nat -> wf_call (threshold c) n ->
    MC.exec mc (events n) (mk i o dp stk ri ou, hk) = (after (sel_at c i o dp [n]) i o dp stk ri ou, hk).

  Lemma recC_kids ks : Forall recC_call_stmt ks -> forall i o dp stk ri ou hk,
    0 <= i -> 0 <= o -> (length stk + fheight ks <= 1024)%nat -> Forall (wf_call (threshold c)) ks ->
    MC.exec mc (flat_map events ks) (mk i o dp stk ri ou, hk) = (after (sel_at c i o dp ks) i o dp stk ri ou, hk).
  Proof.
    induction 1 as [|k ks Hk _ IH]; intros i o dp stk ri ou hk Hi Ho Hlen Hwf.
    - unfold sel_at. cbn. destruct (o >? 0); reflexivity.
    - inversion Hwf as [|? ? Hwk Hwks]; subst. cbn [flat_map]. rewrite execC_app.
      unfold fheight in Hlen. cbn [map fold_right] in Hlen.
      rewrite (Hk i o dp stk ri ou hk Hi Ho) by (auto; lia).
      destruct (after_mk (sel_at c i o dp [k]) i o dp stk ri ou) as [E L].
      set (s1 := after (sel_at c i o dp [k]) i o dp stk ri ou) in *.
      rewrite E.
      rewrite (IH i o dp _ ri _ hk Hi Ho) by (auto; unfold fheight; rewrite L; lia).
      rewrite sel_at_cons. rewrite <- after_app. cbn zeta. fold s1. reflexivity.
  Qed.

  Lemma recC_call : forall n, recC_call_stmt n.
  Proof.
    induction n as [f t0 t1 ks IH] using call_ind'. intros i o dp stk ri ou hk Hi Ho Hlen Hwf.
    pose proof (recC_kids ks IH) as HK.
    apply wf_kids in Hwf. destruct Hwf as (H01 & H1 & Hwk & _).
    assert (Hl : (length stk < 1024)%nat) by (cbn [height] in Hlen; lia).
    assert (Hlk1 : forall F, (length (F :: stk) + fheight ks <= 1024)%nat)
      by (intro; cbn [height length] in *; unfold fheight; lia).
    destruct Hfo as (Htr & _). pose proof (filter_only_eq _ (Htr f)) as Etr.
    cbn [events]. rewrite execC_cons, execC_app.
    unfold sel_at. cbn [flat_map sel]. rewrite app_nil_r.
    (* what a rejected call does around its callees *)
    assert (Hidden : forall o1 g, 0 <= o1 -> sel_at c i o1 dp ks = g ->
              MC.exec mc [MC.Leave t1]
                (MC.exec mc (flat_map events ks) (mk i o1 dp (FrC false false true false f 0 0 ri dp :: stk) ri ou, true :: hk))
              = (after g i o1 dp stk ri ou, hk)).
    { intros o1 g Ho1 Eg. rewrite (HK i o1 dp _ ri ou (true :: hk)) by (auto; lia). rewrite Eg.
      destruct (markw_skip false f 0 ri dp stk) as [M P].
      destruct g as [|x g']; cbn [after]; [|rewrite M, P]; cbn [MC.exec fold_left]; rewrite leaveC_skip; reflexivity. }
    destruct (o >? 0) eqn:Eo.
    - rewrite (enterC_out f t0 i o dp stk ri ou hk Eo Hl).
      rewrite (Hidden o [] Ho) by (unfold sel_at; rewrite Eo; reflexivity). reflexivity.
    - assert (o = 0) by lia. subst o.
      destruct (q_filter (trig_of c f)) as [[|]|] eqn:Ef.
      + rewrite (enterC_F f t0 i dp stk ri ou hk Etr Hl Hi).
        rewrite (HK (i + 1) 0 1%N _ (ri + 1)%N ou (true :: hk)) by (auto; lia).
        unfold sel_at. change (0 >? 0) with false. cbn iota.
        replace (0 <? i + 1) with true by lia.
        destruct (flat_map (sel c true 1) ks) as [|x g'] eqn:Eg.
        * cbn [after]. cbn [MC.exec fold_left]. rewrite (leaveC_rec true false f t0 t1 (i + 1) 1%N dp stk ri ou hk H01 H1).
          unfold keep. cbn [is_nil negb orb]. rewrite Z.add_simpl_r.
          destruct (threshold c <=? tdelta t1 t0)%N; [|reflexivity].
          cbn [after flat_map mflat]. unfold mk. rewrite app_nil_r.
          rewrite <- ?app_assoc. reflexivity.
        * cbn [after]. destruct (markw_consC true f t0 ri dp stk) as [M P]. rewrite M, P.
          cbn [MC.exec fold_left].
          rewrite (leaveC_rec true true f t0 t1 (i + 1) 1%N dp (markw stk) ri _ hk H01 H1).
          unfold keep. cbn [is_nil negb orb].
          rewrite Z.add_simpl_r. cbn [after flat_map mflat]. unfold mk. rewrite app_nil_r.
          cbn [app]. rewrite <- ?app_assoc. cbn [app]. reflexivity.
      + rewrite (enterC_N f t0 i dp stk ri ou hk Etr Hl).
        rewrite (HK i 1 1%N _ ri ou (true :: hk)) by (auto; lia).
        unfold sel_at. change (1 >? 0) with true. cbn [after]. cbn [MC.exec fold_left].
        rewrite leaveC_skip. reflexivity.
      + destruct (fmode_in c && negb (0 <? i)) eqn:Em.
        * assert (Hh : fmode_in c && (i =? 0) || (Z.to_N (gdepth c) <=? dp)%N = true).
          { replace (i =? 0) with (negb (0 <? i)) by lia. rewrite Em. reflexivity. }
          rewrite (enterC_hidden f t0 i dp stk ri ou hk Etr Hl Hh).
          rewrite (Hidden 0 _ Ho eq_refl). unfold sel_at. change (0 >? 0) with false. cbn iota.
          replace (0 <? i) with false by (destruct (fmode_in c); cbn in Em; [lia|discriminate]).
          reflexivity.
        * assert (Hm : fmode_in c && (i =? 0) = false).
          { replace (i =? 0) with (negb (0 <? i)) by lia. exact Em. }
          destruct (Z.to_N (gdepth c) <=? dp)%N eqn:Ed.
          -- assert (Hh : fmode_in c && (i =? 0) || (Z.to_N (gdepth c) <=? dp)%N = true)
               by (rewrite Ed; apply orb_true_r).
             rewrite (enterC_hidden f t0 i dp stk ri ou hk Etr Hl Hh).
             rewrite (Hidden 0 _ Ho eq_refl). unfold sel_at. change (0 >? 0) with false. reflexivity.
          -- rewrite (enterC_vis f t0 i dp stk ri ou hk Etr Hl Hm Ed).
             rewrite (HK i 0 (dp + 1)%N _ (ri + 1)%N ou (true :: hk)) by (auto; lia).
             unfold sel_at. change (0 >? 0) with false. cbn iota.
             destruct (flat_map (sel c (0 <? i) (dp + 1)) ks) as [|x g'] eqn:Eg.
             ++ cbn [after]. cbn [MC.exec fold_left].
                rewrite (leaveC_rec false false f t0 t1 i (dp + 1)%N dp stk ri ou hk H01 H1).
                unfold keep. cbn [is_nil negb orb].
                destruct (threshold c <=? tdelta t1 t0)%N; [|reflexivity].
                cbn [after flat_map mflat]. unfold mk. rewrite app_nil_r. rewrite <- ?app_assoc. reflexivity.
             ++ cbn [after]. destruct (markw_consC false f t0 ri dp stk) as [M P]. rewrite M, P.
                cbn [MC.exec fold_left].
                rewrite (leaveC_rec false true f t0 t1 i (dp + 1)%N dp (markw stk) ri _ hk H01 H1).
                unfold keep. cbn [is_nil negb orb].
                cbn [after flat_map mflat]. unfold mk. rewrite app_nil_r.
                cbn [app]. rewrite <- ?app_assoc. cbn [app]. reflexivity.
  Qed.
End RecC.

Lemma record_is_sel_cyg c f : filter_only c -> wf_forest c f -> (fheight f <= 1024)%nat ->
  record (to_mcfg c MC.CYG) f = flats 0 (flat_map (sel c false 0) f).
Proof.
  intros Hfo Hwf Hh. unfold record.
  change (MC.init, @nil bool) with (mk 0 0 0 [] 0 [], @nil bool).
  assert (Hall : Forall (recC_call_stmt c) f) by (apply Forall_forall; intros n _; apply recC_call; assumption).
  rewrite (recC_kids c f Hall 0 0 0%N [] 0%N [] []) by (auto; cbn [length]; lia).
  unfold sel_at. change (0 >? 0) with false. change (0 <? 0) with false. cbn iota. cbn [fst].
  destruct (flat_map (sel c false 0) f) as [|x g] eqn:E; [reflexivity|].
  cbn [after mk MC.out]. unfold pend. cbn [MC.flush_anc snd app].
  unfold flats. generalize (x :: g). intro l. clear.
  induction l as [|n l IH]; [reflexivity|]. cbn [flat_map]. rewrite map_app, (mflat_flat n 0), IH. reflexivity.
Qed.

(* both instrumentation shapes write the same data *)
Theorem record_shape_independent c f : filter_only c -> wf_forest c f -> (fheight f <= 1024)%nat ->
  record (to_mcfg c MC.CYG) f = record (to_mcfg c MC.PG) f.
Proof. intros A B C. rewrite record_is_sel_cyg, record_is_sel by assumption. reflexivity. Qed.

Theorem record_equals_replay_cyg c f :
  filter_only c -> plt_free_all c -> no_range c = true -> wf_forest c f -> (fheight f <= 1024)%nat ->
  map strip (rec_then_plain c MC.CYG f) = map strip (plain_then_opt c f).
Proof.
  intros A P R B C. unfold rec_then_plain. rewrite (record_shape_independent c f A B C).
  apply record_equals_replay_filters; assumption.
Qed.
