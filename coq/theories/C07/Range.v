(* C07 - the time range option -r alone: every command shows exactly the records whose timestamp lies in
   the window [start, stop] (both ends included), for every depth-consistent recording with
   non-decreasing timestamps.  Three ingredients: the look-ahead list is the identity without -t/-C/time=;
   the records inside the window are a contiguous, still depth-consistent segment; the filter automaton
   started in the middle of a recording (slots never written by an ENTRY) shows every record. *)
From Coq Require Import NArith ZArith List Bool Lia.
Import ListNotations.
Require Import ZifyBool ZifyN ZifyNat.
Require Import UV.C07.Model UV.C07.Proofs UV.C07.Replay.
Local Open Scope Z_scope.

Definition range_only (c : cfg) : Prop :=
  (forall f, trig_of c f = notrig) /\ threshold c = 0%N /\ caller_filter c = false /\ fmode_in c = false
  /\ plt_free_all c /\ loc_free_all c.

(* the window as the manual states it *)
Definition in_window (c : cfg) (t : N) : bool :=
  ((range_start c =? 0) || (range_start c <=? t))%N && ((range_stop c =? 0) || (t <=? range_stop c))%N.
Lemma in_range_window c t : in_range c t = in_window c t.
Proof.
  unfold in_range, in_window.
  destruct (range_start c =? 0)%N eqn:A, (range_stop c =? 0)%N eqn:B; cbn [negb andb orb]; try reflexivity;
    rewrite ?andb_true_r; try (destruct (t <? range_start c)%N eqn:E1); try (destruct (range_stop c <? t)%N eqn:E2);
    cbn [negb andb orb]; lia.
Qed.

Definition shown_rec (r : rec) : bool * N * Z * N :=
  (match r_type r with ENTRY => false | EXIT => true end, r_fn r, r_depth r, r_time r).
Definition window (c : cfg) (rs : list rec) : list rec := filter (fun r => in_range c (r_time r)) rs.

(* ------------------------------------------------------------------ 1. the look-ahead list is the identity *)
Lemma lookahead_id c : range_only c -> forall rs pend, lookahead c rs pend [] = rev pend ++ rs.
Proof.
  intros (Htr & Hthr & Hcl & _). induction rs as [|r rs IH]; intro pend.
  - cbn. rewrite app_nil_r. reflexivity.
  - cbn [lookahead]. rewrite Htr. cbn [notrig q_time q_caller q_trace tfs_thr]. rewrite Hthr, Hcl.
    destruct (r_type r).
    + rewrite IH. cbn [rev]. rewrite <- app_assoc. reflexivity.
    + destruct pend as [|e pend'].
      * rewrite IH. reflexivity.
      * replace (tdelta (r_time r) (r_time e) <? 0)%N with false by lia. cbn [orb andb negb].
        rewrite IH. reflexivity.
Qed.

Lemma pre_is_window c rs : range_only c -> pre c rs = window c rs.
Proof. intro H. unfold pre, window. rewrite (lookahead_id c H). reflexivity. Qed.

(* ------------------------------------------------------------------ 2. the window is a segment *)
Fixpoint sorted (rs : list rec) : Prop :=
  match rs with
  | [] => True
  | r :: rs' => Forall (fun x => (r_time r <= r_time x)%N) rs' /\ sorted rs'
  end.

Definition before (c : cfg) (r : rec) : Prop := range_start c <> 0%N /\ (r_time r < range_start c)%N.
Definition after (c : cfg) (r : rec) : Prop := range_stop c <> 0%N /\ (range_stop c < r_time r)%N.

Lemma in_range_cases c r :
  (in_range c (r_time r) = true /\ ~ before c r /\ ~ after c r)
  \/ (in_range c (r_time r) = false /\ before c r)
  \/ (in_range c (r_time r) = false /\ ~ before c r /\ after c r).
Proof.
  unfold in_range, before, after.
  destruct (range_start c =? 0)%N eqn:A, (range_stop c =? 0)%N eqn:B,
           (r_time r <? range_start c)%N eqn:C, (range_stop c <? r_time r)%N eqn:D; cbn [negb andb]; lia.
Qed.

Lemma segment c rs : sorted rs ->
  exists p w q, rs = p ++ w ++ q /\ window c rs = w
                /\ Forall (before c) p /\ Forall (fun r => in_range c (r_time r) = true) w
                /\ Forall (fun r => in_range c (r_time r) = false) q
                /\ Forall (fun r => in_range c (r_time r) = false) p.
Proof.
  induction rs as [|r rs IH]; intro S.
  - exists [], [], []. repeat split; constructor.
  - cbn [sorted] in S. destruct S as [Hle S]. destruct (IH S) as (p & w & q & E & W & Hp & Hw & Hq & Hp').
    unfold window in *. cbn [filter].
    destruct (in_range_cases c r) as [(I & Nb & Na)|[(I & B)|(I & Nb & A)]]; rewrite I.
    + (* inside: nothing of the rest lies before the window *)
      assert (p = []).
      { destruct p as [|x p']; [reflexivity|]. exfalso. inversion Hp as [|? ? Bx _]; subst.
        rewrite Forall_forall in Hle. specialize (Hle x (or_introl eq_refl)).
        destruct Bx as [B1 B2]. apply Nb. split; [exact B1|lia]. }
      subst p. cbn [app] in *. exists [], (r :: w), q. cbn [app]. rewrite W, E.
      repeat split; try constructor; auto.
    + exists (r :: p), w, q. cbn [app]. rewrite W, E. repeat split; try constructor; auto.
    + (* after the window: so is everything that follows *)
      assert (Hall : Forall (fun x => in_range c (r_time x) = false) rs).
      { rewrite Forall_forall in *. intros x Hx. specialize (Hle x Hx). destruct A as [A1 A2].
        unfold in_range. destruct (range_stop c =? 0)%N eqn:Z0; [lia|].
        replace (range_stop c <? r_time x)%N with true by lia. cbn [negb andb]. apply andb_false_r. }
      exists [], [], (r :: rs). cbn [app]. repeat split; try constructor; auto.
      clear -Hall. induction rs as [|x rs IH]; [reflexivity|]. inversion Hall; subst. cbn [filter].
      rewrite H1. apply IH. assumption.
Qed.

(* nesting count after a stream *)
Fixpoint net (rs : list rec) : Z :=
  match rs with
  | [] => 0
  | r :: rs' => (match r_type r with ENTRY => 1 | EXIT => -1 end) + net rs'
  end.
Lemma dcons_app a : forall n b, dcons n (a ++ b) -> dcons n a /\ dcons (n + net a) b /\ (0 <= n -> 0 <= n + net a).
Proof.
  induction a as [|r a IH]; intros n b H.
  - cbn [app net dcons] in *. replace (n + 0) with n by lia. auto.
  - cbn [app dcons net] in *. destruct (r_type r).
    + destruct H as [Hd H]. destruct (IH _ _ H) as (A & B & C).
      replace (n + (1 + net a)) with (n + 1 + net a) by lia. repeat split; auto. intros; apply C; lia.
    + destruct H as (Hd & Hp & H). destruct (IH _ _ H) as (A & B & C).
      replace (n + (-1 + net a)) with (n - 1 + net a) by lia. repeat split; auto. intros; apply C; lia.
Qed.
Lemma dcons_prefix a : forall n b, dcons n (a ++ b) -> dcons n a.
Proof. intros n b H. apply (dcons_app a n b H). Qed.

Lemma dcons_first n r rs : dcons n (r :: rs) -> first_count r = n.
Proof. cbn [dcons]. unfold first_count. destruct (r_type r); intros; lia. Qed.

Lemma window_dcons0 c rs : sorted rs -> dcons 0 rs -> dcons0 (window c rs).
Proof.
  intros S D. destruct (segment c rs S) as (p & w & q & E & W & _). rewrite W. subst rs.
  destruct (dcons_app p 0 _ D) as (_ & D1 & Hn). apply dcons_prefix in D1.
  destruct w as [|r w]; [exact I|]. cbn [dcons0]. rewrite (dcons_first _ _ _ D1). split; [apply Hn; lia|exact D1].
Qed.

(* ------------------------------------------------------------------ 3. the automaton shows every record *)
Definition clean (x : slot) : Prop := sl_filtered x = false /\ sl_notrace x = false /\ sl_norecord x = false.
Fixpoint okb (c : cfg) (b : list slot) : Prop :=
  match b with
  | [] => True
  | x :: b' => clean x /\ gdepth c - Z.of_nat (length b') <= sl_orig x /\ okb c b'
  end.
Fixpoint oka (c : cfg) (n : Z) (a : list slot) : Prop :=
  match a with
  | [] => True
  | x :: a' => clean x /\ gdepth c - n <= sl_orig x /\ oka c (n + 1) a'
  end.
Definition RI (c : cfg) (s : st) : Prop :=
  started s = true /\ enabled s = true /\ outc s = 0 /\ gdepth c - stack_count s <= fdepth s
  /\ okb c (below s) /\ oka c (stack_count s) (above s).

Definition is_exit (r : rec) : bool := match r_type r with ENTRY => false | EXIT => true end.

Lemma okb_repeat c k : okb c (repeat (dslot c) k).
Proof.
  induction k as [|k IH]; cbn [repeat okb]; [exact I|]. unfold clean. cbn [dslot sl_orig sl_filtered sl_notrace sl_norecord].
  repeat split; auto. lia.
Qed.

Lemma sinit_RI c n : 0 <= n -> RI c (sinit c n) /\ fdepth (sinit c n) = gdepth c.
Proof.
  intro Hn. unfold RI, sinit, stack_count. cbn [started enabled outc fdepth below above oka].
  repeat split; auto; [lia|apply okb_repeat].
Qed.

Ltac zs := cbn -[Z.add Z.sub Z.leb Z.gtb Z.eqb Z.ltb Z.max Z.of_nat okb oka].

(* one record inside the window *)
Lemma visible_step c s r : range_only c -> RI c s -> dcons (stack_count s) [r] -> r_depth r < gdepth c ->
  exists s' d, std_step c s r = (s', [mkev (is_exit r) r d]) /\ RI c s'
               /\ stack_count s' = stack_count s + (match r_type r with ENTRY => 1 | EXIT => -1 end).
Proof.
  intros (Htr & Hthr & Hcl & Hfm & Hp & Hlf) (Hs & He & Ho & Hf & Hb & Ha) D Hd.
  destruct s as [b a i o fd en dd ds stt]. cbn [started enabled outc fdepth below above] in *. subst stt en o.
  unfold stack_count in *. cbn [below] in *.
  unfold std_step, std_body, consume, is_exit. cbn [started]. cbn [dcons] in D.
  destruct (r_type r) eqn:Hr.
  - destruct D as [Hdep _].
    unfold fstack_entry, set_stacks, top_above, update_entry, set_disp, stack_count. zs.
    rewrite (Htr (r_fn r)), Hfm, (loc_free_hidden c _ Hlf). cbn [notrig q_filter q_depth q_trace_on q_trace_off q_hide negb andb orb].
    replace (0 >? 0) with false by reflexivity. cbn iota.
    replace (fd <=? 0) with false by lia. cbn [orb negb]. rewrite (Hp (r_fn r)).
    eexists _, _. split; [reflexivity|]. unfold RI, stack_count. zs.
    repeat split; auto; try lia.
    destruct a as [|x a']; cbn [tl oka]; [exact I|]. cbn [oka] in Ha. destruct Ha as (_ & _ & Ha).
    replace (Z.of_nat (S (length b))) with (Z.of_nat (length b) + 1) by lia. exact Ha.
  - destruct D as (Hdep & Hpos & _). destruct b as [|x b']; [cbn in Hpos; lia|].
    cbn [okb] in Hb. destruct Hb as ((C1 & C2 & C3) & Hox & Hb).
    unfold set_stacks, top_above, update_exit, fstack_exit, set_disp, stack_count. zs.
    rewrite C3. cbn [orb negb]. rewrite (Hp (r_fn r)).
    eexists _, _. split; [reflexivity|]. unfold RI, stack_count, top_above. zs. rewrite C1, C2.
    cbn [length] in *.
    repeat split; auto; try lia.
    replace (Z.of_nat (length b') + 1) with (Z.of_nat (S (length b'))) by lia. exact Ha.
Qed.

Lemma visible_run c : range_only c -> forall rs s, RI c s -> dcons (stack_count s) rs ->
  Forall (fun r => r_depth r < gdepth c) rs ->
  map ob_rt (snd (run_steps (std_step c) s rs)) = map shown_rec rs.
Proof.
  intro Hro. induction rs as [|r rs IH]; intros s R D Hd; [reflexivity|].
  inversion Hd as [|? ? Hr Hrs]; subst.
  assert (D1 : dcons (stack_count s) [r]) by (cbn [dcons] in *; destruct (r_type r); intuition).
  destruct (visible_step c s r Hro R D1 Hr) as (s' & d & E & R' & C').
  cbn [run_steps]. rewrite E.
  assert (D' : dcons (stack_count s') rs).
  { rewrite C'. cbn [dcons] in D. destruct (r_type r); [|replace (stack_count s + -1) with (stack_count s - 1) by lia];
      intuition. }
  specialize (IH s' R' D' Hrs). destruct (run_steps (std_step c) s' rs) as [s2 o2]. cbn [snd app map] in *.
  rewrite IH. reflexivity.
Qed.

(* ------------------------------------------------------------------ the commands *)
Lemma std_first c r : std_step c (st0 c) r = std_step c (sinit c (first_count r)) r
  /\ raw_step c (st0 c) r = raw_step c (sinit c (first_count r)) r.
Proof. unfold std_step, raw_step. rewrite consume_st0. split; reflexivity. Qed.

Theorem range_std c rs : range_only c -> sorted rs -> dcons 0 rs ->
  Forall (fun r => r_depth r < gdepth c) rs ->
  map ob_rt (run_std c rs) = map shown_rec (window c rs).
Proof.
  intros Hro S D Hd. unfold run_std. rewrite (pre_is_window c rs Hro).
  pose proof (window_dcons0 c rs S D) as D0.
  assert (Hdw : Forall (fun r => r_depth r < gdepth c) (window c rs)).
  { unfold window. rewrite Forall_forall in *. intros x Hx. apply filter_In in Hx. apply Hd, Hx. }
  destruct (window c rs) as [|r w] eqn:E; [reflexivity|].
  cbn [dcons0] in D0. destruct D0 as [Hn D0].
  cbn [run_steps]. rewrite (proj1 (std_first c r)).
  destruct (sinit_RI c (first_count r) Hn) as [R _].
  pose proof (visible_run c Hro (r :: w) (sinit c (first_count r)) R) as V.
  rewrite (sinit_count c _ Hn) in V. specialize (V D0 Hdw). cbn [run_steps] in V. exact V.
Qed.

Theorem range_replay c rs : range_only c -> sorted rs -> dcons 0 rs ->
  Forall (fun r => r_depth r < gdepth c) rs ->
  map ob_rt (run_rp c rs) = map shown_rec (window c rs).
Proof.
  intros Hro S D Hd. pose proof Hro as (_ & _ & _ & _ & Hp & _).
  rewrite rp_eq_std_stream; [apply range_std; assumption|exact Hp|].
  rewrite (pre_is_window c rs Hro). apply window_dcons0; assumption.
Qed.

Theorem range_script c rs : range_only c -> sorted rs -> dcons 0 rs ->
  Forall (fun r => r_depth r < gdepth c) rs ->
  map ob_rt (run_script c rs) = map shown_rec (window c rs).
Proof.
  intros Hro S D Hd. pose proof Hro as (_ & _ & _ & _ & Hp & _).
  rewrite script_eq_std by exact Hp. apply range_std; assumption.
Qed.

(* ------------------------------------------------------------------ the raw dump (no look-ahead list; every record is consumed) *)
Lemma consume_only c s r : RI c s -> fdepth s = gdepth c -> dcons (stack_count s) [r] ->
  RI c (consume c s r) /\ fdepth (consume c s r) = gdepth c
  /\ stack_count (consume c s r) = stack_count s + (match r_type r with ENTRY => 1 | EXIT => -1 end).
Proof.
  intros (Hs & He & Ho & Hf & Hb & Ha) Hfd D.
  destruct s as [b a i o fd en dd ds stt]. cbn [started enabled outc fdepth below above] in *. subst stt en o fd.
  unfold stack_count in *. cbn [below] in *. unfold consume. cbn [started]. cbn [dcons] in D.
  destruct (r_type r) eqn:Hr.
  - unfold RI, set_stacks, top_above, stack_count. zs. repeat split; auto; try lia.
    + destruct a as [|x a']; cbn [hd]; [reflexivity|]. cbn [oka] in Ha. apply Ha.
    + destruct a as [|x a']; cbn [hd]; [reflexivity|]. cbn [oka] in Ha. apply Ha.
    + destruct a as [|x a']; cbn [hd]; [reflexivity|]. cbn [oka] in Ha. apply Ha.
    + destruct a as [|x a']; cbn [hd dslot sl_orig]; [lia|]. cbn [oka] in Ha. apply Ha.
    + destruct a as [|x a']; cbn [tl oka]; [exact I|]. cbn [oka] in Ha. destruct Ha as (_ & _ & Ha).
      replace (Z.of_nat (S (length b))) with (Z.of_nat (length b) + 1) by lia. exact Ha.
  - destruct D as (Hdep & Hpos & _). destruct b as [|x b']; [cbn in Hpos; lia|].
    cbn [okb] in Hb. destruct Hb as (Cx & Hox & Hb).
    unfold RI, set_stacks, stack_count. zs. cbn [length] in *. destruct Cx as (X1 & X2 & X3).
    repeat split; auto; try lia.
    replace (Z.of_nat (length b') + 1) with (Z.of_nat (S (length b'))) by lia. exact Ha.
Qed.

Lemma raw_before c : forall p s rest, RI c s -> fdepth s = gdepth c -> dcons (stack_count s) (p ++ rest) ->
  Forall (fun r => in_range c (r_time r) = false) p ->
  exists s', run_steps (raw_step c) s (p ++ rest) = (let '(s2, o) := run_steps (raw_step c) s' rest in (s2, o))
             /\ RI c s' /\ fdepth s' = gdepth c /\ stack_count s' = stack_count s + net p.
Proof.
  induction p as [|r p IH]; intros s rest R Hf D Hout.
  - exists s. cbn [app net]. destruct (run_steps (raw_step c) s rest).
    split; [reflexivity|]. split; [exact R|]. split; [exact Hf|]. lia.
  - inversion Hout as [|? ? Hr Hp]; subst. cbn [app run_steps]. unfold raw_step at 1. rewrite Hr.
    assert (D1 : dcons (stack_count s) [r]) by (cbn [app dcons] in *; destruct (r_type r); intuition).
    destruct (consume_only c s r R Hf D1) as (R1 & F1 & C1).
    assert (D' : dcons (stack_count (consume c s r)) (p ++ rest)).
    { rewrite C1. cbn [app dcons] in D. destruct (r_type r); [|replace (stack_count s + -1) with (stack_count s - 1) by lia];
        intuition. }
    destruct (IH _ rest R1 F1 D' Hp) as (s' & E & R' & F' & C'). exists s'. rewrite E.
    destruct (run_steps (raw_step c) s' rest) as [s2 o]. cbn [app].
    split; [reflexivity|]. split; [exact R'|]. split; [exact F'|]. rewrite C', C1. cbn [net]. lia.
Qed.

Lemma raw_inside c : range_only c -> forall w s rest, RI c s -> dcons (stack_count s) (w ++ rest) ->
  Forall (fun r => in_range c (r_time r) = true) w -> Forall (fun r => r_depth r < gdepth c) w ->
  exists s', run_steps (raw_step c) s (w ++ rest)
             = (let '(s2, o) := run_steps (raw_step c) s' rest in (s2, snd (run_steps (std_step c) s w) ++ o)).
Proof.
  intro Hro. induction w as [|r w IH]; intros s rest R D Hin Hd.
  - exists s. cbn. destruct (run_steps (raw_step c) s rest); reflexivity.
  - inversion Hin as [|? ? Hr Hw]; subst. inversion Hd as [|? ? Hdr Hdw]; subst.
    cbn [app run_steps]. unfold raw_step at 1. rewrite Hr. fold (std_step c s r).
    assert (D1 : dcons (stack_count s) [r]) by (cbn [app dcons] in *; destruct (r_type r); intuition).
    destruct (visible_step c s r Hro R D1 Hdr) as (s1 & d & E & R1 & C1). rewrite E.
    assert (D' : dcons (stack_count s1) (w ++ rest)).
    { rewrite C1. cbn [app dcons] in D. destruct (r_type r); [|replace (stack_count s + -1) with (stack_count s - 1) by lia];
        intuition. }
    destruct (IH s1 rest R1 D' Hw Hdw) as (s' & E'). exists s'. rewrite E'.
    destruct (run_steps (raw_step c) s' rest) as [s2 o]. destruct (run_steps (std_step c) s1 w) as [s3 o3].
    cbn [snd app]. reflexivity.
Qed.

Lemma raw_after c : forall q s, Forall (fun r => in_range c (r_time r) = false) q ->
  snd (run_steps (raw_step c) s q) = [].
Proof.
  induction q as [|r q IH]; intros s H; [reflexivity|]. inversion H as [|? ? Hr Hq]; subst.
  cbn [run_steps]. unfold raw_step at 1. rewrite Hr. specialize (IH (consume c s r) Hq).
  destruct (run_steps (raw_step c) (consume c s r) q). cbn [snd] in *. rewrite IH. reflexivity.
Qed.

Theorem range_raw c rs : range_only c -> sorted rs -> dcons 0 rs ->
  Forall (fun r => r_depth r < gdepth c) rs ->
  map ob_rt (run_raw c rs) = map shown_rec (window c rs).
Proof.
  intros Hro S D Hd. unfold run_raw.
  destruct rs as [|r0 rs0] eqn:Ers; [reflexivity|]. rewrite <- Ers in *.
  assert (F0 : first_count r0 = 0) by (subst rs; apply (dcons_first _ _ _ D)).
  assert (E0 : run_steps (raw_step c) (st0 c) rs = run_steps (raw_step c) (sinit c 0) rs).
  { subst rs. cbn [run_steps]. rewrite (proj2 (std_first c r0)), F0. reflexivity. }
  rewrite E0. clear E0 Ers F0 r0 rs0.
  destruct (segment c rs S) as (p & w & q & E & W & _ & Hw & Hq & Hp). rewrite W. subst rs.
  destruct (sinit_RI c 0 (Z.le_refl 0)) as [R F].
  assert (D0 : dcons (stack_count (sinit c 0)) (p ++ w ++ q)) by (rewrite sinit_count by lia; exact D).
  destruct (raw_before c p _ (w ++ q) R F D0 Hp) as (s1 & E1 & R1 & F1 & C1). rewrite E1.
  assert (D1 : dcons (stack_count s1) (w ++ q)).
  { rewrite C1. apply (dcons_app p _ _ D0). }
  assert (Hdw : Forall (fun r => r_depth r < gdepth c) w).
  { rewrite Forall_forall in *. intros x Hx. apply Hd. rewrite !in_app_iff. auto. }
  destruct (raw_inside c Hro w s1 q R1 D1 Hw Hdw) as (s2 & E2). rewrite E2.
  pose proof (raw_after c q s2 Hq) as A. destruct (run_steps (raw_step c) s2 q) as [sb ob]. cbn [snd] in A. subst ob.
  cbn [snd]. rewrite app_nil_r.
  apply (visible_run c Hro w s1 R1 (dcons_prefix w _ q D1) Hdw).
Qed.

(* ------------------------------------------------------------------ the hypotheses are satisfiable *)
Definition c_range : cfg := mkcfg [] false false 1024 0 1200 1650 [] true false.
Definition f_range : list call :=
  [Call 0 1000 2000 [Call 1 1100 1500 [Call 2 1200 1400 [Call 3 1250 1300 []]]; Call 4 1600 1700 []]].
Fixpoint sortedb (rs : list rec) : bool :=
  match rs with
  | [] => true
  | r :: rs' => forallb (fun x => (r_time r <=? r_time x)%N) rs' && sortedb rs'
  end.
Lemma sortedb_sorted rs : sortedb rs = true -> sorted rs.
Proof.
  induction rs as [|r rs IH]; intro H; [exact I|]. cbn [sortedb] in H. apply andb_prop in H. destruct H as [A B].
  split; [|apply IH; exact B]. rewrite forallb_forall in A. apply Forall_forall. intros x Hx. specialize (A x Hx). lia.
Qed.
Example hyps_range : range_only c_range /\ sorted (flats 0 f_range)
  /\ Forall (fun r => r_depth r < gdepth c_range) (flats 0 f_range)
  /\ map shown_rec (window c_range (flats 0 f_range))
     = [(false, 2%N, 2, 1200%N); (false, 3%N, 3, 1250%N); (true, 3%N, 3, 1300%N); (true, 2%N, 2, 1400%N);
        (true, 1%N, 1, 1500%N); (false, 4%N, 1, 1600%N)].
Proof.
  split; [|split; [apply sortedb_sorted; reflexivity|split; [|reflexivity]]].
  - unfold range_only, loc_free_all. repeat split; try reflexivity; apply libcall_plt_free; reflexivity.
  - cbn. repeat constructor.
Qed.

(* statements as used in Properties_C07.v *)
Lemma range_std_window c rs : range_only c -> sorted rs -> dcons 0 rs ->
  Forall (fun r => r_depth r < gdepth c) rs ->
  map ob_rt (run_std c rs) = map shown_rec (filter (fun r => in_window c (r_time r)) rs).
Proof.
  intros H1 H2 H3 H4. rewrite (range_std c rs H1 H2 H3 H4). unfold window.
  f_equal. apply filter_ext. intro r. apply in_range_window.
Qed.
Lemma range_replay_script c rs : range_only c -> sorted rs -> dcons 0 rs ->
  Forall (fun r => r_depth r < gdepth c) rs ->
  map ob_rt (run_rp c rs) = map shown_rec (window c rs)
  /\ map ob_rt (run_script c rs) = map shown_rec (window c rs).
Proof. intros H1 H2 H3 H4. split; [exact (range_replay c rs H1 H2 H3 H4)|exact (range_script c rs H1 H2 H3 H4)]. Qed.
