(* C07 - record time = replay time, unbounded, for the caller filter -C, the `trace` trigger and -t when no
   call is hidden by -F / -N / -D (-pg shape): libmcount writes exactly the recording of the forest pruned by
   the look-ahead rule of replay (tprune), so both orders show the same calls. *)
From Coq Require Import NArith ZArith List Bool Lia.
Import ListNotations.
Require Import ZifyBool ZifyN ZifyNat.
Require Import UV.Gen.Consts UV.C07.Model UV.C07.Proofs UV.C07.RecordProof UV.C07.Switch.
Local Open Scope Z_scope.

Definition btrig (cl tr : bool) : rtrig :=
  {| q_filter := None; q_depth := None; q_time := None; q_trace_on := false; q_trace_off := false;
     q_trace := tr; q_caller := cl; q_hide := false |}.
Definition classB (c : cfg) : Prop :=
  (forall f, trig_of c f = btrig (q_caller (trig_of c f)) (q_trace (trig_of c f)))
  /\ fmode_in c = false /\ 1 <= gdepth c /\ loc_free_all c.

Definition FrB (cl tr wr : bool) (a t0 t1 ri dp : N) : MC.frame :=
  {| MC.f_addr := a; MC.f_start := t0; MC.f_end := t1;
     MC.f_flags := {| MC.norecord := false; MC.notrace := false; MC.filtered := false; MC.written := wr;
                      MC.disabled := false; MC.ftrace := tr; MC.fcaller := cl; MC.cygprof := false |};
     MC.f_depth := ri; MC.sv_depth := dp; MC.sv_max := FILTER_NO_MAX_DEPTH; MC.sv_time := MC.NO_TIME;
     MC.sv_size := 0; MC.f_ghost := false |}.
Lemma markw_consB cl tr f t0 ri dp stk :
  markw (FrB cl tr false f t0 0 ri dp :: stk) = FrB cl tr true f t0 0 ri dp :: markw stk
  /\ pend (FrB cl tr false f t0 0 ri dp :: stk) = pend stk ++ [mflat_rec false ri t0 f].
Proof.
  unfold markw, pend. cbn [MC.flush_anc FrB MC.f_flags MC.written]. destruct (MC.flush_anc stk) as [rest' recs].
  cbn. split; reflexivity.
Qed.

Definition keepB (c : cfg) (f t0 t1 : N) (gk : list call) : bool :=
  negb (is_nil gk)
  || ((threshold c <=? tdelta t1 t0)%N && (negb (caller_filter c) || q_caller (trig_of c f)))
  || q_trace (trig_of c f).
Fixpoint selB (c : cfg) (n : call) : list call :=
  match n with
  | Call f t0 t1 ks => let gk := flat_map (selB c) ks in if keepB c f t0 t1 gk then [Call f t0 t1 gk] else []
  end.

Section RecB.
  Variable c : cfg.
  Hypothesis HB : classB c.
  Local Notation mc := (to_mcfg c MC.PG).

  Ltac mstep :=
    unfold MC.dstep, MC.hooked, MC.do_enter, MC.do_leave, MC.entry_check, MC.entry_record, MC.exit_record,
           MC.check_rstack, MC.idx, MC.with_fc, MC.set_end, mk, FrB;
    cbn [MC.max_stack MC.stack MC.shp MC.fc MC.warned to_mcfg MC.trig_of MC.fmode_in MC.has_caller MC.gdepth
         MC.threshold MC.sym_size MC.out_count MC.in_count MC.depth MC.max_depth MC.ftime MC.fsize MC.enabled
         MC.cached MC.ridx MC.out].

  Lemma enterB f t i dp stk ri ou hk : (length stk < 1024)%nat -> (Z.to_N (gdepth c) <=? dp)%N = false ->
    MC.dstep mc (mk i 0 dp stk ri ou, hk) (MC.Enter f t)
    = (mk i 0 (dp + 1) (FrB (q_caller (trig_of c f)) (q_trace (trig_of c f)) false f t 0 ri dp :: stk) (ri + 1) ou,
       true :: hk).
  Proof.
    intros Hl Hd. assert (Hidx : (1024 <=? N.of_nat (length stk))%N = false) by lia.
    destruct HB as (Htr & Hfm & _ & _).
    mstep. rewrite Hidx. cbn. rewrite (Htr f). cbn. rewrite Hfm. cbn. rewrite Hd. cbn. rewrite ?andb_false_r.
    rewrite (Htr f). cbn. reflexivity.
  Qed.

  Lemma leaveB (cl tr wr : bool) f t0 t1 i dp0 dp stk ri ou hk : (t0 < t1)%N -> (t1 < two64)%N ->
    MC.dstep mc (mk i 0 dp0 (FrB cl tr wr f t0 0 ri dp :: stk) (ri + 1) ou, true :: hk) (MC.Leave t1)
    = (if ((threshold c <=? tdelta t1 t0)%N && (negb (caller_filter c) || cl)) || wr || tr
       then mk i 0 dp (if wr then stk else markw stk) ri
               (ou ++ (if wr then [] else pend stk ++ [mflat_rec false ri t0 f]) ++ [mflat_rec true ri t1 f])
       else mk i 0 dp stk ri ou, hk).
  Proof.
    intros H01 H1. unfold two64 in H1. unfold tdelta, two64.
    assert (Hri : (if (0 <? ri + 1)%N then (ri + 1 - 1)%N else 0%N) = ri) by (destruct (0 <? ri + 1)%N eqn:E; lia).
    assert (Ht1 : (t1 =? 0)%N = false) by lia.
    mstep. cbn -[N.modulo N.add N.sub N.ltb MC.flush_anc]. rewrite Hri.
    destruct (threshold c <=? (t1 + 18446744073709551616 - t0) mod 18446744073709551616)%N eqn:EL;
      destruct (caller_filter c), cl, wr, tr;
      cbn -[N.modulo N.add N.sub N.ltb MC.flush_anc]; unfold MC.record_trace_data; cbn -[MC.flush_anc];
      rewrite ?Ht1; try reflexivity;
      unfold markw, pend; destruct (MC.flush_anc stk) as [anc' pre]; cbn; rewrite ?Ht1;
      cbn; rewrite <- ?app_assoc; reflexivity.
  Qed.

  Lemma execB_app es1 es2 d : MC.exec mc (es1 ++ es2) d = MC.exec mc es2 (MC.exec mc es1 d).
  Proof. unfold MC.exec. apply fold_left_app. Qed.
  Lemma execB_cons e es d : MC.exec mc (e :: es) d = MC.exec mc es (MC.dstep mc d e).
  Proof. reflexivity. Qed.

  Definition recB_call_stmt (n : call) : Prop := forall i dp stk ri ou hk,
    (length stk + height n <= 1024)%nat -> (Z.of_N dp + Z.of_nat (height n) <= gdepth c) ->
    wf_call (threshold c) n ->
    MC.exec mc (events n) (mk i 0 dp stk ri ou, hk) = (after (selB c n) i 0 dp stk ri ou, hk).

  Lemma recB_kids ks : Forall recB_call_stmt ks -> forall i dp stk ri ou hk,
    (length stk + fheight ks <= 1024)%nat -> (Z.of_N dp + Z.of_nat (fheight ks) <= gdepth c) ->
    Forall (wf_call (threshold c)) ks ->
    MC.exec mc (flat_map events ks) (mk i 0 dp stk ri ou, hk) = (after (flat_map (selB c) ks) i 0 dp stk ri ou, hk).
  Proof.
    induction 1 as [|k ks Hk _ IH]; intros i dp stk ri ou hk Hlen Hd Hwf; [reflexivity|].
    inversion Hwf as [|? ? Hwk Hwks]; subst. cbn [flat_map]. rewrite execB_app.
    unfold fheight in Hlen, Hd. cbn [map fold_right] in Hlen, Hd.
    rewrite (Hk i dp stk ri ou hk) by (auto; lia).
    destruct (after_mk (selB c k) i 0 dp stk ri ou) as [E L].
    set (s1 := after (selB c k) i 0 dp stk ri ou) in *.
    rewrite E.
    rewrite (IH i dp _ ri _ hk) by (auto; unfold fheight; rewrite ?L; lia).
    rewrite <- after_app. cbn zeta. fold s1. reflexivity.
  Qed.

  Lemma recB_call : forall n, recB_call_stmt n.
  Proof.
    induction n as [f t0 t1 ks IH] using call_ind'. intros i dp stk ri ou hk Hlen Hd Hwf.
    pose proof (recB_kids ks IH) as HK.
    apply wf_kids in Hwf. destruct Hwf as (H01 & H1 & Hwk & _).
    cbn [height] in Hlen, Hd. fold (fheight ks) in Hlen, Hd.
    assert (Hl : (length stk < 1024)%nat) by lia.
    assert (Hdp : (Z.to_N (gdepth c) <=? dp)%N = false) by lia.
    cbn [events]. rewrite execB_cons, execB_app. rewrite (enterB f t0 i dp stk ri ou hk Hl Hdp).
    rewrite (HK i (dp + 1)%N _ (ri + 1)%N ou (true :: hk)) by (auto; cbn [length]; lia).
    cbn [selB]. unfold keepB.
    destruct (flat_map (selB c) ks) as [|x g'] eqn:Eg.
    - cbn [after]. cbn [MC.exec fold_left]. rewrite (leaveB _ _ false f t0 t1 i (dp + 1)%N dp stk ri ou hk H01 H1).
      cbn [is_nil negb orb]. rewrite orb_false_r.
      destruct ((threshold c <=? tdelta t1 t0)%N && (negb (caller_filter c) || q_caller (trig_of c f)) || q_trace (trig_of c f));
        [|reflexivity].
      cbn [after flat_map mflat]. unfold mk. rewrite app_nil_r. rewrite <- ?app_assoc. reflexivity.
    - cbn [after]. destruct (markw_consB (q_caller (trig_of c f)) (q_trace (trig_of c f)) f t0 ri dp stk) as [M P].
      rewrite M, P. cbn [MC.exec fold_left].
      rewrite (leaveB _ _ true f t0 t1 i (dp + 1)%N dp (markw stk) ri _ hk H01 H1).
      cbn [is_nil negb orb]. rewrite orb_true_r. cbn [orb].
      cbn [after flat_map mflat]. unfold mk. rewrite app_nil_r.
      cbn [app]. rewrite <- ?app_assoc. cbn [app]. reflexivity.
  Qed.
End RecB.

(* ------------------------------------------------------------------ the recorded forest is the look-ahead pruning *)
Lemma selB_tprune c : classB c -> forall n, wf_call (threshold c) n -> selB c n = tprune c (threshold c) n.
Proof.
  intros (Htr & _). induction n as [f t0 t1 ks IH] using call_ind'. intro Hwf.
  apply wf_kids in Hwf. destruct Hwf as (H01 & H1 & Hwk & _).
  cbn [selB tprune]. rewrite (Htr f). cbn [btrig q_time q_caller q_trace].
  assert (E : flat_map (selB c) ks = flat_map (tprune c (threshold c)) ks).
  { clear -IH Hwk. induction IH as [|k ks Hk _ IHks]; [reflexivity|]. inversion Hwk; subst.
    cbn [flat_map]. rewrite Hk, IHks by assumption. reflexivity. }
  rewrite <- E. unfold keepB. rewrite (Htr f). cbn [btrig q_caller q_trace].
  replace (negb (tdelta t1 t0 <? threshold c)%N) with (threshold c <=? tdelta t1 t0)%N by lia.
  fold (is_nil (flat_map (selB c) ks)).
  destruct (is_nil (flat_map (selB c) ks)), ((threshold c <=? tdelta t1 t0)%N && (negb (caller_filter c) || q_caller (trig_of c f))),
           (q_trace (trig_of c f)); reflexivity.
Qed.

Lemma selB_forest c f : classB c -> wf_forest c f -> flat_map (selB c) f = flat_map (tprune c (threshold c)) f.
Proof.
  intros HB Hwf. induction Hwf as [|n f Hn _ IH]; [reflexivity|]. cbn [flat_map].
  rewrite (selB_tprune c HB n Hn), IH. reflexivity.
Qed.

Lemma record_is_pruned c f : classB c -> wf_forest c f -> (fheight f <= 1024)%nat ->
  Z.of_nat (fheight f) <= gdepth c ->
  record (to_mcfg c MC.PG) f = flats 0 (flat_map (tprune c (threshold c)) f).
Proof.
  intros HB Hwf Hh Hg. unfold record.
  change (MC.init, @nil bool) with (mk 0 0 0 [] 0 [], @nil bool).
  assert (Hall : Forall (recB_call_stmt c) f) by (apply Forall_forall; intros n _; apply recB_call; assumption).
  rewrite (recB_kids c f Hall 0 0%N [] 0%N [] []) by (auto; cbn [length]; lia).
  rewrite (selB_forest c f HB Hwf). cbn [fst].
  destruct (flat_map (tprune c (threshold c)) f) as [|x g] eqn:E; [reflexivity|].
  cbn [after mk MC.out]. unfold pend. cbn [MC.flush_anc snd app].
  unfold flats. generalize (x :: g). intro l. clear.
  induction l as [|n l IH]; [reflexivity|]. cbn [flat_map]. rewrite map_app, (mflat_flat n 0), IH. reflexivity.
Qed.

(* ------------------------------------------------------------------ nothing is hidden: both replays show every call left *)
Fixpoint allev (d rd : Z) (n : call) : list vev :=
  match n with
  | Call f t0 t1 ks =>
      {| v_exit := false; v_fn := f; v_disp := d; v_rdepth := rd; v_time := t0 |}
        :: flat_map (allev (d + 1) (rd + 1)) ks
        ++ [{| v_exit := true; v_fn := f; v_disp := d; v_rdepth := rd; v_time := t1 |}]
  end.

Definition unfiltered (c : cfg) : Prop :=
  (forall f, q_filter (trig_of c f) = None /\ q_depth (trig_of c f) = None /\ q_hide (trig_of c f) = false)
  /\ fmode_in c = false /\ plt_free_all c /\ loc_free_all c.

Lemma vis_all c : unfiltered c -> forall n inF bud d rd, heightZ n <= bud -> vis c inF bud d rd n = allev d rd n.
Proof.
  intros (Htr & Hfm & Hp & Hlf). induction n as [f t0 t1 ks IH] using call_ind'. intros inF bud d rd Hb.
  cbn [heightZ] in Hb. destruct (Htr f) as (Q1 & Q2 & Q3).
  assert (Hk : 0 <= fold_right Z.max 0 (map heightZ ks)) by (clear; induction ks; cbn; lia).
  cbn [vis allev]. rewrite Q1, Q2, Q3, Hfm, (Hp f), (loc_free_hidden c f Hlf). cbn [negb andb orb].
  replace (bud <=? 0) with false by lia. cbn [orb]. f_equal. f_equal.
  clear -IH Hb. induction IH as [|k ks Hkk _ IHks]; [reflexivity|]. cbn [map fold_right] in Hb.
  cbn [flat_map]. rewrite Hkk by lia. rewrite IHks by lia. reflexivity.
Qed.

Lemma vis_all_forest c p inF bud : unfiltered c -> fheightZ p <= bud ->
  flat_map (vis c inF bud 0 0) p = flat_map (allev 0 0) p.
Proof.
  intros Hu Hb. unfold fheightZ in Hb. induction p as [|n p IH]; [reflexivity|]. cbn [map fold_right] in Hb.
  cbn [flat_map]. rewrite (vis_all c Hu n) by lia. rewrite IH by lia. reflexivity.
Qed.

Lemma heightZ_nat : forall n, heightZ n = Z.of_nat (height n).
Proof.
  induction n as [f t0 t1 ks IH] using call_ind'. cbn [heightZ height].
  assert (E : fold_right Z.max 0 (map heightZ ks) = Z.of_nat (fold_right Nat.max 0%nat (map height ks))).
  { induction IH as [|k ks Hk _ IHks]; [reflexivity|]. cbn [map fold_right]. rewrite Hk, IHks, Nat2Z.inj_max. reflexivity. }
  rewrite E. lia.
Qed.
Lemma fheightZ_nat f : fheightZ f = Z.of_nat (fheight f).
Proof.
  unfold fheightZ, fheight. induction f as [|n f IH]; [reflexivity|]. cbn [map fold_right]. rewrite heightZ_nat, IH, Nat2Z.inj_max. reflexivity.
Qed.

Theorem record_equals_replay_caller c f :
  classB c -> plt_free_all c -> no_range c = true -> wf_forest c f -> (fheight f <= 1024)%nat ->
  Z.of_nat (fheight f) <= gdepth c ->
  rec_then_plain c MC.PG f = plain_then_opt c f.
Proof.
  intros HB Hp Hr Hwf Hh Hg. pose proof HB as (Htr & Hfm & Hgd & Hlf).
  assert (Hns : no_switch_all c) by (intro k; rewrite (Htr k); split; reflexivity).
  assert (Huc : unfiltered c).
  { split; [|repeat split; try assumption; apply Hlf]. intro k. rewrite (Htr k). repeat split; reflexivity. }
  assert (Hup : unfiltered plain).
  { split; [intro k; repeat split; reflexivity|]. split; [reflexivity|]. split; [intro k; reflexivity|].
    split; [intro; reflexivity|reflexivity]. }
  unfold rec_then_plain, plain_then_opt.
  rewrite (record_is_pruned c f HB Hwf Hh Hg).
  set (p := flat_map (tprune c (threshold c)) f).
  assert (Hhp : fheightZ p <= fheightZ f) by apply tprune_forest_height.
  rewrite (fheightZ_nat f) in Hhp.
  rewrite (std_matches_select plain) by (try reflexivity; intro k; split; reflexivity).
  rewrite (std_matches_select c f Hns Hr).
  unfold select. fold p. cbn [plain threshold gdepth].
  rewrite (tprune_forest_id plain) by (auto; intro k; reflexivity).
  rewrite (vis_all_forest plain p false 1024 Hup) by lia.
  rewrite (vis_all_forest c p false (gdepth c) Huc) by lia. reflexivity.
Qed.

(* the hypotheses are satisfiable: -C beta -T gamma@trace -t 150 *)
Definition c_exB : cfg := mkcfg [(2%N, btrig true false); (3%N, btrig false true)] false true 1024 150 0 0 [] true false.
Definition f_exB : list call :=
  [Call 0 1000 3000 [Call 1 1100 1900 [Call 2 1200 1400 [Call 4 1250 1300 []]; Call 3 1410 1420 []]; Call 2 2000 2100 []]].
Lemma assoc_classB tr : Forall (fun p => snd p = btrig (q_caller (snd p)) (q_trace (snd p))) tr ->
  forall f, assoc notrig tr f = btrig (q_caller (assoc notrig tr f)) (q_trace (assoc notrig tr f)).
Proof.
  induction 1 as [|[k v] tr Hv _ IH]; intro f; cbn [assoc]; [reflexivity|]. destruct (f =? k)%N; [exact Hv|apply IH].
Qed.
Example hyps_classB : classB c_exB /\ wf_forest c_exB f_exB
  /\ map ob_n (plain_then_opt c_exB f_exB)
     = [(false, 0%N); (false, 1%N); (false, 2%N); (true, 2%N); (false, 3%N); (true, 3%N); (true, 1%N); (true, 0%N)].
Proof.
  split; [|split].
  - unfold classB, c_exB, mkcfg, mkcfgL, loc_free_all. cbn [trig_of fmode_in gdepth loc_of lmode_in].
    split; [|repeat split; try reflexivity; lia].
    apply assoc_classB. repeat constructor.
  - unfold wf_forest, c_exB, f_exB, mkcfg, mkcfgL. cbn [threshold]. repeat constructor; cbn; unfold two64; try lia.
    all: vm_compute; congruence.
  - vm_compute. reflexivity.
Qed.
