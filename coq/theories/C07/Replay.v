(* C07 - replay with leaf folding (fstack_skip / print_graph_rstack) shows the same calls as the
   fstack_check_filter loop of report/graph/dump, for every depth-consistent record stream and every
   option set (trace_on/off and -r included), provided --no-libcall hides no PLT function.
   Simulation between the two automata with the pending ENTRY of the skipping mode. *)
From Coq Require Import NArith ZArith List Bool Lia.
Import ListNotations.
Require Import ZifyBool ZifyN.
Require Import UV.C07.Model UV.C07.Proofs.
Require UV.C07.RecordReplay.
Local Open Scope Z_scope.

(* ------------------------------------------------------------------ streams whose depth field is the nesting *)
Fixpoint dcons (n : Z) (rs : list rec) : Prop :=
  match rs with
  | [] => True
  | r :: rs' =>
      match r_type r with
      | ENTRY => r_depth r = n /\ dcons (n + 1) rs'
      | EXIT => r_depth r = n - 1 /\ 0 < n /\ dcons (n - 1) rs'
      end
  end.

(* ------------------------------------------------------------------ invariant of the per-task state *)
Fixpoint nt_count (l : list slot) : Z :=
  match l with [] => 0 | x :: r => (if sl_notrace x then 1 else 0) + nt_count r end.
Fixpoint nt_ok (l : list slot) : Prop :=
  match l with
  | [] => True
  | x :: r => (0 < nt_count l -> sl_norecord x = true) /\ (sl_notrace x = true -> sl_filtered x = false) /\ nt_ok r
  end.
Lemma nt_count_nonneg l : 0 <= nt_count l.
Proof. induction l as [|x l IH]; cbn; [lia|]. destruct (sl_notrace x); lia. Qed.

Definition GI (s : st) : Prop :=
  started s = true /\ outc s = nt_count (below s) /\ nt_ok (below s) /\ 0 <= disp s.

(* the two operations both drivers are made of *)
Definition do_entry (c : cfg) (s : st) (r : rec) : st * bool := fstack_entry c (consume c s r) r.
Definition do_exit (c : cfg) (s : st) (r : rec) : st := fstack_exit c (consume c s r).

Ltac zsimp := cbn -[Z.add Z.sub Z.leb Z.gtb Z.eqb Z.ltb Z.max Z.of_nat nt_count nt_ok].

Lemma do_entry_shape c s r : started s = true -> r_type r = ENTRY ->
  exists sl, below (fst (do_entry c s r)) = sl :: below s
             /\ (snd (do_entry c s r) = true ->
                 sl_norecord sl = false /\ enabled (fst (do_entry c s r)) = true
                 /\ disp_set (fst (do_entry c s r)) = true).
Proof.
  intros Hs Hr. unfold do_entry, consume. rewrite Hs, Hr. unfold fstack_entry, set_stacks. zsimp.
  destruct (outc s >? 0); [eexists; split; [reflexivity|discriminate]|].
  destruct (q_filter (trig_of c (r_fn r))) as [[|]|]; zsimp.
  all: repeat match goal with
       | |- context [if ?b then _ else _] => destruct b eqn:?; zsimp
       end; eexists; (split; [reflexivity|]); try discriminate; intros _; repeat split; auto;
       destruct (enabled s); cbn in *; congruence.
Qed.

Lemma do_entry_GI c s r : GI s -> r_type r = ENTRY -> GI (fst (do_entry c s r)).
Proof.
  intros (Hs & Ho & Hok & Hd) Hr. pose proof (nt_count_nonneg (below s)) as Hnn.
  unfold GI, do_entry, consume. rewrite Hs, Hr. unfold fstack_entry, set_stacks, stack_count. zsimp.
  destruct (outc s >? 0) eqn:Eo; zsimp.
  { repeat split; auto; try lia; discriminate. }
  assert (nt_count (below s) = 0) by lia.
  destruct (q_filter (trig_of c (r_fn r))) as [[|]|]; zsimp.
  all: repeat match goal with
       | |- context [if ?b then _ else _] => destruct b eqn:?; zsimp
       end; repeat split; auto; try lia; try discriminate; try (intros; lia); try reflexivity;
       cbn [nt_count sl_notrace sl_norecord]; intros; try lia.
Qed.

Lemma do_exit_GI c s r : GI s -> r_type r = EXIT -> below s <> [] -> GI (do_exit c s r).
Proof.
  intros (Hs & Ho & Hok & Hd) Hr Hne. unfold GI, do_exit, consume. rewrite Hs, Hr.
  destruct (below s) as [|x b] eqn:Eb; [congruence|]. unfold fstack_exit, top_above, set_stacks. zsimp.
  cbn [nt_count nt_ok] in Ho, Hok. destruct Hok as (H1 & H2 & H3).
  repeat split; auto.
  destruct (sl_filtered x) eqn:Ef.
  - destruct (sl_notrace x) eqn:En; [specialize (H2 eq_refl); congruence|]. lia.
  - destruct (sl_notrace x); lia.
Qed.

(* shifting the display depth does not matter to fstack_entry / fstack_exit / consume *)
Lemma consume_shift c s r : started s = true ->
  consume c (update_entry s) r = update_entry (consume c s r).
Proof.
  intro Hs. destruct s as [b a i o fd en dd ds stt]. cbn [started] in Hs. subst stt.
  unfold consume, update_entry, set_disp, set_stacks, top_above. zsimp.
  destruct (r_type r); zsimp; [reflexivity|]. destruct b; reflexivity.
Qed.

Lemma fstack_entry_shift c s r : disp_set s = true ->
  fstack_entry c (update_entry s) r
  = (update_entry (fst (fstack_entry c s r)), snd (fstack_entry c s r)).
Proof.
  intro Hd. destruct s as [b0 a i o fd en dd ds stt]. cbn [disp_set] in Hd. subst ds.
  unfold fstack_entry, update_entry, set_disp, stack_count. zsimp.
  destruct b0 as [|sl0 b]; [reflexivity|]. zsimp.
  destruct (o >? 0); [reflexivity|].
  destruct (q_filter (trig_of c (r_fn r))) as [[|]|]; zsimp.
  all: repeat match goal with
       | |- context [if ?b then _ else _] => destruct b eqn:?; zsimp
       end; first [reflexivity | (cbn in *; congruence)].
Qed.

Lemma fstack_exit_shift c s : fstack_exit c (update_entry s) = update_entry (fstack_exit c s).
Proof. reflexivity. Qed.

(* a failing fstack_entry leaves the display depth alone *)
Lemma do_entry_fail c s r : started s = true -> r_type r = ENTRY -> snd (do_entry c s r) = false ->
  disp (fst (do_entry c s r)) = disp s
  /\ (enabled (fst (do_entry c s r)) = true -> enabled s = true -> disp_set s = true ->
      disp_set (fst (do_entry c s r)) = true).
Proof.
  intros Hs Hr. unfold do_entry, consume. rewrite Hs, Hr. unfold fstack_entry, set_stacks, stack_count. zsimp.
  destruct (outc s >? 0); [intros _; split; auto|].
  destruct (q_filter (trig_of c (r_fn r))) as [[|]|]; zsimp.
  all: repeat match goal with
       | |- context [if ?b then _ else _] => destruct b eqn:?; zsimp
       end; intro Hok; try discriminate; split; auto; intros; congruence.
Qed.

(* fstack_check_skip() < 0 on an ENTRY: fstack_entry() will fail on it *)
Lemma check_skip_entry c s r : started s = true -> r_type r = ENTRY ->
  (check_skip c s r >=? 0) = false -> snd (do_entry c s r) = false.
Proof.
  intros Hs Hr. unfold check_skip, do_entry, consume. rewrite Hs, Hr.
  unfold fstack_entry, set_stacks, stack_count. zsimp.
  destruct (outc s >? 0); [reflexivity|].
  destruct (q_filter (trig_of c (r_fn r))) as [[|]|]; zsimp; try reflexivity.
  all: unfold loc_hidden; destruct (loc_of c (r_fn r)) as [[|]|]; destruct (fmode_in c); destruct (lmode_in c); zsimp;
       try reflexivity.
  all: destruct (q_depth (trig_of c (r_fn r))); zsimp; try discriminate; try reflexivity.
  all: repeat match goal with
       | |- context [if ?b then _ else _] => destruct b eqn:?; zsimp
       end; try reflexivity; try discriminate; intros; lia.
Qed.

(* ------------------------------------------------------------------ the simulation *)
Definition pendout (m : mode) : list vev := match m with Normal => [] | Skipping e d => [mkev false e d] end.

Definition SkipInv (s : st) (e : rec) (d : Z) : Prop :=
  enabled s = true /\ disp_set s = true /\ disp s = d /\
  exists extra sle rest, below s = extra ++ sle :: rest /\ Z.of_nat (length rest) = r_depth e
                         /\ sl_norecord sle = false.

Definition Rel (s : st) (m : mode) (ss : st) : Prop :=
  match m with
  | Normal => ss = s
  | Skipping e d => ss = update_entry s /\ SkipInv s e d
  end.

Section Sim.
  Variable c : cfg.
  Hypothesis Hplt : plt_free_all c.
  Hypothesis Hmerge : no_merge c = false.

  (* one step of the main loop of both commands from the same state *)
  Lemma normal_step s r : GI s -> dcons (stack_count s) [r] ->
    let '((s', m'), o) := rp_normal c s r in
    let '(ss', os) := std_step c s r in
    o ++ pendout m' = os /\ Rel s' m' ss' /\ GI s'
    /\ stack_count s' = match r_type r with ENTRY => stack_count s + 1 | EXIT => stack_count s - 1 end.
  Proof.
    intros G D. pose proof G as (Hs & _). unfold rp_normal, std_step, std_body. rewrite (Hplt (r_fn r)).
    cbn [dcons] in D. destruct (r_type r) eqn:Hr.
    - destruct D as [Hd _].
      pose proof (do_entry_shape c s r Hs Hr) as (sl & Hb & Hv).
      pose proof (do_entry_GI c s r G Hr) as G1.
      unfold do_entry in *. destruct (fstack_entry c (consume c s r) r) as [s1 ok]. cbn [fst snd] in *.
      assert (Hc : stack_count s1 = stack_count s + 1) by (unfold stack_count; rewrite Hb; cbn [length]; lia).
      destruct ok.
      + rewrite Hmerge. destruct (Hv eq_refl) as (Hn & He & Hds).
        split; [reflexivity|]. split; [|split; assumption].
        cbn [Rel]. split; [reflexivity|]. unfold SkipInv. repeat split; auto.
        exists [], sl, (below s). cbn [app]. repeat split; auto; unfold stack_count in Hd; lia.
      + split; [reflexivity|]. split; [reflexivity|]. split; assumption.
    - destruct D as (Hd & Hpos & _).
      assert (Hne : below s <> []) by (unfold stack_count in Hpos; destruct (below s); cbn in *; [lia|discriminate]).
      pose proof (do_exit_GI c s r G Hr Hne) as G1. unfold do_exit in G1.
      assert (Hc : stack_count (consume c s r) = stack_count s - 1).
      { unfold consume, stack_count. rewrite Hs, Hr. destruct (below s) as [|x b]; [congruence|].
        unfold set_stacks. cbn [below length]. lia. }
      destruct (sl_norecord (top_above c (consume c s r))), (enabled (consume c s r)); cbn [andb orb negb].
      all: split; [reflexivity|]; split; [reflexivity|]; split; try assumption.
      all: try (unfold stack_count in *; cbn [fstack_exit below update_exit set_disp] in *; assumption).
      destruct G1 as (A & B & C & D). unfold GI. cbn [fstack_exit update_exit set_disp below outc started disp] in *.
      repeat split; auto.
      destruct (disp_set (consume c s r)); destruct (_ >? 0) eqn:E; lia.
  Qed.

  Lemma sim : forall rs s m ss, GI s -> Rel s m ss -> dcons (stack_count s) rs ->
    let '(smr, o_r) := run_steps (rp_step c) (s, m) rs in
    let '(ss', o_s) := run_steps (std_step c) ss rs in
    o_r ++ rp_finish smr = pendout m ++ o_s.
  Proof.
    induction rs as [|r rs IH]; intros s m ss G R D.
    - cbn [run_steps]. destruct m; cbn; reflexivity.
    - cbn [run_steps]. pose proof G as (Hs & Houtc & Hok & Hdisp).
      assert (D1 : dcons (stack_count s) [r]).
      { cbn [dcons] in *. destruct (r_type r); intuition. }
      destruct m as [|e d].
      + (* main loop *)
        cbn [Rel] in R. subst ss. cbn [rp_step].
        pose proof (normal_step s r G D1) as N.
        destruct (rp_normal c s r) as [[s' m'] o]. destruct (std_step c s r) as [ss' os].
        destruct N as (No & NR & NG & Nc).
        assert (D' : dcons (stack_count s') rs).
        { rewrite Nc. cbn [dcons] in D. destruct (r_type r); intuition. }
        specialize (IH s' m' ss' NG NR D').
        destruct (run_steps (rp_step c) (s', m') rs) as [smr o_r].
        destruct (run_steps (std_step c) ss' rs) as [ss2 o_s].
        cbn [pendout app]. rewrite <- app_assoc, IH, app_assoc, No. reflexivity.
      + (* inside fstack_skip *)
        cbn [Rel] in R. destruct R as (-> & He & Hds & Hdd & extra & sle & rest & Hb & Hlen & Hnr).
        assert (Hcnt : stack_count s = Z.of_nat (length extra) + 1 + r_depth e).
        { unfold stack_count. rewrite Hb, app_length. cbn [length]. lia. }
        cbn [rp_step]. rewrite (Hplt (r_fn r)).
        destruct (r_depth r <=? r_depth e) eqn:Ele.
        * (* the record ends the skipping: under depth consistency it is the matching EXIT *)
          cbn [dcons] in D. destruct (r_type r) eqn:Hr; [destruct D as [Hd _]; lia|].
          destruct D as (Hd & Hpos & D').
          assert (Hx : extra = []) by (destruct extra; [reflexivity|cbn [length] in Hcnt; lia]).
          subst extra. cbn [app] in Hb.
          assert (Eeq : (r_depth r =? r_depth e) = true) by lia. rewrite Eeq.
          (* std: the EXIT is visible *)
          unfold std_step at 1. rewrite (consume_shift c s r Hs). unfold std_body. rewrite Hr.
          assert (Hcons : consume c s r = set_stacks s rest (sle :: above s)).
          { unfold consume. rewrite Hs, Hr, Hb. reflexivity. }
          assert (Htop : top_above c (update_entry (consume c s r)) = sle) by (rewrite Hcons; reflexivity).
          rewrite Htop, Hnr. cbn [orb]. rewrite (Hplt (r_fn r)).
          assert (Hen : enabled (update_entry (consume c s r)) = true) by (rewrite Hcons; exact He).
          rewrite Hen. cbn [negb].
          assert (Hue : update_exit (update_entry (consume c s r)) = consume c s r).
          { rewrite Hcons. unfold update_exit, update_entry, set_disp, set_stacks. zsimp. rewrite Hds.
            assert (E : (disp s + 1 >? 0) = true) by lia. rewrite E.
            destruct s; cbn in *. subst. f_equal. lia. }
          rewrite Hue.
          assert (G' : GI (fstack_exit c (consume c s r))).
          { apply (do_exit_GI c s r G Hr). rewrite Hb. discriminate. }
          assert (Dn : dcons (stack_count (fstack_exit c (consume c s r))) rs).
          { replace (stack_count (fstack_exit c (consume c s r))) with (stack_count s - 1); [exact D'|].
            rewrite Hcons. unfold stack_count. cbn [fstack_exit below set_stacks]. rewrite Hb. cbn [length]. lia. }
          specialize (IH _ Normal _ G' eq_refl Dn).
          destruct (run_steps (rp_step c) (fstack_exit c (consume c s r), Normal) rs) as [smr o_r].
          destruct (run_steps (std_step c) (fstack_exit c (consume c s r)) rs) as [ss2 o_s].
          cbn [pendout app] in *. rewrite IH.
          replace (disp (consume c s r)) with d by (rewrite Hcons; cbn; congruence).
          reflexivity.
        * destruct (check_skip c s r >=? 0) eqn:Ecs.
          -- (* not skippable: print the pending ENTRY, go on with the main loop *)
             assert (Gu : GI (update_entry s)).
             { unfold GI, update_entry, set_disp. cbn [started outc below disp]. repeat split; auto. lia. }
             assert (Du : dcons (stack_count (update_entry s)) [r]) by exact D1.
             pose proof (normal_step (update_entry s) r Gu Du) as N.
             replace (match r_type r with
                      | ENTRY => let '(sm', o) := rp_normal c (update_entry s) r in (sm', mkev false e d :: o)
                      | EXIT => if r_depth r =? r_depth e
                                then (fstack_exit c (consume c s r), Normal, [mkev false e d; mkev true r d])
                                else let '(sm', o) := rp_normal c (update_entry s) r in (sm', mkev false e d :: o)
                      end)
               with (let '(sm', o) := rp_normal c (update_entry s) r in (sm', mkev false e d :: o)).
             2:{ destruct (r_type r); [reflexivity|]. assert (E : (r_depth r =? r_depth e) = false) by lia.
                 rewrite E. reflexivity. }
             destruct (rp_normal c (update_entry s) r) as [[s' m'] o].
             destruct (std_step c (update_entry s) r) as [ss' os].
             destruct N as (No & NR & NG & Nc).
             assert (D' : dcons (stack_count s') rs).
             { rewrite Nc. cbn [dcons] in D. change (stack_count (update_entry s)) with (stack_count s).
               destruct (r_type r); intuition. }
             specialize (IH s' m' ss' NG NR D').
             destruct (run_steps (rp_step c) (s', m') rs) as [smr o_r].
             destruct (run_steps (std_step c) ss' rs) as [ss2 o_s].
             cbn [pendout app]. rewrite <- app_assoc, IH, app_assoc, No. reflexivity.
          -- (* swallowed by fstack_skip *)
             cbn [dcons] in D. destruct (r_type r) eqn:Hr.
             ++ destruct D as [Hd D'].
                pose proof (check_skip_entry c s r Hs Hr Ecs) as Hfail.
                pose proof (do_entry_shape c s r Hs Hr) as (sl & Hb1 & _).
                pose proof (do_entry_GI c s r G Hr) as G1.
                pose proof (do_entry_fail c s r Hs Hr Hfail) as (Hd1 & Hds1).
                unfold std_step at 1. rewrite (consume_shift c s r Hs). unfold std_body. rewrite Hr.
                assert (Hdsc : disp_set (consume c s r) = true).
                { unfold consume. rewrite Hs, Hr. exact Hds. }
                rewrite (fstack_entry_shift c (consume c s r) r Hdsc).
                unfold do_entry in *. destruct (fstack_entry c (consume c s r) r) as [s2 ok]. cbn [fst snd] in *.
                subst ok.
                assert (Hc2 : stack_count s2 = stack_count s + 1)
                  by (unfold stack_count; rewrite Hb1; cbn [length]; lia).
                assert (D2 : dcons (stack_count s2) rs) by (rewrite Hc2; exact D').
                destruct (enabled s2) eqn:En2.
                ** assert (R2 : Rel s2 (Skipping e d) (update_entry s2)).
                   { cbn [Rel]. split; [reflexivity|]. unfold SkipInv. repeat split; auto; try congruence.
                     exists (sl :: extra), sle, rest. rewrite Hb1, Hb. repeat split; auto. }
                   specialize (IH s2 (Skipping e d) (update_entry s2) G1 R2 D2).
                   destruct (run_steps (rp_step c) (s2, Skipping e d) rs) as [smr o_r].
                   destruct (run_steps (std_step c) (update_entry s2) rs) as [ss2 o_s].
                   cbn [pendout app] in *. exact IH.
                ** assert (Gu : GI (update_entry s2)).
                   { destruct G1 as (A & B & C & D0). unfold GI, update_entry, set_disp.
                     cbn [started outc below disp]. repeat split; auto. lia. }
                   specialize (IH (update_entry s2) Normal (update_entry s2) Gu eq_refl D2).
                   destruct (run_steps (rp_step c) (update_entry s2, Normal) rs) as [smr o_r].
                   destruct (run_steps (std_step c) (update_entry s2) rs) as [ss2 o_s].
                   cbn [pendout app] in *. rewrite IH. reflexivity.
             ++ destruct D as (Hd & Hpos & D').
                assert (Hx : exists x extra', extra = x :: extra').
                { destruct extra as [|x extra']; [cbn [length] in Hcnt; lia|eauto]. }
                destruct Hx as (x & extra' & ->). cbn [app] in Hb.
                (* the slot on top is NORECORD *)
                assert (Hxn : sl_norecord x = true).
                { unfold check_skip in Ecs. rewrite Hr, Hb in Ecs.
                  destruct (outc s >? 0) eqn:Eo.
                  - rewrite Hb in Hok, Houtc. cbn [nt_ok] in Hok. destruct Hok as (H1 & _). apply H1. lia.
                  - destruct (sl_norecord x); [reflexivity|]. cbn in Ecs. discriminate. }
                assert (Hcons : consume c s r = set_stacks s (extra' ++ sle :: rest) (x :: above s)).
                { unfold consume. rewrite Hs, Hr, Hb. reflexivity. }
                unfold std_step at 1. rewrite (consume_shift c s r Hs). unfold std_body. rewrite Hr.
                assert (Htop : top_above c (update_entry (consume c s r)) = x) by (rewrite Hcons; reflexivity).
                rewrite Htop, Hxn. cbn [orb]. rewrite fstack_exit_shift.
                assert (G2 : GI (fstack_exit c (consume c s r))).
                { apply (do_exit_GI c s r G Hr). rewrite Hb. discriminate. }
                assert (En2 : enabled (fstack_exit c (consume c s r)) = true) by (rewrite Hcons; exact He).
                rewrite En2.
                assert (Hc2 : stack_count (fstack_exit c (consume c s r)) = stack_count s - 1).
                { rewrite Hcons. unfold stack_count. cbn [fstack_exit below set_stacks]. rewrite Hb.
                  cbn [length]. lia. }
                assert (D2 : dcons (stack_count (fstack_exit c (consume c s r))) rs) by (rewrite Hc2; exact D').
                assert (R2 : Rel (fstack_exit c (consume c s r)) (Skipping e d)
                                 (update_entry (fstack_exit c (consume c s r)))).
                { cbn [Rel]. split; [reflexivity|]. unfold SkipInv. rewrite Hcons.
                  cbn [fstack_exit enabled disp_set disp below set_stacks]. repeat split; auto.
                  exists extra', sle, rest. repeat split; auto. }
                specialize (IH _ (Skipping e d) _ G2 R2 D2).
                destruct (run_steps (rp_step c) (fstack_exit c (consume c s r), Skipping e d) rs) as [smr o_r].
                destruct (run_steps (std_step c) (update_entry (fstack_exit c (consume c s r))) rs) as [ss2 o_s].
                cbn [pendout app] in *. exact IH.
  Qed.

  (* one record read by fstack_skip() while an ENTRY is pending, against the other loop one step ahead *)
  Lemma skip_step s e d r : GI s -> SkipInv s e d -> dcons (stack_count s) [r] ->
    let '((s', m'), o) := rp_step c (s, Skipping e d) r in
    let '(ss', os) := std_step c (update_entry s) r in
    o ++ pendout m' = mkev false e d :: os /\ Rel s' m' ss' /\ GI s'
    /\ stack_count s' = match r_type r with ENTRY => stack_count s + 1 | EXIT => stack_count s - 1 end.
  Proof.
    intros G (He & Hds & Hdd & extra & sle & rest & Hb & Hlen & Hnr) D.
    pose proof G as (Hs & Houtc & Hok & Hdisp).
    assert (Hcnt : stack_count s = Z.of_nat (length extra) + 1 + r_depth e).
    { unfold stack_count. rewrite Hb, app_length. cbn [length]. lia. }
    cbn [rp_step]. rewrite (Hplt (r_fn r)).
    destruct (r_depth r <=? r_depth e) eqn:Ele.
    - cbn [dcons] in D. destruct (r_type r) eqn:Hr; [destruct D as [Hd _]; lia|].
      destruct D as (Hd & Hpos & _).
      assert (Hx : extra = []) by (destruct extra; [reflexivity|cbn [length] in Hcnt; lia]).
      subst extra. cbn [app] in Hb.
      assert (Eeq : (r_depth r =? r_depth e) = true) by lia. rewrite Eeq.
      unfold std_step. rewrite (consume_shift c s r Hs). unfold std_body. rewrite Hr.
      assert (Hcons : consume c s r = set_stacks s rest (sle :: above s)).
      { unfold consume. rewrite Hs, Hr, Hb. reflexivity. }
      assert (Htop : top_above c (update_entry (consume c s r)) = sle) by (rewrite Hcons; reflexivity).
      rewrite Htop, Hnr. cbn [orb]. rewrite (Hplt (r_fn r)).
      assert (Hen : enabled (update_entry (consume c s r)) = true) by (rewrite Hcons; exact He).
      rewrite Hen. cbn [negb].
      assert (Hue : update_exit (update_entry (consume c s r)) = consume c s r).
      { rewrite Hcons. unfold update_exit, update_entry, set_disp, set_stacks. zsimp. rewrite Hds.
        assert (E : (disp s + 1 >? 0) = true) by lia. rewrite E.
        destruct s; cbn in *. subst. f_equal. lia. }
      rewrite Hue.
      assert (G' : GI (fstack_exit c (consume c s r))).
      { apply (do_exit_GI c s r G Hr). rewrite Hb. discriminate. }
      replace (disp (consume c s r)) with d by (rewrite Hcons; cbn; congruence).
      split; [reflexivity|]. split; [reflexivity|]. split; [exact G'|].
      rewrite Hcons. unfold stack_count. cbn [fstack_exit below set_stacks]. rewrite Hb. cbn [length]. lia.
    - destruct (check_skip c s r >=? 0) eqn:Ecs.
      + assert (Gu : GI (update_entry s)).
        { unfold GI, update_entry, set_disp. cbn [started outc below disp]. repeat split; auto. lia. }
        pose proof (normal_step (update_entry s) r Gu D) as N.
        replace (match r_type r with
                 | ENTRY => let '(sm', o) := rp_normal c (update_entry s) r in (sm', mkev false e d :: o)
                 | EXIT => if r_depth r =? r_depth e
                           then (fstack_exit c (consume c s r), Normal, [mkev false e d; mkev true r d])
                           else let '(sm', o) := rp_normal c (update_entry s) r in (sm', mkev false e d :: o)
                 end)
          with (let '(sm', o) := rp_normal c (update_entry s) r in (sm', mkev false e d :: o)).
        2:{ destruct (r_type r); [reflexivity|]. assert (E : (r_depth r =? r_depth e) = false) by lia.
            rewrite E. reflexivity. }
        destruct (rp_normal c (update_entry s) r) as [[s' m'] o].
        destruct (std_step c (update_entry s) r) as [ss' os].
        destruct N as (No & NR & NG & Nc).
        split; [cbn [app]; rewrite No; reflexivity|]. split; [exact NR|]. split; [exact NG|exact Nc].
      + cbn [dcons] in D. destruct (r_type r) eqn:Hr.
        * destruct D as [Hd _].
          pose proof (check_skip_entry c s r Hs Hr Ecs) as Hfail.
          pose proof (do_entry_shape c s r Hs Hr) as (sl & Hb1 & _).
          pose proof (do_entry_GI c s r G Hr) as G1.
          pose proof (do_entry_fail c s r Hs Hr Hfail) as (Hd1 & Hds1).
          unfold std_step. rewrite (consume_shift c s r Hs). unfold std_body. rewrite Hr.
          assert (Hdsc : disp_set (consume c s r) = true).
          { unfold consume. rewrite Hs, Hr. exact Hds. }
          rewrite (fstack_entry_shift c (consume c s r) r Hdsc).
          unfold do_entry in *. destruct (fstack_entry c (consume c s r) r) as [s2 ok]. cbn [fst snd] in *.
          subst ok.
          assert (Hc2 : stack_count s2 = stack_count s + 1)
            by (unfold stack_count; rewrite Hb1; cbn [length]; lia).
          destruct (enabled s2) eqn:En2.
          -- split; [reflexivity|]. split; [|split; assumption].
             cbn [Rel]. split; [reflexivity|]. unfold SkipInv. repeat split; auto; try congruence.
             exists (sl :: extra), sle, rest. rewrite Hb1, Hb. repeat split; auto.
          -- split; [reflexivity|]. split; [reflexivity|]. split; [|exact Hc2].
             destruct G1 as (A & B & C & D0). unfold GI, update_entry, set_disp.
             cbn [started outc below disp]. repeat split; auto. lia.
        * destruct D as (Hd & Hpos & _).
          assert (Hx : exists x extra', extra = x :: extra').
          { destruct extra as [|x extra']; [cbn [length] in Hcnt; lia|eauto]. }
          destruct Hx as (x & extra' & ->). cbn [app] in Hb.
          assert (Hxn : sl_norecord x = true).
          { unfold check_skip in Ecs. rewrite Hr, Hb in Ecs.
            destruct (outc s >? 0) eqn:Eo.
            - rewrite Hb in Hok, Houtc. cbn [nt_ok] in Hok. destruct Hok as (H1 & _). apply H1. lia.
            - destruct (sl_norecord x); [reflexivity|]. cbn in Ecs. discriminate. }
          assert (Hcons : consume c s r = set_stacks s (extra' ++ sle :: rest) (x :: above s)).
          { unfold consume. rewrite Hs, Hr, Hb. reflexivity. }
          unfold std_step. rewrite (consume_shift c s r Hs). unfold std_body. rewrite Hr.
          assert (Htop : top_above c (update_entry (consume c s r)) = x) by (rewrite Hcons; reflexivity).
          rewrite Htop, Hxn. cbn [orb]. rewrite fstack_exit_shift.
          assert (G2 : GI (fstack_exit c (consume c s r))).
          { apply (do_exit_GI c s r G Hr). rewrite Hb. discriminate. }
          assert (En2 : enabled (fstack_exit c (consume c s r)) = true) by (rewrite Hcons; exact He).
          rewrite En2.
          assert (Hc2 : stack_count (fstack_exit c (consume c s r)) = stack_count s - 1).
          { rewrite Hcons. unfold stack_count. cbn [fstack_exit below set_stacks]. rewrite Hb.
            cbn [length]. lia. }
          split; [reflexivity|]. split; [|split; assumption].
          cbn [Rel]. split; [reflexivity|]. unfold SkipInv. rewrite Hcons.
          cbn [fstack_exit enabled disp_set disp below set_stacks]. repeat split; auto.
          exists extra', sle, rest. repeat split; auto.
  Qed.

  (* a record that fstack_check_skip() lets pass unseen is invisible to the other loop as well *)
  Lemma swallow_std s r : GI s -> dcons (stack_count s) [r] -> (check_skip c s r >=? 0) = false ->
    let s2 := match r_type r with ENTRY => fst (fstack_entry c (consume c s r) r) | EXIT => fstack_exit c (consume c s r) end in
    std_step c s r = (s2, []) /\ GI s2
    /\ stack_count s2 = match r_type r with ENTRY => stack_count s + 1 | EXIT => stack_count s - 1 end.
  Proof.
    intros G D Ecs. pose proof G as (Hs & Houtc & Hok & Hdisp). cbn [dcons] in D.
    unfold std_step, std_body. destruct (r_type r) eqn:Hr.
    - pose proof (check_skip_entry c s r Hs Hr Ecs) as Hfail.
      pose proof (do_entry_shape c s r Hs Hr) as (sl & Hb1 & _).
      pose proof (do_entry_GI c s r G Hr) as G1.
      unfold do_entry in *. destruct (fstack_entry c (consume c s r) r) as [s2 ok]. cbn [fst snd] in *. subst ok.
      split; [reflexivity|]. split; [exact G1|]. unfold stack_count. rewrite Hb1. cbn [length]. lia.
    - destruct D as (Hd & Hpos & _).
      destruct (below s) as [|x b] eqn:Hb; [unfold stack_count in Hpos; rewrite Hb in Hpos; cbn in Hpos; lia|].
      assert (Hxn : sl_norecord x = true).
      { unfold check_skip in Ecs. rewrite Hr, Hb in Ecs.
        destruct (outc s >? 0) eqn:Eo.
        - cbn [nt_ok] in Hok. destruct Hok as (H1 & _). apply H1. lia.
        - destruct (sl_norecord x); [reflexivity|]. cbn in Ecs. discriminate. }
      assert (Hcons : consume c s r = set_stacks s b (x :: above s)).
      { unfold consume. rewrite Hs, Hr, Hb. reflexivity. }
      assert (Htop : top_above c (consume c s r) = x) by (rewrite Hcons; reflexivity).
      rewrite Htop, Hxn. cbn [orb].
      split; [reflexivity|]. split; [apply (do_exit_GI c s r G Hr); rewrite Hb; discriminate|].
      rewrite Hcons. unfold stack_count. cbn [fstack_exit below set_stacks]. rewrite Hb. cbn [length]. lia.
  Qed.
End Sim.

(* ------------------------------------------------------------------ from the initial state *)
Definition first_count (r : rec) : Z := match r_type r with ENTRY => r_depth r | EXIT => r_depth r + 1 end.
Definition dcons0 (rs : list rec) : Prop :=
  match rs with [] => True | r :: _ => 0 <= first_count r /\ dcons (first_count r) rs end.

Definition sinit (c : cfg) (n : Z) : st :=
  {| below := repeat (dslot c) (Z.to_nat n); above := []; inc := 0; outc := 0; fdepth := gdepth c;
     enabled := true; disp := 0; disp_set := (range_start c =? 0)%N; started := true |}.

Lemma consume_st0 c r : consume c (st0 c) r = consume c (sinit c (first_count r)) r.
Proof. unfold consume, st0, sinit, first_count. cbn [started]. destruct (r_type r); reflexivity. Qed.

Lemma nt_repeat c k : nt_count (repeat (dslot c) k) = 0 /\ nt_ok (repeat (dslot c) k).
Proof.
  induction k as [|k [IH1 IH2]]; cbn [repeat nt_count nt_ok]; [split; [reflexivity|exact I]|].
  cbn [dslot sl_notrace sl_norecord sl_filtered]. rewrite IH1. repeat split; try lia; try discriminate. exact IH2.
Qed.

Lemma sinit_GI c n : GI (sinit c n).
Proof.
  unfold GI, sinit. cbn [started outc below disp]. destruct (nt_repeat c (Z.to_nat n)) as [H1 H2].
  repeat split; auto. lia.
Qed.

Lemma sinit_count c n : 0 <= n -> stack_count (sinit c n) = n.
Proof. intro H. unfold stack_count, sinit. cbn [below]. rewrite repeat_length. lia. Qed.

Lemma rp_eq_std_stream c rs : plt_free_all c -> dcons0 (pre c rs) -> run_rp c rs = run_std c rs.
Proof.
  intros Hp Hd. destruct (no_merge c) eqn:Hm; [apply rp_nomerge_eq_std; assumption|].
  unfold run_rp, run_std. destruct (pre c rs) as [|r rest] eqn:Epre; [reflexivity|].
  cbn [dcons0] in Hd. destruct Hd as [Hn Hd].
  assert (E1 : rp_step c (st0 c, Normal) r = rp_step c (sinit c (first_count r), Normal) r).
  { cbn [rp_step]. unfold rp_normal. rewrite consume_st0. reflexivity. }
  assert (E2 : std_step c (st0 c) r = std_step c (sinit c (first_count r)) r).
  { unfold std_step. rewrite consume_st0. reflexivity. }
  pose proof (sim c Hp Hm (r :: rest) (sinit c (first_count r)) Normal (sinit c (first_count r))
                  (sinit_GI c _) eq_refl) as S.
  rewrite (sinit_count c _ Hn) in S. specialize (S Hd).
  cbn [run_steps] in *. rewrite E1, E2.
  destruct (rp_step c (sinit c (first_count r), Normal) r) as [sm1 o1].
  destruct (std_step c (sinit c (first_count r)) r) as [ss1 os1].
  destruct (run_steps (rp_step c) sm1 rest) as [smr o_r].
  destruct (run_steps (std_step c) ss1 rest) as [ss2 o_s].
  cbn [pendout app snd] in *. exact S.
Qed.

(* recordings of call forests are depth consistent *)
Lemma dcons_call : forall n d rs, 0 <= d -> dcons d rs -> dcons d (flat d n ++ rs).
Proof.
  induction n as [f t0 t1 ks IH] using call_ind'. intros d rs Hd0 Hrs.
  cbn [flat app dcons r_type r_depth]. split; [reflexivity|].
  rewrite <- app_assoc.
  assert (K : forall rs', dcons (d + 1) rs' -> dcons (d + 1) (flat_map (flat (d + 1)) ks ++ rs')).
  { clear Hrs. induction IH as [|k ks Hk _ IHks]; intros rs' H; [exact H|].
    cbn [flat_map]. rewrite <- app_assoc. apply Hk; [lia|]. apply IHks. exact H. }
  apply K. cbn [app dcons r_type r_depth]. replace (d + 1 - 1) with d by lia.
  repeat split; try lia. exact Hrs.
Qed.

Lemma dcons_forest f d : 0 <= d -> dcons d (flats d f).
Proof.
  intro Hd. unfold flats. induction f as [|n f IH]; [exact I|]. cbn [flat_map]. apply dcons_call; assumption.
Qed.

Lemma rp_eq_std_forest c f : plt_free_all c -> no_range c = true ->
  run_rp c (flats 0 f) = run_std c (flats 0 f).
Proof.
  intros Hp Hr. apply rp_eq_std_stream; [assumption|]. rewrite (pre_forest c f Hr).
  pose proof (dcons_forest (flat_map (tprune c (threshold c)) f) 0 (Z.le_refl 0)) as D.
  destruct (flats_head 0 (flat_map (tprune c (threshold c)) f)) as [->|(t & fn & rest & E)]; [exact I|].
  rewrite E in *. cbn [dcons0 first_count r_type r_depth]. split; [lia|exact D].
Qed.

Lemma replay_matches_select c f : plt_free_all c -> no_switch_all c -> no_range c = true ->
  run_rp c (flats 0 f) = select c f.
Proof. intros Hp Hs Hr. rewrite rp_eq_std_forest by assumption. apply std_matches_select; assumption. Qed.

(* ------------------------------------------------------------------ the hypotheses are satisfiable *)
Lemma libcall_plt_free c : libcall c = true -> plt_free_all c.
Proof. intros H f. unfold hidden_plt. rewrite H. reflexivity. Qed.

Example hyps_plain : plt_free_all plain /\ no_switch_all plain /\ no_range plain = true.
Proof. split; [apply libcall_plt_free; reflexivity|]. split; [intro f; split; reflexivity|reflexivity]. Qed.

Lemma assoc_switch_free tr : forallb (fun p => negb (q_trace_on (snd p)) && negb (q_trace_off (snd p))) tr = true ->
  forall f, q_trace_on (assoc notrig tr f) = false /\ q_trace_off (assoc notrig tr f) = false.
Proof.
  induction tr as [|[k v] tr IH]; intros H f; cbn [assoc]; [split; reflexivity|].
  cbn [forallb snd] in H. apply andb_prop in H. destruct H as [H1 H2].
  destruct (f =? k)%N; [|apply IH; exact H2].
  apply andb_prop in H1. destruct H1 as [A B]. destruct (q_trace_on v), (q_trace_off v); cbn in *; try discriminate.
  split; reflexivity.
Qed.

Example hyps_filter_depth_time :
  let c := mkcfg [(0%N, RecordReplay.tF); (1%N, RecordReplay.tD1); (2%N, RecordReplay.tT300)] true false 3 100 0 0 [] true false in
  plt_free_all c /\ no_switch_all c /\ no_range c = true.
Proof.
  cbn zeta. split; [apply libcall_plt_free; reflexivity|]. split; [|reflexivity].
  intro f. unfold mkcfg. cbn [trig_of]. apply assoc_switch_free. reflexivity.
Qed.

(* -L (source location filter): the theorems above hold with it; an option set that uses it *)
Example hyps_loc :
  let c := mkcfgL [(4%N, {| q_filter := None; q_depth := Some 1; q_time := None; q_trace_on := false; q_trace_off := false;
                           q_trace := false; q_caller := false; q_hide := false |})]
                  false false 3 0 0 0 [] true false [(1%N, true); (2%N, true); (4%N, true); (3%N, false)] in
  let f := [Call 0 1000 2000 [Call 1 1100 1500 [Call 2 1200 1400 [Call 3 1250 1300 []]]; Call 4 1600 1700 [Call 2 1610 1620 []]]] in
  plt_free_all c /\ no_switch_all c /\ no_range c = true
  /\ map ob_nd (select c f) = [(false, 1%N, 0); (false, 2%N, 1); (true, 2%N, 1); (true, 1%N, 0); (false, 4%N, 0); (true, 4%N, 0)].
Proof.
  cbn zeta. split; [apply libcall_plt_free; reflexivity|]. split; [|split; [reflexivity|vm_compute; reflexivity]].
  intro f. unfold mkcfgL. cbn [trig_of]. apply assoc_switch_free. reflexivity.
Qed.
