(* C07 - proofs about the replay-side model: the look-ahead filter is the tree pruning [tprune]
   (by induction on call forests with an invariant on the pending list and the time= stack). *)
From Coq Require Import NArith ZArith List Bool Lia.
Import ListNotations.
Require Import ZifyBool ZifyN.
Require Import UV.C07.Model.
Local Open Scope Z_scope.

(* ------------------------------------------------------------------ nested induction on call trees *)
Section call_ind.
  Variable P : call -> Prop.
  Hypothesis H : forall f t0 t1 ks, Forall P ks -> P (Call f t0 t1 ks).
  Fixpoint call_ind' (c : call) : P c :=
    match c with
    | Call f t0 t1 ks =>
        H f t0 t1 ks ((fix go (l : list call) : Forall P l :=
                         match l with
                         | [] => Forall_nil _
                         | x :: t => Forall_cons _ (call_ind' x) (go t)
                         end) ks)
    end.
End call_ind.

Lemma flat_map_app' {A B} (f : A -> list B) l1 l2 : flat_map f (l1 ++ l2) = flat_map f l1 ++ flat_map f l2.
Proof. apply flat_map_app. Qed.

(* ------------------------------------------------------------------ P1: look-ahead filter = tprune *)
Definition is_nil {A} (l : list A) : bool := match l with [] => true | _ => false end.

Lemma tprune_shape c thr n : tprune c thr n = [] \/ exists n', tprune c thr n = [n'].
Proof.
  destruct n as [f t0 t1 ks]. cbn [tprune].
  match goal with |- context [if ?b then _ else _] => destruct b end; eauto.
Qed.

Definition la_post (c : cfg) (d : Z) (l : list call) (rs pend : list rec) (tfs : list (Z * N)) : list rec :=
  if is_nil l then lookahead c rs pend tfs
  else rev pend ++ flats d l ++ lookahead c rs [] tfs.

Definition la_call_stmt (c : cfg) (n : call) : Prop :=
  forall d rs pend tfs, Forall (fun e => fst e < d) tfs ->
    lookahead c (flat d n ++ rs) pend tfs = la_post c d (tprune c (tfs_thr c tfs) n) rs pend tfs.

Lemma la_kids c ks : Forall (la_call_stmt c) ks ->
  forall d rs pend tfs, Forall (fun e => fst e < d) tfs ->
    lookahead c (flat_map (flat d) ks ++ rs) pend tfs
    = la_post c d (flat_map (tprune c (tfs_thr c tfs)) ks) rs pend tfs.
Proof.
  induction 1 as [|k ks Hk _ IH]; intros d rs pend tfs Ht.
  - reflexivity.
  - cbn [flat_map]. rewrite <- app_assoc. rewrite (Hk d _ pend tfs Ht).
    unfold la_post at 1.
    destruct (tprune_shape c (tfs_thr c tfs) k) as [E|[k' E]]; rewrite E; cbn [is_nil app].
    + apply IH; assumption.
    + rewrite (IH d rs [] tfs Ht). unfold la_post, flats.
      destruct (flat_map (tprune c (tfs_thr c tfs)) ks) as [|x l] eqn:E2; cbn [is_nil].
      * cbn [flat_map]. rewrite app_nil_r. reflexivity.
      * cbn [rev app flat_map]. rewrite <- !app_assoc. reflexivity.
Qed.

Lemma la_call c : forall n, la_call_stmt c n.
Proof.
  induction n as [f t0 t1 ks IH] using call_ind'. intros d rs pend tfs Ht.
  cbn [flat]. cbn [app]. cbn [lookahead r_fn r_type r_depth r_time].
  set (tr := trig_of c f).
  set (th := match q_time tr with Some t => t | None => tfs_thr c tfs end).
  set (tfs1 := match q_time tr with Some _ => (d, th) :: tfs | None => tfs end).
  assert (Hth : tfs_thr c tfs1 = th).
  { unfold tfs1, th. destruct (q_time tr); reflexivity. }
  assert (Ht1 : Forall (fun e => fst e < d + 1) tfs1).
  { unfold tfs1. destruct (q_time tr).
    - constructor; [cbn; lia|]. eapply Forall_impl; [|exact Ht]. cbn. intros; lia.
    - eapply Forall_impl; [|exact Ht]. cbn. intros; lia. }
  rewrite <- app_assoc.
  rewrite (la_kids c ks IH (d + 1) _ _ tfs1 Ht1). rewrite Hth.
  cbn [tprune]. fold tr. fold th.
  set (ks' := flat_map (tprune c th) ks).
  (* what the EXIT does to the time= stack *)
  assert (Hpop : match tfs1 with
                 | (d', _) :: rest => if d' =? d then rest else tfs1
                 | [] => []
                 end = tfs).
  { unfold tfs1. destruct (q_time tr).
    - rewrite Z.eqb_refl. reflexivity.
    - destruct tfs as [|[d' th'] rest]; [reflexivity|].
      inversion Ht as [|? ? Hd _]; subst. cbn in Hd.
      destruct (d' =? d) eqn:Ed; [lia|reflexivity]. }
  unfold la_post at 1.
  destruct ks' as [|k1 kr] eqn:Eks; cbn [is_nil].
  - (* no child survives: the ENTRY is still pending when the EXIT is read *)
    cbn [app]. cbn [lookahead r_fn r_type r_depth r_time]. fold tr. rewrite Hth. fold th.
    replace (match q_time tr with Some t => t | None => th end) with th
      by (unfold th; destruct (q_time tr); reflexivity).
    rewrite Hpop. cbn [negb andb orb].
    destruct ((tdelta t1 t0 <? th)%N || caller_filter c && negb (q_caller tr)) eqn:Ef.
    + (* filtered by time or -C *)
      assert (El : negb (tdelta t1 t0 <? th)%N && (negb (caller_filter c) || q_caller tr) = false).
      { destruct (tdelta t1 t0 <? th)%N, (caller_filter c), (q_caller tr); cbn in *; congruence. }
      rewrite El. cbn [orb andb].
      destruct (q_trace tr); cbn [negb orb andb is_nil la_post].
      * unfold la_post. cbn [is_nil rev flats flat_map flat app].
        rewrite <- ?app_assoc; cbn [app]; rewrite ?app_nil_r; reflexivity.
      * unfold la_post. cbn [is_nil]. reflexivity.
    + assert (El : negb (tdelta t1 t0 <? th)%N && (negb (caller_filter c) || q_caller tr) = true).
      { destruct (tdelta t1 t0 <? th)%N, (caller_filter c), (q_caller tr); cbn in *; congruence. }
      rewrite El. cbn [orb andb].
      unfold la_post. cbn [is_nil rev flats flat_map flat app].
      rewrite <- ?app_assoc; cbn [app]; rewrite ?app_nil_r; reflexivity.
  - (* a child survived: the list was flushed, the EXIT finds no pending ENTRY *)
    cbn [app]. cbn [lookahead r_fn r_type r_depth r_time]. fold tr.
    rewrite Hpop. cbn [negb]. rewrite orb_true_r.
    unfold la_post. cbn [is_nil rev flats flat_map flat app].
    rewrite <- ?app_assoc; cbn [app]; rewrite ?app_nil_r; rewrite <- ?app_assoc; reflexivity.
Qed.

Lemma lookahead_forest c f d :
  lookahead c (flats d f) [] [] = flats d (flat_map (tprune c (threshold c)) f).
Proof.
  assert (Hall : Forall (la_call_stmt c) f) by (apply Forall_forall; intros n _; apply la_call).
  pose proof (la_kids c f Hall d [] [] [] (Forall_nil _)) as H.
  rewrite app_nil_r in H. unfold flats. rewrite H. unfold la_post. cbn [tfs_thr].
  destruct (flat_map (tprune c (threshold c)) f); cbn [is_nil]; [reflexivity|].
  cbn [rev app lookahead]. rewrite app_nil_r. reflexivity.
Qed.

(* no source-location filter (-L) *)
Definition loc_free_all (c : cfg) : Prop := (forall f, loc_of c f = None) /\ lmode_in c = false.
Lemma loc_free_hidden c f : loc_free_all c -> loc_hidden c f = false.
Proof. intros [A B]. unfold loc_hidden. rewrite A, B. reflexivity. Qed.

(* ------------------------------------------------------------------ P2: the filter automaton = vis *)
Lemma run_steps_cons {S} (step : S -> rec -> S * list vev) s r rs :
  run_steps step s (r :: rs) =
  let '(s1, o1) := step s r in let '(s2, o2) := run_steps step s1 rs in (s2, o1 ++ o2).
Proof. reflexivity. Qed.

Lemma run_steps_app {S} (step : S -> rec -> S * list vev) l1 : forall s l2,
  run_steps step s (l1 ++ l2) =
  let '(s1, o1) := run_steps step s l1 in let '(s2, o2) := run_steps step s1 l2 in (s2, o1 ++ o2).
Proof.
  induction l1 as [|r l1 IH]; intros s l2.
  - cbn. destruct (run_steps step s l2); reflexivity.
  - cbn [app run_steps]. destruct (step s r) as [s1 o1]. rewrite IH.
    destruct (run_steps step s1 l1) as [s2 o2]. destruct (run_steps step s2 l2) as [s3 o3].
    rewrite app_assoc. reflexivity.
Qed.

Definition core (s : st) := (below s, inc s, outc s, fdepth s, enabled s, disp s, disp_set s, started s).
Definition good (s : st) : Prop :=
  started s = true /\ enabled s = true /\ disp_set s = true /\ 0 <= disp s /\ 0 <= inc s /\ 0 <= outc s.
Definition no_switch_all (c : cfg) : Prop :=
  forall f, q_trace_on (trig_of c f) = false /\ q_trace_off (trig_of c f) = false.

Definition std_out (c : cfg) (s : st) (rd : Z) (l : list call) : list vev :=
  if outc s >? 0 then [] else flat_map (vis c (0 <? inc s) (fdepth s) (disp s) rd) l.

Definition std_call_stmt (c : cfg) (n : call) : Prop :=
  forall rd s, good s ->
    exists s', run_steps (std_step c) s (flat rd n) = (s', std_out c s rd [n]) /\ core s' = core s.

Lemma good_core s s' : core s' = core s -> good s -> good s'.
Proof. unfold core, good. intros H G. inversion H. repeat match goal with H : _ = _ |- _ => rewrite H end. exact G. Qed.

Lemma std_out_core c s s' rd l : core s' = core s -> std_out c s' rd l = std_out c s rd l.
Proof. unfold core, std_out. intros H. inversion H. repeat match goal with H : _ = _ |- _ => rewrite H end. reflexivity. Qed.

Lemma std_kids c ks : Forall (std_call_stmt c) ks ->
  forall rd s, good s ->
    exists s', run_steps (std_step c) s (flat_map (flat rd) ks) = (s', std_out c s rd ks) /\ core s' = core s.
Proof.
  induction 1 as [|k ks Hk _ IH]; intros rd s G.
  - exists s. split; [|reflexivity]. unfold std_out. cbn. destruct (outc s >? 0); reflexivity.
  - cbn [flat_map]. rewrite run_steps_app.
    destruct (Hk rd s G) as (s1 & R1 & C1). rewrite R1.
    destruct (IH rd s1 (good_core _ _ C1 G)) as (s2 & R2 & C2). rewrite R2.
    exists s2. split; [|congruence].
    rewrite (std_out_core c s s1 rd ks C1). unfold std_out. destruct (outc s >? 0); [reflexivity|].
    cbn [flat_map]. rewrite app_nil_r. reflexivity.
Qed.

Ltac kids_then_exit HK :=
  rewrite run_steps_app;
  match goal with
  | |- context [run_steps (std_step ?c) ?s1 (flat_map _ ?ks)] =>
      let s2 := fresh "s2" in let R2 := fresh "R2" in let C2 := fresh "C2" in
      destruct (HK s1) as (s2 & R2 & C2);
      [ unfold good; cbn [started enabled disp_set disp inc outc]; repeat split; lia
      | rewrite R2; destruct s2; unfold core in C2;
        cbn [below above inc outc fdepth enabled disp disp_set started] in C2; inversion C2; subst;
        unfold std_out; cbn [inc outc fdepth disp];
        rewrite run_steps_cons; unfold std_step at 1, std_body at 1;
        unfold fstack_exit, update_exit, consume, top_above, set_stacks, set_disp, stack_count;
        cbn -[Z.add Z.sub Z.leb Z.gtb Z.eqb Z.ltb Z.max run_steps flat_map vis] ]
  end.
Ltac close_branch :=
  cbn [run_steps]; rewrite ?Z.add_simpl_r; change (0 >? 0) with false; change (0 + 1 >? 0) with true;
  eexists; split;
  [ rewrite ?app_nil_r; cbn [app]; rewrite ?app_nil_r | ].

Lemma std_call c (Hns : no_switch_all c) : forall n, std_call_stmt c n.
Proof.
  induction n as [f t0 t1 ks IH] using call_ind'. intros rd s G.
  pose proof (std_kids c ks IH (rd + 1)) as HK.
  destruct s as [b a i o fd en dd ds stt]. destruct G as (Gs & Ge & Gd & Gdd & Gi & Go).
  cbn [started enabled disp_set disp inc outc] in Gs, Ge, Gd, Gdd, Gi, Go. subst stt en ds.
  destruct (Hns f) as [Hon Hoff].
  cbn [flat]. rewrite run_steps_cons.
  unfold std_out. cbn [outc inc fdepth disp flat_map vis]. rewrite app_nil_r.
  unfold std_step at 1. unfold std_body at 1. unfold fstack_entry, consume, top_above, set_stacks, stack_count.
  cbn -[Z.add Z.sub Z.leb Z.gtb Z.eqb Z.ltb Z.max run_steps flat_map vis].
  rewrite Hon, Hoff.
  destruct (o >? 0) eqn:Eo.
  - (* inside a -N function *)
    kids_then_exit HK. rewrite Eo. close_branch; reflexivity.
  - assert (o = 0) by lia. subst o.
    destruct (q_filter (trig_of c f)) as [[|]|] eqn:Ef.
    + (* -F function *)
      cbn [negb andb].
      assert (Ei : (0 <? i + 1) = true) by lia.
      destruct (loc_hidden c f) eqn:El.
      { kids_then_exit HK. close_branch; [rewrite Ei, orb_true_r|]; reflexivity. }
      destruct ((match q_depth (trig_of c f) with Some x => x | None => gdepth c end <=? 0) || q_hide (trig_of c f)) eqn:Eh.
      * kids_then_exit HK. close_branch; [rewrite Ei, orb_true_r|]; reflexivity.
      * cbn [negb]. unfold update_entry, set_disp.
        cbn -[Z.add Z.sub Z.leb Z.gtb Z.eqb Z.ltb Z.max run_steps flat_map vis].
        kids_then_exit HK.
        assert (Ed : (dd + 1 >? 0) = true) by lia. rewrite Ed.
        cbn -[Z.add Z.sub Z.leb Z.gtb Z.eqb Z.ltb Z.max run_steps flat_map vis].
        close_branch; [rewrite Ei, orb_true_r;
          destruct (hidden_plt c f); cbn [app]; rewrite ?app_nil_r, <- ?app_assoc; reflexivity | reflexivity].
    + (* -N function *)
      kids_then_exit HK. close_branch; reflexivity.
    + cbn [negb andb].
      destruct (fmode_in c && (i =? 0)) eqn:Em.
      * (* outside every -F function *)
        assert (Ei : (0 <? i) = false) by lia. rewrite Ei. cbn [negb]. rewrite andb_true_r.
        replace (fmode_in c) with true by (destruct (fmode_in c); cbn in Em; congruence).
        kids_then_exit HK. close_branch; [rewrite Ei|]; reflexivity.
      * assert (Ei : fmode_in c && negb (0 <? i) = false).
        { destruct (fmode_in c); [|reflexivity]. cbn in *. lia. }
        rewrite Ei. rewrite orb_false_r.
        destruct (loc_hidden c f) eqn:El.
        { kids_then_exit HK. close_branch; reflexivity. }
        destruct ((match q_depth (trig_of c f) with Some x => x | None => fd end <=? 0) || q_hide (trig_of c f)) eqn:Eh.
        -- kids_then_exit HK. close_branch; reflexivity.
        -- cbn [negb]. unfold update_entry, set_disp.
           cbn -[Z.add Z.sub Z.leb Z.gtb Z.eqb Z.ltb Z.max run_steps flat_map vis].
           kids_then_exit HK.
           assert (Ed : (dd + 1 >? 0) = true) by lia. rewrite Ed.
           cbn -[Z.add Z.sub Z.leb Z.gtb Z.eqb Z.ltb Z.max run_steps flat_map vis].
           close_branch; [destruct (hidden_plt c f); cbn [app]; rewrite ?app_nil_r, <- ?app_assoc; reflexivity
                         | reflexivity].
Qed.

(* ------------------------------------------------------------------ top level: run_std = select *)
Definition st1 (c : cfg) : st :=
  {| below := []; above := []; inc := 0; outc := 0; fdepth := gdepth c; enabled := true;
     disp := 0; disp_set := (range_start c =? 0)%N; started := true |}.

Lemma flats_head d f : f = [] \/ exists t fn rest, flats d f = {| r_time := t; r_type := ENTRY; r_depth := d; r_fn := fn |} :: rest.
Proof.
  destruct f as [|[fn t0 t1 ks] f']; [left; reflexivity|right].
  unfold flats. cbn [flat_map flat]. eexists _, _, _. cbn [app]. reflexivity.
Qed.

Lemma std_from_st0 c f : f <> [] ->
  run_steps (std_step c) (st0 c) (flats 0 f) = run_steps (std_step c) (st1 c) (flats 0 f).
Proof.
  intro Hne. destruct (flats_head 0 f) as [->|(t & fn & rest & E)]; [congruence|]. rewrite E.
  cbn [run_steps]. reflexivity.
Qed.

Lemma filter_all {A} (p : A -> bool) l : (forall x, p x = true) -> filter p l = l.
Proof. intro H. induction l as [|x l IH]; [reflexivity|]. cbn. rewrite H, IH. reflexivity. Qed.

Lemma pre_forest c f : no_range c = true ->
  pre c (flats 0 f) = flats 0 (flat_map (tprune c (threshold c)) f).
Proof.
  intro Hr. unfold pre. rewrite filter_all.
  - apply lookahead_forest.
  - intro r. unfold in_range. unfold no_range in Hr. apply andb_prop in Hr. destruct Hr as [H1 H2].
    rewrite H1, H2. reflexivity.
Qed.

Lemma st1_good c : no_range c = true -> good (st1 c).
Proof.
  intro Hr. unfold no_range in Hr. apply andb_prop in Hr. destruct Hr as [H1 _].
  unfold good, st1. cbn. rewrite H1. repeat split; lia.
Qed.

Lemma std_forest_run c f : no_switch_all c -> no_range c = true ->
  exists s, run_steps (std_step c) (st0 c) (pre c (flats 0 f)) = (s, select c f) /\ below s = [].
Proof.
  intros Hns Hr. rewrite (pre_forest c f Hr). unfold select.
  set (p := flat_map (tprune c (threshold c)) f).
  destruct p as [|n0 p0] eqn:Ep.
  { exists (st0 c). split; reflexivity. }
  rewrite <- Ep. rewrite std_from_st0 by (rewrite Ep; discriminate).
  assert (Hall : Forall (std_call_stmt c) p) by (apply Forall_forall; intros n _; apply std_call; assumption).
  destruct (std_kids c p Hall 0 (st1 c) (st1_good c Hr)) as (s & R & C).
  exists s. split.
  - unfold flats. rewrite R. reflexivity.
  - unfold core in C. inversion C. reflexivity.
Qed.

Lemma std_matches_select c f : no_switch_all c -> no_range c = true ->
  run_std c (flats 0 f) = select c f.
Proof.
  intros Hns Hr. unfold run_std. destruct (std_forest_run c f Hns Hr) as (s & R & _). rewrite R. reflexivity.
Qed.

Lemma chrome_matches_select c f : no_switch_all c -> no_range c = true ->
  run_chrome c (flats 0 f) = select c f.
Proof.
  intros Hns Hr. unfold run_chrome. destruct (std_forest_run c f Hns Hr) as (s & R & B). rewrite R.
  unfold chrome_close. rewrite B. cbn [flat_map]. apply app_nil_r.
Qed.

Lemma nothing_remains c f : no_switch_all c -> no_range c = true -> remaining c (flats 0 f) = [].
Proof.
  intros Hns Hr. unfold remaining. destruct (std_forest_run c f Hns Hr) as (s & R & B). rewrite R.
  cbn [fst]. rewrite B. reflexivity.
Qed.

(* ------------------------------------------------------------------ P3a: script / replay --no-merge = std *)
Definition plt_free_all (c : cfg) : Prop := forall f, hidden_plt c f = false.

Lemma rp_nomerge_step c s r : plt_free_all c -> no_merge c = true ->
  rp_step c (s, Normal) r = (let '(s', o) := std_step c s r in ((s', Normal), o)).
Proof.
  intros Hp Hm. unfold rp_step, rp_normal, std_step, std_body. rewrite (Hp (r_fn r)).
  destruct (r_type r).
  - destruct (fstack_entry c (consume c s r) r) as [s1 ok]. rewrite Hm. destruct ok; reflexivity.
  - destruct (sl_norecord (top_above c (consume c s r))), (enabled (consume c s r)); reflexivity.
Qed.

Lemma rp_nomerge_run c : plt_free_all c -> no_merge c = true -> forall rs s,
  run_steps (rp_step c) (s, Normal) rs =
  (let '(s', o) := run_steps (std_step c) s rs in ((s', Normal), o)).
Proof.
  intros Hp Hm. induction rs as [|r rs IH]; intro s; [reflexivity|].
  cbn [run_steps]. rewrite (rp_nomerge_step c s r Hp Hm).
  destruct (std_step c s r) as [s1 o1]. rewrite IH. destruct (run_steps (std_step c) s1 rs). reflexivity.
Qed.

Lemma rp_nomerge_eq_std c rs : plt_free_all c -> no_merge c = true -> run_rp c rs = run_std c rs.
Proof.
  intros Hp Hm. unfold run_rp, run_std. rewrite (rp_nomerge_run c Hp Hm).
  destruct (run_steps (std_step c) (st0 c) (pre c rs)) as [s o]. cbn. apply app_nil_r.
Qed.

(* the std driver does not look at no_merge *)
Lemma lookahead_nm c b : forall rs pend tfs,
  lookahead (set_no_merge c b) rs pend tfs = lookahead c rs pend tfs.
Proof.
  induction rs as [|r rs IH]; intros pend tfs; [reflexivity|].
  cbn [lookahead]. cbn [set_no_merge trig_of caller_filter threshold]. unfold tfs_thr.
  cbn [set_no_merge threshold]. fold (tfs_thr c tfs).
  destruct (r_type r).
  - apply IH.
  - destruct pend as [|e pend'].
    + rewrite IH. reflexivity.
    + rewrite !IH. reflexivity.
Qed.

Lemma run_steps_ext {S} (st1 st2 : S -> rec -> S * list vev) : (forall s r, st1 s r = st2 s r) ->
  forall rs s, run_steps st1 s rs = run_steps st2 s rs.
Proof.
  intros H. induction rs as [|r rs IH]; intro s; [reflexivity|]. cbn [run_steps]. rewrite H.
  destruct (st2 s r). rewrite IH. reflexivity.
Qed.

Lemma run_std_nm c b rs : run_std (set_no_merge c b) rs = run_std c rs.
Proof.
  unfold run_std, pre. rewrite lookahead_nm.
  rewrite (run_steps_ext (std_step (set_no_merge c b)) (std_step c)) by (intros; reflexivity).
  reflexivity.
Qed.

Lemma script_eq_std c rs : plt_free_all c -> run_script c rs = run_std c rs.
Proof.
  intro Hp. unfold run_script. rewrite rp_nomerge_eq_std; [apply run_std_nm| |reflexivity].
  intro f. apply (Hp f).
Qed.
