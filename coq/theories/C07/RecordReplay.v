(* C07 - record time (libmcount model UV.Mcount.Model) against replay time (UV.C07.Model):
   concrete witnesses of the known divergences, and exhaustive agreement on a bounded domain. *)
From Coq Require Import NArith ZArith List Bool.
Import ListNotations.
Require Import UV.C07.Model UV.C07.Check.
Local Open Scope Z_scope.

Definition shown (l : list vev) : list (bool * N * Z) := map ob_nd l.
Definition same_tree (c : cfg) (sh : MC.shape) (f : list call) : bool :=
  list_eqb nd_eqb (shown (rec_then_plain c sh f)) (shown (plain_then_opt c f)).

(* ------------------------------------------------------------------ divergences (DESIGN section 9) *)
(* a call that runs exactly the threshold: both record time (`>=`, since the repair of the boundary defect) and
   replay time (drops `<`) keep it *)
Definition c_thr : cfg := mkcfg [] false false 1024 100 0 0 [] true false.
Definition f_thr : list call := [Call 0 1000 2000 [Call 1 1100 1200 []; Call 2 1300 1401 []]].
Lemma threshold_boundary :
  shown (rec_then_plain c_thr MC.PG f_thr)
  = [(false, 0%N, 0); (false, 1%N, 1); (true, 1%N, 1); (false, 2%N, 1); (true, 2%N, 1); (true, 0%N, 0)]
  /\ shown (plain_then_opt c_thr f_thr)
     = [(false, 0%N, 0); (false, 1%N, 1); (true, 1%N, 1); (false, 2%N, 1); (true, 2%N, 1); (true, 0%N, 0)].
Proof. vm_compute. split; reflexivity. Qed.

(* ... and with no -t at all a zero-duration call is recorded like any other *)
Definition f_zero : list call := [Call 0 1000 2000 [Call 1 1100 1100 []]].
Lemma zero_duration :
  shown (rec_then_plain plain MC.PG f_zero) = [(false, 0%N, 0); (false, 1%N, 1); (true, 1%N, 1); (true, 0%N, 0)]
  /\ shown (plain_then_opt plain f_zero) = [(false, 0%N, 0); (false, 1%N, 1); (true, 1%N, 1); (true, 0%N, 0)].
Proof. vm_compute. split; reflexivity. Qed.

(* -F main -T alpha@depth=1 -F beta (#12): the depth budget after the inner -F *)
Definition tF : rtrig := {| q_filter := Some true; q_depth := None; q_time := None; q_trace_on := false;
                            q_trace_off := false; q_trace := false; q_caller := false; q_hide := false |}.
Definition tD1 : rtrig := {| q_filter := None; q_depth := Some 1; q_time := None; q_trace_on := false;
                             q_trace_off := false; q_trace := false; q_caller := false; q_hide := false |}.
Definition c_fd : cfg := mkcfg [(0%N, tF); (1%N, tD1); (2%N, tF)] true false 1024 0 0 0 [] true false.
Definition f_fd : list call :=
  [Call 0 1000 2000 [Call 1 1100 1900 [Call 2 1200 1800 [Call 3 1300 1700 [Call 4 1400 1500 []]]]]].
Lemma filter_below_depth_trigger :
  shown (rec_then_plain c_fd MC.PG f_fd)
  = [(false, 0%N, 0); (false, 1%N, 1); (false, 2%N, 2); (true, 2%N, 2); (true, 1%N, 1); (true, 0%N, 0)]
  /\ shown (plain_then_opt c_fd f_fd)
     = [(false, 0%N, 0); (false, 1%N, 1); (false, 2%N, 2); (false, 3%N, 3); (false, 4%N, 4); (true, 4%N, 4);
        (true, 3%N, 3); (true, 2%N, 2); (true, 1%N, 1); (true, 0%N, 0)].
Proof. vm_compute. split; reflexivity. Qed.

(* -F delta -T main@time=300 -t 100: a time= trigger outside the -F scope acts at replay time only *)
Definition tT300 : rtrig := {| q_filter := None; q_depth := None; q_time := Some 300%N; q_trace_on := false;
                               q_trace_off := false; q_trace := false; q_caller := false; q_hide := false |}.
Definition c_tf : cfg := mkcfg [(0%N, tT300); (4%N, tF)] true false 1024 100 0 0 [] true false.
Definition f_tf : list call := [Call 0 1000 3000 [Call 4 1100 2500 [Call 2 1200 1403 []; Call 3 1500 2000 []]]].
Lemma time_trigger_outside_filter :
  shown (rec_then_plain c_tf MC.PG f_tf)
  = [(false, 4%N, 0); (false, 2%N, 1); (true, 2%N, 1); (false, 3%N, 1); (true, 3%N, 1); (true, 4%N, 0)]
  /\ shown (plain_then_opt c_tf f_tf) = [(false, 4%N, 0); (false, 3%N, 1); (true, 3%N, 1); (true, 4%N, 0)].
Proof. vm_compute. split; reflexivity. Qed.

(* the raw dump reads the data files without the look-ahead list: -t is ignored *)
Definition c_t101 : cfg := mkcfg [] false false 1024 101 0 0 [] true false.
Definition f_cmd : list call :=
  [Call 0 1000 2000 [Call 1 1100 1500 [Call 2 1200 1400 [Call 3 1250 1300 []]]; Call 4 1600 1700 []]].
Lemma raw_dump_ignores_time_filter :
  map ob_n (run_raw c_t101 (flats 0 f_cmd)) = map ob_n (run_std plain (flats 0 f_cmd))
  /\ map ob_n (run_std c_t101 (flats 0 f_cmd))
     = [(false, 0%N); (false, 1%N); (false, 2%N); (true, 2%N); (true, 1%N); (true, 0%N)].
Proof. vm_compute. split; reflexivity. Qed.

(* --no-libcall: replay tests the symbol type before fstack_entry, the other commands after it *)
Definition c_plt : cfg := mkcfg [] false false 2 0 0 0 [2%N] false false.
Definition f_plt : list call := [Call 0 1000 2000 [Call 4 1100 1150 []; Call 2 1200 1400 [Call 3 1250 1300 []]]].
Lemma no_libcall_replay_vs_report :
  map ob_n (run_rp c_plt (flats 0 f_plt))
  = [(false, 0%N); (false, 4%N); (true, 4%N); (false, 3%N); (true, 3%N); (true, 0%N)]
  /\ map ob_n (run_std c_plt (flats 0 f_plt)) = [(false, 0%N); (false, 4%N); (true, 4%N); (true, 0%N)].
Proof. vm_compute. split; reflexivity. Qed.

(* ------------------------------------------------------------------ bounded exhaustive agreement *)
(* untimed trees: function, extra self time; times are assigned by a clock walk *)
Inductive ut := U (fn : N) (self : N) (kids : list ut).

Fixpoint timed (clock : N) (t : ut) : call * N :=
  match t with
  | U f self ks =>
      let '(ks', clk) :=
        (fix go (l : list ut) (clk : N) : list call * N :=
           match l with
           | [] => ([], clk)
           | x :: r => let '(x', c1) := timed clk x in let '(r', c2) := go r c1 in (x' :: r', c2)
           end) ks (clock + 1)%N in
      (Call f clock (clk + self)%N ks', (clk + self + 1)%N)
  end.
Fixpoint timeds (clock : N) (l : list ut) : list call :=
  match l with
  | [] => []
  | x :: r => let '(x', c1) := timed clock x in x' :: timeds c1 r
  end.

Section Enum.
  Variable labels : list N.
  Variable selfs : list N.
  Fixpoint forests (fuel n : nat) : list (list ut) :=
    match fuel with
    | O => if Nat.eqb n 0 then [[]] else []
    | S fu =>
        if Nat.eqb n 0 then [[]] else
        flat_map (fun k =>
          flat_map (fun t => map (cons t) (forests fu (n - k)))
                   (flat_map (fun l => flat_map (fun d => map (U l d) (forests fu (k - 1))) selfs) labels))
          (seq 1 n)
    end.
End Enum.
Definition forests_upto (labels selfs : list N) (n : nat) : list (list call) :=
  flat_map (fun k => map (timeds 1000) (forests labels selfs (S k) k)) (seq 1 n).

(* option sets: every assignment of {none, -F, -N} to the functions x 5 pairs (-D, -t) *)
Definition tN : rtrig := {| q_filter := Some false; q_depth := None; q_time := None; q_trace_on := false;
                            q_trace_off := false; q_trace := false; q_caller := false; q_hide := false |}.
Fixpoint assigns {A} (vals : list A) (keys : list N) : list (list (N * A)) :=
  match keys with
  | [] => [[]]
  | k :: r => flat_map (fun v => map (cons (k, v)) (assigns vals r)) vals
  end.
Definition has_F (l : list (N * rtrig)) : bool :=
  existsb (fun p => match q_filter (snd p) with Some true => true | _ => false end) l.
Definition filter_cfgs (keys : list N) : list cfg :=
  flat_map (fun tr => map (fun dt => mkcfg tr (has_F tr) false (fst dt) (snd dt) 0 0 [] true false)
                          [(1, 0%N); (2, 0%N); (1024, 0%N); (2, 2%N); (1024, 2%N)])
           (assigns [notrig; tF; tN] keys).
(* time= / -C / trace option sets (no -F/-N/-D), global -t 2 *)
Definition tq (t : option N) (cl tr : bool) : rtrig :=
  {| q_filter := None; q_depth := None; q_time := t; q_trace_on := false; q_trace_off := false;
     q_trace := tr; q_caller := cl; q_hide := false |}.
Definition time_cfgs (keys : list N) : list cfg :=
  map (fun tr => mkcfg tr false (existsb (fun p => q_caller (snd p)) tr) 1024 2 0 0 [] true false)
      (assigns [tq None false false; tq (Some 4%N) false false; tq None true false; tq None false true;
                tq (Some 4%N) true false] keys).

Definition same_both (c : cfg) (f : list call) : bool :=
  let o := shown (plain_then_opt c f) in
  list_eqb nd_eqb (shown (rec_then_plain c MC.PG f)) o && list_eqb nd_eqb (shown (rec_then_plain c MC.CYG f)) o.
(* Some n: all n pairs inside the agreement class agree; None: some pair inside the class differs *)
Definition agree_count (cs : list cfg) (fs : list (list call)) : option N :=
  fold_left (fun acc c =>
    fold_left (fun acc f =>
      match acc with
      | None => None
      | Some n => if rr_class_of c f then (if same_both c f then Some (n + 1)%N else None) else Some n
      end) fs acc) cs (Some 0%N).

Definition dom_filter_cfgs := filter_cfgs [0%N; 1%N; 2%N].
Definition dom_filter_forests := forests_upto [0%N; 1%N; 2%N] [0%N] 3.
Definition dom_time_cfgs := time_cfgs [0%N; 1%N].
Definition dom_time_forests := forests_upto [0%N; 1%N] [0%N; 2%N] 3.

(* every forest of at most 3 calls over 3 functions x every assignment of {none,-F,-N} x 5 (-D,-t) pairs,
   and every forest of at most 3 calls over 2 functions with 2 self times x every assignment of
   {none, time=4, -C, trace, time=4 + -C} with -t 2: inside the agreement class both instrumentation shapes
   record exactly the tree that replaying the full recording with the same options shows *)
Lemma bounded_agreement :
  agree_count dom_filter_cfgs dom_filter_forests = Some 21060%N
  /\ agree_count dom_time_cfgs dom_time_forests = Some 8900%N.
Proof. split; [vm_cast_no_check (eq_refl (Some 21060%N)) | vm_cast_no_check (eq_refl (Some 8900%N))]. Qed.
