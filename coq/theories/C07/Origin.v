(* C07 - elapsed time ranges with several tasks and --tid: the origin of the elapsed time is the oldest record of
   the WHOLE recording, whatever --tid selects; the selected tasks show exactly their records inside the window
   counted from that origin. *)
From Coq Require Import NArith ZArith List Bool Lia.
Import ListNotations.
Require Import UV.C07.Model UV.C07.Proofs UV.C07.Replay UV.C07.Range UV.C07.Multi.
Local Open Scope Z_scope.

(* ------------------------------------------------------------------ the origin *)
Definition nonzero (ss : list (list rec)) : Prop := forall s r, In s ss -> In r s -> r_time r <> 0%N.
Definition all_sorted (ss : list (list rec)) : Prop := forall s, In s ss -> sorted s.

Lemma upd_first_min a t : t <> 0%N -> upd_first a t = (if (a =? 0)%N then t else N.min a t).
Proof. intro Ht. unfold upd_first. destruct (a =? 0)%N eqn:E; [reflexivity|]. cbn [orb]. destruct (t <? a)%N eqn:L; [apply N.ltb_lt in L; rewrite N.min_r by lia|apply N.ltb_ge in L; rewrite N.min_l by lia]; reflexivity. Qed.

Lemma sorted_head_le r s : sorted (r :: s) -> forall x, In x (r :: s) -> (r_time r <= r_time x)%N.
Proof.
  intros [Hle _] x [<-|Hx]; [lia|]. rewrite Forall_forall in Hle. apply Hle. exact Hx.
Qed.

(* invariant of the fold: a is 0 iff nothing seen, otherwise it is the time of some record seen so far and a lower
   bound of all of them *)
Definition seen_inv (seen : list (list rec)) (a : N) : Prop :=
  (a = 0%N -> forall s, In s seen -> s = [])
  /\ (a <> 0%N -> (exists s r, In s seen /\ In r s /\ r_time r = a)
                 /\ forall s r, In s seen -> In r s -> (a <= r_time r)%N).

Lemma first_step_inv seen a s : seen_inv seen a -> sorted s -> (forall r, In r s -> r_time r <> 0%N) ->
  seen_inv (seen ++ [s]) (first_step a s).
Proof.
  intros [H0 H1] Hs Hnz. destruct s as [|x s]; cbn [first_step].
  - split.
    + intros E t Ht. apply in_app_or in Ht. destruct Ht as [Ht|[<-|[]]]; [apply H0; assumption|reflexivity].
    + intro E. destruct (H1 E) as [(s0 & r0 & A & B & C) L]. split.
      * exists s0, r0. split; [apply in_or_app; left; exact A|]. split; assumption.
      * intros t r Ht Hr. apply in_app_or in Ht. destruct Ht as [Ht|[<-|[]]]; [apply (L t r Ht Hr)|destruct Hr].
  - assert (Hx : r_time x <> 0%N) by (apply Hnz; left; reflexivity).
    rewrite (upd_first_min a _ Hx). destruct (a =? 0)%N eqn:E.
    + apply N.eqb_eq in E. split; [intro; contradiction|]. intros _. split.
      * exists (x :: s), x. split; [apply in_or_app; right; left; reflexivity|]. split; [left; reflexivity|reflexivity].
      * intros t r Ht Hr. apply in_app_or in Ht. destruct Ht as [Ht|[<-|[]]].
        { rewrite (H0 E t Ht) in Hr. destruct Hr. }
        { apply (sorted_head_le x s Hs r Hr). }
    + apply N.eqb_neq in E. destruct (H1 E) as [(s0 & r0 & A & B & C) L]. split; [lia|]. intros _. split.
      * destruct (N.le_ge_cases a (r_time x)) as [Le|Ge].
        { exists s0, r0. split; [apply in_or_app; left; exact A|]. split; [exact B|lia]. }
        { exists (x :: s), x. split; [apply in_or_app; right; left; reflexivity|]. split; [left; reflexivity|lia]. }
      * intros t r Ht Hr. apply in_app_or in Ht. destruct Ht as [Ht|[<-|[]]].
        { specialize (L t r Ht Hr). lia. }
        { pose proof (sorted_head_le x s Hs r Hr). lia. }
Qed.

Lemma fold_first_inv : forall rest seen a, seen_inv seen a ->
  (forall s, In s rest -> sorted s) -> (forall s r, In s rest -> In r s -> r_time r <> 0%N) ->
  seen_inv (seen ++ rest) (fold_left first_step rest a).
Proof.
  induction rest as [|s rest IH]; intros seen a Hi Hs Hn; cbn [fold_left].
  - rewrite app_nil_r. exact Hi.
  - replace (seen ++ s :: rest) with ((seen ++ [s]) ++ rest) by (rewrite <- app_assoc; reflexivity).
    apply IH.
    + apply first_step_inv; [exact Hi|apply Hs; left; reflexivity|intros r Hr; apply (Hn s r); [left; reflexivity|exact Hr]].
    + intros t Ht. apply Hs. right. exact Ht.
    + intros t r Ht Hr. apply (Hn t r); [right; exact Ht|exact Hr].
Qed.

(* the origin is the time of the oldest record of the whole recording *)
Theorem origin_is_oldest ss : all_sorted ss -> nonzero ss -> (exists s, In s ss /\ s <> []) ->
  (exists s r, In s ss /\ In r s /\ r_time r = setup_first ss)
  /\ forall s r, In s ss -> In r s -> (setup_first ss <= r_time r)%N.
Proof.
  intros Hs Hn (s0 & Hin & Hne).
  assert (I0 : seen_inv [] 0%N) by (split; [intros _ s []|intro E; exfalso; apply E; reflexivity]).
  pose proof (fold_first_inv ss [] 0%N I0 Hs Hn) as [H0 H1]. cbn [app] in H0, H1. fold (setup_first ss) in H0, H1.
  destruct (N.eq_dec (setup_first ss) 0) as [E|E].
  - exfalso. apply Hne. apply (H0 E s0 Hin).
  - exact (H1 E).
Qed.

(* ------------------------------------------------------------------ --tid *)
Lemma tid_select_from_nth sel : forall ss i t,
  nth t (tid_select_from sel i ss) [] = if sel (i + t)%nat then nth t ss [] else [].
Proof.
  induction ss as [|s ss IH]; intros i t; cbn [tid_select_from].
  - destruct t; cbn; destruct (sel _); reflexivity.
  - destruct t as [|t]; cbn [nth].
    + rewrite Nat.add_0_r. reflexivity.
    + rewrite IH. replace (S i + t)%nat with (i + S t)%nat by lia. reflexivity.
Qed.
Lemma tid_select_nth sel ss t : nth t (tid_select sel ss) [] = if sel t then nth t ss [] else [].
Proof. apply (tid_select_from_nth sel ss 0 t). Qed.
Lemma tid_select_from_length sel : forall ss i, length (tid_select_from sel i ss) = length ss.
Proof. induction ss as [|s ss IH]; intro i; cbn [tid_select_from length]; [reflexivity|rewrite IH; reflexivity]. Qed.
Lemma tid_select_length sel ss : length (tid_select sel ss) = length ss.
Proof. apply tid_select_from_length. Qed.

Lemma range_only_with_range c a b : range_only c -> range_only (with_range c a b).
Proof. intro H. exact H. Qed.

Lemma run_std_nil c : run_std c [] = [].
Proof. reflexivity. Qed.

(* report / graph / dump --chrome with --tid and a time range whose ends may be elapsed times: a selected task shows
   exactly its records inside [origin + start, origin + stop], origin = setup_first of ALL tasks (origin_is_oldest:
   the oldest record of the whole recording); a task that is not selected shows nothing *)
Theorem tid_elapsed_window c e sel ss t : range_only c -> (t < length ss)%nat ->
  sorted (nth t ss []) -> dcons 0 (nth t ss []) -> Forall (fun r => r_depth r < gdepth c) (nth t ss []) ->
  let c' := resolve_range c e ss in
  map ob_rt (of_task t (run_std_m c' (tid_select sel ss)))
  = if sel t then map shown_rec (filter (fun r => in_window c' (r_time r)) (nth t ss [])) else [].
Proof.
  intros Hro Ht Hs Hd Hg c'.
  assert (Hro' : range_only c') by (apply range_only_with_range; exact Hro).
  assert (Hns : no_switch_all c').
  { destruct Hro' as (Htr & _). intro k. rewrite (Htr k). split; reflexivity. }
  rewrite (tasks_independent c' (tid_select sel ss) t Hns) by (rewrite tid_select_length; exact Ht).
  rewrite tid_select_nth. destruct (sel t); [|reflexivity].
  apply (range_std_window c' (nth t ss []) Hro' Hs Hd). exact Hg.
Qed.

(* the code as found took the origin from the tasks that --tid leaves out only: with main{1000..}, w1{1040..},
   w2{1100..} and --tid main,w2 the elapsed time counted from w1's first record *)
Definition r_at (t : N) : rec := {| r_time := t; r_type := ENTRY; r_depth := 0; r_fn := 0 |}.
Definition ss_ex : list (list rec) := [[r_at 1000; r_at 1200]; [r_at 1040; r_at 1240]; [r_at 1100; r_at 1300]].
Lemma origin_legacy :
  setup_first_legacy (fun i => negb (Nat.eqb i 1)) ss_ex = 1040%N /\ setup_first ss_ex = 1000%N
  /\ setup_first_legacy (fun _ => true) [[r_at 1040]; [r_at 1000]] = 1040%N /\ setup_first [[r_at 1040]; [r_at 1000]] = 1000%N.
Proof. vm_compute. repeat split; reflexivity. Qed.
