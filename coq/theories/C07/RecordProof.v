(* C07 - record time = replay time, unbounded, for the filter options -F / -N / -D on the -pg shape:
   the libmcount automaton (UV.Mcount.Model, lazy ENTRY flush included) writes exactly the recording of
   the selected forest [sel]; replaying it without options shows what replaying the full recording
   with the options shows. *)
From Coq Require Import NArith ZArith List Bool Lia.
Import ListNotations.
Require Import ZifyBool ZifyN ZifyNat.
Require Import UV.Gen.Consts UV.C07.Model UV.C07.Proofs.
Local Open Scope Z_scope.
Ltac Zify.zify_post_hook ::= Z.div_mod_to_equations.

(* ------------------------------------------------------------------ the class *)
Definition filter_only_trig (q : rtrig) : Prop :=
  q_depth q = None /\ q_time q = None /\ q_trace_on q = false /\ q_trace_off q = false /\ q_trace q = false
  /\ q_caller q = false /\ q_hide q = false.
Definition filter_only (c : cfg) : Prop :=
  (forall f, filter_only_trig (trig_of c f)) /\ caller_filter c = false /\ threshold c = 0%N
  /\ 1 <= gdepth c.

Fixpoint wf_call (n : call) : Prop :=
  match n with
  | Call _ t0 t1 ks => (t0 < t1)%N /\ (t1 < two64)%N /\ (fix go (l : list call) : Prop :=
                                                       match l with [] => True | x :: r => wf_call x /\ go r end) ks
  end.
Definition wf_forest (f : list call) : Prop := Forall wf_call f.
Lemma wf_kids f t0 t1 ks : wf_call (Call f t0 t1 ks) -> (t0 < t1)%N /\ (t1 < two64)%N /\ Forall wf_call ks.
Proof.
  cbn [wf_call]. intros (A & B & C). repeat split; auto.
  induction ks as [|k ks IH]; constructor; [apply C|apply IH; apply C].
Qed.

Fixpoint height (n : call) : nat := match n with Call _ _ _ ks => S (fold_right Nat.max 0%nat (map height ks)) end.
Definition fheight (l : list call) : nat := fold_right Nat.max 0%nat (map height l).

(* the forest that is recorded: inF = inside an -F function, lv = levels used since the last reset *)
Fixpoint sel (c : cfg) (inF : bool) (lv : N) (n : call) : list call :=
  match n with
  | Call f t0 t1 ks =>
      match q_filter (trig_of c f) with
      | Some false => []
      | Some true => [Call f t0 t1 (flat_map (sel c true 1) ks)]
      | None =>
          if fmode_in c && negb inF then flat_map (sel c false lv) ks
          else if (Z.to_N (gdepth c) <=? lv)%N then flat_map (sel c inF lv) ks
          else [Call f t0 t1 (flat_map (sel c inF (lv + 1)) ks)]
      end
  end.

(* ------------------------------------------------------------------ the libmcount side *)
Definition mflat_rec (x : bool) (d t f : N) : MC.rec :=
  {| MC.r_time := t; MC.r_type := if x then MC.EXIT else MC.ENTRY; MC.r_depth := d; MC.r_addr := f |}.
Fixpoint mflat (d : N) (n : call) : list MC.rec :=
  match n with
  | Call f t0 t1 ks => mflat_rec false d t0 f :: flat_map (mflat (d + 1)) ks ++ [mflat_rec true d t1 f]
  end.

Lemma mflat_flat : forall n d, map of_mrec (mflat d n) = flat (Z.of_N d) n.
Proof.
  induction n as [f t0 t1 ks IH] using call_ind'. intro d. cbn [mflat flat map]. f_equal.
  rewrite map_app. cbn [map]. f_equal.
  replace (Z.of_N d + 1) with (Z.of_N (d + 1)) by lia.
  induction IH as [|k ks Hk _ IHks]; [reflexivity|]. cbn [flat_map]. rewrite map_app, Hk, IHks. reflexivity.
Qed.

Definition pend (stk : list MC.frame) : list MC.rec := snd (MC.flush_anc stk).
Definition markw (stk : list MC.frame) : list MC.frame := fst (MC.flush_anc stk).

Lemma flush_idem stk : MC.flush_anc (markw stk) = (markw stk, []).
Proof.
  unfold markw. induction stk as [|p rest IH]; [reflexivity|].
  cbn [MC.flush_anc]. destruct (MC.written (MC.f_flags p)) eqn:W.
  - cbn [fst MC.flush_anc]. rewrite W. reflexivity.
  - destruct (MC.flush_anc rest) as [rest' recs] eqn:E. cbn [fst] in IH.
    destruct (MC.skip p) eqn:S; cbn [fst MC.flush_anc].
    + rewrite W, IH, S. reflexivity.
    + cbn [MC.set_written MC.f_flags MC.written]. reflexivity.
Qed.
Lemma pend_markw stk : pend (markw stk) = [].
Proof. unfold pend. rewrite flush_idem. reflexivity. Qed.
Lemma markw_markw stk : markw (markw stk) = markw stk.
Proof. unfold markw at 1. rewrite flush_idem. reflexivity. Qed.

(* the state of a thread in the class *)
Definition mk (i o : Z) (dp : N) (stk : list MC.frame) (ri : N) (ou : list MC.rec) : MC.st :=
  {| MC.fc := {| MC.in_count := i; MC.out_count := o; MC.depth := dp; MC.max_depth := FILTER_NO_MAX_DEPTH;
                 MC.ftime := MC.NO_TIME; MC.fsize := 0 |};
     MC.enabled := true; MC.cached := true; MC.stack := stk; MC.ridx := ri; MC.out := ou; MC.warned := false |}.

Definition after (g : list call) (i o : Z) (dp : N) (stk : list MC.frame) (ri : N) (ou : list MC.rec) : MC.st :=
  match g with
  | [] => mk i o dp stk ri ou
  | _ => mk i o dp (markw stk) ri (ou ++ pend stk ++ flat_map (mflat ri) g)
  end.

Definition sel_at (c : cfg) (i o : Z) (dp : N) (l : list call) : list call :=
  if o >? 0 then [] else flat_map (sel c (0 <? i) dp) l.

Lemma after_app g1 g2 i o dp stk ri ou :
  (let s1 := after g1 i o dp stk ri ou in after g2 i o dp (MC.stack s1) ri (MC.out s1))
  = after (g1 ++ g2) i o dp stk ri ou.
Proof.
  destruct g1 as [|x g1]; [reflexivity|]. cbn [after app mk MC.stack MC.out].
  destruct g2 as [|y g2].
  - rewrite app_nil_r. reflexivity.
  - cbn [after]. rewrite markw_markw, pend_markw. cbn [app].
    unfold mk. f_equal. rewrite <- !app_assoc. f_equal. f_equal.
    change (x :: g1 ++ y :: g2) with ((x :: g1) ++ (y :: g2)). rewrite flat_map_app. reflexivity.
Qed.

(* ------------------------------------------------------------------ single steps of the hooks in the class *)
Definition ftrig (qf : option bool) : rtrig :=
  {| q_filter := qf; q_depth := None; q_time := None; q_trace_on := false; q_trace_off := false;
     q_trace := false; q_caller := false; q_hide := false |}.
Lemma filter_only_eq q : filter_only_trig q -> q = ftrig (q_filter q).
Proof. destruct q; unfold filter_only_trig, ftrig; cbn. intros (A & B & C & D & E & F & G). subst. reflexivity. Qed.

Definition Fr (flt ntr nrc wr : bool) (a t0 t1 ri dp : N) : MC.frame :=
  {| MC.f_addr := a; MC.f_start := t0; MC.f_end := t1;
     MC.f_flags := {| MC.norecord := nrc; MC.notrace := ntr; MC.filtered := flt; MC.written := wr;
                      MC.disabled := false; MC.ftrace := false; MC.fcaller := false; MC.cygprof := false |};
     MC.f_depth := ri; MC.sv_depth := dp; MC.sv_max := FILTER_NO_MAX_DEPTH; MC.sv_time := MC.NO_TIME;
     MC.sv_size := 0; MC.f_ghost := false |}.

Section Rec.
  Variable c : cfg.
  Hypothesis Hfo : filter_only c.
  Local Notation mc := (to_mcfg c MC.PG).

  Ltac mstep :=
    unfold MC.dstep, MC.hooked, MC.do_enter, MC.do_leave, MC.entry_check, MC.entry_record, MC.exit_record,
           MC.check_rstack, MC.idx, MC.with_fc, MC.set_end, mk, Fr;
    cbn [MC.max_stack MC.stack MC.shp MC.fc MC.warned to_mcfg MC.trig_of MC.fmode_in MC.has_caller MC.gdepth
         MC.threshold MC.sym_size MC.out_count MC.in_count MC.depth MC.max_depth MC.ftime MC.fsize MC.enabled
         MC.cached MC.ridx MC.out].

  Lemma enter_out f t i o dp stk ri ou hk : o >? 0 = true -> (length stk < 1024)%nat ->
    MC.dstep mc (mk i o dp stk ri ou, hk) (MC.Enter f t) = (mk i o dp stk ri ou, false :: hk).
  Proof.
    intros Ho Hl. assert (Hidx : (1024 <=? N.of_nat (length stk))%N = false) by lia.
    mstep. rewrite Hidx. cbn. rewrite Ho. reflexivity.
  Qed.

  Lemma enter_N f t i dp stk ri ou hk : trig_of c f = ftrig (Some false) -> (length stk < 1024)%nat ->
    MC.dstep mc (mk i 0 dp stk ri ou, hk) (MC.Enter f t)
    = (mk i 1 1 (Fr false true true false f t 0 ri dp :: stk) ri ou, true :: hk).
  Proof.
    intros Htr Hl. assert (Hidx : (1024 <=? N.of_nat (length stk))%N = false) by lia.
    destruct Hfo as (_ & _ & _ & Hgd).
    assert (Hg : (Z.to_N (gdepth c) <=? 0)%N = false) by lia.
    mstep. rewrite Hidx. cbn. rewrite Htr. cbn. rewrite Hg. cbn. reflexivity.
  Qed.

  Lemma enter_F f t i dp stk ri ou hk : trig_of c f = ftrig (Some true) -> (length stk < 1024)%nat -> 0 <= i ->
    MC.dstep mc (mk i 0 dp stk ri ou, hk) (MC.Enter f t)
    = (mk (i + 1) 0 1 (Fr true false false false f t 0 ri dp :: stk) (ri + 1) ou, true :: hk).
  Proof.
    intros Htr Hl Hi. assert (Hidx : (1024 <=? N.of_nat (length stk))%N = false) by lia.
    destruct Hfo as (_ & _ & _ & Hgd).
    assert (Hg : (Z.to_N (gdepth c) <=? 0)%N = false) by lia.
    assert (Hi1 : (i + 1 =? 0) = false) by lia.
    mstep. rewrite Hidx. cbn. rewrite Htr. cbn. rewrite Hg. cbn. rewrite Hi1. cbn. rewrite ?andb_false_r. reflexivity.
  Qed.

  Lemma enter_hidden f t i dp stk ri ou hk : trig_of c f = ftrig None -> (length stk < 1024)%nat ->
    (fmode_in c && (i =? 0)) || (Z.to_N (gdepth c) <=? dp)%N = true ->
    MC.dstep mc (mk i 0 dp stk ri ou, hk) (MC.Enter f t) = (mk i 0 dp stk ri ou, false :: hk).
  Proof.
    intros Htr Hl Hh. assert (Hidx : (1024 <=? N.of_nat (length stk))%N = false) by lia.
    mstep. rewrite Hidx. cbn. rewrite Htr. cbn.
    destruct (fmode_in c && (i =? 0)) eqn:E1; cbn in *; [reflexivity|]. rewrite Hh. cbn. rewrite ?E1. reflexivity.
  Qed.

  Lemma enter_vis f t i dp stk ri ou hk : trig_of c f = ftrig None -> (length stk < 1024)%nat ->
    fmode_in c && (i =? 0) = false -> (Z.to_N (gdepth c) <=? dp)%N = false ->
    MC.dstep mc (mk i 0 dp stk ri ou, hk) (MC.Enter f t)
    = (mk i 0 (dp + 1) (Fr false false false false f t 0 ri dp :: stk) (ri + 1) ou, true :: hk).
  Proof.
    intros Htr Hl H1 H2. assert (Hidx : (1024 <=? N.of_nat (length stk))%N = false) by lia.
    mstep. rewrite Hidx. cbn. rewrite Htr. cbn. rewrite H1. cbn. rewrite H2. cbn.
    replace ((i =? 0) && fmode_in c) with false by (rewrite andb_comm; auto). reflexivity.
  Qed.

  Lemma leave_unhooked s t hk : MC.dstep mc (s, false :: hk) (MC.Leave t) = (s, hk).
  Proof. reflexivity. Qed.

  Lemma leave_N f t0 t i dp0 dp stk ri ou hk :
    MC.dstep mc (mk i 1 dp0 (Fr false true true false f t0 0 ri dp :: stk) ri ou, true :: hk) (MC.Leave t)
    = (mk i 0 dp stk ri ou, hk).
  Proof. mstep. cbn. reflexivity. Qed.

  Lemma leave_rec (flt wr : bool) f t0 t1 i dp0 dp stk ri ou hk : (t0 < t1)%N -> (t1 < two64)%N ->
    MC.dstep mc (mk i 0 dp0 (Fr flt false false wr f t0 0 ri dp :: stk) (ri + 1) ou, true :: hk) (MC.Leave t1)
    = (mk (if flt then i - 1 else i) 0 dp (if wr then stk else markw stk) ri
          (ou ++ (if wr then [] else pend stk ++ [mflat_rec false ri t0 f]) ++ [mflat_rec true ri t1 f]), hk).
  Proof.
    intros H01 H1. destruct Hfo as (_ & Hcl & Hthr & _). unfold two64 in H1.
    assert (Hdur : (0 <? (t1 + 18446744073709551616 - t0) mod 18446744073709551616)%N = true).
    { assert (E : ((t1 + 18446744073709551616 - t0) mod 18446744073709551616 = t1 - t0)%N).
      { replace (t1 + 18446744073709551616 - t0)%N with ((t1 - t0) + 1 * 18446744073709551616)%N by lia.
        rewrite N.mod_add by lia. apply N.mod_small. lia. }
      rewrite E. lia. }
    assert (Hri : (if (0 <? ri + 1)%N then (ri + 1 - 1)%N else 0%N) = ri) by (destruct (0 <? ri + 1)%N eqn:E; lia).
    assert (Ht1 : (t1 =? 0)%N = false) by lia.
    mstep. cbn -[N.modulo N.add N.sub N.ltb MC.flush_anc]. rewrite Hthr, Hcl. cbn -[N.modulo N.add N.sub N.ltb MC.flush_anc].
    rewrite Hdur, Hri. cbn -[MC.flush_anc].
    unfold MC.record_trace_data. cbn -[MC.flush_anc].
    destruct wr; cbn -[MC.flush_anc].
    - rewrite Ht1. destruct flt; reflexivity.
    - unfold markw, pend. destruct (MC.flush_anc stk) as [anc' pre]. cbn. rewrite Ht1.
      destruct flt; cbn; rewrite <- ?app_assoc; reflexivity.
  Qed.

  Lemma exec_app es1 es2 d : MC.exec mc (es1 ++ es2) d = MC.exec mc es2 (MC.exec mc es1 d).
  Proof. unfold MC.exec. apply fold_left_app. Qed.
  Lemma exec_cons e es d : MC.exec mc (e :: es) d = MC.exec mc es (MC.dstep mc d e).
  Proof. reflexivity. Qed.

  Lemma flush_length stk : length (markw stk) = length stk.
  Proof.
    unfold markw. induction stk as [|p rest IH]; [reflexivity|]. cbn [MC.flush_anc].
    destruct (MC.written (MC.f_flags p)); [reflexivity|].
    destruct (MC.flush_anc rest) as [rest' recs]. cbn [fst] in IH.
    destruct (MC.skip p); cbn [fst length]; rewrite IH; reflexivity.
  Qed.

  Lemma markw_cons flt f t0 ri dp stk :
    markw (Fr flt false false false f t0 0 ri dp :: stk) = Fr flt false false true f t0 0 ri dp :: markw stk
    /\ pend (Fr flt false false false f t0 0 ri dp :: stk) = pend stk ++ [mflat_rec false ri t0 f].
  Proof.
    unfold markw, pend. cbn [MC.flush_anc Fr MC.f_flags MC.written]. destruct (MC.flush_anc stk) as [rest' recs].
    cbn. split; reflexivity.
  Qed.

  Lemma after_mk g i o dp stk ri ou :
    after g i o dp stk ri ou = mk i o dp (MC.stack (after g i o dp stk ri ou)) ri (MC.out (after g i o dp stk ri ou))
    /\ length (MC.stack (after g i o dp stk ri ou)) = length stk.
  Proof. destruct g; cbn [after mk MC.stack MC.out]; split; try reflexivity. apply flush_length. Qed.

  Lemma sel_at_cons i o dp k ks : sel_at c i o dp (k :: ks) = sel_at c i o dp [k] ++ sel_at c i o dp ks.
  Proof. unfold sel_at. destruct (o >? 0); [reflexivity|]. cbn [flat_map]. rewrite app_nil_r. reflexivity. Qed.

  Definition rec_call_stmt (n : call) : Prop := forall i o dp stk ri ou hk,
    0 <= i -> 0 <= o -> (length stk + height n <= 1024)%nat -> wf_call n ->
    MC.exec mc (events n) (mk i o dp stk ri ou, hk) = (after (sel_at c i o dp [n]) i o dp stk ri ou, hk).

  Lemma rec_kids ks : Forall rec_call_stmt ks -> forall i o dp stk ri ou hk,
    0 <= i -> 0 <= o -> (length stk + fheight ks <= 1024)%nat -> Forall wf_call ks ->
    MC.exec mc (flat_map events ks) (mk i o dp stk ri ou, hk) = (after (sel_at c i o dp ks) i o dp stk ri ou, hk).
  Proof.
    induction 1 as [|k ks Hk _ IH]; intros i o dp stk ri ou hk Hi Ho Hlen Hwf.
    - unfold sel_at. cbn. destruct (o >? 0); reflexivity.
    - inversion Hwf as [|? ? Hwk Hwks]; subst. cbn [flat_map]. rewrite exec_app.
      unfold fheight in Hlen. cbn [map fold_right] in Hlen.
      rewrite (Hk i o dp stk ri ou hk Hi Ho) by (auto; lia).
      destruct (after_mk (sel_at c i o dp [k]) i o dp stk ri ou) as [E L].
      set (s1 := after (sel_at c i o dp [k]) i o dp stk ri ou) in *.
      rewrite E.
      rewrite (IH i o dp _ ri _ hk Hi Ho) by (auto; unfold fheight; rewrite L; lia).
      rewrite sel_at_cons. rewrite <- after_app. cbn zeta. fold s1. reflexivity.
  Qed.

  Lemma rec_call : forall n, rec_call_stmt n.
  Proof.
    induction n as [f t0 t1 ks IH] using call_ind'. intros i o dp stk ri ou hk Hi Ho Hlen Hwf.
    pose proof (rec_kids ks IH) as HK.
    apply wf_kids in Hwf. destruct Hwf as (H01 & H1 & Hwk).
    assert (Hl : (length stk < 1024)%nat) by (cbn [height] in Hlen; lia).
    assert (Hlk0 : (length stk + fheight ks <= 1024)%nat) by (cbn [height] in Hlen; unfold fheight; lia).
    assert (Hlk1 : forall F, (length (F :: stk) + fheight ks <= 1024)%nat)
      by (intro; cbn [height length] in *; unfold fheight; lia).
    destruct Hfo as (Htr & _). pose proof (filter_only_eq _ (Htr f)) as Etr.
    cbn [events]. rewrite exec_cons, exec_app.
    unfold sel_at. cbn [flat_map sel]. rewrite app_nil_r.
    destruct (o >? 0) eqn:Eo.
    - rewrite (enter_out f t0 i o dp stk ri ou hk Eo Hl).
      rewrite (HK i o dp stk ri ou (false :: hk) Hi Ho Hlk0 Hwk). unfold sel_at. rewrite Eo. cbn [after].
      reflexivity.
    - assert (o = 0) by lia. subst o.
      destruct (q_filter (trig_of c f)) as [[|]|] eqn:Ef.
      + (* -F *)
        rewrite (enter_F f t0 i dp stk ri ou hk Etr Hl Hi).
        rewrite (HK (i + 1) 0 1%N _ (ri + 1)%N ou (true :: hk)) by (auto; lia).
        unfold sel_at. change (0 >? 0) with false. cbn iota.
        replace (0 <? i + 1) with true by lia.
        destruct (flat_map (sel c true 1) ks) as [|x g'] eqn:Eg.
        * cbn [after]. cbn [MC.exec fold_left]. rewrite (leave_rec true false f t0 t1 (i + 1) 1%N dp stk ri ou hk H01 H1).
          rewrite Z.add_simpl_r. cbn [after flat_map mflat]. unfold mk. rewrite app_nil_r.
          rewrite <- ?app_assoc. reflexivity.
        * cbn [after]. destruct (markw_cons true f t0 ri dp stk) as [M P]. rewrite M, P.
          cbn [MC.exec fold_left].
          rewrite (leave_rec true true f t0 t1 (i + 1) 1%N dp (markw stk) ri _ hk H01 H1).
          rewrite Z.add_simpl_r. cbn [after flat_map mflat]. unfold mk. rewrite app_nil_r.
          cbn [app]. rewrite <- ?app_assoc. cbn [app]. reflexivity.
      + (* -N *)
        rewrite (enter_N f t0 i dp stk ri ou hk Etr Hl).
        rewrite (HK i 1 1%N _ ri ou (true :: hk)) by (auto; lia).
        unfold sel_at. change (1 >? 0) with true. cbn [after]. cbn [MC.exec fold_left].
        rewrite leave_N. reflexivity.
      + destruct (fmode_in c && negb (0 <? i)) eqn:Em.
        * (* outside every -F function *)
          assert (Hh : fmode_in c && (i =? 0) || (Z.to_N (gdepth c) <=? dp)%N = true).
          { replace (i =? 0) with (negb (0 <? i)) by lia. rewrite Em. reflexivity. }
          rewrite (enter_hidden f t0 i dp stk ri ou hk Etr Hl Hh).
          rewrite (HK i 0 dp stk ri ou (false :: hk) Hi Ho Hlk0 Hwk). unfold sel_at. change (0 >? 0) with false.
          cbn iota. replace (0 <? i) with false by (destruct (fmode_in c); cbn in Em; [lia|discriminate]).
          reflexivity.
        * assert (Hm : fmode_in c && (i =? 0) = false).
          { replace (i =? 0) with (negb (0 <? i)) by lia. exact Em. }
          destruct (Z.to_N (gdepth c) <=? dp)%N eqn:Ed.
          -- (* too deep *)
             assert (Hh : fmode_in c && (i =? 0) || (Z.to_N (gdepth c) <=? dp)%N = true)
               by (rewrite Ed; apply orb_true_r).
             rewrite (enter_hidden f t0 i dp stk ri ou hk Etr Hl Hh).
             rewrite (HK i 0 dp stk ri ou (false :: hk) Hi Ho Hlk0 Hwk). unfold sel_at. change (0 >? 0) with false.
             reflexivity.
          -- rewrite (enter_vis f t0 i dp stk ri ou hk Etr Hl Hm Ed).
             rewrite (HK i 0 (dp + 1)%N _ (ri + 1)%N ou (true :: hk)) by (auto; lia).
             unfold sel_at. change (0 >? 0) with false. cbn iota.
             destruct (flat_map (sel c (0 <? i) (dp + 1)) ks) as [|x g'] eqn:Eg.
             ++ cbn [after]. cbn [MC.exec fold_left].
                rewrite (leave_rec false false f t0 t1 i (dp + 1)%N dp stk ri ou hk H01 H1).
                cbn [after flat_map mflat]. unfold mk. rewrite app_nil_r. rewrite <- ?app_assoc. reflexivity.
             ++ cbn [after]. destruct (markw_cons false f t0 ri dp stk) as [M P]. rewrite M, P.
                cbn [MC.exec fold_left].
                rewrite (leave_rec false true f t0 t1 i (dp + 1)%N dp (markw stk) ri _ hk H01 H1).
                cbn [after flat_map mflat]. unfold mk. rewrite app_nil_r.
                cbn [app]. rewrite <- ?app_assoc. cbn [app]. reflexivity.
  Qed.
End Rec.

(* ------------------------------------------------------------------ what libmcount writes *)
Lemma record_is_sel c f : filter_only c -> wf_forest f -> (fheight f <= 1024)%nat ->
  record (to_mcfg c MC.PG) f = flats 0 (flat_map (sel c false 0) f).
Proof.
  intros Hfo Hwf Hh. unfold record.
  change (MC.init, @nil bool) with (mk 0 0 0 [] 0 [], @nil bool).
  assert (Hall : Forall (rec_call_stmt c) f) by (apply Forall_forall; intros n _; apply rec_call; assumption).
  rewrite (rec_kids c f Hall 0 0 0%N [] 0%N [] []) by (auto; cbn [length]; lia).
  unfold sel_at. change (0 >? 0) with false. change (0 <? 0) with false. cbn iota. cbn [fst].
  destruct (flat_map (sel c false 0) f) as [|x g] eqn:E; [reflexivity|].
  cbn [after mk MC.out]. unfold pend. cbn [MC.flush_anc snd app].
  unfold flats. generalize (x :: g). intro l. clear.
  induction l as [|n l IH]; [reflexivity|]. cbn [flat_map]. rewrite map_app, (mflat_flat n 0), IH. reflexivity.
Qed.

(* ------------------------------------------------------------------ what the two replays show *)
Definition strip (e : vev) : bool * N * Z * N := (v_exit e, v_fn e, v_disp e, v_time e).

Lemma tprune_id c : (forall f, q_time (trig_of c f) = None) -> caller_filter c = false ->
  forall n, tprune c 0 n = [n].
Proof.
  intros Ht Hc. induction n as [f t0 t1 ks IH] using call_ind'. cbn [tprune]. rewrite Ht, Hc.
  assert (E : flat_map (tprune c 0) ks = ks).
  { induction IH as [|k ks Hk _ IHks]; [reflexivity|]. cbn [flat_map]. rewrite Hk, IHks. reflexivity. }
  rewrite E. replace (tdelta t1 t0 <? 0)%N with false by lia. reflexivity.
Qed.
Lemma tprune_forest_id c f : (forall k, q_time (trig_of c k) = None) -> caller_filter c = false ->
  flat_map (tprune c 0) f = f.
Proof.
  intros Ht Hc. induction f as [|n f IH]; [reflexivity|]. cbn [flat_map]. rewrite (tprune_id c Ht Hc n), IH. reflexivity.
Qed.

Definition vis_sel_stmt (c : cfg) (n : call) : Prop :=
  forall inF lv d rd rd' b, Z.of_nat (height n) <= b ->
    map strip (vis c inF (gdepth c - Z.of_N lv) d rd n)
    = map strip (flat_map (vis plain false b d rd') (sel c inF lv n)).

Lemma vis_sel_kids c ks : Forall (vis_sel_stmt c) ks ->
  forall inF lv d rd rd' b, Z.of_nat (fheight ks) <= b ->
    map strip (flat_map (vis c inF (gdepth c - Z.of_N lv) d rd) ks)
    = map strip (flat_map (vis plain false b d rd') (flat_map (sel c inF lv) ks)).
Proof.
  induction 1 as [|k ks Hk _ IH]; intros inF lv d rd rd' b Hb; [reflexivity|].
  unfold fheight in Hb. cbn [map fold_right] in Hb.
  cbn [flat_map]. rewrite flat_map_app, !map_app. rewrite (Hk inF lv d rd rd' b) by lia.
  rewrite (IH inF lv d rd rd' b) by (unfold fheight; lia). reflexivity.
Qed.

Lemma vis_sel c : filter_only c -> plt_free_all c -> forall n, vis_sel_stmt c n.
Proof.
  intros (Htr & _ & _ & Hgd) Hp. induction n as [f t0 t1 ks IH] using call_ind'.
  intros inF lv d rd rd' b Hb. pose proof (vis_sel_kids c ks IH) as HK.
  cbn [height] in Hb. fold (fheight ks) in Hb.
  destruct (Htr f) as (Q1 & Q2 & Q3 & Q4 & Q5 & Q6 & Q7).
  cbn [vis sel]. rewrite Q1, Q7, (Hp f).
  destruct (q_filter (trig_of c f)) as [[|]|] eqn:Ef.
  - (* -F *)
    cbn [negb andb orb]. rewrite orb_true_r. replace (gdepth c <=? 0) with false by lia. cbn [orb].
    cbn [flat_map vis]. rewrite app_nil_r. cbn [plain trig_of notrig q_filter q_depth q_hide fmode_in negb andb orb gdepth].
    replace (b <=? 0) with false by lia. cbn [orb]. unfold hidden_plt at 1. cbn [plain libcall negb andb].
    cbn [map]. rewrite !map_app. cbn [map strip v_exit v_fn v_disp v_time]. f_equal. f_equal.
    replace (gdepth c - 1) with (gdepth c - Z.of_N 1) by lia.
    apply HK. lia.
  - reflexivity.
  - cbn [negb andb orb]. rewrite !orb_false_r.
    destruct (fmode_in c && negb inF) eqn:Em.
    + apply HK. lia.
    + replace (gdepth c - Z.of_N lv <=? 0) with (Z.to_N (gdepth c) <=? lv)%N by lia.
      destruct (Z.to_N (gdepth c) <=? lv)%N eqn:Ed; cbn [orb].
      * apply HK. lia.
      * cbn [flat_map vis]. rewrite app_nil_r.
        cbn [plain trig_of notrig q_filter q_depth q_hide fmode_in negb andb orb gdepth].
        replace (b <=? 0) with false by lia. cbn [orb]. unfold hidden_plt at 1. cbn [plain libcall negb andb].
        cbn [map]. rewrite !map_app. cbn [map strip v_exit v_fn v_disp v_time]. f_equal. f_equal.
        replace (gdepth c - Z.of_N lv - 1) with (gdepth c - Z.of_N (lv + 1)) by lia.
        apply HK. lia.
Qed.

Lemma sel_height c : forall n inF lv, (fheight (sel c inF lv n) <= height n)%nat.
Proof.
  induction n as [f t0 t1 ks IH] using call_ind'. intros inF lv.
  assert (K : forall inF lv, (fheight (flat_map (sel c inF lv) ks) <= fheight ks)%nat).
  { clear -IH. intros inF lv. induction IH as [|k ks Hk _ IHks]; [cbn; lia|].
    cbn [flat_map]. unfold fheight in *. rewrite map_app, fold_right_app. cbn [map fold_right].
    specialize (Hk inF lv).
    assert (G : forall l a, fold_right Nat.max a (map height l) = Nat.max (fold_right Nat.max 0%nat (map height l)) a).
    { induction l as [|x l IHl]; intro a; cbn [map fold_right]; [lia|]. rewrite IHl. lia. }
    rewrite G. lia. }
  cbn [sel height]. fold (fheight ks).
  destruct (q_filter (trig_of c f)) as [[|]|].
  - unfold fheight at 1. cbn [map fold_right height]. fold (fheight (flat_map (sel c true 1) ks)). specialize (K true 1%N). lia.
  - cbn. lia.
  - destruct (fmode_in c && negb inF); [specialize (K false lv); lia|].
    destruct (Z.to_N (gdepth c) <=? lv)%N; [specialize (K inF lv); lia|].
    unfold fheight at 1. cbn [map fold_right height]. fold (fheight (flat_map (sel c inF (lv + 1)) ks)).
    specialize (K inF (lv + 1)%N). lia.
Qed.

Theorem record_equals_replay_filters c f :
  filter_only c -> plt_free_all c -> no_range c = true -> wf_forest f -> (fheight f <= 1024)%nat ->
  map strip (rec_then_plain c MC.PG f) = map strip (plain_then_opt c f).
Proof.
  intros Hfo Hp Hr Hwf Hh. pose proof Hfo as (Htr & Hcl & Hthr & Hgd).
  assert (Hns : no_switch_all c) by (intro k; destruct (Htr k) as (_ & _ & A & B & _); split; assumption).
  unfold rec_then_plain, plain_then_opt.
  rewrite (record_is_sel c f Hfo Hwf Hh).
  rewrite (std_matches_select plain) by (try reflexivity; intro k; split; reflexivity).
  rewrite (std_matches_select c f Hns Hr).
  unfold select. rewrite Hthr. cbn [plain threshold].
  rewrite (tprune_forest_id c f) by (auto; intro k; apply (Htr k)).
  rewrite (tprune_forest_id plain) by (auto; intro k; reflexivity).
  cbn [plain gdepth].
  assert (Hall : Forall (vis_sel_stmt c) f) by (apply Forall_forall; intros n _; apply vis_sel; assumption).
  pose proof (vis_sel_kids c f Hall false 0%N 0 0 0 1024) as E.
  replace (gdepth c - Z.of_N 0) with (gdepth c) in E by lia. symmetry. apply E. lia.
Qed.

(* the hypotheses are satisfiable: -F alpha -N beta -D 2 *)
Lemma assoc_filter_only tr : Forall (fun p => filter_only_trig (snd p)) tr ->
  forall f, filter_only_trig (assoc notrig tr f).
Proof.
  induction 1 as [|[k v] tr Hv _ IH]; intro f; cbn [assoc].
  - unfold filter_only_trig. cbn. repeat split; reflexivity.
  - destruct (f =? k)%N; [exact Hv|apply IH].
Qed.
Example hyps_filter_only :
  filter_only (mkcfg [(1%N, ftrig (Some true)); (2%N, ftrig (Some false))] true false 2 0 0 0 [] true false)
  /\ wf_forest [Call 0 1000 2000 [Call 1 1100 1500 [Call 2 1200 1400 []]]].
Proof.
  split.
  - unfold filter_only, mkcfg. cbn [trig_of caller_filter threshold gdepth].
    split; [|repeat split; lia].
    apply assoc_filter_only. repeat constructor.
  - unfold wf_forest. repeat constructor; cbn; unfold two64; lia.
Qed.
