(* C07 - record time = replay time, unbounded, for the options -F / -N / -D / -t on the -pg shape:
   the libmcount automaton (UV.Mcount.Model, lazy ENTRY flush included) writes exactly the recording of
   the selected forest [sel]; replaying it without options shows what replaying the full recording
   with the options shows. *)
From Coq Require Import NArith ZArith List Bool Lia.
Import ListNotations.
Require Import ZifyBool ZifyN ZifyNat.
Require Import UV.Gen.Consts UV.C07.Model UV.C07.Proofs.
Local Open Scope Z_scope.
Ltac Zify.zify_post_hook ::= Z.div_mod_to_equations.

(* ------------------------------------------------------------------ the class *)
Definition filter_only_trig (q : rtrig) : Prop :=
  q_depth q = None /\ q_time q = None /\ q_trace_on q = false /\ q_trace_off q = false /\ q_trace q = false
  /\ q_caller q = false /\ q_hide q = false.
Definition filter_only (c : cfg) : Prop :=
  (forall f, filter_only_trig (trig_of c f)) /\ caller_filter c = false /\ 1 <= gdepth c /\ loc_free_all c.

(* every call takes time and lies inside its caller's interval (a call may run exactly the threshold: since /repo
   075e798 record time keeps `>=` where replay time drops `<`) *)
Fixpoint wf_call (T : N) (n : call) : Prop :=
  match n with
  | Call _ t0 t1 ks =>
      (t0 < t1)%N /\ (t1 < two64)%N /\
      (fix go (l : list call) : Prop :=
         match l with
         | [] => True
         | x :: r => (wf_call T x /\ (t0 <= c_t0 x)%N /\ (c_t1 x <= t1)%N) /\ go r
         end) ks
  end.
Definition wf_forest (c : cfg) (f : list call) : Prop := Forall (wf_call (threshold c)) f.
Lemma wf_kids T f t0 t1 ks : wf_call T (Call f t0 t1 ks) ->
  (t0 < t1)%N /\ (t1 < two64)%N /\ Forall (wf_call T) ks
  /\ Forall (fun k => (t0 <= c_t0 k)%N /\ (c_t1 k <= t1)%N) ks.
Proof.
  cbn [wf_call]. intros (A & B & D). repeat split; auto.
  - induction ks as [|k ks IH]; constructor; [apply D|apply IH; apply D].
  - induction ks as [|k ks IH]; constructor; [split; apply D|apply IH; apply D].
Qed.
Lemma tdelta_sub t0 t1 : (t0 <= t1)%N -> (t1 < two64)%N -> tdelta t1 t0 = (t1 - t0)%N.
Proof.
  intros A B. unfold tdelta, two64 in *.
  replace (t1 + 18446744073709551616 - t0)%N with ((t1 - t0) + 1 * 18446744073709551616)%N by lia.
  rewrite N.mod_add by lia. apply N.mod_small. lia.
Qed.

Fixpoint height (n : call) : nat := match n with Call _ _ _ ks => S (fold_right Nat.max 0%nat (map height ks)) end.
Definition fheight (l : list call) : nat := fold_right Nat.max 0%nat (map height l).

(* a recorded call is written when a call below it was written or it ran longer than the threshold *)
Definition keep (c : cfg) (t0 t1 : N) (gk : list call) : bool :=
  negb (is_nil gk) || (threshold c <=? tdelta t1 t0)%N.

(* the forest that is recorded: inF = inside an -F function, lv = levels used since the last reset *)
Fixpoint sel (c : cfg) (inF : bool) (lv : N) (n : call) : list call :=
  match n with
  | Call f t0 t1 ks =>
      match q_filter (trig_of c f) with
      | Some false => []
      | Some true =>
          let gk := flat_map (sel c true 1) ks in if keep c t0 t1 gk then [Call f t0 t1 gk] else []
      | None =>
          if fmode_in c && negb inF then flat_map (sel c false lv) ks
          else if (Z.to_N (gdepth c) <=? lv)%N then flat_map (sel c inF lv) ks
          else let gk := flat_map (sel c inF (lv + 1)) ks in if keep c t0 t1 gk then [Call f t0 t1 gk] else []
      end
  end.

(* ------------------------------------------------------------------ the libmcount side *)
Definition mflat_rec (x : bool) (d t f : N) : MC.rec :=
  {| MC.r_time := t; MC.r_type := if x then MC.EXIT else MC.ENTRY; MC.r_depth := d; MC.r_addr := f |}.
Fixpoint mflat (d : N) (n : call) : list MC.rec :=
  match n with
  | Call f t0 t1 ks => mflat_rec false d t0 f :: flat_map (mflat (d + 1)) ks ++ [mflat_rec true d t1 f]
  end.

Lemma mflat_flat : forall n d, map of_mrec (mflat d n) = flat (Z.of_N d) n.
Proof.
  induction n as [f t0 t1 ks IH] using call_ind'. intro d. cbn [mflat flat map]. f_equal.
  rewrite map_app. cbn [map]. f_equal.
  replace (Z.of_N d + 1) with (Z.of_N (d + 1)) by lia.
  induction IH as [|k ks Hk _ IHks]; [reflexivity|]. cbn [flat_map]. rewrite map_app, Hk, IHks. reflexivity.
Qed.

Definition pend (stk : list MC.frame) : list MC.rec := snd (MC.flush_anc stk).
Definition markw (stk : list MC.frame) : list MC.frame := fst (MC.flush_anc stk).

Lemma flush_idem stk : MC.flush_anc (markw stk) = (markw stk, []).
Proof.
  unfold markw. induction stk as [|p rest IH]; [reflexivity|].
  cbn [MC.flush_anc]. destruct (MC.written (MC.f_flags p)) eqn:W.
  - cbn [fst MC.flush_anc]. rewrite W. reflexivity.
  - destruct (MC.flush_anc rest) as [rest' recs] eqn:E. cbn [fst] in IH.
    destruct (MC.skip p) eqn:S; cbn [fst MC.flush_anc].
    + rewrite W, IH, S. reflexivity.
    + cbn [MC.set_written MC.f_flags MC.written]. reflexivity.
Qed.
Lemma pend_markw stk : pend (markw stk) = [].
Proof. unfold pend. rewrite flush_idem. reflexivity. Qed.
Lemma markw_markw stk : markw (markw stk) = markw stk.
Proof. unfold markw at 1. rewrite flush_idem. reflexivity. Qed.

(* the state of a thread in the class *)
Definition mk (i o : Z) (dp : N) (stk : list MC.frame) (ri : N) (ou : list MC.rec) : MC.st :=
  {| MC.fc := {| MC.in_count := i; MC.out_count := o; MC.depth := dp; MC.max_depth := FILTER_NO_MAX_DEPTH;
                 MC.ftime := MC.NO_TIME; MC.fsize := 0 |};
     MC.enabled := true; MC.cached := true; MC.stack := stk; MC.ridx := ri; MC.out := ou; MC.warned := false |}.

Definition after (g : list call) (i o : Z) (dp : N) (stk : list MC.frame) (ri : N) (ou : list MC.rec) : MC.st :=
  match g with
  | [] => mk i o dp stk ri ou
  | _ => mk i o dp (markw stk) ri (ou ++ pend stk ++ flat_map (mflat ri) g)
  end.

Definition sel_at (c : cfg) (i o : Z) (dp : N) (l : list call) : list call :=
  if o >? 0 then [] else flat_map (sel c (0 <? i) dp) l.

Lemma after_app g1 g2 i o dp stk ri ou :
  (let s1 := after g1 i o dp stk ri ou in after g2 i o dp (MC.stack s1) ri (MC.out s1))
  = after (g1 ++ g2) i o dp stk ri ou.
Proof.
  destruct g1 as [|x g1]; [reflexivity|]. cbn [after app mk MC.stack MC.out].
  destruct g2 as [|y g2].
  - rewrite app_nil_r. reflexivity.
  - cbn [after]. rewrite markw_markw, pend_markw. cbn [app].
    unfold mk. f_equal. rewrite <- !app_assoc. f_equal. f_equal.
    change (x :: g1 ++ y :: g2) with ((x :: g1) ++ (y :: g2)). rewrite flat_map_app. reflexivity.
Qed.

(* ------------------------------------------------------------------ single steps of the hooks in the class *)
Definition ftrig (qf : option bool) : rtrig :=
  {| q_filter := qf; q_depth := None; q_time := None; q_trace_on := false; q_trace_off := false;
     q_trace := false; q_caller := false; q_hide := false |}.
Lemma filter_only_eq q : filter_only_trig q -> q = ftrig (q_filter q).
Proof. destruct q; unfold filter_only_trig, ftrig; cbn. intros (A & B & C & D & E & F & G). subst. reflexivity. Qed.

Definition Fr (flt ntr nrc wr : bool) (a t0 t1 ri dp : N) : MC.frame :=
  {| MC.f_addr := a; MC.f_start := t0; MC.f_end := t1;
     MC.f_flags := {| MC.norecord := nrc; MC.notrace := ntr; MC.filtered := flt; MC.written := wr;
                      MC.disabled := false; MC.ftrace := false; MC.fcaller := false; MC.cygprof := false |};
     MC.f_depth := ri; MC.sv_depth := dp; MC.sv_max := FILTER_NO_MAX_DEPTH; MC.sv_time := MC.NO_TIME;
     MC.sv_size := 0; MC.f_ghost := false |}.

Section Rec.
  Variable c : cfg.
  Hypothesis Hfo : filter_only c.
  Local Notation mc := (to_mcfg c MC.PG).

  Ltac mstep :=
    unfold MC.dstep, MC.hooked, MC.do_enter, MC.do_leave, MC.entry_check, MC.entry_record, MC.exit_record,
           MC.check_rstack, MC.idx, MC.with_fc, MC.set_end, mk, Fr;
    cbn [MC.max_stack MC.stack MC.shp MC.fc MC.warned to_mcfg MC.trig_of MC.fmode_in MC.has_caller MC.gdepth
         MC.threshold MC.sym_size MC.out_count MC.in_count MC.depth MC.max_depth MC.ftime MC.fsize MC.enabled
         MC.cached MC.ridx MC.out].

  Lemma enter_out f t i o dp stk ri ou hk : o >? 0 = true -> (length stk < 1024)%nat ->
    MC.dstep mc (mk i o dp stk ri ou, hk) (MC.Enter f t) = (mk i o dp stk ri ou, false :: hk).
  Proof.
    intros Ho Hl. assert (Hidx : (1024 <=? N.of_nat (length stk))%N = false) by lia.
    mstep. rewrite Hidx. cbn. rewrite Ho. reflexivity.
  Qed.

  Lemma enter_N f t i dp stk ri ou hk : trig_of c f = ftrig (Some false) -> (length stk < 1024)%nat ->
    MC.dstep mc (mk i 0 dp stk ri ou, hk) (MC.Enter f t)
    = (mk i 1 1 (Fr false true true false f t 0 ri dp :: stk) ri ou, true :: hk).
  Proof.
    intros Htr Hl. assert (Hidx : (1024 <=? N.of_nat (length stk))%N = false) by lia.
    destruct Hfo as (_ & _ & Hgd & _).
    assert (Hg : (Z.to_N (gdepth c) <=? 0)%N = false) by lia.
    mstep. rewrite Hidx. cbn. rewrite Htr. cbn. rewrite Hg. cbn. reflexivity.
  Qed.

  Lemma enter_F f t i dp stk ri ou hk : trig_of c f = ftrig (Some true) -> (length stk < 1024)%nat -> 0 <= i ->
    MC.dstep mc (mk i 0 dp stk ri ou, hk) (MC.Enter f t)
    = (mk (i + 1) 0 1 (Fr true false false false f t 0 ri dp :: stk) (ri + 1) ou, true :: hk).
  Proof.
    intros Htr Hl Hi. assert (Hidx : (1024 <=? N.of_nat (length stk))%N = false) by lia.
    destruct Hfo as (_ & _ & Hgd & _).
    assert (Hg : (Z.to_N (gdepth c) <=? 0)%N = false) by lia.
    assert (Hi1 : (i + 1 =? 0) = false) by lia.
    mstep. rewrite Hidx. cbn. rewrite Htr. cbn. rewrite Hg. cbn. rewrite Hi1. cbn. rewrite ?andb_false_r. reflexivity.
  Qed.

  Lemma enter_hidden f t i dp stk ri ou hk : trig_of c f = ftrig None -> (length stk < 1024)%nat ->
    (fmode_in c && (i =? 0)) || (Z.to_N (gdepth c) <=? dp)%N = true ->
    MC.dstep mc (mk i 0 dp stk ri ou, hk) (MC.Enter f t) = (mk i 0 dp stk ri ou, false :: hk).
  Proof.
    intros Htr Hl Hh. assert (Hidx : (1024 <=? N.of_nat (length stk))%N = false) by lia.
    mstep. rewrite Hidx. cbn. rewrite Htr. cbn.
    destruct (fmode_in c && (i =? 0)) eqn:E1; cbn in *; [reflexivity|]. rewrite Hh. cbn. rewrite ?E1. reflexivity.
  Qed.

  Lemma enter_vis f t i dp stk ri ou hk : trig_of c f = ftrig None -> (length stk < 1024)%nat ->
    fmode_in c && (i =? 0) = false -> (Z.to_N (gdepth c) <=? dp)%N = false ->
    MC.dstep mc (mk i 0 dp stk ri ou, hk) (MC.Enter f t)
    = (mk i 0 (dp + 1) (Fr false false false false f t 0 ri dp :: stk) (ri + 1) ou, true :: hk).
  Proof.
    intros Htr Hl H1 H2. assert (Hidx : (1024 <=? N.of_nat (length stk))%N = false) by lia.
    mstep. rewrite Hidx. cbn. rewrite Htr. cbn. rewrite H1. cbn. rewrite H2. cbn.
    replace ((i =? 0) && fmode_in c) with false by (rewrite andb_comm; auto). reflexivity.
  Qed.

  Lemma leave_unhooked s t hk : MC.dstep mc (s, false :: hk) (MC.Leave t) = (s, hk).
  Proof. reflexivity. Qed.

  Lemma leave_N f t0 t i dp0 dp stk ri ou hk :
    MC.dstep mc (mk i 1 dp0 (Fr false true true false f t0 0 ri dp :: stk) ri ou, true :: hk) (MC.Leave t)
    = (mk i 0 dp stk ri ou, hk).
  Proof. mstep. cbn. reflexivity. Qed.

  Lemma leave_rec (flt wr : bool) f t0 t1 i dp0 dp stk ri ou hk : (t0 < t1)%N -> (t1 < two64)%N ->
    MC.dstep mc (mk i 0 dp0 (Fr flt false false wr f t0 0 ri dp :: stk) (ri + 1) ou, true :: hk) (MC.Leave t1)
    = (if wr || (threshold c <=? tdelta t1 t0)%N
       then mk (if flt then i - 1 else i) 0 dp (if wr then stk else markw stk) ri
               (ou ++ (if wr then [] else pend stk ++ [mflat_rec false ri t0 f]) ++ [mflat_rec true ri t1 f])
       else mk (if flt then i - 1 else i) 0 dp stk ri ou, hk).
  Proof.
    intros H01 H1. destruct Hfo as (_ & Hcl & _ & _). unfold two64 in H1. unfold tdelta, two64.
    assert (Hri : (if (0 <? ri + 1)%N then (ri + 1 - 1)%N else 0%N) = ri) by (destruct (0 <? ri + 1)%N eqn:E; lia).
    assert (Ht1 : (t1 =? 0)%N = false) by lia.
    mstep. cbn -[N.modulo N.add N.sub N.ltb MC.flush_anc]. rewrite Hcl. cbn -[N.modulo N.add N.sub N.ltb MC.flush_anc].
    rewrite Hri.
    destruct (threshold c <=? (t1 + 18446744073709551616 - t0) mod 18446744073709551616)%N eqn:EL;
      cbn -[N.modulo N.add N.sub N.ltb MC.flush_anc]; unfold MC.record_trace_data; cbn -[MC.flush_anc];
      destruct wr; cbn -[MC.flush_anc]; rewrite ?Ht1;
      try (destruct flt; reflexivity);
      unfold markw, pend; destruct (MC.flush_anc stk) as [anc' pre]; cbn; rewrite ?Ht1;
      destruct flt; cbn; rewrite <- ?app_assoc; reflexivity.
  Qed.

  Lemma exec_app es1 es2 d : MC.exec mc (es1 ++ es2) d = MC.exec mc es2 (MC.exec mc es1 d).
  Proof. unfold MC.exec. apply fold_left_app. Qed.
  Lemma exec_cons e es d : MC.exec mc (e :: es) d = MC.exec mc es (MC.dstep mc d e).
  Proof. reflexivity. Qed.

  Lemma flush_length stk : length (markw stk) = length stk.
  Proof.
    unfold markw. induction stk as [|p rest IH]; [reflexivity|]. cbn [MC.flush_anc].
    destruct (MC.written (MC.f_flags p)); [reflexivity|].
    destruct (MC.flush_anc rest) as [rest' recs]. cbn [fst] in IH.
    destruct (MC.skip p); cbn [fst length]; rewrite IH; reflexivity.
  Qed.

  Lemma markw_cons flt f t0 ri dp stk :
    markw (Fr flt false false false f t0 0 ri dp :: stk) = Fr flt false false true f t0 0 ri dp :: markw stk
    /\ pend (Fr flt false false false f t0 0 ri dp :: stk) = pend stk ++ [mflat_rec false ri t0 f].
  Proof.
    unfold markw, pend. cbn [MC.flush_anc Fr MC.f_flags MC.written]. destruct (MC.flush_anc stk) as [rest' recs].
    cbn. split; reflexivity.
  Qed.

  Lemma after_mk g i o dp stk ri ou :
    after g i o dp stk ri ou = mk i o dp (MC.stack (after g i o dp stk ri ou)) ri (MC.out (after g i o dp stk ri ou))
    /\ length (MC.stack (after g i o dp stk ri ou)) = length stk.
  Proof. destruct g; cbn [after mk MC.stack MC.out]; split; try reflexivity. apply flush_length. Qed.

  Lemma sel_at_cons i o dp k ks : sel_at c i o dp (k :: ks) = sel_at c i o dp [k] ++ sel_at c i o dp ks.
  Proof. unfold sel_at. destruct (o >? 0); [reflexivity|]. cbn [flat_map]. rewrite app_nil_r. reflexivity. Qed.

  Definition rec_call_stmt (n : call) : Prop := forall i o dp stk ri ou hk,
    0 <= i -> 0 <= o -> (length stk + height n <= 1024)%nat -> wf_call (threshold c) n ->
    MC.exec mc (events n) (mk i o dp stk ri ou, hk) = (after (sel_at c i o dp [n]) i o dp stk ri ou, hk).

  Lemma rec_kids ks : Forall rec_call_stmt ks -> forall i o dp stk ri ou hk,
    0 <= i -> 0 <= o -> (length stk + fheight ks <= 1024)%nat -> Forall (wf_call (threshold c)) ks ->
    MC.exec mc (flat_map events ks) (mk i o dp stk ri ou, hk) = (after (sel_at c i o dp ks) i o dp stk ri ou, hk).
  Proof.
    induction 1 as [|k ks Hk _ IH]; intros i o dp stk ri ou hk Hi Ho Hlen Hwf.
    - unfold sel_at. cbn. destruct (o >? 0); reflexivity.
    - inversion Hwf as [|? ? Hwk Hwks]; subst. cbn [flat_map]. rewrite exec_app.
      unfold fheight in Hlen. cbn [map fold_right] in Hlen.
      rewrite (Hk i o dp stk ri ou hk Hi Ho) by (auto; lia).
      destruct (after_mk (sel_at c i o dp [k]) i o dp stk ri ou) as [E L].
      set (s1 := after (sel_at c i o dp [k]) i o dp stk ri ou) in *.
      rewrite E.
      rewrite (IH i o dp _ ri _ hk Hi Ho) by (auto; unfold fheight; rewrite L; lia).
      rewrite sel_at_cons. rewrite <- after_app. cbn zeta. fold s1. reflexivity.
  Qed.

  Lemma rec_call : forall n, rec_call_stmt n.
  Proof.
    induction n as [f t0 t1 ks IH] using call_ind'. intros i o dp stk ri ou hk Hi Ho Hlen Hwf.
    pose proof (rec_kids ks IH) as HK.
    apply wf_kids in Hwf. destruct Hwf as (H01 & H1 & Hwk & _).
    assert (Hl : (length stk < 1024)%nat) by (cbn [height] in Hlen; lia).
    assert (Hlk0 : (length stk + fheight ks <= 1024)%nat) by (cbn [height] in Hlen; unfold fheight; lia).
    assert (Hlk1 : forall F, (length (F :: stk) + fheight ks <= 1024)%nat)
      by (intro; cbn [height length] in *; unfold fheight; lia).
    destruct Hfo as (Htr & _). pose proof (filter_only_eq _ (Htr f)) as Etr.
    cbn [events]. rewrite exec_cons, exec_app.
    unfold sel_at. cbn [flat_map sel]. rewrite app_nil_r.
    destruct (o >? 0) eqn:Eo.
    - rewrite (enter_out f t0 i o dp stk ri ou hk Eo Hl).
      rewrite (HK i o dp stk ri ou (false :: hk) Hi Ho Hlk0 Hwk). unfold sel_at. rewrite Eo. cbn [after].
      reflexivity.
    - assert (o = 0) by lia. subst o.
      destruct (q_filter (trig_of c f)) as [[|]|] eqn:Ef.
      + (* -F *)
        rewrite (enter_F f t0 i dp stk ri ou hk Etr Hl Hi).
        rewrite (HK (i + 1) 0 1%N _ (ri + 1)%N ou (true :: hk)) by (auto; lia).
        unfold sel_at. change (0 >? 0) with false. cbn iota.
        replace (0 <? i + 1) with true by lia.
        destruct (flat_map (sel c true 1) ks) as [|x g'] eqn:Eg.
        * cbn [after]. cbn [MC.exec fold_left]. rewrite (leave_rec true false f t0 t1 (i + 1) 1%N dp stk ri ou hk H01 H1).
          unfold keep. cbn [is_nil negb orb]. rewrite Z.add_simpl_r.
          destruct (threshold c <=? tdelta t1 t0)%N; [|reflexivity].
          cbn [after flat_map mflat]. unfold mk. rewrite app_nil_r.
          rewrite <- ?app_assoc. reflexivity.
        * cbn [after]. destruct (markw_cons true f t0 ri dp stk) as [M P]. rewrite M, P.
          cbn [MC.exec fold_left].
          rewrite (leave_rec true true f t0 t1 (i + 1) 1%N dp (markw stk) ri _ hk H01 H1).
          unfold keep. cbn [is_nil negb orb].
          rewrite Z.add_simpl_r. cbn [after flat_map mflat]. unfold mk. rewrite app_nil_r.
          cbn [app]. rewrite <- ?app_assoc. cbn [app]. reflexivity.
      + (* -N *)
        rewrite (enter_N f t0 i dp stk ri ou hk Etr Hl).
        rewrite (HK i 1 1%N _ ri ou (true :: hk)) by (auto; lia).
        unfold sel_at. change (1 >? 0) with true. cbn [after]. cbn [MC.exec fold_left].
        rewrite leave_N. reflexivity.
      + destruct (fmode_in c && negb (0 <? i)) eqn:Em.
        * (* outside every -F function *)
          assert (Hh : fmode_in c && (i =? 0) || (Z.to_N (gdepth c) <=? dp)%N = true).
          { replace (i =? 0) with (negb (0 <? i)) by lia. rewrite Em. reflexivity. }
          rewrite (enter_hidden f t0 i dp stk ri ou hk Etr Hl Hh).
          rewrite (HK i 0 dp stk ri ou (false :: hk) Hi Ho Hlk0 Hwk). unfold sel_at. change (0 >? 0) with false.
          cbn iota. replace (0 <? i) with false by (destruct (fmode_in c); cbn in Em; [lia|discriminate]).
          reflexivity.
        * assert (Hm : fmode_in c && (i =? 0) = false).
          { replace (i =? 0) with (negb (0 <? i)) by lia. exact Em. }
          destruct (Z.to_N (gdepth c) <=? dp)%N eqn:Ed.
          -- (* too deep *)
             assert (Hh : fmode_in c && (i =? 0) || (Z.to_N (gdepth c) <=? dp)%N = true)
               by (rewrite Ed; apply orb_true_r).
             rewrite (enter_hidden f t0 i dp stk ri ou hk Etr Hl Hh).
             rewrite (HK i 0 dp stk ri ou (false :: hk) Hi Ho Hlk0 Hwk). unfold sel_at. change (0 >? 0) with false.
             reflexivity.
          -- rewrite (enter_vis f t0 i dp stk ri ou hk Etr Hl Hm Ed).
             rewrite (HK i 0 (dp + 1)%N _ (ri + 1)%N ou (true :: hk)) by (auto; lia).
             unfold sel_at. change (0 >? 0) with false. cbn iota.
             destruct (flat_map (sel c (0 <? i) (dp + 1)) ks) as [|x g'] eqn:Eg.
             ++ cbn [after]. cbn [MC.exec fold_left].
                rewrite (leave_rec false false f t0 t1 i (dp + 1)%N dp stk ri ou hk H01 H1).
                unfold keep. cbn [is_nil negb orb].
                destruct (threshold c <=? tdelta t1 t0)%N; [|reflexivity].
                cbn [after flat_map mflat]. unfold mk. rewrite app_nil_r. rewrite <- ?app_assoc. reflexivity.
             ++ cbn [after]. destruct (markw_cons false f t0 ri dp stk) as [M P]. rewrite M, P.
                cbn [MC.exec fold_left].
                rewrite (leave_rec false true f t0 t1 i (dp + 1)%N dp (markw stk) ri _ hk H01 H1).
                unfold keep. cbn [is_nil negb orb].
                cbn [after flat_map mflat]. unfold mk. rewrite app_nil_r.
                cbn [app]. rewrite <- ?app_assoc. cbn [app]. reflexivity.
  Qed.
End Rec.

(* ------------------------------------------------------------------ what libmcount writes *)
Lemma record_is_sel c f : filter_only c -> wf_forest c f -> (fheight f <= 1024)%nat ->
  record (to_mcfg c MC.PG) f = flats 0 (flat_map (sel c false 0) f).
Proof.
  intros Hfo Hwf Hh. unfold record.
  change (MC.init, @nil bool) with (mk 0 0 0 [] 0 [], @nil bool).
  assert (Hall : Forall (rec_call_stmt c) f) by (apply Forall_forall; intros n _; apply rec_call; assumption).
  rewrite (rec_kids c f Hall 0 0 0%N [] 0%N [] []) by (auto; cbn [length]; lia).
  unfold sel_at. change (0 >? 0) with false. change (0 <? 0) with false. cbn iota. cbn [fst].
  destruct (flat_map (sel c false 0) f) as [|x g] eqn:E; [reflexivity|].
  cbn [after mk MC.out]. unfold pend. cbn [MC.flush_anc snd app].
  unfold flats. generalize (x :: g). intro l. clear.
  induction l as [|n l IH]; [reflexivity|]. cbn [flat_map]. rewrite map_app, (mflat_flat n 0), IH. reflexivity.
Qed.

(* ------------------------------------------------------------------ what the two replays show *)
Definition strip (e : vev) : bool * N * Z * N := (v_exit e, v_fn e, v_disp e, v_time e).

Lemma tprune_id c : (forall f, q_time (trig_of c f) = None) -> caller_filter c = false ->
  forall n, tprune c 0 n = [n].
Proof.
  intros Ht Hc. induction n as [f t0 t1 ks IH] using call_ind'. cbn [tprune]. rewrite Ht, Hc.
  assert (E : flat_map (tprune c 0) ks = ks).
  { induction IH as [|k ks Hk _ IHks]; [reflexivity|]. cbn [flat_map]. rewrite Hk, IHks. reflexivity. }
  rewrite E. replace (tdelta t1 t0 <? 0)%N with false by lia. reflexivity.
Qed.
Lemma tprune_forest_id c f : (forall k, q_time (trig_of c k) = None) -> caller_filter c = false ->
  flat_map (tprune c 0) f = f.
Proof.
  intros Ht Hc. induction f as [|n f IH]; [reflexivity|]. cbn [flat_map]. rewrite (tprune_id c Ht Hc n), IH. reflexivity.
Qed.

Lemma flat_map_nil {A B} (g : A -> list B) l : Forall (fun x => g x = []) l -> flat_map g l = [].
Proof. induction 1 as [|x l Hx _ IH]; [reflexivity|]. cbn [flat_map]. rewrite Hx, IH. reflexivity. Qed.

(* a call shorter than the threshold disappears with everything below it, at both times *)
Lemma short_gone c : filter_only c -> forall n, wf_call (threshold c) n ->
  (tdelta (c_t1 n) (c_t0 n) < threshold c)%N ->
  tprune c (threshold c) n = [] /\ forall inF lv, sel c inF lv n = [].
Proof.
  intros (Htr & Hcl & _ & _). induction n as [f t0 t1 ks IH] using call_ind'. intros Hwf Hs.
  apply wf_kids in Hwf. destruct Hwf as (H01 & H1 & Hwk & Hin). cbn [c_t0 c_t1] in Hs.
  rewrite (tdelta_sub t0 t1) in Hs by lia.
  assert (K : Forall (fun k => tprune c (threshold c) k = [] /\ forall inF lv, sel c inF lv k = []) ks).
  { rewrite Forall_forall in *. intros k Hk. apply (IH k Hk (Hwk k Hk)).
    specialize (Hwk k Hk). specialize (Hin k Hk). destruct k as [fk a b kk]. cbn [c_t0 c_t1] in *.
    apply wf_kids in Hwk. destruct Hwk as (A & B & _). rewrite (tdelta_sub a b) by lia. lia. }
  destruct (Htr f) as (Q1 & Q2 & Q3 & Q4 & Q5 & Q6 & Q7).
  assert (Ks : forall inF lv, flat_map (sel c inF lv) ks = []).
  { intros inF lv. apply flat_map_nil. eapply Forall_impl; [|exact K]. cbn. intros k [_ H]. apply H. }
  split.
  - cbn [tprune]. rewrite Q2, Q5, Hcl.
    rewrite (flat_map_nil (tprune c (threshold c)) ks) by (eapply Forall_impl; [|exact K]; cbn; intros k [H _]; exact H).
    rewrite (tdelta_sub t0 t1) by lia. replace (t1 - t0 <? threshold c)%N with true by lia. reflexivity.
  - intros inF lv. cbn [sel]. rewrite !Ks. unfold keep. cbn [is_nil negb orb].
    rewrite (tdelta_sub t0 t1) by lia. replace (threshold c <=? t1 - t0)%N with false by lia.
    destruct (q_filter (trig_of c f)) as [[|]|]; try reflexivity.
    destruct (fmode_in c && negb inF); [reflexivity|]. destruct (Z.to_N (gdepth c) <=? lv)%N; reflexivity.
Qed.

Lemma long_kept c : filter_only c -> forall f t0 t1 ks, (t0 < t1)%N -> (t1 < two64)%N ->
  (threshold c <= tdelta t1 t0)%N ->
  tprune c (threshold c) (Call f t0 t1 ks) = [Call f t0 t1 (flat_map (tprune c (threshold c)) ks)].
Proof.
  intros (Htr & Hcl & _ & _) f t0 t1 ks H01 H1 Hl. destruct (Htr f) as (Q1 & Q2 & Q3 & Q4 & Q5 & Q6 & Q7).
  cbn [tprune]. rewrite Q2, Hcl. replace (tdelta t1 t0 <? threshold c)%N with false by lia. reflexivity.
Qed.

Definition vis_sel_stmt (c : cfg) (n : call) : Prop :=
  forall inF lv d rd rd' b, Z.of_nat (height n) <= b -> wf_call (threshold c) n ->
    map strip (flat_map (vis c inF (gdepth c - Z.of_N lv) d rd) (tprune c (threshold c) n))
    = map strip (flat_map (vis plain false b d rd') (sel c inF lv n)).

Lemma vis_sel_kids c ks : Forall (vis_sel_stmt c) ks ->
  forall inF lv d rd rd' b, Z.of_nat (fheight ks) <= b -> Forall (wf_call (threshold c)) ks ->
    map strip (flat_map (vis c inF (gdepth c - Z.of_N lv) d rd) (flat_map (tprune c (threshold c)) ks))
    = map strip (flat_map (vis plain false b d rd') (flat_map (sel c inF lv) ks)).
Proof.
  induction 1 as [|k ks Hk _ IH]; intros inF lv d rd rd' b Hb Hwf; [reflexivity|].
  inversion Hwf as [|? ? Hwk Hwks]; subst.
  unfold fheight in Hb. cbn [map fold_right] in Hb.
  cbn [flat_map]. rewrite !flat_map_app, !map_app. rewrite (Hk inF lv d rd rd' b) by (auto; lia).
  rewrite (IH inF lv d rd rd' b) by (auto; unfold fheight; lia). reflexivity.
Qed.

Lemma vis_sel c : filter_only c -> plt_free_all c -> forall n, vis_sel_stmt c n.
Proof.
  intros Hfo Hp. pose proof Hfo as (Htr & _ & Hgd & Hlf). induction n as [f t0 t1 ks IH] using call_ind'.
  intros inF lv d rd rd' b Hb Hwf. pose proof (vis_sel_kids c ks IH) as HK.
  pose proof Hwf as Hwf0. apply wf_kids in Hwf. destruct Hwf as (H01 & H1 & Hwk & _).
  assert (Hcase : (tdelta t1 t0 < threshold c)%N \/ (threshold c <= tdelta t1 t0)%N) by lia.
  destruct Hcase as [Hs|Hl].
  { destruct (short_gone c Hfo _ Hwf0 Hs) as [E1 E2]. rewrite E1, E2. reflexivity. }
  rewrite (long_kept c Hfo f t0 t1 ks H01 H1 Hl).
  cbn [height] in Hb. fold (fheight ks) in Hb.
  destruct (Htr f) as (Q1 & Q2 & Q3 & Q4 & Q5 & Q6 & Q7).
  cbn [flat_map vis sel]. rewrite app_nil_r. rewrite Q1, Q7, (Hp f), (loc_free_hidden c f Hlf).
  unfold keep. replace (threshold c <=? tdelta t1 t0)%N with true by lia. rewrite !orb_true_r.
  destruct (q_filter (trig_of c f)) as [[|]|] eqn:Ef.
  - (* -F *)
    cbn [negb andb orb]. replace (gdepth c <=? 0) with false by lia. cbn [orb].
    cbn [flat_map vis]. rewrite app_nil_r. cbn [plain trig_of notrig q_filter q_depth q_hide fmode_in negb andb orb gdepth].
    change (loc_hidden plain f) with false. cbn iota.
    replace (b <=? 0) with false by lia. cbn [orb]. unfold hidden_plt at 1. cbn [plain libcall negb andb].
    cbn [map]. rewrite !map_app. cbn [map strip v_exit v_fn v_disp v_time]. f_equal. f_equal.
    replace (gdepth c - 1) with (gdepth c - Z.of_N 1) by lia.
    apply HK; [lia|assumption].
  - reflexivity.
  - cbn [negb andb orb]. rewrite ?orb_false_r.
    destruct (fmode_in c && negb inF) eqn:Em.
    + apply HK; [lia|assumption].
    + replace (gdepth c - Z.of_N lv <=? 0) with (Z.to_N (gdepth c) <=? lv)%N by lia.
      destruct (Z.to_N (gdepth c) <=? lv)%N eqn:Ed; cbn [orb].
      * apply HK; [lia|assumption].
      * cbn [flat_map vis]. rewrite app_nil_r.
        cbn [plain trig_of notrig q_filter q_depth q_hide fmode_in negb andb orb gdepth].
    change (loc_hidden plain f) with false. cbn iota.
        replace (b <=? 0) with false by lia. cbn [orb]. unfold hidden_plt at 1. cbn [plain libcall negb andb].
        cbn [map]. rewrite !map_app. cbn [map strip v_exit v_fn v_disp v_time]. f_equal. f_equal.
        replace (gdepth c - Z.of_N lv - 1) with (gdepth c - Z.of_N (lv + 1)) by lia.
        apply HK; [lia|assumption].
Qed.

Lemma sel_height c : forall n inF lv, (fheight (sel c inF lv n) <= height n)%nat.
Proof.
  induction n as [f t0 t1 ks IH] using call_ind'. intros inF lv.
  assert (K : forall inF lv, (fheight (flat_map (sel c inF lv) ks) <= fheight ks)%nat).
  { clear -IH. intros inF lv. induction IH as [|k ks Hk _ IHks]; [cbn; lia|].
    cbn [flat_map]. unfold fheight in *. rewrite map_app, fold_right_app. cbn [map fold_right].
    specialize (Hk inF lv).
    assert (G : forall l a, fold_right Nat.max a (map height l) = Nat.max (fold_right Nat.max 0%nat (map height l)) a).
    { induction l as [|x l IHl]; intro a; cbn [map fold_right]; [lia|]. rewrite IHl. lia. }
    rewrite G. lia. }
  cbn [sel height]. fold (fheight ks).
  destruct (q_filter (trig_of c f)) as [[|]|].
  - destruct (keep c t0 t1 _); [|cbn; lia].
    unfold fheight at 1. cbn [map fold_right height]. fold (fheight (flat_map (sel c true 1) ks)). specialize (K true 1%N). lia.
  - cbn. lia.
  - destruct (fmode_in c && negb inF); [specialize (K false lv); lia|].
    destruct (Z.to_N (gdepth c) <=? lv)%N; [specialize (K inF lv); lia|].
    destruct (keep c t0 t1 _); [|cbn; lia].
    unfold fheight at 1. cbn [map fold_right height]. fold (fheight (flat_map (sel c inF (lv + 1)) ks)).
    specialize (K inF (lv + 1)%N). lia.
Qed.

Theorem record_equals_replay_filters c f :
  filter_only c -> plt_free_all c -> no_range c = true -> wf_forest c f -> (fheight f <= 1024)%nat ->
  map strip (rec_then_plain c MC.PG f) = map strip (plain_then_opt c f).
Proof.
  intros Hfo Hp Hr Hwf Hh. pose proof Hfo as (Htr & Hcl & Hgd & Hlf).
  assert (Hns : no_switch_all c) by (intro k; destruct (Htr k) as (_ & _ & A & B & _); split; assumption).
  unfold rec_then_plain, plain_then_opt.
  rewrite (record_is_sel c f Hfo Hwf Hh).
  rewrite (std_matches_select plain) by (try reflexivity; intro k; split; reflexivity).
  rewrite (std_matches_select c f Hns Hr).
  unfold select. cbn [plain threshold].
  rewrite (tprune_forest_id plain) by (auto; intro k; reflexivity).
  cbn [plain gdepth].
  assert (Hall : Forall (vis_sel_stmt c) f) by (apply Forall_forall; intros n _; apply vis_sel; assumption).
  pose proof (vis_sel_kids c f Hall false 0%N 0 0 0 1024) as E.
  replace (gdepth c - Z.of_N 0) with (gdepth c) in E by lia. symmetry. apply E; [lia|exact Hwf].
Qed.

(* the hypotheses are satisfiable: -F alpha -N beta -D 2 -t 150 *)
Lemma assoc_filter_only tr : Forall (fun p => filter_only_trig (snd p)) tr ->
  forall f, filter_only_trig (assoc notrig tr f).
Proof.
  induction 1 as [|[k v] tr Hv _ IH]; intro f; cbn [assoc].
  - unfold filter_only_trig. cbn. repeat split; reflexivity.
  - destruct (f =? k)%N; [exact Hv|apply IH].
Qed.
Definition c_ex : cfg := mkcfg [(1%N, ftrig (Some true)); (2%N, ftrig (Some false))] true false 2 150 0 0 [] true false.
Definition f_ex : list call :=
  [Call 0 1000 2000 [Call 1 1100 1500 [Call 2 1200 1400 []; Call 3 1410 1420 []]; Call 1 1600 1700 []]].
Example hyps_filter_only : filter_only c_ex /\ wf_forest c_ex f_ex.
Proof.
  split.
  - unfold filter_only, c_ex, mkcfg, mkcfgL, loc_free_all. cbn [trig_of caller_filter threshold gdepth loc_of lmode_in].
    split; [|repeat split; try reflexivity; lia].
    apply assoc_filter_only. repeat constructor.
  - unfold wf_forest, c_ex, f_ex, mkcfg, mkcfgL. cbn [threshold]. repeat constructor; cbn; unfold two64; try lia.
    all: vm_compute; congruence.
Qed.
Example ex_filter_only_shows :
  map strip (plain_then_opt c_ex f_ex) = [(false, 1%N, 0, 1100%N); (true, 1%N, 0, 1500%N)].
Proof. vm_compute. reflexivity. Qed.
