(* C07 - record time = replay time, unbounded, for time= triggers together with -C, `trace` and -t when no call
   is hidden by -F / -N / -D (-pg shape).  libmcount's per-frame saved time threshold (filter.time, restored
   at exit) plays the role of replay's per-task stack of time= overrides: the data file is the recording of
   the forest pruned by replay's look-ahead rule. *)
From Coq Require Import NArith ZArith List Bool Lia.
Import ListNotations.
Require Import ZifyBool ZifyN ZifyNat.
Require Import UV.Gen.Consts UV.C07.Model UV.C07.Proofs UV.C07.RecordProof UV.C07.Switch UV.C07.RecordProofB.
Local Open Scope Z_scope.

Definition ttrig (tq : option N) (cl tr : bool) : rtrig :=
  {| q_filter := None; q_depth := None; q_time := tq; q_trace_on := false; q_trace_off := false;
     q_trace := tr; q_caller := cl; q_hide := false |}.
Definition classT (c : cfg) : Prop :=
  (forall f, trig_of c f = ttrig (q_time (trig_of c f)) (q_caller (trig_of c f)) (q_trace (trig_of c f))
             /\ q_time (trig_of c f) <> Some MC.NO_TIME)
  /\ fmode_in c = false /\ 1 <= gdepth c /\ loc_free_all c.

(* the threshold in force below a call *)
Definition th_of (c : cfg) (thr : N) (f : N) : N := match q_time (trig_of c f) with Some t => t | None => thr end.
(* calls take time *)
Fixpoint wfT (c : cfg) (thr : N) (n : call) : Prop :=
  match n with
  | Call f t0 t1 ks =>
      (t0 < t1)%N /\ (t1 < two64)%N /\
      (fix go (l : list call) : Prop := match l with [] => True | x :: r => wfT c (th_of c thr f) x /\ go r end) ks
  end.
Lemma wfT_kids c thr f t0 t1 ks : wfT c thr (Call f t0 t1 ks) ->
  (t0 < t1)%N /\ (t1 < two64)%N /\ Forall (wfT c (th_of c thr f)) ks.
Proof.
  cbn [wfT]. intros (A & B & D). repeat split; auto.
  induction ks as [|k ks IH]; constructor; [apply D|apply IH; apply D].
Qed.

Definition mkT (i : Z) (dp ft : N) (stk : list MC.frame) (ri : N) (ou : list MC.rec) : MC.st :=
  {| MC.fc := {| MC.in_count := i; MC.out_count := 0; MC.depth := dp; MC.max_depth := FILTER_NO_MAX_DEPTH;
                 MC.ftime := ft; MC.fsize := 0 |};
     MC.enabled := true; MC.cached := true; MC.stack := stk; MC.ridx := ri; MC.out := ou; MC.warned := false |}.
Definition afterT (g : list call) (i : Z) (dp ft : N) (stk : list MC.frame) (ri : N) (ou : list MC.rec) : MC.st :=
  match g with
  | [] => mkT i dp ft stk ri ou
  | _ => mkT i dp ft (markw stk) ri (ou ++ pend stk ++ flat_map (mflat ri) g)
  end.
Lemma afterT_app g1 g2 i dp ft stk ri ou :
  (let s1 := afterT g1 i dp ft stk ri ou in afterT g2 i dp ft (MC.stack s1) ri (MC.out s1))
  = afterT (g1 ++ g2) i dp ft stk ri ou.
Proof.
  destruct g1 as [|x g1]; [reflexivity|]. cbn [afterT app mkT MC.stack MC.out].
  destruct g2 as [|y g2].
  - rewrite app_nil_r. reflexivity.
  - cbn [afterT]. rewrite markw_markw, pend_markw. cbn [app].
    unfold mkT. f_equal. rewrite <- !app_assoc. f_equal. f_equal.
    change (x :: g1 ++ y :: g2) with ((x :: g1) ++ (y :: g2)). rewrite flat_map_app. reflexivity.
Qed.
Lemma afterT_mk g i dp ft stk ri ou :
  afterT g i dp ft stk ri ou = mkT i dp ft (MC.stack (afterT g i dp ft stk ri ou)) ri (MC.out (afterT g i dp ft stk ri ou))
  /\ length (MC.stack (afterT g i dp ft stk ri ou)) = length stk.
Proof. destruct g; cbn [afterT mkT MC.stack MC.out]; split; try reflexivity. apply flush_length. Qed.

Definition FrT (cl tr wr : bool) (a t0 t1 ri dp svt : N) : MC.frame :=
  {| MC.f_addr := a; MC.f_start := t0; MC.f_end := t1;
     MC.f_flags := {| MC.norecord := false; MC.notrace := false; MC.filtered := false; MC.written := wr;
                      MC.disabled := false; MC.ftrace := tr; MC.fcaller := cl; MC.cygprof := false |};
     MC.f_depth := ri; MC.sv_depth := dp; MC.sv_max := FILTER_NO_MAX_DEPTH; MC.sv_time := svt;
     MC.sv_size := 0; MC.f_ghost := false |}.
Lemma markw_consT cl tr f t0 ri dp svt stk :
  markw (FrT cl tr false f t0 0 ri dp svt :: stk) = FrT cl tr true f t0 0 ri dp svt :: markw stk
  /\ pend (FrT cl tr false f t0 0 ri dp svt :: stk) = pend stk ++ [mflat_rec false ri t0 f].
Proof.
  unfold markw, pend. cbn [MC.flush_anc FrT MC.f_flags MC.written]. destruct (MC.flush_anc stk) as [rest' recs].
  cbn. split; reflexivity.
Qed.

(* mcount_exit_filter_record: FILTER_NO_TIME means "use -t" *)
Definition thr_of (c : cfg) (ft : N) : N := if (ft =? MC.NO_TIME)%N then threshold c else ft.

Section RecT.
  Variable c : cfg.
  Hypothesis HT : classT c.
  Local Notation mc := (to_mcfg c MC.PG).

  Ltac mstep :=
    unfold MC.dstep, MC.hooked, MC.do_enter, MC.do_leave, MC.entry_check, MC.entry_record, MC.exit_record,
           MC.check_rstack, MC.idx, MC.with_fc, MC.set_end, mkT, FrT;
    cbn [MC.max_stack MC.stack MC.shp MC.fc MC.warned to_mcfg MC.trig_of MC.fmode_in MC.has_caller MC.gdepth
         MC.threshold MC.sym_size MC.out_count MC.in_count MC.depth MC.max_depth MC.ftime MC.fsize MC.enabled
         MC.cached MC.ridx MC.out].

  Definition ft_next (ft f : N) : N := match q_time (trig_of c f) with Some t => t | None => ft end.

  Lemma thr_next ft f : thr_of c (ft_next ft f) = th_of c (thr_of c ft) f.
  Proof.
    unfold ft_next, th_of, thr_of. destruct HT as (Htr & _). destruct (Htr f) as [_ Hn].
    destruct (q_time (trig_of c f)) as [t|]; [|reflexivity].
    destruct (t =? MC.NO_TIME)%N eqn:E; [|reflexivity]. exfalso. apply Hn. f_equal. lia.
  Qed.

  Lemma enterT f t i dp ft stk ri ou hk : (length stk < 1024)%nat -> (Z.to_N (gdepth c) <=? dp)%N = false ->
    MC.dstep mc (mkT i dp ft stk ri ou, hk) (MC.Enter f t)
    = (mkT i (dp + 1) (ft_next ft f)
           (FrT (q_caller (trig_of c f)) (q_trace (trig_of c f)) false f t 0 ri dp ft :: stk) (ri + 1) ou, true :: hk).
  Proof.
    intros Hl Hd. assert (Hidx : (1024 <=? N.of_nat (length stk))%N = false) by lia.
    destruct HT as (Htr & Hfm & _ & _). destruct (Htr f) as [Ef _].
    mstep. rewrite Hidx. cbn. rewrite Ef. cbn. rewrite Hfm. cbn. rewrite Hd. cbn. rewrite ?andb_false_r.
    unfold ft_next. rewrite Ef. cbn. reflexivity.
  Qed.

  Lemma leaveT (cl tr wr : bool) f t0 t1 i dp0 dp ft svt stk ri ou hk : (t0 < t1)%N -> (t1 < two64)%N ->
    MC.dstep mc (mkT i dp0 ft (FrT cl tr wr f t0 0 ri dp svt :: stk) (ri + 1) ou, true :: hk) (MC.Leave t1)
    = (if ((thr_of c ft <=? tdelta t1 t0)%N && (negb (caller_filter c) || cl)) || wr || tr
       then mkT i dp svt (if wr then stk else markw stk) ri
                (ou ++ (if wr then [] else pend stk ++ [mflat_rec false ri t0 f]) ++ [mflat_rec true ri t1 f])
       else mkT i dp svt stk ri ou, hk).
  Proof.
    intros H01 H1. unfold two64 in H1. unfold tdelta, two64, thr_of.
    assert (Hri : (if (0 <? ri + 1)%N then (ri + 1 - 1)%N else 0%N) = ri) by (destruct (0 <? ri + 1)%N eqn:E; lia).
    assert (Ht1 : (t1 =? 0)%N = false) by lia.
    mstep. cbn -[N.modulo N.add N.sub N.ltb N.eqb MC.flush_anc MC.NO_TIME]. rewrite Hri.
    destruct ((if (ft =? MC.NO_TIME)%N then threshold c else ft) <=? (t1 + 18446744073709551616 - t0) mod 18446744073709551616)%N eqn:EL;
      destruct (caller_filter c), cl, wr, tr;
      cbn -[N.modulo N.add N.sub N.ltb N.eqb MC.flush_anc MC.NO_TIME]; unfold MC.record_trace_data;
      cbn -[MC.flush_anc MC.NO_TIME N.eqb];
      rewrite ?Ht1; try reflexivity;
      unfold markw, pend; destruct (MC.flush_anc stk) as [anc' pre]; cbn -[MC.NO_TIME N.eqb]; rewrite ?Ht1;
      cbn -[MC.NO_TIME N.eqb]; rewrite <- ?app_assoc; reflexivity.
  Qed.

  Lemma execT_app es1 es2 d : MC.exec mc (es1 ++ es2) d = MC.exec mc es2 (MC.exec mc es1 d).
  Proof. unfold MC.exec. apply fold_left_app. Qed.
  Lemma execT_cons e es d : MC.exec mc (e :: es) d = MC.exec mc es (MC.dstep mc d e).
  Proof. reflexivity. Qed.

  Definition recT_call_stmt (n : call) : Prop := forall i dp ft stk ri ou hk,
    (length stk + height n <= 1024)%nat -> (Z.of_N dp + Z.of_nat (height n) <= gdepth c) ->
    wfT c (thr_of c ft) n ->
    MC.exec mc (events n) (mkT i dp ft stk ri ou, hk) = (afterT (tprune c (thr_of c ft) n) i dp ft stk ri ou, hk).

  Lemma recT_kids ks : Forall recT_call_stmt ks -> forall i dp ft stk ri ou hk,
    (length stk + fheight ks <= 1024)%nat -> (Z.of_N dp + Z.of_nat (fheight ks) <= gdepth c) ->
    Forall (wfT c (thr_of c ft)) ks ->
    MC.exec mc (flat_map events ks) (mkT i dp ft stk ri ou, hk)
    = (afterT (flat_map (tprune c (thr_of c ft)) ks) i dp ft stk ri ou, hk).
  Proof.
    induction 1 as [|k ks Hk _ IH]; intros i dp ft stk ri ou hk Hlen Hd Hwf; [reflexivity|].
    inversion Hwf as [|? ? Hwk Hwks]; subst. cbn [flat_map]. rewrite execT_app.
    unfold fheight in Hlen, Hd. cbn [map fold_right] in Hlen, Hd.
    rewrite (Hk i dp ft stk ri ou hk) by (auto; lia).
    destruct (afterT_mk (tprune c (thr_of c ft) k) i dp ft stk ri ou) as [E L].
    set (s1 := afterT (tprune c (thr_of c ft) k) i dp ft stk ri ou) in *.
    rewrite E.
    rewrite (IH i dp ft _ ri _ hk) by (auto; unfold fheight; rewrite ?L; lia).
    rewrite <- afterT_app. cbn zeta. fold s1. reflexivity.
  Qed.

  Lemma recT_call : forall n, recT_call_stmt n.
  Proof.
    induction n as [f t0 t1 ks IH] using call_ind'. intros i dp ft stk ri ou hk Hlen Hd Hwf.
    pose proof (recT_kids ks IH) as HK.
    apply wfT_kids in Hwf. destruct Hwf as (H01 & H1 & Hwk).
    cbn [height] in Hlen, Hd. fold (fheight ks) in Hlen, Hd.
    assert (Hl : (length stk < 1024)%nat) by lia.
    assert (Hdp : (Z.to_N (gdepth c) <=? dp)%N = false) by lia.
    destruct HT as (Htr & _). destruct (Htr f) as [Ef _].
    cbn [events]. rewrite execT_cons, execT_app. rewrite (enterT f t0 i dp ft stk ri ou hk Hl Hdp).
    rewrite <- (thr_next ft f) in Hwk.
    rewrite (HK i (dp + 1)%N (ft_next ft f) _ (ri + 1)%N ou (true :: hk)) by (auto; cbn [length]; lia).
    cbn [tprune]. fold (th_of c (thr_of c ft) f). rewrite <- (thr_next ft f).
    replace (negb (tdelta t1 t0 <? thr_of c (ft_next ft f))%N) with (thr_of c (ft_next ft f) <=? tdelta t1 t0)%N by lia.
    destruct (flat_map (tprune c (thr_of c (ft_next ft f))) ks) as [|x g'] eqn:Eg.
    - cbn [afterT]. cbn [MC.exec fold_left].
      rewrite (leaveT _ _ false f t0 t1 i (dp + 1)%N dp (ft_next ft f) ft stk ri ou hk H01 H1).
      cbn [negb orb]. rewrite !orb_false_r.
      destruct ((thr_of c (ft_next ft f) <=? tdelta t1 t0)%N && (negb (caller_filter c) || q_caller (trig_of c f))
                || q_trace (trig_of c f)); [|reflexivity].
      cbn [afterT flat_map mflat]. unfold mkT. rewrite app_nil_r. rewrite <- ?app_assoc. reflexivity.
    - cbn [afterT].
      destruct (markw_consT (q_caller (trig_of c f)) (q_trace (trig_of c f)) f t0 ri dp ft stk) as [M P].
      rewrite M, P. cbn [MC.exec fold_left].
      rewrite (leaveT _ _ true f t0 t1 i (dp + 1)%N dp (ft_next ft f) ft (markw stk) ri _ hk H01 H1).
      cbn [negb orb]. rewrite !orb_true_r. cbn [orb].
      cbn [afterT flat_map mflat]. unfold mkT. rewrite app_nil_r.
      cbn [app]. rewrite <- ?app_assoc. cbn [app]. reflexivity.
  Qed.
End RecT.

Definition wfT_forest (c : cfg) (f : list call) : Prop := Forall (wfT c (threshold c)) f.

Lemma record_is_pruned_T c f : classT c -> wfT_forest c f -> (fheight f <= 1024)%nat ->
  Z.of_nat (fheight f) <= gdepth c ->
  record (to_mcfg c MC.PG) f = flats 0 (flat_map (tprune c (threshold c)) f).
Proof.
  intros HT Hwf Hh Hg. unfold record.
  change (MC.init, @nil bool) with (mkT 0 0 MC.NO_TIME [] 0 [], @nil bool).
  assert (Hall : Forall (recT_call_stmt c) f) by (apply Forall_forall; intros n _; apply recT_call; assumption).
  assert (E0 : thr_of c MC.NO_TIME = threshold c) by reflexivity.
  rewrite (recT_kids c f Hall 0 0%N MC.NO_TIME [] 0%N [] []) by (auto; cbn [length]; rewrite ?E0; auto; lia).
  rewrite E0. cbn [fst].
  destruct (flat_map (tprune c (threshold c)) f) as [|x g] eqn:E; [reflexivity|].
  cbn [afterT mkT MC.out]. unfold pend. cbn [MC.flush_anc snd app].
  unfold flats. generalize (x :: g). intro l. clear.
  induction l as [|n l IH]; [reflexivity|]. cbn [flat_map]. rewrite map_app, (mflat_flat n 0), IH. reflexivity.
Qed.

Theorem record_equals_replay_time c f :
  classT c -> plt_free_all c -> no_range c = true -> wfT_forest c f -> (fheight f <= 1024)%nat ->
  Z.of_nat (fheight f) <= gdepth c ->
  rec_then_plain c MC.PG f = plain_then_opt c f.
Proof.
  intros HT Hp Hr Hwf Hh Hg. pose proof HT as (Htr & Hfm & Hgd & Hlf).
  assert (Hns : no_switch_all c) by (intro k; destruct (Htr k) as [E _]; rewrite E; split; reflexivity).
  assert (Huc : unfiltered c).
  { split; [|repeat split; try assumption; apply Hlf]. intro k. destruct (Htr k) as [E _]. rewrite E. repeat split; reflexivity. }
  assert (Hup : unfiltered plain).
  { split; [intro k; repeat split; reflexivity|]. split; [reflexivity|]. split; [intro k; reflexivity|].
    split; [intro; reflexivity|reflexivity]. }
  unfold rec_then_plain, plain_then_opt.
  rewrite (record_is_pruned_T c f HT Hwf Hh Hg).
  set (p := flat_map (tprune c (threshold c)) f).
  assert (Hhp : fheightZ p <= fheightZ f) by apply tprune_forest_height.
  rewrite (fheightZ_nat f) in Hhp.
  rewrite (std_matches_select plain) by (try reflexivity; intro k; split; reflexivity).
  rewrite (std_matches_select c f Hns Hr).
  unfold select. fold p. cbn [plain threshold gdepth].
  rewrite (tprune_forest_id plain) by (auto; intro k; reflexivity).
  rewrite (vis_all_forest plain p false 1024 Hup) by lia.
  rewrite (vis_all_forest c p false (gdepth c) Huc) by lia. reflexivity.
Qed.

(* the hypotheses are satisfiable: -T alpha@time=300 -T gamma@time=5 -C beta -t 150 *)
Definition c_exT : cfg :=
  mkcfg [(1%N, ttrig (Some 300%N) false false); (3%N, ttrig (Some 5%N) false false); (2%N, ttrig None true false)]
        false true 1024 150 0 0 [] true false.
Definition f_exT : list call :=
  [Call 0 1000 3000 [Call 1 1100 1900 [Call 2 1200 1400 [Call 3 1250 1260 []]; Call 2 1410 1420 []]; Call 2 2000 2200 []]].
Lemma assoc_classT tr : Forall (fun p => snd p = ttrig (q_time (snd p)) (q_caller (snd p)) (q_trace (snd p))
                                         /\ q_time (snd p) <> Some MC.NO_TIME) tr ->
  forall f, assoc notrig tr f = ttrig (q_time (assoc notrig tr f)) (q_caller (assoc notrig tr f)) (q_trace (assoc notrig tr f))
            /\ q_time (assoc notrig tr f) <> Some MC.NO_TIME.
Proof.
  induction 1 as [|[k v] tr Hv _ IH]; intro f; cbn [assoc]; [split; [reflexivity|discriminate]|].
  destruct (f =? k)%N; [exact Hv|apply IH].
Qed.
Example hyps_classT : classT c_exT /\ wfT_forest c_exT f_exT
  /\ map ob_n (plain_then_opt c_exT f_exT)
     = [(false, 0%N); (false, 2%N); (true, 2%N); (true, 0%N)].
Proof.
  split; [|split].
  - unfold classT, c_exT, mkcfg, mkcfgL, loc_free_all. cbn [trig_of fmode_in gdepth loc_of lmode_in].
    split; [|repeat split; try reflexivity; lia].
    apply assoc_classT. repeat constructor; discriminate.
  - unfold wfT_forest, c_exT, f_exT, mkcfg, mkcfgL. cbn [threshold]. repeat constructor; cbn; unfold two64; try lia.
    all: vm_compute; congruence.
  - vm_compute. reflexivity.
Qed.
