(* C07 - the size filter (-Z SIZE, -T f@size=N): the documented semantics as an event view (select_size) and as a
   tree view (zprune, used by the checker ok_size: small functions spliced out together with the time filter); -Z alone hides exactly what -H on every smaller function hides,
   which ties the size filter to the proved semantics of the hide option. *)
From Coq Require Import NArith ZArith List Bool Lia.
Import ListNotations.
Require Import UV.C07.Model UV.C07.Check UV.C07.Proofs.
Require UV.C07.RecordProof.
Local Open Scope Z_scope.
Import RecordProof.

Lemma vis_size_hide szof zs : forall n b d rd, Z.of_nat (height n) <= b ->
  vis_size szof (fun _ => None) zs d rd n = vis (hide_small szof zs) false b d rd n.
Proof.
  induction n as [f t0 t1 ks IH] using call_ind'. intros b d rd Hb.
  cbn [height] in Hb. fold (fheight ks) in Hb.
  assert (K : forall b d rd, Z.of_nat (fheight ks) <= b ->
            flat_map (vis_size szof (fun _ => None) zs d rd) ks = flat_map (vis (hide_small szof zs) false b d rd) ks).
  { clear Hb b d rd. induction IH as [|k ks Hk _ IHk]; intros b d rd Hb; [reflexivity|].
    unfold fheight in Hb. cbn [map fold_right] in Hb. cbn [flat_map].
    rewrite (Hk b d rd) by lia. rewrite (IHk b d rd) by (unfold fheight; lia). reflexivity. }
  cbn [vis_size vis hide_small trig_of q_filter q_depth q_hide fmode_in negb andb orb gdepth].
  change (loc_hidden (hide_small szof zs) f) with false. cbn iota.
  replace (b <=? 0) with false by lia. cbn [orb].
  destruct (szof f <? zs)%N.
  - apply K. lia.
  - unfold hidden_plt. cbn [hide_small libcall negb andb]. rewrite (K (b - 1)) by lia. reflexivity.
Qed.

Theorem size_filter_is_hide szof zs f : (fheight f <= 1024)%nat ->
  select_size szof (fun _ => None) zs f = select (hide_small szof zs) f.
Proof.
  intro Hh. unfold select_size, select. cbn [hide_small threshold gdepth].
  rewrite (tprune_forest_id (hide_small szof zs)) by (auto; intro k; reflexivity).
  induction f as [|n f IH]; [reflexivity|].
  unfold fheight in Hh. cbn [map fold_right] in Hh. cbn [flat_map].
  rewrite (vis_size_hide szof zs n 1024) by lia. rewrite IH by (unfold fheight; lia). reflexivity.
Qed.

(* the tree view and the event view of the size filter are the same thing *)
Lemma fheight_cons n f : fheight (n :: f) = Nat.max (height n) (fheight f).
Proof. reflexivity. Qed.
Lemma fheight_app f g : fheight (f ++ g) = Nat.max (fheight f) (fheight g).
Proof. induction f as [|n f IH]; [reflexivity|]. cbn [app]. rewrite !fheight_cons, IH. lia. Qed.

Lemma zprune_height szof ztr : forall n zs, (fheight (zprune plain szof ztr zs 0 n) <= height n)%nat.
Proof.
  induction n as [f t0 t1 ks IH] using call_ind'. intro zs. cbn [zprune height plain trig_of notrig q_time]. fold (fheight ks).
  set (zs' := match ztr f with Some z => z | None => zs end).
  assert (K : (fheight (flat_map (zprune plain szof ztr zs' 0) ks) <= fheight ks)%nat).
  { clear -IH. induction IH as [|k ks Hk _ IHk]; [cbn; lia|]. cbn [flat_map]. rewrite fheight_app, fheight_cons.
    specialize (Hk zs'). lia. }
  destruct (szof f <? zs')%N; [lia|].
  match goal with |- context [if ?b then _ else _] => destruct b end; [|cbn; lia].
  rewrite fheight_cons. cbn [height]. fold (fheight (flat_map (zprune plain szof ztr zs' 0) ks)). cbn. lia.
Qed.

Lemma vis_plain_app b d rd f g :
  flat_map (vis plain false b d rd) (f ++ g) = flat_map (vis plain false b d rd) f ++ flat_map (vis plain false b d rd) g.
Proof. apply flat_map_app. Qed.

Lemma splice_is_vis_size szof ztr : forall n zs b d rd rd', Z.of_nat (height n) <= b ->
  map strip (flat_map (vis plain false b d rd') (zprune plain szof ztr zs 0 n)) = map strip (vis_size szof ztr zs d rd n).
Proof.
  induction n as [f t0 t1 ks IH] using call_ind'. intros zs b d rd rd' Hb.
  cbn [height] in Hb. fold (fheight ks) in Hb. cbn [zprune vis_size plain trig_of notrig q_time q_trace q_caller caller_filter].
  set (zs' := match ztr f with Some z => z | None => zs end).
  assert (K : forall b d rd rd', Z.of_nat (fheight ks) <= b ->
            map strip (flat_map (vis plain false b d rd') (flat_map (zprune plain szof ztr zs' 0) ks))
            = map strip (flat_map (vis_size szof ztr zs' d rd) ks)).
  { clear Hb b d rd rd'. induction IH as [|k ks Hk _ IHk]; intros b d rd rd' Hb; [reflexivity|].
    rewrite fheight_cons in Hb. cbn [flat_map]. rewrite vis_plain_app, !map_app.
    rewrite (Hk zs' b d rd rd') by lia. rewrite (IHk b d rd rd') by lia. reflexivity. }
  destruct (szof f <? zs')%N.
  - apply K. lia.
  - replace (tdelta t1 t0 <? 0)%N with false by lia. cbn [negb andb orb].
    cbn [flat_map vis plain trig_of notrig q_filter q_depth q_hide fmode_in negb andb orb gdepth]. rewrite app_nil_r.
    change (loc_hidden plain f) with false. cbn iota. replace (b <=? 0) with false by lia. cbn [orb].
    unfold hidden_plt. cbn [plain libcall negb andb]. cbn [map]. rewrite !map_app. cbn [map strip v_exit v_fn v_disp v_time].
    f_equal. f_equal. apply K. lia.
Qed.

Theorem size_filter_tree_view szof ztr zs f : (fheight f <= 1024)%nat ->
  map strip (select_z plain szof ztr zs f) = map strip (select_size szof ztr zs f).
Proof.
  intro Hh. unfold select_z, select_size, select. cbn [plain threshold gdepth].
  induction f as [|n f IH]; [reflexivity|]. rewrite fheight_cons in Hh.
  cbn [flat_map]. rewrite vis_plain_app, !map_app.
  rewrite (splice_is_vis_size szof ztr n zs 1024 0 0 0) by lia. rewrite IH by lia. reflexivity.
Qed.

(* not vacuous: -Z 48 -T beta@size=100 on main{alpha{beta{gamma}; gamma}; delta}: alpha (16 bytes) goes, its
   callees stay; below beta the limit is 100 so beta (64) and gamma (32 ... but 120 here) are judged against it *)
Definition sz_ex (f : N) : N := match f with 0 => 128 | 1 => 16 | 2 => 64 | 3 => 120 | _ => 96 end%N.
Definition f_sz : list call :=
  [Call 0 1000 9000 [Call 1 1100 3000 [Call 2 1200 1900 [Call 3 1300 1800 []]; Call 3 2000 2900 []]; Call 4 5100 6000 []]].
Example size_filter_example :
  map ob_nd (select_size sz_ex (fun f => if (f =? 2)%N then Some 100%N else None) 48 f_sz)
  = [(false, 0%N, 0); (false, 3%N, 1); (true, 3%N, 1); (false, 3%N, 1); (true, 3%N, 1); (false, 4%N, 1); (true, 4%N, 1); (true, 0%N, 0)].
Proof. vm_compute. reflexivity. Qed.
